"""C04 — growth, pressure, division trigger, 3-sigma clamp and removal follow the cell-cycle law.

Model: Gen/CellCycle.lean (translated from cell.cpp / cell.hpp / cell_types/*.hpp / solver.cpp / cell_divider.cpp on
every run by tools/gen/cxx_cellcycle.py) + Model/CellCycle.lean (population, Option for +inf).
Theorems: Properties/C04.lean.  Correspondence: harness/h_cycle.cpp runs the REAL solver::run_iteration on small
populations and logs every cell; lean/Driver/C04.lean replays the log on the model at Float (trace validation,
line for line).  Oracle: the relations of the property recomputed here from the log of the real run
(Fractions where rational, math.log/exp with 1e-12 relative tolerance)."""
import os, sys, time, json, math
from fractions import Fraction as Fr
from concurrent.futures import ThreadPoolExecutor
import vlib
from vlib import Rng, fhex, unhex

PID = "C04"
NAMESPACE = "Simu.C04"
THEOREMS = ["target_step", "target_increment", "target_ge_min", "target_ge_min_history", "subject_iff",
            "pressure_law", "grow_spec", "grow_frame", "initial_pressure",
            "ready_iff", "clamp3_range", "clamp3_keeps", "clamp3_range_division", "clamp_division_inf", "newborn_in_range", "daughter_spec",
            "removed_exactly", "mem_removeSmall", "removed_order", "iterate_removes", "removed_id_gone",
            "init_ids", "ids_later", "never_reappears", "fresh_ids"]
GEN = ["CellCycle"]
INF = float("inf")
HARNESS = os.path.join(vlib.VERIF, "harness", "h_cycle.cpp")
ENV = dict(vlib.ENV)
# ~solver deletes its writers/contact model through base pointers without virtual destructors (finding of C10,
# DESIGN §7 row 6): not this property's business, and it would hide every log line after the first scenario
ENV["ASAN_OPTIONS"] = ENV["ASAN_OPTIONS"] + ":new_delete_type_mismatch=0"
KINDS = ["epithelial", "ecm", "lumen", "nucleus", "static"]
CUBE_SIDE = 7e-6


# ---------------------------------------------------------------- requests
def ty(kind, K=1e4, Pmax=1e20, P0=0., gavg=0., gstd=0., dvavg=1e20, dvstd=0., minvol=5e-17, tension=1e-3, adh=0., rep=2e9):
    return dict(kind=kind, K=K, Pmax=Pmax, P0=P0, gavg=gavg, gstd=gstd, dvavg=dvavg, dvstd=dvstd, minvol=minvol,
                tension=tension, adh=adh, rep=rep)


def req(mesh, nit, types, cells, dt=1e-7, lmin=7.5e-7, damp=2e-9, cutoff=5e-7, gap=2e-6):
    w = ["run", mesh, str(len(cells)), str(nit), fhex(dt), fhex(lmin), fhex(damp), fhex(cutoff), fhex(gap), str(len(types))]
    for t in types:
        w += [str(t["kind"])] + [fhex(t[k]) for k in ("K", "Pmax", "P0", "gavg", "gstd", "dvavg", "dvstd", "minvol", "tension", "adh", "rep")]
    for (ti, sc) in cells:
        w += [str(ti), fhex(sc)]
    return " ".join(w)


def describe(line):
    """human-readable form of a request line (for replays)"""
    w = line.split()
    out = {"mesh": w[1], "ncells": int(w[2]), "iterations": int(w[3]), "dt": unhex(w[4]), "l_min": unhex(w[5]),
           "damping": unhex(w[6]), "cutoff": unhex(w[7]), "gap": unhex(w[8]), "types": [], "cells": []}
    nt = int(w[9]); k = 10
    for _ in range(nt):
        v = [unhex(x) for x in w[k + 1:k + 12]]
        out["types"].append({"kind": KINDS[int(w[k])], "bulk_modulus": v[0], "max_pressure": v[1], "initial_pressure": v[2],
                             "avg_growth_rate": v[3], "std_growth_rate": v[4], "avg_division_vol": v[5], "std_division_vol": v[6],
                             "min_vol": v[7], "surface_tension": v[8], "adherence": v[9], "repulsion": v[10]})
        k += 12
    for _ in range(out["ncells"]):
        out["cells"].append({"type": int(w[k]), "scale": unhex(w[k + 1])})
        k += 2
    return out


# ---------------------------------------------------------------- generator
SCALES = [1.0, 0.5, 0.8, 1.2]
NOREFINE_LMIN = 3.4e-6      # unit cube: edges 7e-6, diagonals 9.9e-6 <= 3*l_min, so the mesh is never touched


def gen_scenarios(r, n, vol0, tier):
    """vol0[(mesh, scale)] = volume the real code computes for that mesh (measured by a probe run)"""
    out = []
    modes = ["generic"] * 6 + ["shrink", "shrink", "static-threshold", "ready-threshold", "cap", "inf", "ecm", "contact",
                               "sigma", "division", "remove-first"]
    for i in range(n):
        mode = modes[i % len(modes)] if i < 2 * len(modes) else r.choice(modes)
        rr = r.fork("scen%d" % i)
        out.append((mode, gen_one(rr, mode, vol0, tier)))
    return out


def gen_one(r, mode, vol0, tier):
    long_run = tier == "thorough"
    V1 = vol0[("cube", 1.0)]
    K = r.choice([1e2, 1e3, 1e4, 1e4])
    if mode == "generic":
        nt = r.randint(1, 3)
        types = []
        for _ in range(nt):
            kind = r.choice([0, 0, 0, 1, 2, 3, 4])
            g = r.choice([0., 1e-10, -1e-10, 2e-10, -3e-10, 5e-11])
            types.append(ty(kind, K=r.choice([1e2, 1e3, 1e4]), Pmax=r.choice([INF, 1e20, 50., 250., 1e3]),
                            P0=r.choice([0., 0., 100., -50., 300.]), gavg=g, gstd=r.choice([0., abs(g) * 0.2, 1e-11]),
                            dvavg=r.choice([INF, 1e20, V1 * 1.02, V1 * 0.6]), dvstd=r.choice([0., 1e-17]),
                            minvol=r.choice([0., 5e-17, V1 * 0.25, V1 * 0.97]), tension=r.choice([1e-3, 5e-4, 0.])))
        cells = [(r.randint(0, nt - 1), r.choice(SCALES)) for _ in range(r.randint(1, 4))]
        return req("cube", r.randint(3, 25 if long_run else 10), types, cells, lmin=r.choice([7.5e-7, 2e-6, NOREFINE_LMIN]))
    if mode in ("shrink", "remove-first"):
        # negative growth until the volume falls below the minimum volume; the shrinking cell stands last so that the
        # run continues on a tree where removing a non-last cell leaves stale local ids (finding of C08)
        keep = ty(r.choice([0, 2, 3]), K=K, gavg=0., minvol=0.)
        shr = ty(r.choice([0, 0, 2, 3]), K=K, gavg=-r.choice([2e-10, 4e-10]), gstd=r.choice([0., 2e-11]),
                 minvol=V1 * r.choice([0.9, 0.93]), dvavg=INF, tension=r.choice([1e-3, 2e-3]))
        cells = [(0, 1.0)] * r.randint(0, 2) + [(1, 1.0)]
        if mode == "remove-first":
            cells = [(1, 1.0)] + [(0, 1.0)] * r.randint(1, 2)
        return req("cube", 60 if long_run else 40, [keep, shr], cells, lmin=r.choice([2e-6, NOREFINE_LMIN]))
    if mode == "static-threshold":
        # a static cell never moves: its volume is the same double in every iteration, so the minimum volume can be
        # placed exactly on it (not removed) or one ulp above (removed)
        sc = r.choice(SCALES)
        V = vol0[("cube", sc)]
        exact = ty(4, K=K, minvol=V)
        above = ty(4, K=K, minvol=math.nextafter(V, INF))
        other = ty(0, K=K, minvol=0.)
        order = r.choice([[(2, 1.0), (0, sc), (1, sc)], [(0, sc), (2, 1.0), (1, sc)], [(0, sc), (1, sc)]])
        return req("cube", 4, [exact, above, other], order, lmin=NOREFINE_LMIN * max(sc, 1.0))
    if mode == "ready-threshold":
        sc = r.choice(SCALES)
        V = vol0[("cube", sc)]
        at = ty(0, K=K, dvavg=V, dvstd=0.)
        above = ty(0, K=K, dvavg=math.nextafter(V, INF), dvstd=0.)
        lum = ty(r.choice([2, 3, 4, 1]), K=K, dvavg=V * 0.5, dvstd=0.)
        return req("cube", r.randint(1, 6), [at, above, lum], [(0, sc), (1, sc), (2, sc)], lmin=r.choice([2e-6, NOREFINE_LMIN]))
    if mode == "cap":
        cap = r.choice([20., 100., 250.])
        t1 = ty(r.choice([0, 2, 3]), K=K, Pmax=cap, P0=r.choice([cap * 2, cap * 0.5, -cap]), gavg=r.choice([3e-10, 6e-10]),
                gstd=r.choice([0., 3e-11]), minvol=0., dvavg=INF)
        t2 = ty(0, K=K, Pmax=INF, P0=cap * 2, gavg=3e-10, dvavg=INF, minvol=0.)
        return req("cube", 25 if long_run else 12, [t1, t2], [(0, r.choice([1.0, 0.8, 1.2])), (1, 1.0)], lmin=r.choice([2e-6, NOREFINE_LMIN * 0.8]))
    if mode == "inf":
        t1 = ty(0, K=K, Pmax=INF, dvavg=INF, dvstd=r.choice([0., 1e-17]), gavg=r.choice([0., -1e-10, 1e-10]), minvol=r.choice([0., 5e-17]))
        t2 = ty(r.choice([2, 3, 4]), K=K, Pmax=INF, dvavg=INF, gavg=0., minvol=0.)
        return req("cube", r.randint(3, 12), [t1, t2], [(r.randint(0, 1), r.choice(SCALES)) for _ in range(r.randint(1, 3))],
                   lmin=r.choice([7.5e-7, 2e-6]))
    if mode == "ecm":
        sc = r.choice(SCALES)
        V = vol0[("cube", sc)]
        e1 = ty(1, K=K, gavg=1e-10, gstd=1e-11, minvol=r.choice([0., V * 0.5]), P0=100.)       # never updated
        e2 = ty(1, K=K, gavg=-1e-10, minvol=V * 1.5)                                                # removed at once (stale volume)
        epi = ty(0, K=K, gavg=1e-10, minvol=0.)
        return req("cube", r.randint(2, 8), [e1, e2, epi], [(2, 1.0), (0, sc), (1, sc)], lmin=2e-6)
    if mode == "contact":
        t1 = ty(0, K=K, gavg=r.choice([2e-10, 5e-10]), gstd=2e-11, minvol=5e-17, dvavg=INF, adh=r.choice([0., 1e9]))
        return req("cube", 20 if long_run else 10, [t1], [(0, 1.0)] * r.randint(2, 3), lmin=7.5e-7, gap=r.choice([2e-7, 4e-7]))
    if mode == "sigma":
        # many cells of one type: growth rates and division volumes drawn with sigma > 0 (clock-seeded)
        g = r.choice([1e-10, -1e-10, 0.])
        t1 = ty(r.choice([0, 2, 3, 4]), K=K, gavg=g, gstd=r.choice([1e-11, 5e-11, 1e-10]), dvavg=r.choice([V1 * 2, V1 * 0.9]),
                dvstd=r.choice([1e-17, 5e-17]), minvol=0.)
        sc = r.choice(SCALES)
        return req("cube", 2, [t1], [(0, sc)] * r.randint(6, 12), lmin=NOREFINE_LMIN * sc)
    if mode == "division":
        V = vol0[("sphere", 1.0)]
        t1 = ty(0, K=K, gavg=r.choice([1e-11, 0.]), gstd=r.choice([0., 2e-12]), dvavg=V * r.choice([0.45, 0.8, 1.001]),
                dvstd=r.choice([0., V * 0.01]), minvol=r.choice([0., V * 0.1, V * 0.3]), Pmax=r.choice([INF, 500.]))
        return req("sphere", 22 if long_run else 11, [t1], [(0, 1.0)], lmin=r.choice([2e-7, 2.5e-7]))
    raise ValueError(mode)


def probe_volumes(exe):
    """volumes the real code computes for the meshes/scales the generator uses"""
    t = ty(0)
    lines = [req("cube", 0, [t], [(0, s) for s in SCALES]), req("sphere", 0, [t], [(0, 1.0)])]
    out, rc, err = vlib.run_lines(exe, lines, timeout=120, env=ENV)
    vols = [unhex(l.split()[3]) for l in out if l.startswith("born ")]
    if rc != 0 or len(vols) != len(SCALES) + 1:
        raise RuntimeError("probe run failed rc=%s %s" % (rc, err[-500:]))
    d = dict((("cube", s), v) for s, v in zip(SCALES, vols))
    d[("sphere", 1.0)] = vols[-1]
    return d


# ---------------------------------------------------------------- running
VCHK = []          # (stored volume hex, mesh volume hex, line) of every force phase whose stored volume is not the volume of the mesh
VCHK_SEEN = [0]


def split_blocks(lines):
    blocks, cur = [], None
    for l in lines:
        if l.startswith("vchk "):
            # `volume_` right after apply_internal_forces against compute_volume() of the same, unmoved mesh: "V is the enclosed
            # volume of the current mesh" (pressure clause); not part of the block the model replays
            w = l.split()
            VCHK_SEEN[0] += 1
            if len(w) == 5 and w[3] != w[4] and len(VCHK) < 50:
                VCHK.append((w[3], w[4], l))
            continue
        if l == "begin":
            cur = []
            blocks.append(cur)
        if cur is not None:
            cur.append(l)
    return blocks


def complete(block):
    return bool(block) and (block[-1] == "end" or block[-1].startswith("error "))


def run_chunk(exe, reqs):
    """returns list of (request, block lines, None | 'timeout' | crash text)"""
    res = []
    todo = list(reqs)
    while todo:
        out, rc, err = vlib.run_lines(exe, todo, timeout=15 + 1.0 * len(todo), env=ENV)
        blocks = split_blocks(out)
        ok = [b for b in blocks if complete(b)]
        for q, b in zip(todo, ok):
            res.append((q, b, None))
        todo = todo[len(ok):]
        if todo and (rc != 0 or len(ok) == 0):
            partial = blocks[len(ok)] if len(blocks) > len(ok) else []
            res.append((todo[0], partial, "timeout" if rc == "timeout" else "rc=%s %s" % (rc, err[max(0, err.find("ERROR")):][:1500])))
            todo = todo[1:]
    return res


def run_all(exe, reqs, jobs=14, size=16):
    chunks = [reqs[i:i + size] for i in range(0, len(reqs), size)]
    with ThreadPoolExecutor(max_workers=jobs) as ex:
        parts = list(ex.map(lambda c: run_chunk(exe, c), chunks))
    by = {}
    for p in parts:
        for q, b, c in p:
            by[q] = (b, c)
    return [(q,) + by.get(q, ([], "not run")) for q in reqs]


# ---------------------------------------------------------------- oracle (independent restatement, from the log only)
def ishex(x):
    return len(x) == 16 and all(c in "0123456789abcdef" for c in x)


def F(x):
    return Fr(x)


def near(x, y, rel, ab=0.0):
    if math.isnan(x) or math.isnan(y):
        return False
    if x == y:
        return True
    if math.isinf(x) or math.isinf(y):
        return False
    return abs(x - y) <= rel * max(abs(x), abs(y)) + ab


class Stats(dict):
    def hit(self, k, n=1):
        self[k] = self.get(k, 0) + n


def oracle_block(block, st):
    """returns list of (what, log line) for every relation of the property the log contradicts"""
    bad = []
    types = {}
    cur = {}           # id -> dict(ty, V, Vt, p, g, vdiv) after the last completed iteration
    ever = set()       # every id ever listed
    dead = set()
    counter = 0
    dt = None
    mids = []
    pre = []
    itno = None

    def check_draws(tag, t, g, vdiv, line):
        T = types[t]
        if T["gstd"] == 0:
            if g != T["gavg"]:
                bad.append(("growth rate differs from the mean although sigma = 0", line))
        else:
            lo, hi = F(T["gavg"]) - 3 * F(T["gstd"]), F(T["gavg"]) + 3 * F(T["gstd"])
            tol = 4 * F(vlib.ulp(max(abs(T["gavg"]), 3 * abs(T["gstd"]))))
            if not (lo - tol <= F(g) <= hi + tol):
                bad.append(("growth rate outside mean +/- 3 sigma", line))
            st.hit("draws_sigma_pos")
            if g != T["gavg"]:
                st.hit("draws_off_mean")
        if math.isinf(T["dvavg"]) or T["dvstd"] == 0:
            if vdiv != T["dvavg"]:
                bad.append(("division volume differs from the mean although sigma = 0 or the mean is infinite", line))
        else:
            lo, hi = F(T["dvavg"]) - 3 * F(T["dvstd"]), F(T["dvavg"]) + 3 * F(T["dvstd"])
            tol = 4 * F(vlib.ulp(max(abs(T["dvavg"]), 3 * abs(T["dvstd"]))))
            if not (lo - tol <= F(vdiv) <= hi + tol):
                bad.append(("division volume outside mean +/- 3 sigma", line))

    def check_pressure(t, V, Vt, p, line):
        T = types[t]
        if not (V > 0 and Vt > 0) or math.isinf(V) or math.isinf(Vt):
            # collapsed or blown-up mesh (V = 0, NaN): outside the exact-arithmetic reading of the property
            st.hit("pressure_not_checked_degenerate_volume")
            return
        raw = -T["K"] * math.log(V / Vt)
        want = min(T["Pmax"], raw)
        if not near(p, want, 1e-12, 1e-12 * T["K"]):
            bad.append(("pressure %r is not min(max_pressure, -K*ln(V/V_target)) = %r" % (p, want), line))
        if raw > T["Pmax"]:
            st.hit("cap_engaged")
        if math.isinf(T["Pmax"]):
            st.hit("pressure_inf_cap")
        st.hit("pressure_checked")

    def check_ready(t, V, vdiv, ready, line):
        want = 1 if (types[t]["kind"] == 0 and V >= vdiv) else 0
        if ready != want:
            bad.append(("division flag %d, expected %d (kind %s, V %s division volume)" % (ready, want, KINDS[types[t]["kind"]],
                                                                                           ">=" if V >= vdiv else "<"), line))
        st.hit("ready_true" if want else "ready_false")
        if V == vdiv:
            st.hit("ready_at_threshold")

    for line in block:
        w = line.split()
        tag = w[0]
        if tag == "type":
            v = [unhex(x) for x in w[3:11]]
            types[int(w[1])] = dict(kind=int(w[2]), K=v[0], Pmax=v[1], P0=v[2], gavg=v[3], gstd=v[4], dvavg=v[5], dvstd=v[6], minvol=v[7])
            st.hit("kind_" + KINDS[int(w[2])])
        elif tag == "born":
            pass
        elif tag == "init":
            i, t = int(w[1]), int(w[2])
            V, Vt, p, g, vdiv = [unhex(x) for x in w[3:8]]
            T = types[t]
            check_draws("init", t, g, vdiv, line)
            if V < 0:
                bad.append(("negative volume", line))
            want_vt = V * math.exp(T["P0"] / T["K"])
            if not near(Vt, want_vt, 1e-12):
                bad.append(("initial target volume %r is not V*exp(P0/K) = %r" % (Vt, want_vt), line))
            check_pressure(t, V, Vt, p, line)
            if not near(p, min(T["Pmax"], T["P0"]), 1e-9, 1e-11 * T["K"]):
                bad.append(("initial pressure %r is not min(max_pressure, initial_pressure)" % p, line))
            check_ready(t, V, vdiv, int(w[8]), line)
            cur[i] = dict(ty=t, V=V, Vt=Vt, p=p, g=g, vdiv=vdiv, bits=tuple(w[3:8]))
            ever.add(i)
            counter = max(counter, i + 1)
            st.hit("cells")
        elif tag == "iter":
            itno = int(w[1]); dt = unhex(w[2])
            k = w.index("pre")
            pre = [int(x) for x in w[k + 1:]]
            if pre != list(cur.keys()):
                bad.append(("population at the start of the iteration %r differs from the one the last iteration left %r" % (pre, list(cur.keys())), line))
            mids = []
            st.hit("iterations")
        elif tag == "mid":
            i, t, subj = int(w[1]), int(w[2]), int(w[3])
            V0, Vt0, p0, V, Vt, p, g, vdiv = [unhex(x) for x in w[4:12]]
            T = types[t]
            mids.append((i, t, V, line))
            newcomer = i not in cur
            if newcomer:
                # a daughter: fresh id, properties drawn within range
                if i < counter or i in ever:
                    bad.append(("new cell with an id that was already issued (%d, counter %d)" % (i, counter), line))
                if itno % 5 != 0:
                    bad.append(("new cell outside a division iteration", line))
                check_draws("daughter", t, g, vdiv, line)
                ever.add(i)
                st.hit("daughters")
            else:
                c = cur[i]
                if tuple(w[4:7] + w[10:12]) != c["bits"] or t != c["ty"]:
                    bad.append(("cell-cycle state changed between two iterations outside apply_internal_forces", line))
            if V < 0:
                bad.append(("negative volume", line))
            if T["kind"] == 1:
                st.hit("steps_not_subject")
                if w[4:7] != w[7:10]:
                    bad.append(("ecm cell (not subject to internal forces) changed its cell-cycle state", line))
            else:
                st.hit("steps_subject")
                exact = F(Vt0) + F(g) * F(dt)
                want = max(F(T["minvol"]), exact)
                tol = 4 * F(vlib.ulp(max(abs(Vt0), abs(g * dt), abs(Vt))))
                if abs(F(Vt) - want) > tol:
                    bad.append(("target volume %r is not max(min_vol, V_target + growth_rate*dt) = %r" % (Vt, float(want)), line))
                if Vt < T["minvol"]:
                    bad.append(("target volume below the minimum volume", line))
                if exact < F(T["minvol"]):
                    st.hit("floor_engaged")
                st.hit("growth_neg" if g < 0 else ("growth_zero" if g == 0 else "growth_pos"))
                check_pressure(t, V, Vt, p, line)
        elif tag == "post":
            post = [int(x) for x in w[1:]]
            midids = [m[0] for m in mids]
            # mothers: listed before, not seen by the internal-force phase
            for i in pre:
                if i not in midids:
                    c = cur[i]
                    if not (types[c["ty"]]["kind"] == 0 and c["V"] >= c["vdiv"]):
                        bad.append(("cell %d vanished before the internal forces although it was not eligible for division" % i, line))
                    if itno % 5 != 0:
                        bad.append(("cell %d vanished before the internal forces outside a division iteration" % i, line))
                    st.hit("divisions")
            want = [i for (i, t, V, l) in mids if not (V < types[t]["minvol"])]
            if post != want:
                bad.append(("survivors %r, expected %r = the cells whose volume is not below the minimum volume, in order" % (post, want), line))
            for (i, t, V, l) in mids:
                if V < types[t]["minvol"]:
                    st.hit("removals")
                    if i == midids[-1]:
                        st.hit("removals_last")
                if V == types[t]["minvol"]:
                    st.hit("removal_at_threshold")
            for i in post:
                if i in dead:
                    bad.append(("cell %d reappears after it left the population" % i, line))
                if i not in ever:
                    bad.append(("cell %d listed without ever having been created" % i, line))
            for i in list(cur.keys()) + midids:
                if i not in post:
                    dead.add(i)
            newcur = {}
            for (i, t, V, l) in mids:
                if i in post:
                    ww = l.split()
                    V0, Vt0, p0, V, Vt, p, g, vdiv = [unhex(x) for x in ww[4:12]]
                    newcur[i] = dict(ty=t, V=V, Vt=Vt, p=p, g=g, vdiv=vdiv, bits=tuple(ww[7:12]))
            cur = dict((i, newcur[i]) for i in post if i in newcur)
            counter = max([counter] + [i + 1 for i in midids])
        elif tag == "state":
            i, t = int(w[1]), int(w[2])
            V, Vt, p, g, vdiv = [unhex(x) for x in w[3:8]]
            c = cur.get(i)
            if c is None or tuple(w[3:8]) != c["bits"]:
                bad.append(("state after the iteration differs from the state right after apply_internal_forces", line))
            check_ready(t, V, vdiv, int(w[8]), line)
            if V < types[t]["minvol"]:
                bad.append(("a cell below its minimum volume is still in the population at the end of the iteration", line))
        elif tag == "gone":
            pass
        elif tag == "halt":
            st.hit("halt_stale_local_ids")
        elif tag == "error":
            st.hit("solver_exceptions")
    return bad


# ---------------------------------------------------------------- comparison with the model driver
def compare_lines(a, b):
    """harness line vs model line: same words, doubles within 4 ulps"""
    wa, wb = a.split(), b.split()
    if len(wa) != len(wb):
        return False
    for x, y in zip(wa, wb):
        if x == y:
            continue
        if ishex(x) and ishex(y):
            fx, fy = unhex(x), unhex(y)
            if vlib.close(fx, fy, 4, 0.0):
                continue
        return False
    return True


def compare_block(block, model):
    """returns list of (impl line, model line) that differ"""
    diffs = []
    if len(block) != len(model):
        diffs.append(("%d lines" % len(block), "%d lines" % len(model)))
    for a, b in zip(block, model):
        if a.startswith("iter "):
            pass
        if not compare_lines(a, b):
            diffs.append((a, b))
    return diffs


def model_blocks(blocks):
    drv = vlib.driver_path("drv_c04")
    if not os.path.exists(drv):
        return None, "model driver missing (lake build failed)"
    lines = [l for b in blocks for l in b]
    out, rc, err = vlib.run_lines(drv, lines, timeout=600)
    if rc != 0:
        return None, "model driver ended abnormally (rc=%s) %s" % (rc, err[-300:])
    return split_blocks(out), None


def pretty(line):
    return " ".join(("%.17g" % unhex(x)) if ishex(x) else x for x in line.split())


# ---------------------------------------------------------------- corpus
def corpus(vol0):
    V1 = vol0[("cube", 1.0)]
    Vh = vol0[("cube", 0.5)]
    return [
        # division of a cube at iteration 0, an ecm cell, a static cell below its minimum volume standing last
        ("corpus", req("cube", 7, [ty(0, gavg=-1e-10, gstd=1e-11, dvavg=3e-16, dvstd=1e-17), ty(1), ty(4, Pmax=INF, dvavg=INF)],
                       [(0, 1.0), (1, 1.0), (0, 1.2), (2, 0.5)], lmin=3e-6)),
        # the same with the static cell first: its removal leaves stale local ids on a tree without the C08 repair
        ("corpus", req("cube", 7, [ty(0, gavg=-1e-10, gstd=1e-11, dvavg=3e-16, dvstd=1e-17), ty(1), ty(4, Pmax=INF, dvavg=INF)],
                       [(2, 0.5), (0, 1.0), (1, 1.0)], lmin=3e-6)),
        # thresholds hit exactly: min_vol == V (stays), min_vol one ulp above V (goes), division volume == V (eligible)
        ("corpus", req("cube", 3, [ty(4, minvol=V1), ty(0, dvavg=V1, minvol=0.), ty(4, minvol=math.nextafter(Vh, INF))],
                       [(0, 1.0), (1, 1.0), (2, 0.5)], lmin=NOREFINE_LMIN)),
        # initial pressure above the cap, infinite cap next to it
        ("corpus", req("cube", 6, [ty(0, Pmax=250., P0=300., gavg=4e-10, minvol=0., dvavg=INF), ty(2, Pmax=INF, P0=300., gavg=4e-10, dvavg=INF)],
                       [(0, 1.0), (1, 0.8)], lmin=2e-6)),
        # two generations of divisions, the grand-daughters fall below the minimum volume
        ("corpus", req("sphere", 6, [ty(0, gavg=2e-10, gstd=1e-11, dvavg=5e-17, dvstd=0.)], [(0, 1.0)], lmin=2.5e-7)),
    ]


# ---------------------------------------------------------------- the check
def evaluate(reqs_tagged, exe, V, st, use_model=True):
    """runs the scenarios on the implementation, the oracle and the model; fills V; returns counters"""
    results = run_all(exe, [q for _, q in reqs_tagged])
    blocks = []
    n_oracle_fail = 0
    crashes = 0
    timeouts = 0
    notes = []
    for (mode, q), (_, block, crash) in zip(reqs_tagged, results):
        st.hit("mode_" + mode)
        if crash == "timeout":
            # the solver did not come back (remeshing of a collapsed mesh): termination is not this property's subject;
            # the part of the log that exists is still checked
            timeouts += 1
            st.hit("timeouts")
            st.hit("timeouts_mode_" + mode)
            notes.append({"timeout": describe(q), "mode": mode})
        elif crash is not None:
            # a sanitizer abort inside the solver (so far: the heap-buffer-overflow of delaunator.hpp:276 under
            # cell_divider::triangulate_division_interface when flat cells divide repeatedly): invalid memory accesses are
            # C10's subject; here the log up to the abort is still checked and the event is counted
            crashes += 1
            st.hit("crashes_mode_" + mode)
            head = [l for l in crash.splitlines() if "ERROR" in l or " #0 " in l or " #1 " in l][:3]
            notes.append({"crash": head or crash[:300], "line": q, "mode": mode})
        bad = oracle_block(block, st)
        if bad:
            n_oracle_fail += 1
            if n_oracle_fail <= 3:
                what, line = bad[0]
                V.fail_input(what, {"line": q, "scenario": describe(q), "mode": mode, "log_line": pretty(line),
                                    "further": [(w, pretty(l)) for w, l in bad[1:4]]}, key=None)
        blocks.append(block)
    if timeouts + crashes > max(3, len(reqs_tagged) // 25):
        V.fail_tie("machinery", "%d of %d scenarios timed out and %d aborted: the check is not conclusive" % (timeouts, len(reqs_tagged), crashes))
    model, err = model_blocks(blocks) if use_model else (None, "the model driver does not build from the current source (translation or model broken)")
    disagreements = 0
    identical = 0
    compared = 0
    if model is None:
        V.fail_tie("correspondence", err)
    else:
        if len(model) != len(blocks):
            V.fail_tie("correspondence", "model driver answered %d scenarios of %d" % (len(model), len(blocks)))
        for (mode, q), b, m in zip(reqs_tagged, blocks, model):
            d = compare_block(b, m)
            compared += len(b)
            identical += sum(1 for x, y in zip(b, m) if x == y)
            if d:
                disagreements += 1
                if disagreements <= 3:
                    V.fail_tie("correspondence", "model and implementation differ: impl `%s` model `%s`" % (pretty(d[0][0]), pretty(d[0][1])),
                               line=q, scenario=describe(q), mode=mode)
    return dict(oracle_failures=n_oracle_fail, crashes=crashes, timeouts=timeouts, notes=notes[:8], disagreements=disagreements, lines_compared=compared,
                lines_bit_identical=identical, blocks=blocks)


def run(ctx):
    tier, seed = ctx["tier"], ctx["seed"]
    t0 = time.time()
    V = vlib.Verdict(PID)
    gen = vlib.translate.run(GEN)
    proof = vlib.prove(PID, THEOREMS, NAMESPACE, extra_targets=("drv_c04",))
    for f in proof["failures"]:
        V.fail_tie("proof", "%s: %s" % (f["theorem"], f["reason"]), errors=proof["errors"][:5])
    if tier == "thorough" and proof["ok"]:
        ok, log = vlib.leanchecker("SimuVerif.Properties.C04")
        if not ok:
            V.fail_tie("proof", "leanchecker rejected SimuVerif.Properties.C04", log=log)
    drv_ok = True
    if not proof["ok"]:
        # the executable of an earlier build must not stand in for a model that no longer compiles
        drv_ok, _log, _ = vlib.lake_build(["drv_c04"])
    exe, rebuilt = vlib.build_repo.build_harness(HARNESS, "h_cycle", link_repo=True)
    vol0 = probe_volumes(exe)
    n = 340 if tier == "quick" else 4000
    if not proof["ok"]:
        n = max(n, 1000)       # a proof broke: widen the search for a concrete failing input
    r = Rng(seed)
    scen = corpus(vol0) + gen_scenarios(r, n, vol0, tier)
    st = Stats()
    res = evaluate(scen, exe, V, st, use_model=drv_ok)
    for sv, mv, ln in VCHK[:1]:
        V.fail_input("the volume a pressure is computed from is not the enclosed volume of the current mesh: the cell holds %r, its mesh encloses %r "
                     "(%d such force phases of %d)" % (unhex(sv), unhex(mv), len(VCHK), VCHK_SEEN[0]), {"log_line": ln, "note": "re-run the check with the same VERIF_SEED"})
    rcode, nviol = V.finish()
    samples = []
    for (mode, q), b in list(zip(scen, res["blocks"]))[:2]:
        samples.append({"mode": mode, "scenario": describe(q), "log_head": [pretty(l) for l in b[:12]]})
    cov = {
        "obligations": proof["obligations"], "discharged": proof["discharged"],
        "force_phases_with_stored_volume_checked_against_the_mesh": VCHK_SEEN[0], "stored_volume_differs_from_mesh": len(VCHK),
        "checker_cmd": "lake build SimuVerif.Properties.C04 SimuVerif.Audit.C04 drv_c04 (+ lake env leanchecker in the thorough tier)",
        "trusted_base": vlib.TRUSTED_COMMON + [
            "harness/h_cycle.cpp: probe subclasses that call the unmodified apply_internal_forces and read the public getters before/after it",
            "the volume V is an input of the model (compute_volume is C12's subject); ln/exp are Float.log/Float.exp in the driver and arbitrary functions in the theorems",
        ],
        "theorems": {k: v for k, v in proof["axioms"].items()},
        "proof_failures": proof["failures"],
        "translator": gen,
        "evaluations": len(scen), "distinct_nontrivial": len(set(q for _, q in scen)),
        "rule": "seeded scenarios of the real solver (1-12 cubes/spheres, 1-3 parameter sets, modes generic/shrink/static-threshold/ready-threshold/cap/inf/ecm/contact/sigma/division/remove-first) + corpus; distinct = distinct request lines; every logged cell-iteration is one checked step",
        "distribution": dict(st),
        "cell_steps_checked": st.get("steps_subject", 0) + st.get("steps_not_subject", 0),
        "log_lines_compared_with_model": res["lines_compared"], "log_lines_bit_identical": res["lines_bit_identical"],
        "model_vs_impl_disagreements": res["disagreements"], "oracle_failures": res["oracle_failures"],
        "solver_aborts_not_this_property": res["crashes"], "solver_timeouts": res["timeouts"], "aborts_and_timeouts": res["notes"],
        "repo_objects_rebuilt": rebuilt, "samples": samples,
    }
    vlib.write_evidence(PID, tier, "proof", cov, [
        "volumes are what cell::compute_volume returns (non-negative: |vol|); the theorem removed_exactly carries 0 <= V",
        "clock-seeded draws: only the clamp range of the drawn growth rates / division volumes is checked (no seed hook needed)",
        "1 solver thread (the order of the probe records is the list order); thread-independence is C15's subject",
        "run-time oracle tolerances: 4 ulp on the target volume, 1e-12 relative (+1e-12*K) on the pressure",
        "scenarios stop (`halt stale-local-ids`) when a removal leaves cell_lst_[i]->get_local_id() != i (finding of C08, DESIGN §7 row 7)",
    ], time.time() - t0, nviol)
    return rcode


def replay(ctx):
    """re-run the stored scenario on the current implementation, oracle and model"""
    rp = ctx["replay"]
    fi = rp.get("failing_input", {}).get("input", {})
    line = fi.get("line")
    if not line:
        nl = rp.get("no_longer_checks", [])
        line = next((x.get("line") for x in nl if x.get("line")), None)
    if not line:
        print("replay file names no input: %s" % json.dumps(rp.get("no_longer_checks", rp))[:2000])
        return 1
    vlib.translate.run(GEN)
    vlib.lake_build(["drv_c04"])
    exe, _ = vlib.build_repo.build_harness(HARNESS, "h_cycle")
    V = vlib.Verdict(PID)
    st = Stats()
    print("scenario:", json.dumps(describe(line)))
    res = evaluate([("replay", line)], exe, V, st)
    for b in res["blocks"]:
        for l in b[:60]:
            print("  " + pretty(l))
    for c in V.concrete:
        print("FAILS: %s\n   at %s" % (c["what"], c["input"].get("log_line", "")))
    for b in V.broken:
        print("MODEL/IMPL: %s" % b["what"])
    if V.concrete or V.broken:
        print("VIOLATION property=C04 replay=%s" % ctx.get("replay_path", "-"))
        return 1
    print("property holds on this input now")
    return 0
