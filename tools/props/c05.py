"""C05 — point-to-triangle kernel.  Model: Gen.closestPt (translated from the C++ on every run).
Theorems: Properties/C05.lean.  Correspondence: real kernel vs Float instance of the model.
Oracle: exact closest point by enumeration of the 7 features in Fractions."""
import os, sys, time, json, math
from fractions import Fraction as Fr
import vlib
from vlib import Rng, fhex, unhex

PID = "C05"
NAMESPACE = "Simu.C05"
THEOREMS = ["kernel_spec", "bary_nonneg", "bary_sum_one", "dist_eq", "closest",
            "translate_invariant", "isometry_invariant", "linIso_of_orthonormal", "linIso_rotZ", "nonDeg_iff"]
GEN = ["Kernel"]


# ---------------------------------------------------------------- generator
def gen_case(r):
    scale = 10.0 ** r.uniform(-6, 3)
    # triangle edges with a decent angle
    while True:
        u = [r.normal() for _ in range(3)]
        v = [r.normal() for _ in range(3)]
        nu = math.sqrt(sum(x * x for x in u)); nv = math.sqrt(sum(x * x for x in v))
        if nu < 0.2 or nv < 0.2:
            continue
        c = sum(x * y for x, y in zip(u, v)) / (nu * nv)
        if abs(c) < 0.985:
            break
    lu = r.uniform(0.3, 3.0); lv = r.uniform(0.3, 3.0)
    u = [x / nu * lu * scale for x in u]; v = [x / nv * lv * scale for x in v]
    offk = r.choice([0.0, 0.0, 1.0, -1.0, 30.0, 1e3, -1e3])
    off = [offk * scale * r.uniform(0.5, 1.5) * r.choice([1, -1]) for _ in range(3)] if offk else [0.0, 0.0, 0.0]
    a = off
    b = [a[i] + u[i] for i in range(3)]
    c = [a[i] + v[i] for i in range(3)]
    n = [u[1] * v[2] - u[2] * v[1], u[2] * v[0] - u[0] * v[2], u[0] * v[1] - u[1] * v[0]]
    nn = math.sqrt(sum(x * x for x in n))
    n = [x / nn for x in n]
    mode = r.randint(0, 9)
    if mode <= 5:
        s = r.uniform(-1.5, 2.5); t = r.uniform(-1.5, 2.5)
    elif mode == 6:   # on / near a vertex or an edge
        s, t = r.choice([(0, 0), (1, 0), (0, 1), (0.5, 0), (0, 0.5), (0.5, 0.5), (r.uniform(0, 1), 0.0), (0.0, r.uniform(0, 1))])
    elif mode == 7:   # strictly interior
        s = r.uniform(0.02, 0.9); t = r.uniform(0.02, 0.98 - s) if s < 0.96 else 0.01
    else:
        s = r.uniform(-6, 6); t = r.uniform(-6, 6)
    h = r.choice([0.0, r.uniform(-2, 2) * scale, r.uniform(-0.01, 0.01) * scale, r.uniform(-30, 30) * scale])
    p = [a[i] + s * u[i] + t * v[i] + h * n[i] for i in range(3)]
    tri = [a, b, c]
    perm = r.choice([(0, 1, 2), (1, 2, 0), (2, 0, 1), (0, 2, 1), (2, 1, 0), (1, 0, 2)])
    tri = [tri[k] for k in perm]
    return p + tri[0] + tri[1] + tri[2]


def line_of(case):
    return "kernel " + " ".join(fhex(x) for x in case)


# ---------------------------------------------------------------- exact oracle
def exact_closest(case):
    """returns (exact min squared distance, region name) with Fractions"""
    x = [Fr(v) for v in case]
    p, a, b, c = x[0:3], x[3:6], x[6:9], x[9:12]
    sub = lambda u, v: [u[i] - v[i] for i in range(3)]
    dot = lambda u, v: sum(u[i] * v[i] for i in range(3))
    best = None
    for name, q in (("A", a), ("B", b), ("C", c)):
        d = dot(sub(p, q), sub(p, q))
        if best is None or d < best[0]:
            best = (d, name)
    for name, (e0, e1) in (("AB", (a, b)), ("AC", (a, c)), ("BC", (b, c))):
        e = sub(e1, e0)
        ee = dot(e, e)
        if ee == 0:
            continue
        t = dot(sub(p, e0), e) / ee
        if 0 < t < 1:
            q = [e0[i] + t * e[i] for i in range(3)]
            d = dot(sub(p, q), sub(p, q))
            if d < best[0]:
                best = (d, name)
    ab, ac, ap = sub(b, a), sub(c, a), sub(p, a)
    A, B, C = dot(ab, ab), dot(ab, ac), dot(ac, ac)
    det = A * C - B * B
    if det != 0:
        d1, d2 = dot(ab, ap), dot(ac, ap)
        s = (C * d1 - B * d2) / det
        t = (A * d2 - B * d1) / det
        if s > 0 and t > 0 and s + t < 1:
            q = [a[i] + s * ab[i] + t * ac[i] for i in range(3)]
            d = dot(sub(p, q), sub(p, q))
            if d < best[0]:
                best = (d, "F")
    return best


def oracle(case, out):
    """checks the implementation's answer against the property; returns None or a failure text"""
    d, u, v, w = out
    if any(math.isnan(z) or math.isinf(z) for z in out):
        return "non-finite result"
    x = [Fr(z) for z in case]
    p, a, b, c = x[0:3], x[3:6], x[6:9], x[9:12]
    if min(u, v, w) < -1e-12:
        return "negative barycentric coordinate %r" % ((u, v, w),)
    if abs(u + v + w - 1) > 1e-12:
        return "barycentric coordinates sum to %r" % (u + v + w)
    q = [Fr(u) * a[i] + Fr(v) * b[i] + Fr(w) * c[i] for i in range(3)]
    dq = sum((p[i] - q[i]) ** 2 for i in range(3))
    dmin, region = exact_closest(case)
    L2 = max(float(sum((a[i] - b[i]) ** 2 for i in range(3))), float(sum((a[i] - c[i]) ** 2 for i in range(3))),
             float(sum((c[i] - b[i]) ** 2 for i in range(3))))
    off2 = max(abs(float(z)) for z in x[3:]) ** 2
    tol = 1e-7 * (L2 + float(dmin)) + 1e-12 * off2
    if abs(float(dq - dmin)) > tol:
        return "designated point is not the closest point: |p-q|^2=%g, true minimum=%g (region %s)" % (float(dq), float(dmin), region)
    if abs(d - float(dq)) > tol:
        return "returned squared distance %g differs from |p-q|^2=%g (region %s)" % (d, float(dq), region)
    return None


def parse_out(line):
    w = line.split()
    if len(w) != 4:
        return None
    try:
        return [unhex(z) for z in w]
    except ValueError:
        return None


CORPUS = [
    # the known past failure: first vertex away from the origin, query above the interior
    [10.25, 20.25, 30.5, 10, 20, 30, 11, 20, 30, 10, 21, 30],
    [0.25, 0.25, 0.5, 0, 0, 0, 1, 0, 0, 0, 1, 0],
    [-1000.2, 2000.3, 0.5, -1000.5, 2000, 0, -999.5, 2000, 0, -1000.5, 2001, 0],
]


def run(ctx):
    tier, seed = ctx["tier"], ctx["seed"]
    t0 = time.time()
    V = vlib.Verdict(PID)
    gen = vlib.translate.run(GEN)
    proof = vlib.prove(PID, THEOREMS, NAMESPACE, extra_targets=("drv_c05",))
    for f in proof["failures"]:
        V.fail_tie("proof", "%s: %s" % (f["theorem"], f["reason"]), errors=proof["errors"][:5])
    if tier == "thorough" and proof["ok"]:
        ok, log = vlib.leanchecker("SimuVerif.Properties.C05")
        if not ok:
            V.fail_tie("proof", "leanchecker rejected SimuVerif.Properties.C05", log=log)
    exe, rebuilt = vlib.build_repo.build_harness(os.path.join(vlib.VERIF, "harness", "h_kernel.cpp"), "h_kernel", link_repo=True)
    n = 6000 if tier == "quick" else 120000
    if not proof["ok"]:
        n = max(n, 60000)      # a proof broke: widen the search for a concrete failing input
    r = Rng(seed)
    cases = [list(map(float, c)) for c in CORPUS] + [gen_case(r) for _ in range(n)]
    lines = [line_of(c) for c in cases]
    impl, rc, err = vlib.run_lines(exe, lines)
    if rc != 0 or len(impl) != len(lines):
        V.fail_input("harness ended abnormally (rc=%s): %s" % (rc, err[-600:]), {"first_lines": lines[:3]}, key=None)
    drv = vlib.driver_path("drv_c05")
    model = None
    if os.path.exists(drv):
        model, rc2, err2 = vlib.run_lines(drv, lines)
        if rc2 != 0 or len(model) != len(lines):
            V.fail_tie("correspondence", "model driver ended abnormally (rc=%s) %s" % (rc2, err2[-300:]))
            model = None
    else:
        V.fail_tie("correspondence", "model driver missing (lake build failed)")
    regions = {}
    bit_identical = 0
    disagreements = 0
    oracle_fail = 0
    samples = []
    for i, c in enumerate(cases):
        if i >= len(impl):
            break
        o = parse_out(impl[i])
        if o is None:
            V.fail_input("unparseable harness answer %r" % impl[i], {"case": c, "line": lines[i]})
            continue
        reg = exact_closest(c)[1] if (i < 3000 or tier == "thorough") else "?"
        regions[reg] = regions.get(reg, 0) + 1
        if i < 3:
            samples.append({"line": lines[i], "p_a_b_c": c, "impl": o, "region": reg})
        msg = oracle(c, o) if (i < 3000 or tier == "thorough" or not proof["ok"]) else None
        if msg:
            oracle_fail += 1
            if oracle_fail <= 3:
                V.fail_input(msg, {"p_a_b_c": c, "line": lines[i], "impl_d_u_v_w": o}, key=None)
        if model is not None:
            m = parse_out(model[i])
            if m is None:
                disagreements += 1
                continue
            if impl[i].split() == model[i].split():
                bit_identical += 1
            else:
                sc = max(abs(z) for z in c)
                if not all(vlib.close(x, y, 64, 1e-12 * sc * sc if k == 0 else 1e-12) for k, (x, y) in enumerate(zip(o, m))):
                    disagreements += 1
                    if disagreements <= 3:
                        V.fail_tie("correspondence", "model and implementation differ on %s: impl=%r model=%r" % (lines[i], o, m),
                                   case=c)
    rcode, nviol = V.finish()
    cov = {
        "obligations": proof["obligations"], "discharged": proof["discharged"],
        "checker_cmd": "lake build SimuVerif.Properties.C05 SimuVerif.Audit.C05 (+ lake env leanchecker in the thorough tier)",
        "trusted_base": vlib.TRUSTED_COMMON,
        "theorems": {k: v for k, v in proof["axioms"].items()},
        "proof_failures": proof["failures"],
        "translator": gen,
        "evaluations": len(cases), "distinct_nontrivial": len(set(lines)),
        "rule": "seeded 7-region-stratified (plane coordinates s,t over and around the triangle, normal offsets, scales 1e-6..1e3, offsets 0..1e3 x size, 6 vertex permutations) + corpus of past failures; distinct = distinct request lines",
        "region_hits_first_3000": regions, "model_vs_impl_bit_identical": bit_identical,
        "model_vs_impl_disagreements": disagreements, "oracle_failures": oracle_fail,
        "repo_objects_rebuilt": rebuilt, "samples": samples,
    }
    vlib.write_evidence(PID, tier, "proof", cov, [
        "triangles generated with interior angles away from 0/180 degrees; NaN/Inf inputs are not generated",
        "tolerance of the run-time oracle: 1e-7*(L^2+d^2)+1e-12*offset^2",
    ], time.time() - t0, nviol)
    return rcode


def replay(ctx):
    """re-run the stored failing input on the current implementation"""
    rp = ctx["replay"]
    fi = rp.get("failing_input", {}).get("input", {})
    line = fi.get("line")
    if not line:
        print("replay file names no input: %s" % json.dumps(rp.get("no_longer_checks", rp))[:2000])
        return 1
    exe, _ = vlib.build_repo.build_harness(os.path.join(vlib.VERIF, "harness", "h_kernel.cpp"), "h_kernel")
    out, rc, err = vlib.run_lines(exe, [line])
    o = parse_out(out[0]) if out else None
    case = [unhex(w) for w in line.split()[1:]]
    msg = oracle(case, o) if o else "no answer (rc=%s)" % rc
    print("input p,a,b,c =", case)
    print("implementation d,u,v,w =", o)
    print("exact minimum d^2, region =", [float(exact_closest(case)[0]), exact_closest(case)[1]])
    if msg:
        print("VIOLATION property=C05 replay=%s" % ctx.get("replay_path", "-"))
        print(msg)
        return 1
    print("property holds on this input now")
    return 0
