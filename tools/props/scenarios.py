"""Scenario runs of the real solver through harness/h_solver.cpp (shared by C10, C14, C15)."""
import os, re, subprocess, time, shutil, tempfile
import vlib

HARNESS = os.path.join(vlib.VERIF, "harness", "h_solver.cpp")
TEMPLATE = os.path.join(vlib.REPO, "parameters_default_dynamic.xml")
MESHES = os.path.join(vlib.REPO, "data", "input_meshes")


def setp(x, tag, val, which=0):
    """replace the text of the `which`-th element <tag> (all of them when which is None)"""
    pat = re.compile(r"<%s>[^<]*</%s>" % (tag, tag))
    if which is None:
        return pat.sub("<%s>%s</%s>" % (tag, val, tag), x)
    ms = list(pat.finditer(x))
    if which >= len(ms):
        return x
    m = ms[which]
    return x[:m.start()] + "<%s>%s</%s>" % (tag, val, tag) + x[m.end():]


def make_params(workdir, mesh, lmin, overrides=None, all_overrides=None):
    x = open(TEMPLATE).read()
    meshpath = mesh if os.path.isabs(mesh) else os.path.join(MESHES, mesh)
    x = setp(x, "input_mesh_file_path", meshpath)
    x = setp(x, "output_mesh_folder_path", os.path.join(workdir, "out"))
    x = setp(x, "min_edge_length", lmin)
    x = setp(x, "sampling_period", "1e-5")
    for k, v in (overrides or {}).items():
        x = setp(x, k, v)
    for k, v in (all_overrides or {}).items():
        x = setp(x, k, v, None)
    p = os.path.join(workdir, "p.xml")
    open(p, "w").write(x)
    return p


def build(san="asan", defines=None, ndebug=True):
    exe, rebuilt = vlib.build_repo.build_harness(HARNESS, "h_solver_" + san + ("" if ndebug else "_dbg"), defines=defines, san=san, ndebug=ndebug)
    return exe, rebuilt


def classify(rc, stderr):
    """None when the run ended normally (or with a reported std::exception), else a short description + key"""
    m = re.search(r"ERROR: (AddressSanitizer|ThreadSanitizer|LeakSanitizer): ([\w-]+)", stderr)
    if m:
        frames = re.findall(r"#\d+ 0x[0-9a-f]+ in ([^\s(]+(?:\([^)]*\))?)[^\n]*?(/repo/[^\s:]+|%s/[^\s:]+):(\d+)" % re.escape(vlib.REPO), stderr)
        where = frames[0] if frames else ("?", "?", "0")
        return "%s: %s in %s (%s:%s)" % (m.group(1), m.group(2), where[0][:80], os.path.relpath(where[1], vlib.REPO) if where[1] != "?" else "?", where[2]), \
               "%s@%s" % (m.group(2), where[0].split("(")[0][:60])
    m = re.search(r"([^\s:]+):(\d+):\d+: runtime error: ([^\n]+)", stderr)
    if m:
        return "UBSan: %s at %s:%s" % (m.group(3)[:120], m.group(1), m.group(2)), "ubsan@%s" % os.path.basename(m.group(1))
    m = re.search(r"([^\s:]+):(\d+): ([^\n]*?): Assertion '([^\n]+)' failed", stderr)
    if m:
        return "libstdc++ precondition violated (%s:%s, %s): %s" % (os.path.basename(m.group(1)), m.group(2), m.group(3)[-90:], m.group(4)[:120]), \
               "glibcxx-assert@%s:%s" % (os.path.basename(m.group(1)), m.group(2))
    if "terminate called" in stderr:
        mm = re.search(r"terminate called[^\n]*\n?[^\n]*", stderr)
        return "std::terminate: %s" % (mm.group(0)[:200].replace("\n", " ") if mm else ""), "terminate"
    if isinstance(rc, int) and rc < 0:
        return "killed by signal %d" % (-rc), "signal%d" % (-rc)
    if rc == "timeout":
        return "did not return within the time limit", "timeout"
    if rc in (97, 98):
        return "sanitizer exit code %s: %s" % (rc, stderr[-300:]), "sanitizer"
    return None, None


def run(exe, params, iters, threads, every, translate=None, mode="full", timeout=600, env=None):
    args = [exe, params, str(iters), str(threads), str(every)]
    if translate is not None:
        args += [vlib.fhex(t) for t in translate]
    args.append(mode)
    e = dict(env or vlib.ENV)
    e["OMP_NUM_THREADS"] = str(threads)
    t = time.time()
    try:
        p = subprocess.run(args, capture_output=True, timeout=timeout, env=e)
        rc, out, err = p.returncode, p.stdout.decode(errors="replace"), p.stderr.decode(errors="replace")
    except subprocess.TimeoutExpired as ex:
        rc, out, err = "timeout", (ex.stdout or b"").decode(errors="replace"), (ex.stderr or b"").decode(errors="replace")
    return {"rc": rc, "out": out, "err": err, "wall": time.time() - t, "args": args}


def parse_states(out):
    """list of snapshots: dict(iter, time, cells=[dict(id, local, type, area, vol, tvol, p, P, M, T)])"""
    snaps = []
    cur = None
    cell = None
    for line in out.splitlines():
        w = line.split()
        if not w:
            continue
        if w[0] == "S":
            cur = {"iter": int(w[1]), "time": vlib.unhex(w[2]), "ncells": int(w[3]), "cells": []}
            snaps.append(cur)
        elif w[0] == "C" and cur is not None:
            cell = {"id": int(w[1]), "local": int(w[2]), "type": int(w[3]), "nn": int(w[4]), "nf": int(w[5]),
                    "area": w[6], "vol": w[7], "tvol": w[8], "p": w[9], "P": [], "M": [], "T": []}
            cur["cells"].append(cell)
        elif w[0] in ("P", "M", "T") and cell is not None:
            cell[w[0]] = w[1:]
    return snaps


class Workdir:
    def __enter__(self):
        self.d = tempfile.mkdtemp(prefix="verif_sc_")
        return self.d

    def __exit__(self, *a):
        shutil.rmtree(self.d, ignore_errors=True)


# ---------------------------------------------------------------- generated input tissues (already triangulated)
def icosphere(level, radius, center, stretch=(1.0, 1.0, 1.0), egg=0.0):
    """`egg` > 0 makes the shape asymmetric along z, so that planes through the centroid do not pass through nodes"""
    import remesh_common as RC
    P, T = RC.base_solid("icosa")
    for _ in range(level):
        P, T = RC.subdivide(P, T)
    P = [[center[0] + radius * stretch[0] * p[0], center[1] + radius * stretch[1] * (p[1] + 0.5 * egg * p[0] * p[0]),
          center[2] + radius * stretch[2] * (p[2] + egg * p[2] * p[2])] for p in P]
    return P, T


def write_vtk(path, cells):
    """cells: list of (points, triangles, cell_type_id); one unstructured-grid polyhedron per cell, as the reader expects"""
    pts = []
    lines = []
    for (P, T, ty) in cells:
        base = len(pts)
        pts += P
        body = [str(len(T))]
        for (a, b, c) in T:
            body += ["3", str(a + base), str(b + base), str(c + base)]
        lines.append("%d %s" % (len(body), " ".join(body)))
    total = sum(len(l.split()) for l in lines)
    with open(path, "w") as f:
        f.write("# vtk DataFile Version 4.2\nvtk output\nASCII\nDATASET UNSTRUCTURED_GRID\nPOINTS %d double\n" % len(pts))
        for p in pts:
            f.write("%r %r %r\n" % (p[0], p[1], p[2]))
        f.write("\nCELLS %d %d\n" % (len(cells), total))
        for l in lines:
            f.write(l + "\n")
        f.write("\nCELL_TYPES %d\n" % len(cells))
        f.write("\n".join("42" for _ in cells) + "\n")
        f.write("\nCELL_DATA %d\nFIELD FieldData 1\ncell_type_id 1 %d int\n" % (len(cells), len(cells)))
        f.write(" ".join(str(ty) for (_, _, ty) in cells) + "\n")


DETERMINISTIC = {"std_growth_rate": "0", "std_division_volume": "0"}
