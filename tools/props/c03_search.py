"""C03 (addition) — the hypotheses about the contact SEARCH of the coupling-pass theorems are discharged from the modelled search.

Properties/C03Coupling.lean proves that the two tail loops of contact_node_node_via_coupling::resolve_all_contacts establish `Mutual`
UNDER `SearchOK` / `NoStale` of the table the search hands over.  Properties/C03Search.lean proves those two (hence `RangeOK`, and
`PairOK` after loop (A)) of the table that the MODELLED search produces — `Tissue.contactSearch` (Model/Tissue.lean) and
`TissueR.contactSearchR` (Model/TissueR.lean, meshes with released slots), the models that the C14 checks tie bit for bit to the real
solver (tools/props/c14_tissue.py, c14_tissue_remesh.py: every coupling / closest distance / force of every iteration, released slots
dumped raw in mode `tslots`) — and composes: the pass is defined, the table after the contact phase is `Mutual`, pairs coincide, and
`pairTopo_of_mutual` applies to the topology the models' own position update reads.

This module only re-checks the proofs (there is no new executable model: the tie of the search model is C14's):
  THEOREMS_SEARCH, GEN_SEARCH, prove_search()            Properties/C03Search.lean
  THEOREMS_SEARCH_INV, prove_search_invariants()           Properties/C03SearchInvariants.lean (needs Properties/C14TissueInvariants.lean)
"""
import vlib

PROOF_PID = "C03Search"
NAMESPACE = "Simu.C03"
THEOREMS_SEARCH = [
    # Model/Tissue.lean (all slots in use); any scalar type
    "search_searchOK", "searchOK_any_schedule", "search_couples_epithelial", "search_rangeOK", "search_pass_defined", "contactRun_defined", "contactRun_table",
    "contactRun_pairs_coincide", "beforeIntegration_pairs_coincide", "beforeIntegration_defined",
    # Model/TissueR.lean (released node / face slots); any scalar type
    "facesLive_of_cellMeshOk", "searchR_searchOK", "searchR_couples_epithelial", "searchR_rangeOK", "searchR_keeps_released", "searchR_pass_defined",
    "contactRunR_defined", "contactRunR_pairs_coincide", "contactRunR_coupOk", "beforeIntegrationR_pairs_coincide",
    "beforeIntegrationR_defined_coupOk", "contactRunR_keeps_staleFree", "iterationR_freeClean",
    # ordered field: NoStale, Mutual, the pair theorems of C03 on the topology the models integrate
    "search_noStale", "searchR_noStale", "contactRun_mutual", "tissue_integrator_mutual", "tissue_pair_integrated_once",
    "contactRunR_mutual", "tissueR_integrator_mutual", "tissueR_pair_integrated_once",
    # along a run
    "facesInRange_iteration", "tissueRun_mutual", "tissueRun_defined",
    # non-vacuity (kernel evaluation over Q)
    "sQ2_facesInRange", "sQ2_search_couples", "rel_facesLive", "rel_staleFree", "rel_couples", "rel_stale_not_mutual",
]
# Properties/C03SearchInvariants.lean: the mesh hypotheses of the TissueR theorems above discharged from the invariant `AllOk` of
# Properties/C14TissueInvariants.lean (separate module: it needs that package)
PROOF_PID_INV = "C03SearchInvariants"
THEOREMS_SEARCH_INV = [
    "facesLive_of_allOk", "queueExact_of_allOk", "staleFree_iff_freeClean", "tissueIterationR_mutual_of_invariants",
    "tissueRunR_freeClean", "tissueIterationR_defined_of_invariants",
]
# generated files in the import closure of Properties/C03Search.lean (the search model calls Gen.rule1, the gates, the box / grid
# arithmetic; the rest of the tissue models comes with the import)
GEN_SEARCH = ["Kernel", "BroadPhase", "ContactRule", "Integrator", "Forces", "NodeNormals", "CellCycle", "RemeshConsts", "Schedule",
              "Geometry"]


def prove_search(translate=True):
    """axiom audit of THEOREMS_SEARCH through their own module (Properties/C03Search.lean imports Properties/C03Coupling.lean and the
    tissue models, so Properties/C03.lean cannot import it back): builds SimuVerif.Properties.C03Search + the generated
    SimuVerif.Audit.C03Search and scans the import closure; same result dict as vlib.prove (+ "translator")"""
    gen = vlib.translate.run(GEN_SEARCH) if translate else {}
    r = vlib.prove(PROOF_PID, THEOREMS_SEARCH, NAMESPACE)
    r["translator"] = gen
    return r


def prove_search_invariants():
    """axiom audit of THEOREMS_SEARCH_INV (call after prove_search(): the generated files are the same)"""
    return vlib.prove(PROOF_PID_INV, THEOREMS_SEARCH_INV, NAMESPACE)


if __name__ == "__main__":
    import json
    p = prove_search()
    q = prove_search_invariants()
    print(json.dumps({k: q[k] for k in ("ok", "obligations", "discharged", "failures", "wall")}, indent=1))
    p["axioms"].update(q["axioms"])
    print(json.dumps({k: p[k] for k in ("ok", "obligations", "discharged", "failures", "wall")}, indent=1))
    for t, ax in sorted(p["axioms"].items()):
        print(t, ax)
