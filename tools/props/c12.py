"""C12 — volume, area, centroid, bounding box and normals are exact and frame-independent.

Tie      : tools/gen/cxx_geometry.py regenerates lean/SimuVerif/Gen/Geometry.lean from src/mesh/cell.cpp / face.cpp
           (per-face and per-node arithmetic, the winding table, the flip condition); the folds, the edge set and the
           flood fill are lean/SimuVerif/Model/Geometry.lean, compared (faces exactly, doubles bit for bit up to a few ulps)
           with the real cell (harness/h_geometry.cpp: cell built from coordinates + face ids, initialize_cell_properties(true),
           real getters) through lean/Driver/C12.lean at Float.
Theorems : lean/SimuVerif/Properties/C12.lean (all meshes, all ordered fields).
Oracle   : exact integer / Fraction recomputation on the very doubles handed to the code (signed volume, 4·area², consistent
           orientation of the reported windings, tight box over the referenced nodes, covariance eigen-residual) and invariance
           residuals inside families of transformed copies of one mesh.
"""
import os, sys, time, json, math
from fractions import Fraction as Fr
import vlib
from vlib import Rng, fhex, unhex
sys.path.insert(0, os.path.dirname(os.path.abspath(__file__)))
import c12_util as U

PID = "C12"
NAMESPACE = "Simu.C12"
THEOREMS = [
    "volume_is_signed_tet_sum", "reference_point_is_first_node", "volume_centred_eq", "orient_sum_centred_eq",
    "volume_is_enclosed_volume", "volume_translate_exact", "orient_sum_translate_exact",
    "orient_sum_eq_volume_sum", "vol_translate", "volume_translate", "vol_rotate", "vol_reflect",
    "volume_rotate", "volume_reflect", "vol_scale", "volume_scale", "vol_perm_faces", "volume_perm_faces", "vol_rename_nodes",
    "vol_cyclic", "vol_reverse_all",
    "area_is_sum_of_triangle_areas", "area_translate", "area_rotate", "area_scale", "area_perm_faces", "area_rename_nodes",
    "area_any_winding",
    "centroid_is_weighted_mean", "centroid_translate", "centroid_rotate", "centroid_scale",
    "live_iff", "aabb_contains", "aabb_tight",
    "winding_pair_correct", "winding_table", "flip_makes_nonneg", "orient_consistent_partial", "orient_all_consistent",
    "closed_flipAll", "orient_outward", "cube_nbGood",
    "orient_terminates", "orient_consistent", "orient_outward_proved", "cube_gatePre",
    "normal_along_winding", "vol_eq_normal_flux_centred", "vol_eq_normal_flux", "normal_translate", "normal_rotate",
    "cov_follows", "longest_axis_follows_partial",
    "cov_positive_semidefinite", "cov_eigenvalues_nonneg", "selected_column_is_top", "selected_column_sorted", "selection_max_or_tie",
    "longest_axis_follows", "boxCloud_eigOut", "eigOut_of_orthonormal", "longest_axis_follows_orthonormal",
    "strict_max_follows", "longest_axis_follows_final",
    "vnormalize_unit", "longestAxis_is_selected_column", "reported_longest_axis_follows",
    "rotation_matrix_is_rot", "reflection_matrix_is_refl", "closed_antisym_sum_zero",
]
GEN = ["Geometry", "GateConsts", "NodeNormals"]      # GateConsts: which tests initialize_cell_properties(true) contains (hypotheses of orient_consistent)
EPS = 2.0 ** -53
HARNESS = os.path.join(vlib.VERIF, "harness", "h_geometry.cpp")

# Offsets: the generator places cells at |offset| / size in {0, 1, 10, ..., 1e6}.  compute_volume and the signed-volume test of
# check_face_normal_orientation take the coordinates relative to get_volume_reference_point() (a node of the surface) before
# forming the cubic determinants, so their rounding error is governed by the DIAMETER D of the cell, not by its distance M
# from the origin: run-time tolerance 24*eps*nf*D^3 (it was 24*eps*nf*M^3 while the determinants were un-centred: at
# offset/size 1e6 that tolerance exceeds the volume itself 1e3 times, and the code indeed returned garbage there —
# finding C12:far-origin-cancellation, repaired by fixes/C12-centred-volume.diff).  The coordinates themselves carry the shape
# to (offset/size)*eps; transformed copies are compared within that (64*eps*nf*M*L^2).
OFFSET_RATIOS = [0.0, 0.0, 1.0, 10.0, 100.0, 1000.0, 1e4, 1e5, 1e6]
FAR_PROBE_RATIOS = [1e4, 1e5, 1e6, 1e7]


# ------------------------------------------------------------------------------------------ meshes
def base_mesh(r, tier):
    kinds = ["tetra", "octa", "cube", "prism", "ico0", "ico1", "ico1", "ico1b", "ico1b"]
    if tier == "thorough":
        kinds += ["ico2", "ico2b"]
    kind = r.choice(kinds)
    if kind == "tetra":
        v, f = U.tetrahedron()
    elif kind == "octa":
        v, f = U.octahedron()
    elif kind == "cube":
        v, f = U.cube()
    elif kind == "prism":
        v, f = U.prism()
    else:
        v, f = U.icosphere(int(kind[3]))
    # anisotropic stretch (unique longest axis most of the time), optional bumps and bend, jitter
    ax = [r.uniform(0.6, 1.0), r.uniform(1.1, 1.6), r.uniform(1.8, 3.0)]
    r.shuffle(ax)
    if r.randint(0, 5) == 0:
        ax = [1.0, 1.0, 1.0]          # isotropic: the axis is then not unique (only the eigen-residual is checked)
    shape = kind
    if kind.endswith("b"):
        u1 = [r.normal() for _ in range(3)]
        u2 = [r.normal() for _ in range(3)]
        a1, a2 = r.uniform(0.0, 0.35), r.uniform(0.0, 0.25)
        out = []
        for p in v:
            n = math.sqrt(sum(x * x for x in p)) or 1.0
            d = [x / n for x in p]
            s1 = sum(d[i] * u1[i] for i in range(3)) / math.sqrt(sum(x * x for x in u1))
            s2 = sum(d[i] * u2[i] for i in range(3)) / math.sqrt(sum(x * x for x in u2))
            rad = 1.0 + a1 * (3 * s1 * s1 - 1) + a2 * s2 * s2 * s2
            out.append([x * rad for x in p])
        v = out
    v = [[p[i] * ax[i] for i in range(3)] for p in v]
    if kind.endswith("b") and r.randint(0, 1):
        k = r.uniform(0.05, 0.25)      # bend (a diffeomorphism: the surface stays embedded, no longer star-shaped)
        v = [[p[0] + k * p[2] * p[2], p[1], p[2]] for p in v]
        shape += "+bend"
    if len(f) > 12:
        j = r.uniform(0.0, 0.06)
        v = [[x + j * r.uniform(-1, 1) * 0.3 for x in p] for p in v]
    size = 10.0 ** r.uniform(-6, 2)
    v = [[x * size for x in p] for p in v]
    return shape, v, [tuple(t) for t in f], size * max(ax)


def to_fr(v):
    return [[Fr(x) for x in p] for p in v]


def round_pts(P):
    return [[float(x) for x in p] for p in P]


def make_variant(r, kind, Pb, fb, size):
    """Pb exact (Fraction) base coordinates, fb outward faces.  Returns dict with float coords, faces, and the
    exact transform (s, R, t) such that x' = s*R*x + t (before rounding to doubles), node map, face map."""
    n = len(Pb)
    s = Fr(1)
    R = [[Fr(1), Fr(0), Fr(0)], [Fr(0), Fr(1), Fr(0)], [Fr(0), Fr(0), Fr(1)]]
    t = [Fr(0)] * 3
    det = 1
    ratio = 0.0
    if kind in ("translate", "rigid", "all"):
        ratio = r.choice(OFFSET_RATIOS[2:])
        d = [r.normal() for _ in range(3)]
        dn = math.sqrt(sum(x * x for x in d))
        t = [Fr(x / dn * ratio * size * r.uniform(0.7, 1.0)) for x in d]
    if kind in ("rotate", "rigid", "all"):
        R = U.rational_rotation(r)
    if kind == "reflect":
        R = U.rational_rotation(r)
        R = [[-R[i][0], R[i][1], R[i][2]] for i in range(3)]
        det = -1
    if kind in ("scale", "all"):
        s = Fr(r.choice([0.5, 2.0, 0.125, 3.0, 10.0 ** r.uniform(-1, 1)]))
    P = [[s * c + t[i] for i, c in enumerate(U.matvec(R, p))] for p in Pb]
    faces = list(fb)
    if det < 0:
        faces = [(a, c, b) for (a, b, c) in faces]       # a mirrored surface is outward with reversed faces
    node_map = list(range(n))
    face_perm = list(range(len(faces)))
    extra = 0
    if kind in ("renumber", "all"):
        extra = r.randint(0, 3)
        slots = list(range(n + extra))
        r.shuffle(slots)
        node_map = slots[:n]
        P2 = [None] * (n + extra)
        for i in range(n):
            P2[node_map[i]] = P[i]
        for k in slots[n:]:
            # an unused slot, well outside the cell (and not at the origin)
            P2[k] = [P[0][i] + Fr(size) * Fr(r.choice([7, -9, 11])) for i in range(3)]
        P = P2
        faces = [tuple(node_map[a] for a in tr) for tr in faces]
        r.shuffle(face_perm)
        faces = [faces[k] for k in face_perm]
        faces = [tr[k:] + tr[:k] for tr, k in ((tr, r.randint(0, 2)) for tr in faces)]
    outward = list(faces)
    flips = 0
    if kind in ("wind", "all", "renumber", "rigid") or r.randint(0, 2) == 0:
        mode = r.randint(0, 4)
        fl = []
        for k, tr in enumerate(faces):
            flip = (mode == 0) or (mode >= 2 and r.randint(0, 1) == 1) or (mode == 1 and k == 0)
            if flip:
                flips += 1
                tr = r.choice([(tr[0], tr[2], tr[1]), (tr[2], tr[1], tr[0]), (tr[1], tr[0], tr[2])])
            fl.append(tr)
        faces = fl
    pts = round_pts(P)
    return {"kind": kind, "pts": pts, "faces": faces, "outward": outward, "s": s, "R": R, "t": t, "det": det,
            "node_map": node_map, "face_perm": face_perm, "extra": extra, "flips": flips, "ratio": ratio}


def line_of(pts, faces):
    return "geo %d %d %s %s" % (len(pts), len(faces), " ".join(fhex(x) for p in pts for x in p),
                                " ".join("%d %d %d" % tuple(t) for t in faces))


def parse_line(line):
    w = line.split()
    nn, nf = int(w[1]), int(w[2])
    xs = [unhex(z) for z in w[3:3 + 3 * nn]]
    ids = [int(z) for z in w[3 + 3 * nn:]]
    return [xs[3 * i:3 * i + 3] for i in range(nn)], [tuple(ids[3 * k:3 * k + 3]) for k in range(nf)]


def parse_answer(ans, model=False):
    """-> dict(status, faces, area, volume, centroid, aabb, extra (axis | cov), fareas, normals)"""
    w = ans.split()
    if not w:
        return {"status": "empty"}
    if w[0] == "err":
        return {"status": "err-" + (w[1] if len(w) > 1 else "?")}
    if w[0] != "ok":
        return {"status": w[0]}
    try:
        nf = int(w[1])
        ids = [int(z) for z in w[2:2 + 3 * nf]]
        nx = 6 if model else 3
        rest = w[2 + 3 * nf:]
        if len(rest) != 11 + nx + 4 * nf:
            return {"status": "malformed"}
        d = [unhex(z) for z in rest]
    except ValueError:
        return {"status": "malformed"}
    return {"status": "ok", "faces": [tuple(ids[3 * k:3 * k + 3]) for k in range(nf)], "area": d[0], "volume": d[1],
            "centroid": d[2:5], "aabb": d[5:11], "extra": d[11:11 + nx], "fareas": d[11 + nx:11 + nx + nf],
            "normals": [d[11 + nx + nf + 3 * k:11 + nx + nf + 3 * k + 3] for k in range(nf)],
            "tokens": w}


# ------------------------------------------------------------------------------------------ exact side
class Exact:
    """exact quantities of a point set given as doubles (integers after scaling by 2^K)"""

    def __init__(self, pts):
        self.pts = pts
        K = 0
        for p in pts:
            for x in p:
                d = Fr(x).denominator
                K = max(K, d.bit_length() - 1)
        self.K = K
        self.I = [[int(Fr(x) * (1 << K)) for x in p] for p in pts]

    def v6(self, faces):
        I = self.I
        return Fr(sum(U.det3(I[a], I[b], I[c]) for (a, b, c) in faces), 1 << (3 * self.K))

    def raw_normal_int(self, t):
        I = self.I
        return U.cross(U.sub(I[t[1]], I[t[0]]), U.sub(I[t[2]], I[t[0]]))

    def face_area(self, t):
        n = self.raw_normal_int(t)
        nsq = n[0] * n[0] + n[1] * n[1] + n[2] * n[2]
        rt = math.isqrt(nsq << 128)
        return Fr(rt, (1 << 64) * (1 << (2 * self.K)) * 2)

    def fr(self, i):
        return [Fr(c, 1 << self.K) for c in self.I[i]]


def closed_consistent(faces):
    he = {}
    for (a, b, c) in faces:
        for e in ((a, b), (b, c), (c, a)):
            he[e] = he.get(e, 0) + 1
    for (a, b), k in he.items():
        if k != 1 or he.get((b, a), 0) != 1:
            return False
    return True


def oracle(pts, faces_in, out, want_detail=False):
    """the property, restated independently, on one answer of the implementation.
    Returns (list of failure texts, measurements)"""
    fails = []
    meas = {}
    if out["status"] != "ok":
        return ["a closed genus-0 mesh was not accepted: %s" % out["status"]], meas
    nf = len(faces_in)
    F = out["faces"]
    if len(F) != nf:
        return ["number of faces changed"], meas
    for k in range(nf):
        if sorted(F[k]) != sorted(faces_in[k]):
            fails.append("face %d changed its node set: %r -> %r" % (k, faces_in[k], F[k]))
            return fails, meas
    if not closed_consistent(F):
        fails.append("after initialisation the faces are not consistently oriented (a half-edge occurs twice or its reverse is missing)")
    used = sorted(set(a for t in faces_in for a in t))
    ex = Exact(pts)
    M = max(abs(x) for i in used for x in pts[i])
    L = 0.0
    for t in faces_in:
        for (a, b) in ((t[0], t[1]), (t[1], t[2]), (t[2], t[0])):
            L = max(L, math.sqrt(sum((pts[a][i] - pts[b][i]) ** 2 for i in range(3))))
    # extent of the cell seen from the reference point of the volume sums (first node of the first face: the flood fill never
    # rewinds the seed face and the final flip exchanges members 2 and 3)
    ref = pts[faces_in[0][0]]
    D = max(abs(pts[i][k] - ref[k]) for i in used for k in range(3))
    v6 = ex.v6(F)
    if v6 <= 0 and not fails:
        fails.append("the reported windings enclose a non-positive signed volume (%.6g): normals point inward" % float(v6 / 6))
    vol = abs(v6) / 6
    tol_v = 24 * EPS * nf * D ** 3 + 4 * EPS * float(vol)
    ev = abs(out["volume"] - float(vol))
    meas["vol_err_over_tol"] = ev / tol_v
    if not (ev <= tol_v):
        fails.append("volume %.17g differs from the exact enclosed volume %.17g by %.3g (tolerance %.3g)" % (out["volume"], float(vol), ev, tol_v))
    areas = [ex.face_area(t) for t in F]
    A = sum(areas)
    tol_a = 16 * EPS * nf * L * L
    ea = abs(out["area"] - float(A))
    meas["area_err_over_tol"] = ea / tol_a
    if not (ea <= tol_a):
        fails.append("area %.17g differs from the sum of the triangle areas %.17g by %.3g (tolerance %.3g)" % (out["area"], float(A), ea, tol_a))
    # per-face areas and normals
    worst_n = 0.0
    for k, t in enumerate(F):
        if abs(out["fareas"][k] - float(areas[k])) > 16 * EPS * L * L:
            fails.append("area of face %d is %.17g, exact %.17g" % (k, out["fareas"][k], float(areas[k])))
            break
        n = ex.raw_normal_int(t)
        nn = math.sqrt(float(n[0] * n[0] + n[1] * n[1] + n[2] * n[2]))
        if nn > 0:
            un = [float(Fr(c)) / nn for c in n] if nn < 1e300 else [0, 0, 0]
            dev = max(abs(out["normals"][k][i] - un[i]) for i in range(3))
            worst_n = max(worst_n, dev)
    meas["normal_dev"] = worst_n
    if worst_n > 1e-9:
        fails.append("a face normal deviates from the unit vector along (p2-p1)x(p3-p1) of the reported winding by %.3g" % worst_n)
    # centroid
    cx = [sum(areas[k] * (ex.fr(t[0])[i] + ex.fr(t[1])[i] + ex.fr(t[2])[i]) / 3 for k, t in enumerate(F)) / A for i in range(3)]
    tol_c = 32 * EPS * nf * M + 8 * EPS * nf * L
    ec = max(abs(out["centroid"][i] - float(cx[i])) for i in range(3))
    meas["centroid_err_over_tol"] = ec / tol_c
    if not (ec <= tol_c):
        fails.append("centroid %r differs from the area-weighted mean of the triangle centroids %r by %.3g (tolerance %.3g)" % (
            out["centroid"], [float(c) for c in cx], ec, tol_c))
    # bounding box: exactly the min / max over the referenced nodes
    bb = [min(pts[i][0] for i in used), min(pts[i][1] for i in used), min(pts[i][2] for i in used),
          max(pts[i][0] for i in used), max(pts[i][1] for i in used), max(pts[i][2] for i in used)]
    if list(out["aabb"]) != bb:
        fails.append("bounding box %r is not the tight box of the live nodes %r" % (out["aabb"], bb))
    meas.update({"M": M, "L": L, "D": D, "vol": float(vol), "area": float(A), "centroid": [float(c) for c in cx], "nf": nf})
    return fails, meas


def axis_check(pts, faces_in, out, meas):
    """longest axis = unit eigenvector of the covariance (around the surface centroid) for its largest eigenvalue"""
    if out["status"] != "ok" or "centroid" not in meas:
        return None, None
    used = sorted(set(a for t in faces_in for a in t))
    c = meas["centroid"]
    n = len(used)
    C = [[0.0] * 3 for _ in range(3)]
    for i in used:
        d = [pts[i][k] - c[k] for k in range(3)]
        for a in range(3):
            for b in range(3):
                C[a][b] += d[a] * d[b] / n
    lmax, gap, vec, ev = U.sym_eig_max(C)
    ax = out["extra"]
    nrm = math.sqrt(sum(x * x for x in ax))
    if abs(nrm - 1) > 1e-9:
        return "longest axis is not a unit vector (norm %.17g)" % nrm, None
    Cv = [sum(C[a][b] * ax[b] for b in range(3)) for a in range(3)]
    ray = sum(Cv[a] * ax[a] for a in range(3))
    res = math.sqrt(sum((Cv[a] - ray * ax[a]) ** 2 for a in range(3)))
    cond = (meas["M"] / max(meas["L"], 1e-300)) ** 2
    tol = 1e-9 * lmax * (1 + cond * 1e-4)
    if res > tol + 1e-6 * lmax * (1 if gap < 1e-6 * lmax else 0):
        return "longest axis is not an eigenvector of the node covariance (residual %.3g, largest eigenvalue %.3g)" % (res, lmax), None
    if ray < lmax - max(tol, 1e-9 * lmax):
        return "longest axis belongs to eigenvalue %.6g, the largest is %.6g" % (ray, lmax), None
    return None, {"gap_rel": gap / lmax if lmax > 0 else 0.0, "vec": vec}


# ------------------------------------------------------------------------------------------ corpus
def corpus():
    out = []
    # the two cubes of test_cell.cpp (compute_volume_test, check_face_normal_orientation_test), the second shifted
    v, f = U.cube()
    v = [[x + 0.5 for x in p] for p in v]
    out.append(("test-cube", v, f))
    bad = [(0, 1, 3), (2, 3, 1), (0, 4, 1), (5, 1, 4), (3, 0, 4), (6, 4, 3), (5, 1, 2), (7, 2, 5), (5, 7, 4), (6, 7, 4), (3, 2, 6), (7, 6, 2)]
    out.append(("test-cube-bad-windings", [[x + 10.0 for x in p] for p in v], bad))
    # all faces inward, away from the origin, with an unused slot
    v2 = [[x * 1e-5 + 3e-3 for x in p] for p in v] + [[1.0, 1.0, 1.0]]
    out.append(("cube-inward-unused-slot", v2, [(a, c, b) for (a, b, c) in f]))
    tv, tf = U.tetrahedron()
    out.append(("tetra-seed-inward", [[x - 40.0 for x in p] for p in tv], [(tf[0][0], tf[0][2], tf[0][1])] + tf[1:]))
    return out


def reject_cases():
    """inputs the code must refuse (only the agreement of model and code is checked on them)"""
    out = []
    v, f = U.cube()
    out.append(("cube-open", v, f[:-1], "err-notmanifold"))
    out.append(("cube-duplicate-face", v, f + [f[0]], "err-integrity"))
    tv, tf = U.torus()
    out.append(("torus", tv, tf, "err-notmanifold"))
    v2, f2 = U.octahedron()
    out.append(("two-components", v + [[x + 5 for x in p] for p in v2], f + [tuple(a + len(v) for a in t) for t in f2], "err-notmanifold"))
    return out


VARIANT_KINDS = ["identity", "translate", "rotate", "rigid", "scale", "renumber", "wind", "reflect", "all"]


def run(ctx):
    tier, seed = ctx["tier"], ctx["seed"]
    t0 = time.time()
    V = vlib.Verdict(PID)
    gen = vlib.translate.run(GEN)
    for g in GEN:
        if "error" in gen.get(g, {}):
            V.fail_tie("proof", "translator (%s): %s" % (g, gen[g]["error"]))
    proof = vlib.prove(PID, THEOREMS, NAMESPACE, extra_targets=("drv_c12",))
    for f in proof["failures"]:
        V.fail_tie("proof", "%s: %s" % (f["theorem"], f["reason"]), errors=proof["errors"][:5])
    if tier == "thorough" and proof["ok"]:
        ok, log = vlib.leanchecker("SimuVerif.Properties.C12")
        if not ok:
            V.fail_tie("proof", "leanchecker rejected SimuVerif.Properties.C12", log=log)
    t_proof = time.time() - t0
    exe, rebuilt = vlib.build_repo.build_harness(HARNESS, "h_geometry", link_repo=True)
    nfam = 120 if tier == "quick" else 1500
    if not proof["ok"]:
        nfam = max(nfam, 300)       # a proof or the translation broke: widen the search for a concrete failing input
    r = Rng(seed)
    cases = []      # dict(line, pts, faces, family, kind, meta)
    for name, v, f in corpus():
        cases.append({"family": name, "kind": "corpus", "pts": v, "faces": f, "var": None, "shape": name})
    fam_of = {}
    for k in range(nfam):
        shape, v, f, size = base_mesh(r, tier)
        Pb = to_fr(v)
        fam = "fam%d" % k
        fam_of[fam] = {"size": size, "shape": shape}
        kinds = list(VARIANT_KINDS)
        for kind in kinds:
            var = make_variant(r, kind, Pb, f, size)
            cases.append({"family": fam, "kind": kind, "pts": var["pts"], "faces": var["faces"], "var": var, "shape": shape})
    rej = reject_cases()
    lines = [line_of(c["pts"], c["faces"]) for c in cases] + [line_of(v, f) for (_, v, f, _) in rej]
    impl, rc, err = vlib.run_lines(exe, lines, timeout=1800)
    if rc != 0 or len(impl) != len(lines):
        bad = lines[len(impl)] if len(impl) < len(lines) else lines[0]
        V.fail_input("harness ended abnormally (rc=%s) after %d answers: %s" % (rc, len(impl), err[-800:]), {"line": bad}, key=None)
    drv = vlib.driver_path("drv_c12")
    model = None
    if os.path.exists(drv):
        model, rc2, err2 = vlib.run_lines(drv, lines, timeout=1800)
        if rc2 != 0 or len(model) != len(lines):
            V.fail_tie("correspondence", "model driver ended abnormally (rc=%s) %s" % (rc2, err2[-300:]))
            model = None
    else:
        V.fail_tie("correspondence", "model driver missing (lake build failed)")

    bit_identical = disagreements = oracle_fail = 0
    kinds_count, shapes_count, status_count = {}, {}, {}
    worst = {"vol_err_over_tol": 0.0, "area_err_over_tol": 0.0, "centroid_err_over_tol": 0.0, "normal_dev": 0.0}
    results = {}
    samples = []
    flips_total = faces_total = rewound_by_code = 0
    for i, c in enumerate(cases):
        if i >= len(impl):
            break
        o = parse_answer(impl[i])
        status_count[o["status"]] = status_count.get(o["status"], 0) + 1
        kinds_count[c["kind"]] = kinds_count.get(c["kind"], 0) + 1
        shapes_count[c["shape"]] = shapes_count.get(c["shape"], 0) + 1
        fails, meas = oracle(c["pts"], c["faces"], o)
        amsg, ainfo = (None, None)
        if not fails:
            amsg, ainfo = axis_check(c["pts"], c["faces"], o, meas)
            if amsg:
                fails.append(amsg)
        results[i] = (o, meas, ainfo)
        if o["status"] == "ok":
            faces_total += len(c["faces"])
            rewound_by_code += sum(1 for a, b in zip(c["faces"], o["faces"]) if a != b)
        if c["var"]:
            flips_total += c["var"]["flips"]
        for k in worst:
            if k in meas:
                worst[k] = max(worst[k], meas[k])
        if fails:
            oracle_fail += 1
            if oracle_fail <= 4:
                V.fail_input(fails[0], {"line": lines[i], "family": c["family"], "variant": c["kind"], "shape": c["shape"],
                                        "all_failures": fails[:6]}, key=None)
        if i < 3:
            samples.append({"case": c["family"], "kind": c["kind"], "n_nodes": len(c["pts"]), "n_faces": len(c["faces"]),
                            "volume": o.get("volume"), "area": o.get("area"), "centroid": o.get("centroid"), "aabb": o.get("aabb"),
                            "faces_in_first3": c["faces"][:3], "faces_out_first3": (o.get("faces") or [])[:3]})
        if model is not None:
            disagreements, bit_identical = compare_model(V, lines[i], impl[i], model[i], disagreements, bit_identical, c)
    # rejected inputs: model and code must agree
    base_i = len(cases)
    for j, (name, v, f, want) in enumerate(rej):
        i = base_i + j
        if i >= len(impl):
            break
        o = parse_answer(impl[i])
        status_count[o["status"]] = status_count.get(o["status"], 0) + 1
        if model is not None:
            m = parse_answer(model[i], model=True)
            if m["status"] != o["status"]:
                disagreements += 1
                V.fail_tie("correspondence", "model and implementation differ on the rejected input %s: impl=%s model=%s" % (name, o["status"], m["status"]))
            else:
                bit_identical += 1
    # ---- the column selection of get_cell_longest_axis: Gen.Geometry.axisColumn (driver, `sel`) on the eigenvalues the REAL
    # mat33::eigen_decomposition (harness, `eig`) returns for the model's covariance matrix must name the column the real
    # get_cell_longest_axis returned; the hypotheses of `selected_column_sorted` (ascending, >= 0 up to rounding) are evaluated too
    selection = selection_tie(V, exe, drv if model is not None else None, cases, lines, impl, model)
    # ---- invariance residuals inside the families
    inv = invariance(V, cases, results, lines)
    far = far_probe(exe, Rng(seed).fork("far"))
    # far from the origin the coordinates themselves still carry the shape to (offset/size)*eps; a volume code that forms
    # UN-centred cubic determinants cancels there (finding KEY_FAR, repaired by fixes/C12-centred-volume.diff: the reverse of
    # that repair is identified by this input family).  On the repaired code the volume of the very doubles handed over is
    # reproduced to ~1e-16 relative at every offset; the threshold is what the coordinates allow.
    for rec in far:
        ratio = rec["offset_over_size"]
        bad = rec.get("status") is not None or rec["relative_volume_error"] > 1e3 * 2.3e-16 * ratio or not rec["normals_outward"]
        if bad:
            V.fail_input("unit icosphere (80 faces, random input windings) translated by %g cell sizes along (1,1,1): %s" % (
                ratio, ("initialisation answers %s" % rec["status"]) if rec.get("status") is not None else
                "reported volume off by a factor %.3g relative (coordinates carry the shape to %.1e), normals %s" % (
                    rec["relative_volume_error"], 2.3e-16 * ratio, "outward" if rec["normals_outward"] else "INWARD after initialisation")),
                {"probe": "far_offset", "offset_over_size": ratio, "line": rec.get("line")}, key=KEY_FAR)
    rcode, nviol = V.finish()
    cov = {
        "obligations": proof["obligations"], "discharged": proof["discharged"],
        "checker_cmd": "lake build SimuVerif.Properties.C12 SimuVerif.Audit.C12 drv_c12 (+ lake env leanchecker in the thorough tier)",
        "trusted_base": vlib.TRUSTED_COMMON + [
            "std::sqrt enters the theorems through the hypothesis SqrtSpec (non-negative root of non-negative numbers)",
            "the enclosed volume of a closed oriented triangulated surface is DEFINED as (1/6)*sum det(p1,p2,p3) (divergence theorem not formalised)",
            "gte::SymmetricEigensolver3x3 is opaque (hypothesis EigSolverSpec of longest_axis_follows_orthonormal: three orthonormal eigenvectors with their eigenvalues — that no eigenvalue is missing is PROVED from it, eigOut_of_orthonormal; checked at run time by the eigen-residual of the oracle); the selection of the returned column is NOT: it is Gen.Geometry.axisColumn, regenerated from the if-chain, proved and compared with the real function (column_selection_tie)",
        ],
        "theorems": {k: v for k, v in proof["axioms"].items()},
        "proof_failures": proof["failures"], "translator": gen,
        "evaluations": len(lines), "distinct_nontrivial": len(set(lines[:len(cases)])),
        "rule": "families = one seeded closed genus-0 base mesh (tetra/octa/cube/prism/icosphere level 0-2, stretched, bumped, bent, jittered, sizes 1e-6..1e2) x 9 transformed copies "
                "(identity, translation, rational rotation, rigid, uniform scaling, node+face renumbering with unused slots, random per-face winding flips, mirror image, all together) "
                "+ corpus (cubes of test_cell.cpp, inward cube with unused slot, tetra with inward seed) + 4 inputs that must be rejected; distinct = distinct request lines",
        "offset_over_size_used": OFFSET_RATIOS, "offset_range_reason": "the volume sums are centred on a node of the surface: their rounding error is governed by the diameter of the cell at every distance from the origin (far_offset_probe goes on to 1e7); the doubles carry the shape to (offset/size)*eps",
        "families": nfam, "variant_kinds": kinds_count, "shapes": shapes_count, "status": status_count,
        "input_faces_flipped_by_generator": flips_total, "faces_total": faces_total, "faces_rewound_by_code": rewound_by_code,
        "model_vs_impl_bit_identical": bit_identical, "model_vs_impl_disagreements": disagreements,
        "oracle_failures": oracle_fail, "worst_error_over_tolerance": worst, "invariance": inv,
        "far_offset_probe": [{k: v for k, v in rec.items() if k != "line"} for rec in far],
        "column_selection_tie": selection,
        "repo_objects_rebuilt": rebuilt, "samples": samples, "proof_wall_s": round(t_proof, 1),
    }
    vlib.write_evidence(PID, tier, "proof", cov, [
        "node ids of faces are in range and coordinates finite (the harness refuses other inputs; the C++ would index out of bounds)",
        "offsets up to 1e6 x cell size (probe: 1e7); triangles of the generated meshes are not needle-like (normal tolerance 1e-9)",
        "run-time tolerances: volume 24*eps*nf*D^3, area 16*eps*nf*L^2, centroid 32*eps*nf*M (D = extent of the cell seen from the reference node, M = largest |coordinate|, L = longest edge)",
        "std::set<edge> orders edges by a Cantor pairing evaluated in double; the model identifies an edge with its pair of node ids (exact for ids < 2^26)",
    ], time.time() - t0, nviol)
    return rcode


def selection_tie(V, exe, drv, cases, lines, impl, model):
    st = {"compared": 0, "agree": 0, "disagree": 0, "skipped_small_gap": 0, "column_histogram": {}, "ascending_nonneg": 0, "not_ascending_nonneg": 0}
    if drv is None or model is None:
        return st
    idx, req, reqs_of = [], [], {}
    unhex_list = lambda l: list(l)
    for i, c in enumerate(cases):
        if i >= len(impl) or i >= len(model):
            break
        o = parse_answer(impl[i]); m = parse_answer(model[i], model=True)
        if o["status"] != "ok" or m["status"] != "ok":
            continue
        idx.append((i, o))
        reqs_of[i] = list(m["extra"])
        req.append("eig " + " ".join(fhex(x) for x in m["extra"]))
    if not req:
        return st
    ans, rc, err = vlib.run_lines(exe, req, timeout=600)
    if rc != 0 or len(ans) != len(req):
        V.fail_tie("correspondence", "harness ended abnormally on the eig requests (rc=%s) %s" % (rc, err[-300:]))
        return st
    eig = []
    for a in ans:
        w = a.split()
        eig.append([unhex(z) for z in w[1:13]] if len(w) == 13 and w[0] == "ok" else None)
    sel_req = ["sel " + " ".join(fhex(x) for x in e[:3]) if e else "sel x x x" for e in eig]
    sel, rc2, err2 = vlib.run_lines(drv, sel_req, timeout=600)
    if rc2 != 0 or len(sel) != len(sel_req):
        V.fail_tie("correspondence", "model driver ended abnormally on the sel requests (rc=%s) %s" % (rc2, err2[-300:]))
        return st
    for (i, o), e, sa in zip(idx, eig, sel):
        w = sa.split()
        if e is None or len(w) != 2 or w[0] != "ok" or not w[1].isdigit() or int(w[1]) > 2:
            st["disagree"] += 1
            if st["disagree"] <= 2:
                V.fail_tie("correspondence", "selection of the eigenvector column: malformed answers (%r / %r)" % (sa[:60], e is None), line=lines[i][:400])
            continue
        k = int(w[1])
        ev = e[:3]
        lmax = max(abs(x) for x in ev)
        if lmax == 0 or not all(math.isfinite(x) for x in e):
            continue
        srt = sorted(abs(x) for x in ev)
        if srt[2] - srt[1] < 1e-6 * lmax:
            st["skipped_small_gap"] += 1        # the longest axis is not unique to rounding: the model's covariance and the real one may order them differently
            continue
        if ev[0] <= ev[1] <= ev[2] and ev[0] >= -1e-9 * lmax:
            st["ascending_nonneg"] += 1
        else:
            st["not_ascending_nonneg"] += 1
        # the hypothesis EigSolverSpec of longest_axis_follows_orthonormal, evaluated on this output of the real solver
        # (m = the covariance matrix the request carried): columns orthonormal, C col_j = E_j col_j
        cm = unhex_list(reqs_of[i])
        Cm = [[cm[0], cm[1], cm[2]], [cm[1], cm[3], cm[4]], [cm[2], cm[4], cm[5]]]
        cols3 = [e[3 + 3 * j:6 + 3 * j] for j in range(3)]
        orth = max(abs(sum(cols3[a][t] * cols3[b][t] for t in range(3)) - (1.0 if a == b else 0.0)) for a in range(3) for b in range(3))
        resid = max(abs(sum(Cm[r][t] * cols3[j][t] for t in range(3)) - ev[j] * cols3[j][r]) for j in range(3) for r in range(3))
        st["worst_orthonormality_defect"] = max(st.get("worst_orthonormality_defect", 0.0), orth)
        st["worst_eigen_residual_over_lmax"] = max(st.get("worst_eigen_residual_over_lmax", 0.0), resid / lmax)
        if orth <= 1e-9 and resid <= 1e-7 * lmax:
            st["eig_solver_spec_held"] = st.get("eig_solver_spec_held", 0) + 1
        else:
            st["eig_solver_spec_failed"] = st.get("eig_solver_spec_failed", 0) + 1
            if st["eig_solver_spec_failed"] <= 2:
                V.fail_input("mat33::eigen_decomposition returned columns that are not orthonormal eigenvectors of the covariance matrix "
                             "(orthonormality defect %.3g, residual %.3g of largest eigenvalue %.3g): the hypothesis EigSolverSpec of "
                             "longest_axis_follows_orthonormal does not hold for this cell" % (orth, resid, lmax),
                             {"line": lines[i], "family": cases[i]["family"], "variant": cases[i]["kind"], "covariance": cm, "eigenvalues": ev}, key=None)
        col = e[3 + 3 * k:6 + 3 * k]
        nrm = math.sqrt(sum(x * x for x in col)) or 1.0
        col = [x / nrm for x in col]
        ax = o["extra"]
        st["compared"] += 1
        st["column_histogram"][str(k)] = st["column_histogram"].get(str(k), 0) + 1
        dev = max(abs(col[a] - ax[a]) for a in range(3))
        if dev <= 1e-7:
            st["agree"] += 1
        else:
            st["disagree"] += 1
            if st["disagree"] <= 2:
                V.fail_input("get_cell_longest_axis returned %r; the if-chain of the model (Gen.Geometry.axisColumn) selects column %d = %r of the real "
                             "eigen_decomposition (eigenvalues %r): the model of the column selection and the code disagree" % (ax, k, col, ev),
                             {"line": lines[i], "family": cases[i]["family"], "variant": cases[i]["kind"], "eigenvalues": ev, "model_column": k}, key=None)
    return st


def compare_model(V, line, a, b, disagreements, bit_identical, c):
    o = parse_answer(a)
    m = parse_answer(b, model=True)
    if o["status"] != m["status"]:
        disagreements += 1
        if disagreements <= 3:
            V.fail_tie("correspondence", "model and implementation differ in status on %s/%s: impl=%s model=%s" % (c["family"], c["kind"], o["status"], m["status"]), line=line[:400])
        return disagreements, bit_identical
    if o["status"] != "ok":
        return disagreements, bit_identical + 1
    nf = len(o["faces"])
    ta, tb = o["tokens"], m["tokens"]
    same = ta[:2 + 3 * nf + 11] == tb[:2 + 3 * nf + 11] and ta[2 + 3 * nf + 14:] == tb[2 + 3 * nf + 17:]
    if same:
        return disagreements, bit_identical + 1
    ok = o["faces"] == m["faces"]
    sc = max(abs(x) for p in c["pts"] for x in p)
    if ok:
        pairs = [(o["area"], m["area"], sc * sc), (o["volume"], m["volume"], sc ** 3)] + \
                [(x, y, sc) for x, y in zip(o["centroid"], m["centroid"])] + [(x, y, 0.0) for x, y in zip(o["aabb"], m["aabb"])] + \
                [(x, y, sc * sc) for x, y in zip(o["fareas"], m["fareas"])] + \
                [(x, y, 1.0) for no, nm in zip(o["normals"], m["normals"]) for x, y in zip(no, nm)]
        ok = all(vlib.close(x, y, 8, 1e-15 * s) for x, y, s in pairs)
    if not ok:
        disagreements += 1
        if disagreements <= 3:
            V.fail_tie("correspondence", "model and implementation differ on %s/%s (faces equal: %s, volume impl=%r model=%r, area impl=%r model=%r)" % (
                c["family"], c["kind"], o["faces"] == m["faces"], o["volume"], m["volume"], o["area"], m["area"]), line=line[:400])
    return disagreements, bit_identical


def invariance(V, cases, results, lines):
    """residuals of the transformed copies against the identity copy of the same family"""
    byfam = {}
    for i, c in enumerate(cases):
        if c["var"] is not None and i in results:
            byfam.setdefault(c["family"], {})[c["kind"]] = i
    worst = {"volume": 0.0, "area": 0.0, "centroid": 0.0, "axis_angle": 0.0}
    compared = 0
    axis_compared = 0
    nfail = 0
    for fam, d in byfam.items():
        if "identity" not in d:
            continue
        i0 = d["identity"]
        o0, m0, a0 = results[i0]
        if o0["status"] != "ok" or "vol" not in m0:
            continue
        for kind, i in d.items():
            if kind == "identity":
                continue
            o, m, a = results[i]
            if o["status"] != "ok" or "vol" not in m:
                continue
            var = cases[i]["var"]
            s = float(var["s"])
            compared += 1
            nf = m["nf"]
            # tolerance: the two run-time tolerances plus the rounding of the transformed coordinates to doubles
            tv = 24 * EPS * nf * (m["D"] ** 3 + s ** 3 * m0["D"] ** 3) + 64 * EPS * nf * m["M"] * m["L"] ** 2
            rv = abs(o["volume"] - s ** 3 * o0["volume"])
            worst["volume"] = max(worst["volume"], rv / tv)
            ta = 16 * EPS * nf * (m["L"] ** 2 + s * s * m0["L"] ** 2) + 64 * EPS * nf * m["M"] * m["L"]
            ra = abs(o["area"] - s * s * o0["area"])
            worst["area"] = max(worst["area"], ra / ta)
            c0 = [Fr(x) for x in o0["centroid"]]
            cc = [float(var["s"] * x + var["t"][k]) for k, x in enumerate(U.matvec(var["R"], c0))]
            tc = 32 * EPS * nf * (m["M"] + s * m0["M"]) * (1 + m["M"] / max(m["L"], 1e-300)) + 64 * EPS * m["M"]
            rc_ = max(abs(o["centroid"][k] - cc[k]) for k in range(3))
            worst["centroid"] = max(worst["centroid"], rc_ / tc)
            msg = None
            if rv > tv:
                msg = "volume of the %s copy is %.17g, %.17g expected from the original (s^3 x volume): residual %.3g > %.3g" % (kind, o["volume"], s ** 3 * o0["volume"], rv, tv)
            elif ra > ta:
                msg = "area of the %s copy is %.17g, %.17g expected from the original: residual %.3g > %.3g" % (kind, o["area"], s * s * o0["area"], ra, ta)
            elif rc_ > tc:
                msg = "centroid of the %s copy does not follow the cell: residual %.3g > %.3g" % (kind, rc_, tc)
            # longest axis follows the cell (up to sign) when it is unique
            if a and a0 and a0["gap_rel"] > 1e-2 and a["gap_rel"] > 1e-2 and msg is None:
                ax0 = [Fr(x) for x in o0["extra"]]
                want = [float(x) for x in U.matvec(var["R"], ax0)]
                dot = abs(sum(want[k] * o["extra"][k] for k in range(3)))
                ang = math.sqrt(max(0.0, 1 - min(1.0, dot) ** 2))
                axis_compared += 1
                lim = 1e-7 * (1 + m["M"] / max(m["L"], 1e-300)) / a0["gap_rel"]
                worst["axis_angle"] = max(worst["axis_angle"], ang / lim)
                if ang > lim:
                    msg = "longest axis of the %s copy is not (+-) the transformed axis of the original: sin(angle) = %.3g (gap %.3g)" % (kind, ang, a0["gap_rel"])
            if msg:
                nfail += 1
                if nfail <= 3:
                    V.fail_input(msg, {"line": lines[i], "original_line": lines[i0], "family": fam, "variant": kind,
                                       "transform": {"s": float(var["s"]), "R": [[float(x) for x in row] for row in var["R"]], "t": [float(x) for x in var["t"]]}}, key=None)
    return {"pairs_compared": compared, "axis_pairs_compared": axis_compared, "worst_residual_over_tolerance": worst, "failures": nfail}


KEY_FAR = "C12:far-origin-cancellation"


def far_probe(exe, r):
    """one decade beyond the offset range of the generated families, with the threshold the coordinates allow (a failure is the
    finding KEY_FAR = un-centred volume determinants; printed as KNOWN-FINDING while that key is listed in known_findings.json)"""
    v, f = U.icosphere(1)
    out = []
    lines = []
    for ratio in FAR_PROBE_RATIOS:
        pts = [[x + ratio for x in p] for p in v]
        fl = [(t[0], t[2], t[1]) if r.randint(0, 1) else t for t in f]
        lines.append((ratio, pts, fl))
    ans, rc, err = vlib.run_lines(exe, [line_of(p, fl) for (_, p, fl) in lines])
    for (ratio, pts, fl), a in zip(lines, ans):
        o = parse_answer(a)
        if o["status"] != "ok":
            out.append({"offset_over_size": ratio, "status": o["status"], "line": line_of(pts, fl)})
            continue
        ex = Exact(pts)
        v6 = ex.v6(o["faces"])
        out.append({"offset_over_size": ratio, "relative_volume_error": abs(o["volume"] - float(abs(v6) / 6)) / float(abs(v6) / 6),
                    "normals_outward": bool(v6 > 0), "line": line_of(pts, fl)})
    return out


def replay(ctx):
    """re-run the stored failing input on the current implementation"""
    rp = ctx["replay"]
    fi = rp.get("failing_input", {}).get("input", {})
    line = fi.get("line")
    if not line:
        print("replay file names no input: %s" % json.dumps(rp.get("no_longer_checks", rp))[:2000])
        return 1
    exe, _ = vlib.build_repo.build_harness(HARNESS, "h_geometry")
    lines = [line] + ([fi["original_line"]] if fi.get("original_line") else [])
    out, rc, err = vlib.run_lines(exe, lines)
    if rc != 0 or not out:
        print("harness ended abnormally rc=%s %s" % (rc, err[-500:]))
        print("VIOLATION property=C12 replay=%s" % ctx.get("replay_path", "-"))
        return 1
    pts, faces = parse_line(line)
    o = parse_answer(out[0])
    fails, meas = oracle(pts, faces, o)
    if not fails:
        amsg, _ = axis_check(pts, faces, o, meas)
        if amsg:
            fails.append(amsg)
    print("input: %d nodes, %d faces; first faces %r" % (len(pts), len(faces), faces[:4]))
    print("implementation: status=%s volume=%r area=%r centroid=%r aabb=%r" % (o["status"], o.get("volume"), o.get("area"), o.get("centroid"), o.get("aabb")))
    print("exact: volume=%r area=%r centroid=%r" % (meas.get("vol"), meas.get("area"), meas.get("centroid")))
    if len(out) > 1 and not fails and fi.get("transform"):
        p0, f0 = parse_line(fi["original_line"])
        o0 = parse_answer(out[1])
        s = fi["transform"]["s"]
        print("original copy: volume=%r area=%r ; s=%r -> expected volume %r area %r" % (o0.get("volume"), o0.get("area"), s, s ** 3 * o0.get("volume", 0), s * s * o0.get("area", 0)))
        f0s, m0 = oracle(p0, f0, o0)
        tv = 24 * EPS * meas["nf"] * (meas["D"] ** 3 + s ** 3 * m0.get("D", 0) ** 3) + 64 * EPS * meas["nf"] * meas["M"] * meas["L"] ** 2
        if abs(o["volume"] - s ** 3 * o0["volume"]) > tv:
            fails.append("volume is not invariant: residual %.3g > %.3g" % (abs(o["volume"] - s ** 3 * o0["volume"]), tv))
    if fails:
        print("VIOLATION property=C12 replay=%s" % ctx.get("replay_path", "-"))
        for m in fails[:6]:
            print(m)
        return 1
    print("property holds on this input now")
    return 0
