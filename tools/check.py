#!/usr/bin/env python3
"""Entry point of every quick_cmd / thorough_cmd:  tools/check.py Cxx [--tier quick|thorough] [--replay file]"""
import sys, os, argparse, importlib, json, time, traceback
sys.path.insert(0, os.path.dirname(os.path.abspath(__file__)))
sys.path.insert(0, os.path.join(os.path.dirname(os.path.abspath(__file__)), "props"))
import vlib


def main():
    ap = argparse.ArgumentParser()
    ap.add_argument("pid")
    ap.add_argument("--tier", default=os.environ.get("VERIF_TIER", "quick"))
    ap.add_argument("--replay", default=None)
    a = ap.parse_args()
    tier = a.tier if a.tier in ("quick", "thorough") else "quick"
    mod = importlib.import_module("props." + a.pid.lower())
    ctx = {"tier": tier, "seed": vlib.seed(), "replay": None}
    if a.replay:
        ctx["replay"] = json.load(open(a.replay))
        if hasattr(mod, "replay"):
            sys.exit(mod.replay(ctx))
    try:
        rc = mod.run(ctx)
    except Exception as e:
        traceback.print_exc()
        path = vlib.write_replay(a.pid, {"property": a.pid, "no_longer_checks": [{"kind": "machinery", "what": "check raised %s: %s" % (type(e).__name__, e)}]})
        # a check that cannot run proves nothing: report it (it is never silent)
        print("VIOLATION property=%s replay=%s no-failing-input-found" % (a.pid, path))
        vlib.write_evidence(a.pid, tier, "proof", {"evaluations": 1, "distinct_nontrivial": 0, "obligations": 1, "discharged": 0,
                            "checker_cmd": "lake build", "trusted_base": [], "explanation": "check crashed: %s" % e}, [], 0.0, 1)
        rc = 1
    vlib.build_repo.prune_cache()
    sys.exit(rc)


if __name__ == "__main__":
    main()
