#!/usr/bin/env python3
"""Entry point of every quick_cmd / thorough_cmd:  tools/check.py Cxx [--tier quick|thorough] [--replay file]"""
import sys, os, argparse, importlib, json, time, traceback
sys.path.insert(0, os.path.dirname(os.path.abspath(__file__)))
sys.path.insert(0, os.path.join(os.path.dirname(os.path.abspath(__file__)), "props"))
import vlib


def _guard_children():
    """No process started by a check may outlive it or exhaust the machine (a changed /repo can make a harness loop while
    allocating): every child gets PR_SET_PDEATHSIG(SIGKILL), and a watchdog kills any descendant above VERIF_RSS_LIMIT_GB
    (default 24) resident memory — the harness then 'ends abnormally', which the checks report with the request as replay."""
    import subprocess, ctypes, signal, threading
    try:
        libc = ctypes.CDLL("libc.so.6", use_errno=True)
    except OSError:
        return

    def pdeathsig():
        libc.prctl(1, signal.SIGKILL)
    orig = subprocess.Popen.__init__

    def init(self, *a, **k):
        if k.get("preexec_fn") is None:
            k["preexec_fn"] = pdeathsig
        orig(self, *a, **k)
    subprocess.Popen.__init__ = init
    limit_kb = int(float(os.environ.get("VERIF_RSS_LIMIT_GB", "24")) * 1024 * 1024)
    me = os.getpid()

    def watch():
        while True:
            time.sleep(2.0)
            try:
                parent, rss = {}, {}
                for d in os.listdir("/proc"):
                    if not d.isdigit():
                        continue
                    try:
                        st = open("/proc/%s/stat" % d).read()
                        rest = st[st.rindex(")") + 2:].split()
                        parent[int(d)] = int(rest[1])
                        rss[int(d)] = int(rest[21]) * 4          # pages of 4 kB
                    except (OSError, ValueError, IndexError):
                        continue
                for pid, r in rss.items():
                    if r < limit_kb or pid == me:
                        continue
                    q, hops = pid, 0
                    while q in parent and q != me and q > 1 and hops < 64:
                        q, hops = parent[q], hops + 1
                    if q == me:
                        sys.stderr.write("[check.py] killing descendant %d: resident set %.1f GB above the limit\n" % (pid, r / 1048576.0))
                        try:
                            os.kill(pid, signal.SIGKILL)
                        except OSError:
                            pass
            except Exception:
                pass
    threading.Thread(target=watch, daemon=True).start()


def main():
    _guard_children()
    ap = argparse.ArgumentParser()
    ap.add_argument("pid")
    ap.add_argument("--tier", default=os.environ.get("VERIF_TIER", "quick"))
    ap.add_argument("--replay", default=None)
    a = ap.parse_args()
    tier = a.tier if a.tier in ("quick", "thorough") else "quick"
    mod = importlib.import_module("props." + a.pid.lower())
    ctx = {"tier": tier, "seed": vlib.seed(), "replay": None}
    if a.replay:
        ctx["replay"] = json.load(open(a.replay))
        if hasattr(mod, "replay"):
            sys.exit(mod.replay(ctx))
    try:
        rc = mod.run(ctx)
    except Exception as e:
        traceback.print_exc()
        path = vlib.write_replay(a.pid, {"property": a.pid, "no_longer_checks": [{"kind": "machinery", "what": "check raised %s: %s" % (type(e).__name__, e)}]})
        # a check that cannot run proves nothing: report it (it is never silent)
        print("VIOLATION property=%s replay=%s no-failing-input-found" % (a.pid, path))
        vlib.write_evidence(a.pid, tier, "proof", {"evaluations": 1, "distinct_nontrivial": 0, "obligations": 1, "discharged": 0,
                            "checker_cmd": "lake build", "trusted_base": [], "explanation": "check crashed: %s" % e}, [], 0.0, 1)
        rc = 1
    vlib.build_repo.prune_cache()
    sys.exit(rc)


if __name__ == "__main__":
    main()
