#!/usr/bin/env python3
"""Re-run every stored seeded change against the CURRENT checks (coordinator tool, long: ~2-3 h).
For each /verif/seeded/<name>/patch.diff: apply it to the scratch worktree /tmp/seedchk (at /repo HEAD), run the quick check of the
seed's property (and of the properties that caught it before) in the private clone /tmp/verif_seed with VERIF_REPO=/tmp/seedchk, undo.
Writes /verif/seeded/REGRESSION.json: per seed {applies, checks: {pid: {rc, kinds}}}.  /repo and /verif are not touched."""
import sys, os, json, subprocess, time, signal
sys.path.insert(0, os.path.dirname(os.path.abspath(__file__)))
import seedtest as ST

CLONE = os.environ.get("SEED_VERIF", "/tmp/verif_seed")
if os.environ.get("SEEDCHK"):
    ST.WT = os.environ["SEEDCHK"]
OUT = os.environ.get("SEED_REGRESSION_OUT", "/verif/seeded/REGRESSION.json")


def main():
    only = sys.argv[1:]
    ST.ensure_wt()
    res = json.load(open(OUT)) if os.path.exists(OUT) else {}
    names = sorted(d for d in os.listdir("/verif/seeded") if os.path.exists(os.path.join("/verif/seeded", d, "patch.diff")))
    if os.environ.get("SEED_REVERSE"):
        names.reverse()
    other = os.environ.get("SEED_OTHER_OUT")
    for name in names:
        if only and name not in only:
            continue
        if name in res and not only:
            continue
        if other and os.path.exists(other) and name in json.load(open(other)):
            continue          # the other worker already did it
        d = os.path.join("/verif/seeded", name)
        meta = json.load(open(os.path.join(d, "meta.json"))) if os.path.exists(os.path.join(d, "meta.json")) else {}
        pids = []
        for p in [meta.get("property")] + list(meta.get("detected_by") or []):
            if p and p not in pids and p.startswith("C"):
                pids.append(p)
        ST.sh("git -C %s checkout -- ." % ST.WT)
        ap = ST.sh("git -C %s apply %s" % (ST.WT, os.path.join(d, "patch.diff")))
        entry = {"applies": ap.returncode == 0, "checks": {}}
        if entry["applies"]:
            for pid in pids[:3]:
                t = time.time()
                c = ST.sh("cd %s && VERIF_REPO=%s python3 tools/check.py %s --tier quick" % (CLONE, ST.WT, pid), timeout=3000)
                kinds = ["no-failing-input-found" if "no-failing-input-found" in l else "failing-input" for l in c.stdout.splitlines() if l.startswith("VIOLATION")]
                entry["checks"][pid] = {"rc": c.returncode, "kinds": sorted(set(kinds)), "n": len(kinds), "wall": round(time.time() - t, 1)}
        else:
            entry["apply_err"] = ap.stderr[-200:]
        ST.sh("git -C %s checkout -- ." % ST.WT)
        res[name] = entry
        json.dump(res, open(OUT, "w"), indent=1, sort_keys=True)
        print(name, entry["applies"], {p: (v["rc"], v["kinds"]) for p, v in entry["checks"].items()}, flush=True)


if __name__ == "__main__":
    main()
