#!/usr/bin/env python3
"""Shared plumbing of the checks: seeded PRNG, line protocol, lake/audit, evidence, verdicts."""
import os, sys, re, json, struct, subprocess, time, hashlib, math
from fractions import Fraction

VERIF = os.path.dirname(os.path.dirname(os.path.abspath(__file__)))
REPO = os.environ.get("VERIF_REPO", "/repo")
LEAN = os.path.join(VERIF, "lean")
sys.path.insert(0, os.path.join(VERIF, "tools"))
import build_repo
import translate

ALLOWED_AXIOMS = {"propext", "Classical.choice", "Quot.sound"}
FORBIDDEN = re.compile(r"\bsorry\b|\badmit\b|^\s*axiom\s|native_decide|bv_decide|implemented_by|\bunsafe\s|maxHeartbeats\s+0\b", re.M)

ENV = dict(os.environ)
ENV.setdefault("MIMALLOC_PURGE_DELAY", "-1")
ENV["ASAN_OPTIONS"] = "detect_leaks=0:abort_on_error=0:exitcode=97:allocator_may_return_null=1:handle_abort=1"
ENV["UBSAN_OPTIONS"] = "print_stacktrace=1:halt_on_error=1:exitcode=98"


# ------------------------------------------------------------------------------------------
class Rng:
    """splitmix64 — every random choice of a check derives from one state seeded by VERIF_SEED"""
    M = (1 << 64) - 1

    def __init__(self, seed):
        self.s = (seed * 0x9E3779B97F4A7C15 + 0x1234567) & self.M

    def u64(self):
        self.s = (self.s + 0x9E3779B97F4A7C15) & self.M
        z = self.s
        z = ((z ^ (z >> 30)) * 0xBF58476D1CE4E5B9) & self.M
        z = ((z ^ (z >> 27)) * 0x94D049BB133111EB) & self.M
        return z ^ (z >> 31)

    def uniform(self, a=0.0, b=1.0):
        return a + (b - a) * ((self.u64() >> 11) / float(1 << 53))

    def randint(self, a, b):
        return a + self.u64() % (b - a + 1)

    def choice(self, l):
        return l[self.u64() % len(l)]

    def normal(self):
        u1 = max(self.uniform(), 1e-300)
        u2 = self.uniform()
        return math.sqrt(-2 * math.log(u1)) * math.cos(2 * math.pi * u2)

    def shuffle(self, l):
        for i in range(len(l) - 1, 0, -1):
            j = self.u64() % (i + 1)
            l[i], l[j] = l[j], l[i]
        return l

    def fork(self, tag):
        h = int(hashlib.sha256(("%d/%s" % (self.s, tag)).encode()).hexdigest()[:16], 16)
        return Rng(h)


def seed():
    try:
        return int(os.environ.get("VERIF_SEED", "1"))
    except ValueError:
        return 1


def fhex(x):
    return "%016x" % struct.unpack("<Q", struct.pack("<d", float(x)))[0]


def unhex(s):
    return struct.unpack("<d", struct.pack("<Q", int(s, 16)))[0]


def ulp(x):
    x = abs(x)
    if x == 0 or math.isinf(x) or math.isnan(x):
        return 5e-324
    return math.ulp(x)


def close(x, y, ulps=64, abs_tol=0.0):
    if math.isnan(x) or math.isnan(y):
        return math.isnan(x) and math.isnan(y)
    if x == y:
        return True
    return abs(x - y) <= ulps * ulp(max(abs(x), abs(y))) + abs_tol


# ------------------------------------------------------------------------------------------
def run_lines(exe, lines, timeout=600, env=None, args=()):
    """feed the request lines to a line-protocol executable; returns (list of answer lines, rc, stderr)"""
    inp = ("\n".join(lines) + "\n").encode()
    try:
        p = subprocess.run([exe] + list(args), input=inp, capture_output=True, timeout=timeout, env=env or ENV)
    except subprocess.TimeoutExpired as e:
        return (e.stdout or b"").decode(errors="replace").splitlines(), "timeout", (e.stderr or b"").decode(errors="replace")
    return p.stdout.decode(errors="replace").splitlines(), p.returncode, p.stderr.decode(errors="replace")


def driver_path(name):
    """path of the compiled model driver `drv_<pid>` (lean_exe in lean/lakefile.toml)"""
    return os.path.join(LEAN, ".lake", "build", "bin", name)


# ------------------------------------------------------------------------------------------
def lake_build(targets, timeout=3000):
    t = time.time()
    p = subprocess.run(["lake", "build"] + list(targets), cwd=LEAN, capture_output=True, env=ENV, timeout=timeout)
    log = p.stdout.decode(errors="replace") + p.stderr.decode(errors="replace")
    return p.returncode == 0, log, time.time() - t


def strip_lean_comments(text):
    text = re.sub(r"/-.*?-/", "", text, flags=re.S)
    text = re.sub(r"--[^\n]*", "", text)
    return text


def import_closure(module):
    """local (SimuVerif.* / Driver.*) modules reachable from `module` through import lines"""
    seen, todo = [], [module]
    while todo:
        m = todo.pop()
        if m in seen:
            continue
        fp = os.path.join(LEAN, *m.split(".")) + ".lean"
        if not os.path.exists(fp):
            continue
        seen.append(m)
        for mm in re.findall(r"^\s*(?:public\s+)?import\s+((?:SimuVerif|Driver)[\w.]*)", open(fp).read(), flags=re.M):
            todo.append(mm)
    return seen


def scan_forbidden(pid=None):
    """textual scan of the Lean sources the property depends on (its import closure; the whole
    library when pid is None) for sorry/admit/axiom/native_decide/…  Hits inside comments are discarded."""
    hits = []
    if pid is None:
        files = []
        for d, _, fs in os.walk(LEAN):
            if ".lake" in d:
                continue
            files += [os.path.join(d, f) for f in fs if f.endswith(".lean")]
    else:
        mods = import_closure("SimuVerif.Properties." + pid) + import_closure("Driver." + pid)
        files = [os.path.join(LEAN, *m.split(".")) + ".lean" for m in mods]
    for fp in sorted(set(files)):
        txt = strip_lean_comments(open(fp).read())
        for m in FORBIDDEN.finditer(txt):
            hits.append("%s: %s" % (os.path.relpath(fp, VERIF), m.group(0).strip()))
    return hits


def write_audit(pid, theorems, namespace):
    """(re)generate lean/SimuVerif/Audit/<pid>.lean listing `#print axioms` for the property's theorems"""
    txt = "-- GENERATED by tools/vlib.py: axiom audit of the theorems claimed for %s\nimport SimuVerif.Properties.%s\nopen %s\n" % (pid, pid, namespace)
    for t in theorems:
        txt += "#print axioms %s\n" % t
    translate.write_if_changed(os.path.join(LEAN, "SimuVerif", "Audit", pid + ".lean"), txt)


def parse_axioms(log):
    """{'thm': [axioms]} from the (built or replayed) log of an Audit module"""
    out = {}
    for m in re.finditer(r"'([^']+)' depends on axioms: \[([^\]]*)\]", log):
        out[m.group(1)] = [a.strip() for a in m.group(2).replace("\n", " ").split(",") if a.strip()]
    for m in re.finditer(r"'([^']+)' does not depend on any axioms", log):
        out[m.group(1)] = []
    return out


def prove(pid, theorems, namespace, extra_targets=()):
    """translator output must already be on disk.  Builds the property module, its audit and the
    driver; returns dict(ok, obligations, discharged, failures[], axioms{}, log_tail)"""
    write_audit(pid, theorems, namespace)
    ok, log, wall = lake_build(["SimuVerif.Properties." + pid, "SimuVerif.Audit." + pid] + list(extra_targets))
    axioms = parse_axioms(log)
    failures = []
    discharged = 0
    for t in theorems:
        full = namespace + "." + t
        ax = axioms.get(full)
        if ax is None:
            failures.append({"theorem": full, "reason": "not checked (module failed to build or theorem missing)"})
        elif not set(ax) <= ALLOWED_AXIOMS:
            failures.append({"theorem": full, "reason": "depends on axioms %s" % ax})
        else:
            discharged += 1
    forb = scan_forbidden(pid)
    for h in forb:
        failures.append({"theorem": "-", "reason": "forbidden token: " + h})
    if not ok and not failures:
        failures.append({"theorem": "-", "reason": "lake build failed"})
    errs = [l for l in log.splitlines() if "error" in l]
    return {"ok": ok and not failures, "obligations": len(theorems), "discharged": discharged,
            "failures": failures, "axioms": axioms, "errors": errs[:20], "wall": wall,
            "log_tail": log[-3000:] if not ok else ""}


def leanchecker(module):
    p = subprocess.run(["lake", "env", "leanchecker", module], cwd=LEAN, capture_output=True, env=ENV, timeout=3000)
    return p.returncode == 0, (p.stdout.decode() + p.stderr.decode())[-2000:]


# ------------------------------------------------------------------------------------------
def known_findings():
    p = os.path.join(VERIF, "known_findings.json")
    if not os.path.exists(p):
        return {"findings": [], "fixed": []}
    return json.load(open(p))


def write_replay(pid, payload):
    d = os.path.join(VERIF, "replays", pid)
    os.makedirs(d, exist_ok=True)
    txt = json.dumps(payload, indent=1, sort_keys=True, default=str)
    h = hashlib.sha256(txt.encode()).hexdigest()[:12]
    path = os.path.join(d, h + ".json")
    with open(path, "w") as f:
        f.write(txt)
    return path


class Verdict:
    """collects what went wrong and prints the contract lines"""

    def __init__(self, pid):
        self.pid = pid
        self.concrete = []       # failing inputs: dict(kind, what, input, key)
        self.broken = []         # proof / correspondence that no longer checks: dict(kind, what)
        self.known_hit = []

    def fail_input(self, what, inp, key=None, **kw):
        d = {"kind": "failing-input", "what": what, "input": inp, "key": key}
        d.update(kw)
        self.concrete.append(d)

    def fail_tie(self, kind, what, **kw):
        d = {"kind": kind, "what": what}
        d.update(kw)
        self.broken.append(d)

    def finish(self):
        """prints KNOWN-FINDING / VIOLATION lines, returns (exit code, number of violations)"""
        kf = [f for f in known_findings().get("findings", []) if f.get("property") == self.pid]
        unlisted = []
        printed = set()
        for c in self.concrete:
            hit = None
            for f in kf:
                if f.get("key") is not None and f.get("key") == c.get("key"):
                    hit = f
            if hit:
                if hit["key"] not in printed:
                    print("KNOWN-FINDING: property=%s %s" % (self.pid, hit.get("what", c["what"])))
                    printed.add(hit["key"])
                self.known_hit.append(hit["key"])
            else:
                unlisted.append(c)
        nviol = 0
        if unlisted:
            # one replay per distinct 'what' (first, i.e. smallest, case)
            seen = set()
            for c in unlisted:
                if c["what"] in seen:
                    continue
                seen.add(c["what"])
                path = write_replay(self.pid, {"property": self.pid, "failing_input": c,
                                               "also_broken": self.broken[:5]})
                print("VIOLATION property=%s replay=%s" % (self.pid, path))
                nviol += 1
        elif self.broken:
            # a proof or the correspondence no longer checks and no failing input was found.
            # A tie broken only at inputs that are listed known findings is explained by them.
            unexplained = [b for b in self.broken if not b.get("explained_by_known")]
            if unexplained:
                path = write_replay(self.pid, {"property": self.pid, "no_longer_checks": unexplained})
                print("VIOLATION property=%s replay=%s no-failing-input-found" % (self.pid, path))
                nviol += 1
        return (1 if nviol else 0), nviol


def write_evidence(pid, tier, level, coverage, assumptions, wall, violations):
    os.makedirs(os.path.join(VERIF, "evidence"), exist_ok=True)
    ev = {"property_id": pid, "tier": tier, "seed": seed(), "level": level, "coverage": coverage,
          "assumptions": assumptions, "wall_s": round(wall, 2), "violations": violations}
    with open(os.path.join(VERIF, "evidence", pid + ".json"), "w") as f:
        json.dump(ev, f, indent=1, default=str)
    return ev


TRUSTED_COMMON = [
    "Lean 4.33.0 kernel; axioms allowed: propext, Classical.choice, Quot.sound (audited by #print axioms on every run)",
    "Mathlib v4.33.0 (only the modules imported by lean/SimuVerif/Lemmas and Properties)",
    "tools/translate.py + tools/cxx2lean.py (C++ subset -> Lean translator; its output is hashed into this file)",
    "harness/*.cpp + comparison tolerance (correspondence between the Float instance of the model and the compiled code)",
    "exact-arithmetic reading of doubles: IEEE rounding, overflow, NaN are not modelled",
]
