-- GENERATED: translation FAILED
#eval (throw (IO.userError "translator failed for Forces: tension: unexpected token '['") : IO Unit)
translator_failed
