-- GENERATED: translation FAILED
#eval (throw (IO.userError "translator failed for Integrator: structure not found: if(n1.is_used()){") : IO Unit)
translator_failed
