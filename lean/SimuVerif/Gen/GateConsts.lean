-- GENERATED: translation FAILED
#eval (throw (IO.userError "translator failed for GateConsts: triangulate_surface: `if(i == max_nb_tries - 1) throw intialization_exception(\u2026)` must follow the catch block") : IO Unit)
translator_failed
