-- GENERATED: translation FAILED
#eval (throw (IO.userError "translator failed for ParamTable: read_biomechanical_parameters: how the results are collected was not recognised") : IO Unit)
translator_failed
