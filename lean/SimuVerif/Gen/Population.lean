-- GENERATED: translation FAILED
#eval (throw (IO.userError "translator failed for Population: after the loop: unrecognised statement: for(size_t local_cell_id = 1; local_cell_id < cell_lst.size(); local_cell_id++){ cell_lst[local_cell") : IO Unit)
translator_failed
