-- GENERATED: translation FAILED
#eval (throw (IO.userError "translator failed for VtkConsts: cell_type_id mapper changed") : IO Unit)
translator_failed
