-- GENERATED: translation FAILED
#eval (throw (IO.userError "translator failed for VtkConsts: POINTS line of the writer not found") : IO Unit)
translator_failed
