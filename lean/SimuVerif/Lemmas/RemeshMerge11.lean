import SimuVerif.Lemmas.RemeshMerge10
/-
  Part 11: total correctness.  Under the hypotheses of the collapse theorem nothing in `merge_edge` can fail: the two
  `replace_node` walks return (they never run out of fuel, never read a missing face id, never dereference a missing
  edge), and so do the two `delete_face` calls — `mergeEdge_defined`.
-/
set_option linter.unusedSectionVars false
set_option linter.unusedVariables false
set_option linter.unusedSimpArgs false
namespace Simu.Remesh
open Simu Simu.Surface
open Simu.C11 (bind_ok newSlot)

section
variable {R : Type} [Add R] [Sub R] [Mul R] [Div R] [Neg R] [Lit R] [LT R] [LE R] [DecidableLT R]
  [DecidableLE R] [DecidableEq R]

/-! ## 1. one iteration of `replaceNode.loop`, forwards -/

theorem loop_eval {fn : Fn R} {start : Edge} {old new fuel : Nat} {c : Cell R} {e : Edge} {faceId fid : Nat}
    {del cre : List Edge} {f f' : Face R} {ef1 ef2 : Nat} {s2 : EdgeSet} {stored : Edge}
    (ho : e.otherFace faceId = .ok fid) (hf : c.faces[fid]? = some f) (h1 : e.f1 = some ef1) (h2 : e.f2 = some ef2)
    (hbr : ((EdgeSet.insert (stepFaces fn c fid f old new).edges (renEdge e old new)).2.2 = true ∧
          s2 = (EdgeSet.insert (stepFaces fn c fid f old new).edges (renEdge e old new)).1 ∧
          stored = (EdgeSet.insert (stepFaces fn c fid f old new).edges (renEdge e old new)).2.1) ∨
       ((EdgeSet.insert (stepFaces fn c fid f old new).edges (renEdge e old new)).2.2 = false ∧ ∃ g1 g2,
          (EdgeSet.insert (stepFaces fn c fid f old new).edges (renEdge e old new)).2.1.f1 = some g1 ∧
          (EdgeSet.insert (stepFaces fn c fid f old new).edges (renEdge e old new)).2.1.f2 = some g2 ∧
          stored = mergedEntry start (EdgeSet.insert (stepFaces fn c fid f old new).edges (renEdge e old new)).2.1
            g1 g2 faceId fid ∧
          s2 = EdgeSet.update (EdgeSet.insert (stepFaces fn c fid f old new).edges (renEdge e old new)).1 stored))
    (hf' : (stepFaces fn c fid f old new).faces[fid]? = some f') :
    replaceNode.loop fn start old new (fuel + 1) c (some e) faceId del cre =
      (match oppositeNode f' stored.n1 stored.n2 with
       | none => .ok (({ stepFaces fn c fid f old new with edges := EdgeSet.erase s2 e.key } : Cell R),
           del ++ [e], cre ++ [stored])
       | some opp =>
         match getEdge ({ stepFaces fn c fid f old new with edges := EdgeSet.erase s2 e.key } : Cell R) old opp with
         | none => .ok (({ stepFaces fn c fid f old new with edges := EdgeSet.erase s2 e.key } : Cell R),
             del ++ [e], cre ++ [stored])
         | some nxt => replaceNode.loop fn start old new fuel
             ({ stepFaces fn c fid f old new with edges := EdgeSet.erase s2 e.key } : Cell R) (some nxt) fid
             (del ++ [e]) (cre ++ [stored])) := by
  have hne : Edge.mk' (if (e.n1 == old) = true then new else e.n1) (if (e.n2 == old) = true then new else e.n2)
      (some ef1) (some ef2) = renEdge e old new := by
    unfold renEdge; rw [h1, h2]
  have hst : updFaceGeom fn ({ c with faces := c.faces.set! fid (faceReplaceNode f old new) } : Cell R) fid =
      stepFaces fn c fid f old new := rfl
  conv_lhs => unfold replaceNode.loop
  simp only [ho, hf, h1, h2, bind, Except.bind, hne, hst]
  rcases hbr with ⟨hb, rfl, rfl⟩ | ⟨hb, g1, g2, hg1, hg2, rfl, rfl⟩
  · simp only [hb, if_true, pure, Except.pure, hf']
    rfl
  · simp only [hb, Bool.false_eq_true, if_false, hg1, hg2, pure, Except.pure, hf']
    rfl

/-! ## 2. the first walk returns -/

/-- one step of the first walk, forwards: the iteration either returns the final state or continues with the next edge -/
theorem walk1_fwd {fn : Fn R} {start : Edge} {old new k : Nat} {F N : Nat → Nat} {c0 c : Cell R} {j fuel : Nat}
    (hfan : FanF (slots c0) old k F N) (hon : old ≠ new) (hfresh : FreshNode c0 new)
    (hW : WalkState old new F N (fun m g => SideK (slots c0) g (Edge.keyOf old (N m))) c0 c j) (hj : j < k) (del cre : List Edge) :
    (j + 1 = k ∧ ∃ c2 del' cre', WalkState old new F N (fun m g => SideK (slots c0) g (Edge.keyOf old (N m))) c0 c2 k ∧
      replaceNode.loop fn start old new (fuel + 1) c (EdgeSet.find? c.edges (Edge.keyOf old (N j))) (F j) del cre
        = .ok (c2, del', cre')) ∨
    (j + 1 < k ∧ ∃ c2 del' cre', WalkState old new F N (fun m g => SideK (slots c0) g (Edge.keyOf old (N m))) c0 c2 (j + 1) ∧
      replaceNode.loop fn start old new (fuel + 1) c (EdgeSet.find? c.edges (Edge.keyOf old (N j))) (F j) del cre
        = replaceNode.loop fn start old new fuel c2 (EdgeSet.find? c2.edges (Edge.keyOf old (N (j + 1)))) (F (j + 1))
          del' cre') := by
  have hk2 := hfan.two_le (by omega)
  obtain ⟨e, hcur⟩ := hW.idx.get (g := F (j + 1)) (k := Edge.keyOf old (N j))
    ((Pj_at_old hfan hon _ _ hj (Nat.le_refl _) _).2 ((hfan.side hj _).2 (Or.inr rfl)))
  rw [hcur]
  obtain ⟨ek, ele, ewf, eP⟩ := hW.idx.of_find hcur
  have eF : ∀ g, e.hasFace g = true ↔ (g = F j ∨ g = F (j + 1)) := fun g =>
    (eP g).trans ((Pj_at_old hfan hon _ _ hj (Nat.le_refl _) g).trans (hfan.side hj g))
  have ho := otherFace_two ewf eF (hfan.F_succ_ne hj)
  obtain ⟨ef1, ef2, he1, he2⟩ : ∃ ef1 ef2, e.f1 = some ef1 ∧ e.f2 = some ef2 := by
    rcases two_faces ewf eF (hfan.F_succ_ne hj) with ⟨a1, a2⟩ | ⟨a1, a2⟩ <;> exact ⟨_, _, a1, a2⟩
  -- the face that is renamed
  obtain ⟨t, ht0, hT⟩ := hfan.tri j hj
  have hnotdone : ∀ m, 1 ≤ m → m ≤ j → F (j + 1) ≠ F m := by
    intro m h1 h2 he
    have := hfan.injF (j + 1) m (by omega) (by omega) h1 (by omega) he
    omega
  have hslot : (slots c)[F (j + 1)]? = some (some t) := by rw [hW.other _ hnotdone]; exact ht0
  obtain ⟨f, hf, hu, hft⟩ := slot_some_iff.1 hslot
  subst hft
  have htri := triOf_faceReplaceNode (new := new) hu hT
  obtain ⟨sS, sE, sN, sFN, sFF⟩ := stepFaces_spec fn c (F (j + 1)) f old new
  rw [htri] at sS
  have hlt : F (j + 1) < (slots c).length := (List.getElem?_eq_some_iff.1 hslot).1
  -- the renamed edge
  have hNj : N j ≠ old := hfan.N_ne hj
  obtain ⟨rk, rle, rf1, rf2, rn12⟩ := renEdge_spec (new := new) ele ek hNj
  have hnone : EdgeSet.find? c.edges (renEdge e old new).key = none := by
    rw [rk]
    refine hW.idx.none_of (fun g => ?_)
    rintro ⟨_, ⟨m, hm, he, _⟩ | ⟨_, hp⟩⟩
    · have := hfan.K'_inj hj (by omega) he; omega
    · exact hfresh.no_side g _ hp
  have hkk : (renEdge e old new).key ≠ e.key := by rw [rk, ek]; exact hfan.KK' hon hj
  obtain ⟨mb, mst, mI⟩ := move_idx hW.idx (by rw [ek]; exact hcur) rle rf1 rf2 hkk hnone
  have hbr : ((EdgeSet.insert (stepFaces fn c (F (j + 1)) f old new).edges (renEdge e old new)).2.2 = true ∧
      (EdgeSet.insert c.edges (renEdge e old new)).1 =
        (EdgeSet.insert (stepFaces fn c (F (j + 1)) f old new).edges (renEdge e old new)).1 ∧
      renEdge e old new = (EdgeSet.insert (stepFaces fn c (F (j + 1)) f old new).edges (renEdge e old new)).2.1) := by
    rw [sE]; exact ⟨mb, rfl, mst.symm⟩
  have RI := EdgeSet.insert_spec hW.idx.sorted (renEdge e old new)
  have hfind : ∀ q, q ≠ e.key →
      EdgeSet.find? (EdgeSet.erase (EdgeSet.insert c.edges (renEdge e old new)).1 e.key) q =
        if q = (renEdge e old new).key then some (renEdge e old new) else EdgeSet.find? c.edges q := by
    intro q hq
    rw [EdgeSet.find?_erase, if_neg hq, RI.find, mst]
  -- the state after the step
  obtain ⟨c2, hc2⟩ : ∃ c2 : Cell R, c2 = ({ stepFaces fn c (F (j + 1)) f old new with
      edges := EdgeSet.erase (EdgeSet.insert c.edges (renEdge e old new)).1 e.key } : Cell R) := ⟨_, rfl⟩
  have hS2 : slots c2 = (slots c).set (F (j + 1)) (some (renT old new (f.n1, f.n2, f.n3))) := by
    rw [hc2]; exact sS
  have hE2 : c2.edges = EdgeSet.erase (EdgeSet.insert c.edges (renEdge e old new)).1 e.key := by rw [hc2]
  have hW2 : WalkState old new F N (fun m g => SideK (slots c0) g (Edge.keyOf old (N m))) c0 c2 (j + 1) := by
    refine ⟨?_, ?_, ?_, ?_, ?_, ?_, ?_, fun h0 => by omega, ?_⟩
    · rw [hS2, List.length_set]; exact hW.len
    · intro m h1 h2
      rw [hS2]
      by_cases hm : m = j + 1
      · subst hm
        rw [List.getElem?_set_self hlt, ht0]; rfl
      · rw [List.getElem?_set_ne (hnotdone m h1 (by omega))]
        exact hW.done m h1 (by omega)
    · intro g hg
      rw [hS2, List.getElem?_set_ne (Ne.symm (hg (j + 1) (by omega) (Nat.le_refl _)))]
      exact hW.other g (fun m h1 h2 => hg m h1 (by omega))
    · rw [hE2]
      refine mI.congr (fun g q => ?_)
      rw [ek, rk, Pj_succ hfan hon _ _ hj g q]
      by_cases hq : q = Edge.keyOf new (N j)
      · rw [if_pos hq, if_pos hq, Pj_at_old hfan hon _ _ hj (Nat.le_refl _)]
      · rw [if_neg hq, if_neg hq]
    · rw [hc2]; exact sN.trans hW.nodes
    · rw [hc2]; exact sFN.trans hW.freeNodes
    · rw [hc2]; exact sFF.trans hW.freeFaces
    · intro _
      by_cases h0 : j = 0
      · subst h0
        refine ⟨e, renEdge e old new, ?_, ?_, rf1, rf2⟩
        · rw [← hW.zero rfl]; exact hcur
        · rw [hE2, hfind _ (by rw [← rk]; exact hkk), if_pos rk.symm]
      · obtain ⟨e0, ne0, q1, q2, q3, q4⟩ := hW.first (by omega)
        refine ⟨e0, ne0, q1, ?_, q3, q4⟩
        have hne2 : Edge.keyOf new (N 0) ≠ (renEdge e old new).key := by
          rw [rk]; intro he
          have := hfan.K'_inj (by omega) hj he
          omega
        rw [hE2, hfind _ (by rw [ek]; exact hfan.KK' hon (by omega)), if_neg hne2]
        exact q2
  -- the opposite node
  have hs' : (slots (stepFaces fn c (F (j + 1)) f old new))[F (j + 1)]? =
      some (some (renT old new (f.n1, f.n2, f.n3))) := by rw [sS]; exact List.getElem?_set_self hlt
  obtain ⟨f', hf', hu', hft'⟩ := slot_some_iff.1 hs'
  have hft' := hft'
  have hnew1 : N j ≠ new := by
    intro he
    have := hfresh _ _ ht0
    rw [(hT.hasNode_iff' new).2 (Or.inr (Or.inl he.symm))] at this; cases this
  have hnew2 : N (j + 1) ≠ new := by
    intro he
    have := hfresh _ _ ht0
    rw [(hT.hasNode_iff' new).2 (Or.inr (Or.inr he.symm))] at this; cases this
  have hT' : IsTri (f'.n1, f'.n2, f'.n3) new (N j) (N (j + 1)) := by
    rw [hft']; exact isTri_renT hT hnew1 hnew2
  have hopp : oppositeNode f' (renEdge e old new).n1 (renEdge e old new).n2 = some (N (j + 1)) := by
    rcases rn12 with ⟨a1, a2⟩ | ⟨a1, a2⟩
    · rw [a1, a2]; exact (oppositeNode_isTri hT').1
    · rw [a1, a2]; exact (oppositeNode_isTri hT').2
  have hEq := loop_eval (fn := fn) (start := start) (fuel := fuel) (del := del) (cre := cre) ho hf he1 he2
    (Or.inl hbr) hf'
  rw [hopp, ← hc2] at hEq
  simp only [] at hEq
  rw [getEdge_eq] at hEq
  by_cases hlast : j + 1 = k
  · left
    refine ⟨hlast, ?_⟩
    have hnn : EdgeSet.find? c2.edges (Edge.keyOf old (N (j + 1))) = none := by
      refine hW2.idx.none_of (fun g hp => ?_)
      rw [hlast, hfan.closeN] at hp
      exact hp.1 0 (by omega) rfl
    rw [hnn] at hEq
    have hW2' := hW2
    rw [hlast] at hW2'
    exact ⟨c2, _, _, hW2', hEq⟩
  · right
    have hj1 : j + 1 < k := by omega
    refine ⟨hj1, ?_⟩
    obtain ⟨ed, hed⟩ := hW2.idx.get (g := F (j + 1 + 1)) (k := Edge.keyOf old (N (j + 1)))
      ((Pj_at_old hfan hon _ _ hj1 (Nat.le_refl _) _).2 ((hfan.side hj1 _).2 (Or.inr rfl)))
    rw [hed] at hEq
    exact ⟨c2, _, _, hW2, by rw [hed]; exact hEq⟩

/-- the first walk returns: with `fuel ≥ k - j + 1` the loop started at step `j` ends in the final state -/
theorem walk1_total {fn : Fn R} {start : Edge} {old new k : Nat} {F N : Nat → Nat} {c0 : Cell R}
    (hfan : FanF (slots c0) old k F N) (hon : old ≠ new) (hfresh : FreshNode c0 new) :
    ∀ (d j : Nat) (c : Cell R) (del cre : List Edge) (fuel : Nat), k - j = d → j < k → d ≤ fuel → WalkState old new F N (fun m g => SideK (slots c0) g (Edge.keyOf old (N m))) c0 c j →
      ∃ c' del' cre', WalkState old new F N (fun m g => SideK (slots c0) g (Edge.keyOf old (N m))) c0 c' k ∧
        replaceNode.loop fn start old new fuel c (EdgeSet.find? c.edges (Edge.keyOf old (N j))) (F j) del cre
          = .ok (c', del', cre') := by
  intro d
  induction d with
  | zero => intro j c del cre fuel hd hj; omega
  | succ d ih =>
    intro j c del cre fuel hd hj hfuel hW
    obtain ⟨fuel, rfl⟩ : ∃ f, fuel = f + 1 := ⟨fuel - 1, by omega⟩
    rcases walk1_fwd (fn := fn) (start := start) (fuel := fuel) hfan hon hfresh hW hj del cre with
      ⟨_, c2, d2, cr2, hW2, hEq⟩ | ⟨hj1, c2, d2, cr2, hW2, hEq⟩
    · exact ⟨c2, d2, cr2, hW2, hEq⟩
    · obtain ⟨c', d', cr', hW', hEq'⟩ := ih (j + 1) c2 d2 cr2 fuel (by omega) hj1 (by omega) hW2
      exact ⟨c', d', cr', hW', hEq.trans hEq'⟩

/-! ## 3. the second walk returns -/

/-- the edges `{new, N 1}` and `{new, N (k-1)}` onto which the second walk merges have two faces each (they do: the first
    walk went around a closed fan) -/
def TwoFaced (L0 : List (Option Tri)) (new k : Nat) (N : Nat → Nat) : Prop :=
  ∀ j, j < k → (j = 1 ∨ j + 1 = k) → ∃ p q, p ≠ q ∧ ∀ g, SideK L0 g (Edge.keyOf new (N j)) ↔ (g = p ∨ g = q)

theorem walk2_fwd {fn : Fn R} {start : Edge} {old new k : Nat} {F N : Nat → Nat} {c0 c : Cell R} {j fuel : Nat}
    (H : Walk2Hyp (slots c0) start old new k F N) (htwo : TwoFaced (slots c0) new k N)
    (hW : WalkState old new F N (Q2 old new k F N (SideK (slots c0))) c0 c j) (hj : j < k) (del cre : List Edge) :
    (j + 1 = k ∧ ∃ c2 del' cre', WalkState old new F N (Q2 old new k F N (SideK (slots c0))) c0 c2 k ∧
      replaceNode.loop fn start old new (fuel + 1) c (EdgeSet.find? c.edges (Edge.keyOf old (N j))) (F j) del cre
        = .ok (c2, del', cre')) ∨
    (j + 1 < k ∧ ∃ c2 del' cre', WalkState old new F N (Q2 old new k F N (SideK (slots c0))) c0 c2 (j + 1) ∧
      replaceNode.loop fn start old new (fuel + 1) c (EdgeSet.find? c.edges (Edge.keyOf old (N j))) (F j) del cre
        = replaceNode.loop fn start old new fuel c2 (EdgeSet.find? c2.edges (Edge.keyOf old (N (j + 1)))) (F (j + 1))
          del' cre') := by
  have hfan := H.fan
  have hon := H.hon
  have hk3 := H.k3
  obtain ⟨e, hcur⟩ := hW.idx.get (g := F (j + 1)) (k := Edge.keyOf old (N j))
    ((Pj_at_old hfan hon _ _ hj (Nat.le_refl _) _).2 ((hfan.side hj _).2 (Or.inr rfl)))
  rw [hcur]
  obtain ⟨ek, ele, ewf, eP⟩ := hW.idx.of_find hcur
  have eF : ∀ g, e.hasFace g = true ↔ (g = F j ∨ g = F (j + 1)) := fun g =>
    (eP g).trans ((Pj_at_old hfan hon _ _ hj (Nat.le_refl _) g).trans (hfan.side hj g))
  have ho := otherFace_two ewf eF (hfan.F_succ_ne hj)
  obtain ⟨ef1, ef2, he1, he2⟩ : ∃ ef1 ef2, e.f1 = some ef1 ∧ e.f2 = some ef2 := by
    rcases two_faces ewf eF (hfan.F_succ_ne hj) with ⟨a1, a2⟩ | ⟨a1, a2⟩ <;> exact ⟨_, _, a1, a2⟩
  -- the face that is renamed
  obtain ⟨t, ht0, hT⟩ := hfan.tri j hj
  have hnotdone : ∀ m, 1 ≤ m → m ≤ j → F (j + 1) ≠ F m := by
    intro m h1 h2 he
    have := hfan.injF (j + 1) m (by omega) (by omega) h1 (by omega) he
    omega
  have hslot : (slots c)[F (j + 1)]? = some (some t) := by rw [hW.other _ hnotdone]; exact ht0
  obtain ⟨f, hf, hu, hft⟩ := slot_some_iff.1 hslot
  subst hft
  have htri := triOf_faceReplaceNode (new := new) hu hT
  obtain ⟨sS, sE, sN, sFN, sFF⟩ := stepFaces_spec fn c (F (j + 1)) f old new
  rw [htri] at sS
  have hlt : F (j + 1) < (slots c).length := (List.getElem?_eq_some_iff.1 hslot).1
  -- the renamed edge
  have hNj : N j ≠ old := hfan.N_ne hj
  obtain ⟨rk, rle, rf1, rf2, rn12⟩ := renEdge_spec (new := new) ele ek hNj
  have hkk : (renEdge e old new).key ≠ e.key := by rw [rk, ek]; exact hfan.KK' hon hj
  have hecur : EdgeSet.find? c.edges e.key = some e := by rw [ek]; exact hcur
  -- the index after the step
  have key : ∃ s2 stored, (((EdgeSet.insert (stepFaces fn c (F (j + 1)) f old new).edges (renEdge e old new)).2.2 = true ∧
          s2 = (EdgeSet.insert (stepFaces fn c (F (j + 1)) f old new).edges (renEdge e old new)).1 ∧
          stored = (EdgeSet.insert (stepFaces fn c (F (j + 1)) f old new).edges (renEdge e old new)).2.1) ∨
       ((EdgeSet.insert (stepFaces fn c (F (j + 1)) f old new).edges (renEdge e old new)).2.2 = false ∧ ∃ g1 g2,
          (EdgeSet.insert (stepFaces fn c (F (j + 1)) f old new).edges (renEdge e old new)).2.1.f1 = some g1 ∧
          (EdgeSet.insert (stepFaces fn c (F (j + 1)) f old new).edges (renEdge e old new)).2.1.f2 = some g2 ∧
          stored = mergedEntry start
            (EdgeSet.insert (stepFaces fn c (F (j + 1)) f old new).edges (renEdge e old new)).2.1 g1 g2 (F j)
            (F (j + 1)) ∧
          s2 = EdgeSet.update (EdgeSet.insert (stepFaces fn c (F (j + 1)) f old new).edges (renEdge e old new)).1
            stored)) ∧
      IdxP (Pj old new N (SideK (slots c0)) (Q2 old new k F N (SideK (slots c0))) (j + 1))
        (EdgeSet.erase s2 e.key) ∧
      ((stored.n1 = new ∧ stored.n2 = N j) ∨ (stored.n1 = N j ∧ stored.n2 = new)) ∧
      (j = 0 → ∃ ne, EdgeSet.find? (EdgeSet.erase s2 e.key) (Edge.keyOf new (N 0)) = some ne ∧
        ne.f1 = e.f1 ∧ ne.f2 = e.f2) ∧
      (0 < j → EdgeSet.find? (EdgeSet.erase s2 e.key) (Edge.keyOf new (N 0)) =
        EdgeSet.find? c.edges (Edge.keyOf new (N 0))) := by
    have hk0e : 0 < j → Edge.keyOf new (N 0) ≠ e.key := by
      intro _; rw [ek]; exact hfan.KK' hon (by omega)
    have hk0n : 0 < j → Edge.keyOf new (N 0) ≠ Edge.keyOf new (N j) := by
      intro _ he
      have := hfan.K'_inj (by omega) hj he
      omega
    by_cases hcase : j = 0 ∨ (2 ≤ j ∧ j + 2 ≤ k)
    · -- the renamed edge is new
      have hnone : EdgeSet.find? c.edges (renEdge e old new).key = none := by
        rw [rk]
        refine hW.idx.none_of (fun g hp => ?_)
        have hp' := (Pj_at_new hfan hon _ _ hj (Nat.le_refl _) g).1 hp
        rcases hcase with h0 | ⟨h2, h3⟩
        · rw [h0, H.n0] at hp'; exact H.nd g hp'
        · exact H.link j h2 h3 g hp'
      obtain ⟨mb, mst, mI⟩ := move_idx hW.idx hecur rle rf1 rf2 hkk hnone
      have RI := EdgeSet.insert_spec hW.idx.sorted (renEdge e old new)
      have hfind : ∀ q, q ≠ e.key →
          EdgeSet.find? (EdgeSet.erase (EdgeSet.insert c.edges (renEdge e old new)).1 e.key) q =
            if q = (renEdge e old new).key then some (renEdge e old new) else EdgeSet.find? c.edges q := by
        intro q hq
        rw [EdgeSet.find?_erase, if_neg hq, RI.find, mst]
      refine ⟨(EdgeSet.insert c.edges (renEdge e old new)).1, renEdge e old new,
        Or.inl (by rw [sE]; exact ⟨mb, rfl, mst.symm⟩), mI.congr (fun g q => ?_), rn12, ?_, ?_⟩
      · rw [ek, rk, Pj_succ hfan hon _ _ hj g q]
        by_cases hq : q = Edge.keyOf new (N j)
        · rw [if_pos hq, if_pos hq, Pj_at_old hfan hon _ _ hj (Nat.le_refl _), H.Q2_move hj hcase]
        · rw [if_neg hq, if_neg hq]
      · intro h0
        subst h0
        exact ⟨renEdge e old new, by rw [hfind _ (by rw [← rk]; exact hkk), if_pos rk.symm], rf1, rf2⟩
      · intro h0
        rw [hfind _ (hk0e h0), if_neg (by rw [rk]; exact hk0n h0)]
    · -- the renamed edge exists: merge
      have hjm : j = 1 ∨ j + 1 = k := by omega
      have hj1 : 1 ≤ j := by omega
      obtain ⟨D, D', G, hs, hD, hD', hG, hGD, hGD', hnew, hB, hDD⟩ := H.merge_data hj hjm
      obtain ⟨st, hst⟩ := hW.idx.get (g := D) (k := Edge.keyOf new (N j))
        ((Pj_at_new hfan hon _ _ hj (Nat.le_refl _) D).2 hD)
      obtain ⟨sk, sle, swf, sP⟩ := hW.idx.of_find hst
      obtain ⟨p, q, hpq, hside⟩ := htwo j hj hjm
      have sF : ∀ g, st.hasFace g = true ↔ (g = p ∨ g = q) := fun g =>
        (sP g).trans ((Pj_at_new hfan hon _ _ hj (Nat.le_refl _) g).trans (hside g))
      obtain ⟨g1, g2, hg1, hg2⟩ : ∃ g1 g2, st.f1 = some g1 ∧ st.f2 = some g2 := by
        rcases two_faces swf sF hpq with ⟨a1, a2⟩ | ⟨a1, a2⟩ <;> exact ⟨_, _, a1, a2⟩
      obtain ⟨mw, mh⟩ := mergedEntry_spec (start := start) (oldFace := F j) (fid := F (j + 1))
        (A := fun g => SideK (slots c0) g (Edge.keyOf new (N j))) hg1 hg2 swf
        (fun g => (sP g).trans (Pj_at_new hfan hon _ _ hj (Nat.le_refl _) g)) hs hD hD' hG hGD hGD' hnew
      obtain ⟨mb', mst', ms, mI⟩ := merge_idx (st := st) (e' := mergedEntry start st g1 g2 (F j) (F (j + 1))) hW.idx hecur hkk
        (by rw [rk]; exact hst) rfl rfl mw
      refine ⟨EdgeSet.update c.edges (mergedEntry start st g1 g2 (F j) (F (j + 1))),
        mergedEntry start st g1 g2 (F j) (F (j + 1)), Or.inr ?_, mI.congr (fun g q => ?_), ?_, fun h0 => by omega, ?_⟩
      · rw [sE, mst', ms]
        exact ⟨mb', g1, g2, hg1, hg2, rfl, rfl⟩
      · rw [ek, rk, Pj_succ hfan hon _ _ hj g q]
        by_cases hq : q = Edge.keyOf new (N j)
        · rw [if_pos hq, if_pos hq, mh g]
          unfold Q2
          rw [if_neg (by omega), hB g, hDD g]
        · rw [if_neg hq, if_neg hq]
      · exact (Edge.key_eq_keyOf_iff sle).1 sk
      · intro h0
        have hsk : (mergedEntry start st g1 g2 (F j) (F (j + 1))).key = Edge.keyOf new (N j) :=
          (Edge.key_congr rfl rfl).trans sk
        rw [EdgeSet.find?_erase, if_neg (hk0e h0), EdgeSet.find?_update, if_neg (by rw [hsk]; exact hk0n h0)]
  obtain ⟨s2, stored, hbr, kI, kn, kf0, kf1⟩ := key
  -- the state after the step
  obtain ⟨c2, hc2⟩ : ∃ c2 : Cell R, c2 = ({ stepFaces fn c (F (j + 1)) f old new with
      edges := EdgeSet.erase s2 e.key } : Cell R) := ⟨_, rfl⟩
  have hS2 : slots c2 = (slots c).set (F (j + 1)) (some (renT old new (f.n1, f.n2, f.n3))) := by
    rw [hc2]; exact sS
  have hE2 : c2.edges = EdgeSet.erase s2 e.key := by rw [hc2]
  have hW2 : WalkState old new F N (Q2 old new k F N (SideK (slots c0))) c0 c2 (j + 1) := by
    refine ⟨?_, ?_, ?_, ?_, ?_, ?_, ?_, fun h0 => by omega, ?_⟩
    · rw [hS2, List.length_set]; exact hW.len
    · intro m h1 h2
      rw [hS2]
      by_cases hm : m = j + 1
      · subst hm
        rw [List.getElem?_set_self hlt, ht0]; rfl
      · rw [List.getElem?_set_ne (hnotdone m h1 (by omega))]
        exact hW.done m h1 (by omega)
    · intro g hg
      rw [hS2, List.getElem?_set_ne (Ne.symm (hg (j + 1) (by omega) (Nat.le_refl _)))]
      exact hW.other g (fun m h1 h2 => hg m h1 (by omega))
    · rw [hE2]; exact kI
    · rw [hc2]; exact sN.trans hW.nodes
    · rw [hc2]; exact sFN.trans hW.freeNodes
    · rw [hc2]; exact sFF.trans hW.freeFaces
    · intro _
      by_cases h0 : j = 0
      · obtain ⟨ne, q2, q3, q4⟩ := kf0 h0
        refine ⟨e, ne, ?_, by rw [hE2]; exact q2, q3, q4⟩
        rw [← hW.zero h0, ← h0]; exact hcur
      · obtain ⟨e0, ne0, q1, q2, q3, q4⟩ := hW.first (by omega)
        exact ⟨e0, ne0, q1, by rw [hE2, kf1 (by omega)]; exact q2, q3, q4⟩
  -- the opposite node
  have hs' : (slots (stepFaces fn c (F (j + 1)) f old new))[F (j + 1)]? =
      some (some (renT old new (f.n1, f.n2, f.n3))) := by rw [sS]; exact List.getElem?_set_self hlt
  obtain ⟨f', hf', hu', hft'⟩ := slot_some_iff.1 hs'
  have hEq := loop_eval (fn := fn) (start := start) (fuel := fuel) (del := del) (cre := cre) ho hf he1 he2 hbr hf'
  rw [← hc2] at hEq
  by_cases hlast : j + 1 = k
  · left
    refine ⟨hlast, ?_⟩
    have hTl : IsTri (f.n1, f.n2, f.n3) old (N j) new := by
      have := hT
      rw [hlast, hfan.closeN, H.n0] at this
      exact this
    obtain ⟨o1, o2⟩ := oppositeNode_renLast hTl hft'
    have hopp : oppositeNode f' stored.n1 stored.n2 = none := by
      rcases kn with ⟨a1, a2⟩ | ⟨a1, a2⟩
      · rw [a1, a2]; exact o1
      · rw [a1, a2]; exact o2
    rw [hopp] at hEq
    have hW2' := hW2
    rw [hlast] at hW2'
    exact ⟨c2, _, _, hW2', hEq⟩
  · right
    have hj1 : j + 1 < k := by omega
    refine ⟨hj1, ?_⟩
    have hopp : oppositeNode f' stored.n1 stored.n2 = some (N (j + 1)) := by
      by_cases h0 : j = 0
      · subst h0
        have hT0 : IsTri (f.n1, f.n2, f.n3) old new (N (0 + 1)) := by
          have := hT
          rw [H.n0] at this
          exact this
        have hnn : stored.n1 = new ∧ stored.n2 = new := by
          rw [H.n0] at kn
          rcases kn with ⟨a1, a2⟩ | ⟨a1, a2⟩
          · exact ⟨a1, a2⟩
          · exact ⟨a1, a2⟩
        rw [hnn.1, hnn.2]
        exact oppositeNode_ren0 hT0 hft'
      · have hnew1 : N j ≠ new := by
          intro he
          rw [← H.n0] at he
          have := hfan.injN j 0 hj (by omega) he
          exact h0 this
        have hnew2 : N (j + 1) ≠ new := by
          intro he
          rw [← H.n0] at he
          have := hfan.injN (j + 1) 0 hj1 (by omega) he
          omega
        have hT' : IsTri (f'.n1, f'.n2, f'.n3) new (N j) (N (j + 1)) := by
          rw [hft']; exact isTri_renT hT hnew1 hnew2
        rcases kn with ⟨a1, a2⟩ | ⟨a1, a2⟩
        · rw [a1, a2]; exact (oppositeNode_isTri hT').1
        · rw [a1, a2]; exact (oppositeNode_isTri hT').2
    rw [hopp] at hEq
    simp only [] at hEq
    rw [getEdge_eq] at hEq
    obtain ⟨ed, hed⟩ := hW2.idx.get (g := F (j + 1 + 1)) (k := Edge.keyOf old (N (j + 1)))
      ((Pj_at_old hfan hon _ _ hj1 (Nat.le_refl _) _).2 ((hfan.side hj1 _).2 (Or.inr rfl)))
    rw [hed] at hEq
    exact ⟨c2, _, _, hW2, by rw [hed]; exact hEq⟩

theorem walk2_total {fn : Fn R} {start : Edge} {old new k : Nat} {F N : Nat → Nat} {c0 : Cell R}
    (H : Walk2Hyp (slots c0) start old new k F N) (htwo : TwoFaced (slots c0) new k N) :
    ∀ (d j : Nat) (c : Cell R) (del cre : List Edge) (fuel : Nat), k - j = d → j < k → d ≤ fuel → WalkState old new F N (Q2 old new k F N (SideK (slots c0))) c0 c j →
      ∃ c' del' cre', WalkState old new F N (Q2 old new k F N (SideK (slots c0))) c0 c' k ∧
        replaceNode.loop fn start old new fuel c (EdgeSet.find? c.edges (Edge.keyOf old (N j))) (F j) del cre
          = .ok (c', del', cre') := by
  intro d
  induction d with
  | zero => intro j c del cre fuel hd hj; omega
  | succ d ih =>
    intro j c del cre fuel hd hj hfuel hW
    obtain ⟨fuel, rfl⟩ : ∃ f, fuel = f + 1 := ⟨fuel - 1, by omega⟩
    rcases walk2_fwd (fn := fn) (fuel := fuel) H htwo hW hj del cre with
      ⟨_, c2, d2, cr2, hW2, hEq⟩ | ⟨hj1, c2, d2, cr2, hW2, hEq⟩
    · exact ⟨c2, d2, cr2, hW2, hEq⟩
    · obtain ⟨c', d', cr', hW', hEq'⟩ := ih (j + 1) c2 d2 cr2 fuel (by omega) hj1 (by omega) hW2
      exact ⟨c', d', cr', hW', hEq.trans hEq'⟩

/-! ## 4. `replace_node` returns -/

theorem replaceNode_total1 {fn : Fn R} {c : Cell R} {start : Edge} {old new k : Nat} {F N : Nat → Nat}
    (hI : EdgeIdxComplete c) (hfan : FanF (slots c) old k F N) (hk : 0 < k)
    (hstart : start.f1 = some (F 0)) (hkey : Edge.keyOf start.n1 start.n2 = Edge.keyOf old (N 0))
    (hon : old ≠ new) (hfresh : FreshNode c new) : ∃ r, replaceNode fn c start old new = .ok r := by
  have hle := hfan.k_le
  have hlen : (slots c).length = c.faces.size := slotsA_length _
  obtain ⟨c', d', cr', _, hEq⟩ := walk1_total (fn := fn) (start := start) hfan hon hfresh k 0 c [] []
    (c.faces.size + 2) (by omega) hk (by omega) (WalkState.init old new F N _ hI)
  refine ⟨(deleteNode c' old, d', cr'), ?_⟩
  unfold replaceNode
  rw [hstart]
  simp only [bind, Except.bind, hkey]
  rw [hEq]
  rfl

theorem replaceNode_total2 {fn : Fn R} {c : Cell R} {start : Edge} {old new k : Nat} {F N : Nat → Nat}
    (hI : EdgeIdxComplete c) (H : Walk2Hyp (slots c) start old new k F N) (htwo : TwoFaced (slots c) new k N)
    (hkey : Edge.keyOf start.n1 start.n2 = Edge.keyOf old (N 0)) : ∃ r, replaceNode fn c start old new = .ok r := by
  have hle := H.fan.k_le
  have hk3 := H.k3
  have hlen : (slots c).length = c.faces.size := slotsA_length _
  obtain ⟨c', d', cr', _, hEq⟩ := walk2_total (fn := fn) H htwo k 0 c [] []
    (c.faces.size + 2) (by omega) (by omega) (by omega) (WalkState.init old new F N _ hI)
  refine ⟨(deleteNode c' old, d', cr'), ?_⟩
  unfold replaceNode
  rw [H.sf1]
  simp only [bind, Except.bind, hkey]
  rw [hEq]
  rfl

/-! ## 5. `delete_face` returns -/

/-- one edge of `delete_face` cannot fail when the face is registered on the edge or the edge has two faces -/
theorem delFaceEdge_fwd {P : Nat → Nat → Prop} {s : EdgeSet} {a b fid : Nat} (hI : IdxP P s)
    (h : P fid (Edge.keyOf a b) ∨ ∃ p q, p ≠ q ∧ P p (Edge.keyOf a b) ∧ P q (Edge.keyOf a b)) :
    ∃ s', delFaceEdge s a b fid = .ok s' := by
  obtain ⟨e, hf⟩ : ∃ e, EdgeSet.find? s (Edge.keyOf a b) = some e := by
    rcases h with h | ⟨p, _, _, hp, _⟩
    · exact hI.get h
    · exact hI.get hp
  obtain ⟨_, _, hw, hP⟩ := hI.of_find hf
  unfold delFaceEdge
  rw [hf]
  obtain ⟨n1, n2, f1, f2⟩ := e
  cases f1 with
  | none => exact absurd rfl hw.1
  | some g1 =>
    simp only
    by_cases h1 : g1 = fid
    · subst h1
      simp only [beq_self_eq_true, if_true]
      cases f2 with
      | none => exact ⟨_, by simp [Edge.isManifold]; rfl⟩
      | some g2 => exact ⟨_, by simp [Edge.isManifold, Edge.deleteFace]; rfl⟩
    · have hb : (g1 == fid) = false := by simp [h1]
      simp only [hb, Bool.false_eq_true, if_false]
      -- the second face exists
      have hf2 : ∃ g2, f2 = some g2 := by
        rcases h with h | ⟨p, q, hpq, hp, hq⟩
        · have := (hP fid).2 h
          rw [Edge.hasFace_iff] at this
          rcases this with hh | hh
          · exact absurd (Option.some.inj hh) h1
          · exact ⟨fid, hh⟩
        · have h1' := (hP p).2 hp
          have h2' := (hP q).2 hq
          rw [Edge.hasFace_iff] at h1' h2'
          cases f2 with
          | some g2 => exact ⟨g2, rfl⟩
          | none =>
            simp only [Option.some.injEq, reduceCtorEq, or_false] at h1' h2'
            exact absurd (h1'.symm.trans h2') hpq
      obtain ⟨g2, rfl⟩ := hf2
      simp only
      by_cases h2 : g2 = fid
      · subst h2
        exact ⟨_, by simp [Edge.isManifold, Edge.deleteFace, h1]; rfl⟩
      · have hb2 : (g2 == fid) = false := by simp [h2]
        exact ⟨_, by simp [hb2]; rfl⟩

/-- **`delete_face` returns** when, for every side key of the face, either two other faces are registered under it, or the
    face itself is and the key occurs only once among the three side keys (the second alternative always holds for a
    non-degenerate live face of a complete index; the first is needed for the two degenerate faces of a collapse) -/
theorem deleteFace_fwd {P : Nat → Nat → Prop} {c : Cell R} {fid : Nat} {f : Face R}
    (hfa : c.faces[fid]? = some f) (hI : IdxP P c.edges)
    (hC : ∀ k ∈ sideKeys (f.n1, f.n2, f.n3),
      (∃ p q, p ≠ q ∧ p ≠ fid ∧ q ≠ fid ∧ P p k ∧ P q k) ∨
        (P fid k ∧ (sideKeys (f.n1, f.n2, f.n3)).count k = 1)) :
    ∃ c', deleteFace c fid = .ok c' := by
  have hk1 := hC (Edge.keyOf f.n1 f.n2) (by simp [sideKeys])
  have hk2 := hC (Edge.keyOf f.n2 f.n3) (by simp [sideKeys])
  have hk3 := hC (Edge.keyOf f.n3 f.n1) (by simp [sideKeys])
  simp only [sideKeys, List.count_cons, List.count_nil, beq_iff_eq] at hk1 hk2 hk3
  -- first edge
  obtain ⟨s1, e1⟩ := delFaceEdge_fwd (a := f.n1) (b := f.n2) (fid := fid) hI (by
    rcases hk1 with ⟨p, q, hpq, _, _, hp, hq⟩ | ⟨hp, _⟩
    · exact Or.inr ⟨p, q, hpq, hp, hq⟩
    · exact Or.inl hp)
  have I1 := delFaceEdge_idx hI e1
  -- second edge
  obtain ⟨s2, e2⟩ := delFaceEdge_fwd (a := f.n2) (b := f.n3) (fid := fid) I1 (by
    rcases hk2 with ⟨p, q, hpq, hpf, hqf, hp, hq⟩ | ⟨hp, hc⟩
    · exact Or.inr ⟨p, q, hpq, ⟨hp, fun hh => hpf hh.1⟩, ⟨hq, fun hh => hqf hh.1⟩⟩
    · refine Or.inl ⟨hp, fun hh => ?_⟩
      rw [if_pos hh.2.symm] at hc
      simp only [if_true] at hc
      split_ifs at hc <;> omega)
  have I2 := delFaceEdge_idx I1 e2
  -- third edge
  obtain ⟨s3, e3⟩ := delFaceEdge_fwd (a := f.n3) (b := f.n1) (fid := fid) I2 (by
    rcases hk3 with ⟨p, q, hpq, hpf, hqf, hp, hq⟩ | ⟨hp, hc⟩
    · exact Or.inr ⟨p, q, hpq, ⟨⟨hp, fun hh => hpf hh.1⟩, fun hh => hpf hh.1⟩,
        ⟨⟨hq, fun hh => hqf hh.1⟩, fun hh => hqf hh.1⟩⟩
    · refine Or.inl ⟨⟨hp, fun hh => ?_⟩, fun hh => ?_⟩
      · rw [if_pos hh.2.symm] at hc
        simp only [if_true] at hc
        split_ifs at hc <;> omega
      · rw [if_pos hh.2.symm] at hc
        simp only [if_true] at hc
        split_ifs at hc <;> omega)
  cases hd : deleteFace c fid with
  | ok c' => exact ⟨c', rfl⟩
  | error x =>
    exfalso
    unfold deleteFace at hd
    rw [hfa] at hd
    simp only [bind, Except.bind, e1, e2, e3] at hd
    cases hd

/-- the sides of a face that has become degenerate in the second walk: `{new,new}` once, `{new,y}` twice -/
theorem degenerate_sides {t : Tri} {old new y : Nat} (hT : IsTri t old new y) :
    (∀ k ∈ sideKeys (renT old new t), k = Edge.keyOf new new ∨ k = Edge.keyOf new y) ∧
      (sideKeys (renT old new t)).count (Edge.keyOf new new) = 1 := by
  have h1 := hT.1
  have h2 := hT.2.1
  have h3 := hT.2.2.1
  have hk : Edge.keyOf new y ≠ Edge.keyOf new new := by
    intro he
    rcases Edge.keyOf_eq_iff.1 he with ⟨_, h⟩ | ⟨_, h⟩ <;> exact h3 h.symm
  have hk' : Edge.keyOf y new ≠ Edge.keyOf new new := by rw [Edge.keyOf_comm]; exact hk
  obtain ⟨p, q, s⟩ := t
  unfold renT rn sideKeys
  rcases hT.perm with ⟨e1, e2, e3⟩ | ⟨e1, e2, e3⟩ | ⟨e1, e2, e3⟩ | ⟨e1, e2, e3⟩ | ⟨e1, e2, e3⟩ | ⟨e1, e2, e3⟩ <;>
    simp [e1, e2, e3, h1, h2, h3, Ne.symm h1, Ne.symm h2, Ne.symm h3, hk, hk', Edge.keyOf_comm y new,
      List.count_cons]

/-- **`delete_face` on a non-degenerate live face of a complete index returns** -/
theorem deleteFace_defined {c : Cell R} {fid : Nat} {t : Tri} (hI : EdgeIdxComplete c)
    (ht : (slots c)[fid]? = some (some t)) (hn : t.1 ≠ t.2.1 ∧ t.2.1 ≠ t.2.2 ∧ t.2.2 ≠ t.1) :
    ∃ c', deleteFace c fid = .ok c' := by
  obtain ⟨f, hfa, _, hft⟩ := slot_some_iff.1 ht
  refine deleteFace_fwd hfa hI (fun k hk => Or.inr ⟨⟨t, ht, by rw [← hft]; exact hk⟩, ?_⟩)
  rw [hft]
  obtain ⟨p, q, s⟩ := t
  dsimp only at hn
  have a1 : Edge.keyOf p q ≠ Edge.keyOf q s := by
    intro he; rcases Edge.keyOf_eq_iff.1 he with ⟨h1, h2⟩ | ⟨h1, h2⟩ <;> omega
  have a2 : Edge.keyOf p q ≠ Edge.keyOf s p := by
    intro he; rcases Edge.keyOf_eq_iff.1 he with ⟨h1, h2⟩ | ⟨h1, h2⟩ <;> omega
  have a3 : Edge.keyOf q s ≠ Edge.keyOf s p := by
    intro he; rcases Edge.keyOf_eq_iff.1 he with ⟨h1, h2⟩ | ⟨h1, h2⟩ <;> omega
  rw [hft] at hk
  simp only [sideKeys, List.mem_cons, List.not_mem_nil, or_false] at hk
  rcases hk with rfl | rfl | rfl <;>
    simp [sideKeys, List.count_cons, a1, a2, a3, Ne.symm a1, Ne.symm a2, Ne.symm a3]

/-! ## 6. the two deletions at the end of a collapse return -/

section
variable {L1 : List (Option Tri)} {start : Edge} {old new k : Nat} {F N : Nat → Nat}

/-- under the loop key `{new,new}` the index lists the two doomed faces -/
theorem Walk2Hyp.loop_faces (H : Walk2Hyp L1 start old new k F N) {g : Nat} (hg : g = F 1 ∨ g = F k) :
    Pj old new N (SideK L1) (Q2 old new k F N (SideK L1)) k g (Edge.keyOf new new) := by
  have hk3 := H.k3
  refine ⟨fun m hm => ?_, Or.inl ⟨0, by omega, by rw [H.n0], ?_⟩⟩
  · have := H.fan.KK' H.hon (i := 0) (m := m) (by omega)
    rw [H.n0] at this; exact this
  · unfold Q2
    rw [if_pos rfl]
    rcases hg with rfl | rfl
    · exact Or.inr rfl
    · exact Or.inl H.fan.closeF.symm

/-- under the key of `{new, N m}`, `m = 1` or `m = k-1`, the index lists two faces, neither of them doomed -/
theorem Walk2Hyp.side_faces (H : Walk2Hyp L1 start old new k F N) (htwo : TwoFaced L1 new k N) {m : Nat}
    (hm : m < k) (hc : m = 1 ∨ m + 1 = k) :
    ∃ p q, p ≠ q ∧ (p ≠ F 1 ∧ p ≠ F k) ∧ (q ≠ F 1 ∧ q ≠ F k) ∧
      Pj old new N (SideK L1) (Q2 old new k F N (SideK L1)) k p (Edge.keyOf new (N m)) ∧
      Pj old new N (SideK L1) (Q2 old new k F N (SideK L1)) k q (Edge.keyOf new (N m)) := by
  have hk3 := H.k3
  obtain ⟨D, D', G, _, hD, hD', hG, hGD, hGD', _, hB, hDD⟩ := H.merge_data hm hc
  obtain ⟨p, q, hpq, hside⟩ := htwo m hm hc
  -- the other face on the edge
  obtain ⟨X, hXD, hX⟩ : ∃ X, X ≠ D ∧ SideK L1 X (Edge.keyOf new (N m)) := by
    rcases (hside D).1 hD with h | h
    · exact ⟨q, fun hh => hpq (h.symm ▸ hh.symm), (hside q).2 (Or.inr rfl)⟩
    · exact ⟨p, fun hh => hpq (hh.trans h), (hside p).2 (Or.inl rfl)⟩
  have hXD' : X ≠ D' := fun hh => hD' (hh ▸ hX)
  have hXG : X ≠ G := fun hh => hG (hh ▸ hX)
  have hm0 : m ≠ 0 := by omega
  have inP : ∀ g, (SideK L1 g (Edge.keyOf new (N m)) ∨ SideK L1 g (Edge.keyOf old (N m))) → g ≠ D → g ≠ D' →
      Pj old new N (SideK L1) (Q2 old new k F N (SideK L1)) k g (Edge.keyOf new (N m)) := by
    intro g hg h1 h2
    refine ⟨fun i _ => H.fan.KK' H.hon hm, Or.inl ⟨m, hm, rfl, ?_⟩⟩
    unfold Q2
    rw [if_neg hm0]
    exact ⟨hg, (hDD g).2 ⟨h1, h2⟩⟩
  exact ⟨X, G, hXG, (hDD X).2 ⟨hXD, hXD'⟩, (hDD G).2 ⟨hGD, hGD'⟩, inP X (Or.inl hX) hXD hXD',
    inP G (Or.inr ((hB G).2 (Or.inr rfl))) hGD hGD'⟩

end

/-- the two `delete_face` calls at the end of `merge_edge` return, in either order -/
theorem merge_deletes_defined {c2 : Cell R} {L1 : List (Option Tri)} {start : Edge} {old new k : Nat}
    {F N : Nat → Nat} (H2 : Walk2Hyp L1 start old new k F N) (htwo : TwoFaced L1 new k N)
    (S2 : slots c2 = L1.map (Option.map (renT old new)))
    (I2 : IdxP (Pj old new N (SideK L1) (Q2 old new k F N (SideK L1)) k) c2.edges)
    {x y : Nat} (hxy : (x = F k ∧ y = F 1) ∨ (x = F 1 ∧ y = F k)) :
    ∃ c3 c', deleteFace c2 x = .ok c3 ∧ deleteFace c3 y = .ok c' := by
  have hk3 := H2.k3
  have hk1 : F k ≠ F 1 := by
    intro he
    have := H2.fan.injF k 1 (by omega) (by omega) (by omega) (by omega) he
    omega
  -- the two doomed faces and their degenerate triangles
  obtain ⟨tk, htk, hTk⟩ := H2.fan.tri (k - 1) (by omega)
  have ekk : k - 1 + 1 = k := by omega
  rw [ekk, H2.fan.closeN, H2.n0] at hTk
  rw [ekk] at htk
  obtain ⟨t1, ht1, hT1⟩ := H2.fan.tri 0 (by omega)
  have ht1' : L1[F 1]? = some (some t1) := ht1
  rw [H2.n0] at hT1
  have sk2 : (slots c2)[F k]? = some (some (renT old new tk)) := by
    rw [S2, List.getElem?_map, htk]; rfl
  have s12 : (slots c2)[F 1]? = some (some (renT old new t1)) := by
    rw [S2, List.getElem?_map, ht1']; rfl
  have dk := degenerate_sides hTk.swap
  have d1 := degenerate_sides hT1
  -- the condition of `deleteFace_fwd` for a doomed face, for any relation that still contains what is needed
  have cond : ∀ (P : Nat → Nat → Prop) (fid m : Nat) (t : Tri), m < k → (m = 1 ∨ m + 1 = k) →
      (∀ g q, Pj old new N (SideK L1) (Q2 old new k F N (SideK L1)) k g q → g ≠ F 1 → g ≠ F k → P g q) →
      P fid (Edge.keyOf new new) → (fid = F 1 ∨ fid = F k) →
      (∀ q ∈ sideKeys t, q = Edge.keyOf new new ∨ q = Edge.keyOf new (N m)) →
      (sideKeys t).count (Edge.keyOf new new) = 1 →
      ∀ q ∈ sideKeys t, (∃ p q', p ≠ q' ∧ p ≠ fid ∧ q' ≠ fid ∧ P p q ∧ P q' q) ∨
        (P fid q ∧ (sideKeys t).count q = 1) := by
    intro P fid m t hm hc hP hloop hfid hs hcnt q hq
    rcases hs q hq with rfl | rfl
    · exact Or.inr ⟨hloop, hcnt⟩
    · obtain ⟨p, q', hpq, hp, hq', Pp, Pq⟩ := H2.side_faces htwo hm hc
      refine Or.inl ⟨p, q', hpq, ?_, ?_, hP _ _ Pp hp.1 hp.2, hP _ _ Pq hq'.1 hq'.2⟩
      · rcases hfid with rfl | rfl
        · exact hp.1
        · exact hp.2
      · rcases hfid with rfl | rfl
        · exact hq'.1
        · exact hq'.2
  rcases hxy with ⟨rfl, rfl⟩ | ⟨rfl, rfl⟩
  · -- first `F k`, then `F 1`
    obtain ⟨fK, hfK, _, htK⟩ := slot_some_iff.1 sk2
    obtain ⟨c3, h3⟩ := deleteFace_fwd hfK I2 (by
      rw [htK]
      exact cond _ (F k) (k - 1) _ (by omega) (Or.inr ekk) (fun g q h _ _ => h)
        (H2.loop_faces (Or.inr rfl)) (Or.inr rfl) dk.1 dk.2)
    have D3 := deleteFace_spec h3 sk2
    have P3 := deleteFace_idxP h3 hfK I2
    have s13 : (slots c3)[F 1]? = some (some (renT old new t1)) := by
      rw [D3.slots_eq, List.getElem?_set_ne hk1]; exact s12
    obtain ⟨f1, hf1, _, htf1⟩ := slot_some_iff.1 s13
    obtain ⟨c', h4⟩ := deleteFace_fwd hf1 P3 (by
      rw [htf1]
      refine cond _ (F 1) 1 _ (by omega) (Or.inl rfl) (fun g q h _ hgk => ⟨h, fun hh => hgk hh.1⟩)
        ⟨H2.loop_faces (Or.inl rfl), fun hh => hk1 hh.1.symm⟩ (Or.inl rfl) ?_ d1.2
      intro q hq
      exact d1.1 q hq)
    exact ⟨c3, c', h3, h4⟩
  · -- first `F 1`, then `F k`
    obtain ⟨f1, hf1, _, htf1⟩ := slot_some_iff.1 s12
    obtain ⟨c3, h3⟩ := deleteFace_fwd hf1 I2 (by
      rw [htf1]
      exact cond _ (F 1) 1 _ (by omega) (Or.inl rfl) (fun g q h _ _ => h)
        (H2.loop_faces (Or.inl rfl)) (Or.inl rfl) d1.1 d1.2)
    have D3 := deleteFace_spec h3 s12
    have P3 := deleteFace_idxP h3 hf1 I2
    have sk3 : (slots c3)[F k]? = some (some (renT old new tk)) := by
      rw [D3.slots_eq, List.getElem?_set_ne (Ne.symm hk1)]; exact sk2
    obtain ⟨fK, hfK, _, htK⟩ := slot_some_iff.1 sk3
    obtain ⟨c', h4⟩ := deleteFace_fwd hfK P3 (by
      rw [htK]
      exact cond _ (F k) (k - 1) _ (by omega) (Or.inr ekk) (fun g q h hg1 _ => ⟨h, fun hh => hg1 hh.1⟩)
        ⟨H2.loop_faces (Or.inr rfl), fun hh => hk1 hh.1⟩ (Or.inr rfl) dk.1 dk.2)
    exact ⟨c3, c', h3, h4⟩

theorem side_renT_of_old {old new z : Nat} {t : Tri} (hon : old ≠ new) (hzo : z ≠ old) (hzn : z ≠ new)
    (h : Edge.keyOf old z ∈ sideKeys t) : Edge.keyOf new z ∈ sideKeys (renT old new t) := by
  rw [mem_sideKeys] at h
  rw [sideKeys_renT]
  rcases h with h | h | h
  · exact Or.inl ((side_rn_new hon hzo hzn).2 (Or.inl h))
  · exact Or.inr (Or.inl ((side_rn_new hon hzo hzn).2 (Or.inl h)))
  · exact Or.inr (Or.inr ((side_rn_new hon hzo hzn).2 (Or.inl h)))

/-! ## 7. `merge_edge` is defined -/

/-- **total correctness of the collapse**: under the hypotheses `MergeHyp` of the refinement theorem, and if the two end
    nodes are slots of the node array, `merge_edge` RETURNS: the two `replace_node` walks never run out of fuel, never
    read a missing face id (`badopt`) and never dereference a missing edge or face (`ub`), and neither do the two
    `delete_face` calls. -/
theorem mergeEdge_defined {fn : Fn R} {k : SplitConsts R} {c : Cell R} {e : Edge} {chk : CheckSet}
    {kA kB : Nat} {FA NA FB NB : Nat → Nat} (H : MergeHyp c e kA kB FA NA FB NB)
    {na nb : Node R} (hna : c.nodes[e.n1]? = some na) (hnb : c.nodes[e.n2]? = some nb) :
    ∃ r, mergeEdge fn k c e chk = .ok r := by
  obtain ⟨hI, hffo, ⟨E, hE, hEf1, hord⟩, fanA, fanB, kA0, nA0, nB0, fA0, kB3, hlink, hfresh⟩ := H
  have hkB0 : 0 < kB := by omega
  -- basic facts
  obtain ⟨tA, htA, hTA⟩ := fanA.tri 0 kA0
  have hab : e.n1 ≠ e.n2 := by rw [← nA0]; exact hTA.1
  have hfa : hasNode tA (newSlot c) = false := hfresh _ _ htA
  have hai : e.n1 ≠ newSlot c := by
    intro he; rw [← he, hTA.2.2.2.1] at hfa; cases hfa
  have hbi : e.n2 ≠ newSlot c := by
    intro he; rw [← he, ← nA0, hTA.2.2.2.2.1] at hfa; cases hfa
  -- the entry of the edge
  have hentry' : EdgeSet.find? c.edges (Edge.keyOf e.n1 e.n2) = some E := hE
  obtain ⟨ek, ele, ewf, eP⟩ := hI.of_find hentry'
  have eF : ∀ g, E.hasFace g = true ↔ (g = FB 0 ∨ g = FB 1) := by
    intro g
    rw [eP g]
    have := fanB.side hkB0 g
    rw [nB0, Edge.keyOf_comm] at this
    exact this
  have ef2 : E.f2 = some (FB 1) := second_face ewf eF (fanB.F_succ_ne hkB0) hEf1
  have hk1 : FB kB ≠ FB 1 := by
    intro he
    have := fanB.injF kB 1 (by omega) (by omega) (by omega) (by omega) he
    omega
  -- the two face ids of the popped edge
  obtain ⟨f1id, f2id, e1, e2, hxy⟩ : ∃ f1id f2id, e.f1 = some f1id ∧ e.f2 = some f2id ∧
      ((f1id = FB kB ∧ f2id = FB 1) ∨ (f1id = FB 1 ∧ f2id = FB kB)) := by
    rcases hord with ⟨o1, o2⟩ | ⟨o1, o2⟩
    · exact ⟨FB kB, FB 1, by rw [← o1, hEf1, fanB.closeF], by rw [← o2, ef2], Or.inl ⟨rfl, rfl⟩⟩
    · exact ⟨FB 1, FB kB, by rw [← o2, ef2], by rw [← o1, hEf1, fanB.closeF], Or.inr ⟨rfl, rfl⟩⟩
  -- `add_node`
  obtain ⟨c0, hr⟩ : ∃ c0, addNode c ((nb.pos + na.pos) * k.mid) (na.mom + nb.mom) = (c0, newSlot c) := by
    refine ⟨(addNode c ((nb.pos + na.pos) * k.mid) (na.mom + nb.mom)).1, ?_⟩
    rw [← addNode_snd' c ((nb.pos + na.pos) * k.mid) (na.mom + nb.mom)]
  have hc0 : c0 = (addNode c ((nb.pos + na.pos) * k.mid) (na.mom + nb.mom)).1 := by rw [hr]
  have hS0 : slots c0 = slots c := by rw [hc0]; unfold slots; rw [(faces_addNode _ _ _).1]
  have hE0 : c0.edges = c.edges := by rw [hc0]; exact edges_addNode _ _ _
  have hF0 : c0.freeFaces = c.freeFaces := by rw [hc0]; exact (faces_addNode _ _ _).2
  have hI0' : EdgeIdxComplete c0 := edgeIdxComplete_congr hS0 hE0 hI
  have fanA0' : FanF (slots c0) e.n1 kA FA NA := by rw [hS0]; exact fanA
  have hfresh0' : FreshNode c0 (newSlot c) := by
    intro g t ht; rw [hS0] at ht; exact hfresh g t ht
  obtain ⟨⟨c1, delA, creA⟩, hA⟩ := replaceNode_total1 (fn := fn) hI0' fanA0' kA0 fA0 (by rw [nA0]) hai hfresh0'
  -- the first walk
  have hI0 : EdgeIdxComplete c0 := edgeIdxComplete_congr hS0 hE0 hI
  have fanA0 : FanF (slots c0) e.n1 kA FA NA := by rw [hS0]; exact fanA
  have hfresh0 : FreshNode c0 (newSlot c) := by
    intro g t ht; rw [hS0] at ht; exact hfresh g t ht
  obtain ⟨S1, I1, _, _, FF1, e0, ne, q1, q2, q3, q4⟩ :=
    replaceNode_abs hA hI0 fanA0 kA0 fA0 (by rw [nA0]) hai hfresh0
  rw [hS0] at S1
  rw [hE0, nA0, hentry'] at q1
  cases q1
  rw [nA0] at q2
  have hebi' : getEdge c1 e.n2 (newSlot c) = some ne := by
    rw [getEdge_eq, Edge.keyOf_comm]; exact q2
  -- the hypotheses of the second walk
  have fanB1 : FanF (slots c1) e.n2 kB FB (fun j => rn e.n1 (newSlot c) (NB j)) := by
    rw [S1]; exact fanB.rename (Ne.symm hab) hbi hfresh
  have hNB0 : rn e.n1 (newSlot c) (NB 0) = newSlot c := by rw [nB0]; unfold rn; simp
  have hNBnew : ∀ m, m < kB → NB m ≠ newSlot c := by
    intro m hm he
    obtain ⟨t, ht, hT⟩ := fanB.tri m hm
    have := hfresh _ _ ht
    rw [(hT.hasNode_iff' _).2 (Or.inr (Or.inl he.symm))] at this; cases this
  have H2 : Walk2Hyp (slots c1) ne e.n2 (newSlot c) kB FB (fun j => rn e.n1 (newSlot c) (NB j)) := by
    refine ⟨fanB1, kB3, hNB0, hbi, by rw [q3, hEf1], by rw [q4, ef2], ?_, ?_⟩
    · intro g hs
      rw [S1, sideK_map] at hs
      obtain ⟨t, ht, hq⟩ := hs
      rcases side_loop_of_renT hai hq with hh | hh | hh
      · have ha := (hasNode_of_sideKey hh).1
        obtain ⟨j, hj, rfl⟩ := fanA.all g t ht ha
        obtain ⟨t', ht', hT⟩ := fanA.tri j hj
        rw [ht] at ht'; cases ht'
        exact hT.no_loop_side hh
      · have := (hasNode_of_sideKey hh).2
        rw [hfresh g t ht] at this; cases this
      · have := (hasNode_of_sideKey hh).1
        rw [hfresh g t ht] at this; cases this
    · intro m h2 h3 g hs
      rw [S1, sideK_map] at hs
      obtain ⟨t, ht, hq⟩ := hs
      have hNm : NB m ≠ e.n1 := by
        intro he; rw [← nB0] at he
        have := fanB.injN m 0 (by omega) hkB0 he
        omega
      have hq' : Edge.keyOf (newSlot c) (NB m) ∈ sideKeys (renT e.n1 (newSlot c) t) := by
        have : rn e.n1 (newSlot c) (NB m) = NB m := rn_of_ne hNm
        rw [← this]; exact hq
      rcases side_new_of_renT hai hNm (hNBnew m (by omega)) hq' with hh | hh
      · exact hlink m h2 h3 g ⟨t, ht, hh⟩
      · have := (hasNode_of_sideKey hh).1
        rw [hfresh g t ht] at this; cases this
  have hkey2 : Edge.keyOf ne.n1 ne.n2 = Edge.keyOf e.n2 (rn e.n1 (newSlot c) (NB 0)) := by
    obtain ⟨bk, ble, _, _⟩ := I1.of_find q2
    rw [← Edge.key_eq_keyOf ble, bk, hNB0]
    exact Edge.keyOf_comm _ _
  -- the two edges onto which the second walk merges have two faces
  have htwo : TwoFaced (slots c1) (newSlot c) kB (fun j => rn e.n1 (newSlot c) (NB j)) := by
    intro j hj hc
    have hNj : NB j ≠ e.n1 := by
      intro he; rw [← nB0] at he
      have := fanB.injN j 0 hj hkB0 he
      omega
    have hNji := hNBnew j hj
    have hz : rn e.n1 (newSlot c) (NB j) = NB j := rn_of_ne hNj
    show ∃ p q, p ≠ q ∧ ∀ g, SideK (slots c1) g (Edge.keyOf (newSlot c) (rn e.n1 (newSlot c) (NB j))) ↔ (g = p ∨ g = q)
    rw [hz]
    -- `NB j` is a neighbour of `e.n1`
    have hadj : ∃ g0, SideK (slots c) g0 (Edge.keyOf e.n1 (NB j)) := by
      rcases hc with rfl | hc
      · obtain ⟨t, ht, hT⟩ := fanB.tri 0 hkB0
        rw [nB0] at hT
        exact ⟨_, t, ht, (hT.sideKeys_iff _).2 (Or.inr (Or.inr rfl))⟩
      · obtain ⟨t, ht, hT⟩ := fanB.tri j hj
        rw [hc, fanB.closeN, nB0] at hT
        exact ⟨_, t, ht, (hT.sideKeys_iff _).2 (Or.inr (Or.inr (Edge.keyOf_comm _ _)))⟩
    obtain ⟨g0, hg0⟩ := hadj
    obtain ⟨j', hj', hzj'⟩ := fanA.side_nbr hg0
    refine ⟨FA j', FA (j' + 1), fanA.F_succ_ne hj', fun g => ?_⟩
    rw [← fanA.side hj' g, ← hzj']
    constructor
    · intro hs
      rw [S1, sideK_map] at hs
      obtain ⟨t, ht, hq⟩ := hs
      rcases side_new_of_renT hai hNj hNji hq with hh | hh
      · exact ⟨t, ht, hh⟩
      · have := (hasNode_of_sideKey hh).1
        rw [hfresh g t ht] at this; cases this
    · rintro ⟨t, ht, hq⟩
      rw [S1, sideK_map]
      exact ⟨t, ht, side_renT_of_old hai hNj hNji hq⟩
  obtain ⟨⟨c2, delB, creB⟩, hB⟩ := replaceNode_total2 (fn := fn) I1 H2 htwo hkey2
  obtain ⟨S2, I2, _⟩ := replaceNode_abs2 hB I1 H2 hkey2
  obtain ⟨c3, c4, h3, h4⟩ := merge_deletes_defined H2 htwo S2 I2 hxy
  -- put the run together
  cases hm : mergeEdge fn k c e chk with
  | ok r => exact ⟨r, rfl⟩
  | error x =>
    exfalso
    unfold mergeEdge at hm
    simp only [e1, e2, hna, hnb, bind, Except.bind, hr, hA, hebi', hB, h3, h4, pure, Except.pure] at hm
    cases hm

end

end Simu.Remesh

#print axioms Simu.Remesh.mergeEdge_defined
#print axioms Simu.Remesh.deleteFace_defined
