import SimuVerif.Lemmas.C12_HalfEdge
/-
  C12 — face areas / normals, the area-weighted centroid, the bounding box and the covariance of
  the live nodes, as sums and under the motions of the property.
-/
set_option linter.unusedSectionVars false
namespace Simu.Geo
open Simu Simu.Gen.Geometry
variable {R : Type} [Field R] [LinearOrder R] [IsStrictOrderedRing R]

/-- what the theorems assume of `std::sqrt`: it is the non-negative root of non-negative numbers -/
structure SqrtSpec (fn : Fn R) : Prop where
  sq : ∀ x : R, 0 ≤ x → fn.sqrt x * fn.sqrt x = x
  nonneg : ∀ x : R, 0 ≤ x → 0 ≤ fn.sqrt x

theorem SqrtSpec.sqrt_mul_sq {fn : Fn R} (h : SqrtSpec fn) (k x : R) (hk : 0 ≤ k) (hx : 0 ≤ x) :
    fn.sqrt (k * k * x) = k * fn.sqrt x := by
  have hkx : 0 ≤ k * k * x := mul_nonneg (mul_nonneg hk hk) hx
  apply (mul_self_inj_of_nonneg (h.nonneg _ hkx) (mul_nonneg hk (h.nonneg _ hx))).mp
  rw [h.sq _ hkx]
  have := h.sq x hx
  calc k * k * x = k * k * (fn.sqrt x * fn.sqrt x) := by rw [this]
    _ = k * fn.sqrt x * (k * fn.sqrt x) := by ring

theorem SqrtSpec.sqrt_zero {fn : Fn R} (h : SqrtSpec fn) : fn.sqrt 0 = 0 := by
  have := h.sq 0 le_rfl
  exact mul_self_eq_zero.mp this

theorem SqrtSpec.sqrt_eq_zero {fn : Fn R} (h : SqrtSpec fn) (x : R) (hx : 0 ≤ x) (h0 : fn.sqrt x = 0) : x = 0 := by
  have := h.sq x hx; rw [h0] at this; simpa using this.symm

/-- the unnormalised face normal `(n2 − n1) × (n3 − n1)` -/
def rawNormal (pos : Nat → V3 R) (t : Tri) : V3 R := V3.cross (pos t.2.1 - pos t.1) (pos t.2.2 - pos t.1)

/-- the centroid of a triangle -/
def triCentroid (pos : Nat → V3 R) (t : Tri) : V3 R := (pos t.1 + pos t.2.1 + pos t.2.2) / (3 : R)

theorem faceArea_eq (fn : Fn R) (pos : Nat → V3 R) (t : Tri) :
    faceArea fn pos t = 1 / 2 * fn.sqrt (V3.normSq (rawNormal pos t)) := by
  simp only [faceArea, faceNormalArea, rawNormal, lit_one, lit_two]

theorem faceNormal_eq (fn : Fn R) (pos : Nat → V3 R) (t : Tri) :
    faceNormal fn pos t = if fn.sqrt (V3.normSq (rawNormal pos t)) = 0 then ⟨0, 0, 0⟩
      else rawNormal pos t / fn.sqrt (V3.normSq (rawNormal pos t)) := by
  simp only [faceNormal, faceNormalArea, rawNormal, lit_zero, seq, decide_eq_true_eq]
  split_ifs with h <;> simp [h]

theorem area_eq (fn : Fn R) (pos : Nat → V3 R) (T : List Tri) :
    area fn pos T = (T.map (faceArea fn pos)).sum := by
  unfold area
  have : (fun (s : R) t => areaStep s true (faceArea fn pos t)) = fun s t => s + faceArea fn pos t := by
    funext s t; simp [areaStep]
  rw [this, foldl_add_sum]; simp [areaInit]

theorem tdet_eq_dot_normal (pos : Nat → V3 R) (t : Tri) : tdet pos t = V3.dot (pos t.1) (rawNormal pos t) :=
  det3_eq_dot_normal _ _ _

/-! #### the raw normal under the motions -/

theorem rawNormal_translate (pos : Nat → V3 R) (d : V3 R) (t : Tri) :
    rawNormal (fun i => pos i + d) t = rawNormal pos t := by
  simp only [rawNormal, V3.add_sub_add_right']

theorem rawNormal_linIso {M : V3 R → V3 R} (h : LinIso M) (pos : Nat → V3 R) (t : Tri) :
    V3.normSq (rawNormal (fun i => M (pos i)) t) = V3.normSq (rawNormal pos t) := by
  simp only [rawNormal, h.map_sub, h.normSq_cross]

theorem rawNormal_rot {M : V3 R → V3 R} (h : Rot M) (pos : Nat → V3 R) (t : Tri) :
    rawNormal (fun i => M (pos i)) t = M (rawNormal pos t) := by
  simp only [rawNormal, h.map_sub, h.cross_map]

theorem rawNormal_scale (pos : Nat → V3 R) (s : R) (t : Tri) :
    rawNormal (fun i => pos i * s) t = rawNormal pos t * (s * s) := by
  simp only [rawNormal]; apply V3.ext' <;> simp [V3.cross_def] <;> ring

theorem normSq_smul (v : V3 R) (k : R) : V3.normSq (v * k) = k * k * V3.normSq v := by
  simp only [V3.normSq_def, V3.smul_x, V3.smul_y, V3.smul_z]; ring

theorem rawNormal_swap23 (pos : Nat → V3 R) (t : Tri) : rawNormal pos (swap23 t) = -(rawNormal pos t) := by
  simp only [rawNormal, swap23]; apply V3.ext' <;> simp [V3.cross_def] <;> ring
theorem rawNormal_swap13 (pos : Nat → V3 R) (t : Tri) : rawNormal pos (swap13 t) = -(rawNormal pos t) := by
  simp only [rawNormal, swap13]; apply V3.ext' <;> simp [V3.cross_def] <;> ring
theorem normSq_neg (v : V3 R) : V3.normSq (-v) = V3.normSq v := by
  simp only [V3.normSq_def, V3.neg_x, V3.neg_y, V3.neg_z]; ring

theorem rawNormal_rename (σ : Nat → Nat) (pos pos' : Nat → V3 R) (h : ∀ i, pos' (σ i) = pos i) (t : Tri) :
    rawNormal pos' (Tri.map σ t) = rawNormal pos t := by
  simp only [rawNormal, Tri.map, h]

/-! #### the centroid as a sum -/

theorem centroidStep_eq (pos : Nat → V3 R) (a : R) (c : V3 R) (t : Tri) :
    centroidStep pos a c t = c + triCentroid pos t * a := by
  obtain ⟨i, j, k⟩ := t
  simp only [centroidStep, triCentroid, lit_eq]
  norm_num

theorem centroidSum_eq (fn : Fn R) (pos : Nat → V3 R) (T : List Tri) :
    centroidSum fn pos T = vsum (T.map (fun t => triCentroid pos t * faceArea fn pos t)) := by
  unfold centroidSum
  have : (fun c t => centroidStep pos (faceArea fn pos t) c t)
      = fun (c : V3 R) t => c + triCentroid pos t * faceArea fn pos t := by
    funext c t; exact centroidStep_eq pos _ c t
  rw [this, foldl_add_vsum]
  simp only [centroidInit, lit_zero, V3.zero_add']

theorem triCentroid_translate (pos : Nat → V3 R) (d : V3 R) (t : Tri) :
    triCentroid (fun i => pos i + d) t = triCentroid pos t + d := by
  simp only [triCentroid]; apply V3.ext' <;> simp <;> ring

theorem triCentroid_linIso {M : V3 R → V3 R} (h : LinIso M) (pos : Nat → V3 R) (t : Tri) :
    triCentroid (fun i => M (pos i)) t = M (triCentroid pos t) := by
  simp only [triCentroid, h.map_add, h.map_sdiv]

theorem triCentroid_scale (pos : Nat → V3 R) (s : R) (t : Tri) :
    triCentroid (fun i => pos i * s) t = triCentroid pos t * s := by
  simp only [triCentroid]; apply V3.ext' <;> simp <;> ring

/-! #### min / max folds of the bounding box -/

def minFold (l : List R) (a : R) : R := l.foldl (fun m x => if x < m then x else m) a
def maxFold (l : List R) (a : R) : R := l.foldl (fun m x => if m < x then x else m) a

theorem minFold_le_init (l : List R) (a : R) : minFold l a ≤ a := by
  induction l generalizing a with
  | nil => exact le_rfl
  | cons x xs ih =>
    simp only [minFold, List.foldl_cons] at *
    split_ifs with h
    · exact (ih x).trans h.le
    · exact ih a

theorem minFold_le_mem (l : List R) (a : R) : ∀ x ∈ l, minFold l a ≤ x := by
  induction l generalizing a with
  | nil => intro x hx; cases hx
  | cons y ys ih =>
    intro x hx
    simp only [minFold, List.foldl_cons]
    rcases List.mem_cons.mp hx with rfl | hx
    · split_ifs with h
      · exact minFold_le_init ys x
      · exact (minFold_le_init ys a).trans (not_lt.mp h)
    · exact ih _ x hx

theorem minFold_mem_or_init (l : List R) (a : R) : minFold l a ∈ l ∨ minFold l a = a := by
  induction l generalizing a with
  | nil => right; rfl
  | cons y ys ih =>
    simp only [minFold, List.foldl_cons]
    split_ifs with h
    · rcases ih y with h1 | h1
      · left; exact List.mem_cons_of_mem _ h1
      · left; simp only [minFold] at h1; rw [h1]; exact List.mem_cons_self
    · rcases ih a with h1 | h1
      · left; exact List.mem_cons_of_mem _ h1
      · right; exact h1

theorem maxFold_ge_init (l : List R) (a : R) : a ≤ maxFold l a := by
  induction l generalizing a with
  | nil => exact le_rfl
  | cons x xs ih =>
    simp only [maxFold, List.foldl_cons] at *
    split_ifs with h
    · exact h.le.trans (ih x)
    · exact ih a

theorem maxFold_ge_mem (l : List R) (a : R) : ∀ x ∈ l, x ≤ maxFold l a := by
  induction l generalizing a with
  | nil => intro x hx; cases hx
  | cons y ys ih =>
    intro x hx
    simp only [maxFold, List.foldl_cons]
    rcases List.mem_cons.mp hx with rfl | hx
    · split_ifs with h
      · exact maxFold_ge_init ys x
      · exact (not_lt.mp h).trans (maxFold_ge_init ys a)
    · exact ih _ x hx

theorem maxFold_mem_or_init (l : List R) (a : R) : maxFold l a ∈ l ∨ maxFold l a = a := by
  induction l generalizing a with
  | nil => right; rfl
  | cons y ys ih =>
    simp only [maxFold, List.foldl_cons]
    split_ifs with h
    · rcases ih y with h1 | h1
      · left; exact List.mem_cons_of_mem _ h1
      · left; simp only [maxFold] at h1; rw [h1]; exact List.mem_cons_self
    · rcases ih a with h1 | h1
      · left; exact List.mem_cons_of_mem _ h1
      · right; exact h1

/-- the six accumulators of `get_aabb` are independent min / max folds of the coordinates -/
theorem aabb_fold (ps : List (V3 R)) (acc : R × R × R × R × R × R) :
    ps.foldl aabbStep acc =
      (minFold (ps.map (·.x)) acc.1, minFold (ps.map (·.y)) acc.2.1, minFold (ps.map (·.z)) acc.2.2.1,
       maxFold (ps.map (·.x)) acc.2.2.2.1, maxFold (ps.map (·.y)) acc.2.2.2.2.1,
       maxFold (ps.map (·.z)) acc.2.2.2.2.2) := by
  induction ps generalizing acc with
  | nil => rfl
  | cons p ps ih =>
    obtain ⟨a1, a2, a3, a4, a5, a6⟩ := acc
    simp only [List.foldl_cons, List.map_cons, minFold, maxFold] at *
    rw [ih]
    simp only [aabbStep]

theorem aabbOf_eq (inf : R) (ps : List (V3 R)) :
    aabbOf inf ps =
      (minFold (ps.map (·.x)) inf, minFold (ps.map (·.y)) inf, minFold (ps.map (·.z)) inf,
       maxFold (ps.map (·.x)) (-inf), maxFold (ps.map (·.y)) (-inf), maxFold (ps.map (·.z)) (-inf)) := by
  unfold aabbOf; rw [aabb_fold]; simp only [aabbInit]

end Simu.Geo
