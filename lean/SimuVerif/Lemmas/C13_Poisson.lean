import SimuVerif.Properties.C20
import SimuVerif.Model.Poisson
/-
  C13 — dart throwing (`poisson_sampling::poisson_disk_sampling`, model `Poisson.diskSampling`) keeps the accepted points
  pairwise at least `l_min` apart, provided the voxel size of the two grids is at least `l_min`: a candidate is compared
  with the content of the 27 voxels around its own voxel, and by C20's `neighbourhood_complete4_euclid` every accepted
  point closer than one voxel size is among them.
-/
set_option linter.unusedSectionVars false
set_option linter.unusedVariables false
set_option linter.unusedSimpArgs false
namespace Simu.C13
open Simu Simu.Grid Simu.Poisson Simu.C20 Simu.Gen.Gate

variable {R : Type} [Field R] [LinearOrder R] [IsStrictOrderedRing R] [FloorRing R]
variable {fn : Fn R} {δ v : R} {mn mx : V3 R}

theorem normSq_sub_comm (a b : V3 R) : V3.normSq (a - b) = V3.normSq (b - a) := by
  simp only [V3.normSq_def, V3.sub_x, V3.sub_y, V3.sub_z]; ring

/-- a candidate that survives the inner loop is at least `l_min` away from every point of the scanned list -/
theorem dartScan_true (lsq : R) (cand : V3 R) : ∀ (l : List (V3 R)) (n : Nat), dartScan lsq cand l n = true →
    ∀ q ∈ l, ¬ (V3.normSq (q - cand) < lsq) := by
  intro l
  induction l with
  | nil => intro n _ q hq; simp at hq
  | cons q0 rest ih =>
    intro n h q hq
    simp only [dartScan] at h
    split_ifs at h with hr
    have hr' : dartReject lsq (V3.normSq (q0 - cand)) n = false := by simpa using hr
    rcases List.mem_cons.mp hq with rfl | hq'
    · intro hlt
      unfold dartReject at hr'
      simp only [Bool.or_eq_false_iff, decide_eq_false_iff_not] at hr'
      exact hr'.1 hlt
    · exact ih (n + 1) h q hq'

theorem dartPick_some {lsq : R} {nbh content : List (V3 R)} {c : V3 R} (h : dartPick lsq nbh content = some c) :
    c ∈ content ∧ dartScan lsq c nbh 0 = true := by
  unfold dartPick at h
  exact ⟨List.mem_of_mem_take (List.mem_of_find?_eq_some h), by simpa using List.find?_some h⟩

/-- what sits in a voxel was placed there -/
theorem mem_vox_placeAll {α : Type} (g : G4 R α) (ops : List (α × V3 R)) {o : α} {id : Nat}
    (h : o ∈ (G4.placeAll fn g ops).vox.getD id []) :
    o ∈ g.vox.getD id [] ∨ ∃ p, (o, p) ∈ ops ∧ Gen.voxelId fn g.dims p.x p.y p.z = id := by
  induction ops generalizing g with
  | nil => left; exact h
  | cons op rest ih =>
    obtain ⟨o', p'⟩ := op
    simp only [G4.placeAll] at h
    rcases ih (g.place fn o' p') h with h1 | ⟨p, h1, h2⟩
    · simp only [G4.place, G4.placeAt, getD_modify_cons] at h1
      split_ifs at h1 with hc
      · rcases List.mem_cons.mp h1 with rfl | h3
        · right; exact ⟨p', by simp, hc.1⟩
        · left; exact h3
      · left; exact h1
    · right
      exact ⟨p, List.mem_cons_of_mem _ h1, by simpa [G4.place, G4.placeAt] using h2⟩

theorem placeAll_append {α : Type} (g : G4 R α) (a b : List (α × V3 R)) :
    G4.placeAll fn g (a ++ b) = G4.placeAll fn (G4.placeAll fn g a) b := by
  induction a generalizing g with
  | nil => rfl
  | cons op rest ih => obtain ⟨o, p⟩ := op; simp only [List.cons_append, G4.placeAll]; exact ih _

def tag (ps : List (V3 R)) : List (V3 R × V3 R) := ps.map (fun p => (p, p))

theorem mem_tag {ps : List (V3 R)} {o p : V3 R} : (o, p) ∈ tag ps ↔ o = p ∧ p ∈ ps := by
  unfold tag
  simp only [List.mem_map, Prod.mk.injEq]
  constructor
  · rintro ⟨a, ha, rfl, rfl⟩; exact ⟨rfl, ha⟩
  · rintro ⟨rfl, h⟩; exact ⟨o, h, rfl, rfl⟩

/-- the second grid after any number of voxels: the placement history of points of the box, pairwise far apart, all taken
    from the uniform cloud -/
def Good (fn : Fn R) (δ v lsq : R) (mn mx : V3 R) (cloud : List (V3 R)) (g2 : G4 R (V3 R)) : Prop :=
  ∃ ops : List (V3 R), g2 = grid4 fn δ v mn mx (tag ops) ∧ (∀ p ∈ ops, p ∈ cloud) ∧
    ops.Pairwise (fun a b => lsq ≤ V3.normSq (a - b))

theorem dartVoxel_good (S : Setup fn δ v mn mx) {l : R} (hl : 0 ≤ l) (hlv : l ≤ v) (cloud : List (V3 R))
    (hin : ∀ p ∈ cloud, InBox mn mx p) (g2 : G4 R (V3 R)) (hg : Good fn δ v (l * l) mn mx cloud g2)
    (ijk : Nat × Nat × Nat) (hi : ijk.1 < (dims fn δ v mn mx).nx) (hj : ijk.2.1 < (dims fn δ v mn mx).ny)
    (hk : ijk.2.2 < (dims fn δ v mn mx).nz) :
    Good fn δ v (l * l) mn mx cloud (dartVoxel fn (l * l) (cloudGrid fn δ v mn mx cloud) g2 ijk) := by
  obtain ⟨ops, rfl, hops, hpw⟩ := hg
  unfold dartVoxel
  cases hp : dartPick (l * l) ((grid4 fn δ v mn mx (tag ops)).nbhAt ijk.1 ijk.2.1 ijk.2.2)
      ((cloudGrid fn δ v mn mx cloud).content ijk.1 ijk.2.1 ijk.2.2) with
  | none => exact ⟨ops, rfl, hops, hpw⟩
  | some c =>
    obtain ⟨hc, hscan⟩ := dartPick_some hp
    -- the candidate comes from the cloud and its voxel is (i, j, k)
    have hcg : (cloudGrid fn δ v mn mx cloud) = grid4 fn δ v mn mx (tag cloud) := rfl
    have hcm : c ∈ cloud ∧ ix fn (dims fn δ v mn mx) c = ijk := by
      unfold G4.content at hc
      rw [hcg, grid4_dims] at hc
      rcases mem_vox_placeAll _ _ hc with h1 | ⟨p, h1, h2⟩
      · exfalso
        have : (G4.create fn δ v mn.x mn.y mn.z mx.x mx.y mx.z : G4 R (V3 R)).vox.getD
            (Gen.flatten (dims fn δ v mn mx) ijk.1 ijk.2.1 ijk.2.2) [] = [] := by
          simp only [G4.create, List.getD_eq_getElem?_getD, List.getElem?_replicate]
          split_ifs <;> rfl
        rw [this] at h1; simp at h1
      · obtain ⟨rfl, hpc⟩ := mem_tag.mp h1
        refine ⟨hpc, ?_⟩
        have hr := index_in_range S (hin c hpc)
        rw [show (G4.create fn δ v mn.x mn.y mn.z mx.x mx.y mx.z : G4 R (V3 R)).dims = dims fn δ v mn mx from rfl,
          voxelId_eq_flatten] at h2
        obtain ⟨e1, e2, e3⟩ := flatten_injective (dims fn δ v mn mx) hr.1 hr.2.1 hi hj h2
        exact Prod.ext e1 (Prod.ext e2 e3)
    obtain ⟨hcc, hix⟩ := hcm
    refine ⟨ops ++ [c], ?_, ?_, ?_⟩
    · show G4.place fn (grid4 fn δ v mn mx (tag ops)) c c = grid4 fn δ v mn mx (tag (ops ++ [c]))
      unfold grid4 tag
      rw [List.map_append, placeAll_append]; rfl
    · intro p hp'
      rcases List.mem_append.mp hp' with h | h
      · exact hops p h
      · simp only [List.mem_singleton] at h; subst h; exact hcc
    · rw [List.pairwise_append]
      refine ⟨hpw, List.pairwise_singleton _ _, ?_⟩
      intro s hs b hb
      simp only [List.mem_singleton] at hb; subst hb
      by_contra hlt
      push Not at hlt
      -- s is closer than l ≤ v to the candidate: it is in the neighbourhood that was scanned
      have hd : V3.normSq (b - s) ≤ v * v := by
        rw [normSq_sub_comm]
        have : l * l ≤ v * v := mul_le_mul hlv hlv hl (le_trans hl hlv)
        linarith
      have hmem : s ∈ (grid4 fn δ v mn mx (tag ops)).nbh fn b :=
        neighbourhood_complete4_euclid S (tag ops)
          (fun op hop => by
            obtain ⟨o, p⟩ := op
            obtain ⟨rfl, hp2⟩ := mem_tag.mp hop
            exact hin _ (hops _ hp2))
          (mem_tag.mpr ⟨rfl, hs⟩) (hin b hcc) hd
      have hnb : (grid4 fn δ v mn mx (tag ops)).nbh fn b = (grid4 fn δ v mn mx (tag ops)).nbhAt ijk.1 ijk.2.1 ijk.2.2 := by
        unfold G4.nbh
        rw [nbhIndex4_eq, grid4_dims]
        have : Gen.voxelIndex fn (dims fn δ v mn mx) b.x b.y b.z = ijk := hix
        rw [this]
      rw [hnb] at hmem
      exact dartScan_true _ _ _ _ hscan s hmem hlt

theorem mem_voxelOrder {nx ny nz : Nat} {ijk : Nat × Nat × Nat} (h : ijk ∈ voxelOrder nx ny nz) :
    ijk.1 < nx ∧ ijk.2.1 < ny ∧ ijk.2.2 < nz := by
  unfold voxelOrder at h
  simp only [List.mem_flatMap, List.mem_range, List.mem_map] at h
  obtain ⟨x, hx, y, hy, z, hz, rfl⟩ := h
  exact ⟨hx, hy, hz⟩

theorem foldl_good (S : Setup fn δ v mn mx) {l : R} (hl : 0 ≤ l) (hlv : l ≤ v) (cloud : List (V3 R))
    (hin : ∀ p ∈ cloud, InBox mn mx p) : ∀ (vs : List (Nat × Nat × Nat)) (g2 : G4 R (V3 R)),
    (∀ ijk ∈ vs, ijk.1 < (dims fn δ v mn mx).nx ∧ ijk.2.1 < (dims fn δ v mn mx).ny ∧ ijk.2.2 < (dims fn δ v mn mx).nz) →
    Good fn δ v (l * l) mn mx cloud g2 →
    Good fn δ v (l * l) mn mx cloud (vs.foldl (dartVoxel fn (l * l) (cloudGrid fn δ v mn mx cloud)) g2) := by
  intro vs
  induction vs with
  | nil => intro g2 _ hg; exact hg
  | cons a rest ih =>
    intro g2 hv hg
    simp only [List.foldl_cons]
    apply ih
    · intro ijk h; exact hv ijk (List.mem_cons_of_mem _ h)
    · obtain ⟨h1, h2, h3⟩ := hv a (by simp)
      exact dartVoxel_good S hl hlv cloud hin g2 hg a h1 h2 h3

/-- the Poisson cloud of the model: pairwise at least `l` apart, and made of points of the uniform cloud -/
theorem poissonCloud_far (S : Setup fn δ v mn mx) {l : R} (hl : 0 ≤ l) (hlv : l ≤ v) (cloud : List (V3 R))
    (hin : ∀ p ∈ cloud, InBox mn mx p) :
    (poissonCloud fn δ v l mn mx cloud).Pairwise (fun a b => l * l ≤ V3.normSq (a - b)) ∧
    ∀ p ∈ poissonCloud fn δ v l mn mx cloud, p ∈ cloud := by
  unfold poissonCloud diskSampling
  have hd : (cloudGrid fn δ v mn mx cloud).dims = dims fn δ v mn mx := by
    show (grid4 fn δ v mn mx (tag cloud)).dims = _
    exact grid4_dims _
  rw [hd]
  have hg0 : Good fn δ v (l * l) mn mx cloud (G4.create fn δ v mn.x mn.y mn.z mx.x mx.y mx.z) :=
    ⟨[], rfl, by simp, List.Pairwise.nil⟩
  have hlsq : lMinSquared l = l * l := rfl
  rw [hlsq]
  obtain ⟨ops, hops, hc, hpw⟩ := foldl_good S hl hlv cloud hin _ _ (fun ijk h => mem_voxelOrder h) hg0
  rw [hops]
  have hperm := content_exactly_once4 S (tag ops) (fun op hop => by
    obtain ⟨o, p⟩ := op
    obtain ⟨rfl, hp2⟩ := mem_tag.mp hop
    exact hin _ (hc _ hp2))
  have hfst : (tag ops).map Prod.fst = ops := by
    unfold tag; rw [List.map_map]; simp [Function.comp_def]
  rw [hfst] at hperm
  constructor
  · refine (List.Perm.pairwise_iff ?_ hperm).mpr hpw
    intro a b h; rw [normSq_sub_comm]; exact h
  · intro p hp; exact hc p (hperm.mem_iff.mp hp)

end Simu.C13
