import SimuVerif.Lemmas.Schedule
import SimuVerif.Lemmas.Field
import Mathlib.Algebra.Order.Floor.Ring
import Mathlib.Algebra.Order.Floor.Semiring
import Mathlib.Algebra.Order.Field.Basic
import Mathlib.Tactic.Positivity
import Mathlib.Tactic.FieldSimp
/-
  C19 — the schedule in EXACT arithmetic: the time is a scalar of an ordered field with floor (ℚ, ℝ …),
  `fn.floor` is the floor.  Then `t_k = k·dt`, the loop runs `⌈T/dt⌉` iterations (fewer when the population
  dies out), and — this is where `dt ≤ S` enters — the file number grows by at most one per iteration, so
  that the file written in iteration `k` carries the number `⌊k·dt/S⌋ + 1` of its sampling slot.
-/
set_option linter.unusedSectionVars false
set_option linter.unusedVariables false
namespace Simu.Schedule
open Simu

variable {R : Type} [Field R] [LinearOrder R] [IsStrictOrderedRing R] [FloorRing R]

theorem timeAt_eq (P : Params R) (k : Nat) : timeAt P k = (k : R) * P.dt := by
  induction k with
  | zero => simp [timeAt, Gen.initTime]
  | succ k ih => simp only [timeAt, Gen.advance, ih]; push_cast; ring

theorem continueRun_iff (t T : R) (n : Nat) : Gen.continueRun t T n = true ↔ t < T ∧ 0 < n := by
  simp [Gen.continueRun]

/-- sampling slot of the start of iteration `k` -/
def slot (P : Params R) (k : Nat) : Int := ⌊(k : R) * P.dt / P.S⌋ + 1

/-- iteration `k` writes a file: it is the first one, or its time lies in another slot than the previous one -/
def newSlot (P : Params R) (k : Nat) : Bool := decide (k = 0 ∨ slot P k ≠ slot P (k - 1))

theorem slot_zero (P : Params R) : slot P 0 = 1 := by simp [slot]

theorem slot_mono (P : Params R) (hdt : 0 < P.dt) (hS : 0 < P.S) (k : Nat) : slot P k ≤ slot P (k + 1) := by
  unfold slot
  have : (k : R) * P.dt / P.S ≤ ((k + 1 : Nat) : R) * P.dt / P.S := by
    apply div_le_div_of_nonneg_right _ hS.le
    push_cast; nlinarith
  have := Int.floor_le_floor this
  omega

/-- `dt ≤ S`: the slot number grows by at most one per iteration -/
theorem slot_step (P : Params R) (hdt : 0 < P.dt) (hS : P.dt ≤ P.S) (k : Nat) : slot P (k + 1) ≤ slot P k + 1 := by
  unfold slot
  have hS0 : 0 < P.S := lt_of_lt_of_le hdt hS
  have h1 : P.dt / P.S ≤ 1 := (div_le_one hS0).mpr hS
  have : ((k + 1 : Nat) : R) * P.dt / P.S ≤ (k : R) * P.dt / P.S + 1 := by
    have : ((k + 1 : Nat) : R) * P.dt / P.S = (k : R) * P.dt / P.S + P.dt / P.S := by push_cast; ring
    rw [this]; linarith
  have := Int.floor_le_floor this
  rw [Int.floor_add_one] at this
  omega

section exact
variable (fn : Fn R) (hfl : ∀ x : R, fn.floor x = ⌊x⌋) (P : Params R) (hist : Nat → Event)
include hfl

theorem fileNumber_eq (k : Nat) : Gen.fileNumber fn ((k : R) * P.dt) P.S = slot P k := by
  simp [Gen.fileNumber, slot, hfl]

/-- the files written so far and `file_number_`, in exact arithmetic with `dt ≤ S` -/
structure Slots (init : List Nat) (s : St R) : Prop where
  fileNo : s.fileNo = if s.iter = 0 then 0 else slot P (s.iter - 1)
  files : s.files = ((List.range s.iter).filter (newSlot P)).map
    (fun k => ({ iter := k, number := slot P k, cells := aliveAt init hist k } : FileRec))

theorem slots_init (init : List Nat) : Slots P hist init (St.init init : St R) := by
  constructor <;> simp [St.init, Gen.initIteration, Gen.initFileNumber]

theorem slots_iteration (hdt : 0 < P.dt) (hS : P.dt ≤ P.S) (init : List Nat) (s : St R)
    (ht : Traj P hist init s) (h : Slots P hist init s) : Slots P hist init (iteration fn P (hist s.iter) s) := by
  obtain ⟨hno, hfiles⟩ := h
  have htime : s.time = (s.iter : R) * P.dt := by rw [ht.time, timeAt_eq]
  have hnew : Gen.fileNumber fn s.time P.S = slot P s.iter := by rw [htime]; exact fileNumber_eq fn hfl P _
  obtain ⟨h1, h2⟩ := saveMesh_spec fn P s
  rw [hnew] at h1 h2
  have hS0 : 0 < P.S := lt_of_lt_of_le hdt hS
  constructor
  · rw [iteration_fileNo, iteration_iter, h1, hno]
    simp only [Nat.add_sub_cancel, Nat.succ_ne_zero, if_false]
    by_cases h0 : s.iter = 0
    · simp only [h0, if_true]; rw [slot_zero]; simp
    · simp only [h0, if_false]
      obtain ⟨j, hj⟩ := Nat.exists_eq_succ_of_ne_zero h0
      rw [hj]; simp only [Nat.succ_eq_add_one, Nat.add_sub_cancel]
      exact max_eq_right (slot_mono P hdt hS0 j)
  · rw [iteration_files, iteration_iter, h2, hfiles, List.range_succ, List.filter_append, List.map_append, ht.cells]
    congr 1
    by_cases h0 : s.iter = 0
    · have : newSlot P 0 = true := by simp [newSlot]
      simp [h0, hno, slot_zero, this]
    · obtain ⟨j, hj⟩ := Nat.exists_eq_succ_of_ne_zero h0
      have hno' : s.fileNo = slot P j := by rw [hno, hj]; simp
      have hm := slot_mono P hdt hS0 j
      have hs := slot_step P hdt hS j
      by_cases hc : slot P (j + 1) = slot P j
      · have : newSlot P (j + 1) = false := by simp [newSlot, hc]
        simp [hj, hno', hc, this]
      · have : newSlot P (j + 1) = true := by simp [newSlot, hc]
        have hd : (slot P (j + 1) - slot P j).toNat = 1 := by omega
        have he : slot P j + 1 = slot P (j + 1) := by omega
        simp [hj, hno', this, hd, he]

theorem slots_loop (hdt : 0 < P.dt) (hS : P.dt ≤ P.S) (init : List Nat) (fuel : Nat) :
    Slots P hist init (loop fn P hist fuel (St.init init : St R)) := by
  have := loop_inv fn P hist (Inv := fun s => Traj P hist init s ∧ Slots P hist init s)
    (fun s h hc => ⟨traj_iteration fn P hist init s h.1 hc, slots_iteration fn hfl P hist hdt hS init s h.1 h.2⟩)
    fuel _ ⟨traj_init P hist init, slots_init fn hfl P hist init⟩
  exact this.2

/-- with at least `⌈T/dt⌉` units of fuel the model loop ends by its own condition -/
theorem loop_finished (hdt : 0 < P.dt) (init : List Nat) (fuel : Nat) (hfuel : ⌈P.T / P.dt⌉₊ ≤ fuel) :
    finished P (loop fn P hist fuel (St.init init : St R)) = true := by
  rcases loop_fuel fn P hist fuel (St.init init : St R) with h | h
  · exact h
  · have hi : (St.init init : St R).iter = 0 := rfl
    rw [hi, Nat.zero_add] at h
    have ht := (traj_loop fn P hist init fuel).time
    rw [timeAt_eq, h] at ht
    have h1 : P.T / P.dt ≤ (fuel : R) := le_trans (Nat.le_ceil _) (by exact_mod_cast hfuel)
    have h2 : P.T ≤ (fuel : R) * P.dt := (div_le_iff₀ hdt).mp h1
    simp only [finished, Bool.not_eq_true']
    rw [← Bool.not_eq_true, continueRun_iff, ht]
    intro hc; linarith [hc.1]
end exact

/-- the number of iterations: characterisation of `N` by the loop condition along the history -/
theorem ceil_unique (T dt : R) (hdt : 0 < dt) (hT : 0 < T) (N : Nat)
    (hlast : ∀ j < N, (j : R) * dt < T) (hend : T ≤ (N : R) * dt) : N = ⌈T / dt⌉₊ := by
  have hN : N ≠ 0 := by
    rintro rfl; simp at hend; linarith
  symm
  rw [Nat.ceil_eq_iff hN]
  constructor
  · have := hlast (N - 1) (by omega)
    rwa [lt_div_iff₀ hdt]
  · rwa [div_le_iff₀ hdt]

end Simu.Schedule
