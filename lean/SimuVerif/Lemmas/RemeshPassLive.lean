import SimuVerif.Lemmas.RemeshPass
/-
  **`refineLive_of_invariants`**: for a cell that satisfies the invariants `CellOk`, the pass `refine_mesh` never reads a
  released node slot — the decidable trace predicate `refineLive` of `Model/RemeshLive.lean` is `true` for every parameter
  set, fuel and swap flag.  So the run-time hypothesis of `refineMesh_translate` (C14) holds for every valid cell.
  Also `liveCell` and `edgesOk` (two of the four conjuncts of `PipelineR.meshOk`).
-/
set_option linter.unusedSectionVars false
set_option linter.unusedVariables false
set_option linter.unusedSimpArgs false
namespace Simu.Remesh
open Simu Simu.Surface
open Simu.C11 (bind_ok newSlot)

section
variable {R : Type} [Add R] [Sub R] [Mul R] [Div R] [Neg R] [Lit R] [LT R] [LE R] [DecidableLT R]
  [DecidableLE R] [DecidableEq R]

/-! ## 1. live slots -/

theorem fUsed_of_slot {c : Cell R} (hN : NodesOk c) {g : Nat} {f : Face R} (hf : c.faces[g]? = some f)
    (hu : f.used = true) : fUsed c f = true := by
  have hs : (slots c)[g]? = some (some (f.n1, f.n2, f.n3)) := slot_some_iff.2 ⟨f, hf, hu, rfl⟩
  unfold fUsed
  rw [hN.live g _ f.n1 hs (by simp [hasNode_iff]), hN.live g _ f.n2 hs (by simp [hasNode_iff]),
    hN.live g _ f.n3 hs (by simp [hasNode_iff])]
  rfl

theorem faceLive_of_slot {c : Cell R} (hN : NodesOk c) {g : Nat} {t : Tri} (hs : (slots c)[g]? = some (some t)) :
    faceLive c g = true := by
  obtain ⟨f, hf, hu, _⟩ := slot_some_iff.1 hs
  unfold faceLive
  rw [hf]
  exact fUsed_of_slot hN hf hu

theorem edgeFacesLive_of_copy {c : Cell R} (hN : NodesOk c) {x : Edge} (hx : CopyOk c x) : edgeFacesLive c x = true := by
  have one : ∀ o : Option Nat, (∀ g, o = some g → x.hasFace g = true) → optFaceLive c o = true := by
    intro o ho
    cases o with
    | none => rfl
    | some g =>
      obtain ⟨t, ht, _⟩ := (hx.2.2 g).1 (ho g rfl)
      exact faceLive_of_slot hN ht
  unfold edgeFacesLive
  rw [one x.f1 (fun g hg => (Edge.hasFace_iff _ _).2 (Or.inl hg)),
    one x.f2 (fun g hg => (Edge.hasFace_iff _ _).2 (Or.inr hg))]
  rfl

theorem edgeLive_of_copy {c : Cell R} (hN : NodesOk c) {x : Edge} (hx : CopyOk c x) : edgeLive c x = true := by
  obtain ⟨a, b⟩ := hx.nodes_used hN
  unfold edgeLive
  rw [a, b, edgeFacesLive_of_copy hN hx]; rfl

theorem idxFacesLive_of {c : Cell R} (hI : EdgeIdxComplete c) (hN : NodesOk c) : idxFacesLive c = true := by
  unfold idxFacesLive
  rw [List.all_eq_true]
  intro x hx
  exact edgeFacesLive_of_copy hN (copyOk_of_find hI (EdgeSet.find?_of_mem hI.sorted hx))

/-- every used face has used corners, every edge of the index joins used nodes and names faces with used corners -/
theorem liveCell_of {c : Cell R} (hc : CellOk c) : liveCell c = true := by
  unfold liveCell
  rw [Bool.and_eq_true, List.all_eq_true, List.all_eq_true]
  constructor
  · intro f hf
    obtain ⟨g, hg⟩ := List.mem_iff_getElem?.1 hf
    rw [Array.getElem?_toList] at hg
    cases hu : f.used with
    | false => rfl
    | true => simp only [Bool.not_true, Bool.false_or]; exact fUsed_of_slot hc.nodes hg hu
  · intro x hx
    exact edgeLive_of_copy hc.nodes (copyOk_of_find hc.idx (EdgeSet.find?_of_mem hc.idx.sorted hx))

/-! ## 2. the loops -/

theorem mergeMidLive_of {fn : Fn R} {k : SplitConsts R} {c : Cell R} {e : Edge}
    (hg : canBeMerged c e = .ok true) (hc : CellOk c) (hx : CopyOk c e) : mergeMidLive fn k c e = true := by
  obtain ⟨kA, kB, FA, NA, FB, NB, t1, t2, H, _⟩ := mergeHyp_of_guard hg hc hx
  unfold mergeMidLive
  split
  · rfl
  split
  · rfl
  rename_i na _ nb _
  split
  · rfl
  rename_i r hr
  rw [addNode_snd'] at hr ⊢
  obtain ⟨hN1, hu1, hI1⟩ := merge_first_walk (c1 := r.1) (delA := r.2.1) (creA := r.2.2) H hc.nodes hr
  rw [hu1, idxFacesLive_of hI1 hN1]; rfl

theorem liveLoop_of_invariants {fn : Fn R} {k : RefineConsts R} {lminSq lmaxSq : R} :
    ∀ (fuel : Nat) (c : Cell R) (chk : CheckSet) (iter : Nat), CellOk c → ChkOk c chk →
      liveLoop fn k lminSq lmaxSq fuel c chk iter = true := by
  intro fuel
  induction fuel with
  | zero => intro c chk iter _ _; unfold liveLoop; rfl
  | succ fuel ih =>
    intro c chk iter hc hchk
    cases chk with
    | nil => unfold liveLoop; rfl
    | cons e rest =>
      obtain ⟨hrest, hx, hne⟩ := hchk.tail
      unfold liveLoop
      split
      · rw [edgeLive_of_copy hc.nodes hx, hc.nodes.headOk]
        simp only [Bool.and_self, Bool.true_and]
        split
        · split
          · rfl
          · rename_i r hsp
            obtain ⟨hc1, hchk1, _⟩ := splitEdge_pass (c' := r.1) (chk' := r.2) hsp hc hx hrest hne
            exact ih _ _ _ hc1 hchk1
        · split
          · split
            · rfl
            · exact ih _ _ _ hc hrest
            · rename_i hcm
              rw [idxFacesLive_of hc.idx hc.nodes, mergeMidLive_of hcm hc hx]
              simp only [Bool.and_self, Bool.true_and]
              split
              · rfl
              · rename_i r hme
                obtain ⟨hc1, hchk1, _⟩ := mergeEdge_pass (c' := r.1) (chk' := r.2) hcm hme hc hx hrest
                exact ih _ _ _ hc1 hchk1
          · exact ih _ _ _ hc hrest
      · rfl

theorem liveSwapLoop_of_invariants {fn : Fn R} {k : RefineConsts R} :
    ∀ (fuel i : Nat) (c : Cell R), CellOk c → liveSwapLoop fn k fuel i c = true := by
  intro fuel
  induction fuel with
  | zero => intro i c _; unfold liveSwapLoop; rfl
  | succ fuel ih =>
    intro i c hc
    unfold liveSwapLoop
    split
    · rfl
    split
    · rfl
    rename_i f hf
    split
    · exact ih _ _ hc
    rename_i hu
    have hu' : f.used = true := by simpa using hu
    rw [fUsed_of_slot hc.nodes hf hu']
    simp only [Bool.true_and]
    split
    · rfl
    rename_i r hts
    split
    · obtain ⟨x, y, hg⟩ := triangleScore_edge (s := r.1) (le := r.2) hts
      rw [getEdge_eq] at hg
      have hx := copyOk_of_find hc.idx hg
      rw [edgeLive_of_copy hc.nodes hx]
      simp only [Bool.true_and]
      split
      · rfl
      · rename_i c2 hsw
        exact ih _ _ (swapEdge_pass hsw hc hx).1
    · exact ih _ _ hc

/-- **no released node slot is ever read by a pass on a valid cell** -/
theorem refineLive_of_invariants (fn : Fn R) (k : RefineConsts R) (lminSq lmaxSq : R) (swapOn : Bool) (c : Cell R)
    (maxIter : Nat) (hc : CellOk c) : refineLive fn k lminSq lmaxSq swapOn c maxIter = true := by
  unfold refineLive
  cases swapOn with
  | false =>
    simp only [Bool.false_eq_true, if_false]
    exact liveLoop_of_invariants _ _ _ _ hc (chkOk_init hc.idx)
  | true =>
    simp only [if_true]
    rw [liveSwapLoop_of_invariants _ _ _ hc]
    simp only [Bool.true_and]
    unfold removeElongated
    split
    · rfl
    · rename_i c1 hrem
      obtain ⟨hc1, _⟩ := removeLoop_pass _ _ _ _ hrem hc
      exact liveLoop_of_invariants _ _ _ _ hc1 (chkOk_init hc1.idx)

end

end Simu.Remesh

#print axioms Simu.Remesh.refineLive_of_invariants
