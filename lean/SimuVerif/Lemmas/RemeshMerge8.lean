import SimuVerif.Lemmas.RemeshMerge7
import Mathlib.Data.List.Rotate
/-
  Part 8: a fan can be rotated and reversed, hence aligned with any edge at its centre and with either of the two
  faces on that edge.  With this, plain vertex-manifoldness (`VertexManifold`: SOME fan exists) at the two end nodes is
  enough for the collapse theorem (`mergeEdge_of_manifold` in `RemeshMerge.lean`).
-/
set_option linter.unusedSectionVars false
set_option linter.unusedVariables false
set_option linter.unusedSimpArgs false
namespace Simu.Remesh
open Simu Simu.Surface

theorem getD_rotate {l : List Nat} {s j : Nat} (hj : j < l.length) :
    (l.rotate s).getD j 0 = l.getD ((j + s) % l.length) 0 := by
  have h1 : j < (l.rotate s).length := by rw [List.length_rotate]; exact hj
  rw [getD_lt h1, List.getElem_rotate, getD_lt (Nat.mod_lt _ (by omega))]

theorem getD_reverse {l : List Nat} {j : Nat} (hj : j < l.length) :
    l.reverse.getD j 0 = l.getD (l.length - 1 - j) 0 := by
  have h1 : j < l.reverse.length := by rw [List.length_reverse]; exact hj
  rw [getD_lt h1, List.getElem_reverse, getD_lt (by omega)]

variable {L : List (Option Tri)} {v : Nat} {fs ns : List Nat}

/-- start the fan at another face -/
theorem Fan.rotate (h : Fan L v fs ns) (s : Nat) : Fan L v (fs.rotate s) (ns.rotate s) := by
  have hk := h.pos
  refine ⟨by rw [List.length_rotate, List.length_rotate]; exact h.len, by rw [List.length_rotate]; exact hk, ?_,
    List.nodup_rotate.2 h.nodupF, List.nodup_rotate.2 h.nodupN,
    fun g t ht hv => List.mem_rotate.2 (h.all g t ht hv)⟩
  intro j hj
  rw [List.length_rotate] at hj ⊢
  obtain ⟨t, ht, hT⟩ := h.tri ((j + s) % fs.length) (Nat.mod_lt _ hk)
  refine ⟨t, ?_, ?_⟩
  · rw [getD_rotate hj]; exact ht
  · rw [getD_rotate (l := ns) (by rw [h.len]; exact hj),
      getD_rotate (l := ns) (by rw [h.len]; exact Nat.mod_lt _ hk), h.len]
    have e : ((j + 1) % fs.length + s) % fs.length = ((j + s) % fs.length + 1) % fs.length := by
      rw [Nat.mod_add_mod, Nat.mod_add_mod]
      congr 1; omega
    rw [e]; exact hT

/-- run through the fan in the other sense of rotation (the start neighbour stays) -/
theorem Fan.reverse (h : Fan L v fs ns) : Fan L v fs.reverse (ns.rotate 1).reverse := by
  have hk := h.pos
  have hlen : (ns.rotate 1).length = fs.length := by rw [List.length_rotate]; exact h.len
  refine ⟨by rw [List.length_reverse, List.length_reverse]; exact hlen, by rw [List.length_reverse]; exact hk, ?_,
    List.nodup_reverse.2 h.nodupF, List.nodup_reverse.2 (List.nodup_rotate.2 h.nodupN),
    fun g t ht hv => List.mem_reverse.2 (h.all g t ht hv)⟩
  intro j hj
  rw [List.length_reverse] at hj ⊢
  obtain ⟨t, ht, hT⟩ := h.tri (fs.length - 1 - j) (by omega)
  refine ⟨t, by rw [getD_reverse hj]; exact ht, ?_⟩
  have a1 : (ns.rotate 1).reverse.getD j 0 = ns.getD ((fs.length - 1 - j + 1) % fs.length) 0 := by
    rw [getD_reverse (by rw [hlen]; exact hj), hlen, getD_rotate (by rw [h.len]; omega), h.len]
  have a2 : (ns.rotate 1).reverse.getD ((j + 1) % fs.length) 0 = ns.getD (fs.length - 1 - j) 0 := by
    have hm : (j + 1) % fs.length < fs.length := Nat.mod_lt _ hk
    rw [getD_reverse (by rw [hlen]; exact hm), hlen, getD_rotate (by rw [h.len]; omega), h.len]
    congr 1
    by_cases hj1 : j + 1 < fs.length
    · rw [Nat.mod_eq_of_lt hj1]
      have : fs.length - 1 - (j + 1) + 1 = fs.length - 1 - j := by omega
      rw [this, Nat.mod_eq_of_lt (by omega)]
    · have e : j + 1 = fs.length := by omega
      rw [e, Nat.mod_self]
      have : fs.length - 1 - 0 + 1 = fs.length := by omega
      rw [this, Nat.mod_self]
      omega
  rw [a1, a2]
  exact hT.swap

/-- **alignment**: for a live face `p` containing the centre `v` and another node `x` there is a fan that starts at the
    neighbour `x` and ends with the face `p` -/
theorem Fan.align (h : Fan L v fs ns) {x p : Nat} {t : Tri} (hp : L[p]? = some (some t))
    (hv : hasNode t v = true) (hx : hasNode t x = true) (hxv : x ≠ v) :
    ∃ fs' ns', Fan L v fs' ns' ∧ ns'.getD 0 0 = x ∧ fs'.getD (fs'.length - 1) 0 = p := by
  have hk := h.pos
  have hm := h.all p t hp hv
  obtain ⟨j, hj, he⟩ := List.getElem_of_mem hm
  obtain ⟨t', ht', hT⟩ := h.tri j hj
  rw [getD_lt hj, he, hp] at ht'
  cases ht'
  rcases (hT.hasNode_iff' x).1 hx with hh | hh | hh
  · exact absurd hh hxv
  · -- x = n_j : rotate by j, then reverse
    have R := (h.rotate j).reverse
    refine ⟨_, _, R, ?_, ?_⟩
    · have hl1 : (ns.rotate j).length = fs.length := by rw [List.length_rotate]; exact h.len
      have hl2 : ((ns.rotate j).rotate 1).length = fs.length := by rw [List.length_rotate]; exact hl1
      rw [getD_reverse (by rw [hl2]; exact hk), hl2, getD_rotate (by rw [hl1]; omega), hl1]
      have e1 : (fs.length - 1 - 0 + 1) % fs.length = 0 := by
        have : fs.length - 1 - 0 + 1 = fs.length := by omega
        rw [this, Nat.mod_self]
      rw [e1, getD_rotate (by rw [h.len]; exact hk), h.len, Nat.zero_add, Nat.mod_eq_of_lt hj]
      exact hh.symm
    · have hl1 : (fs.rotate j).length = fs.length := List.length_rotate _ _
      rw [List.length_reverse, hl1, getD_reverse (by rw [hl1]; omega), hl1]
      have e1 : fs.length - 1 - (fs.length - 1) = 0 := by omega
      rw [e1, getD_rotate hk, Nat.zero_add, Nat.mod_eq_of_lt hj, getD_lt hj]
      exact he
  · -- x = n_{j+1} : rotate by j+1
    have R := h.rotate ((j + 1) % fs.length)
    refine ⟨_, _, R, ?_, ?_⟩
    · rw [getD_rotate (by rw [h.len]; exact hk), h.len, Nat.zero_add, Nat.mod_mod]
      exact hh.symm
    · have hl1 : (fs.rotate ((j + 1) % fs.length)).length = fs.length := List.length_rotate _ _
      rw [hl1, getD_rotate (by omega), Nat.add_mod_mod]
      have e1 : (fs.length - 1 + (j + 1)) % fs.length = j := by
        have : fs.length - 1 + (j + 1) = j + fs.length := by omega
        rw [this, Nat.add_mod_right, Nat.mod_eq_of_lt hj]
      rw [e1, getD_lt hj]
      exact he

end Simu.Remesh
