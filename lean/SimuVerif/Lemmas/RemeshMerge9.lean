import SimuVerif.Lemmas.RemeshMerge
import SimuVerif.Lemmas.QSortSorted
/-
  Part 9: the guard of the collapse.  `can_be_merged` walks the fans around the two end nodes (`get_connected_nodes`),
  sorts the two neighbour lists and counts the common neighbours; it answers `true` iff there are exactly two.
  Under a complete index and vertex-manifold end nodes this is the link condition `LinkCond` (`merge_guard_iff`).

  `Array.qsort` has no sortedness lemma in core / Batteries / Mathlib at this version; "is a permutation" is proved in
  `RemeshRefine.lean`, "is sorted" in `QSortSorted.lean`.  The guard theorems are stated with the hypothesis `SortSpecAt`
  (sortedness of the two sorted neighbour lists of the call), which `sortSpecAt` discharges for every call.
-/
set_option linter.unusedSectionVars false
set_option linter.unusedVariables false
set_option linter.unusedSimpArgs false
namespace Simu.Remesh
open Simu Simu.Surface
open Simu.C11 (bind_ok newSlot)

/-! ## 1. a fan has at most as many faces as there are slots -/

theorem FanF.k_le {L : List (Option Tri)} {v k : Nat} {F N : Nat → Nat} (h : FanF L v k F N) : k ≤ L.length := by
  have hnd : ((List.range k).map (fun j => F (j + 1))).Nodup := by
    refine List.Nodup.map_on ?_ List.nodup_range
    intro x hx y hy he
    have hx' := List.mem_range.1 hx
    have hy' := List.mem_range.1 hy
    have := h.injF (x + 1) (y + 1) (by omega) (by omega) (by omega) (by omega) he
    omega
  have hsub : ((List.range k).map (fun j => F (j + 1))) ⊆ List.range L.length := by
    intro g hg
    obtain ⟨j, hj, rfl⟩ := List.mem_map.1 hg
    obtain ⟨t, ht, _⟩ := h.tri j (List.mem_range.1 hj)
    exact List.mem_range.2 (List.getElem?_eq_some_iff.1 ht).1
  have := (List.subperm_of_subset hnd hsub).length_le
  simpa using this

/-! ## 2. the two faces of an entry, forwards -/

theorem two_faces {e : Edge} {p q : Nat} (hw : WfFaces e) (hf : ∀ g, e.hasFace g = true ↔ (g = p ∨ g = q))
    (hpq : p ≠ q) : (e.f1 = some p ∧ e.f2 = some q) ∨ (e.f1 = some q ∧ e.f2 = some p) := by
  obtain ⟨n1, n2, f1, f2⟩ := e
  simp only [Edge.hasFace_iff] at hf
  cases f1 with
  | none => exact absurd rfl hw.1
  | some a =>
    have ha := (hf a).1 (Or.inl rfl)
    have hp := (hf p).2 (Or.inl rfl)
    have hq := (hf q).2 (Or.inr rfl)
    cases f2 with
    | none =>
      simp only [Option.some.injEq, reduceCtorEq, or_false] at hp hq
      omega
    | some b =>
      have hb := (hf b).1 (Or.inr rfl)
      have hab : a ≠ b := by
        intro hh; exact hw.2 (by simp [hh])
      simp only [Option.some.injEq] at hp hq
      rcases ha with rfl | rfl
      · left; refine ⟨rfl, ?_⟩
        rcases hb with h | h
        · exact absurd h.symm hab
        · rw [h]
      · right; refine ⟨rfl, ?_⟩
        rcases hb with h | h
        · rw [h]
        · exact absurd h.symm hab

theorem otherFace_two {e : Edge} {p q : Nat} (hw : WfFaces e) (hf : ∀ g, e.hasFace g = true ↔ (g = p ∨ g = q))
    (hpq : p ≠ q) : e.otherFace p = .ok q := by
  unfold Edge.otherFace
  rcases two_faces hw hf hpq with ⟨h1, h2⟩ | ⟨h1, h2⟩
  · rw [h1, h2]; simp
  · rw [h1, h2]
    have : (q == p) = false := by simp [Ne.symm hpq]
    simp [this]

/-! ## 3. `get_connected_nodes` lists the neighbours of the fan -/
section
variable {R : Type} [Add R] [Sub R] [Mul R] [Div R] [Neg R] [Lit R] [LT R] [LE R] [DecidableLT R]
  [DecidableLE R] [DecidableEq R]

theorem connectedNodes_loop {c : Cell R} {v k : Nat} {F N : Nat → Nat} (hI : EdgeIdxComplete c)
    (fan : FanF (slots c) v k F N) :
    ∀ d j, 1 ≤ j → j ≤ k → k - j = d → ∀ fuel, d < fuel → ∀ e : Edge,
      ((e.n1 = v ∧ e.n2 = N (j - 1)) ∨ (e.n1 = N (j - 1) ∧ e.n2 = v)) →
      connectedNodes.loop c v (F 0) fuel e (F j) ((List.range j).map N) = .ok ((List.range k).map N) := by
  intro d
  induction d with
  | zero =>
    intro j hj1 hjk hd fuel hfuel e he
    have : j = k := by omega
    subst this
    obtain ⟨fuel, rfl⟩ : ∃ f, fuel = f + 1 := ⟨fuel - 1, by omega⟩
    unfold connectedNodes.loop
    have : (F j == F 0) = true := by rw [fan.closeF]; simp
    simp only [this, if_true]
  | succ d ih =>
    intro j hj1 hjk hd fuel hfuel e he
    have hjlt : j < k := by omega
    obtain ⟨fuel, rfl⟩ : ∃ f, fuel = f + 1 := ⟨fuel - 1, by omega⟩
    -- the face F j
    obtain ⟨t, ht, hT⟩ := fan.tri (j - 1) (by omega)
    have ej : j - 1 + 1 = j := by omega
    rw [ej] at ht hT
    obtain ⟨f, hf, hu, hft⟩ := slot_some_iff.1 ht
    subst hft
    have hne : (F j == F 0) = false := by
      rw [fan.closeF]
      have : F j ≠ F k := by
        intro hh
        have := fan.injF j k hj1 hjk (by omega) (Nat.le_refl _) hh
        omega
      simpa using this
    have hopp : oppositeNode f e.n1 e.n2 = some (N j) := by
      rcases he with ⟨a1, a2⟩ | ⟨a1, a2⟩
      · rw [a1, a2]; exact (oppositeNode_isTri hT).1
      · rw [a1, a2]; exact (oppositeNode_isTri hT).2
    -- the next edge
    have hside : SideK (slots c) (F j) (Edge.keyOf v (N j)) := (fan.side hjlt (F j)).2 (Or.inl rfl)
    obtain ⟨e', he'⟩ := IdxP.get hI hside
    obtain ⟨ek, ele, ewf, eP⟩ := IdxP.of_find hI he'
    have hget : getEdge c (N j) v = some e' := by
      rw [getEdge_eq, Edge.keyOf_comm]; exact he'
    have hvn : N j ≠ v := fan.N_ne hjlt
    have hn12 := (Edge.key_eq_keyOf_iff ele).1 ek
    have happ : (if (v == e'.n1) = true then e'.n2 else e'.n1) = N j := by
      rcases hn12 with ⟨a1, a2⟩ | ⟨a1, a2⟩
      · rw [a1, a2]; simp
      · rw [a1, a2]
        have : (v == N j) = false := by simpa using Ne.symm hvn
        simp [this]
    have hoth : e'.otherFace (F j) = .ok (F (j + 1)) :=
      otherFace_two ewf (fun g => (eP g).trans (fan.side hjlt g)) (fan.F_succ_ne hjlt)
    unfold connectedNodes.loop
    simp only [hne, Bool.false_eq_true, if_false, hf, hopp, hget, happ, hoth]
    have hacc : (List.range j).map N ++ [N j] = (List.range (j + 1)).map N := by
      rw [List.range_succ, List.map_append]; rfl
    rw [hacc]
    refine ih (j + 1) (by omega) (by omega) (by omega) fuel (by omega) e' ?_
    have : j + 1 - 1 = j := by omega
    rw [this]
    exact hn12

/-- **`get_connected_nodes`**: for a fan `F, N` around `node` aligned with `start` (`N 0` the other end, `start.f1 = F 0`
    the last face, `start.f2 = F 1` the first), the call returns the neighbours `N 0 … N (k-1)` in fan order -/
theorem connectedNodes_fan {c : Cell R} {start : Edge} {v k : Nat} {F N : Nat → Nat} (hI : EdgeIdxComplete c)
    (fan : FanF (slots c) v k F N) (hk : 0 < k) (hs1 : start.f1 = some (F 0)) (hs2 : start.f2 = some (F 1))
    (hn : (start.n1 = v ∧ start.n2 = N 0) ∨ (start.n1 = N 0 ∧ start.n2 = v)) :
    connectedNodes c v start = .ok ((List.range k).map N) := by
  have hvn : N 0 ≠ v := fan.N_ne hk
  have hfirst : (if (v == start.n1) = true then start.n2 else start.n1) = N 0 := by
    rcases hn with ⟨a1, a2⟩ | ⟨a1, a2⟩
    · rw [a1, a2]; simp
    · rw [a1, a2]
      have : (v == N 0) = false := by simpa using Ne.symm hvn
      simp [this]
  unfold connectedNodes
  rw [hs1, hs2]
  simp only [hfirst]
  have hle := fan.k_le
  have hlen : (slots c).length = c.faces.size := slotsA_length _
  have := connectedNodes_loop hI fan (k - 1) 1 (Nat.le_refl _) (by omega) rfl (c.faces.size + 2) (by omega) start hn
  exact this

end

/-! ## 4. counting the common elements of two strictly sorted lists -/

theorem interGo_length : ∀ (fuel : Nat) (a b acc : List Nat), a.Pairwise (· < ·) → b.Pairwise (· < ·) →
    a.length + b.length < fuel → (∀ x ∈ acc, x ∉ a) →
    (interSize.go fuel a b acc).length = acc.length + (a.filter (fun x => decide (x ∈ b))).length := by
  intro fuel
  induction fuel with
  | zero => intro a b acc _ _ h; omega
  | succ fuel ih =>
    intro a b acc ha hb hf hacc
    unfold interSize.go
    cases a with
    | nil => simp
    | cons x xs =>
      cases b with
      | nil => simp
      | cons y ys =>
        have hxs := List.pairwise_cons.1 ha
        have hys := List.pairwise_cons.1 hb
        simp only
        by_cases h1 : x < y
        · rw [if_pos h1]
          rw [ih xs (y :: ys) acc hxs.2 hb (by simp at hf ⊢; omega) (fun z hz hm => hacc z hz (List.mem_cons_of_mem _ hm))]
          have : x ∉ y :: ys := by
            intro hm
            rcases List.mem_cons.1 hm with h | h
            · omega
            · have := hys.1 x h; omega
          have hd : decide (x ∈ y :: ys) = false := decide_eq_false this
          rw [List.filter_cons, hd]
          simp
        · rw [if_neg h1]
          by_cases h2 : y < x
          · rw [if_pos h2]
            rw [ih (x :: xs) ys acc ha hys.2 (by simp at hf ⊢; omega) hacc]
            congr 1
            congr 1
            apply List.filter_congr
            intro z hz
            have hzx : x ≤ z := by
              rcases List.mem_cons.1 hz with h | h
              · omega
              · have := hxs.1 z h; omega
            have : z ≠ y := by omega
            simp [this]
          · rw [if_neg h2]
            have hxy : x = y := by omega
            subst hxy
            have hnc : acc.contains x = false := by
              rw [Bool.eq_false_iff]
              intro hc
              exact hacc x (by simpa using hc) List.mem_cons_self
            simp only [hnc, Bool.false_eq_true, if_false]
            rw [ih xs ys (x :: acc) hxs.2 hys.2 (by simp at hf ⊢; omega) ?_]
            · have e1 : (List.filter (fun z => decide (z ∈ x :: ys)) (x :: xs)) =
                  x :: List.filter (fun z => decide (z ∈ ys)) xs := by
                rw [List.filter_cons]
                simp only [List.mem_cons, true_or, decide_true, if_true]
                congr 1
                apply List.filter_congr
                intro z hz
                have := hxs.1 z hz
                have : z ≠ x := by omega
                simp [this]
              rw [e1]
              simp only [List.length_cons]
              omega
            · intro z hz hm
              rcases List.mem_cons.1 hz with h | h
              · subst h
                have := hxs.1 z hm; omega
              · exact hacc z h (List.mem_cons_of_mem _ hm)

theorem interSize_eq {a b : List Nat} (ha : a.Pairwise (· < ·)) (hb : b.Pairwise (· < ·)) :
    interSize a b = (a.filter (fun x => decide (x ∈ b))).length := by
  unfold interSize
  rw [interGo_length _ a b [] ha hb (by omega) (by simp)]
  simp

/-! ## 5. `sortNat` -/

/-- `sortNat` returns a sorted list (proved for every list: `sortSpec`) -/
def SortSpec (l : List Nat) : Prop := (sortNat l).Pairwise (· ≤ ·)

/-- **`sortNat` sorts** (`Array.qsort` on `Nat` with `<`, `QSortSorted.lean`) -/
theorem sortSpec (l : List Nat) : SortSpec l := QS.qsort_sorted l.toArray

theorem sortNat_perm (l : List Nat) : (sortNat l).Perm l := QS.qsort_toList_perm l _

theorem sortNat_strict {l : List Nat} (hs : SortSpec l) (hnd : l.Nodup) : (sortNat l).Pairwise (· < ·) := by
  have h2 : (sortNat l).Nodup := (sortNat_perm l).nodup_iff.2 hnd
  refine (List.Pairwise.and hs h2).imp ?_
  intro a b hab
  omega

/-- the number of common elements computed by `can_be_merged` -/
theorem interSize_sortNat {la lb : List Nat} (ha : SortSpec la) (hb : SortSpec lb) (hna : la.Nodup)
    (hnb : lb.Nodup) : interSize (sortNat la) (sortNat lb) = (la.filter (fun x => decide (x ∈ lb))).length := by
  rw [interSize_eq (sortNat_strict ha hna) (sortNat_strict hb hnb)]
  have hf : (sortNat la).filter (fun x => decide (x ∈ sortNat lb)) = (sortNat la).filter (fun x => decide (x ∈ lb)) := by
    apply List.filter_congr
    intro x _
    exact decide_eq_decide.2 (sortNat_perm lb).mem_iff
  rw [hf]
  exact ((sortNat_perm la).filter _).length_eq

/-! ## 6. small facts about duplicate-free lists -/

theorem nodup_all_eq_length {l : List Nat} {x : Nat} (hnd : l.Nodup) (h : ∀ z ∈ l, z = x) : l.length ≤ 1 := by
  match l, hnd, h with
  | [], _, _ => simp
  | [_], _, _ => simp
  | p :: q :: r, hnd, h =>
    have hp := h p (by simp)
    have hq := h q (by simp)
    have := (List.nodup_cons.1 hnd).1
    exact absurd (by rw [hp, hq]; simp) this

theorem nodup_two {l : List Nat} {x y : Nat} (hnd : l.Nodup) (hl : l.length = 2) (hx : x ∈ l) (hy : y ∈ l)
    (hxy : x ≠ y) : ∀ z ∈ l, z = x ∨ z = y := by
  match l, hl with
  | [p, q], _ =>
    intro z hz
    simp only [List.mem_cons, List.not_mem_nil, or_false] at hx hy hz
    omega

theorem nodup_pair_length {l : List Nat} {x y : Nat} (hnd : l.Nodup) (hxy : x ≠ y)
    (h : ∀ z, z ∈ l ↔ (z = x ∨ z = y)) : l.length = 2 := by
  have hp : l.Perm [x, y] := by
    refine (List.perm_ext_iff_of_nodup hnd (by simp [hxy])).2 ?_
    intro z; rw [h z]; simp
  exact hp.length_eq

/-! ## 7. the guard and the link condition -/
section
variable {R : Type} [Add R] [Sub R] [Mul R] [Div R] [Neg R] [Lit R] [LT R] [LE R] [DecidableLT R]
  [DecidableLE R] [DecidableEq R]

/-- the setting of `can_be_merged`: complete index, fans around both end nodes of `e`, both aligned with `e` (they start
    at the other end node, `e.f1` is the last face and `e.f2` the first) -/
structure GuardFans (c : Cell R) (e : Edge) (kA kB : Nat) (FA NA FB NB : Nat → Nat) : Prop where
  idx : EdgeIdxComplete c
  fanA : FanF (slots c) e.n1 kA FA NA
  fanB : FanF (slots c) e.n2 kB FB NB
  kA0 : 0 < kA
  kB0 : 0 < kB
  nA0 : NA 0 = e.n2
  nB0 : NB 0 = e.n1
  fA0 : e.f1 = some (FA 0)
  fA1 : e.f2 = some (FA 1)
  fB0 : e.f1 = some (FB 0)
  fB1 : e.f2 = some (FB 1)

theorem mem_nbrs {k : Nat} {N : Nat → Nat} {x : Nat} : x ∈ (List.range k).map N ↔ ∃ j, j < k ∧ x = N j := by
  rw [List.mem_map]
  constructor
  · rintro ⟨j, hj, rfl⟩; exact ⟨j, List.mem_range.1 hj, rfl⟩
  · rintro ⟨j, hj, rfl⟩; exact ⟨j, List.mem_range.2 hj, rfl⟩

theorem FanF.nbrs_nodup {L : List (Option Tri)} {v k : Nat} {F N : Nat → Nat} (h : FanF L v k F N) :
    ((List.range k).map N).Nodup := by
  refine List.Nodup.map_on ?_ List.nodup_range
  intro x hx y hy he
  exact h.injN x y (List.mem_range.1 hx) (List.mem_range.1 hy) he

/-- `x` is joined to the centre of a fan by an edge iff it is one of the neighbours of the fan -/
theorem adj_iff_nbr {c : Cell R} {v k : Nat} {F N : Nat → Nat} (fan : FanF (slots c) v k F N) (x : Nat) :
    Adj (abs c) v x ↔ ∃ j, j < k ∧ x = N j := by
  constructor
  · intro h
    have key : ∀ t, t ∈ abs c → (hasDir t v x = true ∨ hasDir t x v = true) → ∃ j, j < k ∧ x = N j := by
      intro t ht hd
      obtain ⟨g, hg⟩ := mem_abs_iff.1 ht
      have hq : Edge.keyOf v x ∈ sideKeys t := by
        rcases hd with hd | hd
        · exact sideKey_of_hasDir hd
        · rw [Edge.keyOf_comm]; exact sideKey_of_hasDir hd
      exact fan.side_nbr ⟨t, hg, hq⟩
    rcases h with h | h
    · obtain ⟨t, ht, hm⟩ := mem_heM.1 h
      exact key t ht (Or.inl (hasDir_of_mem_heTriM hm))
    · obtain ⟨t, ht, hm⟩ := mem_heM.1 h
      exact key t ht (Or.inr (hasDir_of_mem_heTriM hm))
  · rintro ⟨j, hj, rfl⟩
    exact adj_of_sideK ((fan.side hj (F (j + 1))).2 (Or.inr rfl))

namespace GuardFans
variable {c : Cell R} {e : Edge} {kA kB : Nat} {FA NA FB NB : Nat → Nat}

theorem kA2 (G : GuardFans c e kA kB FA NA FB NB) : 2 ≤ kA := G.fanA.two_le G.kA0
theorem kB2 (G : GuardFans c e kA kB FA NA FB NB) : 2 ≤ kB := G.fanB.two_le G.kB0

theorem F0 (G : GuardFans c e kA kB FA NA FB NB) : FA 0 = FB 0 := by
  have := G.fA0; rw [G.fB0] at this; exact (Option.some.inj this).symm

theorem F1 (G : GuardFans c e kA kB FA NA FB NB) : FA 1 = FB 1 := by
  have := G.fA1; rw [G.fB1] at this; exact (Option.some.inj this).symm

/-- the third node of the first face `e.f2` -/
theorem third1 (G : GuardFans c e kA kB FA NA FB NB) : NA 1 = NB 1 := by
  obtain ⟨t, ht, hT⟩ := G.fanA.tri 0 G.kA0
  obtain ⟨t', ht', hT'⟩ := G.fanB.tri 0 G.kB0
  have e1 : FA (0 + 1) = FB (0 + 1) := G.F1
  rw [e1, ht'] at ht; cases ht
  have h2 := G.kB2
  have hn := (hT.hasNode_iff' (NB (0 + 1))).1 hT'.2.2.2.2.2
  rcases hn with h | h | h
  · rw [← G.nB0] at h
    have := G.fanB.injN (0 + 1) 0 (by omega) (by omega) h
    omega
  · rw [G.nA0] at h
    exact absurd h (G.fanB.N_ne (by omega))
  · exact h.symm

/-- the third node of the last face `e.f1` -/
theorem thirdk (G : GuardFans c e kA kB FA NA FB NB) : NA (kA - 1) = NB (kB - 1) := by
  have hA := G.kA2
  have hB := G.kB2
  obtain ⟨t, ht, hT⟩ := G.fanA.tri (kA - 1) (by omega)
  obtain ⟨t', ht', hT'⟩ := G.fanB.tri (kB - 1) (by omega)
  have eA : kA - 1 + 1 = kA := by omega
  have eB : kB - 1 + 1 = kB := by omega
  rw [eA] at ht hT
  rw [eB] at ht' hT'
  rw [← G.fanA.closeF, G.F0, G.fanB.closeF, ht'] at ht
  cases ht
  have hn := (hT.hasNode_iff' (NB (kB - 1))).1 hT'.2.2.2.2.1
  rcases hn with h | h | h
  · rw [← G.nB0] at h
    have := G.fanB.injN (kB - 1) 0 (by omega) (by omega) h
    omega
  · exact h.symm
  · rw [G.fanA.closeN, G.nA0] at h
    exact absurd h (G.fanB.N_ne (by omega))

/-- the neighbour lists that `get_connected_nodes` returns -/
theorem connA (G : GuardFans c e kA kB FA NA FB NB) : connectedNodes c e.n1 e = .ok ((List.range kA).map NA) :=
  connectedNodes_fan G.idx G.fanA G.kA0 G.fA0 G.fA1 (Or.inl ⟨rfl, G.nA0.symm⟩)

theorem connB (G : GuardFans c e kA kB FA NA FB NB) : connectedNodes c e.n2 e = .ok ((List.range kB).map NB) :=
  connectedNodes_fan G.idx G.fanB G.kB0 G.fB0 G.fB1 (Or.inr ⟨G.nB0.symm, rfl⟩)

/-- `can_be_merged` is defined, and its answer is "the two sorted neighbour lists have exactly two common elements" -/
theorem canBeMerged_eq (G : GuardFans c e kA kB FA NA FB NB) :
    canBeMerged c e = .ok (interSize (sortNat ((List.range kA).map NA)) (sortNat ((List.range kB).map NB)) == 2) := by
  unfold canBeMerged
  rw [G.connA, G.connB]
  rfl

/-- exactly two common neighbours, in terms of the fans -/
theorem count_iff (G : GuardFans c e kA kB FA NA FB NB) :
    (((List.range kA).map NA).filter (fun x => decide (x ∈ (List.range kB).map NB))).length = 2 ↔
      (3 ≤ kB ∧ ∀ x, (∃ j, j < kA ∧ x = NA j) → (∃ m, m < kB ∧ x = NB m) → (x = NB 1 ∨ x = NB (kB - 1))) := by
  have hA := G.kA2
  have hB := G.kB2
  have hnd : (((List.range kA).map NA).filter (fun x => decide (x ∈ (List.range kB).map NB))).Nodup :=
    G.fanA.nbrs_nodup.filter _
  have hmem : ∀ z, z ∈ ((List.range kA).map NA).filter (fun x => decide (x ∈ (List.range kB).map NB)) ↔
      ((∃ j, j < kA ∧ z = NA j) ∧ (∃ m, m < kB ∧ z = NB m)) := by
    intro z
    rw [List.mem_filter, decide_eq_true_eq, mem_nbrs, mem_nbrs]
  have hd : (∃ j, j < kA ∧ NB 1 = NA j) ∧ (∃ m, m < kB ∧ NB 1 = NB m) :=
    ⟨⟨1, by omega, G.third1.symm⟩, ⟨1, by omega, rfl⟩⟩
  have hc : (∃ j, j < kA ∧ NB (kB - 1) = NA j) ∧ (∃ m, m < kB ∧ NB (kB - 1) = NB m) :=
    ⟨⟨kA - 1, by omega, G.thirdk.symm⟩, ⟨kB - 1, by omega, rfl⟩⟩
  constructor
  · intro hl
    have hk3 : 3 ≤ kB := by
      by_contra hlt
      have e2 : kB = 2 := by omega
      have : ∀ z ∈ ((List.range kA).map NA).filter (fun x => decide (x ∈ (List.range kB).map NB)), z = NB 1 := by
        intro z hz
        obtain ⟨⟨j, hj, hzj⟩, ⟨m, hm, hzm⟩⟩ := (hmem z).1 hz
        have : m = 0 ∨ m = 1 := by omega
        rcases this with rfl | rfl
        · rw [G.nB0] at hzm
          rw [hzm] at hzj
          exact absurd hzj.symm (G.fanA.N_ne hj)
        · exact hzm
      have := nodup_all_eq_length hnd this
      omega
    refine ⟨hk3, fun x hx1 hx2 => ?_⟩
    have hne : NB 1 ≠ NB (kB - 1) := by
      intro he
      have := G.fanB.injN 1 (kB - 1) (by omega) (by omega) he
      omega
    exact nodup_two hnd hl ((hmem _).2 hd) ((hmem _).2 hc) hne x ((hmem x).2 ⟨hx1, hx2⟩)
  · rintro ⟨hk3, hall⟩
    have hne : NB 1 ≠ NB (kB - 1) := by
      intro he
      have := G.fanB.injN 1 (kB - 1) (by omega) (by omega) he
      omega
    refine nodup_pair_length hnd hne (fun z => ?_)
    rw [hmem z]
    constructor
    · rintro ⟨h1, h2⟩; exact hall z h1 h2
    · rintro (rfl | rfl)
      · exact hd
      · exact hc

/-- a live triangle through both end nodes is the first or the last face of the fan around `e.n2` -/
theorem edge_face_cases (G : GuardFans c e kA kB FA NA FB NB) {g : Nat} {t : Tri}
    (hg : (slots c)[g]? = some (some t)) (ha : hasNode t e.n1 = true) (hb : hasNode t e.n2 = true) :
    (g = FB 1 ∧ IsTri t e.n2 e.n1 (NB 1)) ∨ (g = FB kB ∧ IsTri t e.n2 (NB (kB - 1)) e.n1) := by
  have hB := G.kB2
  obtain ⟨m, hm, rfl⟩ := G.fanB.all g t hg hb
  obtain ⟨t', ht', hT⟩ := G.fanB.tri m hm
  rw [hg] at ht'; cases ht'
  have hab : e.n1 ≠ e.n2 := by rw [← G.nB0]; exact G.fanB.N_ne G.kB0
  rcases (hT.hasNode_iff' e.n1).1 ha with he | he | he
  · exact absurd he hab
  · rw [← G.nB0] at he
    have := G.fanB.injN 0 m G.kB0 hm he
    subst this
    left
    refine ⟨rfl, ?_⟩
    rw [G.nB0] at hT; exact hT
  · by_cases hm1 : m + 1 < kB
    · rw [← G.nB0] at he
      have := G.fanB.injN 0 (m + 1) G.kB0 hm1 he
      omega
    · have e1 : m + 1 = kB := by omega
      have e2 : m = kB - 1 := by omega
      right
      refine ⟨by rw [e1], ?_⟩
      rw [e1, G.fanB.closeN, G.nB0] at hT
      rw [e2] at hT; exact hT

/-- **the link condition in terms of the fans** -/
theorem linkCond_iff (G : GuardFans c e kA kB FA NA FB NB) {t1 t2 : Tri}
    (h1 : findDir (abs c) e.n1 e.n2 = some t1) (h2 : findDir (abs c) e.n2 e.n1 = some t2) :
    LinkCond (abs c) e.n1 e.n2 (opp t1 e.n1 e.n2) (opp t2 e.n2 e.n1) ↔
      (3 ≤ kB ∧ ∀ x, (∃ j, j < kA ∧ x = NA j) → (∃ m, m < kB ∧ x = NB m) → (x = NB 1 ∨ x = NB (kB - 1))) := by
  have hB := G.kB2
  constructor
  · intro hl
    obtain ⟨k3, lk⟩ := link_of_linkCond G.fanB G.nB0 G.kB0 h1 h2 hl
    refine ⟨k3, ?_⟩
    rintro x ⟨j, hj, rfl⟩ ⟨m, hm, hxm⟩
    by_cases hm0 : m = 0
    · subst hm0
      rw [G.nB0] at hxm
      exact absurd hxm (G.fanA.N_ne hj)
    by_cases hm1 : m = 1
    · subst hm1; exact Or.inl hxm
    by_cases hmk : m = kB - 1
    · subst hmk; exact Or.inr hxm
    exfalso
    refine lk m (by omega) (by omega) (FA (j + 1)) ?_
    rw [← hxm]
    exact (G.fanA.side hj _).2 (Or.inr rfl)
  · rintro ⟨hk3, hall⟩
    obtain ⟨m1, d1⟩ := findDir_some h1
    obtain ⟨m2, d2⟩ := findDir_some h2
    obtain ⟨g1, hg1⟩ := mem_abs_iff.1 m1
    obtain ⟨g2, hg2⟩ := mem_abs_iff.1 m2
    obtain ⟨n1a, n1b⟩ := hasNode_of_hasDir d1
    obtain ⟨n2b, n2a⟩ := hasNode_of_hasDir d2
    have c1 := G.edge_face_cases hg1 n1a n1b
    have c2 := G.edge_face_cases hg2 n2a n2b
    have hne : NB 1 ≠ NB (kB - 1) := by
      intro he
      have := G.fanB.injN 1 (kB - 1) (by omega) (by omega) he
      omega
    -- the opposite node is the third node
    have oppT : ∀ {t : Tri} {p q z : Nat}, hasDir t p q = true → IsTri t e.n2 e.n1 z ∨ IsTri t e.n2 z e.n1 →
        ((p = e.n1 ∧ q = e.n2) ∨ (p = e.n2 ∧ q = e.n1)) → opp t p q = z := by
      intro t p q z hd hT hpq
      have hT' : IsTri t e.n2 e.n1 z := by
        rcases hT with h | h
        · exact h
        · exact h.swap
      obtain ⟨_, o1, o2⟩ := opp_ne hT'.nondeg hd
      have hz : hasNode t z = true := hT'.2.2.2.2.2
      have z1 : z ≠ e.n1 := Ne.symm hT'.2.2.1
      have z2 : z ≠ e.n2 := Ne.symm hT'.2.1
      rcases (node_of_hasDir hd).1 hz with h | h | h
      · exact h.symm
      · rcases hpq with ⟨rfl, _⟩ | ⟨rfl, _⟩
        · exact absurd h z1
        · exact absurd h z2
      · rcases hpq with ⟨_, rfl⟩ | ⟨_, rfl⟩
        · exact absurd h z2
        · exact absurd h z1
    have hg12 : g1 ≠ g2 := by
      rintro rfl
      rw [hg1] at hg2; cases hg2
      have nd : t1.1 ≠ t1.2.1 ∧ t1.2.1 ≠ t1.2.2 ∧ t1.2.2 ≠ t1.1 := by
        rcases c1 with ⟨_, h⟩ | ⟨_, h⟩ <;> exact h.nondeg
      exact hasDir_not_both nd d1 d2
    have hCD : (opp t1 e.n1 e.n2 = NB 1 ∧ opp t2 e.n2 e.n1 = NB (kB - 1)) ∨
        (opp t1 e.n1 e.n2 = NB (kB - 1) ∧ opp t2 e.n2 e.n1 = NB 1) := by
      rcases c1 with ⟨e1, T1⟩ | ⟨e1, T1⟩ <;> rcases c2 with ⟨e2, T2⟩ | ⟨e2, T2⟩
      · exact absurd (e1.trans e2.symm) hg12
      · exact Or.inl ⟨oppT d1 (Or.inl T1) (Or.inl ⟨rfl, rfl⟩), oppT d2 (Or.inr T2) (Or.inr ⟨rfl, rfl⟩)⟩
      · exact Or.inr ⟨oppT d1 (Or.inr T1) (Or.inl ⟨rfl, rfl⟩), oppT d2 (Or.inl T2) (Or.inr ⟨rfl, rfl⟩)⟩
      · exact absurd (e1.trans e2.symm) hg12
    refine ⟨?_, fun x ha hb => ?_⟩
    · rcases hCD with ⟨a1, a2⟩ | ⟨a1, a2⟩
      · rw [a1, a2]; exact hne
      · rw [a1, a2]; exact Ne.symm hne
    · have := hall x ((adj_iff_nbr G.fanA x).1 ha) ((adj_iff_nbr G.fanB x).1 hb)
      rcases hCD with ⟨a1, a2⟩ | ⟨a1, a2⟩
      · rw [a1, a2]; exact this
      · rw [a1, a2]; exact this.symm

end GuardFans

/-- sortedness of the two sorted neighbour lists of this call of `can_be_merged` (holds for every call: `sortSpecAt`) -/
def SortSpecAt (c : Cell R) (e : Edge) : Prop :=
  ∀ la lb, connectedNodes c e.n1 e = .ok la → connectedNodes c e.n2 e = .ok lb → SortSpec la ∧ SortSpec lb

theorem sortSpecAt (c : Cell R) (e : Edge) : SortSpecAt c e := fun la lb _ _ => ⟨sortSpec la, sortSpec lb⟩

/-- **the guard of the collapse is the link condition** (fan form of the hypotheses) -/
theorem GuardFans.guard_iff {c : Cell R} {e : Edge} {kA kB : Nat} {FA NA FB NB : Nat → Nat}
    (G : GuardFans c e kA kB FA NA FB NB) (hs : SortSpecAt c e) {t1 t2 : Tri}
    (h1 : findDir (abs c) e.n1 e.n2 = some t1) (h2 : findDir (abs c) e.n2 e.n1 = some t2) :
    canBeMerged c e = .ok true ↔ LinkCond (abs c) e.n1 e.n2 (opp t1 e.n1 e.n2) (opp t2 e.n2 e.n1) := by
  obtain ⟨sa, sb⟩ := hs _ _ G.connA G.connB
  rw [G.canBeMerged_eq, interSize_sortNat sa sb G.fanA.nbrs_nodup G.fanB.nbrs_nodup, G.linkCond_iff h1 h2,
    ← G.count_iff]
  constructor
  · intro h
    have := Except.ok.inj h
    simpa using this
  · intro h
    rw [h]; rfl

theorem sortedLe_of_B : ∀ {l : List Nat}, sortedLeB l = true → l.Pairwise (· ≤ ·)
  | [], _ => List.Pairwise.nil
  | x :: xs, h => by
    unfold sortedLeB at h
    simp only [Bool.and_eq_true, List.all_eq_true, decide_eq_true_eq] at h
    exact List.pairwise_cons.2 ⟨h.1, sortedLe_of_B h.2⟩

theorem sortSpecAt_of_B {c : Cell R} {e : Edge} (h : chkSortSpec c e = true) : SortSpecAt c e := by
  intro la lb ha hb
  unfold chkSortSpec at h
  rw [ha, hb] at h
  simp only [Bool.and_eq_true] at h
  exact ⟨sortedLe_of_B h.1, sortedLe_of_B h.2⟩

/-- **aligned fans from vertex-manifoldness**: a complete index, an entry `E` for the edge whose two faces are those of the
    popped copy `e` (in either order) and vertex-manifold end nodes give fans around both end nodes aligned with `e` -/
theorem guardFans_of_manifold {c : Cell R} {e E : Edge} (hI : EdgeIdxComplete c)
    (hentry : getEdge c e.n1 e.n2 = some E)
    (hord : (E.f1 = e.f1 ∧ E.f2 = e.f2) ∨ (E.f1 = e.f2 ∧ E.f2 = e.f1))
    (mA : VertexManifold c e.n1) (mB : VertexManifold c e.n2) :
    ∃ kA kB FA NA FB NB, GuardFans c e kA kB FA NA FB NB := by
  have hentry' : EdgeSet.find? c.edges (Edge.keyOf e.n1 e.n2) = some E := hentry
  obtain ⟨_, _, hw, hP⟩ := IdxP.of_find hI hentry'
  obtain ⟨fsA, nsA, FA⟩ := mA
  obtain ⟨fsB, nsB, FB⟩ := mB
  -- the first face of the entry: a live triangle through both end nodes
  cases hg0 : E.f1 with
  | none => exact absurd hg0 hw.1
  | some g0 =>
    obtain ⟨t0, ht0, hq0⟩ := (hP g0).1 ((Edge.hasFace_iff _ _).2 (Or.inl hg0))
    obtain ⟨ha0, hb0⟩ := hasNode_of_sideKey hq0
    have hab : e.n1 ≠ e.n2 := by
      intro he
      obtain ⟨j, hj, hgj⟩ := FA.toF.all g0 t0 ht0 ha0
      obtain ⟨t', ht', hT⟩ := FA.toF.tri j hj
      rw [← hgj, ht0] at ht'; cases ht'
      rw [← he] at hq0
      exact hT.no_loop_side hq0
    -- the two faces of the entry, via the (unaligned) fan around `e.n1`
    obtain ⟨j, hj, hbj⟩ := FA.toF.side_nbr ⟨t0, ht0, hq0⟩
    have hfaces : ∀ g, E.hasFace g = true ↔ (g = fanF fsA j ∨ g = fanF fsA (j + 1)) := by
      intro g; rw [hP g, hbj]; exact FA.toF.side hj g
    have hpq := FA.toF.F_succ_ne hj
    have h2 := two_faces hw hfaces hpq
    -- the two faces of the popped copy
    have he12 : ∃ f1 f2, e.f1 = some f1 ∧ e.f2 = some f2 ∧ f1 ≠ f2 ∧ E.hasFace f1 = true ∧ E.hasFace f2 = true := by
      rcases h2 with ⟨a1, a2⟩ | ⟨a1, a2⟩ <;> rcases hord with ⟨o1, o2⟩ | ⟨o1, o2⟩
      · exact ⟨_, _, by rw [← o1, a1], by rw [← o2, a2], hpq, (hfaces _).2 (Or.inl rfl), (hfaces _).2 (Or.inr rfl)⟩
      · exact ⟨_, _, by rw [← o2, a2], by rw [← o1, a1], Ne.symm hpq, (hfaces _).2 (Or.inr rfl),
          (hfaces _).2 (Or.inl rfl)⟩
      · exact ⟨_, _, by rw [← o1, a1], by rw [← o2, a2], Ne.symm hpq, (hfaces _).2 (Or.inr rfl),
          (hfaces _).2 (Or.inl rfl)⟩
      · exact ⟨_, _, by rw [← o2, a2], by rw [← o1, a1], hpq, (hfaces _).2 (Or.inl rfl), (hfaces _).2 (Or.inr rfl)⟩
    obtain ⟨f1, f2, he1, he2, hf12, hE1, hE2⟩ := he12
    obtain ⟨t1, ht1, hq1⟩ := (hP f1).1 hE1
    obtain ⟨ha1, hb1⟩ := hasNode_of_sideKey hq1
    obtain ⟨fsA', nsA', FA', nA, lA⟩ := FA.align ht1 ha1 hb1 (Ne.symm hab)
    obtain ⟨fsB', nsB', FB', nB, lB⟩ := FB.align ht1 hb1 ha1 hab
    have nA0 : fanN fsA' nsA' 0 = e.n2 := by rw [fanN_lt FA'.pos]; exact nA
    have nB0 : fanN fsB' nsB' 0 = e.n1 := by rw [fanN_lt FB'.pos]; exact nB
    have fA0 : fanF fsA' 0 = f1 := by rw [fanF_zero FA'.pos]; exact lA
    have fB0 : fanF fsB' 0 = f1 := by rw [fanF_zero FB'.pos]; exact lB
    -- the second face is the first face of each aligned fan
    have fA1 : f2 = fanF fsA' 1 := by
      have := (FA'.toF.side FA'.pos f2).1 (by rw [nA0]; exact (hP f2).1 hE2)
      rcases this with h | h
      · rw [fA0] at h; exact absurd h.symm hf12
      · exact h
    have fB1 : f2 = fanF fsB' 1 := by
      have := (FB'.toF.side FB'.pos f2).1 (by rw [nB0, Edge.keyOf_comm]; exact (hP f2).1 hE2)
      rcases this with h | h
      · rw [fB0] at h; exact absurd h.symm hf12
      · exact h
    exact ⟨_, _, _, _, _, _, hI, FA'.toF, FB'.toF, FA'.pos, FB'.pos, nA0, nB0, by rw [fA0]; exact he1,
      by rw [← fA1]; exact he2, by rw [fB0]; exact he1, by rw [← fB1]; exact he2⟩

/-- **`can_be_merged` answers `true` exactly for the edges that satisfy the link condition.**  Hypotheses: the index is
    sound and complete; the popped edge `e` names the two faces of its index entry `E` (in either order); both end nodes
    are vertex-manifold; `t1`, `t2` are the triangles that traverse the edge in the two directions; `SortSpecAt`: the two
    neighbour lists sorted by `Array.qsort` inside this call are sorted. -/
theorem merge_guard_iff {c : Cell R} {e E : Edge} (hI : EdgeIdxComplete c)
    (hentry : getEdge c e.n1 e.n2 = some E)
    (hord : (E.f1 = e.f1 ∧ E.f2 = e.f2) ∨ (E.f1 = e.f2 ∧ E.f2 = e.f1))
    (mA : VertexManifold c e.n1) (mB : VertexManifold c e.n2) (hs : SortSpecAt c e) {t1 t2 : Tri}
    (h1 : findDir (abs c) e.n1 e.n2 = some t1) (h2 : findDir (abs c) e.n2 e.n1 = some t2) :
    canBeMerged c e = .ok true ↔ LinkCond (abs c) e.n1 e.n2 (opp t1 e.n1 e.n2) (opp t2 e.n2 e.n1) := by
  obtain ⟨kA, kB, FA, NA, FB, NB, G⟩ := guardFans_of_manifold hI hentry hord mA mB
  exact G.guard_iff hs h1 h2

/-- soundness of the guard -/
theorem canBeMerged_sound {c : Cell R} {e E : Edge} (hI : EdgeIdxComplete c)
    (hentry : getEdge c e.n1 e.n2 = some E)
    (hord : (E.f1 = e.f1 ∧ E.f2 = e.f2) ∨ (E.f1 = e.f2 ∧ E.f2 = e.f1))
    (mA : VertexManifold c e.n1) (mB : VertexManifold c e.n2) (hs : SortSpecAt c e) {t1 t2 : Tri}
    (h1 : findDir (abs c) e.n1 e.n2 = some t1) (h2 : findDir (abs c) e.n2 e.n1 = some t2)
    (h : canBeMerged c e = .ok true) : LinkCond (abs c) e.n1 e.n2 (opp t1 e.n1 e.n2) (opp t2 e.n2 e.n1) :=
  (merge_guard_iff hI hentry hord mA mB hs h1 h2).1 h

/-- `can_be_merged` is defined (returns `.ok`, never `fuel` / `badopt` / `ub`) under the same hypotheses -/
theorem canBeMerged_defined {c : Cell R} {e E : Edge} (hI : EdgeIdxComplete c)
    (hentry : getEdge c e.n1 e.n2 = some E)
    (hord : (E.f1 = e.f1 ∧ E.f2 = e.f2) ∨ (E.f1 = e.f2 ∧ E.f2 = e.f1))
    (mA : VertexManifold c e.n1) (mB : VertexManifold c e.n2) : ∃ r, canBeMerged c e = .ok r := by
  obtain ⟨kA, kB, FA, NA, FB, NB, G⟩ := guardFans_of_manifold hI hentry hord mA mB
  exact ⟨_, G.canBeMerged_eq⟩

/-- under the surface invariant the two triangles that traverse the edge in the two directions exist — the `findDir`
    hypotheses of `merge_guard_iff` are not restrictive -/
theorem GuardFans.findDirs {c : Cell R} {e : Edge} {kA kB : Nat} {FA NA FB NB : Nat → Nat}
    (G : GuardFans c e kA kB FA NA FB NB) (hInv : Inv (abs c)) :
    ∃ t1 t2, findDir (abs c) e.n1 e.n2 = some t1 ∧ findDir (abs c) e.n2 e.n1 = some t2 := by
  obtain ⟨u, hu, hU⟩ := G.fanB.tri 0 G.kB0
  obtain ⟨w, x, hw, hW⟩ := G.fanB.tri_prev G.kB0
  rw [G.nB0] at hU hW
  have hab : e.n1 ≠ e.n2 := by rw [← G.nB0]; exact G.fanB.N_ne G.kB0
  have hT0 := absM_two_slots (G.fanB.F_succ_ne G.kB0) hw hu
  rcases edge_dirs hInv hT0 hab hW.2.2.2.2.2 hW.2.2.2.1 hU.2.2.2.2.1 hU.2.2.2.1 with ⟨d1, d2⟩ | ⟨d1, d2⟩
  · obtain ⟨F1, F2⟩ := find_of_decomp hInv.simple hT0 d1 d2
    exact ⟨_, _, F1, F2⟩
  · obtain ⟨F1, F2⟩ := find_of_decomp hInv.simple (hT0.trans (Multiset.cons_swap _ _ _)) d2 d1
    exact ⟨_, _, F1, F2⟩

/-- **the collapse as `refine_mesh` performs it**: the guard `can_be_merged` answered `true`, then `merge_edge` returned.
    The link condition is no longer a hypothesis — it is what the guard established. -/
theorem mergeEdge_executed {fn : Fn R} {k : SplitConsts R} {c c' : Cell R} {e E : Edge} {chk chk' : CheckSet}
    (hg : canBeMerged c e = .ok true) (h : mergeEdge fn k c e chk = .ok (c', chk'))
    (hI : EdgeIdxComplete c) (hf : FaceFreeOk c) (hentry : getEdge c e.n1 e.n2 = some E)
    (hord : (E.f1 = e.f1 ∧ E.f2 = e.f2) ∨ (E.f1 = e.f2 ∧ E.f2 = e.f1))
    (mA : VertexManifold c e.n1) (mB : VertexManifold c e.n2)
    (hfresh : Fresh (abs c) (newSlot c)) (hInv : Inv (abs c)) (hs : SortSpecAt c e) :
    abs c' = collapseT (abs c) e.n1 e.n2 (newSlot c) ∧ Inv (abs c') ∧ FaceFreeOk c' ∧ EdgeIdxComplete c' := by
  obtain ⟨kA, kB, FA, NA, FB, NB, G⟩ := guardFans_of_manifold hI hentry hord mA mB
  obtain ⟨t1, t2, h1, h2⟩ := G.findDirs hInv
  have hl := (G.guard_iff hs h1 h2).1 hg
  exact mergeEdge_of_manifold h hI hf hentry hord mA mB hfresh hInv h1 h2 hl

end

end Simu.Remesh

#print axioms Simu.Remesh.merge_guard_iff
#print axioms Simu.Remesh.canBeMerged_defined
#print axioms Simu.Remesh.mergeEdge_executed
