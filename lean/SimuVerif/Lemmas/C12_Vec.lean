import SimuVerif.Model.Geometry
import SimuVerif.Lemmas.Field
import Mathlib.Tactic.LinearCombination
import Mathlib.Tactic.NormNum
import Mathlib.Algebra.BigOperators.Group.List.Basic
/-
  C12 — vector-level lemmas: the 3×3 determinant of the two 6-term formulas, its behaviour under
  translation / scaling / linear isometries, folds as sums.
-/
set_option linter.unusedSectionVars false
namespace Simu.Geo
open Simu Simu.Gen.Geometry
variable {R : Type} [Field R] [LinearOrder R] [IsStrictOrderedRing R]

/-- `==` on doubles, read in a field -/
instance (priority := 50) fieldSEq : SEq R := ⟨fun a b => decide (a = b)⟩
theorem seq_iff (a b : R) : seq a b = true ↔ a = b := by simp [seq]

theorem sabs_eq_abs (x : R) : sabs x = |x| := by
  unfold sabs; simp only [lit_zero]
  split_ifs with h
  · exact (abs_of_neg h).symm
  · exact (abs_of_nonneg (not_lt.mp h)).symm

/-- the determinant with rows `a b c` — the scalar triple product a·(b×c) -/
def det3 (a b c : V3 R) : R :=
  a.x * b.y * c.z - a.x * c.y * b.z - b.x * a.y * c.z + b.x * c.y * a.z + c.x * a.y * b.z - c.x * b.y * a.z

/-- contribution of the triangle `t` -/
def tdet (pos : Nat → V3 R) (t : Tri) : R := det3 (pos t.1) (pos t.2.1) (pos t.2.2)

theorem det3_eq_dot_cross (a b c : V3 R) : det3 a b c = V3.dot a (V3.cross b c) := by
  simp only [det3, V3.dot_def, V3.cross_def]; ring

/-- a·(b×c) = a·((b−a)×(c−a)): the contribution of a face is its first node dotted with the
    (unnormalised) face normal -/
theorem det3_eq_dot_normal (a b c : V3 R) : det3 a b c = V3.dot a (V3.cross (b - a) (c - a)) := by
  simp only [det3, V3.dot_def, V3.cross_def, V3.sub_x, V3.sub_y, V3.sub_z]; ring

theorem det3_swap23 (a b c : V3 R) : det3 a c b = - det3 a b c := by simp only [det3]; ring
theorem det3_swap13 (a b c : V3 R) : det3 c b a = - det3 a b c := by simp only [det3]; ring
theorem det3_swap12 (a b c : V3 R) : det3 b a c = - det3 a b c := by simp only [det3]; ring
theorem det3_cyc (a b c : V3 R) : det3 b c a = det3 a b c := by simp only [det3]; ring

/-- the antisymmetric edge term of a translation -/
def edgeTerm (t a b : V3 R) : R := V3.dot t (V3.cross a b)
theorem edgeTerm_antisymm (t a b : V3 R) : edgeTerm t b a = - edgeTerm t a b := by
  simp only [edgeTerm, V3.dot_def, V3.cross_def]; ring

theorem det3_translate (a b c t : V3 R) :
    det3 (a + t) (b + t) (c + t) = det3 a b c + (edgeTerm t a b + edgeTerm t b c + edgeTerm t c a) := by
  simp only [det3, edgeTerm, V3.dot_def, V3.cross_def, V3.add_x, V3.add_y, V3.add_z]; ring

theorem det3_smul (a b c : V3 R) (s : R) : det3 (a * s) (b * s) (c * s) = s * s * s * det3 a b c := by
  simp only [det3, V3.smul_x, V3.smul_y, V3.smul_z]; ring

/-! ### folds as sums -/

theorem foldl_add_sum {α : Type} (f : α → R) (l : List α) (a : R) :
    l.foldl (fun s t => s + f t) a = a + (l.map f).sum := by
  induction l generalizing a with
  | nil => simp
  | cons x xs ih => simp only [List.foldl_cons, List.map_cons, List.sum_cons, ih]; ring

/-- the positions seen from the reference point `o` -/
def rel (pos : Nat → V3 R) (o : V3 R) : Nat → V3 R := fun i => pos i - o

theorem volStep_eq (pos : Nat → V3 R) (o : V3 R) (v : R) (t : Tri) : volStep pos o v t = v + tdet (rel pos o) t := by
  obtain ⟨a, b, c⟩ := t
  simp only [volStep, tdet, det3, rel] <;> ring

theorem svStep_eq (pos : Nat → V3 R) (o : V3 R) (v : R) (t : Tri) : svStep pos o v t = v + tdet (rel pos o) t := by
  obtain ⟨a, b, c⟩ := t
  simp only [svStep, tdet, det3, rel] <;> ring

/-- the loop of `compute_volume`, coordinates relative to `o`: the sum of the determinants of the relative positions -/
theorem volSumAt_eq (pos : Nat → V3 R) (o : V3 R) (T : List Tri) : volSumAt pos o T = (T.map (tdet (rel pos o))).sum := by
  unfold volSumAt
  have : volStep pos o = fun s t => s + tdet (rel pos o) t := by funext s t; exact volStep_eq pos o s t
  rw [this, foldl_add_sum]; simp [volInit]

theorem svSumAt_eq (pos : Nat → V3 R) (o : V3 R) (T : List Tri) : svSumAt pos o T = (T.map (tdet (rel pos o))).sum := by
  unfold svSumAt
  have : svStep pos o = fun s t => s + tdet (rel pos o) t := by funext s t; exact svStep_eq pos o s t
  rw [this, foldl_add_sum]; simp [svInit]

/-- what `compute_volume` sums: the determinants of the positions relative to `get_volume_reference_point()` -/
theorem volSum_eq (pos : Nat → V3 R) (T : List Tri) :
    volSum pos T = (T.map (tdet (rel pos (refPoint pos T)))).sum := by
  unfold volSum volOrigin; exact volSumAt_eq pos _ T

theorem svSum_eq (pos : Nat → V3 R) (T : List Tri) :
    svSum pos T = (T.map (tdet (rel pos (refPoint pos T)))).sum := by
  unfold svSum svOrigin; exact svSumAt_eq pos _ T

theorem volume_eq (pos : Nat → V3 R) (T : List Tri) :
    volume pos T = |(T.map (tdet (rel pos (refPoint pos T)))).sum| / 6 := by
  unfold volume volFinish
  simp only [sabs_eq_abs, volSum_eq]
  rw [abs_div]; congr 1
  simp [lit_eq]

/-- `get_volume_reference_point` on a non-empty face list: the first node of the first face -/
theorem refPoint_cons (pos : Nat → V3 R) (t : Tri) (T : List Tri) : refPoint pos (t :: T) = pos t.1 := by
  simp [refPoint, volRefOfFace]

theorem refPoint_nil (pos : Nat → V3 R) : refPoint pos [] = ⟨0, 0, 0⟩ := by
  simp [refPoint, volRefDefault, lit_eq]

/-- the reference point follows every map of the positions (on the empty list there is nothing to sum) -/
theorem refPoint_map (g : V3 R → V3 R) (pos : Nat → V3 R) (t : Tri) (T : List Tri) :
    refPoint (fun i => g (pos i)) (t :: T) = g (refPoint pos (t :: T)) := by
  rw [refPoint_cons, refPoint_cons]

/-- the reference point only depends on the first face -/
theorem refPoint_mapTri (r : Tri → Tri) (hr : ∀ t, (r t).1 = t.1) (pos : Nat → V3 R) (T : List Tri) :
    refPoint pos (T.map r) = refPoint pos T := by
  cases T with
  | nil => rfl
  | cons t T => rw [List.map_cons, refPoint_cons, refPoint_cons, hr]

/-! ### vectors as an additive group with scalar action (only what is needed) -/

theorem V3.add_assoc' (a b c : V3 R) : a + b + c = a + (b + c) := by apply V3.ext' <;> simp <;> ring
theorem V3.add_comm' (a b : V3 R) : a + b = b + a := by apply V3.ext' <;> simp <;> ring
theorem V3.zero_add' (a : V3 R) : (⟨0, 0, 0⟩ : V3 R) + a = a := by apply V3.ext' <;> simp
theorem V3.add_zero' (a : V3 R) : a + (⟨0, 0, 0⟩ : V3 R) = a := by apply V3.ext' <;> simp
theorem V3.smul_add' (a b : V3 R) (k : R) : (a + b) * k = a * k + b * k := by apply V3.ext' <;> simp <;> ring
theorem V3.smul_smul' (a : V3 R) (k l : R) : a * k * l = a * (k * l) := by apply V3.ext' <;> simp <;> ring
theorem V3.add_smul' (a : V3 R) (k l : R) : a * (k + l) = a * k + a * l := by apply V3.ext' <;> simp <;> ring
theorem V3.smul_one' (a : V3 R) : a * (1 : R) = a := by apply V3.ext' <;> simp
theorem V3.smul_zero' (a : V3 R) : a * (0 : R) = ⟨0, 0, 0⟩ := by apply V3.ext' <;> simp
theorem V3.sdiv_eq_smul (a : V3 R) (k : R) : a / k = a * k⁻¹ := by apply V3.ext' <;> simp [div_eq_mul_inv]
theorem V3.sub_eq_add_neg' (a b : V3 R) : a - b = a + (-b) := by apply V3.ext' <;> simp <;> ring
theorem V3.add_sub_add_right' (a b t : V3 R) : (a + t) - (b + t) = a - b := by apply V3.ext' <;> simp

/-- sum of a list of vectors -/
def vsum : List (V3 R) → V3 R
  | [] => ⟨0, 0, 0⟩
  | v :: vs => v + vsum vs

theorem foldl_add_vsum {α : Type} (f : α → V3 R) (l : List α) (a : V3 R) :
    l.foldl (fun s t => s + f t) a = a + vsum (l.map f) := by
  induction l generalizing a with
  | nil => simp [vsum, V3.add_zero']
  | cons x xs ih => simp only [List.foldl_cons, List.map_cons, vsum, ih, V3.add_assoc']

theorem vsum_x (l : List (V3 R)) : (vsum l).x = (l.map (·.x)).sum := by
  induction l with
  | nil => simp [vsum]
  | cons v vs ih => simp [vsum, ih]
theorem vsum_y (l : List (V3 R)) : (vsum l).y = (l.map (·.y)).sum := by
  induction l with
  | nil => simp [vsum]
  | cons v vs ih => simp [vsum, ih]
theorem vsum_z (l : List (V3 R)) : (vsum l).z = (l.map (·.z)).sum := by
  induction l with
  | nil => simp [vsum]
  | cons v vs ih => simp [vsum, ih]

theorem vsum_perm {l l' : List (V3 R)} (h : l.Perm l') : vsum l = vsum l' := by
  apply V3.ext'
  · rw [vsum_x, vsum_x]; exact (h.map _).sum_eq
  · rw [vsum_y, vsum_y]; exact (h.map _).sum_eq
  · rw [vsum_z, vsum_z]; exact (h.map _).sum_eq

theorem vsum_smul (l : List (V3 R)) (k : R) : vsum (l.map (· * k)) = vsum l * k := by
  induction l with
  | nil => apply V3.ext' <;> simp [vsum]
  | cons v vs ih => simp only [List.map_cons, vsum, ih, V3.smul_add']

theorem vsum_add {α : Type} (f g : α → V3 R) (l : List α) :
    vsum (l.map (fun a => f a + g a)) = vsum (l.map f) + vsum (l.map g) := by
  induction l with
  | nil => simp [vsum, V3.add_zero']
  | cons v vs ih =>
    simp only [List.map_cons, vsum, ih]
    apply V3.ext' <;> simp <;> ring

/-! ### linear isometries, rotations, reflections (own copy for C12) -/

/-- a linear map of 3-space that preserves the dot product (every rotation and reflection) -/
structure LinIso (M : V3 R → V3 R) : Prop where
  map_sub : ∀ x y, M x - M y = M (x - y)
  map_add : ∀ x y, M x + M y = M (x + y)
  map_smul : ∀ x (k : R), M x * k = M (x * k)
  dot_map : ∀ x y, V3.dot (M x) (M y) = V3.dot x y

/-- orientation preserving: commutes with the cross product (det = +1) -/
structure Rot (M : V3 R → V3 R) : Prop extends LinIso M where
  cross_map : ∀ x y, V3.cross (M x) (M y) = M (V3.cross x y)

/-- orientation reversing: anti-commutes with the cross product (det = −1) -/
structure Refl (M : V3 R → V3 R) : Prop extends LinIso M where
  cross_map : ∀ x y, V3.cross (M x) (M y) = -(M (V3.cross x y))

theorem LinIso.map_zero {M : V3 R → V3 R} (h : LinIso M) : M ⟨0, 0, 0⟩ = ⟨0, 0, 0⟩ := by
  have := h.map_smul ⟨0, 0, 0⟩ 0
  rw [V3.smul_zero', V3.smul_zero'] at this; exact this.symm

theorem LinIso.normSq_map {M : V3 R → V3 R} (h : LinIso M) (x : V3 R) : V3.normSq (M x) = V3.normSq x :=
  h.dot_map x x

theorem LinIso.map_sdiv {M : V3 R → V3 R} (h : LinIso M) (x : V3 R) (k : R) : M x / k = M (x / k) := by
  rw [V3.sdiv_eq_smul, V3.sdiv_eq_smul, h.map_smul]

theorem LinIso.map_vsum {M : V3 R → V3 R} (h : LinIso M) (l : List (V3 R)) : vsum (l.map M) = M (vsum l) := by
  induction l with
  | nil => simp [vsum, h.map_zero]
  | cons v vs ih => simp only [List.map_cons, vsum, ih, h.map_add]

/-- |Mu × Mv|² = |u × v|² for every linear isometry (Lagrange) -/
theorem LinIso.normSq_cross {M : V3 R → V3 R} (h : LinIso M) (u v : V3 R) :
    V3.normSq (V3.cross (M u) (M v)) = V3.normSq (V3.cross u v) := by
  rw [V3.lagrange, V3.lagrange, h.normSq_map, h.normSq_map, h.dot_map]

theorem det3_rot {M : V3 R → V3 R} (h : Rot M) (a b c : V3 R) : det3 (M a) (M b) (M c) = det3 a b c := by
  rw [det3_eq_dot_cross, det3_eq_dot_cross, h.cross_map, h.dot_map]

theorem V3.dot_neg_right (a b : V3 R) : V3.dot a (-b) = - V3.dot a b := by
  simp only [V3.dot_def, V3.neg_x, V3.neg_y, V3.neg_z]; ring

theorem det3_refl {M : V3 R → V3 R} (h : Refl M) (a b c : V3 R) : det3 (M a) (M b) (M c) = - det3 a b c := by
  rw [det3_eq_dot_cross, det3_eq_dot_cross, h.cross_map, V3.dot_neg_right, h.dot_map]

/-- the matrix with columns `c1 c2 c3` applied to `v` -/
def colMul (c1 c2 c3 v : V3 R) : V3 R := c1 * v.x + c2 * v.y + c3 * v.z

theorem cross_colMul (c1 c2 c3 x y : V3 R) :
    V3.cross (colMul c1 c2 c3 x) (colMul c1 c2 c3 y)
      = colMul (V3.cross c2 c3) (V3.cross c3 c1) (V3.cross c1 c2) (V3.cross x y) := by
  apply V3.ext' <;> simp [colMul, V3.cross_def] <;> ring

theorem linIso_colMul (c1 c2 c3 : V3 R)
    (h11 : V3.dot c1 c1 = 1) (h22 : V3.dot c2 c2 = 1) (h33 : V3.dot c3 c3 = 1)
    (h12 : V3.dot c1 c2 = 0) (h13 : V3.dot c1 c3 = 0) (h23 : V3.dot c2 c3 = 0) : LinIso (colMul c1 c2 c3) := by
  simp only [V3.dot_def] at h11 h22 h33 h12 h13 h23
  refine ⟨?_, ?_, ?_, ?_⟩
  · intro x y; apply V3.ext' <;> simp [colMul] <;> ring
  · intro x y; apply V3.ext' <;> simp [colMul] <;> ring
  · intro x k; apply V3.ext' <;> simp [colMul] <;> ring
  · intro u v
    simp only [colMul, V3.dot_def, V3.add_x, V3.add_y, V3.add_z, V3.smul_x, V3.smul_y, V3.smul_z]
    linear_combination (u.x * v.x) * h11 + (u.y * v.y) * h22 + (u.z * v.z) * h33
      + (u.x * v.y + u.y * v.x) * h12 + (u.x * v.z + u.z * v.x) * h13 + (u.y * v.z + u.z * v.y) * h23

/-- every rotation matrix: two orthonormal columns and their cross product as third column -/
theorem rot_of_frame (c1 c2 : V3 R) (h11 : V3.dot c1 c1 = 1) (h22 : V3.dot c2 c2 = 1) (h12 : V3.dot c1 c2 = 0) :
    Rot (colMul c1 c2 (V3.cross c1 c2)) := by
  have e1 : V3.cross c2 (V3.cross c1 c2) = c1 := by
    simp only [V3.dot_def] at h11 h22 h12
    apply V3.ext' <;> simp only [V3.cross_def]
    · linear_combination c1.x * h22 - c2.x * h12
    · linear_combination c1.y * h22 - c2.y * h12
    · linear_combination c1.z * h22 - c2.z * h12
  have e2 : V3.cross (V3.cross c1 c2) c1 = c2 := by
    simp only [V3.dot_def] at h11 h22 h12
    apply V3.ext' <;> simp only [V3.cross_def]
    · linear_combination c2.x * h11 - c1.x * h12
    · linear_combination c2.y * h11 - c1.y * h12
    · linear_combination c2.z * h11 - c1.z * h12
  have h33 : V3.dot (V3.cross c1 c2) (V3.cross c1 c2) = 1 := by
    have := V3.lagrange c1 c2
    simp only [V3.normSq] at this
    rw [this, h11, h22, h12]; ring
  have h13 : V3.dot c1 (V3.cross c1 c2) = 0 := by simp only [V3.dot_def, V3.cross_def]; ring
  have h23 : V3.dot c2 (V3.cross c1 c2) = 0 := by simp only [V3.dot_def, V3.cross_def]; ring
  refine { toLinIso := linIso_colMul c1 c2 _ h11 h22 h33 h12 h13 h23, cross_map := ?_ }
  intro x y
  rw [cross_colMul, e1, e2]

/-- a reflection: two orthonormal columns and minus their cross product as third column -/
theorem refl_of_frame (c1 c2 : V3 R) (h11 : V3.dot c1 c1 = 1) (h22 : V3.dot c2 c2 = 1) (h12 : V3.dot c1 c2 = 0) :
    Refl (colMul c1 c2 (-(V3.cross c1 c2))) := by
  have e1 : V3.cross c2 (-(V3.cross c1 c2)) = -c1 := by
    simp only [V3.dot_def] at h11 h22 h12
    apply V3.ext' <;> simp only [V3.cross_def, V3.neg_x, V3.neg_y, V3.neg_z]
    · linear_combination (-c1.x) * h22 + c2.x * h12
    · linear_combination (-c1.y) * h22 + c2.y * h12
    · linear_combination (-c1.z) * h22 + c2.z * h12
  have e2 : V3.cross (-(V3.cross c1 c2)) c1 = -c2 := by
    simp only [V3.dot_def] at h11 h22 h12
    apply V3.ext' <;> simp only [V3.cross_def, V3.neg_x, V3.neg_y, V3.neg_z]
    · linear_combination (-c2.x) * h11 + c1.x * h12
    · linear_combination (-c2.y) * h11 + c1.y * h12
    · linear_combination (-c2.z) * h11 + c1.z * h12
  have h33 : V3.dot (-(V3.cross c1 c2)) (-(V3.cross c1 c2)) = 1 := by
    have := V3.lagrange c1 c2
    simp only [V3.normSq] at this
    have e : V3.dot (-(V3.cross c1 c2)) (-(V3.cross c1 c2)) = V3.dot (V3.cross c1 c2) (V3.cross c1 c2) := by
      simp only [V3.dot_def, V3.neg_x, V3.neg_y, V3.neg_z]; ring
    rw [e, this, h11, h22, h12]; ring
  have h13 : V3.dot c1 (-(V3.cross c1 c2)) = 0 := by
    simp only [V3.dot_def, V3.cross_def, V3.neg_x, V3.neg_y, V3.neg_z]; ring
  have h23 : V3.dot c2 (-(V3.cross c1 c2)) = 0 := by
    simp only [V3.dot_def, V3.cross_def, V3.neg_x, V3.neg_y, V3.neg_z]; ring
  refine { toLinIso := linIso_colMul c1 c2 _ h11 h22 h33 h12 h13 h23, cross_map := ?_ }
  intro x y
  rw [cross_colMul, e1, e2]
  apply V3.ext' <;> simp [colMul, V3.cross_def] <;> ring

end Simu.Geo
