import SimuVerif.Lemmas.Field
import SimuVerif.Gen.Division
import Mathlib.Tactic.LinearCombination
import Mathlib.Tactic.NormNum
/-
  C09 — the numeric stages of the division, in exact arithmetic over an ordered field:
  the rotation built from the quaternion `(1 + p·z, p×z)` of the ORIENTED plane normal `p = planeNormalOf n`
  (`p = ±n`, `p·z ≥ 0`): orthogonality, `M p = z`, the raw construction's degenerate direction `p = −z` and why it is
  never reached, the round trip plane → xy-plane → plane, and the edge–plane intersection.
  All statements are about `Gen.Division.*`, the definitions regenerated from the C++ text.
-/
namespace Simu

/-- `==` on doubles, read over a field: decidable equality -/
instance (priority := 50) fieldDEq {R : Type} [Field R] [LinearOrder R] : DEq R := ⟨fun a b => decide (a = b)⟩

namespace Division
open Simu Gen.Division

section
variable {R : Type} [Field R] [LinearOrder R] [IsStrictOrderedRing R]

@[simp] theorem deq_iff (a b : R) : DEq.deq a b = true ↔ a = b := by simp [DEq.deq]

abbrev M33' (R : Type) := V3 R × V3 R × V3 R

/-- rows of the matrix of a unit quaternion are orthonormal: `M Mᵀ = 1` -/
theorem quat_rows_orthonormal (w i j k : R) (h : w * w + i * i + j * j + k * k = 1) :
    let M := quatToMatrix (w, i, j, k)
    V3.dot M.1 M.1 = 1 ∧ V3.dot M.1 M.2.1 = 0 ∧ V3.dot M.1 M.2.2 = 0 ∧
    V3.dot M.2.1 M.2.1 = 1 ∧ V3.dot M.2.1 M.2.2 = 0 ∧ V3.dot M.2.2 M.2.2 = 1 := by
  simp only [quatToMatrix, V3.dot_def, lit_one, lit_two]
  refine ⟨?_, ?_, ?_, ?_, ?_, ?_⟩
  · linear_combination (4 * j ^ 2 + 4 * k ^ 2) * h
  · linear_combination (-4 * i * j) * h
  · linear_combination (-4 * i * k) * h
  · linear_combination (4 * i ^ 2 + 4 * k ^ 2) * h
  · linear_combination (-4 * j * k) * h
  · linear_combination (4 * i ^ 2 + 4 * j ^ 2) * h

/-- columns of the matrix of a unit quaternion are orthonormal: `Mᵀ M = 1` -/
theorem quat_cols_orthonormal (w i j k : R) (h : w * w + i * i + j * j + k * k = 1) :
    let M := matTranspose (quatToMatrix (w, i, j, k))
    V3.dot M.1 M.1 = 1 ∧ V3.dot M.1 M.2.1 = 0 ∧ V3.dot M.1 M.2.2 = 0 ∧
    V3.dot M.2.1 M.2.1 = 1 ∧ V3.dot M.2.1 M.2.2 = 0 ∧ V3.dot M.2.2 M.2.2 = 1 := by
  simp only [quatToMatrix, matTranspose, V3.dot_def, lit_one, lit_two]
  refine ⟨?_, ?_, ?_, ?_, ?_, ?_⟩
  · linear_combination (4 * j ^ 2 + 4 * k ^ 2) * h
  · linear_combination (-4 * i * j) * h
  · linear_combination (-4 * i * k) * h
  · linear_combination (4 * i ^ 2 + 4 * k ^ 2) * h
  · linear_combination (-4 * j * k) * h
  · linear_combination (4 * i ^ 2 + 4 * j ^ 2) * h

/-- the quaternion built from a unit normal has squared norm `2 (1 + n·z)` -/
theorem quat_normSq (n : V3 R) (hn : V3.normSq n = 1) :
    let q := quatOfNormal n
    q.1 * q.1 + q.2.1 * q.2.1 + q.2.2.1 * q.2.2.1 + q.2.2.2 * q.2.2.2 = 2 * (1 + n.z) := by
  simp only [quatOfNormal, V3.dot_def, V3.cross_def, lit_one, lit_zero]
  simp only [V3.normSq_def] at hn
  linear_combination hn

/-- **the degenerate direction**: the quaternion vanishes exactly when the (unit) normal is `−z` -/
theorem quat_norm_zero_iff (n : V3 R) (hn : V3.normSq n = 1) :
    (let q := quatOfNormal n
     q.1 * q.1 + q.2.1 * q.2.1 + q.2.2.1 * q.2.2.1 + q.2.2.2 * q.2.2.2 = 0) ↔ n = ⟨0, 0, -1⟩ := by
  have hq := quat_normSq n hn
  simp only at hq ⊢
  rw [hq]
  constructor
  · intro h
    have hz : n.z = -1 := by linarith
    simp only [V3.normSq_def] at hn
    have hxy : n.x * n.x + n.y * n.y = 0 := by rw [hz] at hn; linarith
    have hx : n.x = 0 := by
      have := mul_self_nonneg n.x; have := mul_self_nonneg n.y
      exact mul_self_eq_zero.mp (by linarith)
    have hy : n.y = 0 := by
      have := mul_self_nonneg n.x; have := mul_self_nonneg n.y
      exact mul_self_eq_zero.mp (by linarith)
    exact V3.ext' hx hy hz
  · intro h; rw [h]; ring

/-- at `n = −z` the quaternion is `0`: `normalize` divides every component by `sqrt 0` (0/0: NaN in the floating-point
    code, after which `divide_cell` fails cleanly; see DESIGN §7 row 14) -/
theorem quat_degenerate (fn : Fn R) :
    quatOfNormal (⟨0, 0, -1⟩ : V3 R) = (0, 0, 0, 0) ∧
    quatNormalize fn (quatOfNormal (⟨0, 0, -1⟩ : V3 R)) = (0 / fn.sqrt 0, 0 / fn.sqrt 0, 0 / fn.sqrt 0, 0 / fn.sqrt 0) := by
  have h : quatOfNormal (⟨0, 0, -1⟩ : V3 R) = (0, 0, 0, 0) := by
    simp only [quatOfNormal, V3.dot_def, V3.cross_def, lit_one, lit_zero]
    norm_num
  refine ⟨h, ?_⟩
  rw [h]
  simp only [quatNormalize]
  norm_num

/-- **the rotation maps the plane normal to `z`**: for a unit normal other than `−z`, with `sqrt` exact on the squared
    norm of the quaternion -/
theorem quat_maps_normal (fn : Fn R) (n : V3 R) (hn : V3.normSq n = 1) (hne : n ≠ ⟨0, 0, -1⟩)
    (hs : fn.sqrt (2 * (1 + n.z)) * fn.sqrt (2 * (1 + n.z)) = 2 * (1 + n.z)) :
    matDot (quatToMatrix (quatNormalize fn (quatOfNormal n))) n = ⟨0, 0, 1⟩ := by
  have hN := quat_normSq n hn
  have hnz : 2 * (1 + n.z) ≠ 0 := by
    intro h0
    exact hne ((quat_norm_zero_iff n hn).1 (by simp only at hN ⊢; rw [hN]; exact h0))
  set s := fn.sqrt (2 * (1 + n.z)) with hsdef
  have hs0 : s ≠ 0 := by
    intro h0; rw [h0] at hs; exact hnz (by linarith)
  -- r = 1 / s
  have hr : s⁻¹ * s⁻¹ * (2 * (1 + n.z)) = 1 := by
    rw [← hs]; field_simp
  have hnorm : fn.sqrt ((1 + (n.x * 0 + n.y * 0 + n.z * 1)) * (1 + (n.x * 0 + n.y * 0 + n.z * 1)) +
      (n.y * 1 - n.z * 0) * (n.y * 1 - n.z * 0) + (n.z * 0 - n.x * 1) * (n.z * 0 - n.x * 1) +
      (n.x * 0 - n.y * 0) * (n.x * 0 - n.y * 0)) = s := by
    rw [hsdef]; congr 1
    simp only [V3.normSq_def] at hn
    linear_combination hn
  simp only [V3.normSq_def] at hn
  generalize hr' : s⁻¹ = r at hr
  apply V3.ext'
  · simp only [quatOfNormal, quatNormalize, quatToMatrix, matDot, V3.dot_def, V3.cross_def, lit_one, lit_zero, lit_two, hnorm,
      div_eq_mul_inv, hr']
    linear_combination (-n.x) * hr + (-2 * n.x * r ^ 2) * hn
  · simp only [quatOfNormal, quatNormalize, quatToMatrix, matDot, V3.dot_def, V3.cross_def, lit_one, lit_zero, lit_two, hnorm,
      div_eq_mul_inv, hr']
    linear_combination (-n.y) * hr + (-2 * n.y * r ^ 2) * hn
  · simp only [quatOfNormal, quatNormalize, quatToMatrix, matDot, V3.dot_def, V3.cross_def, lit_one, lit_zero, lit_two, hnorm,
      div_eq_mul_inv, hr']
    linear_combination (1 - n.z) * hr + (2 * r ^ 2) * hn

/-! ### the orientation of the plane normal (`plane_normal` of `map_points_to_xy_plane`) -/

omit [IsStrictOrderedRing R] in
/-- the local `plane_normal` is the division normal or its opposite … -/
theorem planeNormalOf_cases (n : V3 R) :
    (n.z < 0 ∧ planeNormalOf n = ⟨-n.x, -n.y, -n.z⟩) ∨ (¬ n.z < 0 ∧ planeNormalOf n = n) := by
  unfold planeNormalOf
  simp only [lit_zero, lit_one]
  by_cases h : n.z < 0
  · left; refine ⟨h, ?_⟩; rw [if_pos h]
    apply V3.ext' <;> simp only [V3.smul_x, V3.smul_y, V3.smul_z] <;> ring
  · right; exact ⟨h, by rw [if_neg h]⟩

/-- … chosen so that its third component is not negative -/
theorem plane_normal_nonneg (n : V3 R) : 0 ≤ (planeNormalOf n).z := by
  rcases planeNormalOf_cases n with ⟨h, e⟩ | ⟨h, e⟩ <;> rw [e]
  · simp only; linarith
  · exact not_lt.mp h

/-- it spans the same plane: `p·x = ±(n·x)`, in particular `p·x = 0 ↔ n·x = 0` … -/
theorem plane_normal_dot (n x : V3 R) :
    V3.dot (planeNormalOf n) x = V3.dot n x ∨ V3.dot (planeNormalOf n) x = -V3.dot n x := by
  rcases planeNormalOf_cases n with ⟨_, e⟩ | ⟨_, e⟩ <;> rw [e]
  · right; simp only [V3.dot_def]; ring
  · left; rfl

theorem plane_normal_same_plane (n x : V3 R) : V3.dot (planeNormalOf n) x = 0 ↔ V3.dot n x = 0 := by
  rcases plane_normal_dot n x with e | e <;> rw [e]
  exact neg_eq_zero

/-- … and has the same length -/
theorem plane_normal_normSq (n : V3 R) : V3.normSq (planeNormalOf n) = V3.normSq n := by
  rcases planeNormalOf_cases n with ⟨_, e⟩ | ⟨_, e⟩ <;> rw [e]
  simp only [V3.normSq_def]; ring

/-- the sign the eigen-solver happened to return does not matter (unless the normal lies IN the xy plane, where both
    orientations have third component 0 and the first one is kept) -/
theorem planeNormalOf_neg (n : V3 R) (hz : n.z ≠ 0) :
    planeNormalOf (⟨-n.x, -n.y, -n.z⟩ : V3 R) = planeNormalOf n := by
  rcases planeNormalOf_cases n with ⟨h, e⟩ | ⟨h, e⟩
  · rcases planeNormalOf_cases (⟨-n.x, -n.y, -n.z⟩ : V3 R) with ⟨h', e'⟩ | ⟨h', e'⟩
    · simp only at h'; exfalso; linarith
    · rw [e, e']
  · have hpos : 0 < n.z := lt_of_le_of_ne (not_lt.mp h) (Ne.symm hz)
    rcases planeNormalOf_cases (⟨-n.x, -n.y, -n.z⟩ : V3 R) with ⟨h', e'⟩ | ⟨h', e'⟩
    · rw [e, e']; apply V3.ext' <;> simp
    · simp only at h'; exfalso; linarith

/-- the degenerate direction of the raw construction is never handed to it -/
theorem plane_normal_ne_minus_z (n : V3 R) : planeNormalOf n ≠ ⟨0, 0, -1⟩ := by
  intro h
  have := plane_normal_nonneg n
  rw [h] at this
  simp only at this
  linarith

/-- **the quaternion is never singular**: for a unit division normal (either sign) the scalar part `w = 1 + p·z` is at
    least 1 and the squared norm `2 (1 + p·z)` at least 2 — `normalize` never divides by `sqrt 0` -/
theorem quat_never_singular (n : V3 R) (hn : V3.normSq n = 1) :
    let q := quatOfNormal (planeNormalOf n)
    1 ≤ q.1 ∧ 2 ≤ q.1 * q.1 + q.2.1 * q.2.1 + q.2.2.1 * q.2.2.1 + q.2.2.2 * q.2.2.2 := by
  have hp : V3.normSq (planeNormalOf n) = 1 := (plane_normal_normSq n).trans hn
  have hN := quat_normSq (planeNormalOf n) hp
  have h0 := plane_normal_nonneg n
  simp only at hN ⊢
  rw [hN]
  refine ⟨?_, by linarith⟩
  simp only [quatOfNormal, V3.dot_def, lit_one, lit_zero]
  linarith

/-- third row of the rotation = the normal it was built from: `(M x).z = p·x` for every `x` (unit `p ≠ −z`, `sqrt` exact
    on the squared norm of the quaternion) -/
theorem quat_third_row (fn : Fn R) (p : V3 R) (hp : V3.normSq p = 1) (hne : p ≠ ⟨0, 0, -1⟩)
    (hs : fn.sqrt (2 * (1 + p.z)) * fn.sqrt (2 * (1 + p.z)) = 2 * (1 + p.z)) (x : V3 R) :
    (matDot (quatToMatrix (quatNormalize fn (quatOfNormal p))) x).z = V3.dot p x := by
  have hN := quat_normSq p hp
  have hnz : 2 * (1 + p.z) ≠ 0 := by
    intro h0
    exact hne ((quat_norm_zero_iff p hp).1 (by simp only at hN ⊢; rw [hN]; exact h0))
  set s := fn.sqrt (2 * (1 + p.z)) with hsdef
  have hs0 : s ≠ 0 := by
    intro h0; rw [h0] at hs; exact hnz (by linarith)
  have hr : s⁻¹ * s⁻¹ * (2 * (1 + p.z)) = 1 := by
    rw [← hs]; field_simp
  have hnorm : fn.sqrt ((1 + (p.x * 0 + p.y * 0 + p.z * 1)) * (1 + (p.x * 0 + p.y * 0 + p.z * 1)) +
      (p.y * 1 - p.z * 0) * (p.y * 1 - p.z * 0) + (p.z * 0 - p.x * 1) * (p.z * 0 - p.x * 1) +
      (p.x * 0 - p.y * 0) * (p.x * 0 - p.y * 0)) = s := by
    rw [hsdef]; congr 1
    simp only [V3.normSq_def] at hp
    linear_combination hp
  simp only [V3.normSq_def] at hp
  generalize hr' : s⁻¹ = r at hr
  simp only [quatOfNormal, quatNormalize, quatToMatrix, matDot, V3.dot_def, V3.cross_def, lit_one, lit_zero, lit_two, hnorm,
    div_eq_mul_inv, hr']
  linear_combination (x.x * p.x + x.y * p.y - x.z * (1 - p.z)) * hr + (-2 * x.z * r ^ 2) * hp

/-- **no guard any more**: for EVERY unit division normal `n` the rotation of `map_points_to_xy_plane` maps the oriented
    normal `p = planeNormalOf n` to `z` … -/
theorem quat_maps_plane_normal (fn : Fn R) (n : V3 R) (hn : V3.normSq n = 1)
    (hs : fn.sqrt (2 * (1 + (planeNormalOf n).z)) * fn.sqrt (2 * (1 + (planeNormalOf n).z)) = 2 * (1 + (planeNormalOf n).z)) :
    matDot (quatToMatrix (quatNormalize fn (quatOfNormal (planeNormalOf n)))) (planeNormalOf n) = ⟨0, 0, 1⟩ :=
  quat_maps_normal fn _ ((plane_normal_normSq n).trans hn) (plane_normal_ne_minus_z n) hs

/-- … hence the division plane `{x : n·x = 0}` into the xy plane -/
theorem quat_maps_plane (fn : Fn R) (n : V3 R) (hn : V3.normSq n = 1)
    (hs : fn.sqrt (2 * (1 + (planeNormalOf n).z)) * fn.sqrt (2 * (1 + (planeNormalOf n).z)) = 2 * (1 + (planeNormalOf n).z))
    (x : V3 R) (hx : V3.dot n x = 0) :
    (matDot (quatToMatrix (quatNormalize fn (quatOfNormal (planeNormalOf n)))) x).z = 0 := by
  rw [quat_third_row fn _ ((plane_normal_normSq n).trans hn) (plane_normal_ne_minus_z n) hs x]
  exact (plane_normal_same_plane n x).2 hx

/-- the shortcut of the code (`z·n == 1.0` ⇒ identity matrix) is taken only for `n = z` -/
theorem identity_case_sound (n : V3 R) (hn : V3.normSq n = 1) (h : isIdentityCase n = true) :
    n = ⟨0, 0, 1⟩ := by
  simp only [isIdentityCase, V3.dot_def, lit_one, lit_zero, decide_eq_true_eq, deq_iff] at h
  have hz : n.z = 1 := by linarith
  simp only [V3.normSq_def] at hn
  have hxy : n.x * n.x + n.y * n.y = 0 := by rw [hz] at hn; linarith
  have hx : n.x = 0 := by
    have := mul_self_nonneg n.x; have := mul_self_nonneg n.y
    exact mul_self_eq_zero.mp (by linarith)
  have hy : n.y = 0 := by
    have := mul_self_nonneg n.x; have := mul_self_nonneg n.y
    exact mul_self_eq_zero.mp (by linarith)
  exact V3.ext' hx hy hz

/-- with the orientation step in front, the shortcut is taken exactly for the two normals of the xy plane -/
theorem identity_case_normal (n : V3 R) (hn : V3.normSq n = 1) (h : isIdentityCase (planeNormalOf n) = true) :
    planeNormalOf n = ⟨0, 0, 1⟩ ∧ (n = ⟨0, 0, 1⟩ ∨ n = ⟨0, 0, -1⟩) := by
  have hp := identity_case_sound (planeNormalOf n) ((plane_normal_normSq n).trans hn) h
  refine ⟨hp, ?_⟩
  rcases planeNormalOf_cases n with ⟨_, e⟩ | ⟨_, e⟩
  · right
    rw [e] at hp
    have hx : -n.x = 0 := congrArg V3.x hp
    have hy : -n.y = 0 := congrArg V3.y hp
    have hz : -n.z = 1 := congrArg V3.z hp
    exact V3.ext' (by simpa using hx) (by simpa using hy) (by simp only; linarith)
  · left; rw [← e]; exact hp

/-- **round trip**: a point whose image has third coordinate `0` (it lies on the division plane) comes back to where
    it was — `map_points_to_division_plane ∘ map_points_to_xy_plane = id` for the rotation of any unit quaternion -/
theorem map_roundtrip (w i j k : R) (h : w * w + i * i + j * j + k * k = 1) (x t : V3 R) :
    let M := quatToMatrix (w, i, j, k)
    let y := matDot M (⟨x.x + t.x, x.y + t.y, x.z + t.z⟩ : V3 R)
    y.z = 0 → mapBackPoint (matTranspose M) t (⟨y.x, y.y, zeroedAfterRotation⟩ : V3 R) = x := by
  intro M y hz
  have hy : (⟨y.x, y.y, zeroedAfterRotation⟩ : V3 R) = y := by
    refine V3.ext' rfl rfl ?_
    simp only [zeroedAfterRotation, lit_zero]; exact hz.symm
  rw [hy]
  simp only [y, M]
  apply V3.ext'
  · simp only [quatToMatrix, matTranspose, matDot, mapBackPoint, V3.sub_x, lit_one, lit_two]
    linear_combination (-4 * i * j * (x.y + t.y) + -4 * i * k * (x.z + t.z) + 4 * j ^ 2 * (x.x + t.x) + 4 * k ^ 2 * (x.x + t.x)) * h
  · simp only [quatToMatrix, matTranspose, matDot, mapBackPoint, V3.sub_y, lit_one, lit_two]
    linear_combination (-4 * i * j * (x.x + t.x) + 4 * i ^ 2 * (x.y + t.y) + -4 * j * k * (x.z + t.z) + 4 * k ^ 2 * (x.y + t.y)) * h
  · simp only [quatToMatrix, matTranspose, matDot, mapBackPoint, V3.sub_z, lit_one, lit_two]
    linear_combination (-4 * i * k * (x.x + t.x) + 4 * i ^ 2 * (x.z + t.z) + -4 * j * k * (x.y + t.y) + 4 * j ^ 2 * (x.z + t.z)) * h

/-! ### edge–plane intersection -/

/-- the point `find_edge_plane_intersection` returns lies on the plane … -/
theorem edge_plane_on_plane {e1 e2 p n q : V3 R} (h : edgePlaneIntersection e1 e2 p n = some q) :
    V3.dot n (q - p) = 0 := by
  unfold edgePlaneIntersection at h
  simp only [deq_iff, lit_zero, lit_one] at h
  split at h
  · cases h
  · rename_i h0
    split at h
    · cases h
    · cases h
      rw [V3.dot_sub_right, V3.dot_add_right, V3.dot_smul_right, div_mul_cancel₀ _ h0, V3.dot_sub_right]
      ring

/-- … and on the edge: `q = e1 + (e2 − e1) t` with `0 ≤ t ≤ 1` -/
theorem edge_plane_on_segment {e1 e2 p n q : V3 R} (h : edgePlaneIntersection e1 e2 p n = some q) :
    ∃ t : R, 0 ≤ t ∧ t ≤ 1 ∧ q = e1 + (e2 - e1) * t := by
  unfold edgePlaneIntersection at h
  simp only [deq_iff, lit_zero, lit_one] at h
  split at h
  · cases h
  · split at h
    · cases h
    · rename_i h1
      cases h
      push Not at h1
      exact ⟨_, h1.1, h1.2, rfl⟩

end
end Division
end Simu
