import SimuVerif.Lemmas.C13_Count
import SimuVerif.Lemmas.C13_Graph
/-
  C13 — a triangulated surface in which every edge is used by exactly two faces, with V − E + F = 2, whose faces are
  joined by a spanning tree of consistently oriented adjacencies, is consistently oriented EVERYWHERE.

  This is the topological core of the soundness of the acceptance gate: the flood fill of
  `check_face_normal_orientation` only makes every face agree with the face it was reached from (a spanning tree of
  the face adjacency graph); that the remaining adjacencies (E − (F−1) = V − 1 edges) are consistent as well is a
  property of surfaces with Euler characteristic 2.  Proof:

   * the inconsistent edges `B` form a subgraph in which every vertex has even degree (at a vertex as many
     half-edges leave as enter; an inconsistent edge contributes two of one kind),
   * `B` avoids the tree edges, so it lives in the graph `C` of the remaining `V − 1` edges,
   * `C` is connected: were a vertex set `K` left only by tree edges, the faces with vertices on both sides would each have
     exactly two such edges, and the one reached last by the tree has only one tree edge towards earlier faces,
   * a connected graph with `V − 1` edges has no non-empty even subgraph (`C13Graph.tree_no_even_subgraph`).
-/
namespace Simu.C13
open Simu.Surface Simu.C13Graph

/-- face number `f` (any triangle when out of range) -/
def face (T : List Tri) (f : Nat) : Tri := T.getD f (0, 0, 0)

theorem face_mem {T : List Tri} {f : Nat} (h : f < T.length) : face T f ∈ T := by
  unfold face; rw [List.getD_eq_getElem?_getD, List.getElem?_eq_getElem h]; exact List.getElem_mem h

theorem face_of_getElem? {T : List Tri} {f : Nat} {t : Tri} (h : T[f]? = some t) : face T f = t ∧ f < T.length := by
  obtain ⟨h1, h2⟩ := List.getElem?_eq_some_iff.mp h
  exact ⟨by unfold face; rw [List.getD_eq_getElem?_getD, h]; rfl, h1⟩

theorem dirs_mem_heM {T : List Tri} {f : Nat} (h : f < T.length) {e : HE} (he : e ∈ dirs (face T f)) : e ∈ heM T :=
  mem_heM.2 ⟨face T f, face_mem h, mem_heTriM.mpr he⟩

/-! ### how many faces contain an edge -/

theorem countP_le_count (T : List Tri) (k : HE) :
    T.countP (fun t => decide (k ∈ keys t)) ≤ ((heM T).map normHE).count k := by
  induction T with
  | nil => simp
  | cons t T ih =>
    rw [heM_cons, Multiset.map_add, Multiset.count_add, List.countP_cons, map_norm_heTriM]
    by_cases h : k ∈ keys t
    · have : 1 ≤ Multiset.count k (keys t : Multiset HE) := Multiset.one_le_count_iff_mem.mpr (by simpa using h)
      simp only [h, decide_true, if_true]; omega
    · simp only [h, decide_false, Bool.false_eq_true, if_false]; omega

theorem card_le_countP (p : Tri → Bool) : ∀ (T : List Tri) (s : Finset Nat),
    (∀ i ∈ s, i < T.length ∧ p (face T i) = true) → s.card ≤ T.countP p := by
  intro T
  induction T with
  | nil =>
    intro s hs
    have : s = ∅ := by
      rw [Finset.eq_empty_iff_forall_notMem]; intro i hi; exact absurd (hs i hi).1 (by simp)
    simp [this]
  | cons t T ih =>
    intro s hs
    have hinj : Set.InjOn (fun i : Nat => i - 1) (s.erase 0 : Set Nat) := by
      intro x hx y hy hxy
      have hx0 : x ≠ 0 := (Finset.mem_erase.mp hx).1
      have hy0 : y ≠ 0 := (Finset.mem_erase.mp hy).1
      simp only at hxy; omega
    have h1 : ((s.erase 0).image (fun i => i - 1)).card ≤ T.countP p := by
      apply ih
      intro j hj
      obtain ⟨i, hi, rfl⟩ := Finset.mem_image.mp hj
      obtain ⟨hi0, his⟩ := Finset.mem_erase.mp hi
      obtain ⟨hl, hp⟩ := hs i his
      have : i = (i - 1) + 1 := by omega
      refine ⟨by simp only [List.length_cons] at hl; omega, ?_⟩
      rw [this] at hp
      simpa [face] using hp
    rw [Finset.card_image_of_injOn hinj] at h1
    rw [List.countP_cons]
    by_cases h0 : 0 ∈ s
    · have hp0 : p t = true := by simpa [face] using (hs 0 h0).2
      rw [Finset.card_erase_of_mem h0] at h1
      simp only [hp0, if_true]
      have : 1 ≤ s.card := Finset.card_pos.mpr ⟨0, h0⟩
      omega
    · rw [Finset.erase_eq_of_notMem h0] at h1
      split_ifs <;> omega

/-- an edge of an `EdgeTwo` surface cannot belong to three different faces -/
theorem three_faces {T : List Tri} (h2 : EdgeTwo T) (k : HE) {f g h : Nat}
    (hf : f < T.length) (hg : g < T.length) (hh : h < T.length)
    (kf : k ∈ keys (face T f)) (kg : k ∈ keys (face T g)) (kh : k ∈ keys (face T h)) :
    f = g ∨ f = h ∨ g = h := by
  by_contra hne
  push Not at hne
  obtain ⟨h1, h2', h3⟩ := hne
  have hc : ({f, g, h} : Finset Nat).card ≤ T.countP (fun t => decide (k ∈ keys t)) := by
    apply card_le_countP
    intro i hi
    simp only [Finset.mem_insert, Finset.mem_singleton] at hi
    rcases hi with rfl | rfl | rfl
    · exact ⟨hf, by simpa using kf⟩
    · exact ⟨hg, by simpa using kg⟩
    · exact ⟨hh, by simpa using kh⟩
  have h3c : ({f, g, h} : Finset Nat).card = 3 := by
    rw [Finset.card_insert_of_notMem (by simp [h1, h2']), Finset.card_insert_of_notMem (by simp [h3])]; simp
  have := countP_le_count T k
  rcases h2 k with h | h <;> omega

end Simu.C13
