import SimuVerif.Lemmas.C13_Count
import SimuVerif.Lemmas.C13_Graph
import Mathlib.Data.Finset.Max
/-
  C13 — a triangulated surface in which every edge is used by exactly two faces, with V − E + F = 2, whose faces are
  joined by a spanning tree of consistently oriented adjacencies, is consistently oriented EVERYWHERE.

  This is the topological core of the soundness of the acceptance gate: the flood fill of
  `check_face_normal_orientation` only makes every face agree with the face it was reached from (a spanning tree of
  the face adjacency graph); that the remaining adjacencies (E − (F−1) = V − 1 edges) are consistent as well is a
  property of surfaces with Euler characteristic 2.  Proof:

   * the inconsistent edges `B` form a subgraph in which every vertex has even degree (at a vertex as many
     half-edges leave as enter; an inconsistent edge contributes two of one kind),
   * `B` avoids the tree edges, so it lives in the graph `C` of the remaining `V − 1` edges,
   * `C` is connected: were a vertex set `K` left only by tree edges, the faces with vertices on both sides would each have
     exactly two such edges, and the one reached last by the tree has only one tree edge towards earlier faces,
   * a connected graph with `V − 1` edges has no non-empty even subgraph (`C13Graph.tree_no_even_subgraph`).
-/
namespace Simu.C13
open Simu.Surface Simu.C13Graph

/-- face number `f` (any triangle when out of range) -/
def face (T : List Tri) (f : Nat) : Tri := T.getD f (0, 0, 0)

theorem face_mem {T : List Tri} {f : Nat} (h : f < T.length) : face T f ∈ T := by
  unfold face; rw [List.getD_eq_getElem?_getD, List.getElem?_eq_getElem h]; exact List.getElem_mem h

theorem face_of_getElem? {T : List Tri} {f : Nat} {t : Tri} (h : T[f]? = some t) : face T f = t ∧ f < T.length := by
  obtain ⟨h1, h2⟩ := List.getElem?_eq_some_iff.mp h
  exact ⟨by unfold face; rw [List.getD_eq_getElem?_getD, h]; rfl, h1⟩

theorem dirs_mem_heM {T : List Tri} {f : Nat} (h : f < T.length) {e : HE} (he : e ∈ dirs (face T f)) : e ∈ heM T :=
  mem_heM.2 ⟨face T f, face_mem h, mem_heTriM.mpr he⟩

/-! ### how many faces contain an edge -/

theorem countP_le_count (T : List Tri) (k : HE) :
    T.countP (fun t => decide (k ∈ keys t)) ≤ ((heM T).map normHE).count k := by
  induction T with
  | nil => simp
  | cons t T ih =>
    rw [heM_cons, Multiset.map_add, Multiset.count_add, List.countP_cons, map_norm_heTriM]
    by_cases h : k ∈ keys t
    · have : 1 ≤ Multiset.count k (keys t : Multiset HE) := Multiset.one_le_count_iff_mem.mpr (by simpa using h)
      simp only [h, decide_true, if_true]; omega
    · simp only [h, decide_false, Bool.false_eq_true, if_false]; omega

theorem card_le_countP (p : Tri → Bool) : ∀ (T : List Tri) (s : Finset Nat),
    (∀ i ∈ s, i < T.length ∧ p (face T i) = true) → s.card ≤ T.countP p := by
  intro T
  induction T with
  | nil =>
    intro s hs
    have : s = ∅ := by
      rw [Finset.eq_empty_iff_forall_notMem]; intro i hi; exact absurd (hs i hi).1 (by simp)
    simp [this]
  | cons t T ih =>
    intro s hs
    have hinj : Set.InjOn (fun i : Nat => i - 1) (s.erase 0 : Set Nat) := by
      intro x hx y hy hxy
      have hx0 : x ≠ 0 := (Finset.mem_erase.mp hx).1
      have hy0 : y ≠ 0 := (Finset.mem_erase.mp hy).1
      simp only at hxy; omega
    have h1 : ((s.erase 0).image (fun i => i - 1)).card ≤ T.countP p := by
      apply ih
      intro j hj
      obtain ⟨i, hi, rfl⟩ := Finset.mem_image.mp hj
      obtain ⟨hi0, his⟩ := Finset.mem_erase.mp hi
      obtain ⟨hl, hp⟩ := hs i his
      have : i = (i - 1) + 1 := by omega
      refine ⟨by simp only [List.length_cons] at hl; omega, ?_⟩
      rw [this] at hp
      simpa [face] using hp
    rw [Finset.card_image_of_injOn hinj] at h1
    rw [List.countP_cons]
    by_cases h0 : 0 ∈ s
    · have hp0 : p t = true := by simpa [face] using (hs 0 h0).2
      rw [Finset.card_erase_of_mem h0] at h1
      simp only [hp0, if_true]
      have : 1 ≤ s.card := Finset.card_pos.mpr ⟨0, h0⟩
      omega
    · rw [Finset.erase_eq_of_notMem h0] at h1
      split_ifs <;> omega

/-- an edge of an `EdgeTwo` surface cannot belong to three different faces -/
theorem three_faces {T : List Tri} (h2 : EdgeTwo T) (k : HE) {f g h : Nat}
    (hf : f < T.length) (hg : g < T.length) (hh : h < T.length)
    (kf : k ∈ keys (face T f)) (kg : k ∈ keys (face T g)) (kh : k ∈ keys (face T h)) :
    f = g ∨ f = h ∨ g = h := by
  by_contra hne
  push Not at hne
  obtain ⟨h1, h2', h3⟩ := hne
  have hc : ({f, g, h} : Finset Nat).card ≤ T.countP (fun t => decide (k ∈ keys t)) := by
    apply card_le_countP
    intro i hi
    simp only [Finset.mem_insert, Finset.mem_singleton] at hi
    rcases hi with rfl | rfl | rfl
    · exact ⟨hf, by simpa using kf⟩
    · exact ⟨hg, by simpa using kg⟩
    · exact ⟨hh, by simpa using kh⟩
  have h3c : ({f, g, h} : Finset Nat).card = 3 := by
    rw [Finset.card_insert_of_notMem (by simp [h1, h2']), Finset.card_insert_of_notMem (by simp [h3])]; simp
  have := countP_le_count T k
  rcases h2 k with h | h <;> omega

/-! ### the setting -/

/-- the hypotheses: non-degenerate faces, every edge in two face slots, Euler characteristic 2, and a spanning tree of the
    face adjacency graph (root = face 0, `parent`, decreasing `rank`) along which adjacent faces traverse their common edge
    `A f → B f` (in the parent) / `B f → A f` (in the child) in opposite directions -/
structure Tree (T : List Tri) (rank parent A B : Nat → Nat) : Prop where
  nd : NonDeg T
  two : EdgeTwo T
  chi : chiZ T = 2
  par : ∀ f, 0 < f → f < T.length → parent f < T.length ∧ rank (parent f) < rank f
  adj : ∀ f, 0 < f → f < T.length → (A f, B f) ∈ dirs (face T (parent f)) ∧ (B f, A f) ∈ dirs (face T f)

theorem crosses_norm (e : HE) (K : Finset Nat) : Crosses (normHE e) K ↔ Crosses e K := by
  rcases normHE_cases e with h | h <;> rw [h]
  unfold Crosses; simp only; tauto

theorem key_of_dir {t : Tri} {e : HE} (h : e ∈ dirs t) : normHE e ∈ keys t := mem_keys_iff.mpr ⟨e, h, rfl⟩

section main
variable {T : List Tri} {rank parent A B : Nat → Nat}

/-- the tree edge of a non-root face, as an undirected edge -/
def te (A B : Nat → Nat) (f : Nat) : HE := normHE (A f, B f)

theorem te_child (H : Tree T rank parent A B) {f : Nat} (h0 : 0 < f) (hf : f < T.length) :
    te A B f ∈ keys (face T f) := by
  have := key_of_dir (H.adj f h0 hf).2
  rwa [normHE_comm] at this

theorem te_parent (H : Tree T rank parent A B) {f : Nat} (h0 : 0 < f) (hf : f < T.length) :
    te A B f ∈ keys (face T (parent f)) := key_of_dir (H.adj f h0 hf).1

theorem te_inj (H : Tree T rank parent A B) {f g : Nat} (hf0 : 0 < f) (hf : f < T.length) (hg0 : 0 < g) (hg : g < T.length)
    (h : te A B f = te A B g) : f = g := by
  obtain ⟨hpf, hrf⟩ := H.par f hf0 hf
  obtain ⟨hpg, hrg⟩ := H.par g hg0 hg
  have k1 := te_child H hf0 hf
  have k2 := te_parent H hf0 hf
  have k3 := te_child H hg0 hg
  have k4 := te_parent H hg0 hg
  rw [← h] at k3 k4
  rcases three_faces H.two _ hf hpf hg k1 k2 k3 with e | e | e
  · rw [← e] at hrf; omega
  · exact e
  · rcases three_faces H.two _ hf hg hpg k1 k3 k4 with e' | e' | e'
    · exact e'
    · rw [← e', ← e] at hrg; omega
    · rw [← e'] at hrg; omega

theorem cnt_cases (H : Tree T rank parent A B) (a b : Nat) :
    ((heM T).count (a, b) = 0 ∧ (heM T).count (b, a) = 0) ∨ ((heM T).count (a, b) = 1 ∧ (heM T).count (b, a) = 1) ∨
    ((heM T).count (a, b) = 2 ∧ (heM T).count (b, a) = 0) ∨ ((heM T).count (a, b) = 0 ∧ (heM T).count (b, a) = 2) := by
  by_cases hab : a = b
  · subst hab; left; exact ⟨nondeg_no_loop H.nd a, nondeg_no_loop H.nd a⟩
  · rcases edgeTwo_dir H.two hab with h | h <;> omega

/-- the inconsistent edges: both faces traverse them in the same direction -/
noncomputable def bad (T : List Tri) : Finset HE :=
  (edgesF T).filter (fun k => (heM T).count (k.1, k.2) = 2 ∨ (heM T).count (k.2, k.1) = 2)

theorem te_not_bad (H : Tree T rank parent A B) {f : Nat} (h0 : 0 < f) (hf : f < T.length) : te A B f ∉ bad T := by
  obtain ⟨h1, h2⟩ := H.adj f h0 hf
  have m1 : (A f, B f) ∈ heM T := dirs_mem_heM (H.par f h0 hf).1 h1
  have m2 : (B f, A f) ∈ heM T := dirs_mem_heM hf h2
  have c1 := Multiset.one_le_count_iff_mem.mpr m1
  have c2 := Multiset.one_le_count_iff_mem.mpr m2
  have cc := cnt_cases H (A f) (B f)
  intro hb
  unfold bad at hb
  rw [Finset.mem_filter] at hb
  rcases normHE_cases (A f, B f) with h | h <;> (unfold te at hb; rw [h] at hb; simp only at hb; omega)

/-! ### every vertex meets an even number of inconsistent edges -/

theorem bad_even (H : Tree T rank parent A B) (v : Nat) : Even (deg (bad T) v) := by
  classical
  have hverts : ∀ e ∈ heM T, e.1 ∈ vertsF T ∧ e.2 ∈ vertsF T := fun e he => verts_of_mem_heM he
  let S := (vertsF T).filter (fun w => (heM T).count (v, w) = 2 ∨ (heM T).count (w, v) = 2)
  -- the bad edges at v are the images of S
  have himg : (bad T).filter (fun e => Inc e v) = S.image (fun w => normHE (v, w)) := by
    ext k
    simp only [Finset.mem_filter, Finset.mem_image, S, bad]
    constructor
    · rintro ⟨⟨hk, hc⟩, hi⟩
      obtain ⟨e, he, rfl⟩ := mem_edgesF.mp hk
      have hle := normHE_fst_le e
      have hvs : (normHE e).1 ∈ vertsF T ∧ (normHE e).2 ∈ vertsF T := by
        rcases normHE_cases e with h | h <;> rw [h]
        · exact hverts e he
        · exact ⟨(hverts e he).2, (hverts e he).1⟩
      generalize normHE e = k at *
      obtain ⟨x, y⟩ := k
      simp only at hc hle hvs
      rcases hi with h | h
      · simp only at h; subst h
        refine ⟨y, ⟨hvs.2, hc⟩, ?_⟩
        unfold normHE; simp [hle]
      · simp only at h; subst h
        refine ⟨x, ⟨hvs.1, hc.symm⟩, ?_⟩
        rw [normHE_comm]; unfold normHE; simp [hle]
    · rintro ⟨w, ⟨hw, hc⟩, rfl⟩
      have hmem : (v, w) ∈ heM T ∨ (w, v) ∈ heM T := by
        rcases hc with h | h
        · left; exact Multiset.count_pos.mp (by omega)
        · right; exact Multiset.count_pos.mp (by omega)
      refine ⟨⟨?_, ?_⟩, ?_⟩
      · rcases hmem with h | h
        · exact mem_edgesF.mpr ⟨_, h, rfl⟩
        · exact mem_edgesF.mpr ⟨_, h, (normHE_comm w v)⟩
      · rcases normHE_cases (v, w) with h | h <;> rw [h] <;> simp only
        · exact hc
        · exact hc.symm
      · rcases normHE_cases (v, w) with h | h <;> rw [h]
        · left; rfl
        · right; rfl
  have hinj : Set.InjOn (fun w => normHE (v, w)) (S : Set Nat) := by
    intro w _ w' _ h
    simp only at h
    rcases (normHE_eq_iff (v, w) v w').mp h with h | h
    · exact (Prod.mk.inj h).2
    · obtain ⟨h1, h2⟩ := Prod.mk.inj h
      rw [h2, ← h1]
  have hdeg : deg (bad T) v = S.card := by
    unfold deg; rw [himg, Finset.card_image_of_injOn hinj]
  -- S splits into out-out and in-in neighbours, equally many
  let OO := (vertsF T).filter (fun w => (heM T).count (v, w) = 2)
  let II := (vertsF T).filter (fun w => (heM T).count (w, v) = 2)
  have hS : S = OO ∪ II := by
    ext w; simp only [S, OO, II, Finset.mem_filter, Finset.mem_union]; tauto
  have hdisj : Disjoint OO II := by
    rw [Finset.disjoint_left]
    intro w h1 h2
    simp only [OO, II, Finset.mem_filter] at h1 h2
    have := cnt_cases H v w
    omega
  have hsum : ∑ w ∈ vertsF T, (heM T).count (v, w) = ∑ w ∈ vertsF T, (heM T).count (w, v) := by
    rw [sum_count_fst (heM T) (vertsF T) (fun e he => (hverts e he).2), sum_count_snd (heM T) (vertsF T) (fun e he => (hverts e he).1)]
    exact out_eq_in T v
  have h1 : ∀ w ∈ vertsF T, (heM T).count (v, w) = (if (heM T).count (v, w) = 1 then 1 else 0) +
      (if (heM T).count (v, w) = 2 then 1 else 0) + (if (heM T).count (v, w) = 2 then 1 else 0) := by
    intro w _
    have := cnt_cases H v w
    split_ifs <;> omega
  have h2 : ∀ w ∈ vertsF T, (heM T).count (w, v) = (if (heM T).count (v, w) = 1 then 1 else 0) +
      (if (heM T).count (w, v) = 2 then 1 else 0) + (if (heM T).count (w, v) = 2 then 1 else 0) := by
    intro w _
    have := cnt_cases H v w
    split_ifs <;> omega
  have e1 : ∑ w ∈ vertsF T, (heM T).count (v, w) =
      ((vertsF T).filter (fun w => (heM T).count (v, w) = 1)).card + OO.card + OO.card := by
    rw [Finset.sum_congr rfl h1, Finset.sum_add_distrib, Finset.sum_add_distrib, ← Finset.card_filter, ← Finset.card_filter]
  have e2 : ∑ w ∈ vertsF T, (heM T).count (w, v) =
      ((vertsF T).filter (fun w => (heM T).count (v, w) = 1)).card + II.card + II.card := by
    rw [Finset.sum_congr rfl h2, Finset.sum_add_distrib, Finset.sum_add_distrib, ← Finset.card_filter, ← Finset.card_filter]
  have hcard : OO.card = II.card := by omega
  rw [hdeg, hS, Finset.card_union_of_disjoint hdisj, hcard]
  exact ⟨II.card, rfl⟩

/-! ### the edges outside the tree form a connected graph -/

/-- a face is cut by `K` when one of its edges leaves `K` -/
def Mixed (T : List Tri) (K : Finset Nat) (f : Nat) : Prop := ∃ e ∈ dirs (face T f), Crosses e K

theorem not_mixed_side {t : Tri} {K : Finset Nat} (h : ∀ e ∈ dirs t, ¬ Crosses e K) :
    (t.1 ∈ K ↔ t.2.1 ∈ K) ∧ (t.2.1 ∈ K ↔ t.2.2 ∈ K) := by
  have h1 := h (t.1, t.2.1) (by simp [dirs])
  have h2 := h (t.2.1, t.2.2) (by simp [dirs])
  unfold Crosses at h1 h2
  simp only at h1 h2
  constructor <;> tauto

theorem side_of_dir {t : Tri} {K : Finset Nat} (h : ∀ e ∈ dirs t, ¬ Crosses e K) {e : HE} (he : e ∈ dirs t) :
    (e.1 ∈ K ↔ t.1 ∈ K) ∧ (e.2 ∈ K ↔ t.1 ∈ K) := by
  obtain ⟨h1, h2⟩ := not_mixed_side h
  simp only [dirs, List.mem_cons, List.mem_nil_iff, or_false] at he
  rcases he with rfl | rfl | rfl <;> simp only <;> tauto

/-- a cut face has two crossing edges, with different undirected edges -/
theorem two_crossing {t : Tri} (hn : TriND t) {K : Finset Nat} (h : ∃ e ∈ dirs t, Crosses e K) :
    ∃ e1 e2, e1 ∈ dirs t ∧ e2 ∈ dirs t ∧ Crosses e1 K ∧ Crosses e2 K ∧ normHE e1 ≠ normHE e2 := by
  obtain ⟨x, y, z⟩ := t
  obtain ⟨h1, h2, h3⟩ := hn
  simp only at h1 h2 h3
  have n1 : normHE (x, y) ≠ normHE (y, z) := by
    intro hh; rcases (normHE_eq_iff (x, y) y z).mp hh with e | e <;> (simp only [Prod.mk.injEq] at e; omega)
  have n2 : normHE (y, z) ≠ normHE (z, x) := by
    intro hh; rcases (normHE_eq_iff (y, z) z x).mp hh with e | e <;> (simp only [Prod.mk.injEq] at e; omega)
  have n3 : normHE (z, x) ≠ normHE (x, y) := by
    intro hh; rcases (normHE_eq_iff (z, x) x y).mp hh with e | e <;> (simp only [Prod.mk.injEq] at e; omega)
  obtain ⟨e, he, hc⟩ := h
  have m1 : (x, y) ∈ dirs (x, y, z) := by simp [dirs]
  have m2 : (y, z) ∈ dirs (x, y, z) := by simp [dirs]
  have m3 : (z, x) ∈ dirs (x, y, z) := by simp [dirs]
  simp only [dirs, List.mem_cons, List.mem_nil_iff, or_false] at he
  unfold Crosses at hc ⊢
  by_cases hx : x ∈ K <;> by_cases hy : y ∈ K <;> by_cases hz : z ∈ K
  · rcases he with rfl | rfl | rfl <;> simp [hx, hy, hz] at hc
  · exact ⟨(y, z), (z, x), m2, m3, by simp [hy, hz], by simp [hx, hz], n2⟩
  · exact ⟨(x, y), (y, z), m1, m2, by simp [hx, hy], by simp [hy, hz], n1⟩
  · exact ⟨(z, x), (x, y), m3, m1, by simp [hx, hz], by simp [hx, hy], n3⟩
  · exact ⟨(z, x), (x, y), m3, m1, by simp [hx, hz], by simp [hx, hy], n3⟩
  · exact ⟨(x, y), (y, z), m1, m2, by simp [hx, hy], by simp [hy, hz], n1⟩
  · exact ⟨(y, z), (z, x), m2, m3, by simp [hy, hz], by simp [hx, hz], n2⟩
  · rcases he with rfl | rfl | rfl <;> simp [hx, hy, hz] at hc

/-- when no face is cut, every face lies on the side of the root -/
theorem all_on_root_side (H : Tree T rank parent A B) (K : Finset Nat)
    (hno : ∀ f, f < T.length → ∀ e ∈ dirs (face T f), ¬ Crosses e K) :
    ∀ n f, rank f = n → f < T.length → ((face T f).1 ∈ K ↔ (face T 0).1 ∈ K) := by
  intro n
  induction n using Nat.strong_induction_on with
  | _ n ih =>
    intro f hr hf
    by_cases h0 : f = 0
    · subst h0; rfl
    · have hpos : 0 < f := Nat.pos_of_ne_zero h0
      obtain ⟨hp, hrk⟩ := H.par f hpos hf
      obtain ⟨a1, a2⟩ := H.adj f hpos hf
      have s1 := side_of_dir (hno _ hp) a1
      have s2 := side_of_dir (hno _ hf) a2
      have := ih (rank (parent f)) (by omega) (parent f) rfl hp
      simp only at s1 s2
      tauto

theorem exists_mixed (H : Tree T rank parent A B) (K : Finset Nat) (hK : K ⊆ vertsF T) (hne : K.Nonempty)
    (hKV : K ≠ vertsF T) : ∃ f, f < T.length ∧ Mixed T K f := by
  by_contra hcon
  have hno : ∀ f, f < T.length → ∀ e ∈ dirs (face T f), ¬ Crosses e K := by
    intro f hf e he hc
    exact hcon ⟨f, hf, e, he, hc⟩
  have hall := all_on_root_side H K hno
  -- every vertex is on the side of the root
  have hv : ∀ x ∈ vertsF T, (x ∈ K ↔ (face T 0).1 ∈ K) := by
    intro x hx
    obtain ⟨t, ht, hxt⟩ := mem_vertsF.mp hx
    obtain ⟨f, hf, rfl⟩ := List.getElem_of_mem ht
    have hface : face T f = T[f] := (face_of_getElem? (List.getElem?_eq_getElem hf)).1
    have hs := not_mixed_side (hno f hf)
    have := hall _ f rfl hf
    rw [hface] at hs this
    rcases hxt with rfl | rfl | rfl <;> tauto
  by_cases hroot : (face T 0).1 ∈ K
  · apply hKV
    apply Finset.Subset.antisymm hK
    intro x hx; exact (hv x hx).mpr hroot
  · obtain ⟨x, hx⟩ := hne
    exact hroot ((hv x (hK hx)).mp hx)

theorem mixed_of_key {K : Finset Nat} {f : Nat} {k : HE} (hk : k ∈ keys (face T f)) (hc : Crosses k K) : Mixed T K f := by
  obtain ⟨e, he, rfl⟩ := mem_keys_iff.mp hk
  exact ⟨e, he, (crosses_norm e K).mp hc⟩

/-- the graph of the non-tree edges is connected: every proper non-empty vertex set is left by a non-tree edge -/
theorem cotree_connected (H : Tree T rank parent A B) (K : Finset Nat) (hK : K ⊆ vertsF T) (hne : K.Nonempty)
    (hKV : K ≠ vertsF T) :
    ∃ k ∈ edgesF T, (∀ g, 0 < g → g < T.length → te A B g ≠ k) ∧ Crosses k K := by
  classical
  by_contra hcon
  push Not at hcon
  -- the cut face reached last
  obtain ⟨f0, hf0, hm0⟩ := exists_mixed H K hK hne hKV
  let M := (Finset.range T.length).filter (fun f => Mixed T K f)
  have hMne : M.Nonempty := ⟨f0, by simp only [M, Finset.mem_filter, Finset.mem_range]; exact ⟨hf0, hm0⟩⟩
  obtain ⟨f, hfM, hmax⟩ := Finset.exists_max_image M rank hMne
  simp only [M, Finset.mem_filter, Finset.mem_range] at hfM
  obtain ⟨hf, hmix⟩ := hfM
  obtain ⟨e1, e2, m1, m2, c1, c2, hne12⟩ := two_crossing (H.nd _ (face_mem hf)) hmix
  -- each of its two crossing edges is the tree edge of f itself
  have key : ∀ e ∈ dirs (face T f), Crosses e K → 0 < f ∧ te A B f = normHE e := by
    intro e he hc
    have hkE : normHE e ∈ edgesF T := mem_edgesF.mpr ⟨e, dirs_mem_heM hf he, rfl⟩
    have hck : Crosses (normHE e) K := (crosses_norm e K).mpr hc
    have := hcon (normHE e) hkE
    by_cases hte : ∀ g, 0 < g → g < T.length → te A B g ≠ normHE e
    · exact absurd hck (this hte)
    · push Not at hte
      obtain ⟨g, hg0, hg, hgk⟩ := hte
      obtain ⟨hpg, hrg⟩ := H.par g hg0 hg
      have k1 : normHE e ∈ keys (face T f) := key_of_dir he
      have k2 : normHE e ∈ keys (face T g) := hgk ▸ te_child H hg0 hg
      have k3 : normHE e ∈ keys (face T (parent g)) := hgk ▸ te_parent H hg0 hg
      rcases three_faces H.two _ hf hg hpg k1 k2 k3 with e' | e' | e'
      · subst e'; exact ⟨hg0, hgk⟩
      · -- f is the parent of g: g is cut as well and was reached later
        have hgM : g ∈ M := by
          simp only [M, Finset.mem_filter, Finset.mem_range]
          exact ⟨hg, mixed_of_key k2 hck⟩
        have := hmax g hgM
        rw [e'] at this; omega
      · rw [← e'] at hrg; omega
  obtain ⟨_, t1⟩ := key e1 m1 c1
  obtain ⟨_, t2⟩ := key e2 m2 c2
  exact hne12 (t1.symm.trans t2)

/-! ### conclusion -/

theorem bad_empty (H : Tree T rank parent A B) : bad T = ∅ := by
  classical
  let nonroot := (Finset.range T.length).erase 0
  let TE := nonroot.image (te A B)
  let C := edgesF T \ TE
  have hnr : ∀ g, g ∈ nonroot ↔ 0 < g ∧ g < T.length := by
    intro g; simp only [nonroot, Finset.mem_erase, Finset.mem_range]; omega
  have hTEsub : TE ⊆ edgesF T := by
    intro k hk
    obtain ⟨g, hg, rfl⟩ := Finset.mem_image.mp hk
    obtain ⟨g0, gl⟩ := (hnr g).mp hg
    exact mem_edgesF.mpr ⟨_, dirs_mem_heM (H.par g g0 gl).1 (H.adj g g0 gl).1, rfl⟩
  have hTEcard : TE.card = T.length - 1 := by
    have hinj : Set.InjOn (te A B) (nonroot : Set Nat) := by
      intro f hf g hg h
      obtain ⟨f0, fl⟩ := (hnr f).mp hf
      obtain ⟨g0, gl⟩ := (hnr g).mp hg
      exact te_inj H f0 fl g0 gl h
    rw [Finset.card_image_of_injOn hinj]
    by_cases h0 : 0 < T.length
    · rw [Finset.card_erase_of_mem (Finset.mem_range.mpr h0), Finset.card_range]
    · have : T.length = 0 := by omega
      simp [nonroot, this]
  have hCcard : C.card = (edgesF T).card - (T.length - 1) := by
    rw [Finset.card_sdiff_of_subset hTEsub, hTEcard]
  apply tree_no_even_subgraph (vertsF T).card (vertsF T) C (bad T) rfl
  · intro k hk
    obtain ⟨hkE, _⟩ := Finset.mem_sdiff.mp hk
    obtain ⟨e, he, rfl⟩ := mem_edgesF.mp hkE
    obtain ⟨v1, v2⟩ := verts_of_mem_heM he
    obtain ⟨t, ht, het⟩ := mem_heM.1 he
    have hne := dirs_ne (H.nd t ht) (mem_heTriM.mp het)
    rcases normHE_cases e with h | h <;> rw [h]
    · exact ⟨v1, v2, hne⟩
    · exact ⟨v2, v1, fun hh => hne hh.symm⟩
  · have hchi := H.chi
    unfold chiZ at hchi
    have hEle : TE.card ≤ (edgesF T).card := Finset.card_le_card hTEsub
    rw [hCcard]
    omega
  · intro K hK hne hKV
    obtain ⟨k, hkE, hnt, hc⟩ := cotree_connected H K hK hne hKV
    refine ⟨k, Finset.mem_sdiff.mpr ⟨hkE, ?_⟩, hc⟩
    intro hk
    obtain ⟨g, hg, hgk⟩ := Finset.mem_image.mp hk
    obtain ⟨g0, gl⟩ := (hnr g).mp hg
    exact hnt g g0 gl hgk
  · intro k hk
    refine Finset.mem_sdiff.mpr ⟨(Finset.mem_filter.mp hk).1, ?_⟩
    intro hk'
    obtain ⟨g, hg, rfl⟩ := Finset.mem_image.mp hk'
    obtain ⟨g0, gl⟩ := (hnr g).mp hg
    exact te_not_bad H g0 gl hk
  · intro v _; exact bad_even H v

/-- every half-edge occurs once and so does its reverse -/
theorem each_once (H : Tree T rank parent A B) {a b : Nat} (h : (a, b) ∈ heM T) :
    (heM T).count (a, b) = 1 ∧ (heM T).count (b, a) = 1 := by
  have hb := bad_empty H
  have hk : normHE (a, b) ∈ edgesF T := mem_edgesF.mpr ⟨_, h, rfl⟩
  have hnb : normHE (a, b) ∉ bad T := by rw [hb]; simp
  unfold bad at hnb
  rw [Finset.mem_filter] at hnb
  push Not at hnb
  have h2 := hnb hk
  have c1 := Multiset.one_le_count_iff_mem.mpr h
  have cc := cnt_cases H a b
  rcases normHE_cases (a, b) with e | e <;> (rw [e] at h2; simp only at h2; omega)

/-- **the surface is consistently oriented everywhere**: closed and simple -/
theorem sphere_oriented (H : Tree T rank parent A B) : Closed T ∧ Simple T := by
  constructor
  · rw [closed_iff_count]
    intro x y
    by_cases h : (x, y) ∈ heM T
    · obtain ⟨h1, h2⟩ := each_once H h; rw [h1, h2]
    · by_cases h' : (y, x) ∈ heM T
      · obtain ⟨h1, h2⟩ := each_once H h'
        exact absurd (Multiset.count_pos.mp (by omega)) h
      · rw [Multiset.count_eq_zero.mpr h, Multiset.count_eq_zero.mpr h']
  · unfold Simple
    rw [Multiset.nodup_iff_count_le_one]
    rintro ⟨a, b⟩
    by_cases h : (a, b) ∈ heM T
    · exact (each_once H h).1.le
    · rw [Multiset.count_eq_zero.mpr h]; omega

end main

end Simu.C13
