import SimuVerif.Lemmas.C02_Mesh
/-
  C02 — the force field moves rigidly with the cell: every generated body commutes with
  translations of all its position arguments (and ignores them) and with rotations (`Rot`).
-/
set_option linter.unusedSimpArgs false
set_option linter.unusedSectionVars false
namespace Simu.Forces
open Simu Simu.Gen.Forces
variable {R : Type} [Field R] [LinearOrder R] [IsStrictOrderedRing R]

/-! ### translation -/

theorem tr_sub (a b t : V3 R) : (a + t) - (b + t) = a - b := add_sub_add_right_eq_sub a b t

theorem faceNormalArea_tr (fx : FX R) (a b c t : V3 R) :
    faceNormalArea fx (a + t) (b + t) (c + t) = faceNormalArea fx a b c := by
  simp only [faceNormalArea, tr_sub]

theorem tensionFace_tr (fx : FX R) (a b c n t : V3 R) (A γ aem area At : R) :
    tensionFace fx (a + t) (b + t) (c + t) n A γ aem area At = tensionFace fx a b c n A γ aem area At := by
  simp only [tensionFace, tr_sub]

theorem angleGradient_tr (fx : FX R) (i j k t : V3 R) :
    angleGradient fx (i + t) (j + t) (k + t) = angleGradient fx i j k := by
  have e1 : ∀ (u v w s : R), (2 : R) * (u + s) - (v + s) - (w + s) = 2 * u - v - w := by intros; ring
  have e2 : ∀ (u v s : R), -(u + s) + (v + s) = -u + v := by intros; ring
  simp only [angleGradient, lit_two, tr_sub, V3.add_x, V3.add_y, V3.add_z, e1, e2]

theorem angleFace_tr (fx : FX R) (a b c t : V3 R) (angf : R) :
    angleFace fx (a + t) (b + t) (c + t) angf = angleFace fx a b c angf := by
  simp only [angleFace, tr_sub, angleGradient_tr]

theorem bendingHinge_tr (fx : FX R) (p1 p2 p3 p4 n1 n2 t : V3 R) (a1 a2 kb1 kb2 : R) :
    bendingHinge fx (p1 + t) (p2 + t) (p3 + t) (p4 + t) n1 n2 a1 a2 kb1 kb2
      = bendingHinge fx p1 p2 p3 p4 n1 n2 a1 a2 kb1 kb2 := by
  simp only [bendingHinge, tr_sub]

theorem volTerm_tr (a b c t : V3 R) :
    volTerm 0 (a + t) (b + t) (c + t)
      = volTerm 0 a b c + V3.dot (V3.cross a b + V3.cross b c + V3.cross c a) t := by
  simp only [volTerm_zero]; v3c; ring

/-- moving the three nodes AND the reference point together leaves the generated face term unchanged -/
theorem volTerm_tr_all (o a b c t : V3 R) : volTerm (o + t) (a + t) (b + t) (c + t) = volTerm o a b c := by
  simp only [volTerm_eq, tr_sub]

theorem sum_map_add_scalar {α : Type} (L : List α) (u v : α → R) :
    (L.map (fun a => u a + v a)).sum = (L.map u).sum + (L.map v).sum := by
  induction L with
  | nil => simp
  | cons a t ih => simp only [List.map_cons, List.sum_cons, ih]; ring

/-- twice the vector area Σ_faces (p₁×p₂ + p₂×p₃ + p₃×p₁) of the surface -/
def vecArea2 (x : Nat → V3 R) (F : List Face) : V3 R :=
  (F.map (fun f => V3.cross (x f.a) (x f.b) + V3.cross (x f.b) (x f.c) + V3.cross (x f.c) (x f.a))).sum

/-- the vector area of a closed surface vanishes, wherever its nodes are -/
theorem vecArea2_closed (x : Nat → V3 R) (F : List Face) (hc : Closed F) : vecArea2 x F = 0 :=
  closed_vsum_zero F hc (fun i j => V3.cross (x i) (x j)) (fun i j => by v3ext <;> ring)

/-- EVERY surface: translating by `t` changes the un-centred sum by (vector area)·t -/
theorem signedVol6_shift (x : Nat → V3 R) (F : List Face) (t : V3 R) :
    signedVol6 (fun i => x i + t) F = signedVol6 x F + V3.dot (vecArea2 x F) t := by
  unfold signedVol6 vecArea2
  simp only [volTerm_tr]
  rw [sum_map_add_scalar,
    V3.sum_map_dot_right (v := fun f : Face => V3.cross (x f.a) (x f.b) + V3.cross (x f.b) (x f.c) + V3.cross (x f.c) (x f.a))]

/-- the signed volume of a closed surface does not depend on where the surface is -/
theorem signedVol6_tr (x : Nat → V3 R) (F : List Face) (hc : Closed F) (t : V3 R) :
    signedVol6 (fun i => x i + t) F = signedVol6 x F := by
  rw [signedVol6_shift, vecArea2_closed x F hc, V3.dot_zero_left, add_zero]

/-- EVERY surface: the sum `compute_volume` accumulates is the un-centred sum minus (reference point)·(vector area) -/
theorem centredVol6_general (x : Nat → V3 R) (F : List Face) :
    centredVol6 x F = signedVol6 x F - V3.dot (vecArea2 x F) (volRefPoint x F) := by
  unfold centredVol6
  have h : (fun i => x i - volRefPoint x F) = fun i => x i + (-(volRefPoint x F)) := by
    funext i; exact sub_eq_add_neg _ _
  rw [h, signedVol6_shift]
  have : V3.dot (vecArea2 x F) (-(volRefPoint x F)) = - V3.dot (vecArea2 x F) (volRefPoint x F) := by v3c; ring
  rw [this]; ring

/-- closed surfaces: the centred sum is the un-centred one, whatever the reference node is -/
theorem centredVol6_closed (x : Nat → V3 R) (F : List Face) (hc : Closed F) : centredVol6 x F = signedVol6 x F := by
  rw [centredVol6_general, vecArea2_closed x F hc, V3.dot_zero_left, sub_zero]

theorem volRefPoint_tr (x : Nat → V3 R) (f : Face) (F : List Face) (t : V3 R) :
    volRefPoint (fun i => x i + t) (f :: F) = volRefPoint x (f :: F) + t := by
  rw [volRefPoint_cons, volRefPoint_cons]

/-- EVERY surface, closed or not: the volume `compute_volume` returns does not depend on where the surface is
    (the reference node moves along) -/
theorem cellVol6_tr (x : Nat → V3 R) (F : List Face) (t : V3 R) : cellVol6 (fun i => x i + t) F = cellVol6 x F := by
  cases F with
  | nil => rfl
  | cons f F =>
    unfold cellVol6 cellVol6At volOrigin
    rw [volRefPoint_tr]
    simp only [volTerm_tr_all]

theorem cellVolume_tr (x : Nat → V3 R) (F : List Face) (t : V3 R) :
    cellVolume (fun i => x i + t) F = cellVolume x F := by
  unfold cellVolume; rw [cellVol6_tr]

theorem faceGeom_tr (fx : FX R) (x : Nat → V3 R) (t : V3 R) (f : Face) :
    faceGeom fx (fun i => x i + t) f = faceGeom fx x f := by
  simp only [faceGeom, faceNormalArea_tr]

/-- EVERY face list (closed or not): the scalars of the cell do not depend on where it is -/
theorem prelude_tr_exact (fx : FX R) (x : Nat → V3 R) (F : List Face) (p : Params R) (t : V3 R) :
    prelude fx (fun i => x i + t) F p = prelude fx x F p := by
  have hv : cellVolume (fun i => x i + t) F = cellVolume x F := cellVolume_tr x F t
  have ha : cellArea fx (fun i => x i + t) F = cellArea fx x F := by
    unfold cellArea; simp only [faceGeom_tr]
  simp only [prelude, hv, ha]

theorem prelude_tr (fx : FX R) (x : Nat → V3 R) (F : List Face) (p : Params R) (hc : Closed F) (t : V3 R) :
    prelude fx (fun i => x i + t) F p = prelude fx x F p := prelude_tr_exact fx x F p t

/-- translating the cell leaves every force unchanged — EVERY face list, closed or not -/
theorem internalContribs_tr_exact (fx : FX R) (x : Nat → V3 R) (F : List Face) (p : Params R) (t : V3 R) :
    internalContribs fx (fun i => x i + t) F p = internalContribs fx x F p := by
  simp only [internalContribs, prelude_tr_exact fx x F p t, pressureContribs, tensionContribs, bendingContribs,
    bendingContribsOf, angleContribs, faceGeom_tr, tensionFace_tr, angleFace_tr, bendingHinge_tr]

/-- translating the cell leaves every force unchanged -/
theorem internalContribs_tr (fx : FX R) (x : Nat → V3 R) (F : List Face) (p : Params R) (hc : Closed F) (t : V3 R) :
    internalContribs fx (fun i => x i + t) F p = internalContribs fx x F p := internalContribs_tr_exact fx x F p t


/-! ### rotation -/

/-- `M` applied to each force of a face / of a hinge -/
def map3 (M : V3 R → V3 R) (r : V3 R × V3 R × V3 R) : V3 R × V3 R × V3 R := (M r.1, M r.2.1, M r.2.2)
def map4 (M : V3 R → V3 R) (r : V3 R × V3 R × V3 R × V3 R) : V3 R × V3 R × V3 R × V3 R :=
  (M r.1, M r.2.1, M r.2.2.1, M r.2.2.2)

variable {M : V3 R → V3 R}

theorem _root_.Simu.Rot.map_neg (h : Rot M) (x : V3 R) : -(M x) = M (-x) := by
  have := h.map_sub 0 x
  rw [h.map_zero, zero_sub, zero_sub] at this
  exact this

theorem map3_zero (hM : Rot M) : map3 M ((0 : V3 R), (0 : V3 R), (0 : V3 R)) = (0, 0, 0) := by
  simp only [map3, hM.map_zero]
theorem map4_zero (hM : Rot M) : map4 M ((0 : V3 R), (0 : V3 R), (0 : V3 R), (0 : V3 R)) = (0, 0, 0, 0) := by
  simp only [map4, hM.map_zero]

theorem faceNormalArea_rot (hM : Rot M) (fx : FX R) (a b c : V3 R) :
    faceNormalArea fx (M a) (M b) (M c) = (M (faceNormalArea fx a b c).1, (faceNormalArea fx a b c).2) := by
  simp only [faceNormalArea, hM.map_sub, hM.cross_map, hM.normSq_map, V3.mk_lit_zero]
  split_ifs
  · rw [hM.map_zero]
  · rw [hM.map_sdiv]

theorem pressureFace_rot (hM : Rot M) (n : V3 R) (A P : R) :
    pressureFace (M n) A P = map3 M (pressureFace n A P) := by
  simp only [pressureFace, map3, hM.map_smul, hM.map_sdiv]

theorem tensionFace_rot (hM : Rot M) (fx : FX R) (a b c n : V3 R) (A γ aem area At : R) :
    tensionFace fx (M a) (M b) (M c) (M n) A γ aem area At = map3 M (tensionFace fx a b c n A γ aem area At) := by
  simp only [tensionFace, hM.map_sub, hM.cross_map, hM.map_smul, V3.zero_eq]
  split_ifs
  · rw [map3_zero hM]
  · rfl

theorem angleWithR_rot (hM : Rot M) (fx : FX R) (u v : V3 R) : angleWithR fx (M u) (M v) = angleWithR fx u v := by
  simp only [angleWithR, hM.normSq_map, hM.dot_map]
theorem angleWithL_rot (hM : Rot M) (fx : FX R) (u v : V3 R) : angleWithL fx (M u) (M v) = angleWithL fx u v := by
  simp only [angleWithL, hM.normSq_map, hM.dot_map]

/-- `get_angle_gradient` written with vector operations -/
def angleGradVec (fx : FX R) (i j k : V3 R) : V3 R × V3 R × V3 R :=
  let a := j - i
  let b := k - i
  let d_ab := V3.dot a b
  let d_aa := V3.dot a a
  let d_bb := V3.dot b b
  let norm_a := fx.sqrt d_aa
  let norm_b := fx.sqrt d_bb
  let denominator := fx.sqrt (1 - d_ab * d_ab / (d_aa * d_bb))
  let factor_1 := norm_b * fx.pow d_aa (3 / 2)
  let factor_2 := norm_a * fx.pow d_bb (3 / 2)
  if (((fx.almostEq denominator 0 = true) ∨ (¬ (fx.isFinite denominator = true))) ∨ (fx.almostEq norm_a 0 = true)) ∨ (fx.almostEq norm_b 0 = true) then
    (0, 0, 0)
  else if (fx.almostEq factor_1 0 = true) ∨ (¬ (fx.isFinite factor_1 = true)) then (0, 0, 0)
  else if (fx.almostEq factor_2 0 = true) ∨ (¬ (fx.isFinite factor_2 = true)) then (0, 0, 0)
  else
    ((-(((a + b) * (-1 : R)) / (norm_a * norm_b) + (a * d_ab) / factor_1 + (b * d_ab) / factor_2)) / denominator,
     (-(b / (norm_a * norm_b) - (a * d_ab) / factor_1)) / denominator,
     (-(a / (norm_a * norm_b) - (b * d_ab) / factor_2)) / denominator)

theorem angleGradient_eq_vec (fx : FX R) (i j k : V3 R) : angleGradient fx i j k = angleGradVec fx i j k := by
  simp only [angleGradient, angleGradVec, lit_zero, lit_one, lit_two, lit_three, V3.mk_zero]
  split_ifs <;> first | rfl | (refine Prod.ext ?_ (Prod.ext ?_ ?_) <;> v3ext <;> ring)

theorem angleGradVec_rot (hM : Rot M) (fx : FX R) (i j k : V3 R) :
    angleGradVec fx (M i) (M j) (M k) = map3 M (angleGradVec fx i j k) := by
  simp only [angleGradVec, hM.map_sub, hM.dot_map, hM.map_add, hM.map_smul, hM.map_sdiv]
  split_ifs
  · rw [map3_zero hM]
  · rw [map3_zero hM]
  · rw [map3_zero hM]
  · simp only [map3, hM.map_sub, hM.map_add, hM.map_smul, hM.map_sdiv, hM.map_neg]

theorem rotateAroundAxis_rot (hM : Rot M) (fx : FX R) (e n : V3 R) (θ : R) :
    rotateAroundAxis fx (M e) (M n) θ = M (rotateAroundAxis fx e n θ) := by
  simp only [rotateAroundAxis, hM.map_smul, hM.cross_map, hM.dot_map, hM.map_add]


/-- every scalar is finite (NaN and ±Inf are not modelled in exact arithmetic) -/
def FiniteOK (fx : FX R) : Prop := ∀ y : R, fx.isFinite y = true

theorem angleFace_rot (hM : Rot M) (fx : FX R) (hfin : FiniteOK fx) (a b c : V3 R) (angf : R) :
    angleFace fx (M a) (M b) (M c) angf = map3 M (angleFace fx a b c angf) := by
  have hf : ∀ y : R, fx.isFinite y = true := hfin
  simp only [angleFace, hM.map_sub, angleWithR_rot hM, angleGradient_eq_vec, angleGradVec_rot hM, V3.zero_eq]
  rcases angleGradVec fx a b c with ⟨g1i, g1j, g1k⟩
  rcases angleGradVec fx b a c with ⟨g2i, g2j, g2k⟩
  rcases angleGradVec fx c a b with ⟨g3i, g3j, g3k⟩
  simp only [map3, hf, and_self, if_true]
  split_ifs
  · simp only [hM.map_zero]
  · simp only [hM.map_zero]
  · simp only [hM.map_zero]
  · simp only [hM.map_smul, hM.map_add]

theorem bendingHinge_rot (hM : Rot M) (fx : FX R) (p1 p2 p3 p4 n1 n2 : V3 R) (a1 a2 kb1 kb2 : R) :
    bendingHinge fx (M p1) (M p2) (M p3) (M p4) (M n1) (M n2) a1 a2 kb1 kb2
      = map4 M (bendingHinge fx p1 p2 p3 p4 n1 n2 a1 a2 kb1 kb2) := by
  simp only [bendingHinge, hM.map_sub, hM.map_smul, angleWithL_rot hM, angleWithR_rot hM, hM.dot_map,
    V3.normSq, rotateAroundAxis_rot hM, hM.map_add, V3.zero_eq]
  split_ifs <;> first | rfl | rw [map4_zero hM]

theorem volTerm_rot (hM : Rot M) (o a b c : V3 R) : volTerm (M o) (M a) (M b) (M c) = volTerm o a b c := by
  simp only [volTerm_eq, hM.map_sub, hM.cross_map, hM.dot_map]

/-- EVERY surface: the volume follows rotations (the reference node is rotated along) -/
theorem cellVol6_rot (hM : Rot M) (x : Nat → V3 R) (F : List Face) : cellVol6 (fun i => M (x i)) F = cellVol6 x F := by
  cases F with
  | nil => rfl
  | cons f F =>
    unfold cellVol6 cellVol6At volOrigin
    rw [volRefPoint_cons, volRefPoint_cons]
    simp only [volTerm_rot hM]

theorem faceGeom_rot (hM : Rot M) (fx : FX R) (x : Nat → V3 R) (f : Face) :
    faceGeom fx (fun i => M (x i)) f = (M (faceGeom fx x f).1, (faceGeom fx x f).2) := by
  simp only [faceGeom, faceNormalArea_rot hM]

theorem prelude_rot (hM : Rot M) (fx : FX R) (x : Nat → V3 R) (F : List Face) (p : Params R) :
    prelude fx (fun i => M (x i)) F p = prelude fx x F p := by
  have hv : cellVolume (fun i => M (x i)) F = cellVolume x F := by
    unfold cellVolume; rw [cellVol6_rot hM]
  have ha : cellArea fx (fun i => M (x i)) F = cellArea fx x F := by
    unfold cellArea; simp only [faceGeom_rot hM]
  simp only [prelude, hv, ha]

/-- apply `M` to every force of a list of `add_force` calls -/
def mapContribs (M : V3 R → V3 R) (cs : List (Contrib R)) : List (Contrib R) := cs.map (fun c => (c.1, M c.2))

theorem mapContribs_append (a b : List (Contrib R)) : mapContribs M (a ++ b) = mapContribs M a ++ mapContribs M b := by
  simp [mapContribs]

theorem mapContribs_flatMap {α : Type} (L : List α) (k : α → List (Contrib R)) :
    mapContribs M (L.flatMap k) = L.flatMap (fun a => mapContribs M (k a)) := by
  simp [mapContribs, List.map_flatMap]

/-- rotating the cell rotates every force -/
theorem internalContribs_rot (hM : Rot M) (fx : FX R) (hfin : FiniteOK fx) (x : Nat → V3 R) (F : List Face) (p : Params R) :
    internalContribs fx (fun i => M (x i)) F p = mapContribs M (internalContribs fx x F p) := by
  simp only [internalContribs, prelude_rot hM, mapContribs_append]
  congr 1
  · congr 1
    · congr 1
      · simp only [pressureContribs, mapContribs_flatMap, faceGeom_rot hM, pressureFace_rot hM]
        simp only [mapContribs, map3, List.map_cons, List.map_nil]
      · simp only [tensionContribs, mapContribs_flatMap, faceGeom_rot hM, tensionFace_rot hM]
        simp only [mapContribs, map3, List.map_cons, List.map_nil]
    · unfold bendingContribs bendingContribsOf
      split_ifs
      · rfl
      · simp only [mapContribs_flatMap, faceGeom_rot hM, bendingHinge_rot hM]
        simp only [mapContribs, map4, List.map_cons, List.map_nil]
  · simp only [angleContribs, mapContribs_flatMap, angleFace_rot hM fx hfin]
    simp only [mapContribs, map3, List.map_cons, List.map_nil]

end Simu.Forces
