import SimuVerif.Lemmas.GridFlat
import Mathlib.Data.List.Flatten
/-
  C20 — the container part of the grids: what `place_object`, `get_voxel_content`,
  `get_neighborhood` and `get_grid_content` do to / read from the flat vector of voxels.
  Nothing here needs the field structure of the scalars.
-/
set_option linter.unusedSectionVars false
namespace Simu.Grid
open Simu

variable {R : Type} [Add R] [Sub R] [Mul R] [Div R] [Neg R] [Lit R]
variable {α : Type}

/-- the dimensions are usable: at least one voxel per axis and `resize` was given `nx·ny·nz` -/
structure WF (d : Dims R) : Prop where
  nx_pos : 1 ≤ d.nx
  ny_pos : 1 ≤ d.ny
  nz_pos : 1 ≤ d.nz
  total_eq : d.total = d.nx * d.ny * d.nz

/-! ### what the generated index functions are, in terms of `ax`, `flat`, `nbStart`, `nbEnd`
    (these `rfl`s are where a change of the C++ arithmetic re-opens the proofs) -/

theorem voxelIndex_eq (fn : Fn R) (g : Dims R) (px py pz : R) :
    Gen.voxelIndex fn g px py pz = (ax fn g.min_x g.v g.nx px, ax fn g.min_y g.v g.ny py, ax fn g.min_z g.v g.nz pz) := rfl

theorem voxelId_eq (fn : Fn R) (g : Dims R) (px py pz : R) :
    Gen.voxelId fn g px py pz
      = flat g.nx g.ny (ax fn g.min_x g.v g.nx px) (ax fn g.min_y g.v g.ny py) (ax fn g.min_z g.v g.nz pz) := rfl

theorem voxelId_eq_flatten (fn : Fn R) (g : Dims R) (px py pz : R) :
    Gen.voxelId fn g px py pz
      = Gen.flatten g (Gen.voxelIndex fn g px py pz).1 (Gen.voxelIndex fn g px py pz).2.1 (Gen.voxelIndex fn g px py pz).2.2 := rfl

theorem nbhIndex4_eq (fn : Fn R) (g : Dims R) (px py pz : R) : Gen.nbhIndex4 fn g px py pz = Gen.voxelIndex fn g px py pz := rfl
theorem nbhIndex3_eq (fn : Fn R) (g : Dims R) (px py pz : R) : Gen.nbhIndex3 fn g px py pz = Gen.voxelIndex fn g px py pz := rfl

theorem nbhRange4_eq (g : Dims R) (i j k : Nat) :
    Gen.nbhRange4 g i j k = ((nbStart i, nbStart j, nbStart k), (nbEnd g.nx i, nbEnd g.ny j, nbEnd g.nz k)) := rfl
theorem nbhRange3_eq (g : Dims R) (i j k : Nat) :
    Gen.nbhRange3 g i j k = ((nbStart i, nbStart j, nbStart k), (nbEnd g.nx i, nbEnd g.ny j, nbEnd g.nz k)) := rfl

/-- every position computed by `get_voxel_index(double, double, double)` exists in the flat vector -/
theorem voxelId_lt (fn : Fn R) {d : Dims R} (h : WF d) (px py pz : R) : Gen.voxelId fn d px py pz < d.total := by
  rw [voxelId_eq, h.total_eq]
  exact flat_lt (ax_lt fn _ _ _ h.nx_pos) (ax_lt fn _ _ _ h.ny_pos) (ax_lt fn _ _ _ h.nz_pos)

/-- the block visited around an in-range voxel stays inside the grid -/
theorem nbh_visit_lt {d : Dims R} (h : WF d) {i j k : Nat} (hi : i < d.nx) (hj : j < d.ny) (hk : k < d.nz) {id : Nat}
    (hid : id ∈ visit d (nbStart i, nbStart j, nbStart k) (nbEnd d.nx i, nbEnd d.ny j, nbEnd d.nz k)) : id < d.total := by
  rw [h.total_eq]
  exact visit_lt (nbEnd_le hi) (nbEnd_le hj) (nbEnd_le hk) hid

/-- the voxel of a neighbour (index within one of the query's index on every axis) is visited -/
theorem adjacent_visited {d : Dims R} {i j k a b c : Nat} (hi : i < d.nx) (hj : j < d.ny) (hk : k < d.nz)
    (ha : a < d.nx) (hb : b < d.ny) (hc : c < d.nz)
    (h1 : i ≤ a + 1 ∧ a ≤ i + 1) (h2 : j ≤ b + 1 ∧ b ≤ j + 1) (h3 : k ≤ c + 1 ∧ c ≤ k + 1) :
    flat d.nx d.ny a b c ∈ visit d (nbStart i, nbStart j, nbStart k) (nbEnd d.nx i, nbEnd d.ny j, nbEnd d.nz k) :=
  mem_visit.mpr ⟨a, b, c, nb_window hi ha h1.1 h1.2, nb_window hj hb h2.1 h2.2, nb_window hk hc h3.1 h3.2, rfl⟩

/-! ### lists of voxels -/

theorem range_flatMap_getD (l : List (List α)) : (List.range l.length).flatMap (fun i => l.getD i []) = l.flatten := by
  induction l with
  | nil => simp
  | cons a t ih =>
    rw [List.length_cons, List.range_succ_eq_map, List.flatMap_cons, List.flatMap_map]
    simp only [List.getD_cons_zero, List.getD_cons_succ, List.flatten_cons]
    rw [ih]

theorem range_filterMap_getD (l : List (Option α)) : (List.range l.length).filterMap (fun i => l.getD i none) = l.filterMap id := by
  induction l with
  | nil => simp
  | cons a t ih =>
    rw [List.length_cons, List.range_succ_eq_map, List.filterMap_cons, List.filterMap_map]
    have : ((fun i => (a :: t).getD i none) ∘ Nat.succ) = fun i => t.getD i none := by
      funext i; simp
    rw [this, ih]
    cases a <;> simp

theorem getD_modify_cons (l : List (List α)) (o : α) (id j : Nat) :
    (l.modify id (fun c => o :: c)).getD j [] = if id = j ∧ j < l.length then o :: l.getD j [] else l.getD j [] := by
  simp only [List.getD_eq_getElem?_getD, List.getElem?_modify]
  by_cases hj : j < l.length
  · rw [List.getElem?_eq_getElem hj]
    by_cases e : id = j <;> simp [e, hj]
  · rw [List.getElem?_eq_none (by omega)]
    simp [hj]

theorem flatten_modify_perm (l : List (List α)) (o : α) {id : Nat} (h : id < l.length) :
    (l.modify id (fun c => o :: c)).flatten.Perm (o :: l.flatten) := by
  induction l generalizing id with
  | nil => simp at h
  | cons a t ih =>
    cases id with
    | zero => simp
    | succ n =>
      rw [List.modify_succ_cons, List.flatten_cons, List.flatten_cons]
      have := ih (id := n) (by simpa using h)
      exact (this.append_left a).trans List.perm_middle

/-! ### uspg_4d -/

theorem G4.mem_collect (g : G4 R α) (ids : List Nat) (o : α) :
    o ∈ g.collect ids ↔ ∃ id ∈ ids, o ∈ g.vox.getD id [] := by
  simp [G4.collect, List.mem_flatMap]

theorem G4.collect_perm (g : G4 R α) {l₁ l₂ : List Nat} (h : l₁.Perm l₂) : (g.collect l₁).Perm (g.collect l₂) := by
  unfold G4.collect
  exact (List.reverse_perm _).trans ((h.flatMap_right _).trans (List.reverse_perm _).symm)

/-- `get_grid_content` returns the elements of all voxels of the flat vector: nothing twice, nothing missing -/
theorem G4.all_perm_flatten (g : G4 R α) (h : WF g.dims) (hl : g.vox.length = g.dims.total) :
    g.all.Perm g.vox.flatten := by
  unfold G4.all
  refine (g.collect_perm (visit_all_perm g.dims)).trans ?_
  unfold G4.collect
  rw [← h.total_eq, ← hl, range_flatMap_getD]
  exact List.reverse_perm _

theorem G4.placeAll_dims (fn : Fn R) (g : G4 R α) (ops : List (α × V3 R)) : (G4.placeAll fn g ops).dims = g.dims := by
  induction ops generalizing g with
  | nil => rfl
  | cons op rest ih => obtain ⟨o, p⟩ := op; simp only [G4.placeAll]; rw [ih]; rfl

theorem G4.placeAll_length (fn : Fn R) (g : G4 R α) (ops : List (α × V3 R)) : (G4.placeAll fn g ops).vox.length = g.vox.length := by
  induction ops generalizing g with
  | nil => rfl
  | cons op rest ih => obtain ⟨o, p⟩ := op; simp only [G4.placeAll]; rw [ih]; simp [G4.place, G4.placeAt]

/-- placing never removes anything from any voxel -/
theorem G4.mem_placeAll_of_mem (fn : Fn R) (g : G4 R α) (ops : List (α × V3 R)) {o : α} {id : Nat}
    (h : o ∈ g.vox.getD id []) : o ∈ (G4.placeAll fn g ops).vox.getD id [] := by
  induction ops generalizing g with
  | nil => exact h
  | cons op rest ih =>
    obtain ⟨o', p⟩ := op
    simp only [G4.placeAll]
    apply ih
    simp only [G4.place, G4.placeAt, getD_modify_cons]
    split_ifs
    · exact List.mem_cons_of_mem _ h
    · exact h

/-- an object sits in the voxel it was placed in (write inside the vector) -/
theorem G4.mem_place (fn : Fn R) (g : G4 R α) (o : α) (p : V3 R) (h : Gen.voxelId fn g.dims p.x p.y p.z < g.vox.length) :
    o ∈ (g.place fn o p).vox.getD (Gen.voxelId fn g.dims p.x p.y p.z) [] := by
  show o ∈ (g.vox.modify _ (fun c => o :: c)).getD _ []
  rw [getD_modify_cons, if_pos ⟨rfl, h⟩]
  exact List.mem_cons_self ..

theorem G4.mem_placeAll (fn : Fn R) (g : G4 R α) (hw : WF g.dims) (hl : g.vox.length = g.dims.total) (ops : List (α × V3 R))
    {o : α} {p : V3 R} (h : (o, p) ∈ ops) :
    o ∈ (G4.placeAll fn g ops).vox.getD (Gen.voxelId fn g.dims p.x p.y p.z) [] := by
  induction ops generalizing g with
  | nil => simp at h
  | cons op rest ih =>
    obtain ⟨o', p'⟩ := op
    simp only [G4.placeAll]
    rcases List.mem_cons.mp h with e | e
    · obtain ⟨rfl, rfl⟩ := Prod.mk.inj e
      apply G4.mem_placeAll_of_mem
      exact G4.mem_place fn g o p (by rw [hl]; exact voxelId_lt fn hw _ _ _)
    · exact ih (g.place fn o' p') hw (by simpa [G4.place, G4.placeAt] using hl) e

theorem G4.flatten_placeAll (fn : Fn R) (g : G4 R α) (hw : WF g.dims) (hl : g.vox.length = g.dims.total) (ops : List (α × V3 R)) :
    (G4.placeAll fn g ops).vox.flatten.Perm (ops.map Prod.fst ++ g.vox.flatten) := by
  induction ops generalizing g with
  | nil => simp [G4.placeAll]
  | cons op rest ih =>
    obtain ⟨o, p⟩ := op
    simp only [G4.placeAll, List.map_cons, List.cons_append]
    refine (ih (g.place fn o p) hw (by simpa [G4.place, G4.placeAt] using hl)).trans ?_
    have h1 : (g.place fn o p).vox.flatten.Perm (o :: g.vox.flatten) :=
      flatten_modify_perm g.vox o (by rw [hl]; exact voxelId_lt fn hw _ _ _)
    exact ((h1.append_left _).trans List.perm_middle)

/-! ### uspg_3d -/

theorem G3.mem_collect (g : G3 R α) (ids : List Nat) (o : α) :
    o ∈ g.collect ids ↔ ∃ id ∈ ids, g.vox.getD id none = some o := by
  simp [G3.collect, List.mem_filterMap]

theorem G3.collect_perm (g : G3 R α) {l₁ l₂ : List Nat} (h : l₁.Perm l₂) : (g.collect l₁).Perm (g.collect l₂) := by
  unfold G3.collect
  exact (List.reverse_perm _).trans ((h.filterMap _).trans (List.reverse_perm _).symm)

/-- `get_grid_content` returns the object of every occupied voxel of the flat vector exactly once -/
theorem G3.all_perm_filterMap (g : G3 R α) (h : WF g.dims) (hl : g.vox.length = g.dims.total) :
    g.all.Perm (g.vox.filterMap id) := by
  unfold G3.all
  refine (g.collect_perm (visit_all_perm g.dims)).trans ?_
  unfold G3.collect
  rw [← h.total_eq, ← hl, range_filterMap_getD]
  exact List.reverse_perm _

theorem G3.placeAll_dims (fn : Fn R) (g : G3 R α) (ops : List (α × V3 R)) : (G3.placeAll fn g ops).dims = g.dims := by
  induction ops generalizing g with
  | nil => rfl
  | cons op rest ih => obtain ⟨o, p⟩ := op; simp only [G3.placeAll]; rw [ih]; rfl

theorem G3.placeAll_length (fn : Fn R) (g : G3 R α) (ops : List (α × V3 R)) : (G3.placeAll fn g ops).vox.length = g.vox.length := by
  induction ops generalizing g with
  | nil => rfl
  | cons op rest ih => obtain ⟨o, p⟩ := op; simp only [G3.placeAll]; rw [ih]; simp [G3.place]

theorem G3.getD_place (fn : Fn R) (g : G3 R α) (o : α) (p : V3 R) (j : Nat) :
    (g.place fn o p).vox.getD j none
      = if Gen.voxelId fn g.dims p.x p.y p.z = j ∧ j < g.vox.length then some o else g.vox.getD j none := by
  simp only [G3.place, List.getD_eq_getElem?_getD, List.getElem?_set]
  by_cases e : Gen.voxelId fn g.dims p.x p.y p.z = j
  · by_cases hj : j < g.vox.length
    · simp [e, hj]
    · simp [e, hj]
  · simp [e]

/-- the last placement that went to a voxel, if any -/
def lastAt (fn : Fn R) (d : Dims R) (ops : List (α × V3 R)) (id : Nat) : Option α :=
  (ops.reverse.find? (fun op => Gen.voxelId fn d op.2.x op.2.y op.2.z = id)).map Prod.fst

/-- after any history of placements a voxel of `uspg_3d` holds the object of the last placement that
    went to it, and what it held before if there was none -/
theorem G3.getD_placeAll (fn : Fn R) (g : G3 R α) (ops : List (α × V3 R)) {id : Nat} (hid : id < g.vox.length) :
    (G3.placeAll fn g ops).vox.getD id none = (lastAt fn g.dims ops id).or (g.vox.getD id none) := by
  induction ops generalizing g with
  | nil => simp [G3.placeAll, lastAt]
  | cons op rest ih =>
    obtain ⟨o, p⟩ := op
    simp only [G3.placeAll]
    rw [ih (g.place fn o p) (by simpa [G3.place] using hid)]
    have hd : (g.place fn o p).dims = g.dims := rfl
    rw [hd, G3.getD_place]
    unfold lastAt
    rw [List.reverse_cons, List.find?_append]
    cases hf : List.find? (fun op => decide (Gen.voxelId fn g.dims op.2.x op.2.y op.2.z = id)) rest.reverse with
    | some a => simp
    | none =>
      by_cases e : Gen.voxelId fn g.dims p.x p.y p.z = id
      · simp [e, hid]
      · simp [e]

end Simu.Grid
