import SimuVerif.Lemmas.C11_Remesh
import SimuVerif.Model.RemeshLive
import Mathlib.Tactic.LinearCombination
/-
  C14 — `local_mesh_refiner::refine_mesh` (the executable model `Remesh.refineMesh`) commutes with translations.

  `translateCell t c` shifts the position of every used node slot by `t`.  Every function of `Model/Remesh.lean` that
  reads a position reads it inside a difference of two positions of nodes of one face / one edge, or as the midpoint of
  an edge; so it gives the same decision, the same connectivity and the same bookkeeping on the translated cell, and
  the positions it writes are the translated ones — provided the slots it reads are used slots (`Model/RemeshLive.lean`).
-/
set_option linter.unusedSectionVars false
set_option linter.unusedVariables false
set_option linter.unusedSimpArgs false
namespace Simu.Remesh
open Simu Simu.C11

variable {R : Type} [Field R] [LinearOrder R] [IsStrictOrderedRing R]

/-! ### `Except` plumbing -/

/-- a step whose own result is the same on both sides -/
theorem bind_map_same {ε α β γ : Type} {x : Except ε α} {f' : α → Except ε γ} {f : α → Except ε β} {G : β → γ}
    (h : ∀ a, x = .ok a → f' a = (f a).map G) : (x >>= f') = (x >>= f).map G := by
  cases x with
  | error e => rfl
  | ok a => exact h a rfl

/-- a step whose result on the translated side is the image of the result on the reference side -/
theorem bind_map_rel {ε α α' β γ : Type} {x' : Except ε α'} {x : Except ε α} {g : α → α'}
    {f' : α' → Except ε γ} {f : α → Except ε β} {G : β → γ}
    (hx : x' = x.map g) (h : ∀ a, x = .ok a → f' (g a) = (f a).map G) : (x' >>= f') = (x >>= f).map G := by
  subst hx
  cases x with
  | error e => rfl
  | ok a => exact h a rfl

theorem map_ok {ε α β : Type} (g : α → β) (a : α) : (Except.ok a : Except ε α).map g = .ok (g a) := rfl
theorem map_error {ε α β : Type} (g : α → β) (e : ε) : (Except.error e : Except ε α).map g = .error e := rfl

/-! ### the translated cell -/

variable (t : V3 R)

@[simp] theorem tr_faces (c : Cell R) : (translateCell t c).faces = c.faces := rfl
@[simp] theorem tr_edges (c : Cell R) : (translateCell t c).edges = c.edges := rfl
@[simp] theorem tr_freeNodes (c : Cell R) : (translateCell t c).freeNodes = c.freeNodes := rfl
@[simp] theorem tr_freeFaces (c : Cell R) : (translateCell t c).freeFaces = c.freeFaces := rfl
theorem tr_nodes (c : Cell R) : (translateCell t c).nodes = c.nodes.map (trNode t) := rfl
@[simp] theorem tr_nodes_size (c : Cell R) : (translateCell t c).nodes.size = c.nodes.size := by
  simp only [tr_nodes, Array.size_map]

theorem tr_getNode (c : Cell R) (i : Nat) : (translateCell t c).nodes[i]? = (c.nodes[i]?).map (trNode t) := by
  simp only [tr_nodes, Array.getElem?_map]

@[simp] theorem trNode_used (n : Node R) : (trNode t n).used = n.used := by
  unfold trNode; split <;> rfl
@[simp] theorem trNode_mom (n : Node R) : (trNode t n).mom = n.mom := by
  unfold trNode; split <;> rfl
theorem trNode_of_used {n : Node R} (h : n.used = true) : trNode t n = { n with pos := n.pos + t } := by
  unfold trNode; rw [if_pos h]
theorem trNode_pos_of_used {n : Node R} (h : n.used = true) : (trNode t n).pos = n.pos + t := by
  rw [trNode_of_used t h]
theorem trNode_of_unused {n : Node R} (h : n.used = false) : trNode t n = n := by
  unfold trNode; rw [if_neg (by simp [h])]

@[simp] theorem tr_usedN (c : Cell R) (i : Nat) : usedN (translateCell t c) i = usedN c i := by
  unfold usedN; rw [tr_getNode]
  cases c.nodes[i]? <;> simp
@[simp] theorem tr_fUsed (c : Cell R) (f : Face R) : fUsed (translateCell t c) f = fUsed c f := by
  simp only [fUsed, tr_usedN]
@[simp] theorem tr_faceLive (c : Cell R) (fid : Nat) : faceLive (translateCell t c) fid = faceLive c fid := by
  simp only [faceLive, tr_faces, tr_fUsed]
@[simp] theorem tr_optFaceLive (c : Cell R) (o : Option Nat) : optFaceLive (translateCell t c) o = optFaceLive c o := by
  cases o <;> simp only [optFaceLive, tr_faceLive]
@[simp] theorem tr_edgeFacesLive (c : Cell R) (e : Edge) : edgeFacesLive (translateCell t c) e = edgeFacesLive c e := by
  simp only [edgeFacesLive, tr_optFaceLive]
@[simp] theorem tr_edgeLive (c : Cell R) (e : Edge) : edgeLive (translateCell t c) e = edgeLive c e := by
  simp only [edgeLive, tr_usedN, tr_edgeFacesLive]
@[simp] theorem tr_idxFacesLive (c : Cell R) : idxFacesLive (translateCell t c) = idxFacesLive c := by
  have : edgeFacesLive (translateCell t c) = edgeFacesLive c := funext (tr_edgeFacesLive t c)
  simp only [idxFacesLive, tr_edges, this]
@[simp] theorem tr_freeHeadOk (c : Cell R) : freeHeadOk (translateCell t c) = freeHeadOk c := by
  simp only [freeHeadOk, tr_freeNodes, tr_nodes_size]
@[simp] theorem tr_getEdge (c : Cell R) (a b : Nat) : getEdge (translateCell t c) a b = getEdge c a b := rfl

theorem usedN_iff {c : Cell R} {i : Nat} : usedN c i = true ↔ ∃ n, c.nodes[i]? = some n ∧ n.used = true := by
  unfold usedN
  cases c.nodes[i]? with
  | none => simp
  | some n => simp

/-- a used slot is read at the translated position -/
theorem tr_posOf {c : Cell R} {i : Nat} (h : usedN c i = true) : posOf (translateCell t c) i = posOf c i + t := by
  obtain ⟨n, hn, hu⟩ := usedN_iff.1 h
  unfold posOf
  rw [tr_getNode, hn]
  simp only [Option.map_some, trNode_pos_of_used t hu]

/-! ### geometry of one face -/

theorem normalArea_translate (fn : Fn R) (p1 p2 p3 : V3 R) :
    normalArea fn (p1 + t) (p2 + t) (p3 + t) = normalArea fn p1 p2 p3 := by
  have h2 : p2 + t - (p1 + t) = p2 - p1 := by apply V3.ext' <;> simp
  have h3 : p3 + t - (p1 + t) = p3 - p1 := by apply V3.ext' <;> simp
  unfold normalArea
  rw [h2, h3]

theorem updFaceGeom_translate (fn : Fn R) (c : Cell R) (fid : Nat) (h : faceLive c fid = true) :
    updFaceGeom fn (translateCell t c) fid = translateCell t (updFaceGeom fn c fid) := by
  unfold updFaceGeom
  simp only [tr_faces]
  unfold faceLive at h
  cases hf : c.faces[fid]? with
  | none => rfl
  | some f =>
    rw [hf] at h
    simp only [fUsed, Bool.and_eq_true] at h
    simp only [tr_posOf t h.1.1, tr_posOf t h.1.2, tr_posOf t h.2, normalArea_translate]
    rfl

/-! ### node store -/

theorem addNode_translate (c : Cell R) (p m : V3 R) :
    addNode (translateCell t c) (p + t) m = (translateCell t (addNode c p m).1, (addNode c p m).2) := by
  unfold addNode
  simp only [tr_freeNodes]
  cases hfr : c.freeNodes with
  | nil =>
    simp only [tr_nodes_size]
    congr 1
    simp only [translateCell, Array.map_push]
    congr 2
  | cons i rest =>
    simp only
    congr 1
    simp only [translateCell]
    congr 1
    apply Array.ext_getElem?
    intro j
    by_cases hij : i = j
    · subst hij
      by_cases hlt : i < c.nodes.size
      · simp [hlt, trNode]
      · simp [hlt]
    · simp [hij]

theorem deleteNode_translate (c : Cell R) (i : Nat) :
    deleteNode (translateCell t c) i = translateCell t (deleteNode c i) := by
  unfold deleteNode
  simp only [translateCell]
  congr 1
  apply Array.ext_getElem?
  intro j
  by_cases hij : i = j
  · subst hij
    by_cases hlt : i < c.nodes.size
    · simp [hlt, trNode]
    · simp [hlt]
  · simp [hij]


theorem usedN_congr {c c' : Cell R} (h : c'.nodes = c.nodes) (i : Nat) : usedN c' i = usedN c i := by
  unfold usedN; rw [h]
theorem fUsed_congr {c c' : Cell R} (h : c'.nodes = c.nodes) (f : Face R) : fUsed c' f = fUsed c f := by
  simp only [fUsed, usedN_congr h]
theorem faceLive_of_get {c : Cell R} {fid : Nat} {f : Face R} (hf : c.faces[fid]? = some f) (h : fUsed c f = true) :
    faceLive c fid = true := by
  unfold faceLive; rw [hf]; exact h
theorem faceLive_of_none {c : Cell R} {fid : Nat} (hf : c.faces[fid]? = none) : faceLive c fid = true := by
  unfold faceLive; rw [hf]

theorem updFaceGeom_translate' (fn : Fn R) (c : Cell R) (F : Array (Face R)) (E : EdgeSet) (fN fN' fF : List Nat) (fid : Nat)
    (hN : fN' = fN) (h : faceLive ({ nodes := c.nodes, faces := F, edges := E, freeNodes := fN, freeFaces := fF } : Cell R) fid = true) :
    updFaceGeom fn { nodes := (translateCell t c).nodes, faces := F, edges := E, freeNodes := fN', freeFaces := fF } fid
      = translateCell t (updFaceGeom fn { nodes := c.nodes, faces := F, edges := E, freeNodes := fN, freeFaces := fF } fid) := by
  subst hN
  exact updFaceGeom_translate t fn ⟨c.nodes, F, E, fN', fF⟩ fid h

theorem deleteFace_translate (c : Cell R) (fid : Nat) :
    deleteFace (translateCell t c) fid = (deleteFace c fid).map (translateCell t) := by
  unfold deleteFace
  simp only [tr_faces, tr_edges]
  cases c.faces[fid]? with
  | none => rfl
  | some f =>
    simp only
    refine bind_map_same (fun s1 _ => ?_)
    refine bind_map_same (fun s2 _ => ?_)
    refine bind_map_same (fun s3 _ => ?_)
    rfl

theorem setFaceType_translate (c : Cell R) (fid ty : Nat) :
    setFaceType (translateCell t c) fid ty = translateCell t (setFaceType c fid ty) := by
  unfold setFaceType
  simp only [tr_faces]
  cases c.faces[fid]? <;> rfl

theorem addFace_translate (fn : Fn R) (c : Cell R) (a b d : Nat)
    (ha : usedN c a = true) (hb : usedN c b = true) (hd : usedN c d = true) :
    addFace fn (translateCell t c) a b d = (addFace fn c a b d).map (fun r => (translateCell t r.1, r.2)) := by
  have hu : ∀ c' : Cell R, c'.nodes = c.nodes →
      fUsed c' ({ n1 := a, n2 := b, n3 := d, typ := 0, normal := zeroV, area := lit 0, used := true } : Face R) = true := by
    intro c' h
    simp only [fUsed, usedN_congr h, ha, hb, hd, Bool.and_self]
  unfold addFace
  simp only [tr_freeFaces, tr_faces, tr_edges]
  cases hff : c.freeFaces with
  | nil =>
    simp only
    refine bind_map_same (fun s4 _ => ?_)
    refine bind_map_same (fun s5 _ => ?_)
    refine bind_map_same (fun s6 _ => ?_)
    refine congrArg (fun x => Except.ok (x, c.faces.size)) ?_
    refine updFaceGeom_translate' t fn c _ _ _ _ _ _ rfl (faceLive_of_get (f := _) ?_ (hu _ rfl))
    simp
  | cons i rest =>
    simp only
    refine bind_map_same (fun s4 _ => ?_)
    refine bind_map_same (fun s5 _ => ?_)
    refine bind_map_same (fun s6 _ => ?_)
    refine congrArg (fun x => Except.ok (x, i)) ?_
    by_cases hi : i < c.faces.size
    · refine updFaceGeom_translate' t fn c _ _ _ _ _ _ rfl (faceLive_of_get (f := _) ?_ (hu _ rfl))
      simp [hi]
    · refine updFaceGeom_translate' t fn c _ _ _ _ _ _ rfl (faceLive_of_none ?_)
      simp [hi]

/-! ### edge sets -/

theorem mem_insertGo (e : Edge) : ∀ (s : List Edge) (x : Edge), x ∈ (EdgeSet.insert.go e s).1 → x ∈ s ∨ x = e
  | [], x, h => by
    unfold EdgeSet.insert.go at h
    simp only [List.mem_singleton] at h
    exact Or.inr h
  | y :: ys, x, h => by
    unfold EdgeSet.insert.go at h
    split at h
    · exact Or.inl h
    · split at h
      · simp only [List.mem_cons] at h
        rcases h with h | h | h
        · exact Or.inr h
        · exact Or.inl (List.mem_cons.2 (Or.inl h))
        · exact Or.inl (List.mem_cons.2 (Or.inr h))
      · simp only [List.mem_cons] at h
        rcases h with h | h
        · exact Or.inl (List.mem_cons.2 (Or.inl h))
        · rcases mem_insertGo e ys x h with h | h
          · exact Or.inl (List.mem_cons.2 (Or.inr h))
          · exact Or.inr h

theorem mem_insert {s : EdgeSet} {e x : Edge} (h : x ∈ (EdgeSet.insert s e).1) : x ∈ s ∨ x = e :=
  mem_insertGo e s x h

theorem stored_insertGo (e : Edge) : ∀ (s : List Edge), (EdgeSet.insert.go e s).2.1 ∈ s ∨ (EdgeSet.insert.go e s).2.1 = e
  | [] => by unfold EdgeSet.insert.go; exact Or.inr rfl
  | y :: ys => by
    unfold EdgeSet.insert.go
    split
    · exact Or.inl (List.mem_cons.2 (Or.inl rfl))
    · split
      · exact Or.inr rfl
      · rcases stored_insertGo e ys with h | h
        · exact Or.inl (List.mem_cons.2 (Or.inr h))
        · exact Or.inr h

theorem stored_insert (s : EdgeSet) (e : Edge) : (EdgeSet.insert s e).2.1 ∈ s ∨ (EdgeSet.insert s e).2.1 = e :=
  stored_insertGo e s

theorem mem_update {s : EdgeSet} {e x : Edge} (h : x ∈ EdgeSet.update s e) : x ∈ s ∨ x = e := by
  unfold EdgeSet.update at h
  obtain ⟨y, hy, rfl⟩ := List.mem_map.1 h
  split
  · exact Or.inr rfl
  · exact Or.inl hy

theorem mem_erase {s : EdgeSet} {k : Nat} {x : Edge} (h : x ∈ EdgeSet.erase s k) : x ∈ s := by
  unfold EdgeSet.erase at h
  exact (List.mem_filter.1 h).1

theorem mem_of_find {s : EdgeSet} {k : Nat} {e : Edge} (h : EdgeSet.find? s k = some e) : e ∈ s :=
  List.mem_of_find?_eq_some h

theorem otherFace_mem {e : Edge} {f g : Nat} (h : e.otherFace f = .ok g) : e.f1 = some g ∨ e.f2 = some g := by
  unfold Edge.otherFace at h
  cases h1 : e.f1 with
  | none => rw [h1] at h; cases h
  | some a =>
    rw [h1] at h
    simp only at h
    split at h
    · cases h2 : e.f2 with
      | none => rw [h2] at h; cases h
      | some b => rw [h2] at h; cases h; exact Or.inr rfl
    · cases h; exact Or.inl rfl


theorem optFaceLive_some (c : Cell R) (g : Nat) : optFaceLive c (some g) = faceLive c g := rfl

theorem idx_faceLive {c : Cell R} {e : Edge} {g : Nat} (hidx : idxFacesLive c = true) (he : e ∈ c.edges)
    (hg : e.f1 = some g ∨ e.f2 = some g) : faceLive c g = true := by
  have := List.all_eq_true.1 hidx e he
  simp only [edgeFacesLive, Bool.and_eq_true] at this
  rcases hg with hg | hg
  · have h := this.1; rw [hg] at h; exact h
  · have h := this.2; rw [hg] at h; exact h

theorem fUsed_replace {c : Cell R} {f : Face R} {old new : Nat} (hf : fUsed c f = true) (hn : usedN c new = true) :
    fUsed c (faceReplaceNode f old new) = true := by
  unfold faceReplaceNode
  simp only [fUsed, Bool.and_eq_true] at hf ⊢
  split
  · exact ⟨⟨hn, hf.1.2⟩, hf.2⟩
  · split
    · exact ⟨⟨hf.1.1, hn⟩, hf.2⟩
    · exact ⟨hf.1, hn⟩

/-- one step of a `replace_node` walk on the face array: slot `fid` gets the record `f'` and fresh normal / area -/
def stepCell (fn : Fn R) (c : Cell R) (fid : Nat) (f' : Face R) : Cell R :=
  updFaceGeom fn { c with faces := c.faces.set! fid f' } fid

theorem stepCell_nodes (fn : Fn R) (c : Cell R) (fid : Nat) (f' : Face R) : (stepCell fn c fid f').nodes = c.nodes :=
  (sameNodes_updFaceGeom fn _ _).1
theorem stepCell_edges (fn : Fn R) (c : Cell R) (fid : Nat) (f' : Face R) : (stepCell fn c fid f').edges = c.edges := by
  unfold stepCell updFaceGeom; split <;> rfl
theorem stepCell_freeNodes (fn : Fn R) (c : Cell R) (fid : Nat) (f' : Face R) :
    (stepCell fn c fid f').freeNodes = c.freeNodes := (sameNodes_updFaceGeom fn _ _).2

theorem stepCell_faceLive (fn : Fn R) {c : Cell R} {fid : Nat} {f' : Face R} (hf' : fUsed c f' = true)
    (g : Nat) (hg : faceLive c g = true) : faceLive (stepCell fn c fid f') g = true := by
  unfold stepCell updFaceGeom
  by_cases hin : fid < c.faces.size
  · have h1 : (c.faces.set! fid f')[fid]? = some f' := by simp [hin]
    simp only [h1]
    unfold faceLive
    by_cases hgf : fid = g
    · subst hgf
      have h2 : ((c.faces.set! fid f').set! fid { f' with normal := (normalArea fn (posOf { c with faces := c.faces.set! fid f' } f'.n1) (posOf { c with faces := c.faces.set! fid f' } f'.n2) (posOf { c with faces := c.faces.set! fid f' } f'.n3)).1, area := (normalArea fn (posOf { c with faces := c.faces.set! fid f' } f'.n1) (posOf { c with faces := c.faces.set! fid f' } f'.n2) (posOf { c with faces := c.faces.set! fid f' } f'.n3)).2 })[fid]? = some { f' with normal := (normalArea fn (posOf { c with faces := c.faces.set! fid f' } f'.n1) (posOf { c with faces := c.faces.set! fid f' } f'.n2) (posOf { c with faces := c.faces.set! fid f' } f'.n3)).1, area := (normalArea fn (posOf { c with faces := c.faces.set! fid f' } f'.n1) (posOf { c with faces := c.faces.set! fid f' } f'.n2) (posOf { c with faces := c.faces.set! fid f' } f'.n3)).2 } := by simp [hin]
      simp only [h2]
      exact hf'
    · have h2 : ∀ v w : Face R, ((c.faces.set! fid v).set! fid w)[g]? = c.faces[g]? := by intro v w; simp [hgf]
      simp only [h2]
      exact hg
  · have h1 : (c.faces.set! fid f')[fid]? = none := by simp [hin]
    simp only [h1]
    have h2 : c.faces.set! fid f' = c.faces := by simp [Array.setIfInBounds, hin]
    simp only [h2]
    exact hg


theorem faceLive_congr {c c' : Cell R} (hn : c'.nodes = c.nodes) (hf : c'.faces = c.faces) (g : Nat) :
    faceLive c' g = faceLive c g := by
  unfold faceLive; rw [hf]
  cases c.faces[g]? with
  | none => rfl
  | some f => exact fUsed_congr hn f

theorem edgeFacesLive_mono {c c' : Cell R} (h : ∀ g, faceLive c g = true → faceLive c' g = true) {x : Edge}
    (hx : edgeFacesLive c x = true) : edgeFacesLive c' x = true := by
  simp only [edgeFacesLive, Bool.and_eq_true] at hx ⊢
  constructor
  · cases h1 : x.f1 with
    | none => rfl
    | some g => have := hx.1; rw [h1] at this; exact h g this
  · cases h2 : x.f2 with
    | none => rfl
    | some g => have := hx.2; rw [h2] at this; exact h g this

theorem edgeFacesLive_iff {c : Cell R} {x : Edge} : edgeFacesLive c x = true ↔
    (∀ g, x.f1 = some g → faceLive c g = true) ∧ (∀ g, x.f2 = some g → faceLive c g = true) := by
  simp only [edgeFacesLive, Bool.and_eq_true]
  constructor
  · rintro ⟨h1, h2⟩
    exact ⟨fun g hg => by rw [hg] at h1; exact h1, fun g hg => by rw [hg] at h2; exact h2⟩
  · rintro ⟨h1, h2⟩
    constructor
    · cases hq : x.f1 with
      | none => rfl
      | some g => exact h1 g hq
    · cases hq : x.f2 with
      | none => rfl
      | some g => exact h2 g hq

theorem mk'_f1 (a b : Nat) (f1 f2 : Option Nat) : (Edge.mk' a b f1 f2).f1 = f1 := by unfold Edge.mk'; split <;> rfl
theorem mk'_f2 (a b : Nat) (f1 f2 : Option Nat) : (Edge.mk' a b f1 f2).f2 = f2 := by unfold Edge.mk'; split <;> rfl

/-- `o = some v` from `(match o with | some x => .ok x | none => .error _) = .ok v` (whatever matcher the `do` block generated) -/
macro "opt_ok " h:ident " of " o:term : tactic =>
  `(tactic| (cases hq : $o with
      | none => rw [hq] at $h:ident; cases $h:ident
      | some v => rw [hq] at $h:ident; cases $h:ident; rfl))

theorem optSome_of_ok {α : Type} {o : Option α} {err : Err} {v : α}
    (h : (match o with | some x => (Except.ok x : Except Err α) | none => Except.error err) = .ok v) : o = some v := by
  cases o with
  | none => cases h
  | some x => cases h; rfl

theorem replaceLoop_translate (fn : Fn R) (start : Edge) (old new : Nat) (fuel : Nat) :
    ∀ (c : Cell R) (cur : Option Edge) (faceId : Nat) (del cre : List Edge),
      usedN c new = true → idxFacesLive c = true → faceLive c faceId = true → (∀ e, cur = some e → e ∈ c.edges) →
      replaceNode.loop fn start old new fuel (translateCell t c) cur faceId del cre
        = (replaceNode.loop fn start old new fuel c cur faceId del cre).map (fun r => (translateCell t r.1, r.2)) := by
  induction fuel with
  | zero => intro c cur faceId del cre _ _ _ _; unfold replaceNode.loop; rfl
  | succ fuel ih =>
    intro c cur faceId del cre hnew hidx hface hcur
    unfold replaceNode.loop
    cases cur with
    | none => rfl
    | some e =>
      have hemem : e ∈ c.edges := hcur e rfl
      simp only [tr_faces, tr_edges, tr_freeNodes, tr_freeFaces]
      refine bind_map_same (fun fid1 h1 => ?_)
      refine bind_map_same (fun f h2 => ?_)
      have hf : c.faces[fid1]? = some f := by
        cases hq : c.faces[fid1]? with
        | none => rw [hq] at h2; cases h2
        | some x => rw [hq] at h2; cases h2; rfl
      have hlive1 : faceLive c fid1 = true := idx_faceLive hidx hemem (otherFace_mem h1)
      have hfu : fUsed c f = true := by unfold faceLive at hlive1; rw [hf] at hlive1; exact hlive1
      have hrep : fUsed c (faceReplaceNode f old new) = true := fUsed_replace hfu hnew
      have hin : fid1 < c.faces.size := by
        rcases Nat.lt_or_ge fid1 c.faces.size with h | h
        · exact h
        · simp [h] at hf
      have hget : (c.faces.set! fid1 (faceReplaceNode f old new))[fid1]? = some (faceReplaceNode f old new) := by simp [hin]
      have key : updFaceGeom fn { nodes := (translateCell t c).nodes, faces := c.faces.set! fid1 (faceReplaceNode f old new), edges := c.edges, freeNodes := c.freeNodes, freeFaces := c.freeFaces } fid1
          = translateCell t (stepCell fn c fid1 (faceReplaceNode f old new)) :=
        updFaceGeom_translate' t fn c (c.faces.set! fid1 (faceReplaceNode f old new)) c.edges c.freeNodes c.freeNodes
          c.freeFaces fid1 rfl (faceLive_of_get hget hrep)
      have fold : updFaceGeom fn { c with faces := c.faces.set! fid1 (faceReplaceNode f old new) } fid1
          = stepCell fn c fid1 (faceReplaceNode f old new) := rfl
      rw [key, fold]
      have hmono : ∀ g, faceLive c g = true → faceLive (stepCell fn c fid1 (faceReplaceNode f old new)) g = true :=
        stepCell_faceLive fn hrep
      have hnodes := stepCell_nodes fn c fid1 (faceReplaceNode f old new)
      have hedges := stepCell_edges fn c fid1 (faceReplaceNode f old new)
      generalize stepCell fn c fid1 (faceReplaceNode f old new) = c2 at hmono hnodes hedges ⊢
      simp only [tr_faces, tr_edges, tr_freeNodes, tr_freeFaces]
      refine bind_map_same (fun ef1 h3 => ?_)
      refine bind_map_same (fun ef2 h4 => ?_)
      have he1 : e.f1 = some ef1 := by
        cases hq : e.f1 with
        | none => rw [hq] at h3; cases h3
        | some v => rw [hq] at h3; cases h3; rfl
      have he2 : e.f2 = some ef2 := by
        cases hq : e.f2 with
        | none => rw [hq] at h4; cases h4
        | some v => rw [hq] at h4; cases h4; rfl
      generalize hned : Edge.mk' (if (e.n1 == old) = true then new else e.n1)
          (if (e.n2 == old) = true then new else e.n2) (some ef1) (some ef2) = ne
      have hnf1 : ne.f1 = some ef1 := by rw [← hned, mk'_f1]
      have hnf2 : ne.f2 = some ef2 := by rw [← hned, mk'_f2]
      have hold : ∀ y ∈ c2.edges, edgeFacesLive c2 y = true := by
        intro y hy
        rw [hedges] at hy
        exact edgeFacesLive_mono hmono (List.all_eq_true.1 hidx y hy)
      have hne : edgeFacesLive c2 ne = true := by
        rw [edgeFacesLive_iff, hnf1, hnf2]
        constructor
        · intro g hg; cases hg; exact hmono _ (idx_faceLive hidx hemem (Or.inl he1))
        · intro g hg; cases hg; exact hmono _ (idx_faceLive hidx hemem (Or.inr he2))
      have hins : ∀ y ∈ (EdgeSet.insert c2.edges ne).1, edgeFacesLive c2 y = true := by
        intro y hy
        rcases mem_insert hy with h | h
        · exact hold y h
        · rw [h]; exact hne
      have hst : edgeFacesLive c2 (EdgeSet.insert c2.edges ne).2.1 = true := by
        rcases stored_insert c2.edges ne with h | h
        · exact hold _ h
        · rw [h]; exact hne
      refine bind_map_same (fun x h5 => ?_)
      have hx : ∀ y ∈ x.1, edgeFacesLive c2 y = true := by
        by_cases hb : (EdgeSet.insert c2.edges ne).2.2 = true
        · simp only [hb, if_true] at h5
          cases h5; exact hins
        · simp only [hb] at h5
          obtain ⟨g1, hg1, h5⟩ := bind_ok h5
          obtain ⟨g2, hg2, h5⟩ := bind_ok h5
          cases h5
          intro y hy
          rcases mem_update hy with h | h
          · exact hins y h
          · rw [h, edgeFacesLive_iff]
            have hnf : faceLive c2 (if (some faceId == start.f1 || some faceId == start.f2) = true then fid1 else faceId) = true := by
              split
              · exact hmono _ hlive1
              · exact hmono _ hface
            have hs := edgeFacesLive_iff.1 hst
            constructor
            · intro g hg; cases hg
              split
              · exact hnf
              · exact hs.1 g1 (by opt_ok hg1 of (EdgeSet.insert c2.edges ne).2.1.f1)
            · intro g hg; cases hg
              split
              · exact hnf
              · exact hs.2 g2 (by opt_ok hg2 of (EdgeSet.insert c2.edges ne).2.1.f2)
      refine bind_map_same (fun f' h6 => ?_)
      cases hop : oppositeNode f' x.2.n1 x.2.n2 with
      | none => rfl
      | some opp =>
        simp only []
        have hg : getEdge ({ nodes := (translateCell t c2).nodes, faces := c2.faces, edges := x.1.erase e.key, freeNodes := c2.freeNodes, freeFaces := c2.freeFaces } : Cell R) old opp
            = getEdge ({ c2 with edges := x.1.erase e.key }) old opp := rfl
        rw [hg]
        cases hnx : getEdge ({ c2 with edges := x.1.erase e.key }) old opp with
        | none => rfl
        | some nxt =>
          simp only []
          have hfl : ∀ g, faceLive ({ c2 with edges := x.1.erase e.key } : Cell R) g = faceLive c2 g :=
            fun g => faceLive_congr rfl rfl g
          refine ih { c2 with edges := x.1.erase e.key } (some nxt) fid1 _ _ ?_ ?_ ?_ ?_
          · rw [usedN_congr (c := c) (by exact hnodes)]; exact hnew
          · unfold idxFacesLive
            rw [List.all_eq_true]
            intro y hy
            exact edgeFacesLive_mono (fun g hg => by rw [hfl]; exact hg) (hx y (mem_erase hy))
          · rw [hfl]; exact hmono _ hlive1
          · intro e' he'
            cases he'
            exact mem_of_find hnx

theorem replaceNode_translate (fn : Fn R) (c : Cell R) (start : Edge) (old new : Nat)
    (hnew : usedN c new = true) (hidx : idxFacesLive c = true) (hs : optFaceLive c start.f1 = true) :
    replaceNode fn (translateCell t c) start old new
      = (replaceNode fn c start old new).map (fun r => (translateCell t r.1, r.2)) := by
  unfold replaceNode
  simp only [tr_faces, tr_edges]
  refine bind_map_same (fun sf1 h1 => ?_)
  have hs1 : start.f1 = some sf1 := by opt_ok h1 of start.f1
  have hfl : faceLive c sf1 = true := by rw [hs1] at hs; exact hs
  refine bind_map_rel (replaceLoop_translate t fn start old new _ c _ sf1 [] [] hnew hidx hfl
    (fun e he => mem_of_find he)) (fun a ha => ?_)
  obtain ⟨c1, del, cre⟩ := a
  show Except.ok (deleteNode (translateCell t c1) old, del, cre) = Except.ok (translateCell t (deleteNode c1 old), del, cre)
  rw [deleteNode_translate]

theorem connectedLoop_translate (c : Cell R) (node stop : Nat) (fuel : Nat) : ∀ (e : Edge) (next : Nat) (acc : List Nat),
    connectedNodes.loop (translateCell t c) node stop fuel e next acc = connectedNodes.loop c node stop fuel e next acc := by
  induction fuel with
  | zero => intro e next acc; unfold connectedNodes.loop; rfl
  | succ fuel ih =>
    intro e next acc
    unfold connectedNodes.loop
    simp only [tr_faces, tr_getEdge, ih]

theorem connectedNodes_translate (c : Cell R) (node : Nat) (start : Edge) :
    connectedNodes (translateCell t c) node start = connectedNodes c node start := by
  unfold connectedNodes
  simp only [tr_faces, connectedLoop_translate]

/-- `can_be_merged` is purely combinatorial -/
theorem canBeMerged_translate (c : Cell R) (e : Edge) : canBeMerged (translateCell t c) e = canBeMerged c e := by
  unfold canBeMerged
  simp only [connectedNodes_translate]


/-! ### liveness of node slots through the node-store operations -/

theorem usedN_set_used {c : Cell R} {i : Nat} {v : Node R} (hv : v.used = true) {j : Nat} (hj : usedN c j = true) :
    usedN ({ c with nodes := c.nodes.set! i v } : Cell R) j = true := by
  obtain ⟨n, hn, hu⟩ := usedN_iff.1 hj
  have hlt := (Array.getElem?_eq_some_iff.1 hn).1
  rw [usedN_iff]
  by_cases hij : i = j
  · subst hij; exact ⟨v, by simp [hlt], hv⟩
  · exact ⟨n, by simp [hij, hn], hu⟩

theorem usedN_addNode_mono {c : Cell R} {p m : V3 R} {j : Nat} (hj : usedN c j = true) :
    usedN (addNode c p m).1 j = true := by
  obtain ⟨n, hn, hu⟩ := usedN_iff.1 hj
  have hlt := (Array.getElem?_eq_some_iff.1 hn).1
  unfold addNode
  cases hfr : c.freeNodes with
  | nil =>
    rw [usedN_iff]
    exact ⟨n, by simp [Array.getElem?_push, hn]; omega, hu⟩
  | cons i rest => exact usedN_set_used rfl hj

theorem usedN_addNode_new {c : Cell R} {p m : V3 R} (h : freeHeadOk c = true) :
    usedN (addNode c p m).1 (addNode c p m).2 = true := by
  unfold freeHeadOk at h
  unfold addNode
  rw [usedN_iff]
  cases hfr : c.freeNodes with
  | nil => exact ⟨⟨p, m, true⟩, by simp, rfl⟩
  | cons i rest =>
    rw [hfr] at h
    have hi : i < c.nodes.size := by simpa using h
    exact ⟨⟨p, m, true⟩, by simp [hi], rfl⟩

theorem oppositeNode_mem {f : Face R} {a b x : Nat} (h : oppositeNode f a b = some x) :
    x = f.n1 ∨ x = f.n2 ∨ x = f.n3 := by
  unfold oppositeNode at h
  split at h
  · cases h; exact Or.inl rfl
  · split at h
    · cases h; exact Or.inr (Or.inl rfl)
    · split at h
      · cases h; exact Or.inr (Or.inr rfl)
      · cases h

theorem usedN_of_fUsed {c : Cell R} {f : Face R} (hf : fUsed c f = true) {x : Nat}
    (hx : x = f.n1 ∨ x = f.n2 ∨ x = f.n3) : usedN c x = true := by
  simp only [fUsed, Bool.and_eq_true] at hf
  rcases hx with h | h | h <;> rw [h]
  · exact hf.1.1
  · exact hf.1.2
  · exact hf.2

theorem mid_translate (k : SplitConsts R) (hmid : k.mid + k.mid = 1) (p q : V3 R) :
    ((q + t) + (p + t)) * k.mid = (q + p) * k.mid + t := by
  apply V3.ext' <;> simp only [V3.smul_x, V3.smul_y, V3.smul_z, V3.add_x, V3.add_y, V3.add_z]
  · linear_combination t.x * hmid
  · linear_combination t.y * hmid
  · linear_combination t.z * hmid

theorem map_set_tr (ns : Array (Node R)) (i : Nat) (v : Node R) :
    (ns.map (trNode t)).set! i (trNode t v) = (ns.set! i v).map (trNode t) := by
  apply Array.ext_getElem?
  intro j
  by_cases hij : i = j
  · subst hij
    by_cases hlt : i < ns.size
    · simp [hlt]
    · simp [hlt]
  · simp [hij]

theorem trNode_setMom {n : Node R} (m : V3 R) : ({ trNode t n with mom := m } : Node R) = trNode t { n with mom := m } := by
  unfold trNode
  split <;> rfl

theorem ok_bind {ε α β : Type} (a : α) (f : α → Except ε β) : (Except.ok a >>= f) = f a := rfl

/-! ### `split_edge` -/

/-- the two `create_face` calls on one side of the split edge -/
def addTwo (fn : Fn R) (c : Cell R) (o : Bool) (x a ee b : Nat) : Except Err (Cell R × Nat × Nat) :=
  if o then do
    let (c, f3) ← addFace fn c x a ee
    let (c, f5) ← addFace fn c x ee b
    pure (c, f3, f5)
  else do
    let (c, f3) ← addFace fn c x ee a
    let (c, f5) ← addFace fn c x b ee
    pure (c, f3, f5)

/-- `split_edge` after `add_node`: everything that no longer reads a node record -/
def splitTail (fn : Fn R) (c : Cell R) (ee a b cc dd f1id f2id : Nat) (o1 o2 : Bool) (ty1 ty2 : Nat) (chk : CheckSet) :
    Except Err (Cell R × CheckSet) := do
  let c ← deleteFace c f1id
  let c ← deleteFace c f2id
  let (c, f3, f5) ← addTwo fn c o1 cc a ee b
  let (c, f4, f6) ← addTwo fn c o2 dd a ee b
  let c := setFaceType (setFaceType (setFaceType (setFaceType c f3 ty1) f4 ty2) f5 ty1) f6 ty2
  let eea ← (match getEdge c ee a with | some x => .ok x | none => .error Err.badopt)
  let eeb ← (match getEdge c ee b with | some x => .ok x | none => .error Err.badopt)
  let eec ← (match getEdge c ee cc with | some x => .ok x | none => .error Err.badopt)
  let eed ← (match getEdge c ee dd with | some x => .ok x | none => .error Err.badopt)
  let chk := (EdgeSet.insert chk eea).1
  let chk := (EdgeSet.insert chk eeb).1
  let chk := (EdgeSet.insert chk eec).1
  let chk := (EdgeSet.insert chk eed).1
  let upd (chk : CheckSet) (x y old new : Nat) : CheckSet :=
    match EdgeSet.find? chk (Edge.keyOf x y) with
    | some ed => EdgeSet.update chk (ed.replaceFace old new)
    | none => chk
  let chk := upd chk a cc f1id f3
  let chk := upd chk b cc f1id f5
  let chk := upd chk a dd f2id f4
  let chk := upd chk b dd f2id f6
  pure (c, chk)

/-- `splitEdge` = reading the records, the node part (`C11.splitNodes`), then `splitTail` -/
theorem splitEdge_eq (fn : Fn R) (k : SplitConsts R) (c : Cell R) (e : Edge) (chk : CheckSet) :
    splitEdge fn k c e chk = (do
      let f1id ← (match e.f1 with | some x => .ok x | none => .error Err.badopt)
      let f2id ← (match e.f2 with | some x => .ok x | none => .error Err.badopt)
      let f1 ← (match c.faces[f1id]? with | some f => .ok f | none => .error Err.ub)
      let f2 ← (match c.faces[f2id]? with | some f => .ok f | none => .error Err.ub)
      let na ← (match c.nodes[e.n1]? with | some n => .ok n | none => .error Err.ub)
      let nb ← (match c.nodes[e.n2]? with | some n => .ok n | none => .error Err.ub)
      let cc ← (match oppositeNode f1 e.n1 e.n2 with | some x => .ok x | none => .error Err.ub)
      let dd ← (match oppositeNode f2 e.n1 e.n2 with | some x => .ok x | none => .error Err.ub)
      splitTail fn (splitNodes k c e.n1 e.n2 na nb).1 (splitNodes k c e.n1 e.n2 na nb).2 e.n1 e.n2 cc dd f1id f2id
        (isDirected f1 e.n1 e.n2) (isDirected f2 e.n1 e.n2) f1.typ f2.typ chk) := by
  rfl


theorem usedN_same {c c' : Cell R} (h : SameNodes c c') (i : Nat) : usedN c' i = usedN c i := usedN_congr h.1 i

theorem addTwo_sameNodes {fn : Fn R} {c : Cell R} {o : Bool} {x a ee b : Nat} {r : Cell R × Nat × Nat}
    (h : addTwo fn c o x a ee b = .ok r) : SameNodes c r.1 := by
  unfold addTwo at h
  split at h
  all_goals
    obtain ⟨⟨c1, f3⟩, h1, h⟩ := bind_ok h
    obtain ⟨⟨c2, f5⟩, h2, h⟩ := bind_ok h
    cases h
    exact (sameNodes_addFace h1).trans (sameNodes_addFace h2)

theorem addTwo_translate (fn : Fn R) (c : Cell R) (o : Bool) (x a ee b : Nat)
    (hx : usedN c x = true) (ha : usedN c a = true) (he : usedN c ee = true) (hb : usedN c b = true) :
    addTwo fn (translateCell t c) o x a ee b = (addTwo fn c o x a ee b).map (fun r => (translateCell t r.1, r.2)) := by
  unfold addTwo
  cases o with
  | true =>
    simp only [if_true]
    refine bind_map_rel (addFace_translate t fn c x a ee hx ha he) (fun r1 h1 => ?_)
    obtain ⟨c1, f3⟩ := r1
    have hs := sameNodes_addFace h1
    refine bind_map_rel (addFace_translate t fn c1 x ee b (by rw [usedN_same hs]; exact hx) (by rw [usedN_same hs]; exact he)
      (by rw [usedN_same hs]; exact hb)) (fun r2 h2 => ?_)
    rfl
  | false =>
    simp only [Bool.false_eq_true, if_false]
    refine bind_map_rel (addFace_translate t fn c x ee a hx he ha) (fun r1 h1 => ?_)
    obtain ⟨c1, f3⟩ := r1
    have hs := sameNodes_addFace h1
    refine bind_map_rel (addFace_translate t fn c1 x b ee (by rw [usedN_same hs]; exact hx) (by rw [usedN_same hs]; exact hb)
      (by rw [usedN_same hs]; exact he)) (fun r2 h2 => ?_)
    rfl

theorem splitTail_translate (fn : Fn R) (c : Cell R) (ee a b cc dd f1id f2id : Nat) (o1 o2 : Bool) (ty1 ty2 : Nat)
    (chk : CheckSet) (he : usedN c ee = true) (ha : usedN c a = true) (hb : usedN c b = true)
    (hc : usedN c cc = true) (hd : usedN c dd = true) :
    splitTail fn (translateCell t c) ee a b cc dd f1id f2id o1 o2 ty1 ty2 chk
      = (splitTail fn c ee a b cc dd f1id f2id o1 o2 ty1 ty2 chk).map (fun r => (translateCell t r.1, r.2)) := by
  unfold splitTail
  refine bind_map_rel (deleteFace_translate t c f1id) (fun c1 h1 => ?_)
  have s1 := sameNodes_deleteFace h1
  refine bind_map_rel (deleteFace_translate t c1 f2id) (fun c2 h2 => ?_)
  have s2 := s1.trans (sameNodes_deleteFace h2)
  refine bind_map_rel (addTwo_translate t fn c2 o1 cc a ee b (by rw [usedN_same s2]; exact hc) (by rw [usedN_same s2]; exact ha)
    (by rw [usedN_same s2]; exact he) (by rw [usedN_same s2]; exact hb)) (fun r3 h3 => ?_)
  have s3 := s2.trans (addTwo_sameNodes h3)
  obtain ⟨c3, f3, f5⟩ := r3
  refine bind_map_rel (addTwo_translate t fn c3 o2 dd a ee b (by rw [usedN_same s3]; exact hd) (by rw [usedN_same s3]; exact ha)
    (by rw [usedN_same s3]; exact he) (by rw [usedN_same s3]; exact hb)) (fun r4 h4 => ?_)
  obtain ⟨c4, f4, f6⟩ := r4
  simp only [setFaceType_translate, tr_getEdge]
  refine bind_map_same (fun eea _ => ?_)
  refine bind_map_same (fun eeb _ => ?_)
  refine bind_map_same (fun eec _ => ?_)
  refine bind_map_same (fun eed _ => ?_)
  rfl

theorem tr_setTwo (c : Cell R) (a b : Nat) (X Y : Node R) :
    ({ translateCell t c with nodes := ((translateCell t c).nodes.set! a (trNode t X)).set! b (trNode t Y) } : Cell R)
      = translateCell t { c with nodes := (c.nodes.set! a X).set! b Y } := by
  simp only [translateCell, map_set_tr]

theorem usedN_setTwo {c : Cell R} {a b : Nat} {X Y : Node R} (hX : X.used = true) (hY : Y.used = true) {j : Nat}
    (hj : usedN c j = true) : usedN ({ c with nodes := (c.nodes.set! a X).set! b Y } : Cell R) j = true := by
  obtain ⟨n, hn, hu⟩ := usedN_iff.1 hj
  have hlt := (Array.getElem?_eq_some_iff.1 hn).1
  rw [usedN_iff]
  by_cases hb : b = j
  · subst hb; exact ⟨Y, by simp [hlt], hY⟩
  · by_cases ha : a = j
    · subst ha; exact ⟨X, by simp [hlt, hb], hX⟩
    · exact ⟨n, by simp [ha, hb, hn], hu⟩

theorem splitNodes_mono (k : SplitConsts R) {c : Cell R} {a b : Nat} {na nb : Node R} (hau : na.used = true)
    (hbu : nb.used = true) {j : Nat} (hj : usedN c j = true) : usedN (splitNodes k c a b na nb).1 j = true := by
  unfold splitNodes
  exact usedN_addNode_mono (usedN_setTwo (X := { na with mom := na.mom * k.keep }) (Y := { nb with mom := nb.mom * k.keep }) hau hbu hj)

theorem splitNodes_new (k : SplitConsts R) {c : Cell R} {a b : Nat} {na nb : Node R} (hfh : freeHeadOk c = true) :
    usedN (splitNodes k c a b na nb).1 (splitNodes k c a b na nb).2 = true := by
  unfold splitNodes
  apply usedN_addNode_new
  unfold freeHeadOk at hfh ⊢
  cases hfr : c.freeNodes with
  | nil => rfl
  | cons i rest => rw [hfr] at hfh; simpa using hfh

theorem splitNodes_translate (k : SplitConsts R) (hmid : k.mid + k.mid = 1) (c : Cell R) (a b : Nat) (na nb : Node R)
    (hau : na.used = true) (hbu : nb.used = true) :
    splitNodes k (translateCell t c) a b (trNode t na) (trNode t nb)
      = (translateCell t (splitNodes k c a b na nb).1, (splitNodes k c a b na nb).2) := by
  unfold splitNodes
  have h1 : ({ trNode t na with mom := (trNode t na).mom * k.keep } : Node R) = trNode t { na with mom := na.mom * k.keep } := by
    rw [trNode_mom, trNode_setMom]
  have h2 : ({ trNode t nb with mom := (trNode t nb).mom * k.keep } : Node R) = trNode t { nb with mom := nb.mom * k.keep } := by
    rw [trNode_mom, trNode_setMom]
  rw [h1, h2, trNode_pos_of_used t hau, trNode_pos_of_used t hbu, trNode_mom, trNode_mom, mid_translate t k hmid]
  rw [tr_setTwo, addNode_translate]

theorem splitEdge_translate (fn : Fn R) (k : SplitConsts R) (hmid : k.mid + k.mid = 1) (c : Cell R) (e : Edge)
    (chk : CheckSet) (hl : edgeLive c e = true) (hfh : freeHeadOk c = true) :
    splitEdge fn k (translateCell t c) e chk
      = (splitEdge fn k c e chk).map (fun r => (translateCell t r.1, r.2)) := by
  simp only [edgeLive, Bool.and_eq_true] at hl
  obtain ⟨⟨hua, hub⟩, hfl⟩ := hl
  obtain ⟨na, hna, hnau⟩ := usedN_iff.1 hua
  obtain ⟨nb, hnb, hnbu⟩ := usedN_iff.1 hub
  rw [splitEdge_eq, splitEdge_eq]
  simp only [tr_faces]
  refine bind_map_same (fun f1id h1 => ?_)
  refine bind_map_same (fun f2id h2 => ?_)
  refine bind_map_same (fun f1 h3 => ?_)
  refine bind_map_same (fun f2 h4 => ?_)
  have he1 : e.f1 = some f1id := by opt_ok h1 of e.f1
  have he2 : e.f2 = some f2id := by opt_ok h2 of e.f2
  have hf1 : c.faces[f1id]? = some f1 := by opt_ok h3 of c.faces[f1id]?
  have hf2 : c.faces[f2id]? = some f2 := by opt_ok h4 of c.faces[f2id]?
  have hfl' := edgeFacesLive_iff.1 hfl
  have hu1 : fUsed c f1 = true := by have := hfl'.1 f1id he1; unfold faceLive at this; rw [hf1] at this; exact this
  have hu2 : fUsed c f2 = true := by have := hfl'.2 f2id he2; unfold faceLive at this; rw [hf2] at this; exact this
  rw [tr_getNode, tr_getNode, hna, hnb]
  simp only [Option.map_some, ok_bind]
  refine bind_map_same (fun cc h5 => ?_)
  refine bind_map_same (fun dd h6 => ?_)
  have hcc : oppositeNode f1 e.n1 e.n2 = some cc := by opt_ok h5 of oppositeNode f1 e.n1 e.n2
  have hdd : oppositeNode f2 e.n1 e.n2 = some dd := by opt_ok h6 of oppositeNode f2 e.n1 e.n2
  rw [splitNodes_translate t k hmid c e.n1 e.n2 na nb hnau hnbu]
  have mono : ∀ j, usedN c j = true → usedN (splitNodes k c e.n1 e.n2 na nb).1 j = true :=
    fun j hj => splitNodes_mono k hnau hnbu hj
  have hnew : usedN (splitNodes k c e.n1 e.n2 na nb).1 (splitNodes k c e.n1 e.n2 na nb).2 = true :=
    splitNodes_new k hfh
  exact splitTail_translate t fn _ _ _ _ _ _ _ _ _ _ _ _ chk hnew (mono _ hua) (mono _ hub)
    (mono _ (usedN_of_fUsed hu1 (oppositeNode_mem hcc))) (mono _ (usedN_of_fUsed hu2 (oppositeNode_mem hdd)))


/-! ### `merge_edge` -/

/-- `merge_edge` after `add_node` -/
def mergeTail (fn : Fn R) (c : Cell R) (i a b f1id f2id : Nat) (e : Edge) (chk : CheckSet) :
    Except Err (Cell R × CheckSet) := do
  let (c, delA, creA) ← replaceNode fn c e a i
  let ebi ← (match getEdge c b i with | some x => .ok x | none => .error Err.badopt)
  let (c, delB, creB) ← replaceNode fn c ebi b i
  let c ← deleteFace c f1id
  let c ← deleteFace c f2id
  let chk := (delA ++ delB).foldl (fun s ed => EdgeSet.erase s ed.key) chk
  let keepE (ed : Edge) : Bool :=
    !ed.hasNode a && !ed.hasNode b && ed.n1 != ed.n2 && !ed.hasFace f1id && !ed.hasFace f2id
  let chk := (creA ++ creB).foldl (fun s ed => if keepE ed then (EdgeSet.insert s ed).1 else s) chk
  pure (c, chk)

theorem mergeEdge_eq (fn : Fn R) (k : SplitConsts R) (c : Cell R) (e : Edge) (chk : CheckSet) :
    mergeEdge fn k c e chk = (do
      let f1id ← (match e.f1 with | some x => .ok x | none => .error Err.badopt)
      let f2id ← (match e.f2 with | some x => .ok x | none => .error Err.badopt)
      let na ← (match c.nodes[e.n1]? with | some n => .ok n | none => .error Err.ub)
      let nb ← (match c.nodes[e.n2]? with | some n => .ok n | none => .error Err.ub)
      mergeTail fn (addNode c ((nb.pos + na.pos) * k.mid) (na.mom + nb.mom)).1
        (addNode c ((nb.pos + na.pos) * k.mid) (na.mom + nb.mom)).2 e.n1 e.n2 f1id f2id e chk) := by
  rfl

theorem faceLive_mono_nodes {c c' : Cell R} (hf : c'.faces = c.faces) (hm : ∀ j, usedN c j = true → usedN c' j = true)
    (g : Nat) (hg : faceLive c g = true) : faceLive c' g = true := by
  unfold faceLive at hg ⊢
  rw [hf]
  cases hq : c.faces[g]? with
  | none => rfl
  | some f =>
    rw [hq] at hg
    simp only [fUsed, Bool.and_eq_true] at hg ⊢
    exact ⟨⟨hm _ hg.1.1, hm _ hg.1.2⟩, hm _ hg.2⟩

theorem addNode_faces (c : Cell R) (p m : V3 R) : (addNode c p m).1.faces = c.faces := by
  unfold addNode; cases c.freeNodes <;> rfl
theorem addNode_edges (c : Cell R) (p m : V3 R) : (addNode c p m).1.edges = c.edges := by
  unfold addNode; cases c.freeNodes <;> rfl

theorem mergeTail_translate (fn : Fn R) (c : Cell R) (i a b f1id f2id : Nat) (e : Edge) (chk : CheckSet)
    (hi : usedN c i = true) (hidx : idxFacesLive c = true) (hs : optFaceLive c e.f1 = true)
    (hmid : ∀ r, replaceNode fn c e a i = .ok r → usedN r.1 i = true ∧ idxFacesLive r.1 = true) :
    mergeTail fn (translateCell t c) i a b f1id f2id e chk
      = (mergeTail fn c i a b f1id f2id e chk).map (fun r => (translateCell t r.1, r.2)) := by
  unfold mergeTail
  refine bind_map_rel (replaceNode_translate t fn c e a i hi hidx hs) (fun r1 h1 => ?_)
  obtain ⟨hi2, hidx2⟩ := hmid r1 h1
  obtain ⟨c2, delA, creA⟩ := r1
  simp only [tr_getEdge]
  refine bind_map_same (fun ebi h2 => ?_)
  have hebi : getEdge c2 b i = some ebi := by opt_ok h2 of getEdge c2 b i
  have hmem : ebi ∈ c2.edges := mem_of_find hebi
  have hs2 : optFaceLive c2 ebi.f1 = true := by
    have := List.all_eq_true.1 hidx2 ebi hmem
    simp only [edgeFacesLive, Bool.and_eq_true] at this
    exact this.1
  refine bind_map_rel (replaceNode_translate t fn c2 ebi b i hi2 hidx2 hs2) (fun r3 h3 => ?_)
  obtain ⟨c3, delB, creB⟩ := r3
  refine bind_map_rel (deleteFace_translate t c3 f1id) (fun c4 h4 => ?_)
  refine bind_map_rel (deleteFace_translate t c4 f2id) (fun c5 h5 => ?_)
  rfl

theorem mergeEdge_translate (fn : Fn R) (k : SplitConsts R) (hmid : k.mid + k.mid = 1) (c : Cell R) (e : Edge)
    (chk : CheckSet) (hl : edgeLive c e = true) (hfh : freeHeadOk c = true) (hidx : idxFacesLive c = true)
    (hm : mergeMidLive fn k c e = true) :
    mergeEdge fn k (translateCell t c) e chk
      = (mergeEdge fn k c e chk).map (fun r => (translateCell t r.1, r.2)) := by
  simp only [edgeLive, Bool.and_eq_true] at hl
  obtain ⟨⟨hua, hub⟩, hfl⟩ := hl
  obtain ⟨na, hna, hnau⟩ := usedN_iff.1 hua
  obtain ⟨nb, hnb, hnbu⟩ := usedN_iff.1 hub
  rw [mergeEdge_eq, mergeEdge_eq]
  refine bind_map_same (fun f1id h1 => ?_)
  refine bind_map_same (fun f2id h2 => ?_)
  rw [tr_getNode, tr_getNode, hna, hnb]
  simp only [Option.map_some, ok_bind]
  rw [trNode_pos_of_used t hnau, trNode_pos_of_used t hnbu, trNode_mom, trNode_mom, mid_translate t k hmid,
    addNode_translate]
  have mono : ∀ j, usedN c j = true → usedN (addNode c ((nb.pos + na.pos) * k.mid) (na.mom + nb.mom)).1 j = true :=
    fun j hj => usedN_addNode_mono hj
  have hfm : ∀ g, faceLive c g = true → faceLive (addNode c ((nb.pos + na.pos) * k.mid) (na.mom + nb.mom)).1 g = true :=
    faceLive_mono_nodes (addNode_faces _ _ _) mono
  refine mergeTail_translate t fn _ _ _ _ _ _ e chk (usedN_addNode_new hfh) ?_ ?_ ?_
  · unfold idxFacesLive
    rw [addNode_edges, List.all_eq_true]
    intro y hy
    exact edgeFacesLive_mono hfm (List.all_eq_true.1 hidx y hy)
  · have := edgeFacesLive_mono hfm hfl
    simp only [edgeFacesLive, Bool.and_eq_true] at this
    exact this.1
  · intro r hr
    unfold mergeMidLive at hm
    rw [hna] at hm
    simp only [hnb, hr, Bool.and_eq_true] at hm
    exact hm

/-! ### `swap_edge` -/

theorem faceLive_setFace {c : Cell R} {i : Nat} {w : Face R} (hw : fUsed c w = true) (g : Nat)
    (hg : faceLive c g = true) : faceLive ({ c with faces := c.faces.set! i w } : Cell R) g = true := by
  unfold faceLive at hg ⊢
  by_cases hig : i = g
  · subst hig
    by_cases hlt : i < c.faces.size
    · have : (c.faces.set! i w)[i]? = some w := by simp [hlt]
      simp only [this]; exact hw
    · have : (c.faces.set! i w)[i]? = none := by simp [hlt]
      simp only [this]
  · have : (c.faces.set! i w)[g]? = c.faces[g]? := by simp [hig]
    simp only [this]; exact hg

theorem faceLive_updFaceGeom (fn : Fn R) (c : Cell R) (f g : Nat) (hg : faceLive c g = true) :
    faceLive (updFaceGeom fn c f) g = true := by
  unfold updFaceGeom
  cases hq : c.faces[f]? with
  | none => exact hg
  | some fc =>
    simp only
    have hlt := (Array.getElem?_eq_some_iff.1 hq).1
    unfold faceLive at hg ⊢
    by_cases hfg : f = g
    · subst hfg
      rw [hq] at hg
      have : ∀ w : Face R, (c.faces.set! f w)[f]? = some w := by intro w; simp [hlt]
      simp only [this]
      exact hg
    · have : ∀ w : Face R, (c.faces.set! f w)[g]? = c.faces[g]? := by intro w; simp [hfg]
      simp only [this]
      exact hg

theorem fUsed_checkWinding (c : Cell R) (r f : Face R) (h : fUsed c f = true) : fUsed c (checkWinding r f) = true := by
  unfold checkWinding
  simp only [fUsed, Bool.and_eq_true] at h ⊢
  split
  · split
    · exact ⟨⟨h.2, h.1.2⟩, h.1.1⟩
    · exact h
  · exact h

theorem faceLive_push {c : Cell R} {w : Face R} (hw : fUsed c w = true) (E : EdgeSet) (fF : List Nat) (g : Nat)
    (hg : faceLive c g = true ∨ g = c.faces.size) :
    faceLive ({ c with faces := c.faces.push w, edges := E, freeFaces := fF } : Cell R) g = true := by
  unfold faceLive at hg ⊢
  by_cases hgs : g = c.faces.size
  · subst hgs; simp only [Array.getElem?_push_size]; exact hw
  · rcases hg with hg | hg
    · have hg2 : (c.faces.push w)[g]? = c.faces[g]? := by simp [Array.getElem?_push, hgs]
      simp only [hg2]; exact hg
    · exact absurd hg hgs

theorem faceLive_set' {c : Cell R} {w : Face R} (hw : fUsed c w = true) (E : EdgeSet) (fF : List Nat) (i g : Nat)
    (hg : faceLive c g = true ∨ g = i) :
    faceLive ({ c with faces := c.faces.set! i w, edges := E, freeFaces := fF } : Cell R) g = true := by
  unfold faceLive at hg ⊢
  by_cases hgs : i = g
  · subst hgs
    by_cases hlt : i < c.faces.size
    · have : (c.faces.set! i w)[i]? = some w := by simp [hlt]
      simp only [this]; exact hw
    · have : (c.faces.set! i w)[i]? = none := by simp [hlt]
      simp only [this]
  · rcases hg with hg | hg
    · have hg2 : (c.faces.set! i w)[g]? = c.faces[g]? := by simp [hgs]
      simp only [hg2]; exact hg
    · exact absurd hg.symm hgs

theorem addFace_faceLive {fn : Fn R} {c c' : Cell R} {a b d fid : Nat} (h : addFace fn c a b d = .ok (c', fid))
    (ha : usedN c a = true) (hb : usedN c b = true) (hd : usedN c d = true) :
    faceLive c' fid = true ∧ ∀ g, faceLive c g = true → faceLive c' g = true := by
  have hu : fUsed c ({ n1 := a, n2 := b, n3 := d, typ := 0, normal := zeroV, area := lit 0, used := true } : Face R) = true := by
    simp only [fUsed, ha, hb, hd, Bool.and_self]
  unfold addFace at h
  cases hff : c.freeFaces with
  | nil =>
    simp only [hff] at h
    obtain ⟨s4, _, h⟩ := bind_ok h
    obtain ⟨s5, _, h⟩ := bind_ok h
    obtain ⟨s6, _, h⟩ := bind_ok h
    cases h
    exact ⟨faceLive_updFaceGeom fn _ _ _ (faceLive_push hu _ _ _ (Or.inr rfl)),
      fun g hg => faceLive_updFaceGeom fn _ _ _ (faceLive_push hu _ _ g (Or.inl hg))⟩
  | cons i rest =>
    simp only [hff] at h
    obtain ⟨s4, _, h⟩ := bind_ok h
    obtain ⟨s5, _, h⟩ := bind_ok h
    obtain ⟨s6, _, h⟩ := bind_ok h
    cases h
    exact ⟨faceLive_updFaceGeom fn _ _ _ (faceLive_set' hu _ _ _ _ (Or.inr rfl)),
      fun g hg => faceLive_updFaceGeom fn _ _ _ (faceLive_set' hu _ _ _ g (Or.inl hg))⟩


/-- `swap_edge` from the deletion of the two faces on -/
def swapTail (fn : Fn R) (c : Cell R) (a b cc dd f1id f2id f5 f8 : Nat) : Except Err (Cell R) := do
  let c ← deleteFace c f1id
  let c ← deleteFace c f2id
  let _ ← (match getEdge c a cc with | some x => .ok x | none => .error Err.badopt)
  let _ ← (match getEdge c cc b with | some x => .ok x | none => .error Err.badopt)
  let _ ← (match getEdge c b dd with | some x => .ok x | none => .error Err.badopt)
  let _ ← (match getEdge c dd a with | some x => .ok x | none => .error Err.badopt)
  let (c, f3) ← addFace fn c a dd cc
  let (c, f4) ← addFace fn c b cc dd
  let r5 ← (match c.faces[f5]? with | some f => .ok f | none => .error Err.ub)
  let r8 ← (match c.faces[f8]? with | some f => .ok f | none => .error Err.ub)
  let g3 ← (match c.faces[f3]? with | some f => .ok f | none => .error Err.ub)
  let c := { c with faces := c.faces.set! f3 (checkWinding r5 g3) }
  let g4 ← (match c.faces[f4]? with | some f => .ok f | none => .error Err.ub)
  let c := { c with faces := c.faces.set! f4 (checkWinding r8 g4) }
  let c := updFaceGeom fn (updFaceGeom fn c f3) f4
  let _ ← (match getEdge c a cc with | some x => .ok x | none => .error Err.badopt)
  let _ ← (match getEdge c cc b with | some x => .ok x | none => .error Err.badopt)
  let _ ← (match getEdge c b dd with | some x => .ok x | none => .error Err.badopt)
  let _ ← (match getEdge c dd a with | some x => .ok x | none => .error Err.badopt)
  pure c

theorem swapEdge_eq (fn : Fn R) (c : Cell R) (e : Edge) :
    swapEdge fn c e = (do
      let f1id ← (match e.f1 with | some x => .ok x | none => .error Err.badopt)
      let f2id ← (match e.f2 with | some x => .ok x | none => .error Err.badopt)
      let f1 ← (match c.faces[f1id]? with | some f => .ok f | none => .error Err.ub)
      let f2 ← (match c.faces[f2id]? with | some f => .ok f | none => .error Err.ub)
      let cc ← (match oppositeNode f1 e.n1 e.n2 with | some x => .ok x | none => .error Err.ub)
      let dd ← (match oppositeNode f2 e.n1 e.n2 with | some x => .ok x | none => .error Err.ub)
      let eac ← (match getEdge c e.n1 cc with | some x => .ok x | none => .error Err.badopt)
      let ecb ← (match getEdge c cc e.n2 with | some x => .ok x | none => .error Err.badopt)
      let ebd ← (match getEdge c e.n2 dd with | some x => .ok x | none => .error Err.badopt)
      let eda ← (match getEdge c dd e.n1 with | some x => .ok x | none => .error Err.badopt)
      let f5 ← eac.otherFace f1id
      let f8 ← ecb.otherFace f1id
      let f7 ← ebd.otherFace f2id
      let f6 ← eda.otherFace f2id
      if f5 == f6 || f7 == f8 then pure c else
      if (getEdge c cc dd).isSome then pure c else
      swapTail fn c e.n1 e.n2 cc dd f1id f2id f5 f8) := by
  rfl

theorem updFaceGeom_faces_size (fn : Fn R) (c : Cell R) (f : Nat) : (updFaceGeom fn c f).nodes = c.nodes :=
  (sameNodes_updFaceGeom fn c f).1

theorem swapTail_translate (fn : Fn R) (c : Cell R) (a b cc dd f1id f2id f5 f8 : Nat)
    (ha : usedN c a = true) (hb : usedN c b = true) (hc : usedN c cc = true) (hd : usedN c dd = true) :
    swapTail fn (translateCell t c) a b cc dd f1id f2id f5 f8
      = (swapTail fn c a b cc dd f1id f2id f5 f8).map (translateCell t) := by
  unfold swapTail
  refine bind_map_rel (deleteFace_translate t c f1id) (fun c1 h1 => ?_)
  have s1 := sameNodes_deleteFace h1
  refine bind_map_rel (deleteFace_translate t c1 f2id) (fun c2 h2 => ?_)
  have s2 := s1.trans (sameNodes_deleteFace h2)
  simp only [tr_getEdge]
  refine bind_map_same (fun _ _ => ?_)
  refine bind_map_same (fun _ _ => ?_)
  refine bind_map_same (fun _ _ => ?_)
  refine bind_map_same (fun _ _ => ?_)
  have ha2 : usedN c2 a = true := by rw [usedN_same s2]; exact ha
  have hb2 : usedN c2 b = true := by rw [usedN_same s2]; exact hb
  have hc2 : usedN c2 cc = true := by rw [usedN_same s2]; exact hc
  have hd2 : usedN c2 dd = true := by rw [usedN_same s2]; exact hd
  refine bind_map_rel (addFace_translate t fn c2 a dd cc ha2 hd2 hc2) (fun r3 h3 => ?_)
  obtain ⟨c3, f3⟩ := r3
  have s3 := sameNodes_addFace h3
  have l3 := addFace_faceLive h3 ha2 hd2 hc2
  have hb3 : usedN c3 b = true := by rw [usedN_same s3]; exact hb2
  have hc3 : usedN c3 cc = true := by rw [usedN_same s3]; exact hc2
  have hd3 : usedN c3 dd = true := by rw [usedN_same s3]; exact hd2
  refine bind_map_rel (addFace_translate t fn c3 b cc dd hb3 hc3 hd3) (fun r4 h4 => ?_)
  obtain ⟨c4, f4⟩ := r4
  have l4 := addFace_faceLive h4 hb3 hc3 hd3
  have lf3 : faceLive c4 f3 = true := l4.2 _ l3.1
  have lf4 : faceLive c4 f4 = true := l4.1
  simp only [tr_faces]
  refine bind_map_same (fun r5 _ => ?_)
  refine bind_map_same (fun r8 _ => ?_)
  refine bind_map_same (fun g3 h7 => ?_)
  have hg3 : c4.faces[f3]? = some g3 := by opt_ok h7 of c4.faces[f3]?
  have ug3 : fUsed c4 g3 = true := by unfold faceLive at lf3; rw [hg3] at lf3; exact lf3
  have uw3 := fUsed_checkWinding c4 r5 g3 ug3
  refine bind_map_same (fun g4 h8 => ?_)
  -- the cell after the first winding correction
  have lW : ∀ g, faceLive c4 g = true → faceLive ({ c4 with faces := c4.faces.set! f3 (checkWinding r5 g3) } : Cell R) g = true :=
    fun g hg => faceLive_setFace uw3 g hg
  have hg4 : (c4.faces.set! f3 (checkWinding r5 g3))[f4]? = some g4 := by
    opt_ok h8 of (c4.faces.set! f3 (checkWinding r5 g3))[f4]?
  have ug4 : fUsed c4 g4 = true := by
    have := lW f4 lf4
    unfold faceLive at this
    simp only [hg4] at this
    exact this
  have uw4 : fUsed ({ c4 with faces := c4.faces.set! f3 (checkWinding r5 g3) } : Cell R) (checkWinding r8 g4) = true :=
    fUsed_checkWinding _ r8 g4 ug4
  have lX : ∀ g, faceLive c4 g = true → faceLive ({ c4 with faces := (c4.faces.set! f3 (checkWinding r5 g3)).set! f4 (checkWinding r8 g4) } : Cell R) g = true :=
    fun g hg => faceLive_setFace (c := { c4 with faces := c4.faces.set! f3 (checkWinding r5 g3) }) uw4 g (lW g hg)
  have k1 := updFaceGeom_translate' t fn c4 ((c4.faces.set! f3 (checkWinding r5 g3)).set! f4 (checkWinding r8 g4)) c4.edges
    c4.freeNodes c4.freeNodes c4.freeFaces f3 rfl (lX f3 lf3)
  have k2 := updFaceGeom_translate t fn (updFaceGeom fn { c4 with faces := (c4.faces.set! f3 (checkWinding r5 g3)).set! f4 (checkWinding r8 g4) } f3) f4
    (faceLive_updFaceGeom fn _ _ _ (lX f4 lf4))
  simp only [tr_freeNodes, tr_freeFaces, tr_edges]
  rw [k1, k2]
  simp only [tr_getEdge]
  refine bind_map_same (fun _ _ => ?_)
  refine bind_map_same (fun _ _ => ?_)
  refine bind_map_same (fun _ _ => ?_)
  refine bind_map_same (fun _ _ => ?_)
  rfl

theorem swapEdge_translate (fn : Fn R) (c : Cell R) (e : Edge) (hl : edgeLive c e = true) :
    swapEdge fn (translateCell t c) e = (swapEdge fn c e).map (translateCell t) := by
  simp only [edgeLive, Bool.and_eq_true] at hl
  obtain ⟨⟨hua, hub⟩, hfl⟩ := hl
  rw [swapEdge_eq, swapEdge_eq]
  simp only [tr_faces, tr_getEdge]
  refine bind_map_same (fun f1id h1 => ?_)
  refine bind_map_same (fun f2id h2 => ?_)
  refine bind_map_same (fun f1 h3 => ?_)
  refine bind_map_same (fun f2 h4 => ?_)
  have he1 : e.f1 = some f1id := by opt_ok h1 of e.f1
  have he2 : e.f2 = some f2id := by opt_ok h2 of e.f2
  have hf1 : c.faces[f1id]? = some f1 := by opt_ok h3 of c.faces[f1id]?
  have hf2 : c.faces[f2id]? = some f2 := by opt_ok h4 of c.faces[f2id]?
  have hfl' := edgeFacesLive_iff.1 hfl
  have hu1 : fUsed c f1 = true := by have := hfl'.1 f1id he1; unfold faceLive at this; rw [hf1] at this; exact this
  have hu2 : fUsed c f2 = true := by have := hfl'.2 f2id he2; unfold faceLive at this; rw [hf2] at this; exact this
  refine bind_map_same (fun cc h5 => ?_)
  refine bind_map_same (fun dd h6 => ?_)
  have hcc : oppositeNode f1 e.n1 e.n2 = some cc := by opt_ok h5 of oppositeNode f1 e.n1 e.n2
  have hdd : oppositeNode f2 e.n1 e.n2 = some dd := by opt_ok h6 of oppositeNode f2 e.n1 e.n2
  refine bind_map_same (fun eac _ => ?_)
  refine bind_map_same (fun ecb _ => ?_)
  refine bind_map_same (fun ebd _ => ?_)
  refine bind_map_same (fun eda _ => ?_)
  refine bind_map_same (fun f5 _ => ?_)
  refine bind_map_same (fun f8 _ => ?_)
  refine bind_map_same (fun f7 _ => ?_)
  refine bind_map_same (fun f6 _ => ?_)
  by_cases hp : (f5 == f6 || f7 == f8) = true
  · simp only [hp, if_true]; rfl
  · simp only [hp]
    by_cases hq : (getEdge c cc dd).isSome = true
    · simp only [hq, if_true]; rfl
    · simp only [hq]
      exact swapTail_translate t fn c _ _ _ _ _ _ _ _ hua hub (usedN_of_fUsed hu1 (oppositeNode_mem hcc))
        (usedN_of_fUsed hu2 (oppositeNode_mem hdd))


/-! ### the swap pass -/

theorem sub_translate (p q : V3 R) : p + t - (q + t) = p - q := by apply V3.ext' <;> simp

theorem triangleScore_translate (fn : Fn R) (k : RefineConsts R) (c : Cell R) (f : Face R) (hf : fUsed c f = true) :
    triangleScore fn k (translateCell t c) f = triangleScore fn k c f := by
  simp only [fUsed, Bool.and_eq_true] at hf
  unfold triangleScore
  simp only [tr_posOf t hf.1.1, tr_posOf t hf.1.2, tr_posOf t hf.2, sub_translate, tr_getEdge]

theorem swapLoop_translate (fn : Fn R) (k : RefineConsts R) (fuel : Nat) : ∀ (i : Nat) (c : Cell R),
    liveSwapLoop fn k fuel i c = true →
    removeElongated.loop fn k fuel i (translateCell t c) = (removeElongated.loop fn k fuel i c).map (translateCell t)
      ∧ liveSwapLoop fn k fuel i (translateCell t c) = true := by
  induction fuel with
  | zero => intro i c _; unfold removeElongated.loop liveSwapLoop; exact ⟨rfl, rfl⟩
  | succ fuel ih =>
    intro i c hl
    unfold removeElongated.loop
    unfold liveSwapLoop at hl ⊢
    simp only [tr_faces]
    by_cases hsz : c.faces.size ≤ i
    · simp only [hsz, if_true]; exact ⟨rfl, trivial⟩
    · simp only [hsz, if_false] at hl ⊢
      cases hf : c.faces[i]? with
      | none => simp only []; exact ⟨rfl, trivial⟩
      | some f =>
        simp only [hf] at hl ⊢
        by_cases hu : (!f.used) = true
        · simp only [if_pos hu] at hl ⊢
          exact ih _ _ hl
        · simp only [if_neg hu] at hl ⊢
          rw [Bool.and_eq_true] at hl
          obtain ⟨hfu, hl⟩ := hl
          rw [triangleScore_translate t fn k c f hfu]
          simp only [tr_fUsed, hfu, Bool.true_and]
          cases hts : triangleScore fn k c f with
          | error x => exact ⟨rfl, rfl⟩
          | ok r =>
            obtain ⟨score, le⟩ := r
            simp only [hts] at hl
            simp only []
            by_cases hsc : score < k.scoreMin
            · simp only [if_pos hsc] at hl ⊢
              rw [Bool.and_eq_true] at hl
              obtain ⟨hle, hl⟩ := hl
              rw [swapEdge_translate t fn c le hle]
              simp only [tr_edgeLive, hle, Bool.true_and]
              cases hsw : swapEdge fn c le with
              | error x => exact ⟨rfl, rfl⟩
              | ok c' =>
                simp only [hsw] at hl
                exact ih _ _ hl
            · simp only [if_neg hsc] at hl ⊢
              exact ih _ _ hl

/-- `remove_elongated_triangles` -/
theorem removeElongated_translate (fn : Fn R) (k : RefineConsts R) (c : Cell R)
    (hl : liveSwapLoop fn k (2 * c.faces.size + 8) 0 c = true) :
    removeElongated fn k (translateCell t c) = (removeElongated fn k c).map (translateCell t) := by
  unfold removeElongated
  exact (swapLoop_translate t fn k _ 0 c hl).1

/-! ### the refinement loop -/

theorem addNode_live (c : Cell R) (p m : V3 R) (e : Edge) (hfl : edgeFacesLive c e = true) (hfh : freeHeadOk c = true)
    (hidx : idxFacesLive c = true) :
    usedN (addNode c p m).1 (addNode c p m).2 = true ∧ idxFacesLive (addNode c p m).1 = true
      ∧ optFaceLive (addNode c p m).1 e.f1 = true := by
  have mono : ∀ j, usedN c j = true → usedN (addNode c p m).1 j = true := fun j hj => usedN_addNode_mono hj
  have hfm : ∀ g, faceLive c g = true → faceLive (addNode c p m).1 g = true :=
    faceLive_mono_nodes (addNode_faces _ _ _) mono
  refine ⟨usedN_addNode_new hfh, ?_, ?_⟩
  · unfold idxFacesLive
    rw [addNode_edges, List.all_eq_true]
    intro y hy
    exact edgeFacesLive_mono hfm (List.all_eq_true.1 hidx y hy)
  · have := edgeFacesLive_mono hfm hfl
    simp only [edgeFacesLive, Bool.and_eq_true] at this
    exact this.1

theorem mergeMidLive_translate (fn : Fn R) (k : SplitConsts R) (hmid : k.mid + k.mid = 1) (c : Cell R) (e : Edge)
    (hl : edgeLive c e = true) (hfh : freeHeadOk c = true) (hidx : idxFacesLive c = true) :
    mergeMidLive fn k (translateCell t c) e = mergeMidLive fn k c e := by
  simp only [edgeLive, Bool.and_eq_true] at hl
  obtain ⟨⟨hua, hub⟩, hfl⟩ := hl
  obtain ⟨na, hna, hnau⟩ := usedN_iff.1 hua
  obtain ⟨nb, hnb, hnbu⟩ := usedN_iff.1 hub
  unfold mergeMidLive
  rw [tr_getNode, tr_getNode, hna, hnb]
  simp only [Option.map_some]
  rw [trNode_pos_of_used t hnau, trNode_pos_of_used t hnbu, trNode_mom, trNode_mom, mid_translate t k hmid,
    addNode_translate]
  obtain ⟨h1, h2, h3⟩ := addNode_live c ((nb.pos + na.pos) * k.mid) (na.mom + nb.mom) e hfl hfh hidx
  simp only []
  rw [replaceNode_translate t fn _ e e.n1 _ h1 h2 h3]
  cases replaceNode fn (addNode c ((nb.pos + na.pos) * k.mid) (na.mom + nb.mom)).1 e e.n1
      (addNode c ((nb.pos + na.pos) * k.mid) (na.mom + nb.mom)).2 with
  | error x => rfl
  | ok r => simp only [map_ok, tr_usedN, tr_idxFacesLive]


/-- the result of a pass, placed `t` further -/
def trResult (r : Cell R × Outcome × Log R) : Cell R × Outcome × Log R := (translateCell t r.1, r.2.1, r.2.2)

theorem len2_translate {c : Cell R} {e : Edge} (ha : usedN c e.n1 = true) (hb : usedN c e.n2 = true) :
    len2 (translateCell t c) e = len2 c e := by
  unfold len2
  rw [tr_posOf t ha, tr_posOf t hb, sub_translate]

theorem liveLoop_cons (fn : Fn R) (k : RefineConsts R) (lminSq lmaxSq : R) (fuel : Nat) (c : Cell R) (e : Edge)
    (rest : CheckSet) (iter : Nat) (h : iter < c.edges.length) :
    liveLoop fn k lminSq lmaxSq (fuel + 1) c (e :: rest) iter =
      (edgeLive c e && freeHeadOk c &&
      (if lmaxSq < len2 c e then
        match splitEdge fn k.split c e rest with
        | .error _ => true
        | .ok r => liveLoop fn k lminSq lmaxSq fuel r.1 r.2 (iter + 1)
      else if len2 c e < lminSq then
        match canBeMerged c e with
        | .error _ => true
        | .ok false => liveLoop fn k lminSq lmaxSq fuel c rest iter
        | .ok true =>
          idxFacesLive c && mergeMidLive fn k.split c e &&
          match mergeEdge fn k.split c e rest with
          | .error _ => true
          | .ok r => liveLoop fn k lminSq lmaxSq fuel r.1 r.2 (iter + 1)
      else liveLoop fn k lminSq lmaxSq fuel c rest iter)) := by
  conv_lhs => unfold liveLoop
  simp only [h, if_true]
  rfl

theorem liveLoop_stop (fn : Fn R) (k : RefineConsts R) (lminSq lmaxSq : R) (fuel : Nat) (c : Cell R)
    (chk : CheckSet) (iter : Nat) (h : chk = [] ∨ c.edges.length ≤ iter) :
    liveLoop fn k lminSq lmaxSq fuel c chk iter = true := by
  cases fuel with
  | zero => unfold liveLoop; rfl
  | succ fuel =>
    cases chk with
    | nil => unfold liveLoop; rfl
    | cons e rest =>
      rcases h with h | h
      · cases h
      · unfold liveLoop
        simp only [Nat.not_lt.2 h, if_false]

theorem refineLoop_translate (fn : Fn R) (k : RefineConsts R) (hmid : k.split.mid + k.split.mid = 1) (lminSq lmaxSq : R)
    (fuel : Nat) : ∀ (c : Cell R) (chk : CheckSet) (iter : Nat) (log : Log R),
    liveLoop fn k lminSq lmaxSq fuel c chk iter = true →
    refineMesh.loop fn k lminSq lmaxSq fuel (translateCell t c) chk iter log
        = trResult t (refineMesh.loop fn k lminSq lmaxSq fuel c chk iter log)
      ∧ liveLoop fn k lminSq lmaxSq fuel (translateCell t c) chk iter = true := by
  induction fuel with
  | zero =>
    intro c chk iter log _
    rw [loop_zero, loop_zero]
    exact ⟨rfl, by unfold liveLoop; rfl⟩
  | succ fuel ih =>
    intro c chk iter log hl
    by_cases hstop : chk = [] ∨ c.edges.length ≤ iter
    · rw [loop_stop _ _ _ _ _ _ _ _ _ hstop, loop_stop _ _ _ _ _ _ _ _ _ (by exact hstop)]
      exact ⟨rfl, liveLoop_stop _ _ _ _ _ _ _ _ (by exact hstop)⟩
    · have hne : chk ≠ [] := fun h => hstop (Or.inl h)
      have hlt : iter < c.edges.length := by
        rcases Nat.lt_or_ge iter c.edges.length with h | h
        · exact h
        · exact absurd (Or.inr h) hstop
      obtain ⟨e, rest, rfl⟩ : ∃ e rest, chk = e :: rest := by
        cases chk with
        | nil => exact absurd rfl hne
        | cons e rest => exact ⟨e, rest, rfl⟩
      rw [liveLoop_cons _ _ _ _ _ _ _ _ _ hlt] at hl
      rw [liveLoop_cons _ _ _ _ _ _ _ _ _ (by exact hlt), loop_cons _ _ _ _ _ _ _ _ _ _ hlt,
        loop_cons _ _ _ _ _ _ _ _ _ _ (by exact hlt)]
      simp only [Bool.and_eq_true] at hl
      obtain ⟨⟨hel, hfh⟩, hl⟩ := hl
      have hel' := hel
      simp only [edgeLive, Bool.and_eq_true] at hel'
      rw [len2_translate t hel'.1.1 hel'.1.2]
      simp only [tr_edgeLive, tr_freeHeadOk, hel, hfh, Bool.true_and, tr_idxFacesLive]
      by_cases h1 : lmaxSq < len2 c e
      · simp only [if_pos h1] at hl ⊢
        rw [splitEdge_translate t fn k.split hmid c e rest hel hfh]
        cases hs : splitEdge fn k.split c e rest with
        | error x => exact ⟨rfl, rfl⟩
        | ok r =>
          simp only [hs] at hl
          exact ih _ _ _ _ hl
      · simp only [if_neg h1] at hl ⊢
        by_cases h2 : len2 c e < lminSq
        · simp only [if_pos h2] at hl ⊢
          rw [canBeMerged_translate]
          cases hcm : canBeMerged c e with
          | error x => exact ⟨rfl, rfl⟩
          | ok b =>
            cases b with
            | false =>
              simp only [hcm] at hl
              exact ih _ _ _ _ hl
            | true =>
              simp only [hcm, Bool.and_eq_true] at hl
              obtain ⟨⟨hidx, hmm⟩, hl⟩ := hl
              rw [mergeEdge_translate t fn k.split hmid c e rest hel hfh hidx hmm,
                mergeMidLive_translate t fn k.split hmid c e hel hfh hidx]
              simp only [hidx, hmm, Bool.true_and]
              cases hme : mergeEdge fn k.split c e rest with
              | error x => exact ⟨rfl, rfl⟩
              | ok r =>
                simp only [hme] at hl
                exact ih _ _ _ _ hl
        · simp only [if_neg h2] at hl ⊢
          exact ih _ _ _ _ hl

/-! ### the whole pass -/

theorem refineMesh_translate_aux (fn : Fn R) (k : RefineConsts R) (hmid : k.split.mid + k.split.mid = 1)
    (lminSq lmaxSq : R) (swapOn : Bool) (c : Cell R) (maxIter : Nat)
    (hl : refineLive fn k lminSq lmaxSq swapOn c maxIter = true) :
    refineMesh fn k lminSq lmaxSq swapOn (translateCell t c) maxIter
        = trResult t (refineMesh fn k lminSq lmaxSq swapOn c maxIter)
      ∧ refineLive fn k lminSq lmaxSq swapOn (translateCell t c) maxIter = true := by
  unfold refineMesh
  unfold refineLive at hl ⊢
  cases swapOn with
  | false =>
    simp only [Bool.false_eq_true, if_false] at hl ⊢
    exact refineLoop_translate t fn k hmid lminSq lmaxSq maxIter c c.edges 0 [] hl
  | true =>
    simp only [if_true, Bool.and_eq_true, tr_faces] at hl ⊢
    obtain ⟨hsw, hl⟩ := hl
    rw [removeElongated_translate t fn k c hsw]
    have hsw' := (swapLoop_translate t fn k _ 0 c hsw).2
    cases hre : removeElongated fn k c with
    | error x => exact ⟨rfl, hsw', rfl⟩
    | ok c' =>
      simp only [hre] at hl
      have := refineLoop_translate t fn k hmid lminSq lmaxSq maxIter c' c'.edges 0 [] hl
      exact ⟨this.1, hsw', this.2⟩

theorem trNode_inv (n : Node R) : trNode (-t) (trNode t n) = n := by
  cases n with
  | mk pos mom used =>
    cases used with
    | false => rfl
    | true =>
      show ({ pos := pos + t + -t, mom := mom, used := true } : Node R) = _
      congr 1
      apply V3.ext' <;> simp

theorem translateCell_inv (c : Cell R) : translateCell (-t) (translateCell t c) = c := by
  unfold translateCell
  cases c with
  | mk nodes faces edges fn ff =>
    simp only [Cell.mk.injEq, and_true]
    apply Array.ext_getElem?
    intro i
    simp only [Array.getElem?_map, Option.map_map]
    cases nodes[i]? with
    | none => rfl
    | some n => simp only [Option.map_some, Function.comp, trNode_inv]

/-- **the "no released slot is read" check does not depend on where the cell is** -/
theorem refineLive_translate (fn : Fn R) (k : RefineConsts R) (hmid : k.split.mid + k.split.mid = 1)
    (lminSq lmaxSq : R) (swapOn : Bool) (c : Cell R) (maxIter : Nat) :
    refineLive fn k lminSq lmaxSq swapOn (translateCell t c) maxIter = refineLive fn k lminSq lmaxSq swapOn c maxIter := by
  rw [Bool.eq_iff_iff]
  constructor
  · intro h
    have := (refineMesh_translate_aux (-t) fn k hmid lminSq lmaxSq swapOn (translateCell t c) maxIter h).2
    rwa [translateCell_inv] at this
  · intro h
    exact (refineMesh_translate_aux t fn k hmid lminSq lmaxSq swapOn c maxIter h).2

/-- **`refine_mesh` commutes with the translation**: same outcome (returned / the same exception), same operation log,
    same connectivity, bookkeeping, free lists and edge index, momenta; every position — those of the nodes created by the
    pass included — shifted by `t` -/
theorem refineMesh_translate (fn : Fn R) (k : RefineConsts R) (hmid : k.split.mid + k.split.mid = 1)
    (lminSq lmaxSq : R) (swapOn : Bool) (c : Cell R) (maxIter : Nat)
    (hl : refineLive fn k lminSq lmaxSq swapOn c maxIter = true) :
    refineMesh fn k lminSq lmaxSq swapOn (translateCell t c) maxIter
      = trResult t (refineMesh fn k lminSq lmaxSq swapOn c maxIter) :=
  (refineMesh_translate_aux t fn k hmid lminSq lmaxSq swapOn c maxIter hl).1

/-! ### `cell::rebase` -/

theorem zipIdx_map_filter {α β : Type} (f : α → β) (q : Nat → Bool) (l : List α) (k : Nat) :
    List.filter (fun p => q p.2) ((l.map f).zipIdx k) = (List.filter (fun p => q p.2) (l.zipIdx k)).map (fun p => (f p.1, p.2)) := by
  induction l generalizing k with
  | nil => rfl
  | cons x xs ih =>
    simp only [List.map_cons, List.zipIdx_cons, List.filter_cons]
    by_cases hq : q k = true
    · simp only [hq, if_true, List.map_cons, ih]
    · have hq' : q k = false := by simpa using hq
      simp [hq', ih]

theorem rebase_translate (c : Cell R) : rebase (translateCell t c) = (rebase c).map (translateCell t) := by
  have hk : List.filter (fun p => !c.freeNodes.contains p.2) (translateCell t c).nodes.toList.zipIdx
      = (List.filter (fun p => !c.freeNodes.contains p.2) c.nodes.toList.zipIdx).map (fun p => (trNode t p.1, p.2)) := by
    rw [tr_nodes, Array.toList_map]
    exact zipIdx_map_filter (trNode t) (fun i => !c.freeNodes.contains i) c.nodes.toList 0
  unfold rebase
  simp only [tr_freeFaces, tr_freeNodes, tr_faces, tr_edges, hk, List.map_map, Function.comp_def]
  generalize List.filter (fun p => !c.freeNodes.contains p.2) c.nodes.toList.zipIdx = kept
  by_cases hN : c.freeNodes.isEmpty = true
  · simp only [hN, if_true]
    by_cases hF : c.freeFaces.isEmpty = true
    · simp only [hF, Bool.and_self, Bool.not_true, Bool.false_eq_true, if_false, if_true]
      rfl
    · simp only [hF, Bool.false_and, Bool.not_false, if_true, if_false]
      refine bind_map_same (fun s _ => ?_)
      rfl
  · simp only [hN, Bool.false_eq_true, if_false, Bool.and_false, Bool.not_false, if_true]
    refine bind_map_same (fun s _ => ?_)
    show Except.ok _ = Except.ok _
    congr 1
    unfold translateCell
    simp only [Cell.mk.injEq, and_true, true_and]
    simp

/-- the midpoint factor of `split_edge` / `merge_edge`, as written in the source, is one half -/
theorem gen_mid (fn : Fn R) : (Gen.refineConsts fn).split.mid + (Gen.refineConsts fn).split.mid = 1 := by
  simp only [Gen.refineConsts, Gen.splitConsts, lit_one, lit_two]
  exact add_halves 1

/-- `refineMesh_translate` with the constants of the source -/
theorem refineMesh_translate_gen (fn : Fn R) (lminSq lmaxSq : R) (swapOn : Bool) (c : Cell R) (maxIter : Nat)
    (hl : refineLive fn (Gen.refineConsts fn) lminSq lmaxSq swapOn c maxIter = true) :
    refineMesh fn (Gen.refineConsts fn) lminSq lmaxSq swapOn (translateCell t c) maxIter
      = trResult t (refineMesh fn (Gen.refineConsts fn) lminSq lmaxSq swapOn c maxIter) :=
  refineMesh_translate t fn _ (gen_mid fn) lminSq lmaxSq swapOn c maxIter hl

theorem refineLive_translate_gen (fn : Fn R) (lminSq lmaxSq : R) (swapOn : Bool) (c : Cell R) (maxIter : Nat) :
    refineLive fn (Gen.refineConsts fn) lminSq lmaxSq swapOn (translateCell t c) maxIter
      = refineLive fn (Gen.refineConsts fn) lminSq lmaxSq swapOn c maxIter :=
  refineLive_translate t fn _ (gen_mid fn) lminSq lmaxSq swapOn c maxIter
end Simu.Remesh
