import SimuVerif.Lemmas.C12_Flood
import SimuVerif.Lemmas.C13_Edges
import SimuVerif.Lemmas.C13_Sphere
/-
  C13 — the flood fill of `check_face_normal_orientation` (model: `Geo.floodInit / floodStep / floodRun`) builds a
  spanning tree of consistently oriented adjacencies: every face that is reached leaves with the orientation opposite
  (across the common edge) to the face it was reached from, and is never rewound again.  No orientability hypothesis:
  only that the faces are non-degenerate and that the neighbour lookup returns a face sharing the edge (`NbOK`, which
  `C13_Edges.nbr_spec` proves for the edge set of `generate_edge_set`).
-/
set_option linter.unusedSimpArgs false
set_option linter.unusedVariables false
namespace Simu.C13
open Simu Simu.Geo Simu.Gen.Geometry

/-! ### relative winding, for every pair of non-degenerate faces that share an edge -/

/-- the checked face traverses the common edge against the reference face: it is kept
    (`w = x` allowed: the two faces may have all three nodes in common) -/
theorem winding_keep (u v w x : Nat) (huv : u ≠ v) (huw : u ≠ w) (hvw : v ≠ w) (hux : u ≠ x) (hvx : v ≠ x)
    (r c : Tri) (hr : r ∈ rots u v w) (hc : c ∈ rots v u x) : checkWinding r c = some c := by
  simp only [rots, List.mem_cons, List.mem_nil_iff, or_false] at hr hc
  by_cases hwx : w = x
  · subst hwx
    rcases hr with rfl | rfl | rfl <;> rcases hc with rfl | rfl | rfl <;>
      simp [checkWinding, commonIdx, windingTable, Tri.at, swap13, sameOrder, windingSwapWhen, windingSwap,
        swapMembers, huv, huv.symm, huw, huw.symm, hvw, hvw.symm]
  · have hxw : x ≠ w := fun e => hwx e.symm
    rcases hr with rfl | rfl | rfl <;> rcases hc with rfl | rfl | rfl <;>
      simp [checkWinding, commonIdx, windingTable, Tri.at, swap13, sameOrder, windingSwapWhen, windingSwap,
        swapMembers, huv, huv.symm, huw, huw.symm, hvw, hvw.symm, hux, hux.symm, hvx, hvx.symm, hwx, hxw]

/-- the checked face traverses the common edge like the reference face: it is reversed -/
theorem winding_flip (u v w x : Nat) (huv : u ≠ v) (huw : u ≠ w) (hvw : v ≠ w) (hux : u ≠ x) (hvx : v ≠ x)
    (r c : Tri) (hr : r ∈ rots u v w) (hc : c ∈ rots u v x) : checkWinding r c = some (swap13 c) := by
  simp only [rots, List.mem_cons, List.mem_nil_iff, or_false] at hr hc
  by_cases hwx : w = x
  · subst hwx
    rcases hr with rfl | rfl | rfl <;> rcases hc with rfl | rfl | rfl <;>
      simp [checkWinding, commonIdx, windingTable, Tri.at, swap13, sameOrder, windingSwapWhen, windingSwap,
        swapMembers, huv, huv.symm, huw, huw.symm, hvw, hvw.symm]
  · have hxw : x ≠ w := fun e => hwx e.symm
    rcases hr with rfl | rfl | rfl <;> rcases hc with rfl | rfl | rfl <;>
      simp [checkWinding, commonIdx, windingTable, Tri.at, swap13, sameOrder, windingSwapWhen, windingSwap,
        swapMembers, huv, huv.symm, huw, huw.symm, hvw, hvw.symm, hux, hux.symm, hvx, hvx.symm, hwx, hxw]

theorem rots_of_key {t : Tri} (hn : TriND t) {k : Surface.HE} (hk : k ∈ keys t) :
    ∃ u v w, u ≠ v ∧ u ≠ w ∧ v ≠ w ∧ t ∈ rots u v w ∧ k = Surface.normHE (u, v) := by
  obtain ⟨a, b, c⟩ := t
  obtain ⟨h1, h2, h3⟩ := hn
  simp only at h1 h2 h3
  simp only [keys, List.mem_cons, List.mem_nil_iff, or_false] at hk
  rcases hk with rfl | rfl | rfl
  · exact ⟨a, b, c, h1, fun e => h3 e.symm, h2, by simp [rots], rfl⟩
  · exact ⟨b, c, a, h2, fun e => h1 e.symm, h3, by simp [rots], rfl⟩
  · exact ⟨c, a, b, h3, fun e => h2 e.symm, h1, by simp [rots], rfl⟩

theorem dir_of_rots {t : Tri} {u v w : Nat} (h : t ∈ rots u v w) : (u, v) ∈ dirs t := by
  simp only [rots, List.mem_cons, List.mem_nil_iff, or_false] at h
  rcases h with rfl | rfl | rfl <;> simp [dirs]

theorem mem_dirs_swap13 (t : Tri) (a b : Nat) : (a, b) ∈ dirs (swap13 t) ↔ (b, a) ∈ dirs t :=
  mem_heTri_swap13 t a b

/-- **relative winding**: whatever the windings of two non-degenerate faces that have an (undirected) edge in common,
    after `check_face_winding_order(ref, f)` the face `f` — kept or reversed — traverses a common edge in the direction
    opposite to `ref` -/
theorem winding_cons {r c : Tri} (hr : TriND r) (hc : TriND c) {k : Surface.HE} (kr : k ∈ keys r) (kc : k ∈ keys c) :
    ∃ c', checkWinding r c = some c' ∧ (c' = c ∨ c' = swap13 c) ∧ ∃ a b, (a, b) ∈ dirs r ∧ (b, a) ∈ dirs c' := by
  obtain ⟨u, v, w, huv, huw, hvw, hr', rfl⟩ := rots_of_key hr kr
  obtain ⟨u', v', x, huv', hux', hvx', hc', hk⟩ := rots_of_key hc kc
  rcases (normHE_eq_iff (u, v) u' v').mp hk with e | e
  · obtain ⟨rfl, rfl⟩ := Prod.mk.inj e
    refine ⟨swap13 c, winding_flip u v w x huv huw hvw hux' hvx' r c hr' hc', Or.inr rfl, u, v, dir_of_rots hr', ?_⟩
    exact (mem_dirs_swap13 c v u).mpr (dir_of_rots hc')
  · obtain ⟨rfl, rfl⟩ := Prod.mk.inj e
    exact ⟨c, winding_keep u v w x huv huw hvw hvx' hux' r c hr' hc', Or.inl rfl, u, v,
      dir_of_rots hr', dir_of_rots hc'⟩

/-! ### reversing a face keeps its edges, its nodes and its non-degeneracy -/

theorem keys_swap13 (t : Tri) : ((keys (swap13 t) : List Surface.HE) : Multiset Surface.HE) = (keys t : Multiset Surface.HE) := by
  obtain ⟨a, b, c⟩ := t
  simp only [keys, swap13]
  rw [normHE_comm c b, normHE_comm b a, normHE_comm a c]
  apply Quotient.sound
  show List.Perm _ _
  exact List.Perm.swap _ _ _

theorem keys_swap23 (t : Tri) : ((keys (swap23 t) : List Surface.HE) : Multiset Surface.HE) = (keys t : Multiset Surface.HE) := by
  obtain ⟨a, b, c⟩ := t
  simp only [keys, swap23]
  rw [normHE_comm a c, normHE_comm c b, normHE_comm b a]
  apply Quotient.sound
  show List.Perm _ _
  exact List.reverse_perm [_, _, _]

theorem mem_keys_swap13 {t : Tri} {k : Surface.HE} : k ∈ keys (swap13 t) ↔ k ∈ keys t := by
  have := keys_swap13 t
  constructor
  · intro h
    have h' : k ∈ ((keys (swap13 t) : List Surface.HE) : Multiset Surface.HE) := h
    rw [this] at h'; exact h'
  · intro h
    have h' : k ∈ ((keys t : List Surface.HE) : Multiset Surface.HE) := h
    rw [← this] at h'; exact h'

theorem triND_swap13 {t : Tri} (h : TriND t) : TriND (swap13 t) := by
  obtain ⟨a, b, c⟩ := t
  obtain ⟨h1, h2, h3⟩ := h
  exact ⟨fun e => h2 e.symm, fun e => h1 e.symm, fun e => h3 e.symm⟩

theorem triND_swap23 {t : Tri} (h : TriND t) : TriND (swap23 t) := by
  obtain ⟨a, b, c⟩ := t
  obtain ⟨h1, h2, h3⟩ := h
  exact ⟨fun e => h3 e.symm, fun e => h2 e.symm, fun e => h1 e.symm⟩

theorem mem_dirs_swap23 (t : Tri) (a b : Nat) : (a, b) ∈ dirs (swap23 t) ↔ (b, a) ∈ dirs t := by
  obtain ⟨i, j, k⟩ := t
  simp only [dirs, swap23, List.mem_cons, Prod.mk.injEq, List.mem_nil_iff, or_false]
  constructor
  · rintro (⟨rfl, rfl⟩ | ⟨rfl, rfl⟩ | ⟨rfl, rfl⟩) <;> simp
  · rintro (⟨rfl, rfl⟩ | ⟨rfl, rfl⟩ | ⟨rfl, rfl⟩) <;> simp

/-- `t'` is `t`, possibly reversed (by either of the two transpositions the code uses) -/
def Sim (t' t : Tri) : Prop := t' = t ∨ t' = swap13 t ∨ t' = swap23 t ∨ t' = swap23 (swap13 t)

theorem sim_keys {t' t : Tri} (h : Sim t' t) :
    ((keys t' : List Surface.HE) : Multiset Surface.HE) = (keys t : Multiset Surface.HE) := by
  rcases h with rfl | rfl | rfl | rfl
  · rfl
  · exact keys_swap13 t
  · exact keys_swap23 t
  · rw [keys_swap23, keys_swap13]

theorem sim_nd {t' t : Tri} (h : Sim t' t) (hn : TriND t) : TriND t' := by
  rcases h with rfl | rfl | rfl | rfl
  · exact hn
  · exact triND_swap13 hn
  · exact triND_swap23 hn
  · exact triND_swap23 (triND_swap13 hn)

theorem sim_verts {t' t : Tri} (h : Sim t' t) (x : Nat) :
    (x = t'.1 ∨ x = t'.2.1 ∨ x = t'.2.2) ↔ (x = t.1 ∨ x = t.2.1 ∨ x = t.2.2) := by
  obtain ⟨a, b, c⟩ := t
  rcases h with rfl | rfl | rfl | rfl <;> simp only [swap13, swap23] <;> tauto

/-- face by face the same triangles up to reversal -/
def Rew (T' T : List Tri) : Prop :=
  T'.length = T.length ∧ ∀ (f : Nat) (t : Tri), T[f]? = some t → ∃ t', T'[f]? = some t' ∧ Sim t' t

theorem rew_facts : ∀ (T T' : List Tri), Rew T' T →
    (Surface.heM T').map Surface.normHE = (Surface.heM T).map Surface.normHE ∧ Surface.vertsF T' = Surface.vertsF T ∧
    (Surface.NonDeg T → Surface.NonDeg T') := by
  intro T
  induction T with
  | nil =>
    intro T' ⟨hl, _⟩
    have : T' = [] := List.length_eq_zero_iff.mp (by simpa using hl)
    subst this
    exact ⟨rfl, rfl, fun h => h⟩
  | cons t T ih =>
    intro T' ⟨hl, hp⟩
    cases T' with
    | nil => simp at hl
    | cons t' T'' =>
      obtain ⟨t1, h1, hs⟩ := hp 0 t (by simp)
      simp only [List.getElem?_cons_zero, Option.some.injEq] at h1
      subst h1
      have hrest : Rew T'' T := by
        refine ⟨by simpa using hl, ?_⟩
        intro f tt hf
        obtain ⟨tt', h1, h2⟩ := hp (f + 1) tt (by simpa using hf)
        exact ⟨tt', by simpa using h1, h2⟩
      obtain ⟨i1, i2, i3⟩ := ih T'' hrest
      refine ⟨?_, ?_, ?_⟩
      · rw [Surface.heM_cons, Surface.heM_cons, Multiset.map_add, Multiset.map_add, i1, map_norm_heTriM, map_norm_heTriM,
          sim_keys hs]
      · ext x
        rw [Surface.mem_vertsF_cons, Surface.mem_vertsF_cons, i2, sim_verts hs]
      · intro hn tt htt
        rcases List.mem_cons.mp htt with rfl | h
        · exact sim_nd hs (hn t (by simp))
        · exact i3 (fun t2 ht2 => hn t2 (List.mem_cons_of_mem _ ht2)) tt h

theorem rew_edgeTwo {T T' : List Tri} (h : Rew T' T) (h2 : EdgeTwo T) : EdgeTwo T' := by
  intro k; rw [(rew_facts T T' h).1]; exact h2 k

theorem rew_chi {T T' : List Tri} (h : Rew T' T) : Surface.chiZ T' = Surface.chiZ T := by
  obtain ⟨h1, h2, _⟩ := rew_facts T T' h
  have he : Surface.edgesF T' = Surface.edgesF T := by
    ext k; rw [mem_edgesF', mem_edgesF', h1]
  have hl := h.1
  unfold Surface.chiZ; rw [h2, he, hl]

/-! ### the invariant of the flood fill -/

/-- what the neighbour lookup must guarantee: the face it returns is another face containing the same edge -/
def NbOK (T0 : List Tri) (nb : Nat → Nat → Nat → Option Nat) : Prop :=
  ∀ (f : Nat) (tf : Tri) (a b g : Nat), T0[f]? = some tf → Surface.normHE (a, b) ∈ keys tf → nb f a b = some g →
    ∃ tg, T0[g]? = some tg ∧ g ≠ f ∧ Surface.normHE (a, b) ∈ keys tg

/-- the spanning tree built so far (not part of the program state) -/
structure Ghost where
  rank : Nat → Nat
  parent : Nat → Nat
  A : Nat → Nat
  B : Nat → Nat
  next : Nat

structure FJ (T0 : List Tri) (G : Ghost) (s : FS) : Prop where
  lenF : s.faces.length = T0.length
  lenC : s.checked.length = T0.length
  shape : ∀ (f : Nat) (t : Tri), T0[f]? = some t → s.faces[f]? = some t ∨ s.faces[f]? = some (swap13 t)
  root : s.checked[0]? = some true
  bound : ∀ f, s.checked[f]? = some true → G.rank f < G.next
  tree : ∀ f, 0 < f → s.checked[f]? = some true →
    s.checked[G.parent f]? = some true ∧ G.rank (G.parent f) < G.rank f ∧
    ∃ tp tf, s.faces[G.parent f]? = some tp ∧ s.faces[f]? = some tf ∧ (G.A f, G.B f) ∈ dirs tp ∧ (G.B f, G.A f) ∈ dirs tf
  queue : ∀ (r f : Nat), (r, f) ∈ s.queue → s.checked[r]? = some true ∧ r ≠ f ∧
    ∃ tr tf k, T0[r]? = some tr ∧ T0[f]? = some tf ∧ k ∈ keys tr ∧ k ∈ keys tf

theorem key_of_current {t t0 : Tri} (h : t = t0 ∨ t = swap13 t0) {e : Surface.HE} (he : e ∈ dirs t) :
    Surface.normHE e ∈ keys t0 := by
  rcases h with rfl | rfl
  · exact key_of_dir he
  · exact mem_keys_swap13.mp (key_of_dir he)

theorem floodStep_tree (T0 : List Tri) (hnd : Surface.NonDeg T0) (nb : Nat → Nat → Nat → Option Nat) (hnb : NbOK T0 nb)
    (G : Ghost) (s s' : FS) (hI : FJ T0 G s) (h : floodStep nb s = some s') : ∃ G', FJ T0 G' s' := by
  obtain ⟨faces, checked, queue⟩ := s
  cases queue with
  | nil => simp only [floodStep, Option.some.injEq] at h; subst h; exact ⟨G, hI⟩
  | cons rf q =>
    obtain ⟨r, f⟩ := rf
    simp only [floodStep] at h
    cases hcf : checked[f]? with
    | none => simp [hcf] at h
    | some b =>
      cases b with
      | true =>
        simp only [hcf, Option.some.injEq] at h; subst h
        exact ⟨G, ⟨hI.lenF, hI.lenC, hI.shape, hI.root, hI.bound, hI.tree,
          fun r' f' hm => hI.queue r' f' (List.mem_cons_of_mem _ hm)⟩⟩
      | false =>
        simp only [hcf] at h
        obtain ⟨hcr, hrf, tr0, tf0, k, hOr, hOf, kr, kf⟩ := hI.queue r f List.mem_cons_self
        have hflen : f < faces.length := by
          have := hI.lenF; simp only at this
          rw [this]; exact (List.getElem?_eq_some_iff.mp hOf).1
        have hclen : f < checked.length := (List.getElem?_eq_some_iff.mp hcf).1
        -- the current triangles of r and f
        obtain ⟨tr, hfr, hrsim⟩ : ∃ tr, faces[r]? = some tr ∧ (tr = tr0 ∨ tr = swap13 tr0) := by
          rcases hI.shape r tr0 hOr with h1 | h1
          · exact ⟨_, h1, Or.inl rfl⟩
          · exact ⟨_, h1, Or.inr rfl⟩
        obtain ⟨tf, hff, hfsim⟩ : ∃ tf, faces[f]? = some tf ∧ (tf = tf0 ∨ tf = swap13 tf0) := by
          rcases hI.shape f tf0 hOf with h1 | h1
          · exact ⟨_, h1, Or.inl rfl⟩
          · exact ⟨_, h1, Or.inr rfl⟩
        have ndr0 : TriND tr0 := hnd tr0 (List.mem_of_getElem? hOr)
        have ndf0 : TriND tf0 := hnd tf0 (List.mem_of_getElem? hOf)
        have ndr : TriND tr := by rcases hrsim with rfl | rfl; exact ndr0; exact triND_swap13 ndr0
        have ndf : TriND tf := by rcases hfsim with rfl | rfl; exact ndf0; exact triND_swap13 ndf0
        have kr' : k ∈ keys tr := by rcases hrsim with rfl | rfl; exact kr; exact mem_keys_swap13.mpr kr
        have kf' : k ∈ keys tf := by rcases hfsim with rfl | rfl; exact kf; exact mem_keys_swap13.mpr kf
        obtain ⟨tf', hw, hsim', a, b, hab1, hab2⟩ := winding_cons ndr ndf kr' kf'
        have hfsim' : tf' = tf0 ∨ tf' = swap13 tf0 := by
          rcases hsim' with rfl | rfl
          · exact hfsim
          · rcases hfsim with rfl | rfl
            · exact Or.inr rfl
            · exact Or.inl rfl
        simp only [hfr, hff, hw] at h
        -- the three neighbours
        have e1 : (tf'.1, tf'.2.1) ∈ dirs tf' := by simp [dirs]
        have e2 : (tf'.2.1, tf'.2.2) ∈ dirs tf' := by simp [dirs]
        have e3 : (tf'.2.2, tf'.1) ∈ dirs tf' := by simp [dirs]
        cases hg1 : nb f tf'.1 tf'.2.1 with
        | none => simp [hg1] at h
        | some g1 =>
        cases hg2 : nb f tf'.2.1 tf'.2.2 with
        | none => simp [hg1, hg2] at h
        | some g2 =>
        cases hg3 : nb f tf'.2.2 tf'.1 with
        | none => simp [hg1, hg2, hg3] at h
        | some g3 =>
        simp only [hg1, hg2, hg3] at h
        cases hp1 : pushIfUnchecked (checked.set f true) q f g1 with
        | none => simp [hp1] at h
        | some q1 =>
        simp only [hp1] at h
        cases hp2 : pushIfUnchecked (checked.set f true) q1 f g2 with
        | none => simp [hp2] at h
        | some q2 =>
        simp only [hp2] at h
        cases hp3 : pushIfUnchecked (checked.set f true) q2 f g3 with
        | none => simp [hp3] at h
        | some q3 =>
        simp only [hp3, Option.some.injEq] at h
        subst h
        have hN1 := hnb f tf0 _ _ g1 hOf (key_of_current hfsim' e1) hg1
        have hN2 := hnb f tf0 _ _ g2 hOf (key_of_current hfsim' e2) hg2
        have hN3 := hnb f tf0 _ _ g3 hOf (key_of_current hfsim' e3) hg3
        have hcheckedf : (checked.set f true)[f]? = some true := List.getElem?_set_self hclen
        have hrf' : f ≠ r := fun e => hrf e.symm
        have hf0 : 0 < f := by
          rcases Nat.eq_zero_or_pos f with e | e
          · subst e; have := hI.root; simp only at this; rw [hcf] at this; cases this
          · exact e
        -- the new ghost
        let G' : Ghost := ⟨Function.update G.rank f G.next, Function.update G.parent f r,
          Function.update G.A f a, Function.update G.B f b, G.next + 1⟩
        refine ⟨G', ⟨by simpa using hI.lenF, by simpa using hI.lenC, ?_, ?_, ?_, ?_, ?_⟩⟩
        · intro f' t hO
          by_cases hff' : f = f'
          · subst hff'
            have : t = tf0 := by rw [hOf] at hO; exact (Option.some.inj hO).symm
            subst this
            simp only [List.getElem?_set_self hflen]
            rcases hfsim' with e | e
            · left; rw [e]
            · right; rw [e]
          · simp only [List.getElem?_set_ne hff']; exact hI.shape f' t hO
        · show (checked.set f true)[0]? = some true
          rw [List.getElem?_set_ne (by omega)]; exact hI.root
        · intro g hg
          show Function.update G.rank f G.next g < G.next + 1
          by_cases hgf : g = f
          · subst hgf; simp
          · rw [Function.update_of_ne hgf]
            simp only [List.getElem?_set_ne (fun e => hgf e.symm)] at hg
            have := hI.bound g hg; omega
        · intro g hg0 hg
          show (checked.set f true)[Function.update G.parent f r g]? = some true ∧
            Function.update G.rank f G.next (Function.update G.parent f r g) < Function.update G.rank f G.next g ∧
            ∃ tp tf2, (faces.set f tf')[Function.update G.parent f r g]? = some tp ∧ (faces.set f tf')[g]? = some tf2 ∧
              (Function.update G.A f a g, Function.update G.B f b g) ∈ dirs tp ∧
              (Function.update G.B f b g, Function.update G.A f a g) ∈ dirs tf2
          by_cases hgf : g = f
          · subst hgf
            simp only [Function.update_self, Function.update_of_ne hrf]
            refine ⟨?_, ?_, tr, tf', ?_, ?_, hab1, hab2⟩
            · rw [List.getElem?_set_ne hrf']; exact hcr
            · exact hI.bound r hcr
            · rw [List.getElem?_set_ne hrf']; exact hfr
            · exact List.getElem?_set_self hflen
          · have hfg : f ≠ g := fun e => hgf e.symm
            simp only [List.getElem?_set_ne hfg] at hg
            obtain ⟨t1, t2, tp, tf2, t3, t4, t5, t6⟩ := hI.tree g hg0 hg
            have hpf : G.parent g ≠ f := by
              intro e; rw [e, hcf] at t1; cases t1
            simp only [Function.update_of_ne hgf, Function.update_of_ne hpf]
            refine ⟨?_, t2, tp, tf2, ?_, ?_, t5, t6⟩
            · rw [List.getElem?_set_ne (fun e => hpf e.symm)]; exact t1
            · rw [List.getElem?_set_ne (fun e => hpf e.symm)]; exact t3
            · rw [List.getElem?_set_ne hfg]; exact t4
        · intro r' f' hm
          have hmem : (r', f') ∈ q ∨ (r', f') = (f, g1) ∨ (r', f') = (f, g2) ∨ (r', f') = (f, g3) := by
            rcases push_mem hp3 _ hm with h3 | h3
            · rcases push_mem hp2 _ h3 with h2 | h2
              · rcases push_mem hp1 _ h2 with h1 | h1
                · exact Or.inl h1
                · exact Or.inr (Or.inl h1)
              · exact Or.inr (Or.inr (Or.inl h2))
            · exact Or.inr (Or.inr (Or.inr h3))
          rcases hmem with hq | hq | hq | hq
          · obtain ⟨hc', rest⟩ := hI.queue r' f' (List.mem_cons_of_mem _ hq)
            refine ⟨?_, rest⟩
            by_cases hfr' : f = r'
            · subst hfr'; exact hcheckedf
            · show (checked.set f true)[r']? = some true
              rw [List.getElem?_set_ne hfr']; exact hc'
          · cases hq; obtain ⟨tg, h1, h2, h3⟩ := hN1; exact ⟨hcheckedf, fun e => h2 e.symm, tf0, tg, _, hOf, h1, key_of_current hfsim' e1, h3⟩
          · cases hq; obtain ⟨tg, h1, h2, h3⟩ := hN2; exact ⟨hcheckedf, fun e => h2 e.symm, tf0, tg, _, hOf, h1, key_of_current hfsim' e2, h3⟩
          · cases hq; obtain ⟨tg, h1, h2, h3⟩ := hN3; exact ⟨hcheckedf, fun e => h2 e.symm, tf0, tg, _, hOf, h1, key_of_current hfsim' e3, h3⟩

theorem floodRun_tree (T0 : List Tri) (hnd : Surface.NonDeg T0) (nb : Nat → Nat → Nat → Option Nat) (hnb : NbOK T0 nb)
    (fuel : Nat) (G : Ghost) (s s' : FS) (hI : FJ T0 G s) (h : floodRun nb fuel s = some s') :
    ∃ G', FJ T0 G' s' := by
  induction fuel generalizing s G with
  | zero =>
    simp only [floodRun] at h
    split_ifs at h with he
    cases h; exact ⟨G, hI⟩
  | succ k ih =>
    simp only [floodRun] at h
    split_ifs at h with he
    · cases h; exact ⟨G, hI⟩
    · cases hs : floodStep nb s with
      | none => simp [hs] at h
      | some s1 =>
        simp only [hs] at h
        obtain ⟨G1, hI1⟩ := floodStep_tree T0 hnd nb hnb G s s1 hI hs
        exact ih G1 s1 hI1 h

theorem floodInit_tree (T0 : List Tri) (nb : Nat → Nat → Nat → Option Nat) (hnb : NbOK T0 nb)
    (s0 : FS) (h0 : floodInit nb T0 = some s0) : ∃ G, FJ T0 G s0 := by
  cases T0 with
  | nil => simp [floodInit] at h0
  | cons t0 rest =>
    simp only [floodInit] at h0
    cases hg1 : nb 0 t0.1 t0.2.1 with
    | none => simp [hg1] at h0
    | some g1 =>
    cases hg2 : nb 0 t0.2.1 t0.2.2 with
    | none => simp [hg1, hg2] at h0
    | some g2 =>
    cases hg3 : nb 0 t0.2.2 t0.1 with
    | none => simp [hg1, hg2, hg3] at h0
    | some g3 =>
    simp only [hg1, hg2, hg3, Option.some.injEq] at h0
    subst h0
    have hO0 : (t0 :: rest)[0]? = some t0 := rfl
    have e1 : (t0.1, t0.2.1) ∈ dirs t0 := by simp [dirs]
    have e2 : (t0.2.1, t0.2.2) ∈ dirs t0 := by simp [dirs]
    have e3 : (t0.2.2, t0.1) ∈ dirs t0 := by simp [dirs]
    have hN1 := hnb 0 t0 _ _ g1 hO0 (key_of_dir e1) hg1
    have hN2 := hnb 0 t0 _ _ g2 hO0 (key_of_dir e2) hg2
    have hN3 := hnb 0 t0 _ _ g3 hO0 (key_of_dir e3) hg3
    refine ⟨⟨fun _ => 0, fun _ => 0, fun _ => 0, fun _ => 0, 1⟩, ⟨rfl, by simp, ?_, rfl, ?_, ?_, ?_⟩⟩
    · intro f t hO; left; exact hO
    · intro f _; simp
    · intro f hf0 hc
      exfalso
      cases f with
      | zero => omega
      | succ j =>
        simp only [List.getElem?_cons_succ, List.getElem?_replicate] at hc
        split_ifs at hc
        cases hc
    · intro r f hm
      simp only [List.mem_cons, Prod.mk.injEq, List.mem_nil_iff, or_false] at hm
      rcases hm with ⟨rfl, rfl⟩ | ⟨rfl, rfl⟩ | ⟨rfl, rfl⟩
      · obtain ⟨tg, h1, h2, h3⟩ := hN1; exact ⟨rfl, fun e => h2 e.symm, t0, tg, _, hO0, h1, key_of_dir e1, h3⟩
      · obtain ⟨tg, h1, h2, h3⟩ := hN2; exact ⟨rfl, fun e => h2 e.symm, t0, tg, _, hO0, h1, key_of_dir e2, h3⟩
      · obtain ⟨tg, h1, h2, h3⟩ := hN3; exact ⟨rfl, fun e => h2 e.symm, t0, tg, _, hO0, h1, key_of_dir e3, h3⟩

end Simu.C13
