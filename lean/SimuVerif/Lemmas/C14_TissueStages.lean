import SimuVerif.Lemmas.C14_TissueSearch
import SimuVerif.Lemmas.C02_Equiv
/-
  C14 (tissue) — every stage of `Tissue.tissueIteration` commutes with the translation of the tissue, and keeps the
  "shape" of the cells (number of node slots, corners of the faces) on which the hypotheses of the theorems depend.
-/
namespace Simu.C14T
open Simu Simu.Forces Simu.Pipeline Simu.Gen Simu.Tissue

set_option linter.unusedSectionVars false
set_option linter.unusedVariables false

variable {R : Type} [Field R] [LinearOrder R] [IsStrictOrderedRing R]

/-! ### 5. the contact model -/

theorem writeMut_tr (t : V3 R) (cells : List (Cell R)) (st : Array (Mut R)) :
    writeMut (cells.map (trCell t)) st = (writeMut cells st).map (trCell t) := by
  unfold writeMut
  rw [List.zipIdx_map, List.map_map, List.map_map]
  apply List.map_congr_left
  intro ci _
  simp only [Function.comp, Prod.map, id]
  cases st[ci.2]? <;> rfl

theorem toPop_tr (t : V3 R) (cells : List (Cell R)) : toPop (cells.map (trCell t)) = trPop t (toPop cells) := by
  unfold toPop trPop
  rw [List.map_map, List.map_map]
  apply List.map_congr_left
  intro c _
  simp only [Function.comp, trCell_nn, List.map_map]
  apply List.map_congr_left
  intro i _
  simp only [Function.comp, trN, trCell_get']
  rfl

theorem getElem?_trPop (t : V3 R) (p : Coupling.Pop R) (i : Nat) : (trPop t p)[i]? = (p[i]?).map (List.map (trN t)) := by
  unfold trPop; rw [List.getElem?_map]

theorem slots_ext {α : Type} (a b : Slots α) (h1 : a.arr = b.arr) (h2 : a.rest = b.rest) : a = b := by
  cases a; cases b; simp_all

theorem ofPopCell_tr (t : V3 R) (c : Cell R) (l : List (Coupling.CNode R)) :
    ofPopCell (trCell t c) (l.map (trN t)) = trCell t (ofPopCell c l) := by
  unfold ofPopCell
  have hc : (trCell t c).coup = c.coup := rfl
  have e1 : ∀ i, (((l.map (trN t)).toArray[i]?).map fun n => n.coup).getD ((trCell t c).coup.getD i none)
      = ((l.toArray[i]?).map fun n => n.coup).getD (c.coup.getD i none) := by
    intro i
    simp only [List.getElem?_toArray, List.getElem?_map, hc]
    cases l[i]? <;> rfl
  have e2 : ∀ i, (((l.map (trN t)).toArray[i]?).map fun n => n.pos).getD ((trCell t c).pos.get i)
      = ((l.toArray[i]?).map fun n => n.pos).getD (c.pos.get i) + t := by
    intro i
    simp only [List.getElem?_toArray, List.getElem?_map, trCell_get']
    cases l[i]? <;> rfl
  simp only [trCell_nn, e1, e2]
  simp only [trCell, Slots.map, Array.map_map, Function.comp_def]

theorem ofPop_tr (t : V3 R) (cells : List (Cell R)) (p : Coupling.Pop R) :
    ofPop (cells.map (trCell t)) (trPop t p) = (ofPop cells p).map (trCell t) := by
  unfold ofPop
  rw [List.zipIdx_map, List.map_map, List.map_map]
  apply List.map_congr_left
  intro ci _
  simp only [Function.comp, Prod.map, id, getElem?_trPop]
  cases p[ci.2]? with
  | none => rfl
  | some l => exact ofPopCell_tr t ci.1 l

/-- **`contact_node_node_via_coupling::run` commutes with the translation**: same couplings, closest distances and contact
    forces; the coupled pairs sit at the translated midpoints -/
theorem contactRun_tr [FloorRing R] (fn : Fn R) (K : Tissue.Consts R) (S : C06.Setup fn K.delta (cparams K).padding (cparams K).voxel)
    (cells : List (Cell R)) (hcov : ∀ c ∈ cells, Covered c) (t : V3 R) :
    contactRun fn K (cells.map (trCell t)) = (((contactRun fn K cells).1).map (trCell t), (contactRun fn K cells).2) := by
  unfold contactRun
  simp only [contactSearch_tr fn K S cells hcov t, writeMut_tr, toPop_tr, pass_tr]
  cases Coupling.pass (toPop (writeMut cells (contactSearch fn K cells))) with
  | none => rfl
  | some p => simp only [Option.map_some, ofPop_tr]

/-! ### 3., 6. face types -/

theorem updateFaceTypesCell_tr (K : Tissue.Consts R) (t : V3 R) (c : Cell R) :
    updateFaceTypesCell K (trCell t c) = trCell t (updateFaceTypesCell K c) := rfl

theorem otherFaces_tr (t : V3 R) (cells : List (Cell R)) (i : Nat) : otherFaces (cells.map (trCell t)) i = otherFaces cells i := by
  unfold otherFaces
  rw [List.getElem?_map]
  cases cells[i]? <;> rfl

theorem polariseFace_tr (t : V3 R) (cells : List (Cell R)) (c : Cell R) (fi : Nat) (f : Face) :
    polariseFace (cells.map (trCell t)) (trCell t c) fi f = polariseFace cells c fi f := by
  unfold polariseFace
  simp only [otherFaces_tr]
  rfl

theorem polarise_tr (t : V3 R) (cells : List (Cell R)) : polarise (cells.map (trCell t)) = (polarise cells).map (trCell t) := by
  unfold polarise
  rw [List.map_map, List.map_map]
  apply List.map_congr_left
  intro c _
  simp only [Function.comp, polariseCell]
  have hk : (trCell t c).k = c.k := rfl
  have hf : (trCell t c).faces = c.faces := rfl
  rw [hk, hf]
  split_ifs
  · simp only [polariseFace_tr]; rfl
  · rfl

/-! ### 7. apply_internal_forces -/

open Simu.Gen.NodeNormals Simu.Gen.Forces in
theorem nnEdge_tr (fx : FX R) (p1 p2 p3 p4 t : V3 R) (a1 a2 i1 i2 : R) (m1 m2 : V3 R) :
    nnEdge fx (p1 + t) (p2 + t) (p3 + t) (p4 + t) a1 a2 i1 i2 m1 m2 = nnEdge fx p1 p2 p3 p4 a1 a2 i1 i2 m1 m2 := by
  unfold nnEdge
  simp only [C05.V3_tr1]

/-- **the node normals and curvatures are functions of position differences** -/
theorem nodeNormals_tr (fx : FX R) (x : Nat → V3 R) (F : List Face) (vol : R) (n : Nat) (t : V3 R) :
    nodeNormals fx (fun i => x i + t) F vol n = nodeNormals fx x F vol n := by
  unfold nodeNormals
  simp only [faceGeom_tr, nnEdge_tr]

theorem faceGeom_tr' (fx : FX R) (x : Nat → V3 R) (t : V3 R) : faceGeom fx (fun i => x i + t) = faceGeom fx x :=
  funext (faceGeom_tr fx x t)

theorem applyInternalForces_tr (fx : FX R) (K : Tissue.Consts R) (c : Cell R) (hc : Closed c.faces) (t : V3 R) :
    applyInternalForces fx K (trCell t c) = trCell t (applyInternalForces fx K c) := by
  unfold applyInternalForces
  have hk : (trCell t c).k = c.k := rfl
  have hf : (trCell t c).faces = c.faces := rfl
  have hv : (trCell t c).tvol = c.tvol := rfl
  have hfo : (trCell t c).force = c.force := rfl
  simp only [trCell_get, trCell_nn, hk, hf, hv, hfo,
    prelude_tr fx c.pos.get c.faces (forceParams (pconsts K c.k) c.tvol) hc t,
    internalContribs_tr fx c.pos.get c.faces (forceParams (pconsts K c.k) c.tvol) hc t, faceGeom_tr', nodeNormals_tr]
  rfl

/-! ### 8. update_nodes_positions -/

theorem topo_tr (t : V3 R) (cells : List (Cell R)) : topo (cells.map (trCell t)) = topo cells := by
  unfold topo
  rw [List.zipIdx_map, List.map_map]
  apply List.map_congr_left
  intro ci _
  simp only [Function.comp, Prod.map, id, trCell_nn]
  rfl

theorem toDyn_tr (t : V3 R) (cells : List (Cell R)) : toDyn (cells.map (trCell t)) = trD t (toDyn cells) := by
  unfold toDyn trD
  rw [List.map_map, List.map_map]
  apply List.map_congr_left
  intro c _
  simp only [Function.comp, trCell_nn, List.map_map]
  apply List.map_congr_left
  intro i _
  simp only [Function.comp, trDyn, trCell_get']
  rfl

theorem ofDynCell_tr (t : V3 R) (c : Cell R) (l : List (Integ.Dyn R)) :
    ofDynCell (trCell t c) (l.map (trDyn t)) = trCell t (ofDynCell c l) := by
  unfold ofDynCell
  have hm : (trCell t c).mom = c.mom := rfl
  have hfo : (trCell t c).force = c.force := rfl
  have e1 : ∀ i, (((l.map (trDyn t)).toArray[i]?).map fun n => n.mom).getD ((trCell t c).mom.getD i V3.zero)
      = ((l.toArray[i]?).map fun n => n.mom).getD (c.mom.getD i V3.zero) := by
    intro i
    simp only [List.getElem?_toArray, List.getElem?_map, hm]
    cases l[i]? <;> rfl
  have e3 : ∀ i, (((l.map (trDyn t)).toArray[i]?).map fun n => n.force).getD ((trCell t c).force.getD i V3.zero)
      = ((l.toArray[i]?).map fun n => n.force).getD (c.force.getD i V3.zero) := by
    intro i
    simp only [List.getElem?_toArray, List.getElem?_map, hfo]
    cases l[i]? <;> rfl
  have e2 : ∀ i, (((l.map (trDyn t)).toArray[i]?).map fun n => n.pos).getD ((trCell t c).pos.get i)
      = ((l.toArray[i]?).map fun n => n.pos).getD (c.pos.get i) + t := by
    intro i
    simp only [List.getElem?_toArray, List.getElem?_map, trCell_get']
    cases l[i]? <;> rfl
  simp only [trCell_nn, e1, e2, e3]
  simp only [trCell, Slots.map, Array.map_map, Function.comp_def]

theorem ofDyn_tr (t : V3 R) (cells : List (Cell R)) (d : Integ.DynS R) :
    ofDyn (cells.map (trCell t)) (trD t d) = (ofDyn cells d).map (trCell t) := by
  unfold ofDyn
  rw [List.zipIdx_map, List.map_map, List.map_map]
  apply List.map_congr_left
  intro ci _
  have hg : (trD t d)[ci.2]? = (d[ci.2]?).map (List.map (trDyn t)) := by unfold trD; rw [List.getElem?_map]
  simp only [Function.comp, Prod.map, id, hg]
  cases d[ci.2]? with
  | none => rfl
  | some l => exact ofDynCell_tr t ci.1 l

theorem step_tr (topo : List (Integ.CellT R)) (dt damping : R) (t : V3 R) (time : R) (d : Integ.DynS R) :
    Integ.step .nodeNode .semiImplicit topo dt damping ⟨time, trD t d⟩
      = ⟨(Integ.step .nodeNode .semiImplicit topo dt damping ⟨time, d⟩).time,
         trD t (Integ.step .nodeNode .semiImplicit topo dt damping ⟨time, d⟩).dyn⟩ := by
  unfold Integ.step
  simp only
  rw [foldl_map_comm (trD t) _ _ (nodeStep_tr topo dt damping t)]

/-- **`update_nodes_positions` commutes with the translation** -/
theorem integrate_tr (K : Tissue.Consts R) (time : R) (cells : List (Cell R)) (t : V3 R) :
    integrate K time (cells.map (trCell t)) = ((integrate K time cells).1, (integrate K time cells).2.map (trCell t)) := by
  unfold integrate
  simp only [topo_tr, toDyn_tr, step_tr, ofDyn_tr]

end Simu.C14T
