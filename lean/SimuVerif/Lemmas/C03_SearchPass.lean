import SimuVerif.Properties.C03Coupling
import SimuVerif.Lemmas.C03_StaleFree
/-
  C03 (addition) — glue between the table of the modelled contact phase and the statements of Properties/C03Coupling.lean:

  * `Mutual` only looks at the node records (`nodeAt`), so it transfers between the topology of the position update of the
    tissue models (`Tissue.topo`, `TissueR.topoR`) and `withTable cs p2` of the bridge `mutual_of_pass`;
  * polarisation and `apply_internal_forces` do not change what the adapters `toPop` / `toPopR` read;
  * `TissueR.coupOk` (Bool, part of the domain predicate `stepOkTR`) from the pair statement.
-/
set_option linter.unusedSectionVars false
set_option linter.unusedVariables false
namespace Simu.C03S
open Simu Simu.Gen Simu.Tissue Simu.TissueR Simu.Coupling Simu.C03
open Simu.Remesh (usedN)

/-! ### later stages do not change what the adapters read (any scalar type) -/
section adapters
variable {R : Type} [Add R] [Sub R] [Mul R] [Div R] [Neg R] [Lit R] [LT R] [LE R] [DecidableLT R] [DecidableLE R] [DecidableEq R]

theorem toPop_congr (cells : List (Cell R)) (g : Cell R → Cell R) (h : ∀ c, (g c).pos = c.pos ∧ (g c).coup = c.coup) :
    toPop (cells.map g) = toPop cells := by
  unfold toPop
  rw [List.map_map]
  apply List.map_congr_left
  intro c _
  simp only [Function.comp, Cell.nn, (h c).1, (h c).2]

theorem toPop_beforeIntegration (fn : Fn R) (fx : FX R) (K : Consts R) (cells : List (Cell R)) :
    toPop (beforeIntegration fn fx K cells).1 = toPop (contactRun fn K (cells.map (updateFaceTypesCell K))).1 := by
  unfold beforeIntegration
  dsimp only
  rw [toPop_congr _ (applyInternalForces fx K) (fun c => ⟨rfl, rfl⟩)]
  unfold polarise
  apply toPop_congr
  intro c
  unfold polariseCell
  split
  · exact ⟨rfl, rfl⟩
  · exact ⟨rfl, rfl⟩

theorem toPopR_congr (cells : List (CellTR R)) (g : CellTR R → CellTR R)
    (h : ∀ c, (g c).mesh.nodes = c.mesh.nodes ∧ (g c).a.coup = c.a.coup) : toPopR (cells.map g) = toPopR cells := by
  unfold toPopR
  rw [List.map_map]
  apply List.map_congr_left
  intro c _
  have hv : viewPos (g c).mesh = viewPos c.mesh := by
    unfold viewPos PipelineR.anchor
    rw [(h c).1]
  have hu : ∀ i, usedN (g c).mesh i = usedN c.mesh i := by
    intro i; unfold usedN; rw [(h c).1]
  simp only [Function.comp, toPopCell, hv, hu, (h c).1, (h c).2]

theorem toPopR_beforeIntegrationR (fn : Fn R) (fx : FX R) (K : Consts R) (cells : List (CellTR R)) :
    toPopR (beforeIntegrationR fn fx K cells).1 = toPopR (contactRunR fn K cells).1 := by
  unfold beforeIntegrationR
  dsimp only
  rw [toPopR_congr _ (applyInternalForcesR fx K) (fun c => ⟨rfl, rfl⟩)]
  unfold polariseR
  apply toPopR_congr
  intro c
  unfold polariseCellR
  split
  · exact ⟨rfl, rfl⟩
  · exact ⟨rfl, rfl⟩

/-- `TissueR.coupOk` from "the coupling of a used node names a used slot" -/
theorem coupOk_of_pairs (cells : List (CellTR R))
    (h : ∀ (k j : Slot) (n : Coupling.CNode R), Coupling.get (toPopR cells) k = some n → n.used = true → n.coup = some j →
      ∃ m : Coupling.CNode R, Coupling.get (toPopR cells) j = some m ∧ m.used = true) : coupOk cells = true := by
  unfold coupOk
  rw [List.all_eq_true]
  intro c hc
  rw [List.all_eq_true]
  intro i hi
  have hi' : i < c.mesh.nodes.size := List.mem_range.mp hi
  cases hq : c.a.coup.getD i none with
  | none => rfl
  | some q =>
    dsimp only
    cases hu : usedN c.mesh i with
    | false => rfl
    | true =>
      obtain ⟨ci, hci⟩ := List.getElem?_of_mem hc
      have hk : Coupling.get (toPopR cells) (ci, i) = some ⟨usedN c.mesh i, c.a.coup.getD i none, (viewPos c.mesh).get i⟩ := by
        rw [get_toPopR, hci, Option.bind_some, if_pos hi']
      obtain ⟨m, hm, hmu⟩ := h (ci, i) q _ hk hu hq
      rw [get_toPopR] at hm
      cases hc2 : cells[q.1]? with
      | none => rw [hc2] at hm; cases hm
      | some c2 =>
        rw [hc2, Option.bind_some] at hm
        split at hm
        · simp only [Option.some.injEq] at hm
          subst hm
          simpa using hmu
        · cases hm

end adapters

/-! ### `Mutual` of the topology of the position update -/
section mutualTopo
variable {R : Type} [Field R] [LinearOrder R] [IsStrictOrderedRing R]

/-- the node record of a slot in a topology -/
def nodeAt (topo : List (Integ.CellT R)) (k : Slot) : Option Integ.NodeT := (topo[k.1]?).bind fun c => c.nodes[k.2]?

theorem nodeAt_some {topo : List (Integ.CellT R)} {k : Slot} {nt : Integ.NodeT} (h : nodeAt topo k = some nt) :
    ∃ c, topo[k.1]? = some c ∧ c.nodes[k.2]? = some nt := by
  unfold nodeAt at h
  cases hc : topo[k.1]? with
  | none => rw [hc] at h; cases h
  | some c => rw [hc] at h; exact ⟨c, rfl, h⟩

/-- `Mutual` only reads the node records -/
theorem mutual_of_nodeAt (a b : List (Integ.CellT R)) (h : ∀ k, nodeAt b k = nodeAt a k) (hm : Mutual a) : Mutual b := by
  intro k c nt hc hn e he
  have hb : nodeAt b k = some nt := by unfold nodeAt; rw [hc]; exact hn
  rw [h k] at hb
  obtain ⟨ca, hca, hna⟩ := nodeAt_some hb
  obtain ⟨c2, nt2, h1, h2, h3⟩ := hm k ca nt hca hna e he
  have h4 : nodeAt a e = some nt2 := by unfold nodeAt; rw [h1]; exact h2
  rw [← h e] at h4
  obtain ⟨cb, hcb, hnb⟩ := nodeAt_some h4
  exact ⟨cb, nt2, hcb, hnb, h3⟩

/-- cell records for a table (only their number matters for `Mutual`) -/
def blankCells (p : Pop R) : List (Integ.CellT R) := p.map fun _ => ⟨0, 0, 0, 0, []⟩

theorem nodeAt_withTable (p : Pop R) (k : Slot) : nodeAt (withTable (blankCells p) p) k = (Coupling.get p k).map toNodeT := by
  unfold nodeAt withTable blankCells Coupling.get
  rw [List.getElem?_zipWith, List.getElem?_map]
  cases p[k.1]? with
  | none => rfl
  | some l => simp only [Option.map_some, Option.bind_some, List.getElem?_map]

theorem nodeAt_topo (cells : List (Cell R)) (k : Slot) : nodeAt (topo cells) k = (Coupling.get (toPop cells) k).map toNodeT := by
  rw [get_toPop]
  unfold nodeAt topo
  rw [List.getElem?_map, List.getElem?_zipIdx]
  cases cells[k.1]? with
  | none => rfl
  | some c =>
    simp only [Option.map_some, Option.bind_some, List.getElem?_map]
    by_cases h : k.2 < c.nn
    · rw [if_pos h, List.getElem?_range h]; rfl
    · rw [if_neg h, List.getElem?_eq_none (by simpa using Nat.le_of_not_lt h)]; rfl

theorem nodeAt_topoR (cells : List (CellTR R)) (k : Slot) :
    nodeAt (topoR cells) k = (Coupling.get (toPopR cells) k).map toNodeT := by
  rw [get_toPopR]
  unfold nodeAt topoR
  rw [List.getElem?_map, List.getElem?_zipIdx]
  cases cells[k.1]? with
  | none => rfl
  | some c =>
    simp only [Option.map_some, Option.bind_some, List.getElem?_map]
    by_cases h : k.2 < c.mesh.nodes.size
    · rw [if_pos h, List.getElem?_range h]; rfl
    · rw [if_neg h, List.getElem?_eq_none (by simpa using Nat.le_of_not_lt h)]; rfl

/-- a topology whose node records are those of the result of the pass is a symmetric matching -/
theorem mutual_of_pass_nodeAt (topo : List (Integ.CellT R)) (p p2 : Pop R) (h : pass p = some p2) (hst : NoStale p)
    (hn : ∀ k, nodeAt topo k = (Coupling.get p2 k).map toNodeT) : Mutual topo := by
  obtain ⟨_, _, hsh, _⟩ := pass_table p p2 h
  exact mutual_of_nodeAt _ _ (fun k => (hn k).trans (nodeAt_withTable p2 k).symm)
    (mutual_of_pass (blankCells p2) p p2 h hst (by unfold blankCells; rw [List.length_map, length_of_shape hsh]))

theorem idsAreIndices_topo (cells : List (Cell R)) : IdsAreIndices (topo cells) := by
  intro i c hc
  unfold topo at hc
  rw [List.getElem?_map, List.getElem?_zipIdx] at hc
  cases hci : cells[i]? with
  | none => rw [hci] at hc; cases hc
  | some c0 =>
    rw [hci] at hc
    simp only [Option.map_some, Option.some.injEq] at hc
    rw [← hc]
    simp only [Nat.zero_add]

theorem idsAreIndices_topoR (cells : List (CellTR R)) : IdsAreIndices (topoR cells) := by
  intro i c hc
  unfold topoR at hc
  rw [List.getElem?_map, List.getElem?_zipIdx] at hc
  cases hci : cells[i]? with
  | none => rw [hci] at hc; cases hc
  | some c0 =>
    rw [hci] at hc
    simp only [Option.map_some, Option.some.injEq] at hc
    rw [← hc]
    simp only [Nat.zero_add]

end mutualTopo
end Simu.C03S
