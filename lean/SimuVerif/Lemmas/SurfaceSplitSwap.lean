import SimuVerif.Lemmas.SurfaceDefs
import Mathlib.Algebra.Order.Group.Multiset
import Mathlib.Data.Multiset.Filter
import Mathlib.Tactic.Abel
import Mathlib.Tactic.Tauto
/-
  Edge split, edge swap and node renaming preserve the surface invariant `Inv`
  (non-degenerate, simple, closed); lengths and vertex sets of the results (C01, C11).

  Method: with `findDir T a b = some t1`, `findDir T b a = some t2` and `NonDeg T`, the list `T` is a
  permutation of `t1 :: t2 :: rest`, so that (c, d the opposite nodes)

      heM T            = P a b + (R4 a b c d + heM rest)
      heM (splitT ..)  = (P a e + P b e + P c e + P d e) + (R4 a b c d + heM rest)
      heM (swapT ..)   = P c d + (R4 a b c d + heM rest)

  where `P x y = {(x,y)} + {(y,x)}` is a symmetric pair and `R4 = {(c,a),(b,c),(d,b),(a,d)}` the four
  half-edges of the surrounding quadrilateral.  Closedness is cancellation of symmetric pairs,
  simplicity is `Multiset.nodup_add`.

  STATEMENT CHANGE (split_simple, split_inv): as first written (hypotheses `Inv T`, `Fresh T e` only)
  these are FALSE.  Counterexample: the "pillow" T = [(c,a,b), (c,b,a)] satisfies `Inv`, the two
  triangles through a→b and b→a have the same opposite node c = d, and the split produces
  (c,a,e),(c,e,b),(c,b,e),(c,e,a), in which the half-edges (e,c) and (c,e) occur twice.  The minimal
  extra hypothesis, stated explicitly in both theorems, is that the two opposite nodes differ:
  `∀ t1 t2, findDir T a b = some t1 → findDir T b a = some t2 → opp t1 a b ≠ opp t2 b a`
  (it is the first half of `SwapGuard`; `split_nondeg`, `split_closed` do not need it).
-/
namespace Simu.Surface

/-! ### basics -/

theorem heM_nil : heM [] = 0 := by simp [heM]

theorem heM_cons (t : Tri) (T : List Tri) : heM (t :: T) = heTriM t + heM T := by simp [heM]

theorem heM_perm {T T' : List Tri} (h : T.Perm T') : heM T = heM T' := (h.map heTriM).sum_eq

theorem heM_append (T T' : List Tri) : heM (T ++ T') = heM T + heM T' := by simp [heM]

theorem mem_heM {T : List Tri} {p : HE} : p ∈ heM T ↔ ∃ t ∈ T, p ∈ heTriM t := by
  induction T with
  | nil => simp [heM_nil]
  | cons t T ih => simp [heM_cons, Multiset.mem_add, ih]

theorem hasDir_iff (t : Tri) (a b : Nat) : hasDir t a b = true ↔
    (t.1 = a ∧ t.2.1 = b) ∨ (t.2.1 = a ∧ t.2.2 = b) ∨ (t.2.2 = a ∧ t.1 = b) := by
  simp [hasDir, or_assoc]

/-- a triangle through `a→b` is a rotation of `(c, a, b)`, `c` its opposite node -/
theorem hasDir_cases {t : Tri} {a b : Nat} (h : hasDir t a b = true) :
    t = (opp t a b, a, b) ∨ t = (a, b, opp t a b) ∨ t = (b, opp t a b, a) := by
  obtain ⟨x, y, z⟩ := t
  simp only [hasDir_iff] at h
  simp only [opp, Bool.and_eq_true, beq_iff_eq]
  by_cases h1 : x = a ∧ y = b
  · obtain ⟨rfl, rfl⟩ := h1; simp
  · rw [if_neg h1]
    by_cases h2 : y = a ∧ z = b
    · obtain ⟨rfl, rfl⟩ := h2; simp
    · rw [if_neg h2]
      rcases h with h | h | h
      · exact absurd h h1
      · exact absurd h h2
      · obtain ⟨rfl, rfl⟩ := h; simp

theorem tri_rot (p q r : HE) : ({p, q, r} : Multiset HE) = {r, p, q} := by
  simp only [Multiset.insert_eq_cons, ← Multiset.singleton_add]; abel

/-- a triangle through a→b has exactly the half-edges (c,a),(a,b),(b,c) with c its opposite node -/
theorem heTriM_of_hasDir {t : Tri} {a b : Nat} (h : hasDir t a b = true) :
    heTriM t = {(opp t a b, a), (a, b), (b, opp t a b)} := by
  have hc := hasDir_cases h
  generalize opp t a b = c at hc ⊢
  rcases hc with rfl | rfl | rfl
  · rfl
  · exact tri_rot _ _ _
  · exact (tri_rot _ _ _).symm

theorem count_map_swap (M : Multiset HE) (x y : Nat) :
    (M.map Prod.swap).count (x, y) = M.count (y, x) :=
  Multiset.count_map_eq_count' Prod.swap M Prod.swap_injective (y, x)

theorem closed_iff_count (T : List Tri) :
    Closed T ↔ ∀ x y, (heM T).count (x, y) = (heM T).count (y, x) := by
  unfold Closed
  rw [Multiset.ext]
  constructor
  · intro h x y
    rw [← h (x, y), count_map_swap]
  · rintro h ⟨x, y⟩
    rw [count_map_swap]; exact h y x

/-- "every edge is shared by exactly two triangles that traverse it in opposite directions" -/
theorem edge_shared_by_two {T : List Tri} (h : Inv T) (e : HE) (he : e ∈ heM T) :
    (heM T).count e = 1 ∧ (heM T).count e.swap = 1 := by
  have h1 : (heM T).count e = 1 := Multiset.count_eq_one_of_mem h.simple he
  refine ⟨h1, ?_⟩
  obtain ⟨x, y⟩ := e
  rw [Prod.swap_prod_mk, ← (closed_iff_count T).1 h.closed x y]
  exact h1

theorem closed_perm {T T' : List Tri} (h : T.Perm T') : Closed T ↔ Closed T' := by
  unfold Closed; rw [heM_perm h]

theorem simple_perm {T T' : List Tri} (h : T.Perm T') : Simple T ↔ Simple T' := by
  unfold Simple; rw [heM_perm h]

theorem nondeg_perm {T T' : List Tri} (h : T.Perm T') : NonDeg T ↔ NonDeg T' :=
  ⟨fun H t ht => H t (h.mem_iff.2 ht), fun H t ht => H t (h.mem_iff.1 ht)⟩

/-! ### vertex sets -/

theorem mem_vertsF {T : List Tri} {x : Nat} :
    x ∈ vertsF T ↔ ∃ t ∈ T, x = t.1 ∨ x = t.2.1 ∨ x = t.2.2 := by
  simp [vertsF, List.mem_flatMap]

theorem mem_vertsF_cons {t : Tri} {T : List Tri} {x : Nat} :
    x ∈ vertsF (t :: T) ↔ (x = t.1 ∨ x = t.2.1 ∨ x = t.2.2) ∨ x ∈ vertsF T := by
  simp [mem_vertsF]

theorem vertsF_perm {T T' : List Tri} (h : T.Perm T') : vertsF T = vertsF T' := by
  ext x; simp only [mem_vertsF, h.mem_iff]

theorem nodes_of_hasDir {t : Tri} {a b : Nat} (h : hasDir t a b = true) (x : Nat) :
    (x = t.1 ∨ x = t.2.1 ∨ x = t.2.2) ↔ (x = opp t a b ∨ x = a ∨ x = b) := by
  have hc := hasDir_cases h
  generalize opp t a b = c at hc ⊢
  rcases hc with rfl | rfl | rfl <;> dsimp only <;> tauto

theorem fresh_iff {T : List Tri} {e : Nat} : Fresh T e ↔ e ∉ vertsF T := by
  simp only [Fresh, mem_vertsF, hasNode, not_exists, not_and, not_or]
  constructor
  · intro h t ht
    have := h t ht
    simp only [Bool.or_eq_false_iff, beq_eq_false_iff_ne, ne_eq] at this
    exact ⟨fun h => this.1.1 h.symm, fun h => this.1.2 h.symm, fun h => this.2 h.symm⟩
  · intro h t ht
    have := h t ht
    simp only [Bool.or_eq_false_iff, beq_eq_false_iff_ne, ne_eq]
    exact ⟨⟨fun h => this.1 h.symm, fun h => this.2.1 h.symm⟩, fun h => this.2.2 h.symm⟩

theorem verts_of_mem_heM {T : List Tri} {p : HE} (hp : p ∈ heM T) :
    p.1 ∈ vertsF T ∧ p.2 ∈ vertsF T := by
  obtain ⟨t, ht, hpt⟩ := mem_heM.1 hp
  simp only [heTriM, Multiset.insert_eq_cons, Multiset.mem_cons, Multiset.mem_singleton] at hpt
  simp only [mem_vertsF]
  rcases hpt with rfl | rfl | rfl
  · exact ⟨⟨t, ht, Or.inl rfl⟩, ⟨t, ht, Or.inr (Or.inl rfl)⟩⟩
  · exact ⟨⟨t, ht, Or.inr (Or.inl rfl)⟩, ⟨t, ht, Or.inr (Or.inr rfl)⟩⟩
  · exact ⟨⟨t, ht, Or.inr (Or.inr rfl)⟩, ⟨t, ht, Or.inl rfl⟩⟩

/-! ### decomposition used by split and swap -/

theorem findDir_some {T : List Tri} {a b : Nat} {t : Tri} (h : findDir T a b = some t) :
    t ∈ T ∧ hasDir t a b = true :=
  ⟨List.mem_of_find?_eq_some h, List.find?_some (p := fun t => hasDir t a b) h⟩

theorem hasDir_not_both {t : Tri} {a b : Nat} (hn : t.1 ≠ t.2.1 ∧ t.2.1 ≠ t.2.2 ∧ t.2.2 ≠ t.1)
    (h1 : hasDir t a b = true) (h2 : hasDir t b a = true) : False := by
  obtain ⟨x, y, z⟩ := t
  simp only [hasDir_iff] at h1 h2
  dsimp only at hn
  omega

theorem opp_ne {t : Tri} {a b : Nat} (hn : t.1 ≠ t.2.1 ∧ t.2.1 ≠ t.2.2 ∧ t.2.2 ≠ t.1)
    (h : hasDir t a b = true) : a ≠ b ∧ opp t a b ≠ a ∧ opp t a b ≠ b := by
  have hc := hasDir_cases h
  generalize opp t a b = c at hc ⊢
  rcases hc with rfl | rfl | rfl <;> dsimp only at hn <;> omega

/-- under NonDeg the two triangles found are different and T is a permutation of t1 :: t2 :: rest -/
theorem find_decomp {T : List Tri} (hn : NonDeg T) {a b : Nat} {t1 t2 : Tri}
    (h1 : findDir T a b = some t1) (h2 : findDir T b a = some t2) :
    t1 ≠ t2 ∧ T.Perm (t1 :: t2 :: (T.erase t1).erase t2) ∧ hasDir t1 a b = true ∧
      hasDir t2 b a = true := by
  obtain ⟨m1, d1⟩ := findDir_some h1
  obtain ⟨m2, d2⟩ := findDir_some h2
  have hne : t1 ≠ t2 := by
    rintro rfl
    exact hasDir_not_both (hn _ m1) d1 d2
  refine ⟨hne, ?_, d1, d2⟩
  have m2' : t2 ∈ T.erase t1 := (List.mem_erase_of_ne (Ne.symm hne)).2 m2
  exact (List.perm_cons_erase m1).trans ((List.perm_cons_erase m2').cons t1)


theorem find_cases (T : List Tri) (a b : Nat) :
    (findDir T a b = none ∨ findDir T b a = none) ∨
      ∃ t1 t2, findDir T a b = some t1 ∧ findDir T b a = some t2 := by
  cases h1 : findDir T a b with
  | none => exact Or.inl (Or.inl rfl)
  | some t1 =>
    cases h2 : findDir T b a with
    | none => exact Or.inl (Or.inr rfl)
    | some t2 => exact Or.inr ⟨t1, t2, rfl, rfl⟩

/-! ### symmetric pairs and the quadrilateral around an edge -/

/-- a half-edge multiset that contains each half-edge as often as its reverse -/
def SymM (M : Multiset HE) : Prop := M.map Prod.swap = M

/-- the two half-edges of one undirected edge -/
def P (x y : Nat) : Multiset HE := {(x, y)} + {(y, x)}

/-- the boundary of the quadrilateral a, d, b, c (the outer half-edges of (c,a,b) and (d,b,a)) -/
def R4 (a b c d : Nat) : Multiset HE := {(c, a)} + {(b, c)} + {(d, b)} + {(a, d)}

theorem symM_P (x y : Nat) : SymM (P x y) := by
  unfold SymM P
  rw [Multiset.map_add, Multiset.map_singleton, Multiset.map_singleton]
  exact add_comm _ _

theorem symM_add_iff {A B : Multiset HE} (hA : SymM A) : SymM (A + B) ↔ SymM B := by
  unfold SymM at *
  rw [Multiset.map_add, hA]
  exact add_right_inj A

theorem symM_add {A B : Multiset HE} (hA : SymM A) (hB : SymM B) : SymM (A + B) :=
  (symM_add_iff hA).2 hB

theorem heM_decomp {T : List Tri} (hn : NonDeg T) {a b : Nat} {t1 t2 : Tri}
    (h1 : findDir T a b = some t1) (h2 : findDir T b a = some t2) :
    heM T = P a b + (R4 a b (opp t1 a b) (opp t2 b a) + heM ((T.erase t1).erase t2)) := by
  obtain ⟨_, hp, d1, d2⟩ := find_decomp hn h1 h2
  rw [heM_perm hp, heM_cons, heM_cons, heTriM_of_hasDir d1, heTriM_of_hasDir d2]
  simp only [P, R4, Multiset.insert_eq_cons, ← Multiset.singleton_add]
  abel

theorem verts_decomp {T : List Tri} (hn : NonDeg T) {a b : Nat} {t1 t2 : Tri}
    (h1 : findDir T a b = some t1) (h2 : findDir T b a = some t2) (x : Nat) :
    x ∈ vertsF T ↔ (x = opp t1 a b ∨ x = a ∨ x = b) ∨ (x = opp t2 b a ∨ x = b ∨ x = a) ∨
      x ∈ vertsF ((T.erase t1).erase t2) := by
  obtain ⟨_, hp, d1, d2⟩ := find_decomp hn h1 h2
  rw [vertsF_perm hp, mem_vertsF_cons, mem_vertsF_cons, nodes_of_hasDir d1, nodes_of_hasDir d2]

theorem quad_ne {T : List Tri} (hn : NonDeg T) {a b : Nat} {t1 t2 : Tri}
    (h1 : findDir T a b = some t1) (h2 : findDir T b a = some t2) :
    a ≠ b ∧ opp t1 a b ≠ a ∧ opp t1 a b ≠ b ∧ opp t2 b a ≠ a ∧ opp t2 b a ≠ b := by
  obtain ⟨m1, d1⟩ := findDir_some h1
  obtain ⟨m2, d2⟩ := findDir_some h2
  have := opp_ne (hn _ m1) d1
  have := opp_ne (hn _ m2) d2
  omega

theorem mem_of_mem_rest {T : List Tri} {t1 t2 t : Tri} (h : t ∈ (T.erase t1).erase t2) : t ∈ T :=
  List.mem_of_mem_erase (List.mem_of_mem_erase h)

theorem decomp_length {T : List Tri} (hn : NonDeg T) {a b : Nat} {t1 t2 : Tri}
    (h1 : findDir T a b = some t1) (h2 : findDir T b a = some t2) :
    T.length = ((T.erase t1).erase t2).length + 2 := by
  obtain ⟨_, hp, _, _⟩ := find_decomp hn h1 h2
  rw [hp.length_eq]; rfl

/-! ### split -/

theorem split_noop {T : List Tri} {a b e : Nat}
    (h : findDir T a b = none ∨ findDir T b a = none) : splitT T a b e = T := by
  unfold splitT
  split
  · rcases h with h | h <;> simp_all
  · rfl

theorem splitT_eq {T : List Tri} {a b : Nat} (e : Nat) {t1 t2 : Tri}
    (h1 : findDir T a b = some t1) (h2 : findDir T b a = some t2) :
    splitT T a b e = (opp t1 a b, a, e) :: (opp t1 a b, e, b) :: (opp t2 b a, b, e) ::
      (opp t2 b a, e, a) :: (T.erase t1).erase t2 := by
  simp only [splitT, h1, h2]

theorem heM_split {T : List Tri} {a b : Nat} (e : Nat) {t1 t2 : Tri}
    (h1 : findDir T a b = some t1) (h2 : findDir T b a = some t2) :
    heM (splitT T a b e) = (P a e + P b e + P (opp t1 a b) e + P (opp t2 b a) e) +
      (R4 a b (opp t1 a b) (opp t2 b a) + heM ((T.erase t1).erase t2)) := by
  rw [splitT_eq e h1 h2]
  simp only [heM_cons, heTriM, P, R4, Multiset.insert_eq_cons, ← Multiset.singleton_add]
  abel

theorem split_closed {T : List Tri} (hn : NonDeg T) (hc : Closed T) (a b e : Nat) :
    Closed (splitT T a b e) := by
  rcases find_cases T a b with h | ⟨t1, t2, h1, h2⟩
  · rw [split_noop h]; exact hc
  · have hc' : SymM (heM T) := hc
    rw [heM_decomp hn h1 h2, symM_add_iff (symM_P _ _)] at hc'
    show SymM (heM (splitT T a b e))
    rw [heM_split e h1 h2]
    exact symM_add (symM_add (symM_add (symM_add (symM_P _ _) (symM_P _ _)) (symM_P _ _))
      (symM_P _ _)) hc'

/-- the new node differs from the four nodes of the quadrilateral -/
theorem fresh_ne {T : List Tri} (hn : NonDeg T) {a b e : Nat} {t1 t2 : Tri}
    (h1 : findDir T a b = some t1) (h2 : findDir T b a = some t2) (he : Fresh T e) :
    e ≠ a ∧ e ≠ b ∧ e ≠ opp t1 a b ∧ e ≠ opp t2 b a := by
  have h := (verts_decomp hn h1 h2 e).not.1 (fresh_iff.1 he)
  simp only [not_or] at h
  obtain ⟨⟨ec, ea, eb⟩, ⟨ed, -, -⟩, -⟩ := h
  exact ⟨ea, eb, ec, ed⟩

theorem split_nondeg {T : List Tri} (hn : NonDeg T) (a b e : Nat) (he : Fresh T e) :
    NonDeg (splitT T a b e) := by
  rcases find_cases T a b with h | ⟨t1, t2, h1, h2⟩
  · rw [split_noop h]; exact hn
  · rw [splitT_eq e h1 h2]
    have hq := quad_ne hn h1 h2
    have hf := fresh_ne hn h1 h2 he
    intro t ht
    simp only [List.mem_cons] at ht
    rcases ht with rfl | rfl | rfl | rfl | ht
    · dsimp only; omega
    · dsimp only; omega
    · dsimp only; omega
    · dsimp only; omega
    · exact hn t (mem_of_mem_rest ht)

/-- STATEMENT CHANGE: the hypothesis `g` (the two opposite nodes differ) is necessary, see the file
    header for the counterexample (two triangles glued along all three edges). -/
theorem split_simple {T : List Tri} (h : Inv T) (a b e : Nat) (he : Fresh T e)
    (g : ∀ t1 t2, findDir T a b = some t1 → findDir T b a = some t2 → opp t1 a b ≠ opp t2 b a) :
    Simple (splitT T a b e) := by
  rcases find_cases T a b with hf | ⟨t1, t2, h1, h2⟩
  · rw [split_noop hf]; exact h.simple
  · have hcd := g t1 t2 h1 h2
    have hq := quad_ne h.nondeg h1 h2
    have hfr := fresh_ne h.nondeg h1 h2 he
    have he' := fresh_iff.1 he
    have hM := heM_decomp h.nondeg h1 h2
    have hs : (heM T).Nodup := h.simple
    have key : ∀ p ∈ heM T, p.1 ≠ e ∧ p.2 ≠ e := fun p hp =>
      ⟨fun h => he' (h ▸ (verts_of_mem_heM hp).1), fun h => he' (h ▸ (verts_of_mem_heM hp).2)⟩
    have hsub : ∀ p ∈ R4 a b (opp t1 a b) (opp t2 b a) + heM ((T.erase t1).erase t2), p ∈ heM T :=
      fun p hp => by rw [hM]; exact Multiset.mem_add.2 (Or.inr hp)
    rw [hM] at hs
    unfold Simple
    rw [heM_split e h1 h2]
    refine Multiset.nodup_add.2 ⟨?_, (Multiset.nodup_add.1 hs).2.1, ?_⟩
    · have e8 : P a e + P b e + P (opp t1 a b) e + P (opp t2 b a) e =
          {(a, e), (e, a), (b, e), (e, b), (opp t1 a b, e), (e, opp t1 a b),
            (opp t2 b a, e), (e, opp t2 b a)} := by
        simp only [P, Multiset.insert_eq_cons, ← Multiset.singleton_add]; abel
      rw [e8]
      simp only [Multiset.insert_eq_cons, Multiset.nodup_cons, Multiset.mem_cons,
        Multiset.mem_singleton, Multiset.nodup_singleton, Prod.mk.injEq, and_true, true_and]
      omega
    · refine Multiset.disjoint_left.2 (fun {p} hp hpR => ?_)
      have hk := key p (hsub p hpR)
      simp only [P, Multiset.mem_add, Multiset.mem_singleton] at hp
      rcases hp with (((rfl | rfl) | (rfl | rfl)) | (rfl | rfl)) | (rfl | rfl) <;> simp at hk

theorem split_inv {T : List Tri} (h : Inv T) (a b e : Nat) (he : Fresh T e)
    (g : ∀ t1 t2, findDir T a b = some t1 → findDir T b a = some t2 → opp t1 a b ≠ opp t2 b a) :
    Inv (splitT T a b e) :=
  ⟨split_nondeg h.nondeg a b e he, split_simple h a b e he g, split_closed h.nondeg h.closed a b e⟩

theorem split_length {T : List Tri} (hn : NonDeg T) {a b e : Nat} {t1 t2 : Tri}
    (h1 : findDir T a b = some t1) (h2 : findDir T b a = some t2) :
    (splitT T a b e).length = T.length + 2 := by
  rw [splitT_eq e h1 h2, decomp_length hn h1 h2]; rfl

theorem split_verts {T : List Tri} (hn : NonDeg T) {a b e : Nat} {t1 t2 : Tri}
    (h1 : findDir T a b = some t1) (h2 : findDir T b a = some t2) :
    vertsF (splitT T a b e) = insert e (vertsF T) := by
  ext x
  rw [splitT_eq e h1 h2, Finset.mem_insert, verts_decomp hn h1 h2, mem_vertsF_cons, mem_vertsF_cons,
    mem_vertsF_cons, mem_vertsF_cons]
  dsimp only
  tauto

/-! ### swap -/

/-- the guards are the code's own ("pathological configuration" = c = d, "edge CD already exists") -/
def SwapGuard (T : List Tri) (a b : Nat) : Prop :=
  ∀ t1 t2, findDir T a b = some t1 → findDir T b a = some t2 →
    opp t1 a b ≠ opp t2 b a ∧ ¬ Adj T (opp t1 a b) (opp t2 b a)

theorem swap_noop {T : List Tri} {a b : Nat}
    (h : findDir T a b = none ∨ findDir T b a = none) : swapT T a b = T := by
  unfold swapT
  split
  · rcases h with h | h <;> simp_all
  · rfl

theorem swapT_eq {T : List Tri} {a b : Nat} {t1 t2 : Tri}
    (h1 : findDir T a b = some t1) (h2 : findDir T b a = some t2) :
    swapT T a b = (a, opp t2 b a, opp t1 a b) :: (b, opp t1 a b, opp t2 b a) ::
      (T.erase t1).erase t2 := by
  simp only [swapT, h1, h2]

theorem heM_swap {T : List Tri} {a b : Nat} {t1 t2 : Tri}
    (h1 : findDir T a b = some t1) (h2 : findDir T b a = some t2) :
    heM (swapT T a b) = P (opp t1 a b) (opp t2 b a) +
      (R4 a b (opp t1 a b) (opp t2 b a) + heM ((T.erase t1).erase t2)) := by
  rw [swapT_eq h1 h2]
  simp only [heM_cons, heTriM, P, R4, Multiset.insert_eq_cons, ← Multiset.singleton_add]
  abel

theorem swap_closed {T : List Tri} (hn : NonDeg T) (hc : Closed T) (a b : Nat) :
    Closed (swapT T a b) := by
  rcases find_cases T a b with h | ⟨t1, t2, h1, h2⟩
  · rw [swap_noop h]; exact hc
  · have hc' : SymM (heM T) := hc
    rw [heM_decomp hn h1 h2, symM_add_iff (symM_P _ _)] at hc'
    show SymM (heM (swapT T a b))
    rw [heM_swap h1 h2]
    exact symM_add (symM_P _ _) hc'

theorem swap_nondeg {T : List Tri} (h : Inv T) (a b : Nat) (g : SwapGuard T a b) :
    NonDeg (swapT T a b) := by
  rcases find_cases T a b with hf | ⟨t1, t2, h1, h2⟩
  · rw [swap_noop hf]; exact h.nondeg
  · rw [swapT_eq h1 h2]
    have hq := quad_ne h.nondeg h1 h2
    have hcd := (g t1 t2 h1 h2).1
    intro t ht
    simp only [List.mem_cons] at ht
    rcases ht with rfl | rfl | ht
    · dsimp only; omega
    · dsimp only; omega
    · exact h.nondeg t (mem_of_mem_rest ht)

theorem swap_simple {T : List Tri} (h : Inv T) (a b : Nat) (g : SwapGuard T a b) :
    Simple (swapT T a b) := by
  rcases find_cases T a b with hf | ⟨t1, t2, h1, h2⟩
  · rw [swap_noop hf]; exact h.simple
  · obtain ⟨hcd, hadj⟩ := g t1 t2 h1 h2
    have hM := heM_decomp h.nondeg h1 h2
    have hs : (heM T).Nodup := h.simple
    have hsub : ∀ p ∈ R4 a b (opp t1 a b) (opp t2 b a) + heM ((T.erase t1).erase t2), p ∈ heM T :=
      fun p hp => by rw [hM]; exact Multiset.mem_add.2 (Or.inr hp)
    rw [hM] at hs
    unfold Simple
    rw [heM_swap h1 h2]
    refine Multiset.nodup_add.2 ⟨?_, (Multiset.nodup_add.1 hs).2.1, ?_⟩
    · simp only [P, Multiset.singleton_add, Multiset.nodup_cons, Multiset.mem_singleton,
        Multiset.nodup_singleton, Prod.mk.injEq, and_true]
      omega
    · refine Multiset.disjoint_left.2 (fun {p} hp hpR => ?_)
      have hk := hsub p hpR
      simp only [P, Multiset.mem_add, Multiset.mem_singleton] at hp
      rcases hp with rfl | rfl
      · exact hadj (Or.inl hk)
      · exact hadj (Or.inr hk)

theorem swap_inv {T : List Tri} (h : Inv T) (a b : Nat) (g : SwapGuard T a b) :
    Inv (swapT T a b) :=
  ⟨swap_nondeg h a b g, swap_simple h a b g, swap_closed h.nondeg h.closed a b⟩

theorem swap_length {T : List Tri} (hn : NonDeg T) (a b : Nat) :
    (swapT T a b).length = T.length := by
  rcases find_cases T a b with hf | ⟨t1, t2, h1, h2⟩
  · rw [swap_noop hf]
  · rw [swapT_eq h1 h2, decomp_length hn h1 h2]; rfl

theorem swap_verts {T : List Tri} (h : Inv T) (a b : Nat) : vertsF (swapT T a b) = vertsF T := by
  rcases find_cases T a b with hf | ⟨t1, t2, h1, h2⟩
  · rw [swap_noop hf]
  · ext x
    rw [swapT_eq h1 h2, verts_decomp h.nondeg h1 h2, mem_vertsF_cons, mem_vertsF_cons]
    dsimp only
    tauto

/-! ### renaming of node ids (compaction of slots) -/

theorem heM_rename (ρ : Nat → Nat) (T : List Tri) :
    heM (renameT ρ T) = (heM T).map (Prod.map ρ ρ) := by
  induction T with
  | nil => simp [renameT, heM_nil]
  | cons t T ih =>
    have hc : renameT ρ (t :: T) = (ρ t.1, ρ t.2.1, ρ t.2.2) :: renameT ρ T := rfl
    rw [hc, heM_cons, heM_cons, Multiset.map_add, ih]
    congr 1

theorem rename_closed {T : List Tri} (ρ : Nat → Nat) (hc : Closed T) : Closed (renameT ρ T) := by
  unfold Closed at *
  have hcomm : Prod.swap ∘ Prod.map ρ ρ = Prod.map ρ ρ ∘ (Prod.swap : HE → HE) :=
    funext (fun _ => rfl)
  rw [heM_rename, Multiset.map_map, hcomm, ← Multiset.map_map, hc]

theorem rename_nondeg {T : List Tri} (ρ : Nat → Nat) (hρ : Set.InjOn ρ (vertsF T : Set Nat))
    (hn : NonDeg T) : NonDeg (renameT ρ T) := by
  intro t' ht'
  obtain ⟨t, ht, rfl⟩ := List.mem_map.1 ht'
  have m1 : t.1 ∈ (vertsF T : Set Nat) := Finset.mem_coe.2 (mem_vertsF.2 ⟨t, ht, Or.inl rfl⟩)
  have m2 : t.2.1 ∈ (vertsF T : Set Nat) :=
    Finset.mem_coe.2 (mem_vertsF.2 ⟨t, ht, Or.inr (Or.inl rfl)⟩)
  have m3 : t.2.2 ∈ (vertsF T : Set Nat) :=
    Finset.mem_coe.2 (mem_vertsF.2 ⟨t, ht, Or.inr (Or.inr rfl)⟩)
  obtain ⟨n1, n2, n3⟩ := hn t ht
  exact ⟨fun h => n1 (hρ m1 m2 h), fun h => n2 (hρ m2 m3 h), fun h => n3 (hρ m3 m1 h)⟩

theorem rename_simple {T : List Tri} (ρ : Nat → Nat) (hρ : Set.InjOn ρ (vertsF T : Set Nat))
    (hs : Simple T) : Simple (renameT ρ T) := by
  unfold Simple at *
  rw [heM_rename]
  refine Multiset.Nodup.map_on ?_ hs
  rintro ⟨x, y⟩ hp ⟨x', y'⟩ hq h
  simp only [Prod.map_apply, Prod.mk.injEq] at h
  obtain ⟨vx, vy⟩ := verts_of_mem_heM hp
  obtain ⟨vx', vy'⟩ := verts_of_mem_heM hq
  rw [Prod.mk.injEq]
  exact ⟨hρ (Finset.mem_coe.2 vx) (Finset.mem_coe.2 vx') h.1,
    hρ (Finset.mem_coe.2 vy) (Finset.mem_coe.2 vy') h.2⟩

theorem rename_inv {T : List Tri} (ρ : Nat → Nat) (hρ : Set.InjOn ρ (vertsF T : Set Nat))
    (h : Inv T) : Inv (renameT ρ T) :=
  ⟨rename_nondeg ρ hρ h.nondeg, rename_simple ρ hρ h.simple, rename_closed ρ h.closed⟩

theorem rename_length (ρ : Nat → Nat) (T : List Tri) : (renameT ρ T).length = T.length := by
  simp [renameT]

theorem vertsF_rename (ρ : Nat → Nat) (T : List Tri) :
    vertsF (renameT ρ T) = (vertsF T).image ρ := by
  ext x
  simp only [Finset.mem_image, mem_vertsF, renameT, List.mem_map]
  constructor
  · rintro ⟨_, ⟨t, ht, rfl⟩, h⟩
    rcases h with rfl | rfl | rfl
    · exact ⟨t.1, ⟨t, ht, Or.inl rfl⟩, rfl⟩
    · exact ⟨t.2.1, ⟨t, ht, Or.inr (Or.inl rfl)⟩, rfl⟩
    · exact ⟨t.2.2, ⟨t, ht, Or.inr (Or.inr rfl)⟩, rfl⟩
  · rintro ⟨y, ⟨t, ht, h⟩, rfl⟩
    refine ⟨_, ⟨t, ht, rfl⟩, ?_⟩
    rcases h with rfl | rfl | rfl <;> simp

theorem rename_verts_card {T : List Tri} (ρ : Nat → Nat)
    (hρ : Set.InjOn ρ (vertsF T : Set Nat)) :
    (vertsF (renameT ρ T)).card = (vertsF T).card := by
  rw [vertsF_rename, Finset.card_image_of_injOn hρ]

end Simu.Surface
