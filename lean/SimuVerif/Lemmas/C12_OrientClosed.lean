import SimuVerif.Lemmas.C13_Gate
import SimuVerif.Lemmas.C12_HalfEdge
/-
  C12 — closing `orient_consistent_partial`: on every triangle list that passes the tests `initialize_cell_properties(true)`
  performs before the flood fill (no repeated node, `generate_edge_set` succeeds, `is_manifold`), the flood fill of
  `check_face_normal_orientation` (model: `Geo.floodInit / floodStep / floodRun`, the SAME definitions the C13 gate model
  `Gate.orientChecked` calls)

    * never reaches an undefined state (every lookup it performs succeeds)              — `floodStep_progress`
    * ends within the fuel `3·F + 4` the model gives it (measure: |queue| + 3·#unchecked) — `floodRun_some`
    * and, when it reached every face (the test the code performs afterwards), leaves a consistently oriented surface:
      every half-edge once, its reverse once                                             — `flood_closed`

  The third point is C13's result (`floodInit_tree / floodRun_tree / tree_of_FJ / sphere_oriented`: the flood fill builds a
  spanning tree of consistent adjacencies, which on a surface with V − E + F = 2 extends to all adjacencies — orientability
  is PROVED); it is only transported here to C12's list formulation `Geo.Closed`.  The first two points are new: C13's
  theorems are conditional on `floodRun … = some s`.
-/
set_option linter.unusedSimpArgs false
set_option linter.unusedVariables false
namespace Simu.C12
open Simu Simu.Geo Simu.Gen.Geometry Simu.Gate Simu.Gen.Gate
open Simu.C13 (keys dirs TriND EdgeTwo NbOK FJ Ghost EInv slots Rew Sim)

/-! ### `Geo.Closed` (list permutation) and `Surface.Closed` (multiset equation) are the same statement -/

theorem he_coe (T : List Tri) : ((he T : List HE) : Multiset HE) = Surface.heM T := by
  induction T with
  | nil => simp [he, Surface.heM_nil]
  | cons t T ih =>
    rw [Surface.heM_cons, ← ih, C13.heTriM_eq_dirs]
    rfl

theorem closed_iff_surface (T : List Tri) : Closed T ↔ Surface.Closed T := by
  unfold Closed Surface.Closed
  rw [← he_coe, Multiset.map_coe, Multiset.coe_eq_coe]

theorem nodup_iff_surface (T : List Tri) : (he T).Nodup ↔ Surface.Simple T := by
  unfold Surface.Simple
  rw [← he_coe, Multiset.coe_nodup]

/-! ### the neighbour lookup never fails on an edge of a face -/

/-- every lookup the flood fill performs finds a record with two faces -/
def NbTot (T0 : List Tri) (nb : Nat → Nat → Nat → Option Nat) : Prop :=
  ∀ (f : Nat) (tf : Tri) (a b : Nat), T0[f]? = some tf → Surface.normHE (a, b) ∈ keys tf → ∃ g, nb f a b = some g

theorem nbr_total {T : List Tri} {es : List EdgeRec} (hI : EInv es (slots T 0))
    (hall : es.all (fun e => e.2.2.isSome) = true) : NbTot T (nbr es) := by
  intro f tf a b hf hk
  have hs : (Surface.normHE (a, b), f) ∈ slots T 0 := C13.mem_slots.mpr ⟨f, tf, hf, by omega, hk⟩
  have hc := hI.cover _ hs
  obtain ⟨r0, hr0, hr0k⟩ := List.mem_map.mp hc
  unfold nbr
  rw [C13.edgeKey_eq]
  cases hfind : es.find? (fun e => e.1 == Surface.normHE (a, b)) with
  | none =>
    have := List.find?_eq_none.mp hfind r0 hr0
    simp only at hr0k
    simp [hr0k] at this
  | some r =>
    obtain ⟨k', f1, f2⟩ := r
    have hr : ((k', f1, f2) : EdgeRec) ∈ es := List.mem_of_find?_eq_some hfind
    have := List.all_eq_true.mp hall _ hr
    cases f2 with
    | none => simp at this
    | some f2 => exact ⟨_, rfl⟩

/-! ### progress and termination -/

/-- what decreases in every iteration: pairs still queued + three for every face not yet wound -/
def mu (s : FS) : Nat := s.queue.length + 3 * s.checked.count false

theorem push_some {checked : List Bool} (q : List (Nat × Nat)) (f : Nat) {g : Nat} (hg : g < checked.length) :
    ∃ q', pushIfUnchecked checked q f g = some q' ∧ q'.length ≤ q.length + 1 := by
  unfold pushIfUnchecked
  rw [List.getElem?_eq_getElem hg]
  cases checked[g] with
  | true => exact ⟨q, rfl, by omega⟩
  | false => exact ⟨q ++ [(f, g)], rfl, by simp⟩

theorem count_set_true : ∀ (l : List Bool) (f : Nat), l[f]? = some false →
    (l.set f true).count false + 1 = l.count false := by
  intro l
  induction l with
  | nil => intro f h; simp at h
  | cons b l ih =>
    intro f h
    cases f with
    | zero =>
      simp only [List.getElem?_cons_zero, Option.some.injEq] at h
      subst h
      simp
    | succ j =>
      simp only [List.getElem?_cons_succ] at h
      have := ih j h
      simp only [List.set_cons_succ, List.count_cons]
      omega

/-- **progress**: under the invariant of the flood fill, on non-degenerate faces whose edges all have two faces, an
    iteration of the loop never reaches an undefined state, and it decreases the measure -/
theorem floodStep_progress (T0 : List Tri) (hnd : Surface.NonDeg T0) (nb : Nat → Nat → Nat → Option Nat)
    (hnb : NbOK T0 nb) (htot : NbTot T0 nb) (G : Ghost) (s : FS) (hI : FJ T0 G s) (hq : s.queue ≠ []) :
    ∃ s', floodStep nb s = some s' ∧ mu s' < mu s := by
  obtain ⟨faces, checked, queue⟩ := s
  cases queue with
  | nil => exact absurd rfl hq
  | cons rf q =>
    obtain ⟨r, f⟩ := rf
    obtain ⟨hcr, hrf, tr0, tf0, k, hOr, hOf, kr, kf⟩ := hI.queue r f List.mem_cons_self
    have hfT : f < T0.length := (List.getElem?_eq_some_iff.mp hOf).1
    have hlenC : checked.length = T0.length := hI.lenC
    have hlenF : faces.length = T0.length := hI.lenF
    have hclen : f < checked.length := by omega
    cases hb : checked[f] with
    | true =>
      have hcf : checked[f]? = some true := by rw [List.getElem?_eq_getElem hclen, hb]
      refine ⟨⟨faces, checked, q⟩, by simp only [floodStep, hcf], ?_⟩
      simp only [mu, List.length_cons]; omega
    | false =>
      have hcf : checked[f]? = some false := by rw [List.getElem?_eq_getElem hclen, hb]
      obtain ⟨tr, hfr, hrsim⟩ : ∃ tr, faces[r]? = some tr ∧ (tr = tr0 ∨ tr = swap13 tr0) := by
        rcases hI.shape r tr0 hOr with h1 | h1
        · exact ⟨_, h1, Or.inl rfl⟩
        · exact ⟨_, h1, Or.inr rfl⟩
      obtain ⟨tf, hff, hfsim⟩ : ∃ tf, faces[f]? = some tf ∧ (tf = tf0 ∨ tf = swap13 tf0) := by
        rcases hI.shape f tf0 hOf with h1 | h1
        · exact ⟨_, h1, Or.inl rfl⟩
        · exact ⟨_, h1, Or.inr rfl⟩
      have ndr0 : TriND tr0 := hnd tr0 (List.mem_of_getElem? hOr)
      have ndf0 : TriND tf0 := hnd tf0 (List.mem_of_getElem? hOf)
      have ndr : TriND tr := by rcases hrsim with rfl | rfl; exact ndr0; exact C13.triND_swap13 ndr0
      have ndf : TriND tf := by rcases hfsim with rfl | rfl; exact ndf0; exact C13.triND_swap13 ndf0
      have kr' : k ∈ keys tr := by rcases hrsim with rfl | rfl; exact kr; exact C13.mem_keys_swap13.mpr kr
      have kf' : k ∈ keys tf := by rcases hfsim with rfl | rfl; exact kf; exact C13.mem_keys_swap13.mpr kf
      obtain ⟨tf', hw, hsim', _⟩ := C13.winding_cons ndr ndf kr' kf'
      have hfsim' : tf' = tf0 ∨ tf' = swap13 tf0 := by
        rcases hsim' with rfl | rfl
        · exact hfsim
        · rcases hfsim with rfl | rfl
          · exact Or.inr rfl
          · exact Or.inl rfl
      have e1 : (tf'.1, tf'.2.1) ∈ dirs tf' := by simp [dirs]
      have e2 : (tf'.2.1, tf'.2.2) ∈ dirs tf' := by simp [dirs]
      have e3 : (tf'.2.2, tf'.1) ∈ dirs tf' := by simp [dirs]
      obtain ⟨g1, hg1⟩ := htot f tf0 _ _ hOf (C13.key_of_current hfsim' e1)
      obtain ⟨g2, hg2⟩ := htot f tf0 _ _ hOf (C13.key_of_current hfsim' e2)
      obtain ⟨g3, hg3⟩ := htot f tf0 _ _ hOf (C13.key_of_current hfsim' e3)
      have hlen' : (checked.set f true).length = T0.length := by rw [List.length_set]; exact hlenC
      have hb1 : g1 < (checked.set f true).length := by
        obtain ⟨tg, h1, _⟩ := hnb f tf0 _ _ g1 hOf (C13.key_of_current hfsim' e1) hg1
        rw [hlen']; exact (List.getElem?_eq_some_iff.mp h1).1
      have hb2 : g2 < (checked.set f true).length := by
        obtain ⟨tg, h1, _⟩ := hnb f tf0 _ _ g2 hOf (C13.key_of_current hfsim' e2) hg2
        rw [hlen']; exact (List.getElem?_eq_some_iff.mp h1).1
      have hb3 : g3 < (checked.set f true).length := by
        obtain ⟨tg, h1, _⟩ := hnb f tf0 _ _ g3 hOf (C13.key_of_current hfsim' e3) hg3
        rw [hlen']; exact (List.getElem?_eq_some_iff.mp h1).1
      obtain ⟨q1, hp1, hl1⟩ := push_some q f hb1
      obtain ⟨q2, hp2, hl2⟩ := push_some q1 f hb2
      obtain ⟨q3, hp3, hl3⟩ := push_some q2 f hb3
      refine ⟨⟨faces.set f tf', checked.set f true, q3⟩, ?_, ?_⟩
      · simp only [floodStep, hcf, hfr, hff, hw, hg1, hg2, hg3, hp1, hp2, hp3]
      · have := count_set_true checked f hcf
        simp only [mu, List.length_cons]
        omega

theorem floodRun_queue_nil (nb : Nat → Nat → Nat → Option Nat) (fuel : Nat) (s s' : FS)
    (h : floodRun nb fuel s = some s') : s'.queue = [] := by
  induction fuel generalizing s with
  | zero =>
    simp only [floodRun] at h
    split_ifs at h with he
    cases h; exact List.isEmpty_iff.mp he
  | succ k ih =>
    simp only [floodRun] at h
    split_ifs at h with he
    · cases h; exact List.isEmpty_iff.mp he
    · cases hs : floodStep nb s with
      | none => simp [hs] at h
      | some s1 => simp only [hs] at h; exact ih s1 h

/-- **termination**: with at least `mu s` iterations of fuel the loop ends, in a defined state -/
theorem floodRun_some (T0 : List Tri) (hnd : Surface.NonDeg T0) (nb : Nat → Nat → Nat → Option Nat)
    (hnb : NbOK T0 nb) (htot : NbTot T0 nb) (fuel : Nat) (G : Ghost) (s : FS) (hI : FJ T0 G s) (hfuel : mu s ≤ fuel) :
    ∃ s', floodRun nb fuel s = some s' := by
  induction fuel generalizing s G with
  | zero =>
    have : s.queue = [] := by
      have : s.queue.length = 0 := by unfold mu at hfuel; omega
      exact List.length_eq_zero_iff.mp this
    exact ⟨s, by simp [floodRun, this]⟩
  | succ k ih =>
    by_cases he : s.queue = []
    · exact ⟨s, by simp [floodRun, he]⟩
    · obtain ⟨s1, hs1, hmu⟩ := floodStep_progress T0 hnd nb hnb htot G s hI he
      obtain ⟨G1, hI1⟩ := C13.floodStep_tree T0 hnd nb hnb G s s1 hI hs1
      obtain ⟨s', hs'⟩ := ih G1 s1 hI1 (by omega)
      refine ⟨s', ?_⟩
      have hne : s.queue.isEmpty = false := by
        cases hq : s.queue with
        | nil => exact absurd hq he
        | cons _ _ => rfl
      simp only [floodRun, hne, Bool.false_eq_true, if_false, hs1]
      exact hs'

/-- the state before the loop exists and has measure `3·F` -/
theorem floodInit_some (T0 : List Tri) (hne : T0 ≠ []) (nb : Nat → Nat → Nat → Option Nat) (htot : NbTot T0 nb) :
    ∃ s0, floodInit nb T0 = some s0 ∧ mu s0 = 3 * T0.length := by
  cases T0 with
  | nil => exact absurd rfl hne
  | cons t0 rest =>
    have hO0 : (t0 :: rest)[0]? = some t0 := rfl
    have e1 : (t0.1, t0.2.1) ∈ dirs t0 := by simp [dirs]
    have e2 : (t0.2.1, t0.2.2) ∈ dirs t0 := by simp [dirs]
    have e3 : (t0.2.2, t0.1) ∈ dirs t0 := by simp [dirs]
    obtain ⟨g1, hg1⟩ := htot 0 t0 _ _ hO0 (C13.key_of_dir e1)
    obtain ⟨g2, hg2⟩ := htot 0 t0 _ _ hO0 (C13.key_of_dir e2)
    obtain ⟨g3, hg3⟩ := htot 0 t0 _ _ hO0 (C13.key_of_dir e3)
    refine ⟨⟨t0 :: rest, true :: List.replicate rest.length false, [(0, g1), (0, g2), (0, g3)]⟩,
      by simp only [floodInit, hg1, hg2, hg3], ?_⟩
    simp only [mu, List.length_cons, List.length_nil, List.count_cons, List.count_replicate]
    simp
    omega

/-! ### the tests before the flood fill, and what follows from them -/

/-- the tests `initialize_cell_properties(true)` performs before `check_face_normal_orientation`, as modelled in
    `Gate.accept` (which of them exist is read from the source: `Gen/GateConsts.lean`) -/
structure GatePre (n : Nat) (T : List Tri) (es : List EdgeRec) : Prop where
  /-- no face uses a node twice -/
  nondeg : nonDegB T = true
  /-- `generate_edge_set` did not meet a third face on an edge -/
  edges : genEdges T 0 [] = some es
  /-- `is_manifold`: two faces on every edge, V − E + F = 2 with the code's counts -/
  manifold : isManifoldG es (liveNodes T n).length T.length = true

theorem liveNodes_nil (n : Nat) : liveNodes [] n = [] := by
  unfold liveNodes
  rw [List.filter_eq_nil_iff]
  intro i _
  simp [nodeUsed]

/-- what the tests give, in the vocabulary of the lemmas -/
theorem gatePre_facts {n : Nat} {T : List Tri} {es : List EdgeRec} (h : GatePre n T es) :
    Surface.NonDeg T ∧ EInv es (slots T 0) ∧ es.all (fun e => e.2.2.isSome) = true ∧
    (liveNodes T n).length + T.length = es.length + 2 ∧ T ≠ [] := by
  have hct : checksTwoFacesPerEdge = true := rfl
  have hce : eulerTarget = some 2 := rfl
  have hman := h.manifold
  unfold isManifoldG at hman
  rw [hct, hce] at hman
  simp only [Bool.not_true, Bool.false_or, Bool.and_eq_true, beq_iff_eq] at hman
  refine ⟨C13.nonDeg_of_nonDegB h.nondeg, C13.genEdges_inv0 h.edges, hman.1, hman.2, ?_⟩
  intro hT
  subst hT
  have := hman.2
  rw [liveNodes_nil] at this
  simp at this

/-- **termination and definedness** of the flood fill on every mesh that passes the tests: the initial state exists, the
    loop ends within the fuel `3·F + 4` of the model, with an empty queue, and the faces are still the input faces up to
    reversal -/
theorem flood_terminates {n : Nat} {T : List Tri} {es : List EdgeRec} (h : GatePre n T es) :
    ∃ s0 s G, floodInit (nbr es) T = some s0 ∧ floodRun (nbr es) (3 * T.length + 4) s0 = some s ∧ s.queue = [] ∧
      FJ T G s := by
  obtain ⟨hnd, hE, hall, _, hne⟩ := gatePre_facts h
  have hnb : NbOK T (nbr es) := fun f tf a b g hf hk hg => C13.nbr_spec hE hnd hf hk hg
  have htot : NbTot T (nbr es) := nbr_total hE hall
  obtain ⟨s0, h0, hmu⟩ := floodInit_some T hne (nbr es) htot
  obtain ⟨G0, hJ0⟩ := C13.floodInit_tree T (nbr es) hnb s0 h0
  obtain ⟨s, hs⟩ := floodRun_some T hnd (nbr es) hnb htot (3 * T.length + 4) G0 s0 hJ0 (by omega)
  obtain ⟨G, hJ⟩ := C13.floodRun_tree T hnd (nbr es) hnb _ G0 s0 s hJ0 hs
  exact ⟨s0, s, G, h0, hs, floodRun_queue_nil _ _ _ _ hs, hJ⟩

/-- **the flood fill orients the surface**: ids in range, the tests passed, the flood fill reached every face (the test
    of the code after the loop) ⟹ the faces it leaves are consistently oriented (`Geo.Closed`: every half-edge is matched
    by its reverse) and no half-edge occurs twice; the same holds when all of them are reversed together -/
theorem flood_closed {n : Nat} {T : List Tri} {es : List EdgeRec} (hin : ∀ t ∈ T, t.1 < n ∧ t.2.1 < n ∧ t.2.2 < n)
    (h : GatePre n T es) {G : Ghost} {s : FS} (hJ : FJ T G s) (hall : s.checked.all id = true) (T' : List Tri)
    (hT' : T' = s.faces ∨ T' = s.faces.map swap23) :
    Closed T' ∧ (he T').Nodup ∧ Rew T' T := by
  obtain ⟨hnd, hE, hall2, heul, _⟩ := gatePre_facts h
  have h2 : EdgeTwo T := C13.edgeTwo_of_all hE hall2
  have hchi : Surface.chiZ T = 2 := by
    unfold Surface.chiZ
    rw [← C13.liveNodes_length hin, ← C13.length_eq_edges hE]
    omega
  obtain ⟨⟨A, B, ht⟩, hrew⟩ := C13.tree_of_FJ hJ hall hnd h2 hchi T' hT'
  obtain ⟨hc, hs⟩ := C13.sphere_oriented ht
  exact ⟨(closed_iff_surface T').mpr hc, (nodup_iff_surface T').mpr hs, hrew⟩

/-! ### the gate `Gate.accept` in terms of the flood fill -/
section accept
variable {R : Type} [Add R] [Sub R] [Mul R] [Div R] [Neg R] [Lit R] [LT R] [DecidableLT R] [SEq R]

/-- `initialize_cell_properties(true)` either throws before the flood fill or the tests `GatePre` have passed -/
theorem accept_unfold (pos : Nat → V3 R) (n : Nat) (T : List Tri) :
    (∃ es, GatePre n T es ∧ accept pos n T = orientChecked pos es T) ∨
    accept pos n T = .error .integrity ∨ accept pos n T = .error .notManifold := by
  unfold accept
  have hcn : checksNonDegenerate = true := rfl
  rw [hcn]
  cases hndB : nonDegB T with
  | false => right; left; simp
  | true =>
    simp only [Bool.not_true, Bool.and_false, Bool.false_eq_true, if_false]
    cases hge : genEdges T 0 [] with
    | none => right; left; rfl
    | some es =>
      simp only
      cases hman : isManifoldG es (liveNodes T n).length T.length with
      | false => right; right; simp
      | true =>
        left
        exact ⟨es, ⟨hndB, hge, hman⟩, by simp⟩

/-- on a mesh that passed the tests, `check_face_normal_orientation` is defined: it throws exactly when the flood fill
    did not reach every face, and otherwise returns the faces of the final state after the sign test -/
theorem orientChecked_eq (pos : Nat → V3 R) {n : Nat} {T : List Tri} {es : List EdgeRec} (h : GatePre n T es) :
    ∃ s0 s G, floodInit (nbr es) T = some s0 ∧ floodRun (nbr es) (3 * T.length + 4) s0 = some s ∧ FJ T G s ∧
      orientChecked pos es T = if s.checked.all id then .ok (finalFlip pos s.faces) else .error .notManifold := by
  obtain ⟨s0, s, G, h0, hs, _, hJ⟩ := flood_terminates h
  refine ⟨s0, s, G, h0, hs, hJ, ?_⟩
  have hcc : checksConnected = true := rfl
  unfold orientChecked
  simp only [h0, hs, hcc, Bool.true_and]
  cases s.checked.all id <;> simp

end accept

end Simu.C12
