/-
  C15: soundness of the abstract parallel phases of `SimuVerif.Model.Par`.  Core Lean only.

  * per-cell parallel loops: the result does not depend on the schedule;
  * division round: counter, fresh ids, no cell lost or duplicated, payloads independent of the order of
    the critical sections up to a permutation of the daughters;
  * `parallel_exception_handler`: every task runs, an exception reaches the caller iff one was thrown, and
    the one delivered is one of those thrown.
-/
import SimuVerif.Model.Par
namespace Simu.Par

/-! ### per-cell parallel loops -/

/-- one atomic step of a task -/
def stepSlot {α : Type} (s : Slot α) : Slot α :=
  match s.rem with
  | [] => s
  | f :: r => ⟨r, f s.val⟩

theorem tick_eq {α : Type} (st : List (Slot α)) (i : Nat) : tick st i = st.modify i stepSlot := rfl

theorem final_stepSlot {α : Type} (s : Slot α) : final (stepSlot s) = final s := by
  cases s with
  | mk rem val => cases rem <;> rfl

theorem tick_final {α : Type} (st : List (Slot α)) (i : Nat) : (tick st i).map final = st.map final := by
  rw [tick_eq]
  induction st generalizing i with
  | nil => simp
  | cons s st ih =>
    cases i with
    | zero => simp [final_stepSlot]
    | succ i => simp [ih]

theorem run_nil {α : Type} (st : List (Slot α)) : run st [] = st := rfl

theorem run_cons {α : Type} (st : List (Slot α)) (i : Nat) (sched : List Nat) :
    run st (i :: sched) = run (tick st i) sched := rfl

theorem run_append {α : Type} (st : List (Slot α)) (s1 s2 : List Nat) :
    run st (s1 ++ s2) = run (run st s1) s2 := by
  simp [run, List.foldl_append]

theorem run_final {α : Type} (st : List (Slot α)) (sched : List Nat) : (run st sched).map final = st.map final := by
  induction sched generalizing st with
  | nil => rfl
  | cons i sched ih => rw [run_cons, ih, tick_final]

theorem final_of_done {α : Type} (s : Slot α) (h : s.rem = []) : final s = s.val := by
  simp [final, h]

/-- schedule independence: whatever the interleaving, once every task has finished every cell holds exactly what the
    sequential execution produces -/
theorem schedule_independent {α : Type} (tasks : List (List (α → α))) (cells : List α) (sched : List Nat)
    (hdone : ∀ s ∈ run (start tasks cells) sched, s.rem = []) :
    (run (start tasks cells) sched).map (·.val) = sequential tasks cells := by
  unfold sequential
  rw [← run_final (start tasks cells) sched]
  apply List.map_congr_left
  intro s hs
  exact (final_of_done s (hdone s hs)).symm

/-- two complete schedules give the same cells -/
theorem schedules_agree {α : Type} (tasks : List (List (α → α))) (cells : List α) (s1 s2 : List Nat)
    (h1 : ∀ s ∈ run (start tasks cells) s1, s.rem = []) (h2 : ∀ s ∈ run (start tasks cells) s2, s.rem = []) :
    (run (start tasks cells) s1).map (·.val) = (run (start tasks cells) s2).map (·.val) := by
  rw [schedule_independent tasks cells s1 h1, schedule_independent tasks cells s2 h2]

/-- running task 0 alone to completion -/
theorem run_head_complete {α : Type} (rem : List (α → α)) (val : α) (st : List (Slot α)) :
    run (⟨rem, val⟩ :: st) (List.replicate rem.length 0) = ⟨[], final ⟨rem, val⟩⟩ :: st := by
  induction rem generalizing val with
  | nil => rfl
  | cons f r ih =>
    rw [List.length_cons, List.replicate_succ, run_cons]
    have : tick (⟨f :: r, val⟩ :: st) 0 = ⟨r, f val⟩ :: st := rfl
    rw [this, ih]
    rfl

/-- picks of the tasks 1, 2, … leave task 0 alone -/
theorem run_shift {α : Type} (s : Slot α) (st : List (Slot α)) (sched : List Nat) :
    run (s :: st) (sched.map (· + 1)) = s :: run st sched := by
  induction sched generalizing st with
  | nil => rfl
  | cons i sched ih =>
    rw [List.map_cons, run_cons, run_cons]
    have : tick (s :: st) (i + 1) = s :: tick st i := by simp [tick_eq]
    rw [this, ih]

/-- any state can be run to completion (task 0 to completion, then task 1, …) -/
theorem complete_schedule_exists' {α : Type} (st : List (Slot α)) :
    ∃ sched, ∀ s ∈ run st sched, s.rem = [] := by
  induction st with
  | nil => exact ⟨[], by simp [run_nil]⟩
  | cons s st ih =>
    obtain ⟨sched, h⟩ := ih
    refine ⟨List.replicate s.rem.length 0 ++ sched.map (· + 1), ?_⟩
    cases s with
    | mk rem val =>
      rw [run_append, run_head_complete, run_shift]
      intro t ht
      rcases List.mem_cons.mp ht with rfl | ht
      · rfl
      · exact h t ht

/-- non-vacuity: a complete schedule exists (the hypothesis on the lengths is not needed) -/
theorem complete_schedule_exists {α : Type} (tasks : List (List (α → α))) (cells : List α)
    (_hlen : tasks.length = cells.length) :
    ∃ sched, ∀ s ∈ run (start tasks cells) sched, s.rem = [] :=
  complete_schedule_exists' (start tasks cells)

/-! ### division round -/

/-- the daughters' payloads recorded by the critical section of cell `i` -/
def daughters {β : Type} (pop : Pop β) (outcome : β → Option (β × β)) (i : Nat) : List β :=
  match pop[i]? with
  | none => []
  | some (_, b) =>
    match outcome b with
    | none => []
    | some (d1, d2) => [d1, d2]

/-- the division of cell `i` succeeds -/
def Good {β : Type} (pop : Pop β) (outcome : β → Option (β × β)) (i : Nat) : Prop :=
  ∃ id b d1 d2, pop[i]? = some (id, b) ∧ outcome b = some (d1, d2)

theorem good_of_mem_dividing {β : Type} (pop : Pop β) (outcome : β → Option (β × β)) (i : Nat)
    (h : i ∈ dividing pop outcome) : Good pop outcome i := by
  unfold dividing at h
  rw [List.mem_filter] at h
  obtain ⟨_, h⟩ := h
  unfold Good
  cases hp : pop[i]? with
  | none => simp [hp] at h
  | some p =>
    obtain ⟨id, b⟩ := p
    cases ho : outcome b with
    | none => simp [hp, ho] at h
    | some d =>
      obtain ⟨d1, d2⟩ := d
      exact ⟨id, b, d1, d2, rfl, ho⟩

/-- the division of cell `i` succeeds (the predicate of `dividing`) -/
def divides {β : Type} (pop : Pop β) (outcome : β → Option (β × β)) (i : Nat) : Bool :=
  match pop[i]? with
  | some (_, b) => (outcome b).isSome
  | none => false

theorem dividing_eq {β : Type} (pop : Pop β) (outcome : β → Option (β × β)) :
    dividing pop outcome = (List.range pop.length).filter (divides pop outcome) := rfl

theorem mem_dividing_iff {β : Type} (pop : Pop β) (outcome : β → Option (β × β)) (i : Nat) :
    i ∈ dividing pop outcome ↔ i < pop.length ∧ divides pop outcome i = true := by
  rw [dividing_eq, List.mem_filter, List.mem_range]

theorem critical_payload {β : Type} (pop : Pop β) (outcome : β → Option (β × β)) (order : List Nat) (m : Nat) :
    (critical pop outcome order m).1.map (·.2) = order.flatMap (daughters pop outcome) := by
  induction order generalizing m with
  | nil => rfl
  | cons i rest ih =>
    rw [List.flatMap_cons]
    cases hp : pop[i]? with
    | none => simp [critical, daughters, hp, ih]
    | some p =>
      obtain ⟨id, b⟩ := p
      cases ho : outcome b with
      | none => simp [critical, daughters, hp, ho, ih]
      | some d =>
        obtain ⟨d1, d2⟩ := d
        simp [critical, daughters, hp, ho, ih]

theorem critical_good {β : Type} (pop : Pop β) (outcome : β → Option (β × β)) (order : List Nat) (m : Nat)
    (hgood : ∀ i ∈ order, Good pop outcome i) :
    (critical pop outcome order m).2 = m + 2 * order.length ∧
    (critical pop outcome order m).1.map (·.1) = List.range' m (2 * order.length) := by
  induction order generalizing m with
  | nil => exact ⟨rfl, rfl⟩
  | cons i rest ih =>
    obtain ⟨id, b, d1, d2, hp, ho⟩ := hgood i (List.mem_cons_self)
    have ih' := ih (m + 2) (fun j hj => hgood j (List.mem_cons_of_mem _ hj))
    unfold critical
    simp only [hp, ho]
    refine ⟨?_, ?_⟩
    · rw [ih'.1, List.length_cons]; omega
    · simp only [List.map_cons]
      rw [ih'.2, List.length_cons]
      have : 2 * (rest.length + 1) = (2 * rest.length + 1) + 1 := by omega
      rw [this, List.range'_succ, List.range'_succ]

theorem good_of_perm {β : Type} (pop : Pop β) (outcome : β → Option (β × β)) (order : List Nat)
    (hord : order.Perm (dividing pop outcome)) : ∀ i ∈ order, Good pop outcome i :=
  fun i hi => good_of_mem_dividing pop outcome i (hord.mem_iff.mp hi)

theorem critical_counter {β : Type} (pop : Pop β) (outcome : β → Option (β × β)) (order : List Nat) (m : Nat)
    (hord : order.Perm (dividing pop outcome)) :
    (critical pop outcome order m).2 = m + 2 * (dividing pop outcome).length := by
  rw [(critical_good pop outcome order m (good_of_perm pop outcome order hord)).1, hord.length_eq]

theorem critical_ids {β : Type} (pop : Pop β) (outcome : β → Option (β × β)) (order : List Nat) (m : Nat)
    (hord : order.Perm (dividing pop outcome)) :
    ((critical pop outcome order m).1.map (·.1)) = List.range' m (2 * (dividing pop outcome).length) := by
  rw [(critical_good pop outcome order m (good_of_perm pop outcome order hord)).2, hord.length_eq]

theorem critical_length {β : Type} (pop : Pop β) (outcome : β → Option (β × β)) (order : List Nat) (m : Nat)
    (hord : order.Perm (dividing pop outcome)) :
    (critical pop outcome order m).1.length = 2 * (dividing pop outcome).length := by
  have h := congrArg List.length (critical_ids pop outcome order m hord)
  simpa using h

/-- the daughters are the same whatever the order of the critical sections, up to their order in the list
    (and their ids, which are handed out in critical-section order) -/
theorem critical_payload_perm {β : Type} (pop : Pop β) (outcome : β → Option (β × β)) (o1 o2 : List Nat) (m : Nat)
    (h1 : o1.Perm (dividing pop outcome)) (h2 : o2.Perm (dividing pop outcome)) :
    ((critical pop outcome o1 m).1.map (·.2)).Perm ((critical pop outcome o2 m).1.map (·.2)) := by
  rw [critical_payload, critical_payload]
  exact List.Perm.flatMap_right _ (h1.trans h2.symm)

/-- the survivors of the round -/
def keep {β : Type} (pop : Pop β) (outcome : β → Option (β × β)) : Pop β :=
  (List.range pop.length).filterMap (fun i =>
    if (dividing pop outcome).contains i then none else pop[i]?)

theorem divisionRound_eq {β : Type} (pop : Pop β) (outcome : β → Option (β × β)) (order : List Nat) (m : Nat) :
    divisionRound pop outcome order m =
      (keep pop outcome ++ (critical pop outcome order m).1, (critical pop outcome order m).2) := rfl

/-- selecting entries of a list by index yields a sublist -/
theorem filterMap_range_sublist {γ : Type} (l : List γ) (c : Nat → Bool) (n : Nat) :
    ((List.range n).filterMap (fun i => if c i then none else l[i]?)).Sublist (l.take n) := by
  induction n with
  | zero => simp
  | succ n ih =>
    rw [List.range_succ, List.filterMap_append, List.take_add_one]
    apply List.Sublist.append ih
    cases hc : c n with
    | true => simp [hc]
    | false =>
      cases hl : l[n]? with
      | none => simp [hc, hl]
      | some x => simp [hc, hl]

theorem keep_sublist {β : Type} (pop : Pop β) (outcome : β → Option (β × β)) :
    (keep pop outcome).Sublist pop := by
  have h := filterMap_range_sublist pop (fun i => (dividing pop outcome).contains i) pop.length
  rw [List.take_length] at h
  exact h

/-- selecting entries of a list by valid indices: as many entries as indices selected -/
theorem length_filterMap_select {γ : Type} (l : List γ) (c : Nat → Bool) (idx : List Nat)
    (h : ∀ i ∈ idx, i < l.length) :
    (idx.filterMap (fun i => if c i then none else l[i]?)).length = idx.countP (fun i => !c i) := by
  induction idx with
  | nil => rfl
  | cons a idx ih =>
    have ha : a < l.length := h a List.mem_cons_self
    have ih' := ih (fun i hi => h i (List.mem_cons_of_mem _ hi))
    cases hc : c a with
    | true => simp [hc, ih']
    | false => simp [hc, ih', List.getElem?_eq_getElem ha]

theorem keep_length {β : Type} (pop : Pop β) (outcome : β → Option (β × β)) :
    (keep pop outcome).length = pop.length - (dividing pop outcome).length := by
  have hk : (keep pop outcome).length
      = (List.range pop.length).countP (fun i => !divides pop outcome i) := by
    unfold keep
    rw [length_filterMap_select pop _ _ (fun i hi => List.mem_range.mp hi)]
    apply List.countP_congr
    intro i hi
    have hc : (dividing pop outcome).contains i = divides pop outcome i := by
      rw [Bool.eq_iff_iff, List.contains_iff_mem, mem_dividing_iff]
      simp [List.mem_range.mp hi]
    rw [hc]
  have hd : (dividing pop outcome).length = (List.range pop.length).countP (divides pop outcome) := by
    rw [dividing_eq, List.countP_eq_length_filter]
  have hsum := List.length_eq_countP_add_countP (divides pop outcome) (l := List.range pop.length)
  rw [List.length_range] at hsum
  have hneg : List.countP (fun a => decide ¬divides pop outcome a = true) (List.range pop.length)
      = List.countP (fun i => !divides pop outcome i) (List.range pop.length) := by
    apply List.countP_congr
    intro i _
    cases divides pop outcome i <;> simp
  omega

/-- no cell lost or duplicated: the survivors are the same sublist, count = n - k + 2k -/
theorem divisionRound_length {β : Type} (pop : Pop β) (outcome : β → Option (β × β)) (order : List Nat) (m : Nat)
    (hord : order.Perm (dividing pop outcome)) :
    (divisionRound pop outcome order m).1.length = pop.length - (dividing pop outcome).length + 2 * (dividing pop outcome).length := by
  rw [divisionRound_eq]
  simp only [List.length_append]
  rw [keep_length, critical_length pop outcome order m hord]

theorem divisionRound_payload_perm {β : Type} (pop : Pop β) (outcome : β → Option (β × β)) (o1 o2 : List Nat) (m : Nat)
    (h1 : o1.Perm (dividing pop outcome)) (h2 : o2.Perm (dividing pop outcome)) :
    ((divisionRound pop outcome o1 m).1.map (·.2)).Perm ((divisionRound pop outcome o2 m).1.map (·.2)) := by
  rw [divisionRound_eq, divisionRound_eq]
  simp only [List.map_append]
  exact List.Perm.append_left _ (critical_payload_perm pop outcome o1 o2 m h1 h2)

/-- no duplicate id: if the ids of the population are pairwise distinct and below the counter, so are the ids after the round -/
theorem divisionRound_ids {β : Type} (pop : Pop β) (outcome : β → Option (β × β)) (order : List Nat) (m : Nat)
    (hord : order.Perm (dividing pop outcome)) (hnd : (pop.map (·.1)).Nodup) (hlt : ∀ p ∈ pop, p.1 < m) :
    ((divisionRound pop outcome order m).1.map (·.1)).Nodup ∧
    (∀ p ∈ (divisionRound pop outcome order m).1, p.1 < (divisionRound pop outcome order m).2) := by
  rw [divisionRound_eq]
  simp only [List.map_append]
  have hsub := keep_sublist pop outcome
  have hids := critical_ids pop outcome order m hord
  have hcnt := critical_counter pop outcome order m hord
  refine ⟨?_, ?_⟩
  · rw [List.nodup_append]
    refine ⟨(hsub.map _).nodup hnd, ?_, ?_⟩
    · rw [hids]; exact List.nodup_range'
    · intro a ha b hb
      rw [hids, List.mem_range'_1] at hb
      obtain ⟨p, hp, rfl⟩ := List.mem_map.mp ha
      have := hlt p (hsub.subset hp)
      omega
  · intro p hp
    rw [hcnt]
    rcases List.mem_append.mp hp with hp | hp
    · have := hlt p (hsub.subset hp)
      omega
    · have hm : p.1 ∈ (critical pop outcome order m).1.map (·.1) := List.mem_map_of_mem hp
      rw [hids, List.mem_range'_1] at hm
      omega

/-! ### parallel_exception_handler -/

/-- the exception stored by the critical sections entered in the order `order` -/
def stored {ε : Type} (results : List (Except ε Unit)) (order : List Nat) : Option ε :=
  order.foldl (fun (acc : Option ε) (i : Nat) => match results[i]? with
    | some (Except.error e) => some e
    | _ => acc) none

theorem handler_eq {ε : Type} (results : List (Except ε Unit)) (order : List Nat) :
    handler results order =
      (results.length, match stored results order with | some e => .error e | none => .ok ()) := rfl

theorem stored_concat {ε : Type} (results : List (Except ε Unit)) (init : List Nat) (i : Nat) (e : ε)
    (h : results[i]? = some (.error e)) : stored results (init ++ [i]) = some e := by
  unfold stored
  rw [List.foldl_append]
  simp [h]

theorem mem_failing {ε : Type} (results : List (Except ε Unit)) (i : Nat) (h : i ∈ failing results) :
    ∃ e, results[i]? = some (.error e) := by
  unfold failing at h
  rw [List.mem_filter] at h
  obtain ⟨_, h⟩ := h
  cases hr : results[i]? with
  | none => simp [hr] at h
  | some r =>
    cases r with
    | error e => exact ⟨e, rfl⟩
    | ok u => simp [hr] at h

theorem handler_runs_all {ε : Type} (results : List (Except ε Unit)) (order : List Nat) : (handler results order).1 = results.length := rfl

/-- an exception thrown by some task reaches the caller as one of the thrown exceptions -/
theorem handler_delivers {ε : Type} (results : List (Except ε Unit)) (order : List Nat) (hord : order.Perm (failing results))
    (hne : failing results ≠ []) :
    ∃ i ∈ failing results, ∃ e, results[i]? = some (.error e) ∧ (handler results order).2 = .error e := by
  have hne' : order ≠ [] := by
    intro h
    rw [h] at hord
    exact hne hord.symm.eq_nil
  have hmem : order.getLast hne' ∈ failing results := hord.mem_iff.mp (List.getLast_mem hne')
  obtain ⟨e, he⟩ := mem_failing results _ hmem
  refine ⟨_, hmem, e, he, ?_⟩
  rw [handler_eq, ← List.dropLast_concat_getLast hne', stored_concat results _ _ e he]

theorem handler_ok_iff {ε : Type} (results : List (Except ε Unit)) (order : List Nat) (hord : order.Perm (failing results)) :
    (handler results order).2 = .ok () ↔ failing results = [] := by
  constructor
  · intro h
    apply Classical.byContradiction
    intro hne
    obtain ⟨_, _, e, _, he⟩ := handler_delivers results order hord hne
    rw [he] at h
    cases h
  · intro h
    rw [h] at hord
    rw [hord.eq_nil]
    rfl

/-! ### concrete instances -/

/-- three cells, two steps each, two different interleavings -/
example :
    (run (start [[(· + 1), (· * 2)], [(· * 3), (· + 5)], [(· - 1), (· * 7)]] [10, 20, 30]) [0, 0, 1, 1, 2, 2]).map (·.val)
      = (run (start [[(· + 1), (· * 2)], [(· * 3), (· + 5)], [(· - 1), (· * 7)]] [10, 20, 30]) [2, 1, 0, 2, 0, 1]).map (·.val) := by
  decide

example :
    (run (start [[(· + 1), (· * 2)], [(· * 3), (· + 5)], [(· - 1), (· * 7)]] [10, 20, 30]) [2, 1, 0, 2, 0, 1]).map (·.val)
      = [22, 65, 203] := by
  decide

example :
    sequential [[(· + 1), (· * 2)], [(· * 3), (· + 5)], [(· - 1), (· * 7)]] [10, 20, 30] = [22, 65, 203] := by
  decide

/-- a population of four (ids 10..13, payload = size): the cells of even size divide into two halves,
    so the cells 1 and 3 divide -/
def exPop : Pop Nat := [(10, 5), (11, 8), (12, 7), (13, 6)]
def exOutcome : Nat → Option (Nat × Nat) := fun b => if b % 2 = 0 then some (b / 2, b / 2 + 100) else none

example : dividing exPop exOutcome = [1, 3] := by decide

example : divisionRound exPop exOutcome [1, 3] 14 =
    ([(10, 5), (12, 7), (14, 4), (15, 104), (16, 3), (17, 103)], 18) := by decide

example : divisionRound exPop exOutcome [3, 1] 14 =
    ([(10, 5), (12, 7), (14, 3), (15, 103), (16, 4), (17, 104)], 18) := by decide

example : ((divisionRound exPop exOutcome [1, 3] 14).1.map (·.1))
    = ((divisionRound exPop exOutcome [3, 1] 14).1.map (·.1)) := by decide

/-- a handler with two failing tasks: every task runs, the exception stored last is delivered -/
def exResults : List (Except String Unit) := [.ok (), .error "a", .ok (), .error "b"]

example : failing exResults = [1, 3] := by decide
example : handler exResults [1, 3] = (4, .error "b") := rfl
example : handler exResults [3, 1] = (4, .error "a") := rfl
example : handler ([.ok (), .ok ()] : List (Except String Unit)) [] = (2, .ok ()) := rfl

end Simu.Par
