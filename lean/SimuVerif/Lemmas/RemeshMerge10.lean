import SimuVerif.Lemmas.RemeshMerge9
import SimuVerif.Lemmas.SurfaceManifold
/-
  Part 10: the fan of faces around a node (slot level: `FanF`, `Fan`, `VertexManifold`) versus connectedness of the link
  (`Surface.VMC`, the notion that is preserved over histories, `C01.reach_vertex_manifold`).

  * `vmc_of_fan`:  a fan around `v` + the surface invariant ⟹ the link of `v` in `abs c` is connected.
  * `vmc_triEquiv`: connectedness of the links only depends on the triangles up to rotation and order; hence the concrete
    `split_edge` / `swap_edge` / `merge_edge` preserve it (`splitEdge_vmc`, `swapEdge_vmc`, `mergeEdge_vmc`).
-/
set_option linter.unusedSectionVars false
set_option linter.unusedVariables false
set_option linter.unusedSimpArgs false
namespace Simu.Remesh
open Simu Simu.Surface Relation
open Simu.C11 (bind_ok newSlot)

/-! ## 1. links up to rotation of the triangles -/

theorem isRot_canonTri (t : Tri) (v x y : Nat) : IsRot (canonTri t) v x y ↔ IsRot t v x y := by
  obtain ⟨p, q, r⟩ := t
  rcases canonTri_cases (p, q, r) with h | h | h <;> rw [h] <;> simp only [isRot_mk] <;> tauto

theorem lk_map_canonTri (T : List Tri) (v x y : Nat) : Lk (T.map canonTri) v x y ↔ Lk T v x y := by
  unfold Lk
  constructor
  · rintro ⟨t', ht', hr⟩
    obtain ⟨t, ht, rfl⟩ := List.mem_map.1 ht'
    exact ⟨t, ht, (isRot_canonTri t v x y).1 hr⟩
  · rintro ⟨t, ht, hr⟩
    exact ⟨_, List.mem_map.2 ⟨t, ht, rfl⟩, (isRot_canonTri t v x y).2 hr⟩

theorem lk_triEquiv {S T : List Tri} (h : TriEquiv S T) (v x y : Nat) : Lk S v x y ↔ Lk T v x y := by
  rw [← lk_map_canonTri S, ← lk_map_canonTri T]
  exact lk_perm h v x y

theorem vmc_triEquiv {S T : List Tri} (h : TriEquiv S T) (hv : AllVMC T) : AllVMC S :=
  fun v => conn_congr (fun x y => lk_triEquiv h v x y) (hv v)

section
variable {R : Type} [Add R] [Sub R] [Mul R] [Div R] [Neg R] [Lit R] [LT R] [LE R] [DecidableLT R]
  [DecidableLE R] [DecidableEq R]

/-! ## 2. the concrete operations keep every link connected -/

theorem splitEdge_vmc {fn : Fn R} {k : SplitConsts R} {c c' : Cell R} {e : Edge} {chk chk' : CheckSet}
    (h : splitEdge fn k c e chk = .ok (c', chk')) (hf : FaceFreeOk c) (hI : Inv (abs c))
    (hab : e.n1 ≠ e.n2) (he : EdgeFaces c e e.n1 e.n2) (hfresh : Fresh (abs c) (newSlot c))
    (hg : ∀ t1 t2, findDir (abs c) e.n1 e.n2 = some t1 → findDir (abs c) e.n2 e.n1 = some t2 →
      opp t1 e.n1 e.n2 ≠ opp t2 e.n2 e.n1) (hv : AllVMC (abs c)) : AllVMC (abs c') :=
  vmc_triEquiv (splitEdge_triEquiv h hf hI hab he) (split_vmc hI hv hfresh hg)

theorem swapEdge_vmc {fn : Fn R} {c c' : Cell R} {e : Edge}
    (h : swapEdge fn c e = .ok c') (hf : FaceFreeOk c) (hI : Inv (abs c))
    (hab : e.n1 ≠ e.n2) (he : EdgeFaces c e e.n1 e.n2) (hidx : EdgeIdxSound c)
    (hg : SwapGuard (abs c) e.n1 e.n2) (hv : AllVMC (abs c)) : AllVMC (abs c') :=
  vmc_triEquiv (swapEdge_refines h hf hI hab he hidx hg).1 (swap_vmc hI hv hg)

theorem mergeEdge_vmc {fn : Fn R} {k : SplitConsts R} {c c' : Cell R} {e : Edge} {chk chk' : CheckSet}
    {kA kB : Nat} {FA NA FB NB : Nat → Nat}
    (h : mergeEdge fn k c e chk = .ok (c', chk')) (H : MergeHyp c e kA kB FA NA FB NB) (hI : Inv (abs c))
    {t1 t2 : Tri} (h1 : findDir (abs c) e.n1 e.n2 = some t1) (h2 : findDir (abs c) e.n2 e.n1 = some t2)
    (hl : LinkCond (abs c) e.n1 e.n2 (opp t1 e.n1 e.n2) (opp t2 e.n2 e.n1)) (hv : AllVMC (abs c)) :
    AllVMC (abs c') := by
  rw [mergeEdge_abs h H]
  exact collapse_vmc hI hv h1 h2 hl.1 (fresh_of_freshNode H.fresh)

/-! ## 3. a fan gives a connected link -/

/-- the triangle of a fan face is a rotation of `(v, N j, N (j+1))` or of `(v, N (j+1), N j)` -/
theorem isTri_rot {t : Tri} {v x y : Nat} (h : IsTri t v x y) : IsRot t v x y ∨ IsRot t v y x := by
  obtain ⟨p, q, s⟩ := t
  rcases h.perm with ⟨rfl, rfl, rfl⟩ | ⟨rfl, rfl, rfl⟩ | ⟨rfl, rfl, rfl⟩ | ⟨rfl, rfl, rfl⟩ | ⟨rfl, rfl, rfl⟩ |
    ⟨rfl, rfl, rfl⟩ <;> simp [isRot_mk]

/-- two different live slots cannot traverse the same directed edge -/
theorem slots_dir_unique {c : Cell R} (hI : Inv (abs c)) {g1 g2 : Nat} {t1 t2 : Tri}
    (h1 : (slots c)[g1]? = some (some t1)) (h2 : (slots c)[g2]? = some (some t2)) {p q : Nat}
    (d1 : hasDir t1 p q = true) (d2 : hasDir t2 p q = true) : g1 = g2 := by
  by_contra hne
  exact two_dir_not_simple (absM_two_slots hne h1 h2) hI.simple d1 d2

theorem vmc_of_fan {c : Cell R} (hI : Inv (abs c)) {v k : Nat} {F N : Nat → Nat} (fan : FanF (slots c) v k F N)
    (hk : 0 < k) : VMC (abs c) v := by
  have hk2 := fan.two_le hk
  -- the triangle of each fan face
  have tri : ∀ j, j < k → ∃ t, (slots c)[F (j + 1)]? = some (some t) ∧ t ∈ abs c ∧
      (IsRot t v (N j) (N (j + 1)) ∨ IsRot t v (N (j + 1)) (N j)) := by
    intro j hj
    obtain ⟨t, ht, hT⟩ := fan.tri j hj
    exact ⟨t, ht, mem_abs_iff.2 ⟨_, ht⟩, isTri_rot hT⟩
  -- every link edge comes from a fan face
  have edge : ∀ x y, Lk (abs c) v x y → ∃ j, j < k ∧ ((x = N j ∧ y = N (j + 1)) ∨ (x = N (j + 1) ∧ y = N j)) := by
    rintro x y ⟨t, ht, hr⟩
    obtain ⟨g, hg⟩ := mem_abs_iff.1 ht
    obtain ⟨j, hj, rfl⟩ := fan.all g t hg (isRot_hasNode hr).1
    obtain ⟨t', ht', hT⟩ := fan.tri j hj
    rw [hg] at ht'; cases ht'
    refine ⟨j, hj, ?_⟩
    have h1 := hT.1
    have h2 := hT.2.1
    have h3 := hT.2.2.1
    obtain ⟨p, q, s⟩ := t
    rcases isTri_rot hT with h | h <;> rw [isRot_mk] at h hr <;> omega
  -- consistent orientation
  have step : ∀ j, j + 1 < k →
      ((∃ t, (slots c)[F (j + 1)]? = some (some t) ∧ IsRot t v (N j) (N (j + 1))) →
        (∃ t, (slots c)[F (j + 1 + 1)]? = some (some t) ∧ IsRot t v (N (j + 1)) (N (j + 1 + 1)))) ∧
      ((∃ t, (slots c)[F (j + 1)]? = some (some t) ∧ IsRot t v (N (j + 1)) (N j)) →
        (∃ t, (slots c)[F (j + 1 + 1)]? = some (some t) ∧ IsRot t v (N (j + 1 + 1)) (N (j + 1)))) := by
    intro j hj
    obtain ⟨t', ht', _, hor⟩ := tri (j + 1) hj
    have hFne : F (j + 1) ≠ F (j + 1 + 1) := fan.F_succ_ne hj
    constructor
    · rintro ⟨t, ht, hr⟩
      rcases hor with h | h
      · exact ⟨t', ht', h⟩
      · exact absurd (slots_dir_unique hI ht ht' (isRot_hasDir hr).2.2 (isRot_hasDir h).2.2) hFne
    · rintro ⟨t, ht, hr⟩
      rcases hor with h | h
      · exact absurd (slots_dir_unique hI ht ht' (isRot_hasDir hr).1 (isRot_hasDir h).1) hFne
      · exact ⟨t', ht', h⟩
  obtain ⟨t0, ht0, _, hor0⟩ := tri 0 hk
  rcases hor0 with h0 | h0
  · -- all faces are rotations of (v, N j, N (j+1)): the link is N 0 → N 1 → … → N k = N 0
    have pos : ∀ j, j < k → ∃ t, (slots c)[F (j + 1)]? = some (some t) ∧ IsRot t v (N j) (N (j + 1)) := by
      intro j
      induction j with
      | zero => intro _; exact ⟨t0, ht0, h0⟩
      | succ j ih => intro hj; exact (step j hj).1 (ih (by omega))
    have all : ∀ j, j < k → Lk (abs c) v (N j) (N (j + 1)) := by
      intro j hj
      obtain ⟨t, ht, hr⟩ := pos j hj
      exact ⟨t, mem_abs_iff.2 ⟨_, ht⟩, hr⟩
    have fwd : ∀ i j, i ≤ j → j ≤ k → ReflTransGen (Lk (abs c) v) (N i) (N j) := by
      intro i j hij
      induction j with
      | zero => intro _; have : i = 0 := by omega
                subst this; exact ReflTransGen.refl
      | succ j ih =>
        intro hj
        by_cases he : i = j + 1
        · subst he; exact ReflTransGen.refl
        · exact (ih (by omega) (by omega)).tail (all j (by omega))
    have any : ∀ i j, i < k → j < k → ReflTransGen (Lk (abs c) v) (N i) (N j) := by
      intro i j hi hj
      by_cases hij : i ≤ j
      · exact fwd i j hij (by omega)
      · have := (fwd i k (by omega) (Nat.le_refl _))
        rw [fan.closeN] at this
        exact this.trans (fwd 0 j (by omega) (by omega))
    intro x y x' y' hx hy
    obtain ⟨jx, hjx, hxx⟩ := edge x x' hx
    obtain ⟨jy, hjy, hyy⟩ := edge y y' hy
    obtain ⟨ix, hix, ex⟩ : ∃ i, i < k ∧ x = N i := by
      rcases hxx with ⟨h, _⟩ | ⟨h, _⟩
      · exact ⟨jx, hjx, h⟩
      · obtain ⟨i, hi, he⟩ := fan.nbr_next hjx; exact ⟨i, hi, h.trans he⟩
    obtain ⟨iy, hiy, ey⟩ : ∃ i, i < k ∧ y = N i := by
      rcases hyy with ⟨h, _⟩ | ⟨h, _⟩
      · exact ⟨jy, hjy, h⟩
      · obtain ⟨i, hi, he⟩ := fan.nbr_next hjy; exact ⟨i, hi, h.trans he⟩
    rw [ex, ey]
    exact any ix iy hix hiy
  · -- all faces are rotations of (v, N (j+1), N j): the link is N k → … → N 1 → N 0
    have neg : ∀ j, j < k → ∃ t, (slots c)[F (j + 1)]? = some (some t) ∧ IsRot t v (N (j + 1)) (N j) := by
      intro j
      induction j with
      | zero => intro _; exact ⟨t0, ht0, h0⟩
      | succ j ih => intro hj; exact (step j hj).2 (ih (by omega))
    have all : ∀ j, j < k → Lk (abs c) v (N (j + 1)) (N j) := by
      intro j hj
      obtain ⟨t, ht, hr⟩ := neg j hj
      exact ⟨t, mem_abs_iff.2 ⟨_, ht⟩, hr⟩
    have bwd : ∀ i j, i ≤ j → j ≤ k → ReflTransGen (Lk (abs c) v) (N j) (N i) := by
      intro i j hij
      induction j with
      | zero => intro _; have : i = 0 := by omega
                subst this; exact ReflTransGen.refl
      | succ j ih =>
        intro hj
        by_cases he : i = j + 1
        · subst he; exact ReflTransGen.refl
        · exact ReflTransGen.head (all j (by omega)) (ih (by omega) (by omega))
    have any : ∀ i j, i < k → j < k → ReflTransGen (Lk (abs c) v) (N i) (N j) := by
      intro i j hi hj
      by_cases hij : j ≤ i
      · exact bwd j i hij (by omega)
      · have h1 := bwd 0 i (by omega) (by omega)
        have h2 := bwd j k (by omega) (Nat.le_refl _)
        rw [fan.closeN] at h2
        exact h1.trans h2
    intro x y x' y' hx hy
    obtain ⟨jx, hjx, hxx⟩ := edge x x' hx
    obtain ⟨jy, hjy, hyy⟩ := edge y y' hy
    obtain ⟨ix, hix, ex⟩ : ∃ i, i < k ∧ x = N i := by
      rcases hxx with ⟨h, _⟩ | ⟨h, _⟩
      · exact ⟨jx, hjx, h⟩
      · obtain ⟨i, hi, he⟩ := fan.nbr_next hjx; exact ⟨i, hi, h.trans he⟩
    obtain ⟨iy, hiy, ey⟩ : ∃ i, i < k ∧ y = N i := by
      rcases hyy with ⟨h, _⟩ | ⟨h, _⟩
      · exact ⟨jy, hjy, h⟩
      · obtain ⟨i, hi, he⟩ := fan.nbr_next hjy; exact ⟨i, hi, h.trans he⟩
    rw [ex, ey]
    exact any ix iy hix hiy

/-! ## 4. a connected link gives a fan -/

theorem getD_map_range {k j : Nat} (f : Nat → Nat) (h : j < k) : ((List.range k).map f).getD j 0 = f j := by
  simp [List.getD, h]

/-- a nondegenerate triangle containing `v` is a rotation of `(v, x, y)` -/
theorem exists_rot {t : Tri} {v : Nat} (h : hasNode t v = true) : ∃ x y, IsRot t v x y := by
  obtain ⟨p, q, s⟩ := t
  rw [hasNode_iff] at h
  rcases h with h | h | h
  · exact ⟨q, s, by rw [isRot_mk]; exact Or.inl ⟨h.symm, rfl, rfl⟩⟩
  · exact ⟨s, p, by rw [isRot_mk]; exact Or.inr (Or.inl ⟨h.symm, rfl, rfl⟩)⟩
  · exact ⟨p, q, by rw [isRot_mk]; exact Or.inr (Or.inr ⟨h.symm, rfl, rfl⟩)⟩

/-- **under the surface invariant a node with a connected link is vertex-manifold**: iterating the successor of the link
    from any neighbour runs through a cycle that contains every neighbour; the faces along it are the fan -/
theorem fan_of_vmc {c : Cell R} (hI : Inv (abs c)) {v : Nat} (hv : VMC (abs c) v) {x0 x0' : Nat}
    (h0 : Lk (abs c) v x0 x0') : VertexManifold c v := by
  classical
  -- the successor function of the link
  have hsucc : ∀ x, ∃ y, (∃ x', Lk (abs c) v x x') → Lk (abs c) v x y := by
    intro x
    by_cases h : ∃ x', Lk (abs c) v x x'
    · obtain ⟨y, hy⟩ := h; exact ⟨y, fun _ => hy⟩
    · exact ⟨0, fun h' => absurd h' h⟩
  choose succ hs using hsucc
  obtain ⟨N, hNdef⟩ : ∃ N : Nat → Nat, ∀ j, N j = succ^[j] x0 := ⟨_, fun _ => rfl⟩
  have hN0 : N 0 = x0 := by rw [hNdef]; rfl
  have hNs : ∀ j, N (j + 1) = succ (N j) := by
    intro j; rw [hNdef, hNdef, Function.iterate_succ_apply']
  have hN : ∀ j, Lk (abs c) v (N j) (N (j + 1)) := by
    intro j
    induction j with
    | zero => rw [hNs, hN0]; exact hs x0 ⟨x0', h0⟩
    | succ j ih => rw [hNs (j + 1)]; exact hs _ (lk_out_total hI ih)
  -- the orbit returns to its start
  have cancel : ∀ i j, N (i + 1) = N (j + 1) → N i = N j := by
    intro i j he
    have h1 := hN i
    have h2 := hN j
    rw [he] at h1
    exact lk_in_unique hI h1 h2
  have back : ∀ i d, N i = N (i + d) → N 0 = N d := by
    intro i
    induction i with
    | zero => intro d h; simpa using h
    | succ i ih =>
      intro d h
      have e : i + 1 + d = (i + d) + 1 := by omega
      rw [e] at h
      exact ih d (cancel _ _ h)
  have hret : ∃ p, 0 < p ∧ N p = N 0 := by
    have hmaps : ∀ j ∈ Finset.range ((vertsF (abs c)).card + 1), N j ∈ vertsF (abs c) := by
      intro j _
      obtain ⟨t, ht, hr⟩ := hN j
      exact ce_mem_vertsF.2 ⟨t, ht, (isRot_hasNode hr).2.1⟩
    obtain ⟨i, _, j, _, hij, he⟩ := Finset.exists_ne_map_eq_of_card_lt_of_maps_to (by simp) hmaps
    rcases Nat.lt_or_gt_of_ne hij with hlt | hlt
    · refine ⟨j - i, by omega, ?_⟩
      have e : j = i + (j - i) := by omega
      rw [e] at he
      exact (back i _ he).symm
    · refine ⟨i - j, by omega, ?_⟩
      have e : i = j + (i - j) := by omega
      rw [e] at he
      exact (back j _ he.symm).symm
  let k := Nat.find hret
  have hk0 : 0 < k := (Nat.find_spec hret).1
  have hkN : N k = N 0 := (Nat.find_spec hret).2
  have hmin : ∀ p, 0 < p → p < k → N p ≠ N 0 := fun p hp hpk he => Nat.find_min hret hpk ⟨hp, he⟩
  have injN : ∀ i j, i < k → j < k → N i = N j → i = j := by
    intro i j hi hj he
    by_contra hne
    rcases Nat.lt_or_gt_of_ne hne with hlt | hlt
    · have e : j = i + (j - i) := by omega
      rw [e] at he
      exact hmin (j - i) (by omega) (by omega) (back i _ he).symm
    · have e : i = j + (i - j) := by omega
      rw [e] at he
      exact hmin (i - j) (by omega) (by omega) (back j _ he.symm).symm
  have period : ∀ j, N (j + k) = N j := by
    intro j
    induction j with
    | zero => simpa using hkN
    | succ j ih =>
      have e : j + 1 + k = (j + k) + 1 := by omega
      rw [e, hNs, ih, ← hNs]
  have modk : ∀ m, N m = N (m % k) := by
    intro m
    induction m using Nat.strong_induction_on with
    | _ m ih =>
      by_cases hm : m < k
      · rw [Nat.mod_eq_of_lt hm]
      · have e : m = (m - k) + k := by omega
        rw [Nat.mod_eq_sub_mod (by omega), ← ih (m - k) (by omega)]
        conv_lhs => rw [e]
        exact period _
  -- every neighbour lies on the orbit
  have cover : ∀ x x', Lk (abs c) v x x' → ∃ j, j < k ∧ x = N j ∧ x' = N (j + 1) := by
    intro x x' hx
    have orbit : ∀ z, ReflTransGen (Lk (abs c) v) x0 z → ∃ m, z = N m := by
      intro z hz
      induction hz with
      | refl => exact ⟨0, hN0.symm⟩
      | tail _ hbc ih =>
        obtain ⟨m, rfl⟩ := ih
        exact ⟨m + 1, lk_out_unique hI hbc (hN m)⟩
    obtain ⟨m, rfl⟩ := orbit x (hv x0 x x0' x' h0 hx)
    refine ⟨m % k, Nat.mod_lt _ hk0, modk m, ?_⟩
    have h1 := hN (m % k)
    rw [← modk m] at h1
    exact lk_out_unique hI hx h1
  -- the face slots along the orbit
  have hslot : ∀ j : Nat, ∃ (g : Nat) (t : Tri), (slots c)[g]? = some (some t) ∧ IsRot t v (N j) (N (j + 1)) := by
    intro j
    obtain ⟨t, ht, hr⟩ := hN j
    obtain ⟨g, hg⟩ := mem_abs_iff.1 ht
    exact ⟨g, t, hg, hr⟩
  choose G tG hG using hslot
  have injG : ∀ i j, i < k → j < k → G i = G j → i = j := by
    intro i j hi hj he
    have h1 := (hG i).1
    have h2 := (hG j).1
    rw [he, h2] at h1
    have e : tG j = tG i := Option.some.inj (Option.some.inj h1)
    have r1 := (hG i).2
    have r2 := (hG j).2
    rw [← e] at r1
    have hn := hI.nondeg _ (mem_abs_iff.2 ⟨_, h2⟩)
    have : N i = N j := by
      generalize tG j = t at *
      obtain ⟨p, q, s⟩ := t
      rw [isRot_mk] at r1 r2
      dsimp only at hn
      omega
    exact injN i j hi hj this
  refine ⟨(List.range k).map G, (List.range k).map N, ?_⟩
  have hlen : ((List.range k).map G).length = k := by simp
  refine ⟨by simp, by rw [hlen]; exact hk0, ?_, ?_, ?_, ?_⟩
  · intro j hj
    rw [hlen] at hj ⊢
    rw [getD_map_range G hj, getD_map_range N hj, getD_map_range N (Nat.mod_lt _ hk0), ← modk]
    refine ⟨tG j, (hG j).1, ?_⟩
    obtain ⟨n1, n2, n3⟩ := isRot_hasNode (hG j).2
    obtain ⟨d1, d2, d3⟩ := lk_ne hI.nondeg (hN j)
    exact ⟨d1, Ne.symm d3, d2, n1, n2, n3⟩
  · refine List.Nodup.map_on ?_ List.nodup_range
    intro x hx y hy he
    exact injG x y (List.mem_range.1 hx) (List.mem_range.1 hy) he
  · refine List.Nodup.map_on ?_ List.nodup_range
    intro x hx y hy he
    exact injN x y (List.mem_range.1 hx) (List.mem_range.1 hy) he
  · intro g t hg hvt
    obtain ⟨x, y, hr⟩ := exists_rot hvt
    obtain ⟨j, hj, rfl, rfl⟩ := cover x y ⟨t, mem_abs_iff.2 ⟨_, hg⟩, hr⟩
    have : g = G j := slots_dir_unique hI hg (hG j).1 (isRot_hasDir hr).1 (isRot_hasDir (hG j).2).1
    rw [this]
    exact List.mem_map.2 ⟨j, List.mem_range.2 hj, rfl⟩

/-- **vertex-manifoldness at the slot level is connectedness of the link** (for a node that lies on some live face,
    under the surface invariant) -/
theorem vertexManifold_iff_vmc {c : Cell R} (hI : Inv (abs c)) {v : Nat} {x0 x0' : Nat}
    (h0 : Lk (abs c) v x0 x0') : VertexManifold c v ↔ VMC (abs c) v := by
  constructor
  · rintro ⟨fs, ns, F⟩
    exact vmc_of_fan hI F.toF F.pos
  · intro hv
    exact fan_of_vmc hI hv h0

theorem vertexManifold_of_allVMC {c : Cell R} (hI : Inv (abs c)) (hv : AllVMC (abs c)) {v g : Nat} {t : Tri}
    (hg : (slots c)[g]? = some (some t)) (hvt : hasNode t v = true) : VertexManifold c v := by
  obtain ⟨x, y, hr⟩ := exists_rot hvt
  exact fan_of_vmc hI (hv v) ⟨t, mem_abs_iff.2 ⟨_, hg⟩, hr⟩

/-- **the collapse as `refine_mesh` performs it, with the invariant form of vertex-manifoldness**: every link of the live
    triangle list is connected (`AllVMC`, preserved over histories: `C01.reach_vertex_manifold`); the conclusion includes
    that this holds again afterwards -/
theorem mergeEdge_executed_vmc {fn : Fn R} {k : SplitConsts R} {c c' : Cell R} {e E : Edge} {chk chk' : CheckSet}
    (hg : canBeMerged c e = .ok true) (h : mergeEdge fn k c e chk = .ok (c', chk'))
    (hI : EdgeIdxComplete c) (hf : FaceFreeOk c) (hentry : getEdge c e.n1 e.n2 = some E)
    (hord : (E.f1 = e.f1 ∧ E.f2 = e.f2) ∨ (E.f1 = e.f2 ∧ E.f2 = e.f1))
    (hv : AllVMC (abs c)) (hfresh : Fresh (abs c) (newSlot c)) (hInv : Inv (abs c)) (hs : SortSpecAt c e) :
    abs c' = collapseT (abs c) e.n1 e.n2 (newSlot c) ∧ Inv (abs c') ∧ FaceFreeOk c' ∧ EdgeIdxComplete c' ∧
      AllVMC (abs c') := by
  have hentry' : EdgeSet.find? c.edges (Edge.keyOf e.n1 e.n2) = some E := hentry
  obtain ⟨_, _, hw, hP⟩ := IdxP.of_find hI hentry'
  cases hg0 : E.f1 with
  | none => exact absurd hg0 hw.1
  | some g0 =>
    obtain ⟨t0, ht0, hq0⟩ := (hP g0).1 ((Edge.hasFace_iff _ _).2 (Or.inl hg0))
    obtain ⟨ha0, hb0⟩ := hasNode_of_sideKey hq0
    have mA := vertexManifold_of_allVMC hInv hv ht0 ha0
    have mB := vertexManifold_of_allVMC hInv hv ht0 hb0
    obtain ⟨kA, kB, FA, NA, FB, NB, G⟩ := guardFans_of_manifold hI hentry hord mA mB
    obtain ⟨t1, t2, h1, h2⟩ := G.findDirs hInv
    have hl := (G.guard_iff hs h1 h2).1 hg
    obtain ⟨r1, r2, r3, r4⟩ := mergeEdge_of_manifold h hI hf hentry hord mA mB hfresh hInv h1 h2 hl
    refine ⟨r1, r2, r3, r4, ?_⟩
    rw [r1]
    exact collapse_vmc hInv hv h1 h2 hl.1 hfresh

end

end Simu.Remesh

#print axioms Simu.Remesh.vertexManifold_iff_vmc
#print axioms Simu.Remesh.mergeEdge_executed_vmc
