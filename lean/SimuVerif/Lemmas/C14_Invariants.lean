import SimuVerif.Lemmas.C14_RemeshStages
import SimuVerif.Lemmas.RemeshRebase
import SimuVerif.Model.TissueR
/-
  C14 — the mesh invariants `Remesh.CellOk` along whole runs of `PipelineR.cellIterationR`.

  * `saveMesh` (rebase), `faceTypes`, `refine` (a whole pass of `refine_mesh`), `forceStage` keep `CellOk`;
  * `CellOk c` implies `PipelineR.meshOk c` (no released slot referenced, every edge has its two faces, closed surface
    — the Boolean test by sorting —, the cell has a node) and `refineLive … = true`;
  so the mesh parts of the domain predicate `stepOkR` hold at every iteration of a run that starts from a valid cell.
-/
set_option linter.unusedSectionVars false
set_option linter.unusedVariables false
set_option linter.unusedSimpArgs false
namespace Simu.PipelineR
open Simu Simu.Forces Simu.Remesh

/-! ## 1. the closedness test by sorting is complete -/

def HeLe (p q : Nat × Nat) : Prop := heLe p q = true

theorem heLe_total (p q : Nat × Nat) : HeLe p q ∨ HeLe q p := by
  unfold HeLe heLe
  simp only [Bool.or_eq_true, decide_eq_true_eq, Bool.and_eq_true, beq_iff_eq]
  omega

theorem heLe_trans {p q r : Nat × Nat} (h1 : HeLe p q) (h2 : HeLe q r) : HeLe p r := by
  unfold HeLe heLe at *
  simp only [Bool.or_eq_true, decide_eq_true_eq, Bool.and_eq_true, beq_iff_eq] at *
  omega

theorem heLe_antisymm {p q : Nat × Nat} (h1 : HeLe p q) (h2 : HeLe q p) : p = q := by
  unfold HeLe heLe at *
  simp only [Bool.or_eq_true, decide_eq_true_eq, Bool.and_eq_true, beq_iff_eq] at *
  obtain ⟨a, b⟩ := p
  obtain ⟨c, d⟩ := q
  simp only [Prod.mk.injEq] at *
  omega

theorem mergeF_sorted : ∀ (f : Nat) (l r : List (Nat × Nat)), l.Pairwise HeLe → r.Pairwise HeLe →
    l.length + r.length ≤ f → (mergeF f l r).Pairwise HeLe
  | 0, l, r, _, _, h => by
    have hl : l = [] := List.eq_nil_of_length_eq_zero (by omega)
    have hr : r = [] := List.eq_nil_of_length_eq_zero (by omega)
    subst hl; subst hr
    unfold mergeF; exact List.Pairwise.nil
  | f + 1, [], r, _, hr, _ => by unfold mergeF; exact hr
  | f + 1, a :: l, [], hl, _, _ => by unfold mergeF; exact hl
  | f + 1, a :: l, b :: r, hl, hr, h => by
    unfold mergeF
    have hl' := List.pairwise_cons.1 hl
    have hr' := List.pairwise_cons.1 hr
    split
    · rename_i hab
      have ih := mergeF_sorted f l (b :: r) hl'.2 hr (by simp only [List.length_cons] at h ⊢; omega)
      refine List.pairwise_cons.2 ⟨fun x hx => ?_, ih⟩
      rcases List.mem_append.1 ((mergeF_perm f l (b :: r)).subset hx) with hh | hh
      · exact hl'.1 x hh
      · rcases List.mem_cons.1 hh with rfl | hh
        · exact hab
        · exact heLe_trans hab (hr'.1 x hh)
    · rename_i hab
      have hba : HeLe b a := by
        rcases heLe_total a b with hh | hh
        · exact absurd hh hab
        · exact hh
      have ih := mergeF_sorted f (a :: l) r hl hr'.2 (by simp only [List.length_cons] at h ⊢; omega)
      refine List.pairwise_cons.2 ⟨fun x hx => ?_, ih⟩
      rcases List.mem_append.1 ((mergeF_perm f (a :: l) r).subset hx) with hh | hh
      · rcases List.mem_cons.1 hh with rfl | hh
        · exact hba
        · exact heLe_trans hba (hl'.1 x hh)
      · exact hr'.1 x hh

theorem sortF_sorted : ∀ (f : Nat) (l : List (Nat × Nat)), l.length ≤ f + 1 → (sortF f l).Pairwise HeLe
  | 0, l, h => by
    unfold sortF
    match l, h with
    | [], _ => exact List.Pairwise.nil
    | [x], _ => exact List.pairwise_singleton _ _
  | f + 1, l, h => by
    unfold sortF
    split
    · rename_i h1
      match l, h1 with
      | [], _ => exact List.Pairwise.nil
      | [x], _ => exact List.pairwise_singleton _ _
    · rename_i h1
      have hlen : 2 ≤ l.length := by omega
      have ht : (l.take (l.length / 2)).length ≤ f + 1 := by rw [List.length_take]; omega
      have hd : (l.drop (l.length / 2)).length ≤ f + 1 := by rw [List.length_drop]; omega
      refine mergeF_sorted _ _ _ (sortF_sorted f _ ht) (sortF_sorted f _ hd) ?_
      rw [(sortF_perm f _).length_eq, (sortF_perm f _).length_eq, List.length_take, List.length_drop]
      omega

/-- two permutations of each other sort to the same list -/
theorem sortF_eq_of_perm {f : Nat} {l r : List (Nat × Nat)} (h : l.Perm r) (hl : l.length ≤ f + 1) :
    sortF f l = sortF f r := by
  refine List.Perm.eq_of_pairwise (le := HeLe) (fun a b _ _ h1 h2 => heLe_antisymm h1 h2) (sortF_sorted f l hl)
    (sortF_sorted f r (by rw [← h.length_eq]; exact hl)) ?_
  exact (sortF_perm f l).trans (h.trans (sortF_perm f r).symm)

theorem sides_length : ∀ F : List Forces.Face, (F.flatMap Face.sides).length = 3 * F.length
  | [] => rfl
  | x :: xs => by
    rw [List.flatMap_cons, List.length_append, sides_length xs]
    simp only [Face.sides, List.length_cons, List.length_nil]
    omega

theorem closedB_of_closed {F : List Forces.Face} (h : Forces.Closed F) : closedB F = true := by
  unfold closedB
  have h' : ((F.flatMap Face.sides).map Prod.swap).Perm (F.flatMap Face.sides) := h
  rw [sortF_eq_of_perm h' (by rw [List.length_map, sides_length]; omega)]
  simp

/-! ## 2. the stages keep the mesh invariants -/
section
variable {R : Type} [Add R] [Sub R] [Mul R] [Div R] [Neg R] [Lit R] [LT R] [LE R] [DecidableLT R] [DecidableLE R]
  [DecidableEq R]

/-- `CellOk` only looks at the triangles in the face slots, the edge index, the two free queues and the used flags -/
theorem cellOk_congr {c c' : Cell R} (hs : Remesh.slots c' = Remesh.slots c) (he : c'.edges = c.edges)
    (hfn : c'.freeNodes = c.freeNodes) (hff : c'.freeFaces = c.freeFaces) (hu : ∀ j, usedN c' j = usedN c j)
    (hsz : c'.nodes.size = c.nodes.size) (h : CellOk c) : CellOk c' := by
  obtain ⟨hf, hI, hN, hInv, hV, hcov, hus, hfull⟩ := h
  have ha : Remesh.abs c' = Remesh.abs c := abs_of_slots hs
  refine ⟨hf.congr hs hff, edgeIdxComplete_congr hs he hI, ⟨by rw [hfn]; exact hN.nodup, fun i => ?_,
    fun g t v hg hv => ?_⟩, by rw [ha]; exact hInv, by rw [ha]; exact hV, fun v hv => ?_, ?_, hfull.congr hs hff⟩
  · rw [hfn, hu, hsz]; exact hN.free i
  · rw [hu]; rw [hs] at hg; exact hN.live g t v hg hv
  · rw [ha]; exact hcov v (by rw [← hu]; exact hv)
  · obtain ⟨v, hv⟩ := hus
    exact ⟨v, by rw [hu]; exact hv⟩

theorem slotsA_map_same (fs : Array (Remesh.Face R)) (g : Remesh.Face R → Remesh.Face R)
    (hg : ∀ f, triOf (g f) = triOf f) : slotsA (fs.map g) = slotsA fs := by
  unfold slotsA
  rw [Array.toList_map, List.map_map]
  apply List.map_congr_left
  intro f _
  exact hg f

theorem faceTypes_cellOk (K : ConstsR R) {c : Cell R} (hc : CellOk c) : CellOk (faceTypes K c) := by
  unfold faceTypes
  split
  · refine cellOk_congr (c := c) ?_ rfl rfl rfl (fun j => rfl) rfl hc
    exact slotsA_map_same (R := R) c.faces _ (fun f => rfl)
  · exact hc

theorem usedN_mapIdx (ns : Array (Remesh.Node R)) (g : Nat → Remesh.Node R → Remesh.Node R)
    (hg : ∀ i n, (g i n).used = n.used) (j : Nat) : usedA (ns.mapIdx g) j = usedA ns j := by
  unfold usedA
  rw [Array.getElem?_mapIdx]
  cases ns[j]? with
  | none => rfl
  | some n => simp [hg]

theorem forceStage_cellOk (fx : FX R) (K : ConstsR R) {s : StateR R} (hc : CellOk s.cell) :
    CellOk (forceStage fx K s).cell := by
  refine cellOk_congr (c := s.cell) ?_ rfl rfl rfl (fun j => ?_) ?_ hc
  · show slotsA (refreshGeom fx s.cell).faces = _
    unfold refreshGeom
    exact slotsA_map_same (R := R) s.cell.faces _ (fun f => by
      by_cases hu : f.used = true
      · simp only [hu, if_true]; unfold triOf; simp [hu]
      · simp only [hu, if_false, Bool.false_eq_true])
  · unfold forceStage
    exact usedN_mapIdx (R := R) s.cell.nodes _ (fun i n => by
      by_cases hu : n.used = true
      · simp only [hu, if_true]
      · simp only [hu, if_false, Bool.false_eq_true]) j
  · unfold forceStage
    simp

theorem saveMesh_cellOk {fn : Fn R} {K : ConstsR R} {s s1 : StateR R} (h : saveMesh fn K s = .ok s1)
    (hc : CellOk s.cell) : CellOk s1.cell := by
  unfold saveMesh at h
  split at h
  · cases hr : rebase s.cell with
    | error x => rw [hr] at h; cases h
    | ok c1 =>
      rw [hr] at h
      cases h
      exact (rebase_preserves hr hc).1
  · cases h; exact hc

theorem refine_cellOk {fn : Fn R} {K : ConstsR R} {c c' : Cell R} (h : refine fn K c = .ok c') (hc : CellOk c) :
    CellOk c' := by
  unfold refine refineResult at h
  split at h
  · cases h
    exact (refineMesh_preserves fn (Gen.refineConsts fn) (lminSq K) (lmaxSq K) K.swapOn c K.maxIter hc).ok
  · cases h
  · cases h

theorem meshStage_cellOk {fn : Fn R} {K : ConstsR R} {s s1 : StateR R} (h : meshStage fn K s = .ok s1)
    (hc : CellOk s.cell) : CellOk s1.cell := by
  unfold meshStage at h
  cases hs : saveMesh fn K s with
  | error x => rw [hs] at h; cases h
  | ok s0 =>
    rw [hs] at h
    have h0 := saveMesh_cellOk hs hc
    change Except.map _ (refine fn K (faceTypes K s0.cell)) = _ at h
    cases hr : refine fn K (faceTypes K s0.cell) with
    | error x => rw [hr] at h; cases h
    | ok c1 =>
      rw [hr] at h
      cases h
      exact refine_cellOk hr (faceTypes_cellOk K h0)

/-- **one iteration keeps the mesh invariants** -/
theorem cellIterationR_cellOk {fn : Fn R} {fx : FX R} {K : ConstsR R} {s s' : StateR R}
    (h : cellIterationR fn fx K s = .ok s') (hc : CellOk s.cell) : CellOk s'.cell := by
  unfold cellIterationR at h
  cases hm : meshStage fn K s with
  | error x => rw [hm] at h; cases h
  | ok s1 =>
    rw [hm] at h
    cases h
    exact forceStage_cellOk fx K (meshStage_cellOk hm hc)

/-- **… and so does every run** -/
theorem runR_cellOk {fn : Fn R} {fx : FX R} {K : ConstsR R} :
    ∀ (n : Nat) {s s' : StateR R}, runR fn fx K n s = .ok s' → CellOk s.cell → CellOk s'.cell
  | 0, s, s', h, hc => by unfold runR at h; cases h; exact hc
  | n + 1, s, s', h, hc => by
    unfold runR at h
    cases hi : cellIterationR fn fx K s with
    | error x => rw [hi] at h; cases h
    | ok s1 =>
      rw [hi] at h
      exact runR_cellOk n h (cellIterationR_cellOk hi hc)

/-! ## 3. the mesh parts of the domain predicate follow from the invariants -/

theorem edgesOk_of {c : Cell R} (hc : CellOk c) : edgesOk c = true := by
  unfold edgesOk
  rw [List.all_eq_true]
  intro x hx
  have hcp := copyOk_of_find hc.idx (EdgeSet.find?_of_mem hc.idx.sorted hx)
  obtain ⟨E, _, _, _, _, ⟨g1, g2, t1, t2, h1, h2, _, s1, s2, _⟩, _⟩ := hcp.entry hc.idx hc.inv
  have l1 : g1 < c.faces.size := by
    have := (List.getElem?_eq_some_iff.1 s1).1
    unfold Remesh.slots slotsA at this
    simpa using this
  have l2 : g2 < c.faces.size := by
    have := (List.getElem?_eq_some_iff.1 s2).1
    unfold Remesh.slots slotsA at this
    simpa using this
  unfold Edge.isManifold
  rw [h1, h2]
  simp [l1, l2]

theorem hasNode_of {c : Cell R} (hc : CellOk c) : hasNode c = true := by
  obtain ⟨v, hv⟩ := hc.hasUsed
  unfold hasNode
  rw [List.any_eq_true]
  unfold usedN at hv
  cases hn : c.nodes[v]? with
  | none => rw [hn] at hv; cases hv
  | some n =>
    rw [hn] at hv
    refine ⟨n, ?_, hv⟩
    rw [← Array.getElem?_toList] at hn
    exact List.mem_of_getElem? hn

theorem abs_eq_liveF (c : Cell R) : Remesh.abs c = (liveF c).map (fun f => (f.a, f.b, f.c)) := by
  unfold Remesh.abs liveF liveFaces PipelineR.slots
  rw [List.filterMap_map, List.map_filterMap]
  apply List.filterMap_congr
  intro f _
  simp only [Function.comp, faceOf]
  by_cases hu : f.used = true
  · simp [hu]
  · simp [hu]

theorem closed_of_cellOk {c : Cell R} (hc : CellOk c) : Forces.Closed (liveF c) := by
  have h := hc.inv.closed
  unfold Surface.Closed at h
  rw [Surface.heM_eq_coe, Multiset.map_coe, Multiset.coe_eq_coe] at h
  have he : Surface.he (Remesh.abs c) = (liveF c).flatMap Face.sides := by
    rw [abs_eq_liveF]
    unfold Surface.he
    rw [List.flatMap_map]
    rfl
  rw [he] at h
  exact h

/-- **the mesh the force and integration stages work on is consistent** -/
theorem meshOk_of_cellOk {c : Cell R} (hc : CellOk c) : meshOk c = true := by
  unfold meshOk
  rw [liveCell_of hc, edgesOk_of hc, closedB_of_closed (closed_of_cellOk hc), hasNode_of hc]
  rfl

/-- **the pass of the next iteration never reads a released slot** -/
theorem refineLiveR_of_cellOk (fn : Fn R) (K : ConstsR R) {s : StateR R} (hc : CellOk s.cell) :
    refineLiveR fn K s = true := by
  unfold refineLiveR
  split
  · rfl
  · rename_i s1 hs
    exact refineLive_of_invariants _ _ _ _ _ _ _ (faceTypes_cellOk K (saveMesh_cellOk hs hc))

/-! ## 4. the mesh parts of `TissueR.cellMeshOk` -/

theorem edgeFacesUsed_of {c : Cell R} (hc : CellOk c) : TissueR.edgeFacesUsed c = true := by
  unfold TissueR.edgeFacesUsed
  rw [List.all_eq_true]
  intro x hx
  have hcp := copyOk_of_find hc.idx (EdgeSet.find?_of_mem hc.idx.sorted hx)
  obtain ⟨E, _, _, _, _, ⟨g1, g2, t1, t2, h1, h2, _, s1, s2, _⟩, _⟩ := hcp.entry hc.idx hc.inv
  obtain ⟨f1, hf1, hu1, _⟩ := slot_some_iff.1 s1
  obtain ⟨f2, hf2, hu2, _⟩ := slot_some_iff.1 s2
  rw [h1, h2]
  simp only [Option.getD_some, hf1, hf2, hu1, hu2, Bool.and_self]

theorem usedCovered_of {c : Cell R} (hc : CellOk c) : TissueR.usedCovered c = true := by
  unfold TissueR.usedCovered
  rw [List.all_eq_true]
  intro i _
  cases hu : usedN c i with
  | false => rfl
  | true =>
    simp only [Bool.not_true, Bool.false_or]
    have hv := hc.covered i hu
    obtain ⟨t, ht, hn⟩ := Surface.ce_mem_vertsF.1 hv
    rw [abs_eq_liveF] at ht
    obtain ⟨f, hf, rfl⟩ := List.mem_map.1 ht
    rw [List.any_eq_true]
    refine ⟨f, hf, ?_⟩
    rw [Remesh.hasNode_iff] at hn
    simp only [Bool.or_eq_true, beq_iff_eq]
    tauto

theorem queueOk_of {c : Cell R} (hc : CellOk c) : TissueR.queueOk c = true := by
  have hN := hc.nodes
  unfold TissueR.queueOk
  rw [Bool.and_eq_true]
  constructor
  · rw [beq_iff_eq]
    -- the unused slots, by index and by record
    have h1 : ((c.nodes.toList.zipIdx.filter (fun p => c.freeNodes.contains p.2)).map (·.1)) =
        c.nodes.toList.filter (fun n => !n.used) := by
      refine filter_zipIdx_fst (fun i => c.freeNodes.contains i) (fun n : Remesh.Node R => !n.used) _ 0 (fun i hi => ?_)
      rw [Nat.zero_add, ← usedN_toList hi]
      have hlt : i < c.nodes.size := by simpa using hi
      cases hu : usedN c i with
      | true =>
        simp only [Bool.not_true, List.contains_eq_mem, decide_eq_false_iff_not]
        intro hm
        have := ((hN.free i).1 hm).2
        rw [hu] at this; cases this
      | false =>
        simp only [Bool.not_false, List.contains_eq_mem, decide_eq_true_eq]
        exact (hN.free i).2 ⟨hlt, hu⟩
    have h2 := filter_zipIdx_snd (fun i => c.freeNodes.contains i) c.nodes.toList 0
    have hlen : (c.nodes.toList.filter (fun n => !n.used)).length =
        ((List.range' 0 c.nodes.toList.length).filter (fun i => c.freeNodes.contains i)).length := by
      rw [← h1, ← h2]; simp
    rw [hlen]
    refine (List.Perm.length_eq ?_)
    refine (List.perm_ext_iff_of_nodup hN.nodup (range'_filter_nodup _ _ _)).2 (fun i => ?_)
    rw [mem_range'_filter]
    constructor
    · intro hm
      exact ⟨Nat.zero_le _, by have := ((hN.free i).1 hm).1; simpa using this, by simpa using hm⟩
    · rintro ⟨_, _, hm⟩
      simpa using hm
  · rw [List.all_eq_true]
    intro i hi
    rw [((hN.free i).1 hi).2]; rfl

/-! ## 5. the replay of the log takes the slots the pass took (`TissueR.replayOk`) -/

theorem replayOp_snd (st : TissueR.Attrs R × List Nat × Nat) (op : Bool × Nat × Nat × R) :
    (TissueR.replayOp st op).2 = nodeOp st.2 op.1 op.2.1 op.2.2.1 := by
  obtain ⟨A, free, n⟩ := st
  unfold TissueR.replayOp nodeOp sizeAfterAdd
  cases free with
  | nil => cases op.1 <;> rfl
  | cons i rest => cases op.1 <;> rfl

theorem replayFold_snd (l : List (Bool × Nat × Nat × R)) (st : TissueR.Attrs R × List Nat × Nat) :
    (l.foldl TissueR.replayOp st).2 = l.foldl (fun s p => nodeOp s p.1 p.2.1 p.2.2.1) st.2 := by
  induction l generalizing st with
  | nil => rfl
  | cons p l ih => rw [List.foldl_cons, List.foldl_cons, ih, replayOp_snd]

/-- **the attribute replay of the tissue model follows the pass**: for a valid mesh, the free node queue and the number of
    node slots computed by replaying the log are those the pass left -/
theorem replayOk_of_cellOk (fn : Fn R) (K : TissueR.ConstsTR R) (c : TissueR.CellTR R) (hc : CellOk c.mesh) :
    TissueR.replayOk fn K c = true := by
  unfold TissueR.replayOk
  simp only []
  have hc0 := faceTypes_cellOk (TissueR.kR K c.k) hc
  obtain ⟨_, ops, lg, hl, _, _, _, htr⟩ := refineMesh_preserves fn (Gen.refineConsts fn) (lminSq (TissueR.kR K c.k))
    (lmaxSq (TissueR.kR K c.k)) K.swapOn (faceTypes (TissueR.kR K c.k) c.mesh) K.maxIter hc0
  rw [List.append_nil] at hl
  split
  · unfold TissueR.replayLog
    rw [replayFold_snd, hl, ← htr]
    simp
  · rfl

end

end Simu.PipelineR
