import SimuVerif.Lemmas.C12_Vec
/-
  C12 — closed half-edge lists: an antisymmetric edge function sums to zero over a closed
  surface (DESIGN Appendix A.2, own copy), and `Closed` survives permuting / reversing faces.
-/
set_option linter.unusedSectionVars false
namespace Simu.Geo
open Simu
variable {R : Type} [Field R] [LinearOrder R] [IsStrictOrderedRing R]

theorem sum_swap_neg (hs : List HE) (g : Nat → Nat → R) (hg : ∀ i j, g j i = - g i j) :
    ((hs.map Prod.swap).map (fun e => g e.1 e.2)).sum = - (hs.map (fun e => g e.1 e.2)).sum := by
  induction hs with
  | nil => simp
  | cons e es ih =>
    simp only [List.map_cons, List.sum_cons, Prod.fst_swap, Prod.snd_swap, ih, hg e.1 e.2]
    ring

/-- an antisymmetric function of directed edges sums to zero over a swap-closed half-edge list -/
theorem antisym_sum_zero (hs : List HE) (g : Nat → Nat → R) (hg : ∀ i j, g j i = - g i j)
    (hclosed : (hs.map Prod.swap).Perm hs) : (hs.map (fun e => g e.1 e.2)).sum = 0 := by
  have h1 := (hclosed.map (fun e => g e.1 e.2)).sum_eq
  rw [sum_swap_neg hs g hg] at h1
  linarith

theorem he_sum (g : Nat → Nat → R) (T : List Tri) :
    ((he T).map (fun e => g e.1 e.2)).sum
      = (T.map (fun t => g t.1 t.2.1 + g t.2.1 t.2.2 + g t.2.2 t.1)).sum := by
  induction T with
  | nil => simp [he]
  | cons t T ih =>
    simp only [he, heTri, List.map_append, List.sum_append, List.map_cons, List.sum_cons, List.map_nil,
      List.sum_nil, ih]
    ring

/-- over a closed triangle list the per-face sums of an antisymmetric edge term cancel -/
theorem closed_sum_zero (T : List Tri) (hc : Closed T) (g : Nat → Nat → R) (hg : ∀ i j, g j i = - g i j) :
    (T.map (fun t => g t.1 t.2.1 + g t.2.1 t.2.2 + g t.2.2 t.1)).sum = 0 := by
  rw [← he_sum]; exact antisym_sum_zero _ g hg hc

theorem he_append (T U : List Tri) : he (T ++ U) = he T ++ he U := by
  induction T with
  | nil => simp [he]
  | cons t T ih => simp [he, ih]

theorem he_perm {T T' : List Tri} (h : T.Perm T') : (he T).Perm (he T') := by
  induction h with
  | nil => exact List.Perm.refl _
  | cons t _ ih => exact List.Perm.append_left _ ih
  | swap a b l =>
    simp only [he, ← List.append_assoc]
    exact List.Perm.append_right _ List.perm_append_comm
  | trans _ _ ih1 ih2 => exact ih1.trans ih2

theorem closed_perm {T T' : List Tri} (h : T.Perm T') (hc : Closed T) : Closed T' := by
  unfold Closed at *
  exact (((he_perm h).map Prod.swap).symm.trans hc).trans (he_perm h)

theorem heTri_swap23 (t : Tri) : (heTri (swap23 t)).Perm ((heTri t).map Prod.swap) := by
  obtain ⟨a, b, c⟩ := t
  simp only [heTri, swap23, List.map_cons, List.map_nil, Prod.swap_prod_mk]
  -- [(a,c),(c,b),(b,a)] ~ [(b,a),(c,b),(a,c)]
  exact (List.Perm.swap _ _ _).trans ((List.Perm.cons _ (List.Perm.swap _ _ _)).trans (List.Perm.swap _ _ _))

theorem heTri_swap13 (t : Tri) : (heTri (swap13 t)).Perm ((heTri t).map Prod.swap) := by
  obtain ⟨a, b, c⟩ := t
  simp only [heTri, swap13, List.map_cons, List.map_nil, Prod.swap_prod_mk]
  -- [(c,b),(b,a),(a,c)] ~ [(b,a),(c,b),(a,c)]
  exact List.Perm.swap _ _ _

theorem he_map_rev (r : Tri → Tri) (hr : ∀ t, (heTri (r t)).Perm ((heTri t).map Prod.swap)) (T : List Tri) :
    (he (T.map r)).Perm ((he T).map Prod.swap) := by
  induction T with
  | nil => simp [he]
  | cons t T ih =>
    simp only [List.map_cons, he, List.map_append]
    exact List.Perm.append (hr t) ih

theorem swap_swap_map (l : List HE) : (l.map Prod.swap).map Prod.swap = l := by
  induction l with
  | nil => rfl
  | cons e es ih => simp [ih]

/-- reversing every face of a closed surface gives a closed surface -/
theorem closed_map_rev (r : Tri → Tri) (hr : ∀ t, (heTri (r t)).Perm ((heTri t).map Prod.swap)) (T : List Tri)
    (hc : Closed T) : Closed (T.map r) := by
  unfold Closed at *
  have h1 := he_map_rev r hr T
  have h2 : ((he (T.map r)).map Prod.swap).Perm (he T) := by
    have := h1.map Prod.swap
    rwa [swap_swap_map] at this
  exact h2.trans (hc.symm.trans h1.symm)

theorem closed_swap23 (T : List Tri) (hc : Closed T) : Closed (T.map swap23) := closed_map_rev _ heTri_swap23 T hc
theorem closed_swap13 (T : List Tri) (hc : Closed T) : Closed (T.map swap13) := closed_map_rev _ heTri_swap13 T hc

end Simu.Geo
