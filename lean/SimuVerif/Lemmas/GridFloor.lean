import SimuVerif.Model.Grid
import SimuVerif.Lemmas.Field
import Mathlib.Algebra.Order.Floor.Ring
import Mathlib.Tactic.Linarith
import Mathlib.Tactic.Ring
import Mathlib.Tactic.Positivity
import Mathlib.Algebra.Order.Field.Basic
/-
  C20 — the one-axis arithmetic of the grids over an ordered field with a floor:
  `ax` is one component of `get_3d_voxel_index` (floor, cast to unsigned, clamp to `nb − 1`),
  `nbAxis` one component of the voxel count of `update_dimensions`.
-/
set_option linter.unusedSectionVars false
namespace Simu.Grid
open Simu

section defs
variable {R : Type} [Sub R] [Div R] [Add R] [Neg R]

/-- one component of `uspg_abstract::get_3d_voxel_index` -/
def ax (fn : Fn R) (m v : R) (nb : Nat) (p : R) : Nat := min (Int.toNat (fn.floor ((p - m) / v))) (nb - 1)

/-- one component of the voxel count computed by `update_dimensions` -/
def nbAxis (fn : Fn R) (δ v mn mx : R) : Nat := Int.toNat (fceil fn ((mx + δ - mn) / v))

/-- the clamped index is in range whatever `floor` returns (also under floating-point rounding) -/
theorem ax_lt (fn : Fn R) (m v p : R) {nb : Nat} (h : 1 ≤ nb) : ax fn m v nb p < nb := by
  unfold ax; omega

/-- first / one-past-last voxel visited along one axis by `get_neighborhood` -/
def nbStart (i : Nat) : Nat := if i = 0 then 0 else i - 1
def nbEnd (nb i : Nat) : Nat := if i = nb - 1 then nb else i + 2

theorem nb_window {nb i j : Nat} (_hi : i < nb) (hj : j < nb) (h1 : i ≤ j + 1) (h2 : j ≤ i + 1) :
    nbStart i ≤ j ∧ j < nbEnd nb i := by
  unfold nbStart nbEnd; split_ifs <;> omega

theorem nbEnd_le {nb i : Nat} (hi : i < nb) : nbEnd nb i ≤ nb := by
  unfold nbEnd; split_ifs <;> omega
end defs

variable {R : Type} [Field R] [LinearOrder R] [IsStrictOrderedRing R] [FloorRing R]

/-- points within one voxel size of each other fall in the same or in adjacent slabs -/
theorem floor_adjacent (x y v : R) (hv : 0 < v) (h : |x - y| ≤ v) : |⌊x / v⌋ - ⌊y / v⌋| ≤ 1 := by
  have h1 : x / v - y / v ≤ 1 := by
    rw [← sub_div, div_le_one hv]; exact (abs_le.mp h).2
  have h2 : -1 ≤ x / v - y / v := by
    rw [← sub_div, le_div_iff₀ hv]; linarith [(abs_le.mp h).1]
  rw [abs_le]
  constructor
  · have : ⌊y / v⌋ ≤ ⌊x / v + 1⌋ := Int.floor_le_floor (by linarith)
    rw [Int.floor_add_one] at this; linarith
  · have : ⌊x / v⌋ ≤ ⌊y / v + 1⌋ := Int.floor_le_floor (by linarith)
    rw [Int.floor_add_one] at this; linarith

variable (fn : Fn R) (hfl : ∀ x, fn.floor x = ⌊x⌋)
include hfl

theorem fceil_eq (x : R) : fceil fn x = ⌈x⌉ := by
  simp [fceil, hfl, Int.floor_neg]

/-- the clamped, cast index of two points at most one voxel size apart differs by at most one -/
theorem ax_adjacent (m v : R) (nb : Nat) (hv : 0 < v) (x y : R) (h : |x - y| ≤ v) :
    ax fn m v nb x ≤ ax fn m v nb y + 1 ∧ ax fn m v nb y ≤ ax fn m v nb x + 1 := by
  have h' : |(x - m) - (y - m)| ≤ v := by rwa [sub_sub_sub_cancel_right]
  have := abs_le.mp (floor_adjacent (x - m) (y - m) v hv h')
  unfold ax; rw [hfl, hfl]; omega

/-- the value handed to `static_cast<unsigned>` is not negative for a point at or above the origin -/
theorem floor_nonneg_of_ge {m v p : R} (hv : 0 < v) (h : m ≤ p) : 0 ≤ fn.floor ((p - m) / v) := by
  rw [hfl]; exact Int.floor_nonneg.mpr (div_nonneg (sub_nonneg.mpr h) hv.le)

/-- the voxel of a point starts at or below the point -/
theorem ax_lower {m v p : R} (nb : Nat) (hv : 0 < v) (h : m ≤ p) : m + (ax fn m v nb p : R) * v ≤ p := by
  have h0 : 0 ≤ ⌊(p - m) / v⌋ := Int.floor_nonneg.mpr (div_nonneg (sub_nonneg.mpr h) hv.le)
  have h1 : ((ax fn m v nb p : Nat) : R) ≤ (p - m) / v := by
    have : (ax fn m v nb p : Int) ≤ ⌊(p - m) / v⌋ := by unfold ax; rw [hfl]; omega
    calc ((ax fn m v nb p : Nat) : R) = (((ax fn m v nb p : Nat) : Int) : R) := by norm_cast
      _ ≤ ((⌊(p - m) / v⌋ : Int) : R) := by exact_mod_cast this
      _ ≤ (p - m) / v := Int.floor_le _
  have := (le_div_iff₀ hv).mp h1
  linarith

/-- … and, unless the clamp acted, ends strictly above it -/
theorem ax_upper {m v p : R} {nb : Nat} (hv : 0 < v) (h : m ≤ p) (hlt : fn.floor ((p - m) / v) < nb) :
    p < m + ((ax fn m v nb p : R) + 1) * v ∧ (ax fn m v nb p : Int) = fn.floor ((p - m) / v) := by
  rw [hfl] at hlt
  have h0 : 0 ≤ ⌊(p - m) / v⌋ := Int.floor_nonneg.mpr (div_nonneg (sub_nonneg.mpr h) hv.le)
  have he : (ax fn m v nb p : Int) = ⌊(p - m) / v⌋ := by unfold ax; rw [hfl]; omega
  refine ⟨?_, by rw [hfl]; exact he⟩
  have h1 : (p - m) / v < ((ax fn m v nb p : Nat) : R) + 1 := by
    have : ((ax fn m v nb p : Nat) : R) = ((⌊(p - m) / v⌋ : Int) : R) := by
      rw [← he]; norm_cast
    rw [this]; exact Int.lt_floor_add_one _
  have := (div_lt_iff₀ hv).mp h1
  linarith

section counts
variable {δ v mn mx : R}

/-- `update_dimensions` creates at least one voxel per axis -/
theorem nbAxis_pos (hδ : 0 ≤ δ) (hv : 0 < v) (hm : mn < mx) : 1 ≤ nbAxis fn δ v mn mx := by
  unfold nbAxis; rw [fceil_eq fn hfl]
  have : 0 < ⌈(mx + δ - mn) / v⌉ := Int.ceil_pos.mpr (div_pos (by linarith) hv)
  omega

theorem nbAxis_cast (hδ : 0 ≤ δ) (hv : 0 < v) (hm : mn < mx) :
    ((nbAxis fn δ v mn mx : Nat) : Int) = ⌈(mx + δ - mn) / v⌉ := by
  unfold nbAxis; rw [fceil_eq fn hfl]
  have : 0 < ⌈(mx + δ - mn) / v⌉ := Int.ceil_pos.mpr (div_pos (by linarith) hv)
  omega

/-- the grid reaches at least to the declared maximum: `max + δ ≤ min + nb·v` -/
theorem box_covered (hδ : 0 ≤ δ) (hv : 0 < v) (hm : mn < mx) :
    mx + δ ≤ mn + (nbAxis fn δ v mn mx : R) * v := by
  have h1 : (mx + δ - mn) / v ≤ ((nbAxis fn δ v mn mx : Nat) : R) := by
    have : ((nbAxis fn δ v mn mx : Nat) : R) = ((⌈(mx + δ - mn) / v⌉ : Int) : R) := by
      rw [← nbAxis_cast fn hfl hδ hv hm]; norm_cast
    rw [this]; exact Int.le_ceil _
  have := (div_le_iff₀ hv).mp h1
  linarith

/-- for a point of the closed interval the floor is at most `nb` (so the clamp lowers it by at most one) -/
theorem floor_le_nb (hδ : 0 ≤ δ) (hv : 0 < v) (hm : mn < mx) {p : R} (hp : p ≤ mx) :
    fn.floor ((p - (mn - δ)) / v) ≤ nbAxis fn δ v mn mx := by
  rw [hfl, nbAxis_cast fn hfl hδ hv hm]
  refine le_trans (Int.floor_le_floor (?_ : (p - (mn - δ)) / v ≤ (mx + δ - mn) / v)) (Int.floor_le_ceil _)
  exact div_le_div_of_nonneg_right (by linarith) hv.le

/-- strictly below the declared maximum the clamp never acts -/
theorem floor_lt_nb (hδ : 0 ≤ δ) (hv : 0 < v) (hm : mn < mx) {p : R} (hp : p < mx) :
    fn.floor ((p - (mn - δ)) / v) < nbAxis fn δ v mn mx := by
  rw [hfl, nbAxis_cast fn hfl hδ hv hm, Int.floor_lt]
  have h1 : (p - (mn - δ)) / v < (mx + δ - mn) / v := div_lt_div_of_pos_right (by linarith) hv
  exact lt_of_lt_of_le h1 (Int.le_ceil _)
end counts

end Simu.Grid
