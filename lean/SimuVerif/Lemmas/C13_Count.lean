import SimuVerif.Lemmas.SurfaceSplitSwap
import Mathlib.Algebra.BigOperators.Group.Finset.Basic
import Mathlib.Algebra.BigOperators.Group.Finset.Piecewise
import Mathlib.Algebra.Order.BigOperators.Group.Finset
import Mathlib.Tactic.Linarith
/-
  C13 — counting lemmas about the half-edges of a triangle list: undirected edges (`normHE`), edges used by exactly
  two face slots (`EdgeTwo`), in- and out-degree of a vertex, faces containing an edge.
-/
namespace Simu.C13
open Simu.Surface

/-- the three undirected edges of a triangle -/
def keys (t : Tri) : List HE := [normHE (t.1, t.2.1), normHE (t.2.1, t.2.2), normHE (t.2.2, t.1)]

/-- the three directed half-edges of a triangle (as a list) -/
def dirs (t : Tri) : List HE := [(t.1, t.2.1), (t.2.1, t.2.2), (t.2.2, t.1)]

def TriND (t : Tri) : Prop := t.1 ≠ t.2.1 ∧ t.2.1 ≠ t.2.2 ∧ t.2.2 ≠ t.1

/-- every undirected edge is used by exactly two face slots (or by none) -/
def EdgeTwo (T : List Tri) : Prop :=
  ∀ k, ((heM T).map normHE).count k = 0 ∨ ((heM T).map normHE).count k = 2

theorem normHE_eq_iff (e : HE) (a b : Nat) : normHE e = normHE (a, b) ↔ e = (a, b) ∨ e = (b, a) := by
  obtain ⟨x, y⟩ := e
  unfold normHE
  simp only
  split_ifs with h1 h2 h2 <;> simp only [Prod.mk.injEq] <;> omega

theorem normHE_comm (a b : Nat) : normHE (a, b) = normHE (b, a) := by
  rw [normHE_eq_iff]; right; rfl

theorem normHE_fst_le (e : HE) : (normHE e).1 ≤ (normHE e).2 := by
  unfold normHE; split_ifs with h
  · exact h
  · simp only; omega

theorem normHE_cases (e : HE) : normHE e = e ∨ normHE e = (e.2, e.1) := by
  unfold normHE; split_ifs <;> simp

theorem heTriM_eq_dirs (t : Tri) : heTriM t = (dirs t : Multiset HE) := by
  obtain ⟨a, b, c⟩ := t
  rfl

theorem mem_heTriM {t : Tri} {e : HE} : e ∈ heTriM t ↔ e ∈ dirs t := by
  rw [heTriM_eq_dirs]; rfl

theorem map_norm_heTriM (t : Tri) : (heTriM t).map normHE = (keys t : Multiset HE) := by
  rw [heTriM_eq_dirs]; rfl

theorem mem_keys_iff {t : Tri} {k : HE} : k ∈ keys t ↔ ∃ e ∈ dirs t, normHE e = k := by
  simp [keys, dirs, eq_comm]

theorem mem_dirs_verts {t : Tri} {e : HE} (h : e ∈ dirs t) :
    (e.1 = t.1 ∨ e.1 = t.2.1 ∨ e.1 = t.2.2) ∧ (e.2 = t.1 ∨ e.2 = t.2.1 ∨ e.2 = t.2.2) := by
  simp only [dirs, List.mem_cons, List.mem_nil_iff, or_false] at h
  rcases h with rfl | rfl | rfl <;> simp

theorem dirs_ne {t : Tri} (hn : TriND t) {e : HE} (h : e ∈ dirs t) : e.1 ≠ e.2 := by
  simp only [dirs, List.mem_cons, List.mem_nil_iff, or_false] at h
  obtain ⟨h1, h2, h3⟩ := hn
  rcases h with rfl | rfl | rfl <;> assumption

/-- count of an undirected edge = counts of the two directions -/
theorem count_norm (M : Multiset HE) {a b : Nat} (hab : a ≠ b) :
    (M.map normHE).count (normHE (a, b)) = M.count (a, b) + M.count (b, a) := by
  induction M using Multiset.induction_on with
  | empty => simp
  | cons e M ih =>
    rw [Multiset.map_cons, Multiset.count_cons, Multiset.count_cons, Multiset.count_cons, ih]
    have h := normHE_eq_iff e a b
    by_cases h1 : e = (a, b)
    · subst h1
      have : ¬ ((b, a) = (a, b)) := by simp [Prod.mk.injEq]; omega
      simp [this]
      omega
    · by_cases h2 : e = (b, a)
      · subst h2
        have : normHE (a, b) = normHE (b, a) := normHE_comm a b
        have hne : ¬ ((a, b) = (b, a)) := by simp [Prod.mk.injEq]; omega
        simp [this, hne]
        omega
      · have h3 : ¬ (normHE (a, b) = normHE e) := fun hh => by
          rcases h.mp hh.symm with h | h
          · exact h1 h
          · exact h2 h
        have h1' : ¬ ((a, b) = e) := fun hh => h1 hh.symm
        have h2' : ¬ ((b, a) = e) := fun hh => h2 hh.symm
        simp [h3, h1', h2']

theorem nondeg_no_loop {T : List Tri} (hn : NonDeg T) (a : Nat) : (heM T).count (a, a) = 0 := by
  rw [Multiset.count_eq_zero]
  intro h
  obtain ⟨t, ht, he⟩ := mem_heM.1 h
  exact dirs_ne (hn t ht) (mem_heTriM.mp he) rfl

/-- the two directions of an edge of an `EdgeTwo` surface occur 0+0, 1+1, 2+0 or 0+2 times -/
theorem edgeTwo_dir {T : List Tri} (h2 : EdgeTwo T) {a b : Nat} (hab : a ≠ b) :
    (heM T).count (a, b) + (heM T).count (b, a) = 0 ∨ (heM T).count (a, b) + (heM T).count (b, a) = 2 := by
  rw [← count_norm _ hab]; exact h2 _

theorem mem_edgesF {T : List Tri} {k : HE} : k ∈ edgesF T ↔ ∃ e ∈ heM T, normHE e = k := by
  simp [edgesF]

theorem mem_edgesF' {T : List Tri} {k : HE} : k ∈ edgesF T ↔ k ∈ (heM T).map normHE := by
  rw [mem_edgesF, Multiset.mem_map]

/-! ### in-degree = out-degree -/

theorem sum_count_fst (M : Multiset HE) (V : Finset Nat) (hV : ∀ e ∈ M, e.2 ∈ V) (v : Nat) :
    ∑ w ∈ V, M.count (v, w) = (M.filter (fun e => e.1 = v)).card := by
  induction M using Multiset.induction_on with
  | empty => simp
  | cons e M ih =>
    have ih' := ih (fun e' he' => hV e' (Multiset.mem_cons_of_mem he'))
    have he : e.2 ∈ V := hV e (Multiset.mem_cons_self _ _)
    simp only [Multiset.count_cons, Finset.sum_add_distrib, ih']
    obtain ⟨x, y⟩ := e
    by_cases hx : x = v
    · subst hx
      rw [Multiset.filter_cons_of_pos _ (by rfl), Multiset.card_cons]
      congr 1
      simp only [Prod.mk.injEq, true_and]
      rw [Finset.sum_ite_eq' V y]; simp [he]
    · rw [Multiset.filter_cons_of_neg _ (by simpa using hx)]
      have : ∀ w ∈ V, (if (v, w) = (x, y) then 1 else 0) = 0 := by
        intro w _; rw [if_neg]; simp [Prod.mk.injEq]; intro h; exact absurd h.symm hx
      rw [Finset.sum_congr rfl this]; simp

theorem sum_count_snd (M : Multiset HE) (V : Finset Nat) (hV : ∀ e ∈ M, e.1 ∈ V) (v : Nat) :
    ∑ w ∈ V, M.count (w, v) = (M.filter (fun e => e.2 = v)).card := by
  induction M using Multiset.induction_on with
  | empty => simp
  | cons e M ih =>
    have ih' := ih (fun e' he' => hV e' (Multiset.mem_cons_of_mem he'))
    have he : e.1 ∈ V := hV e (Multiset.mem_cons_self _ _)
    simp only [Multiset.count_cons, Finset.sum_add_distrib, ih']
    obtain ⟨x, y⟩ := e
    by_cases hy : y = v
    · subst hy
      rw [Multiset.filter_cons_of_pos _ (by rfl), Multiset.card_cons]
      congr 1
      simp only [Prod.mk.injEq, and_true]
      rw [Finset.sum_ite_eq' V x]; simp [he]
    · rw [Multiset.filter_cons_of_neg _ (by simpa using hy)]
      have : ∀ w ∈ V, (if (w, v) = (x, y) then 1 else 0) = 0 := by
        intro w _; rw [if_neg]; simp [Prod.mk.injEq]; intro _ h; exact absurd h.symm hy
      rw [Finset.sum_congr rfl this]; simp

/-- as many half-edges leave a vertex as enter it (each face through it contributes one of each) -/
theorem out_eq_in (T : List Tri) (v : Nat) :
    ((heM T).filter (fun e => e.1 = v)).card = ((heM T).filter (fun e => e.2 = v)).card := by
  induction T with
  | nil => simp [heM_nil]
  | cons t T ih =>
    rw [heM_cons, Multiset.filter_add, Multiset.filter_add, Multiset.card_add, Multiset.card_add, ih]
    congr 1
    obtain ⟨a, b, c⟩ := t
    simp only [heTriM, Multiset.insert_eq_cons, Multiset.filter_cons, Multiset.filter_singleton]
    by_cases ha : a = v <;> by_cases hb : b = v <;> by_cases hc : c = v <;> simp [ha, hb, hc]

end Simu.C13
