import SimuVerif.Model.TissueD2
import SimuVerif.Lemmas.RemeshTranslate
import SimuVerif.Lemmas.C09_Quat
import SimuVerif.Lemmas.C12_Vec
/-
  C14 — the "cut" stages of `cell_divider::divide_cell` (add_intersection_points, divide_faces, the polygon +
  coarse_triangulation, map to the xy plane / recorded interface / map back) commute with a translation `t` of all node
  positions.
-/
set_option linter.unusedSectionVars false
set_option linter.unusedVariables false
set_option linter.unusedSimpArgs false
namespace Simu.TissueD2
open Simu Simu.Remesh Simu.Division
variable {R : Type} [Field R] [LinearOrder R] [IsStrictOrderedRing R]

/-- all node positions shifted -/
def trMesh (t : V3 R) (m : Division.Mesh R) : Division.Mesh R := ⟨m.nodes.map (· + t), m.faces⟩

@[simp] theorem trMesh_faces (t : V3 R) (m : Division.Mesh R) : (trMesh t m).faces = m.faces := rfl
@[simp] theorem trMesh_nodes (t : V3 R) (m : Division.Mesh R) : (trMesh t m).nodes = m.nodes.map (· + t) := rfl
@[simp] theorem trMesh_nodes_size (t : V3 R) (m : Division.Mesh R) : (trMesh t m).nodes.size = m.nodes.size := by
  simp only [trMesh_nodes, Array.size_map]

theorem trMesh_mk (t : V3 R) (a : Array (V3 R)) (f : Array (List Nat)) :
    trMesh t ⟨a, f⟩ = ⟨a.map (· + t), f⟩ := rfl

/-! ### vector identities -/

theorem v_sub_tr (a b t : V3 R) : a + t - (b + t) = a - b := by apply V3.ext' <;> simp
theorem v_add_right_comm (a b t : V3 R) : a + t + b = a + b + t := by
  apply V3.ext' <;> simp only [V3.add_x, V3.add_y, V3.add_z] <;> ring

/-! ### the edge–plane intersection -/

theorem epi_tr (e1 e2 p n t : V3 R) :
    Gen.Division.edgePlaneIntersection (e1 + t) (e2 + t) (p + t) n
      = (Gen.Division.edgePlaneIntersection e1 e2 p n).map (· + t) := by
  unfold Gen.Division.edgePlaneIntersection
  simp only [v_sub_tr]
  split_ifs
  · rfl
  · rfl
  · simp only [Option.map_some, v_add_right_comm]

/-! ### positions of the translated cell -/

theorem node_used_of_all {m : Remesh.Cell R} (hu : m.nodes.all (fun nd => nd.used) = true) {i : Nat} {nd : Node R}
    (h : m.nodes[i]? = some nd) : nd.used = true := by
  rw [Array.all_eq_true] at hu
  obtain ⟨hi, rfl⟩ := Array.getElem?_eq_some_iff.1 h
  exact hu i hi

theorem posOfC_tr (t : V3 R) {m : Remesh.Cell R} (hu : m.nodes.all (fun nd => nd.used) = true) {i : Nat}
    (hi : i < m.nodes.size) : posOfC (translateCell t m) i = posOfC m i + t := by
  unfold posOfC
  rw [tr_getNode]
  have h : m.nodes[i]? = some m.nodes[i] := Array.getElem?_eq_getElem hi
  rw [h]
  simp only [Option.map_some, trNode_pos_of_used t (node_used_of_all hu h)]

theorem meshOfCell_tr (t : V3 R) {m : Remesh.Cell R} (hu : m.nodes.all (fun nd => nd.used) = true) :
    meshOfCell (translateCell t m) = trMesh t (meshOfCell m) := by
  unfold meshOfCell trMesh
  simp only [tr_faces, tr_nodes, Array.map_map]
  congr 1
  apply Array.ext_getElem?
  intro i
  simp only [Array.getElem?_map]
  cases h : m.nodes[i]? with
  | none => rfl
  | some nd => simp only [Option.map_some, Function.comp, trNode_pos_of_used t (node_used_of_all hu h)]

/-! ### add_point_to_face, the cut of one edge -/

theorem addPointToFace_tr (t : V3 R) (m : Division.Mesh R) (fid a b p : Nat) :
    addPointToFace (trMesh t m) fid a b p = (addPointToFace m fid a b p).map (trMesh t) := by
  unfold addPointToFace
  simp only [trMesh_faces]
  cases m.faces[fid]? with
  | none => rfl
  | some f =>
    simp only
    cases addPointToFaceL f a b p with
    | none => rfl
    | some f' => rfl

theorem push_tr (t : V3 R) (m : Division.Mesh R) (q : V3 R) :
    ({ trMesh t m with nodes := (trMesh t m).nodes.push (q + t) } : Division.Mesh R)
      = trMesh t { m with nodes := m.nodes.push q } := by
  simp only [trMesh, Array.map_push]

theorem cutEdge_tr (t : V3 R) (m : Division.Mesh R) (e : Edge) (q : V3 R) :
    cutEdge (trMesh t m) e (q + t) = (cutEdge m e q).map (trMesh t) := by
  unfold cutEdge
  simp only [push_tr, Array.size_push, trMesh_nodes_size]
  refine bind_map_same fun f1 _ => ?_
  refine bind_map_rel (addPointToFace_tr t _ _ _ _ _) fun m2 _ => ?_
  refine bind_map_same fun f2 _ => ?_
  exact addPointToFace_tr t _ _ _ _ _

/-! ### the walk over the cut edges -/

/-- the choice of the next cut edge and its intersection point -/
def pickOf (c : Remesh.Cell R) (a b cn : Nat) (iac ibc : Option (V3 R)) : Except DErr (Edge × V3 R) :=
  match iac with
  | some q => (match getEdge c a cn with | some e' => .ok (e', q) | none => .error .badopt)
  | none =>
    match ibc with
    | some q => (match getEdge c b cn with | some e' => .ok (e', q) | none => .error .badopt)
    | none => .error .division

/-- what follows the choice, `rec` = the recursive call -/
def walkTail (nbE : Nat) (iter : Nat) (m : Division.Mesh R) (fc : Nat)
    (rec : Division.Mesh R → Edge → Nat → Except DErr (Division.Mesh R)) (x : Edge × V3 R) : Except DErr (Division.Mesh R) :=
  match cutEdge m x.1 x.2 with
  | .error y => .error y
  | .ok m' =>
    match optFace x.1.f1 with
    | .error y => .error y
    | .ok g1 =>
      let next : Except DErr Nat := if g1 == fc then optFace x.1.f2 else .ok g1
      match next with
      | .error y => .error y
      | .ok nf =>
        if iter == nbE - 1 then .error .division
        else rec m' x.1 nf

theorem walk_succ (c : Remesh.Cell R) (p n : V3 R) (stop fuel iter : Nat) (m : Division.Mesh R) (e : Edge) (fc : Nat) :
    walk c p n stop (fuel + 1) iter m e fc =
      if fc == stop then .ok m else
      match c.faces[fc]? with
      | none => .error .ub
      | some f =>
        match oppositeNode f e.n1 e.n2 with
        | none => .error .ub
        | some cn =>
          match pickOf c e.n1 e.n2 cn (Gen.Division.edgePlaneIntersection (posOfC c e.n1) (posOfC c cn) p n)
              (Gen.Division.edgePlaneIntersection (posOfC c e.n2) (posOfC c cn) p n) with
          | .error y => .error y
          | .ok x => walkTail c.edges.length iter m fc (walk c p n stop fuel (iter + 1)) x := by
  rw [walk]
  by_cases hs : (fc == stop) = true
  · simp only [hs, if_true]
  · simp only [hs, if_false]
    cases c.faces[fc]? with
    | none => rfl
    | some f =>
      simp only
      cases oppositeNode f e.n1 e.n2 with
      | none => rfl
      | some cn =>
        simp only [pickOf, walkTail]
        cases Gen.Division.edgePlaneIntersection (posOfC c e.n1) (posOfC c cn) p n <;>
        cases Gen.Division.edgePlaneIntersection (posOfC c e.n2) (posOfC c cn) p n <;>
        cases getEdge c e.n1 cn <;> cases getEdge c e.n2 cn <;> rfl

theorem getEdge_mem {c : Remesh.Cell R} {a b : Nat} {e : Edge} (h : getEdge c a b = some e) : e ∈ c.edges := by
  unfold getEdge EdgeSet.find? at h
  exact List.mem_of_find?_eq_some h

theorem pickOf_mem {c : Remesh.Cell R} {a b cn : Nat} {iac ibc : Option (V3 R)} {x : Edge × V3 R}
    (h : pickOf c a b cn iac ibc = .ok x) : x.1 ∈ c.edges := by
  unfold pickOf at h
  cases iac with
  | some q =>
    simp only at h
    cases hg : getEdge c a cn with
    | none => rw [hg] at h; cases h
    | some e' => rw [hg] at h; cases h; exact getEdge_mem hg
  | none =>
    cases ibc with
    | some q =>
      simp only at h
      cases hg : getEdge c b cn with
      | none => rw [hg] at h; cases h
      | some e' => rw [hg] at h; cases h; exact getEdge_mem hg
    | none => cases h

theorem pickOf_tr (t : V3 R) (c : Remesh.Cell R) (a b cn : Nat) (iac ibc : Option (V3 R)) :
    pickOf (translateCell t c) a b cn (iac.map (· + t)) (ibc.map (· + t))
      = (pickOf c a b cn iac ibc).map (fun x => (x.1, x.2 + t)) := by
  unfold pickOf
  simp only [tr_getEdge]
  cases iac with
  | some q =>
    simp only [Option.map_some]
    cases getEdge c a cn <;> rfl
  | none =>
    cases ibc with
    | some q =>
      simp only [Option.map_some, Option.map_none]
      cases getEdge c b cn <;> rfl
    | none => rfl

theorem walkTail_tr (t : V3 R) (nbE iter : Nat) (m : Division.Mesh R) (fc : Nat)
    (rec' rec : Division.Mesh R → Edge → Nat → Except DErr (Division.Mesh R)) (x : Edge × V3 R)
    (hrec : ∀ m' nf, rec' (trMesh t m') x.1 nf = (rec m' x.1 nf).map (trMesh t)) :
    walkTail nbE iter (trMesh t m) fc rec' (x.1, x.2 + t) = (walkTail nbE iter m fc rec x).map (trMesh t) := by
  unfold walkTail
  simp only [cutEdge_tr]
  cases cutEdge m x.1 x.2 with
  | error y => rfl
  | ok m' =>
    simp only [map_ok]
    cases optFace x.1.f1 with
    | error y => rfl
    | ok g1 =>
      simp only
      cases (if (g1 == fc) = true then optFace x.1.f2 else Except.ok g1 : Except DErr Nat) with
      | error y => rfl
      | ok nf =>
        simp only
        split_ifs
        · rfl
        · exact hrec m' nf

theorem oppositeNode_lt {f : Remesh.Face R} {a b cn k : Nat} (h : oppositeNode f a b = some cn)
    (h1 : f.n1 < k) (h2 : f.n2 < k) (h3 : f.n3 < k) : cn < k := by
  unfold oppositeNode at h
  split_ifs at h <;> simp only [Option.some.injEq] at h <;> omega

theorem walk_tr (c : Remesh.Cell R) (p n t : V3 R) (stop : Nat)
    (hu : c.nodes.all (fun nd => nd.used) = true)
    (he : c.edges.all (fun e => e.n1 < c.nodes.size && e.n2 < c.nodes.size) = true)
    (hf : c.faces.all (fun f => f.n1 < c.nodes.size && f.n2 < c.nodes.size && f.n3 < c.nodes.size) = true) :
    ∀ (fuel iter : Nat) (m : Division.Mesh R) (e : Edge) (fc : Nat), e ∈ c.edges →
      walk (translateCell t c) (p + t) n stop fuel iter (trMesh t m) e fc
        = (walk c p n stop fuel iter m e fc).map (trMesh t)
  | 0, _, _, _, _, _ => rfl
  | fuel + 1, iter, m, e, fc, hmem => by
    rw [walk_succ, walk_succ]
    simp only [tr_faces, tr_edges]
    split_ifs
    · rfl
    · cases hfc : c.faces[fc]? with
      | none => rfl
      | some f =>
        simp only
        cases hcn : oppositeNode f e.n1 e.n2 with
        | none => rfl
        | some cn =>
          simp only
          have hE := (List.all_eq_true.1 he) e hmem
          simp only [Bool.and_eq_true, decide_eq_true_eq] at hE
          obtain ⟨hi, rfl⟩ := Array.getElem?_eq_some_iff.1 hfc
          have hF := (Array.all_eq_true.1 hf) fc hi
          simp only [Bool.and_eq_true, decide_eq_true_eq] at hF
          have hc : cn < c.nodes.size := oppositeNode_lt hcn hF.1.1 hF.1.2 hF.2
          rw [posOfC_tr t hu hE.1, posOfC_tr t hu hE.2, posOfC_tr t hu hc, epi_tr, epi_tr, pickOf_tr]
          cases hp : pickOf c e.n1 e.n2 cn (Gen.Division.edgePlaneIntersection (posOfC c e.n1) (posOfC c cn) p n)
              (Gen.Division.edgePlaneIntersection (posOfC c e.n2) (posOfC c cn) p n) with
          | error y => rfl
          | ok x =>
            simp only [map_ok]
            exact walkTail_tr t _ _ _ _ _ _ x (fun m' nf => walk_tr c p n t stop hu he hf fuel (iter + 1) m' x.1 nf (pickOf_mem hp))

/-! ### add_intersection_points, divide_faces -/

theorem findSome_tr {α β : Type} (g : β → β) (f' f : α → Option β) :
    ∀ (l : List α), (∀ a ∈ l, f' a = (f a).map g) → l.findSome? f' = (l.findSome? f).map g
  | [], _ => rfl
  | a :: l, h => by
    simp only [List.findSome?_cons]
    rw [h a (List.mem_cons_self ..)]
    cases f a with
    | some b => rfl
    | none =>
      simp only [Option.map_none]
      exact findSome_tr g f' f l (fun b hb => h b (List.mem_cons_of_mem _ hb))

/-- the seed function of `add_intersection_points` -/
def seedOf (c : Remesh.Cell R) (p n : V3 R) (e : Edge) : Option (Edge × V3 R) :=
  match Gen.Division.edgePlaneIntersection (posOfC c e.n1) (posOfC c e.n2) p n with
  | some q => some (e, q)
  | none => none

theorem seedOf_fst {c : Remesh.Cell R} {p n : V3 R} {e : Edge} {x : Edge × V3 R} (h : seedOf c p n e = some x) : x.1 = e := by
  unfold seedOf at h
  cases hq : Gen.Division.edgePlaneIntersection (posOfC c e.n1) (posOfC c e.n2) p n with
  | none => rw [hq] at h; cases h
  | some q => rw [hq] at h; cases h; rfl

theorem addIntersectionPoints_eq (c : Remesh.Cell R) (p n : V3 R) :
    addIntersectionPoints c p n =
      match c.edges.findSome? (seedOf c p n) with
      | none => .error .division
      | some x =>
        (optFace x.1.f1).bind fun f1 =>
        (optFace x.1.f2).bind fun f2 =>
        (addPointToFace { meshOfCell c with nodes := (meshOfCell c).nodes.push x.2 } f1 x.1.n1 x.1.n2
            (((meshOfCell c).nodes.push x.2).size - 1)).bind fun m2 =>
        (addPointToFace m2 f2 x.1.n1 x.1.n2 (((meshOfCell c).nodes.push x.2).size - 1)).bind fun m3 =>
        walk c p n f1 (c.edges.length + 2) 0 m3 x.1 f2 := by
  unfold addIntersectionPoints
  show (match c.edges.findSome? (seedOf c p n) with
      | none => _
      | some (e, q) => _) = _
  cases c.edges.findSome? (seedOf c p n) with
  | none => rfl
  | some x => obtain ⟨e, q⟩ := x; rfl

theorem addIntersectionPoints_tr (m : Remesh.Cell R) (p n t : V3 R)
    (hu : m.nodes.all (fun nd => nd.used) = true)
    (he : m.edges.all (fun e => e.n1 < m.nodes.size && e.n2 < m.nodes.size) = true)
    (hf : m.faces.all (fun f => f.n1 < m.nodes.size && f.n2 < m.nodes.size && f.n3 < m.nodes.size) = true) :
    addIntersectionPoints (translateCell t m) (p + t) n = (addIntersectionPoints m p n).map (trMesh t) := by
  rw [addIntersectionPoints_eq, addIntersectionPoints_eq]
  have hseed : (translateCell t m).edges.findSome? (seedOf (translateCell t m) (p + t) n)
      = (m.edges.findSome? (seedOf m p n)).map (fun x => (x.1, x.2 + t)) := by
    apply findSome_tr
    intro e hmem
    have hE := (List.all_eq_true.1 he) e hmem
    simp only [Bool.and_eq_true, decide_eq_true_eq] at hE
    unfold seedOf
    rw [posOfC_tr t hu hE.1, posOfC_tr t hu hE.2, epi_tr]
    cases Gen.Division.edgePlaneIntersection (posOfC m e.n1) (posOfC m e.n2) p n <;> rfl
  rw [hseed]
  cases hs : m.edges.findSome? (seedOf m p n) with
  | none => rfl
  | some x =>
    obtain ⟨a, ha, hax⟩ := List.exists_of_findSome?_eq_some hs
    have hx : x.1 ∈ m.edges := by rw [seedOf_fst hax]; exact ha
    simp only [Option.map_some, meshOfCell_tr t hu, push_tr, Array.size_push, trMesh_nodes_size, tr_edges]
    refine bind_map_same fun f1 _ => ?_
    refine bind_map_same fun f2 _ => ?_
    refine bind_map_rel (addPointToFace_tr t _ _ _ _ _) fun m2 _ => ?_
    refine bind_map_rel (addPointToFace_tr t _ _ _ _ _) fun m3 _ => ?_
    exact walk_tr m p n t f1 hu he hf _ _ m3 x.1 f2 hx

theorem divideFaces_tr (t : V3 R) (thr : Nat) (m : Division.Mesh R) :
    divideFaces thr (trMesh t m) = (divideFaces thr m).map (trMesh t) := by
  unfold divideFaces
  simp only [trMesh_faces]
  cases divideFacesL thr m.faces.toList with
  | error x => rfl
  | ok ka => rfl

theorem cutFaces_tr (m : Remesh.Cell R) (p n t : V3 R)
    (hu : m.nodes.all (fun nd => nd.used) = true)
    (he : m.edges.all (fun e => e.n1 < m.nodes.size && e.n2 < m.nodes.size) = true)
    (hf : m.faces.all (fun f => f.n1 < m.nodes.size && f.n2 < m.nodes.size && f.n3 < m.nodes.size) = true) :
    cutFaces (translateCell t m) (p + t) n = (cutFaces m p n).map (trMesh t) := by
  unfold cutFaces
  simp only [tr_nodes_size]
  exact bind_map_rel (addIntersectionPoints_tr m p n t hu he hf) fun m1 _ => divideFaces_tr t _ m1

/-! ### coarse_triangulation -/

theorem mapM_option_map {α β γ : Type} (g : α → Option β) (h : β → γ) :
    ∀ l : List α, l.mapM (fun i => (g i).map h) = (l.mapM g).map (List.map h)
  | [] => by simp
  | a :: l => by
    simp only [List.mapM_cons, mapM_option_map g h l]
    cases g a <;> cases l.mapM g <;> simp

theorem mapM_length {α β : Type} (g : α → Option β) : ∀ (l : List α) (ps : List β), l.mapM g = some ps → ps.length = l.length
  | [], ps, h => by simp at h; subst h; rfl
  | a :: l, ps, h => by
    simp only [List.mapM_cons] at h
    cases ha : g a with
    | none => simp [ha] at h
    | some b =>
      cases hl : l.mapM g with
      | none => simp [ha, hl] at h
      | some bs =>
        simp [ha, hl] at h
        subst h
        simp [mapM_length g l bs hl]

theorem foldl_add_tr (t : V3 R) : ∀ (ps : List (V3 R)) (s : V3 R) (k : R),
    (ps.map (· + t)).foldl (fun (s : V3 R) q => s + q) (s + t * k)
      = ps.foldl (fun (s : V3 R) q => s + q) s + t * (k + (ps.length : R))
  | [], s, k => by simp
  | q :: ps, s, k => by
    simp only [List.map_cons, List.foldl_cons, List.length_cons, Nat.cast_succ]
    have h1 : s + t * k + (q + t) = (s + q) + t * (k + 1) := by
      apply V3.ext' <;> simp only [V3.add_x, V3.add_y, V3.add_z, V3.smul_x, V3.smul_y, V3.smul_z] <;> ring
    have h2 : k + ((ps.length : R) + 1) = k + 1 + (ps.length : R) := by ring
    rw [h1, h2, foldl_add_tr t ps (s + q) (k + 1)]

theorem foldl_add_tr0 (t : V3 R) (ps : List (V3 R)) :
    (ps.map (· + t)).foldl (fun (s : V3 R) q => s + q) zeroV3
      = ps.foldl (fun (s : V3 R) q => s + q) zeroV3 + t * (ps.length : R) := by
  have h0 : (zeroV3 : V3 R) = zeroV3 + t * (0 : R) := by
    apply V3.ext' <;> simp [zeroV3]
  have := foldl_add_tr t ps zeroV3 0
  rw [← h0, zero_add] at this
  exact this

theorem centre_tr (S t : V3 R) (k : R) (hk : k ≠ 0) : (S + t * k) / k = S / k + t := by
  apply V3.ext' <;> simp only [V3.add_x, V3.add_y, V3.add_z, V3.smul_x, V3.smul_y, V3.smul_z, V3.sdiv_x, V3.sdiv_y, V3.sdiv_z] <;>
    field_simp

theorem coarseGo_tr (t : V3 R) : ∀ (fs : List (List Nat)) (nodes : Array (V3 R)), (∀ f ∈ fs, f ≠ []) →
    coarseGo fs (nodes.map (· + t)) = (coarseGo fs nodes).map (fun x => (x.1.map (· + t), x.2))
  | [], nodes, _ => rfl
  | f :: fs, nodes, h => by
    have hfs : ∀ g ∈ fs, g ≠ [] := fun g hg => h g (List.mem_cons_of_mem _ hg)
    rw [coarseGo, coarseGo]
    split_ifs with h3
    · simp only [Array.getElem?_map, mapM_option_map]
      cases hps : f.mapM (fun i => nodes[i]?) with
      | none => rfl
      | some ps =>
        simp only [Option.map_some]
        have hlen : ps.length = f.length := mapM_length _ f ps hps
        have hne : ((f.length : Nat) : R) ≠ 0 := by
          have : f ≠ [] := h f (List.mem_cons_self ..)
          have : f.length ≠ 0 := by simpa using this
          exact_mod_cast this
        rw [foldl_add_tr0, hlen, lit_eq, centre_tr _ _ _ hne, ← Array.map_push, coarseGo_tr t fs _ hfs]
        simp only [Array.size_push, Array.size_map]
        cases coarseGo fs (nodes.push (ps.foldl (fun (s : V3 R) q => s + q) zeroV3 / (f.length : R))) with
        | error x => rfl
        | ok x => obtain ⟨nn, keep, add⟩ := x; rfl
    · rw [coarseGo_tr t fs _ hfs]
      cases coarseGo fs nodes with
      | error x => rfl
      | ok x => obtain ⟨nn, keep, add⟩ := x; rfl

theorem coarseTriangulation_tr (t : V3 R) (m : Division.Mesh R) (hne : m.faces.all (fun f => !f.isEmpty) = true) :
    coarseTriangulation (trMesh t m) = (coarseTriangulation m).map (trMesh t) := by
  unfold coarseTriangulation
  have h : ∀ f ∈ m.faces.toList, f ≠ [] := by
    intro f hf
    have := (Array.all_eq_true'.1 hne) f (Array.mem_toList_iff.1 hf)
    intro h0; subst h0; simp at this
  simp only [trMesh_faces, trMesh_nodes, coarseGo_tr t _ _ h]
  cases coarseGo m.faces.toList m.nodes with
  | error x => rfl
  | ok x => obtain ⟨nn, keep, add⟩ := x; rfl

theorem addPolygonAndCoarse_tr (thr : Nat) (m2 : Division.Mesh R) (t : V3 R)
    (hne : m2.faces.all (fun f => !f.isEmpty) = true) (hthr : thr < m2.nodes.size) :
    Division.addPolygonAndCoarse thr (trMesh t m2) = (Division.addPolygonAndCoarse thr m2).map (trMesh t) := by
  unfold Division.addPolygonAndCoarse
  simp only [trMesh_nodes_size, trMesh_faces]
  have h := coarseTriangulation_tr t { m2 with faces := m2.faces.push ((List.range (m2.nodes.size - thr)).map (· + thr)) } (by
    simp only [Array.all_push, hne, Bool.true_and]
    have : m2.nodes.size - thr ≠ 0 := by omega
    simp [this])
  exact h

/-! ### map to the xy plane, the recorded interface, map back -/

theorem mapTail_getElem? (thr : Nat) (g : V3 R → V3 R) (a : Array (V3 R)) (i : Nat) :
    (mapTail thr g a)[i]? = (a[i]?).map (fun q => if i ≥ thr then g q else q) := by
  unfold mapTail
  simp only [List.getElem?_toArray, List.getElem?_map, List.getElem?_zipIdx, Array.getElem?_toList, Option.map_map,
    Function.comp_def, zero_add]

@[simp] theorem mapTail_size (thr : Nat) (g : V3 R → V3 R) (a : Array (V3 R)) : (mapTail thr g a).size = a.size := by
  unfold mapTail
  simp only [List.size_toArray, List.length_map, List.length_zipIdx, Array.length_toList]

theorem v_sub_sub_add (a T t : V3 R) : a - (T - t) = a - T + t := by
  apply V3.ext' <;> simp only [V3.add_x, V3.add_y, V3.add_z, V3.sub_x, V3.sub_y, V3.sub_z] <;> ring

/-- the translation of `map_points_to_xy_plane` on the shifted mesh -/
theorem mapToXY_tr_1 (fn : Fn R) (m : Division.Mesh R) (thr : Nat) (n t : V3 R) (hthr : thr < m.nodes.size) :
    (mapToXY fn (trMesh t m) thr n).1 = (mapToXY fn m thr n).1 - t := by
  unfold mapToXY
  simp only [trMesh_nodes, Array.size_map, Array.toList_map, ← List.map_drop, foldl_add_tr0, List.length_drop,
    Array.length_toList, lit_eq]
  have hk : ((m.nodes.size - thr : Nat) : R) = (m.nodes.size : R) - (thr : R) := Nat.cast_sub (le_of_lt hthr)
  have hne : (m.nodes.size : R) - (thr : R) ≠ 0 := by
    rw [← hk]
    have : m.nodes.size - thr ≠ 0 := by omega
    exact_mod_cast this
  rw [hk]
  generalize (m.nodes.size : R) - (thr : R) = k at hne
  generalize List.foldl (fun (s : V3 R) q => s + q) zeroV3 (List.drop thr m.nodes.toList) = S
  unfold Gen.Division.translationOf
  apply V3.ext' <;>
    simp only [V3.add_x, V3.add_y, V3.add_z, V3.sub_x, V3.sub_y, V3.sub_z, V3.smul_x, V3.smul_y, V3.smul_z,
      V3.sdiv_x, V3.sdiv_y, V3.sdiv_z, lit_one] <;> field_simp <;> ring

theorem mapToXY_tr_rot (fn : Fn R) (m : Division.Mesh R) (thr : Nat) (n t : V3 R) :
    (mapToXY fn (trMesh t m) thr n).2.1 = (mapToXY fn m thr n).2.1 := rfl

theorem mapToXY_tr_faces (fn : Fn R) (m : Division.Mesh R) (thr : Nat) (n t : V3 R) :
    (mapToXY fn (trMesh t m) thr n).2.2.faces = (mapToXY fn m thr n).2.2.faces := rfl

/-- one point mapped to the frame of the plane -/
def xyPoint (rot : M33 R) (T q : V3 R) : V3 R :=
  ⟨(Gen.Division.matDot rot ⟨q.x + T.x, q.y + T.y, q.z + T.z⟩).x, (Gen.Division.matDot rot ⟨q.x + T.x, q.y + T.y, q.z + T.z⟩).y,
   Gen.Division.zeroedAfterRotation⟩

theorem mapToXY_nodes (fn : Fn R) (m : Division.Mesh R) (thr : Nat) (n : V3 R) :
    (mapToXY fn m thr n).2.2.nodes = mapTail thr (xyPoint (rotationOf fn n) (mapToXY fn m thr n).1) m.nodes := rfl

/-- the 2-D coordinates of the interface nodes are the same, the other nodes are shifted -/
theorem mapToXY_tr_nodes (fn : Fn R) (m : Division.Mesh R) (thr : Nat) (n t : V3 R) (hthr : thr < m.nodes.size) (i : Nat) :
    (mapToXY fn (trMesh t m) thr n).2.2.nodes[i]?
      = ((mapToXY fn m thr n).2.2.nodes[i]?).map (fun q => if i ≥ thr then q else q + t) := by
  rw [mapToXY_nodes, mapToXY_nodes, mapToXY_tr_1 fn m thr n t hthr]
  simp only [mapTail_getElem?, trMesh_nodes, Array.getElem?_map, Option.map_map, Function.comp_def]
  cases m.nodes[i]? with
  | none => rfl
  | some q =>
    simp only [Option.map_some]
    split_ifs
    · simp only [xyPoint, V3.add_x, V3.add_y, V3.add_z, V3.sub_x, V3.sub_y, V3.sub_z, add_add_sub_cancel]
    · rfl

theorem mapToXY_size (fn : Fn R) (m : Division.Mesh R) (thr : Nat) (n : V3 R) :
    (mapToXY fn m thr n).2.2.nodes.size = m.nodes.size := by
  unfold mapToXY
  simp only [mapTail_size]

theorem interfaceStage_tr (fn : Fn R) (m3 : Division.Mesh R) (thr fthr : Nat) (n t : V3 R) (D : RecD R) (hthr : thr < m3.nodes.size) :
    interfaceStage fn (trMesh t m3) thr fthr n D = trMesh t (interfaceStage fn m3 thr fthr n D) := by
  unfold interfaceStage
  simp only [mapToXY_tr_1 fn m3 thr n t hthr, mapToXY_tr_rot]
  unfold mapBack addInterface
  simp only [mapToXY_tr_faces, trMesh_mk]
  congr 1
  apply Array.ext_getElem?
  intro i
  have hs' : (mapToXY fn (trMesh t m3) thr n).2.2.nodes.size = m3.nodes.size := by
    rw [mapToXY_size, trMesh_nodes_size]
  simp only [mapTail_getElem?, Array.getElem?_map, Array.getElem?_append, mapToXY_size, hs',
    mapToXY_tr_nodes fn m3 thr n t hthr, Option.map_map, Function.comp_def]
  by_cases hi : i < m3.nodes.size
  · simp only [hi, if_true]
    cases (mapToXY fn m3 thr n).2.2.nodes[i]? with
    | none => rfl
    | some q =>
      simp only [Option.map_some]
      split_ifs
      · simp only [Gen.Division.mapBackPoint, v_sub_sub_add]
      · rfl
  · simp only [hi, if_false]
    have hge : i ≥ thr := by omega
    simp only [hge, if_true]
    cases ((List.map (fun (q : R × R) => ({ x := q.1, y := q.2, z := lit 0 } : V3 R)) D.pts).toArray)[i - m3.nodes.size]? with
    | none => rfl
    | some q => simp only [Option.map_some, Gen.Division.mapBackPoint, v_sub_sub_add]

/-! ### the combination -/

/-- the combination; `cutOk` is the decidable check of Model/TissueD2.lean -/
theorem cutAndTriangulate_tr (fn : Fn R) (m : Remesh.Cell R) (p n t : V3 R) (d : Option (RecD R))
    (hu : m.nodes.all (fun nd => nd.used) = true)
    (he : m.edges.all (fun e => e.n1 < m.nodes.size && e.n2 < m.nodes.size) = true)
    (hf : m.faces.all (fun f => f.n1 < m.nodes.size && f.n2 < m.nodes.size && f.n3 < m.nodes.size) = true)
    (hc : cutOk m p n = true) :
    cutAndTriangulate fn (translateCell t m) (p + t) n d
      = (cutAndTriangulate fn m p n d).map (fun mf => (trMesh t mf.1, mf.2)) := by
  unfold cutAndTriangulate
  simp only [tr_nodes_size]
  refine bind_map_rel (cutFaces_tr m p n t hu he hf) fun m2 h2 => ?_
  unfold cutOk at hc
  rw [h2] at hc
  simp only [Bool.and_eq_true, decide_eq_true_eq] at hc
  obtain ⟨⟨hne, hlt⟩, hc3⟩ := hc
  refine bind_map_rel (addPolygonAndCoarse_tr _ m2 t hne hlt) fun m3 h3 => ?_
  rw [h3] at hc3
  simp only [decide_eq_true_eq] at hc3
  cases d with
  | none => rfl
  | some D =>
    simp only [trMesh_faces, interfaceStage_tr fn m3 _ _ n t D hc3]
    rfl

end Simu.TissueD2
