import SimuVerif.Lemmas.Field
import SimuVerif.Lemmas.KernelCore
/-
  Specification of a point–triangle query and the seven per-region lemmas, stated on vectors and
  independent of the generated model; `Properties/C05.lean` matches the branches of
  `Gen.closestPt` (regenerated from the C++ on every run) against them.
-/
namespace Simu
variable {R : Type} [Field R] [LinearOrder R] [IsStrictOrderedRing R]

/-- the point of the plane with barycentric coordinates `w` w.r.t. `a b c` -/
def baryPt (w a b c : V3 R) : V3 R := a * w.x + b * w.y + c * w.z

/-- what a correct query result `(d, w)` satisfies -/
structure KSpec (p a b c : V3 R) (r : R × V3 R) : Prop where
  sum_one : r.2.x + r.2.y + r.2.z = 1
  nonneg  : 0 ≤ r.2.x ∧ 0 ≤ r.2.y ∧ 0 ≤ r.2.z
  dist    : r.1 = V3.normSq (p - baryPt r.2 a b c)
  obt_a   : V3.dot (p - baryPt r.2 a b c) (a - baryPt r.2 a b c) ≤ 0
  obt_b   : V3.dot (p - baryPt r.2 a b c) (b - baryPt r.2 a b c) ≤ 0
  obt_c   : V3.dot (p - baryPt r.2 a b c) (c - baryPt r.2 a b c) ≤ 0

/-- the obtuse-angle conditions at the three vertices make `q` the closest point of the triangle -/
theorem KSpec.closest {p a b c : V3 R} {r : R × V3 R} (h : KSpec p a b c r)
    (w : V3 R) (hx : 0 ≤ w.x) (hy : 0 ≤ w.y) (hz : 0 ≤ w.z) (hs : w.x + w.y + w.z = 1) :
    r.1 ≤ V3.normSq (p - baryPt w a b c) := by
  rw [h.dist]
  set q := baryPt r.2 a b c with hq
  have key : V3.normSq (p - baryPt w a b c) = V3.normSq (p - q)
      - 2 * (w.x * V3.dot (p - q) (a - q) + w.y * V3.dot (p - q) (b - q) + w.z * V3.dot (p - q) (c - q))
      + V3.normSq (baryPt w a b c - q) := by
    have hwx : w.x = 1 - w.y - w.z := by linarith
    simp only [V3.normSq_def, V3.dot_def, baryPt, V3.sub_x, V3.sub_y, V3.sub_z, V3.add_x, V3.add_y, V3.add_z,
      V3.smul_x, V3.smul_y, V3.smul_z, hwx]
    ring
  rw [key]
  have h1 := mul_nonneg hx (neg_nonneg.mpr h.obt_a)
  have h2 := mul_nonneg hy (neg_nonneg.mpr h.obt_b)
  have h3 := mul_nonneg hz (neg_nonneg.mpr h.obt_c)
  have h4 := V3.normSq_nonneg (baryPt w a b c - q)
  nlinarith

section nondeg
variable (a b c : V3 R)

/-- Gram determinant = |ab × ac|² -/
theorem gram_eq : V3.dot (b - a) (b - a) * V3.dot (c - a) (c - a) - V3.dot (b - a) (c - a) * V3.dot (b - a) (c - a)
    = V3.normSq (V3.cross (b - a) (c - a)) := by
  simp only [V3.normSq_def, V3.dot_def, V3.cross_def, V3.sub_x, V3.sub_y, V3.sub_z]; ring

theorem nondeg_pos (h : 0 < V3.normSq (V3.cross (b - a) (c - a))) :
    0 < V3.dot (b - a) (b - a) ∧ 0 < V3.dot (c - a) (c - a) ∧ 0 < V3.normSq (c - b) := by
  have hg := gram_eq a b c
  have hA : 0 ≤ V3.dot (b - a) (b - a) := V3.normSq_nonneg _
  have hC : 0 ≤ V3.dot (c - a) (c - a) := V3.normSq_nonneg _
  have hbc : V3.normSq (c - b) = V3.dot (b - a) (b - a) + V3.dot (c - a) (c - a) - 2 * V3.dot (b - a) (c - a) := by
    simp only [V3.normSq_def, V3.dot_def, V3.sub_x, V3.sub_y, V3.sub_z]; ring
  set A := V3.dot (b - a) (b - a)
  set C := V3.dot (c - a) (c - a)
  set B := V3.dot (b - a) (c - a)
  have hΔ : 0 < A * C - B * B := by rw [hg]; exact h
  have hA' : 0 < A := by
    rcases hA.lt_or_eq with h' | h'
    · exact h'
    · rw [← h'] at hΔ; nlinarith [mul_self_nonneg B]
  have hC' : 0 < C := by
    rcases hC.lt_or_eq with h' | h'
    · exact h'
    · rw [← h'] at hΔ; nlinarith [mul_self_nonneg B]
  refine ⟨hA', hC', ?_⟩
  rw [hbc]
  by_contra hneg
  push Not at hneg
  nlinarith [mul_self_nonneg (A - C), mul_self_nonneg (A + C - 2 * B), mul_pos hA' hC']
end nondeg

/-! ### the six scalars of the code in terms of A B C d1 d2 -/
section scalars
variable (p a b c : V3 R)
theorem d3_eq : V3.dot (b - a) (p - b) = V3.dot (b - a) (p - a) - V3.dot (b - a) (b - a) := by
  simp only [V3.dot_def, V3.sub_x, V3.sub_y, V3.sub_z]; ring
theorem d4_eq : V3.dot (c - a) (p - b) = V3.dot (c - a) (p - a) - V3.dot (b - a) (c - a) := by
  simp only [V3.dot_def, V3.sub_x, V3.sub_y, V3.sub_z]; ring
theorem d5_eq : V3.dot (b - a) (p - c) = V3.dot (b - a) (p - a) - V3.dot (b - a) (c - a) := by
  simp only [V3.dot_def, V3.sub_x, V3.sub_y, V3.sub_z]; ring
theorem d6_eq : V3.dot (c - a) (p - c) = V3.dot (c - a) (p - a) - V3.dot (c - a) (c - a) := by
  simp only [V3.dot_def, V3.sub_x, V3.sub_y, V3.sub_z]; ring
end scalars

/-! ### per-region lemmas -/
section regions
variable (p a b c : V3 R)

theorem regionA (h1 : V3.dot (b - a) (p - a) ≤ 0) (h2 : V3.dot (c - a) (p - a) ≤ 0) :
    KSpec p a b c (V3.normSq (p - a), ⟨1, 0, 0⟩) := by
  have hq : baryPt (⟨1, 0, 0⟩ : V3 R) a b c = a := by
    apply V3.ext' <;> simp [baryPt]
  refine ⟨by simp, by simp, by simp only [hq], ?_, ?_, ?_⟩ <;> simp only [hq]
  · simp [V3.dot_def]
  · rw [V3.dot_comm]; exact h1
  · rw [V3.dot_comm]; exact h2

theorem regionB (h1 : 0 ≤ V3.dot (b - a) (p - b)) (h2 : V3.dot (c - a) (p - b) ≤ V3.dot (b - a) (p - b)) :
    KSpec p a b c (V3.normSq (p - b), ⟨0, 1, 0⟩) := by
  have hq : baryPt (⟨0, 1, 0⟩ : V3 R) a b c = b := by
    apply V3.ext' <;> simp [baryPt]
  refine ⟨by simp, by simp, by simp only [hq], ?_, ?_, ?_⟩ <;> simp only [hq]
  · have : V3.dot (p - b) (a - b) = - V3.dot (b - a) (p - b) := by
      simp only [V3.dot_def, V3.sub_x, V3.sub_y, V3.sub_z]; ring
    rw [this]; linarith
  · simp [V3.dot_def]
  · have : V3.dot (p - b) (c - b) = V3.dot (c - a) (p - b) - V3.dot (b - a) (p - b) := by
      simp only [V3.dot_def, V3.sub_x, V3.sub_y, V3.sub_z]; ring
    rw [this]; linarith

theorem regionC (h1 : 0 ≤ V3.dot (c - a) (p - c)) (h2 : V3.dot (b - a) (p - c) ≤ V3.dot (c - a) (p - c)) :
    KSpec p a b c (V3.normSq (p - c), ⟨0, 0, 1⟩) := by
  have hq : baryPt (⟨0, 0, 1⟩ : V3 R) a b c = c := by
    apply V3.ext' <;> simp [baryPt]
  refine ⟨by simp, by simp, by simp only [hq], ?_, ?_, ?_⟩ <;> simp only [hq]
  · have : V3.dot (p - c) (a - c) = - V3.dot (c - a) (p - c) := by
      simp only [V3.dot_def, V3.sub_x, V3.sub_y, V3.sub_z]; ring
    rw [this]; linarith
  · have : V3.dot (p - c) (b - c) = V3.dot (b - a) (p - c) - V3.dot (c - a) (p - c) := by
      simp only [V3.dot_def, V3.sub_x, V3.sub_y, V3.sub_z]; ring
    rw [this]; linarith
  · simp [V3.dot_def]

end regions
section regions2
variable (p a b c : V3 R)

/-- generic edge region: q = a + (b-a)·v with v = d1/A ∈ [0,1], (p-q)⊥ab, and the third vertex on the far side -/
theorem regionEdge_ab (hA : 0 < V3.dot (b - a) (b - a))
    (h1 : 0 ≤ V3.dot (b - a) (p - a)) (h3 : V3.dot (b - a) (p - b) ≤ 0)
    (hvc : V3.dot (b - a) (p - a) * V3.dot (c - a) (p - b) - V3.dot (b - a) (p - b) * V3.dot (c - a) (p - a) ≤ 0) :
    let v := V3.dot (b - a) (p - a) / (V3.dot (b - a) (p - a) - V3.dot (b - a) (p - b))
    KSpec p a b c (V3.normSq (a + (b - a) * v - p), ⟨1 - v, v, 0⟩) := by
  intro v
  have e3 := d3_eq p a b
  have e4 := d4_eq p a b c
  set d1 := V3.dot (b - a) (p - a) with hd1
  set d2 := V3.dot (c - a) (p - a) with hd2
  set A := V3.dot (b - a) (b - a) with hAdef
  set B := V3.dot (b - a) (c - a) with hBdef
  have hden : d1 - V3.dot (b - a) (p - b) = A := by rw [e3]; ring
  have hv : v = d1 / A := by
    show d1 / (d1 - V3.dot (b - a) (p - b)) = d1 / A
    rw [hden]
  have hvA : v * A = d1 := by rw [hv]; field_simp
  have hv0 : 0 ≤ v := by rw [hv]; exact div_nonneg h1 hA.le
  have hv1 : v ≤ 1 := by
    rw [hv, div_le_one hA]; rw [e3] at h3; linarith
  have hq : baryPt (⟨1 - v, v, 0⟩ : V3 R) a b c = a + (b - a) * v := by
    apply V3.ext' <;> simp [baryPt] <;> ring
  have hperp : V3.dot (p - (a + (b - a) * v)) (b - a) = 0 := by
    have : V3.dot (p - (a + (b - a) * v)) (b - a) = d1 - v * A := by
      simp only [hd1, hAdef, V3.dot_def, V3.sub_x, V3.sub_y, V3.sub_z, V3.add_x, V3.add_y, V3.add_z, V3.smul_x, V3.smul_y, V3.smul_z]; ring
    rw [this, hvA]; ring
  refine ⟨by simp, ⟨by simpa using hv1, hv0, le_refl _⟩, ?_, ?_, ?_, ?_⟩ <;> simp only [hq]
  · simp only [V3.normSq_def, V3.sub_x, V3.sub_y, V3.sub_z]; ring
  · have : V3.dot (p - (a + (b - a) * v)) (a - (a + (b - a) * v)) = - v * V3.dot (p - (a + (b - a) * v)) (b - a) := by
      simp only [V3.dot_def, V3.sub_x, V3.sub_y, V3.sub_z, V3.add_x, V3.add_y, V3.add_z, V3.smul_x, V3.smul_y, V3.smul_z]; ring
    rw [this, hperp]; simp
  · have : V3.dot (p - (a + (b - a) * v)) (b - (a + (b - a) * v)) = (1 - v) * V3.dot (p - (a + (b - a) * v)) (b - a) := by
      simp only [V3.dot_def, V3.sub_x, V3.sub_y, V3.sub_z, V3.add_x, V3.add_y, V3.add_z, V3.smul_x, V3.smul_y, V3.smul_z]; ring
    rw [this, hperp]; simp
  · have : V3.dot (p - (a + (b - a) * v)) (c - (a + (b - a) * v)) = d2 - v * B - v * V3.dot (p - (a + (b - a) * v)) (b - a) := by
      simp only [hd2, hBdef, V3.dot_def, V3.sub_x, V3.sub_y, V3.sub_z, V3.add_x, V3.add_y, V3.add_z, V3.smul_x, V3.smul_y, V3.smul_z]; ring
    rw [this, hperp]
    -- vc = A d2 - B d1 ≤ 0
    have hvc' : A * d2 - B * d1 ≤ 0 := by
      have : d1 * V3.dot (c - a) (p - b) - V3.dot (b - a) (p - b) * d2 = A * d2 - B * d1 := by rw [e3, e4]; ring
      linarith
    have : A * (d2 - v * B) ≤ 0 := by
      have e : A * (d2 - v * B) = A * d2 - B * d1 := by rw [← hvA]; ring
      rw [e]; exact hvc'
    have := nonpos_of_mul_nonpos_right this hA
    linarith
end regions2
section regions3
variable (p a b c : V3 R)

theorem KSpec.swap_bc {d x y z : R} (h : KSpec p a c b (d, ⟨x, y, z⟩)) : KSpec p a b c (d, ⟨x, z, y⟩) := by
  have hq : baryPt (⟨x, z, y⟩ : V3 R) a b c = baryPt (⟨x, y, z⟩ : V3 R) a c b := by
    apply V3.ext' <;> simp [baryPt] <;> ring
  obtain ⟨h1, h2, h3, h4, h5, h6⟩ := h
  refine ⟨?_, ?_, ?_, ?_, ?_, ?_⟩ <;> simp only [hq] <;> simp only [] at *
  · linarith
  · exact ⟨h2.1, h2.2.2, h2.2.1⟩
  · exact h3
  · exact h4
  · exact h6
  · exact h5

theorem KSpec.rot {d x y z : R} (h : KSpec p b c a (d, ⟨x, y, z⟩)) : KSpec p a b c (d, ⟨z, x, y⟩) := by
  have hq : baryPt (⟨z, x, y⟩ : V3 R) a b c = baryPt (⟨x, y, z⟩ : V3 R) b c a := by
    apply V3.ext' <;> simp [baryPt] <;> ring
  obtain ⟨h1, h2, h3, h4, h5, h6⟩ := h
  refine ⟨?_, ?_, ?_, ?_, ?_, ?_⟩ <;> simp only [hq] <;> simp only [] at *
  · linarith
  · exact ⟨h2.2.2, h2.1, h2.2.1⟩
  · exact h3
  · exact h6
  · exact h4
  · exact h5

/-- edge region AC exactly as the code writes it -/
theorem regionEdge_ac (hC : 0 < V3.dot (c - a) (c - a))
    (h2 : 0 ≤ V3.dot (c - a) (p - a)) (h6 : V3.dot (c - a) (p - c) ≤ 0)
    (hvb : V3.dot (b - a) (p - c) * V3.dot (c - a) (p - a) - V3.dot (b - a) (p - a) * V3.dot (c - a) (p - c) ≤ 0) :
    let w := V3.dot (c - a) (p - a) / (V3.dot (c - a) (p - a) - V3.dot (c - a) (p - c))
    KSpec p a b c (V3.normSq (p - (a + (c - a) * w)), ⟨1 - w, 0, w⟩) := by
  intro w
  have h := regionEdge_ab p a c b hC h2 h6 (by linarith [hvb])
  have e : V3.normSq (p - (a + (c - a) * w)) = V3.normSq (a + (c - a) * w - p) := by
    simp only [V3.normSq_def, V3.sub_x, V3.sub_y, V3.sub_z]; ring
  rw [e]
  exact KSpec.swap_bc p a b c h

/-- edge region BC exactly as the code writes it -/
theorem regionEdge_bc (hBC : 0 < V3.normSq (c - b))
    (h43 : 0 ≤ V3.dot (c - a) (p - b) - V3.dot (b - a) (p - b))
    (h56 : 0 ≤ V3.dot (b - a) (p - c) - V3.dot (c - a) (p - c))
    (hva : V3.dot (b - a) (p - b) * V3.dot (c - a) (p - c) - V3.dot (b - a) (p - c) * V3.dot (c - a) (p - b) ≤ 0) :
    let z := (V3.dot (c - a) (p - b) - V3.dot (b - a) (p - b)) /
      ((V3.dot (c - a) (p - b) - V3.dot (b - a) (p - b)) + (V3.dot (b - a) (p - c) - V3.dot (c - a) (p - c)))
    KSpec p a b c (V3.normSq (b + (c - b) * z - p), ⟨0, 1 - z, z⟩) := by
  intro z
  have e1 : V3.dot (c - b) (p - b) = V3.dot (c - a) (p - b) - V3.dot (b - a) (p - b) := by
    simp only [V3.dot_def, V3.sub_x, V3.sub_y, V3.sub_z]; ring
  have e2 : V3.dot (c - b) (p - c) = V3.dot (c - a) (p - c) - V3.dot (b - a) (p - c) := by
    simp only [V3.dot_def, V3.sub_x, V3.sub_y, V3.sub_z]; ring
  have e3 : V3.dot (a - b) (p - c) = - V3.dot (b - a) (p - c) := by
    simp only [V3.dot_def, V3.sub_x, V3.sub_y, V3.sub_z]; ring
  have e4 : V3.dot (a - b) (p - b) = - V3.dot (b - a) (p - b) := by
    simp only [V3.dot_def, V3.sub_x, V3.sub_y, V3.sub_z]; ring
  have h := regionEdge_ab p b c a hBC (by rw [e1]; exact h43) (by rw [e2]; linarith)
    (by rw [e1, e2, e3, e4]; nlinarith [hva])
  have ez : V3.dot (c - b) (p - b) / (V3.dot (c - b) (p - b) - V3.dot (c - b) (p - c)) = z := by
    show _ = _ / _
    rw [e1, e2]; congr 1; ring
  simp only [ez] at h
  exact KSpec.rot p a b c h
end regions3
section regions4
open KernelCore

/-- scalar core in the code's own quantities: if the six tests fail, va vb vc ≥ 0 -/
theorem interior_core (A B C d1 d2 : R) (hA : 0 < A) (hC : 0 < C) (hΔ : 0 < A*C - B*B)
    (r1 : ¬ (d1 ≤ 0 ∧ d2 ≤ 0))
    (r2 : ¬ (0 ≤ d1 - A ∧ d2 - B ≤ d1 - A))
    (r3 : ¬ ((A*d2 - B*d1 ≤ 0 ∧ 0 ≤ d1) ∧ d1 - A ≤ 0))
    (r4 : ¬ (0 ≤ d2 - C ∧ d1 - B ≤ d2 - C))
    (r5 : ¬ ((C*d1 - B*d2 ≤ 0 ∧ 0 ≤ d2) ∧ d2 - C ≤ 0))
    (r6 : ¬ (((A*C - B*B) - (C*d1 - B*d2) - (A*d2 - B*d1) ≤ 0 ∧ 0 ≤ (d2 - B) - (d1 - A)) ∧ 0 ≤ (d1 - B) - (d2 - C))) :
    0 ≤ C*d1 - B*d2 ∧ 0 ≤ A*d2 - B*d1 ∧ 0 ≤ (A*C - B*B) - (C*d1 - B*d2) - (A*d2 - B*d1) := by
  set Δ := A*C - B*B with hΔd
  have hΔne : Δ ≠ 0 := ne_of_gt hΔ
  set s := (C*d1 - B*d2)/Δ with hs
  set t := (A*d2 - B*d1)/Δ with ht
  have e1 : s*A + t*B = d1 := by rw [hs, ht]; field_simp; rw [hΔd]; ring
  have e2 : s*B + t*C = d2 := by rw [hs, ht]; field_simp; rw [hΔd]; ring
  have esΔ : s*Δ = C*d1 - B*d2 := by rw [hs]; field_simp
  have etΔ : t*Δ = A*d2 - B*d1 := by rw [ht]; field_simp
  have q1 : ¬ (s*A + t*B ≤ 0 ∧ s*B + t*C ≤ 0) := by rw [e1, e2]; exact r1
  have q2 : ¬ (0 ≤ s*A + t*B - A ∧ s*B + t*C - B ≤ s*A + t*B - A) := by rw [e1, e2]; exact r2
  have q3 : ¬ (t*(A*C - B*B) ≤ 0 ∧ 0 ≤ s*A + t*B ∧ s*A + t*B - A ≤ 0) := by
    rw [e1, ← hΔd, etΔ]; intro h; exact r3 ⟨⟨h.1, h.2.1⟩, h.2.2⟩
  have q4 : ¬ (0 ≤ s*B + t*C - C ∧ s*A + t*B - B ≤ s*B + t*C - C) := by rw [e1, e2]; exact r4
  have q5 : ¬ (s*(A*C - B*B) ≤ 0 ∧ 0 ≤ s*B + t*C ∧ s*B + t*C - C ≤ 0) := by
    rw [e2, ← hΔd, esΔ]; intro h; exact r5 ⟨⟨h.1, h.2.1⟩, h.2.2⟩
  have q6 : ¬ ((1 - s - t)*(A*C - B*B) ≤ 0 ∧ 0 ≤ (s*B + t*C - B) - (s*A + t*B - A) ∧
             0 ≤ (s*A + t*B - B) - (s*B + t*C - C)) := by
    rw [e1, e2, ← hΔd]
    have : (1 - s - t)*Δ = Δ - (C*d1 - B*d2) - (A*d2 - B*d1) := by rw [← esΔ, ← etΔ]; ring
    rw [this]; intro h; exact r6 ⟨⟨h.1, h.2.1⟩, h.2.2⟩
  have hs0 := interior_s_nonneg A B C s t hA hC hΔ q1 q2 q3 q4 q5 q6
  have ht0 := interior_t_nonneg A B C s t hA hC hΔ q1 q2 q3 q4 q5 q6
  have hst := interior_sum_le_one A B C s t hA hC hΔ q1 q2 q3 q4 q5 q6
  refine ⟨?_, ?_, ?_⟩
  · rw [← esΔ]; exact mul_nonneg hs0 hΔ.le
  · rw [← etΔ]; exact mul_nonneg ht0 hΔ.le
  · have : Δ - (C*d1 - B*d2) - (A*d2 - B*d1) = (1 - s - t)*Δ := by rw [← esΔ, ← etΔ]; ring
    rw [this]; exact mul_nonneg (by linarith) hΔ.le

variable (p a b c : V3 R)

/-- face region; the code's intermediate quantities enter as variables with their defining equations -/
theorem regionInterior (hnd : 0 < V3.normSq (V3.cross (b - a) (c - a)))
    (d1 d2 d3 d4 d5 d6 va vb vc denom v w : R)
    (hd1 : d1 = V3.dot (b - a) (p - a)) (hd2 : d2 = V3.dot (c - a) (p - a))
    (hd3 : d3 = V3.dot (b - a) (p - b)) (hd4 : d4 = V3.dot (c - a) (p - b))
    (hd5 : d5 = V3.dot (b - a) (p - c)) (hd6 : d6 = V3.dot (c - a) (p - c))
    (hvc : vc = d1 * d4 - d3 * d2) (hvb : vb = d5 * d2 - d1 * d6) (hva : va = d3 * d6 - d5 * d4)
    (hdenom : denom = 1 / (va + vb + vc)) (hv : v = vb * denom) (hw : w = vc * denom)
    (r1 : ¬ (d1 ≤ 0 ∧ d2 ≤ 0))
    (r2 : ¬ (0 ≤ d3 ∧ d4 ≤ d3))
    (r3 : ¬ ((vc ≤ 0 ∧ 0 ≤ d1) ∧ d3 ≤ 0))
    (r4 : ¬ (0 ≤ d6 ∧ d5 ≤ d6))
    (r5 : ¬ ((vb ≤ 0 ∧ 0 ≤ d2) ∧ d6 ≤ 0))
    (r6 : ¬ ((va ≤ 0 ∧ 0 ≤ d4 - d3) ∧ 0 ≤ d5 - d6)) :
    KSpec p a b c (V3.normSq (p - (a + (b - a) * v + (c - a) * w)), ⟨1 - v - w, v, w⟩) := by
  obtain ⟨hA, hC, -⟩ := nondeg_pos a b c hnd
  have hg := gram_eq a b c
  have e3 := d3_eq p a b
  have e4 := d4_eq p a b c
  have e5 := d5_eq p a b c
  have e6 := d6_eq p a c
  rw [← hd1, ← hd3] at e3
  rw [← hd2, ← hd4] at e4
  rw [← hd1, ← hd5] at e5
  rw [← hd2, ← hd6] at e6
  generalize hAd : V3.dot (b - a) (b - a) = A at *
  generalize hBd : V3.dot (b - a) (c - a) = B at *
  generalize hCd : V3.dot (c - a) (c - a) = C at *
  have hΔ : 0 < A*C - B*B := by rw [hg]; exact hnd
  have hvc' : vc = A*d2 - B*d1 := by rw [hvc, e3, e4]; ring
  have hvb' : vb = C*d1 - B*d2 := by rw [hvb, e5, e6]; ring
  have hva' : va = (A*C - B*B) - (C*d1 - B*d2) - (A*d2 - B*d1) := by rw [hva, e3, e4, e5, e6]; ring
  have hsum : va + vb + vc = A*C - B*B := by rw [hva', hvb', hvc']; ring
  have core := interior_core A B C d1 d2 hA hC hΔ r1
    (by rw [e3, e4] at r2; exact r2)
    (by rw [e3, hvc'] at r3; exact r3)
    (by rw [e5, e6] at r4; exact r4)
    (by rw [e6, hvb'] at r5; exact r5)
    (by rw [e3, e4, e5, e6, hva'] at r6; exact r6)
  obtain ⟨cvb, cvc, cva⟩ := core
  generalize hΔd : A*C - B*B = Δ at *
  have hΔne : Δ ≠ 0 := ne_of_gt hΔ
  have hden : denom = 1 / Δ := by rw [hdenom, hsum]
  have hvΔ : v * Δ = C*d1 - B*d2 := by rw [hv, hden, hvb']; field_simp
  have hwΔ : w * Δ = A*d2 - B*d1 := by rw [hw, hden, hvc']; field_simp
  have hv0 : 0 ≤ v := by
    have : 0 ≤ v * Δ := by rw [hvΔ]; exact cvb
    exact nonneg_of_mul_nonneg_left this hΔ
  have hw0 : 0 ≤ w := by
    have : 0 ≤ w * Δ := by rw [hwΔ]; exact cvc
    exact nonneg_of_mul_nonneg_left this hΔ
  have hu0 : 0 ≤ 1 - v - w := by
    have : 0 ≤ (1 - v - w) * Δ := by
      have : (1 - v - w) * Δ = Δ - (C*d1 - B*d2) - (A*d2 - B*d1) := by rw [← hvΔ, ← hwΔ]; ring
      rw [this]; exact cva
    exact nonneg_of_mul_nonneg_left this hΔ
  have o1 : v * A + w * B = d1 := by
    have : (v * A + w * B) * Δ = d1 * Δ := by
      have : (v * A + w * B) * Δ = (v*Δ) * A + (w*Δ) * B := by ring
      rw [this, hvΔ, hwΔ, ← hΔd]; ring
    exact mul_right_cancel₀ hΔne this
  have o2 : v * B + w * C = d2 := by
    have : (v * B + w * C) * Δ = d2 * Δ := by
      have : (v * B + w * C) * Δ = (v*Δ) * B + (w*Δ) * C := by ring
      rw [this, hvΔ, hwΔ, ← hΔd]; ring
    exact mul_right_cancel₀ hΔne this
  have hbq : baryPt (⟨1 - v - w, v, w⟩ : V3 R) a b c = a + (b - a) * v + (c - a) * w := by
    apply V3.ext' <;> simp [baryPt] <;> ring
  have p1 : V3.dot (p - (a + (b - a) * v + (c - a) * w)) (b - a) = 0 := by
    have : V3.dot (p - (a + (b - a) * v + (c - a) * w)) (b - a) = d1 - (v * A + w * B) := by
      rw [hd1, ← hAd, ← hBd]
      simp only [V3.dot_def, V3.sub_x, V3.sub_y, V3.sub_z, V3.add_x, V3.add_y, V3.add_z, V3.smul_x, V3.smul_y, V3.smul_z]; ring
    rw [this, o1]; ring
  have p2 : V3.dot (p - (a + (b - a) * v + (c - a) * w)) (c - a) = 0 := by
    have : V3.dot (p - (a + (b - a) * v + (c - a) * w)) (c - a) = d2 - (v * B + w * C) := by
      rw [hd2, ← hCd, ← hBd]
      simp only [V3.dot_def, V3.sub_x, V3.sub_y, V3.sub_z, V3.add_x, V3.add_y, V3.add_z, V3.smul_x, V3.smul_y, V3.smul_z]; ring
    rw [this, o2]; ring
  refine ⟨by show 1 - v - w + v + w = 1; ring, ⟨hu0, hv0, hw0⟩, ?_, ?_, ?_, ?_⟩ <;> simp only [hbq]
  · have : V3.dot (p - (a + (b - a) * v + (c - a) * w)) (a - (a + (b - a) * v + (c - a) * w))
        = - v * V3.dot (p - (a + (b - a) * v + (c - a) * w)) (b - a) - w * V3.dot (p - (a + (b - a) * v + (c - a) * w)) (c - a) := by
      simp only [V3.dot_def, V3.sub_x, V3.sub_y, V3.sub_z, V3.add_x, V3.add_y, V3.add_z, V3.smul_x, V3.smul_y, V3.smul_z]; ring
    rw [this, p1, p2]; simp
  · have : V3.dot (p - (a + (b - a) * v + (c - a) * w)) (b - (a + (b - a) * v + (c - a) * w))
        = (1 - v) * V3.dot (p - (a + (b - a) * v + (c - a) * w)) (b - a) - w * V3.dot (p - (a + (b - a) * v + (c - a) * w)) (c - a) := by
      simp only [V3.dot_def, V3.sub_x, V3.sub_y, V3.sub_z, V3.add_x, V3.add_y, V3.add_z, V3.smul_x, V3.smul_y, V3.smul_z]; ring
    rw [this, p1, p2]; simp
  · have : V3.dot (p - (a + (b - a) * v + (c - a) * w)) (c - (a + (b - a) * v + (c - a) * w))
        = - v * V3.dot (p - (a + (b - a) * v + (c - a) * w)) (b - a) + (1 - w) * V3.dot (p - (a + (b - a) * v + (c - a) * w)) (c - a) := by
      simp only [V3.dot_def, V3.sub_x, V3.sub_y, V3.sub_z, V3.add_x, V3.add_y, V3.add_z, V3.smul_x, V3.smul_y, V3.smul_z]; ring
    rw [this, p1, p2]; simp
end regions4
end Simu
