import SimuVerif.Model.Vtk
/-
  C16 / C17 — lemmas about the reader model (Model/Vtk.lean): the ordered set, the face loop,
  the assembly of one cell, `mapE`.
-/
namespace Simu.Vtk
open Simu.Gen.Vtk

/-! ## `mapE` -/

theorem mapE_ok_of_forall {α β : Type} {f : α → Except Err β} {g : α → β} :
    ∀ {l : List α}, (∀ a ∈ l, f a = .ok (g a)) → mapE f l = .ok (l.map g)
  | [], _ => rfl
  | a :: as, h => by
    have h1 := h a (by simp)
    have h2 := mapE_ok_of_forall (f := f) (g := g) (l := as) (fun x hx => h x (by simp [hx]))
    simp [mapE, h1, h2]

theorem mapE_ok_length {α β : Type} {f : α → Except Err β} :
    ∀ {l : List α} {r : List β}, mapE f l = .ok r → r.length = l.length
  | [], r, h => by simp [mapE] at h; subst h; rfl
  | a :: as, r, h => by
    unfold mapE at h
    split at h
    · cases h
    · rename_i b hb
      split at h
      · cases h
      · rename_i bs hbs
        cases h
        simp [mapE_ok_length hbs]

/-- every element of a successful `mapE` is the image of some input -/
theorem mapE_ok_mem {α β : Type} {f : α → Except Err β} :
    ∀ {l : List α} {r : List β}, mapE f l = .ok r → ∀ b ∈ r, ∃ a ∈ l, f a = .ok b
  | [], r, h => by simp [mapE] at h; subst h; simp
  | a :: as, r, h => by
    unfold mapE at h
    split at h
    · cases h
    · rename_i b hb
      split at h
      · cases h
      · rename_i bs hbs
        cases h
        intro x hx
        rcases List.mem_cons.1 hx with rfl | hx
        · exact ⟨a, by simp, hb⟩
        · obtain ⟨y, hy, hfy⟩ := mapE_ok_mem hbs x hx
          exact ⟨y, by simp [hy], hfy⟩

/-- an error of `mapE` is an error of `f` on some element -/
theorem mapE_error {α β : Type} {f : α → Except Err β} :
    ∀ {l : List α} {e : Err}, mapE f l = .error e → ∃ a ∈ l, f a = .error e
  | [], e, h => by simp [mapE] at h
  | a :: as, e, h => by
    unfold mapE at h
    split at h
    · rename_i e' he; cases h; exact ⟨a, by simp, he⟩
    · split at h
      · rename_i e' he; cases h
        obtain ⟨x, hx, hfx⟩ := mapE_error he
        exact ⟨x, by simp [hx], hfx⟩
      · cases h

/-! ## the ordered set -/

theorem mem_setInsert {x y : Nat} : ∀ {s : List Nat}, y ∈ setInsert x s ↔ y = x ∨ y ∈ s
  | [] => by simp [setInsert]
  | z :: zs => by
    unfold setInsert
    split
    · simp
    · split
      · rename_i h1 h2; subst h2; simp
      · simp only [List.mem_cons, mem_setInsert (s := zs)]; grind

theorem pairwise_setInsert {x : Nat} : ∀ {s : List Nat}, s.Pairwise (· < ·) → (setInsert x s).Pairwise (· < ·)
  | [], _ => by simp [setInsert]
  | z :: zs, h => by
    unfold setInsert
    split
    · rename_i hlt
      refine List.Pairwise.cons ?_ h
      intro a ha
      rcases List.mem_cons.1 ha with rfl | ha
      · exact hlt
      · exact Nat.lt_trans hlt (List.rel_of_pairwise_cons h ha)
    · split
      · exact h
      · rename_i h1 h2
        have hz : z < x := by omega
        refine List.Pairwise.cons ?_ (pairwise_setInsert (List.Pairwise.of_cons h))
        intro a ha
        rcases mem_setInsert.1 ha with rfl | ha
        · exact hz
        · exact List.rel_of_pairwise_cons h ha

theorem mem_foldl_setInsert {y : Nat} : ∀ {xs s : List Nat}, y ∈ xs.foldl (fun s x => setInsert x s) s ↔ y ∈ s ∨ y ∈ xs
  | [], s => by simp
  | x :: xs, s => by
    simp only [List.foldl_cons, mem_foldl_setInsert (xs := xs), mem_setInsert, List.mem_cons]
    grind

theorem pairwise_foldl_setInsert : ∀ {xs s : List Nat}, s.Pairwise (· < ·) → (xs.foldl (fun s x => setInsert x s) s).Pairwise (· < ·)
  | [], _, h => h
  | x :: xs, s, h => by
    simp only [List.foldl_cons]
    exact pairwise_foldl_setInsert (pairwise_setInsert h)

theorem mem_setOf {y : Nat} {xs : List Nat} : y ∈ setOf xs ↔ y ∈ xs := by
  simp [setOf, mem_foldl_setInsert]

theorem pairwise_setOf {xs : List Nat} : (setOf xs).Pairwise (· < ·) :=
  pairwise_foldl_setInsert List.Pairwise.nil

/-- a strictly increasing list is determined by its elements -/
theorem eq_of_pairwise_lt_of_mem_iff : ∀ {l₁ l₂ : List Nat}, l₁.Pairwise (· < ·) → l₂.Pairwise (· < ·) →
    (∀ x, x ∈ l₁ ↔ x ∈ l₂) → l₁ = l₂
  | [], [], _, _, _ => rfl
  | [], b :: bs, _, _, h => by have := (h b).2 (by simp); simp at this
  | a :: as, [], _, _, h => by have := (h a).1 (by simp); simp at this
  | a :: as, b :: bs, h1, h2, h => by
    have hab : a = b := by
      have ha : a ∈ b :: bs := (h a).1 (by simp)
      have hb : b ∈ a :: as := (h b).2 (by simp)
      rcases List.mem_cons.1 ha with e | ha'
      · exact e
      · rcases List.mem_cons.1 hb with e | hb'
        · exact e.symm
        · have := List.rel_of_pairwise_cons h2 ha'
          have := List.rel_of_pairwise_cons h1 hb'
          omega
    subst hab
    have : as = bs := by
      apply eq_of_pairwise_lt_of_mem_iff (List.Pairwise.of_cons h1) (List.Pairwise.of_cons h2)
      intro x
      constructor
      · intro hx
        have := (h x).1 (by simp [hx])
        rcases List.mem_cons.1 this with e | hx'
        · subst e; have := List.rel_of_pairwise_cons h1 hx; omega
        · exact hx'
      · intro hx
        have := (h x).2 (by simp [hx])
        rcases List.mem_cons.1 this with e | hx'
        · subst e; have := List.rel_of_pairwise_cons h2 hx; omega
        · exact hx'
    rw [this]

/-- the set of the node ids of a cell whose faces use exactly the ids `off … off+n-1` -/
theorem setOf_eq_range' {xs : List Nat} {off n : Nat} (hin : ∀ x ∈ xs, off ≤ x ∧ x < off + n)
    (hcov : ∀ i, off ≤ i → i < off + n → i ∈ xs) : setOf xs = List.range' off n := by
  apply eq_of_pairwise_lt_of_mem_iff pairwise_setOf List.pairwise_lt_range'
  intro x
  rw [mem_setOf, List.mem_range'_1]
  constructor
  · intro hx; exact hin x hx
  · intro ⟨h1, h2⟩; exact hcov x h1 h2

/-! ## the face loop -/

theorem faceLoop_flatMap : ∀ (faces : List (List Nat)), faceLoop (faces.flatMap (fun f => f.length :: f)) = .ok faces
  | [] => by simp [faceLoop]
  | f :: fs => by
    have ih := faceLoop_flatMap fs
    simp only [List.flatMap_cons, List.cons_append]
    rw [faceLoop]
    simp [ih]

/-- whatever the face loop returns, the faces partition the data that follows their arities -/
theorem faceLoop_ok_flatMap : ∀ {data : List Nat} {fs : List (List Nat)}, faceLoop data = .ok fs →
    data = fs.flatMap (fun f => f.length :: f)
  | [], fs, h => by rw [faceLoop] at h; cases h; rfl
  | nb :: tail, fs, h => by
    rw [faceLoop] at h
    split at h
    · cases h
    · rename_i hlt
      split at h
      · rename_i fs' hfs'
        cases h
        have ih := faceLoop_ok_flatMap hfs'
        have hlen : (tail.take nb).length = nb := by simp; omega
        simp only [List.flatMap_cons, hlen, List.cons_append, ← ih, List.take_append_drop]
      · cases h
termination_by data => data.length
decreasing_by simp; omega

/-! ## positions and local ids -/

theorem flatMap_range'_take3 {R : Type} : ∀ (n off : Nat) (pre mid post : List R), pre.length = off * 3 → mid.length = n * 3 →
    (List.range' off n).flatMap (fun g => ((pre ++ mid ++ post).drop (g * 3)).take 3) = mid
  | 0, _, _, mid, _, _, hm => by
    have : mid = [] := List.length_eq_zero_iff.1 (by omega)
    simp [this]
  | n + 1, off, pre, mid, post, hp, hm => by
    match mid, hm with
    | a :: b :: c :: mid', hm =>
      have ih := flatMap_range'_take3 n (off + 1) (pre ++ [a, b, c]) mid' post (by simp; omega) (by simp at hm; omega)
      simp only [List.range'_succ, List.flatMap_cons]
      have h1 : ((pre ++ (a :: b :: c :: mid') ++ post).drop (off * 3)).take 3 = [a, b, c] := by
        rw [List.append_assoc, List.drop_append_of_le_length (by omega), ← hp]
        simp
      rw [h1]
      have h2 : pre ++ (a :: b :: c :: mid') ++ post = pre ++ [a, b, c] ++ mid' ++ post := by simp
      rw [h2, ih]
      rfl
    | [], hm => simp at hm
    | [_], hm => simp at hm; omega
    | [_, _], hm => simp at hm; omega

theorem idxOf_range'_add : ∀ (n off i : Nat), i < n → (List.range' off n).idxOf (i + off) = i
  | 0, _, _, h => by omega
  | n + 1, off, i, h => by
    rw [List.range'_succ, List.idxOf_cons]
    cases i with
    | zero => simp
    | succ j =>
      have : (off == j + 1 + off) = false := by simp
      rw [this]
      have ih := idxOf_range'_add n (off + 1) j (by omega)
      have e : j + 1 + off = j + (off + 1) := by omega
      simp [e, ih]

/-- `get_cell_mesh` on the line of one cell whose faces use every local node id `0 … n-1`: the global ids
    `off + i` come back as `i`, the positions are the `n` points starting at point `off` -/
theorem cellMesh_ok {R : Type} (pre mid post : List R) (off n : Nat) (faces : List (List Nat))
    (hpre : pre.length = off * 3) (hmid : mid.length = n * 3)
    (hin : ∀ f ∈ faces, ∀ i ∈ f, i < n) (hcov : ∀ i, i < n → ∃ f ∈ faces, i ∈ f) :
    cellMesh (pre ++ mid ++ post) (faces.length :: faces.flatMap (fun f => f.length :: f.map (· + off)))
      = .ok ⟨mid, faces⟩ := by
  have hfl : faces.flatMap (fun f => f.length :: f.map (· + off)) = (faces.map (fun f => f.map (· + off))).flatMap (fun f => f.length :: f) := by
    simp [List.flatMap_map]
  have hused : setOf (faces.map (fun f => f.map (· + off))).flatten = List.range' off n := by
    apply setOf_eq_range'
    · intro x hx
      simp only [List.mem_flatten, List.mem_map] at hx
      obtain ⟨l, ⟨f, hf, rfl⟩, hx⟩ := hx
      obtain ⟨i, hi, rfl⟩ := List.mem_map.1 hx
      have := hin f hf i hi
      omega
    · intro i h1 h2
      obtain ⟨f, hf, hi⟩ := hcov (i - off) (by omega)
      simp only [List.mem_flatten, List.mem_map]
      exact ⟨f.map (· + off), ⟨f, hf, rfl⟩, List.mem_map.2 ⟨i - off, hi, by omega⟩⟩
  unfold cellMesh
  simp only [hfl, faceLoop_flatMap, List.length_map, ne_eq, not_true_eq_false, ↓reduceIte, hused]
  have hany : (List.range' off n).any (fun g => decide ((pre ++ mid ++ post).length / 3 ≤ g)) = false := by
    rw [List.any_eq_false]
    intro g hg
    have := (List.mem_range'_1.1 hg).2
    simp only [List.length_append, decide_eq_true_eq]
    omega
  rw [hany]
  simp only [Bool.false_eq_true, ↓reduceIte, Except.ok.injEq, Mesh.mk.injEq]
  refine ⟨flatMap_range'_take3 n off pre mid post hpre hmid, ?_⟩
  rw [List.map_map]
  conv => rhs; rw [← List.map_id faces]
  apply List.map_congr_left
  intro f hf
  simp only [Function.comp, List.map_map, id]
  conv => rhs; rw [← List.map_id f]
  apply List.map_congr_left
  intro i hi
  simp only [Function.comp, id]
  exact idxOf_range'_add n off i (hin f hf i hi)

end Simu.Vtk
