import SimuVerif.Lemmas.C09_Glue
/-
  C09 — `remove_index`, the partition of the surface faces between the daughters, node renumbering by `rebase`
  and the bookkeeping of `cell_divider::run` (ids, counter, survivors).
-/
namespace Simu.Division
open Simu Simu.Surface

/-! ### remove_index -/

theorem removeIdx_sublist {α : Type} (l : List α) (idx : List Nat) : (removeIdx l idx).Sublist l := by
  unfold removeIdx
  have h : ((l.zipIdx.filter (fun q => !idx.contains q.2)).map (·.1)).Sublist (l.zipIdx.map (·.1)) :=
    List.Sublist.map _ List.filter_sublist
  rwa [List.zipIdx_map_fst] at h

/-- removing the positions at which `p` holds keeps exactly the elements at which it does not, in order -/
theorem removeIdx_filter {α : Type} (l : List α) (p : α → Bool) (q : Nat → Bool)
    (hq : ∀ i t, l[i]? = some t → q i = p t) :
    removeIdx l ((List.range l.length).filter q) = l.filter (fun t => !p t) := by
  unfold removeIdx
  have hc : ∀ x ∈ l.zipIdx, (!((List.range l.length).filter q).contains x.2) = (fun x : α × Nat => !p x.1) x := by
    intro x hx
    have hx' := List.mem_zipIdx_iff_getElem?.1 hx
    have hlt : x.2 < l.length := by
      by_contra hge
      rw [List.getElem?_eq_none (Nat.le_of_not_lt hge)] at hx'
      cases hx'
    congr 1
    rw [Bool.eq_iff_iff, List.contains_iff_mem, List.mem_filter, List.mem_range]
    simp only [hq _ _ hx', hlt, true_and]
  rw [List.filter_congr hc]
  have : l.zipIdx.filter (fun x : α × Nat => !p x.1) = l.zipIdx.filter ((fun t => !p t) ∘ Prod.fst) := rfl
  rw [this, ← List.filter_map, List.zipIdx_map_fst]

/-! ### the partition of the surface faces -/

theorem sideIdx_eq (S : List Tri) (side : Tri → Bool) (v : Bool) :
    removeIdx S (sideIdx S side v) = S.filter (fun t => !(side t == v)) := by
  unfold sideIdx
  exact removeIdx_filter S (fun t => side t == v) _ (fun i t h => by simp only [h])

/-- **every surface face goes to exactly one daughter**: daughter 1 keeps the faces whose side test is false, daughter 2
    those whose side test is true (`Gen.Division.removeFromD1WhenSide` read from the source), each in its original order -/
theorem split_surface_eq (S : List Tri) (side : Tri → Bool) :
    splitSurface S side = (S.filter (fun t => !side t), S.filter side) := by
  unfold splitSurface
  rw [sideIdx_eq, sideIdx_eq]
  simp only [Gen.Division.removeFromD1WhenSide, Bool.not_true]
  congr 1
  · apply List.filter_congr; intro t _; cases side t <;> rfl
  · apply List.filter_congr; intro t _; cases side t <;> rfl

theorem split_surface_perm (S : List Tri) (side : Tri → Bool) :
    ((splitSurface S side).1 ++ (splitSurface S side).2).Perm S := by
  rw [split_surface_eq]
  exact (List.perm_append_comm).trans (List.filter_append_perm side S)

theorem wind_op (D : List Tri) :
    D.map (windTri Gen.Division.windD1) = opT (D.map (windTri Gen.Division.windD2)) := by
  unfold opT
  rw [List.map_map]
  apply List.map_congr_left
  intro t _
  obtain ⟨a, b, c⟩ := t
  rfl

theorem wind_id (D : List Tri) : D.map (windTri Gen.Division.windD2) = D := by
  have : ∀ t : Tri, windTri Gen.Division.windD2 t = t := by
    intro t; obtain ⟨a, b, c⟩ := t; rfl
  calc D.map (windTri Gen.Division.windD2) = D.map id := List.map_congr_left (fun t _ => this t)
    _ = D := List.map_id _

/-! ### rebase: node ids become ranks -/

theorem mem_vertices_iff (T : List Tri) (x : Nat) : x ∈ Surface.vertices T ↔ x ∈ vertsF T := by
  unfold Surface.vertices vertsF
  rw [List.mem_eraseDups, List.mem_toFinset]

theorem rank_lt {T : List Tri} {x y : Nat} (hx : x ∈ Surface.vertices T) (hxy : x < y) : rank T x < rank T y := by
  unfold rank
  have hsub : ((Surface.vertices T).filter (· < x)).Sublist ((Surface.vertices T).filter (· < y)) :=
    List.monotone_filter_right _ (fun a ha => by simp only [decide_eq_true_eq] at ha ⊢; omega)
  rcases Nat.lt_or_ge ((Surface.vertices T).filter (· < x)).length ((Surface.vertices T).filter (· < y)).length with h | h
  · exact h
  · exfalso
    have := hsub.eq_of_length_le h
    have hm : x ∈ (Surface.vertices T).filter (· < y) := List.mem_filter.2 ⟨hx, by simpa using hxy⟩
    rw [← this] at hm
    have := (List.mem_filter.1 hm).2
    simp at this

/-- the renumbering of `rebase` is injective on the nodes in use -/
theorem rank_injOn (T : List Tri) : Set.InjOn (rank T) (vertsF T : Set Nat) := by
  intro x hx y hy hxy
  have hx' := (mem_vertices_iff T x).2 (by simpa using hx)
  have hy' := (mem_vertices_iff T y).2 (by simpa using hy)
  rcases Nat.lt_trichotomy x y with h | h | h
  · exact absurd hxy (Nat.ne_of_lt (rank_lt hx' h))
  · exact h
  · exact absurd hxy.symm (Nat.ne_of_lt (rank_lt hy' h))

theorem rebaseT_eq (T : List Tri) : rebaseT T = renameT (rank T) T := rfl

/-! ### cell_divider::run -/
section run
variable {R : Type} [Div R] [Lit R]

def stepCell (outcome : Nat → PCell R → Option (List Tri × List Tri)) (i : Nat) (c : PCell R) : PCell R :=
  if c.ready then (match outcome i (rebaseC c) with | some _ => clearC (rebaseC c) | none => rebaseC c) else c

def succeeds (outcome : Nat → PCell R → Option (List Tri × List Tri)) (i : Nat) (c : PCell R) : Bool :=
  c.ready && (outcome i (rebaseC c)).isSome

theorem stepCell_id (outcome : Nat → PCell R → Option (List Tri × List Tri)) (i : Nat) (c : PCell R) :
    (stepCell outcome i c).id = c.id := by
  unfold stepCell
  split
  · split <;> rfl
  · rfl

theorem stepCell_some {outcome : Nat → PCell R → Option (List Tri × List Tri)} {i : Nat} {c : PCell R} {s : List Tri × List Tri}
    (hr : c.ready = true) (ho : outcome i (rebaseC c) = some s) : stepCell outcome i c = clearC (rebaseC c) := by
  unfold stepCell; rw [if_pos hr, ho]

theorem stepCell_none {outcome : Nat → PCell R → Option (List Tri × List Tri)} {i : Nat} {c : PCell R}
    (hr : c.ready = true) (ho : outcome i (rebaseC c) = none) : stepCell outcome i c = rebaseC c := by
  unfold stepCell; rw [if_pos hr, ho]

theorem stepCell_idle {outcome : Nat → PCell R → Option (List Tri × List Tri)} {i : Nat} {c : PCell R}
    (hr : ¬ c.ready = true) : stepCell outcome i c = c := by
  unfold stepCell; rw [if_neg hr]

/-- the cells left in place by the loop, and the positions of the mothers that divided -/
theorem runLoop_cells (outcome : Nat → PCell R → Option (List Tri × List Tri)) :
    ∀ (pop : List (PCell R)) (i ctr : Nat),
      (runLoop outcome pop i ctr).1 = (pop.zipIdx i).map (fun q => stepCell outcome q.2 q.1) ∧
      (runLoop outcome pop i ctr).2.1 = ((pop.zipIdx i).filter (fun q => succeeds outcome q.2 q.1)).map (·.2) := by
  intro pop
  induction pop with
  | nil => intro i ctr; exact ⟨rfl, rfl⟩
  | cons c cs ih =>
    intro i ctr
    rw [List.zipIdx_cons, List.map_cons, List.filter_cons]
    unfold runLoop
    by_cases hr : c.ready = true
    · rw [if_pos hr]
      cases ho : outcome i (rebaseC c) with
      | none =>
        have hs : succeeds outcome i c = false := by simp [succeeds, hr, ho]
        simp only [hs, Bool.false_eq_true, if_false, ho]
        rw [stepCell_none hr ho]
        exact ⟨congrArg _ (ih (i + 1) ctr).1, (ih (i + 1) ctr).2⟩
      | some s =>
        obtain ⟨s1, s2⟩ := s
        have hs : succeeds outcome i c = true := by simp [succeeds, hr, ho]
        simp only [hs, if_true, List.map_cons, ho]
        rw [stepCell_some hr ho]
        exact ⟨congrArg _ (ih (i + 1) _).1, congrArg _ (ih (i + 1) _).2⟩
    · rw [if_neg hr]
      have hs : succeeds outcome i c = false := by simp [succeeds, hr]
      simp only [hs, Bool.false_eq_true, if_false]
      rw [stepCell_idle hr]
      exact ⟨congrArg _ (ih (i + 1) ctr).1, (ih (i + 1) ctr).2⟩

/-- **fresh ids**: the daughters created by a round receive the ids `ctr, ctr+1, …` in order, two per successful
    division, and the counter ends just above them (`Gen.Division.idAssign` read from the source) -/
theorem runLoop_ids (outcome : Nat → PCell R → Option (List Tri × List Tri)) :
    ∀ (pop : List (PCell R)) (i ctr : Nat),
      let r := runLoop outcome pop i ctr
      r.2.2.1.map (·.id) = List.range' ctr (2 * r.2.1.length) ∧ r.2.2.2 = ctr + 2 * r.2.1.length := by
  intro pop
  induction pop with
  | nil => intro i ctr; simp [runLoop]
  | cons c cs ih =>
    intro i ctr
    unfold runLoop
    by_cases hr : c.ready
    · simp only [hr, if_true]
      cases ho : outcome i (rebaseC c) with
      | none => exact ih (i + 1) ctr
      | some s =>
        obtain ⟨s1, s2⟩ := s
        simp only [Gen.Division.idAssign, List.map_cons, List.length_cons]
        obtain ⟨h1, h2⟩ := ih (i + 1) (ctr + 2)
        refine ⟨?_, ?_⟩
        · rw [h1]
          have : 2 * ((runLoop outcome cs (i + 1) (ctr + 2)).2.1.length + 1) = (2 * (runLoop outcome cs (i + 1) (ctr + 2)).2.1.length) + 1 + 1 := by ring
          rw [this, List.range'_succ, List.range'_succ]
          rfl
        · rw [h2]; ring
    · simp only [hr, Bool.false_eq_true, if_false]
      exact ih (i + 1) ctr

theorem runLoop_fail (outcome : Nat → PCell R → Option (List Tri × List Tri)) (hf : ∀ i c, outcome i c = none) :
    ∀ (pop : List (PCell R)) (i ctr : Nat),
      runLoop outcome pop i ctr = (pop.map (fun c => if c.ready then rebaseC c else c), [], [], ctr) := by
  intro pop
  induction pop with
  | nil => intro i ctr; rfl
  | cons c cs ih =>
    intro i ctr
    unfold runLoop
    by_cases hr : c.ready
    · simp only [hr, if_true, hf, ih, List.map_cons]
    · simp only [hr, Bool.false_eq_true, if_false, ih, List.map_cons]

theorem renumber_ids (l : List (PCell R)) : (renumber l).map (·.id) = l.map (·.id) := by
  unfold renumber
  rw [List.map_map]
  have : ((fun c : PCell R => c.id) ∘ fun q : PCell R × Nat => { q.1 with lid := q.2 }) = (fun c : PCell R => c.id) ∘ Prod.fst := rfl
  rw [this, ← List.map_map, List.zipIdx_map_fst]

theorem renumber_lids (l : List (PCell R)) : (renumber l).map (·.lid) = List.range l.length := by
  unfold renumber
  rw [List.map_map]
  have : ((fun c : PCell R => c.lid) ∘ fun q : PCell R × Nat => { q.1 with lid := q.2 }) = Prod.snd := rfl
  rw [this, List.zipIdx_map_snd]
  simp [List.range_eq_range']

theorem mem_renumber {l : List (PCell R)} {x : PCell R} (hx : x ∈ l) :
    ∃ y ∈ renumber l, y.id = x.id ∧ y.kind = x.kind ∧ y.target = x.target ∧ y.surf = x.surf ∧ y.tag = x.tag := by
  obtain ⟨k, hk⟩ := List.mem_iff_getElem?.1 hx
  refine ⟨{ x with lid := k }, ?_, rfl, rfl, rfl, rfl, rfl⟩
  unfold renumber
  exact List.mem_map.2 ⟨(x, k), List.mem_zipIdx_iff_getElem?.2 hk, rfl⟩

theorem mem_removeIdx {α : Type} {l : List α} {idx : List Nat} {x : α} {j : Nat} (h : l[j]? = some x) (hj : j ∉ idx) :
    x ∈ removeIdx l idx := by
  unfold removeIdx
  refine List.mem_map.2 ⟨(x, j), List.mem_filter.2 ⟨List.mem_zipIdx_iff_getElem?.2 h, ?_⟩, rfl⟩
  simp [List.contains_iff_mem, hj]

/-- ids of all cells after the loop, before the mothers are removed: the old ids followed by the fresh ones -/
theorem runLoop_all_ids (outcome : Nat → PCell R → Option (List Tri × List Tri)) (pop : List (PCell R)) (i ctr : Nat) :
    ((runLoop outcome pop i ctr).1 ++ (runLoop outcome pop i ctr).2.2.1).map (·.id)
      = pop.map (·.id) ++ List.range' ctr (2 * (runLoop outcome pop i ctr).2.1.length) := by
  rw [List.map_append, (runLoop_ids outcome pop i ctr).1, (runLoop_cells outcome pop i ctr).1, List.map_map]
  congr 1
  have : ((fun c : PCell R => c.id) ∘ fun q : PCell R × Nat => stepCell outcome q.2 q.1) = (fun c : PCell R => c.id) ∘ Prod.fst := by
    funext q; exact stepCell_id outcome q.2 q.1
  rw [this, ← List.map_map, List.zipIdx_map_fst]

/-- the id invariant of the population: ids pairwise different and all below the counter -/
def IdInv (l : List (PCell R)) (ctr : Nat) : Prop := (l.map (·.id)).Nodup ∧ ∀ x ∈ l, x.id < ctr

theorem idInv_all (outcome : Nat → PCell R → Option (List Tri × List Tri)) (pop : List (PCell R)) (ctr : Nat)
    (h : IdInv pop ctr) :
    IdInv ((runLoop outcome pop 0 ctr).1 ++ (runLoop outcome pop 0 ctr).2.2.1) (runLoop outcome pop 0 ctr).2.2.2 := by
  have hall := runLoop_all_ids outcome pop 0 ctr
  have hc := (runLoop_ids outcome pop 0 ctr).2
  refine ⟨?_, ?_⟩
  · rw [hall, List.nodup_append]
    refine ⟨h.1, List.nodup_range' (h := by omega), ?_⟩
    intro a ha b hb hab
    obtain ⟨x, hx, rfl⟩ := List.mem_map.1 ha
    have := h.2 x hx
    have := (List.mem_range'_1.1 hb).1
    omega
  · intro x hx
    have hm : x.id ∈ ((runLoop outcome pop 0 ctr).1 ++ (runLoop outcome pop 0 ctr).2.2.1).map (·.id) :=
      List.mem_map.2 ⟨x, hx, rfl⟩
    rw [hall, List.mem_append] at hm
    rw [hc]
    rcases hm with hm | hm
    · obtain ⟨y, hy, hxy⟩ := List.mem_map.1 hm
      have := h.2 y hy
      omega
    · have := (List.mem_range'_1.1 hm).2
      omega

theorem idInv_sublist {l l' : List (PCell R)} {ctr : Nat} (h : IdInv l ctr) (hs : l'.Sublist l) : IdInv l' ctr :=
  ⟨(hs.map _).nodup h.1, fun x hx => h.2 x (hs.subset hx)⟩

theorem idInv_renumber {l : List (PCell R)} {ctr : Nat} (h : IdInv l ctr) : IdInv (renumber l) ctr := by
  refine ⟨by rw [renumber_ids]; exact h.1, ?_⟩
  intro x hx
  have : x.id ∈ (renumber l).map (·.id) := List.mem_map.2 ⟨x, hx, rfl⟩
  rw [renumber_ids] at this
  obtain ⟨y, hy, hxy⟩ := List.mem_map.1 this
  have := h.2 y hy
  omega

end run
end Simu.Division
