import SimuVerif.Properties.C14
import SimuVerif.Model.CouplingPass
import SimuVerif.Model.Integrator
/-
  C14 (tissue) — the two in-place passes over the population that are modelled on lists of lists
  (`Coupling.pass`: symmetrisation + midpoints of `resolve_all_contacts`; `Integ.step`: `update_nodes_positions`)
  commute with a translation of every node position.
-/
namespace Simu.C14T
open Simu

set_option linter.unusedSectionVars false
variable {R : Type} [Field R] [LinearOrder R] [IsStrictOrderedRing R]

/-! ### lists of lists -/
section ll
variable {α β : Type}

theorem get_map (f : α → β) (p : List (List α)) (q : Nat × Nat) :
    Coupling.get (p.map (List.map f)) q = (Coupling.get p q).map f := by
  unfold Coupling.get
  rw [List.getElem?_map]
  cases p[q.1]? with
  | none => rfl
  | some l => simp only [Option.map_some, List.getElem?_map]

theorem set_map (f : α → β) (p : List (List α)) (q : Nat × Nat) (x : α) :
    Coupling.set (p.map (List.map f)) q (f x) = (Coupling.set p q x).map (List.map f) := by
  unfold Coupling.set
  rw [List.getElem?_map]
  cases p[q.1]? with
  | none => rfl
  | some l => simp only [Option.map_some, List.map_set]

theorem slots_map (f : α → β) (p : List (List α)) : Coupling.slots (p.map (List.map f)) = Coupling.slots p := by
  unfold Coupling.slots
  simp only [List.map_map, Function.comp_def, List.length_map]

theorem foldlM_option_map {σ τ ι : Type} (g : σ → τ) (f : σ → ι → Option σ) (f' : τ → ι → Option τ)
    (h : ∀ s i, f' (g s) i = (f s i).map g) (l : List ι) (s : σ) :
    l.foldlM f' (g s) = (l.foldlM f s).map g := by
  induction l generalizing s with
  | nil => rfl
  | cons a l ih =>
    simp only [List.foldlM_cons, h]
    cases f s a with
    | none => rfl
    | some s' => simpa using ih s'

theorem foldl_map_comm {σ τ ι : Type} (g : σ → τ) (f : σ → ι → σ) (f' : τ → ι → τ)
    (h : ∀ s i, f' (g s) i = g (f s i)) (l : List ι) (s : σ) :
    l.foldl f' (g s) = g (l.foldl f s) := by
  induction l generalizing s with
  | nil => rfl
  | cons a l ih => simp only [List.foldl_cons, h, ih]

theorem foldl_congr_mem {σ ι : Type} (f f' : σ → ι → σ) (l : List ι) (h : ∀ i ∈ l, ∀ s, f' s i = f s i) (s : σ) :
    l.foldl f' s = l.foldl f s := by
  induction l generalizing s with
  | nil => rfl
  | cons a l ih =>
    simp only [List.foldl_cons]
    rw [h a (List.mem_cons_self ..), ih (fun i hi => h i (List.mem_cons_of_mem _ hi))]
end ll

/-! ### the tail loops of the contact search -/

/-- a node of `Coupling.Pop` placed `t` further -/
def trN (t : V3 R) (n : Coupling.CNode R) : Coupling.CNode R := { n with pos := n.pos + t }
def trPop (t : V3 R) (p : Coupling.Pop R) : Coupling.Pop R := p.map (List.map (trN t))

theorem symStep_tr (t : V3 R) (p : Coupling.Pop R) (k : Coupling.Slot) :
    Coupling.symStep (trPop t p) k = (Coupling.symStep p k).map (trPop t) := by
  unfold Coupling.symStep trPop
  rw [get_map]
  cases Coupling.get p k with
  | none => rfl
  | some n1 =>
    simp only [Option.map_some]
    have hu : (trN t n1).used = n1.used := rfl
    have hc : (trN t n1).coup = n1.coup := rfl
    rw [hu, hc]
    cases n1.used with
    | false => rfl
    | true =>
      simp only [if_true]
      cases n1.coup with
      | none => rfl
      | some j =>
        simp only
        rw [get_map]
        cases Coupling.get p j with
        | none => rfl
        | some n2 =>
          simp only [Option.map_some]
          have hc2 : (trN t n2).coup = n2.coup := rfl
          rw [hc2]
          by_cases h : n2.coup = some k
          · simp only [h, if_true, Option.map_some]
          · simp only [h, if_false, Option.map_some]
            show some (Coupling.set (List.map (List.map (trN t)) p) k (trN t ⟨true, none, n1.pos⟩)) = _
            rw [set_map]

theorem half_eq : (Coupling.half : R) = 1 / 2 := by
  unfold Coupling.half; rw [lit_one, lit_two]

theorem mid_tr (a b t : V3 R) : ((a + t) + (b + t)) * (Coupling.half : R) = (a + b) * (Coupling.half : R) + t := by
  rw [half_eq]
  apply V3.ext' <;> simp only [V3.add_x, V3.add_y, V3.add_z, V3.smul_x, V3.smul_y, V3.smul_z] <;> ring

theorem midStep_tr (t : V3 R) (p : Coupling.Pop R) (k : Coupling.Slot) :
    Coupling.midStep (trPop t p) k = (Coupling.midStep p k).map (trPop t) := by
  unfold Coupling.midStep trPop
  rw [get_map]
  cases Coupling.get p k with
  | none => rfl
  | some n1 =>
    simp only [Option.map_some]
    have hu : (trN t n1).used = n1.used := rfl
    have hc : (trN t n1).coup = n1.coup := rfl
    rw [hu, hc]
    cases n1.used with
    | false => rfl
    | true =>
      simp only [if_true]
      cases n1.coup with
      | none => rfl
      | some j =>
        simp only
        by_cases hj : j.1 < k.1
        · simp only [hj, if_true]
          rw [get_map]
          cases Coupling.get p j with
          | none => rfl
          | some n2 =>
            simp only [Option.map_some]
            have hp1 : (trN t n1).pos = n1.pos + t := rfl
            have hp2 : (trN t n2).pos = n2.pos + t := rfl
            rw [hp1, hp2, mid_tr]
            show some (Coupling.set (Coupling.set (List.map (List.map (trN t)) p) k
                (trN t ⟨true, some j, (n1.pos + n2.pos) * (Coupling.half : R)⟩)) j
                (trN t ⟨n2.used, n2.coup, (n1.pos + n2.pos) * (Coupling.half : R)⟩)) = _
            rw [set_map, set_map]
        · simp only [hj, if_false, Option.map_some]

/-- **the symmetrisation and midpoint loops commute with the translation** (midpoints are shifted by `t`) -/
theorem pass_tr (t : V3 R) (p : Coupling.Pop R) : Coupling.pass (trPop t p) = (Coupling.pass p).map (trPop t) := by
  unfold Coupling.pass Coupling.symmetrise Coupling.midpoints
  have hs : Coupling.slots (trPop t p) = Coupling.slots p := slots_map _ _
  rw [hs, foldlM_option_map (trPop t) Coupling.symStep Coupling.symStep (symStep_tr t)]
  cases (Coupling.slots p).foldlM Coupling.symStep p with
  | none => rfl
  | some p' =>
    simp only [Option.map_some, Option.bind_some]
    have hs' : Coupling.slots (trPop t p') = Coupling.slots p' := slots_map _ _
    rw [hs', foldlM_option_map (trPop t) Coupling.midStep Coupling.midStep (midStep_tr t)]

/-! ### update_nodes_positions -/

def trDyn (t : V3 R) (x : Integ.Dyn R) : Integ.Dyn R := { x with pos := x.pos + t }
def trD (t : V3 R) (d : Integ.DynS R) : Integ.DynS R := d.map (List.map (trDyn t))

theorem getD_tr (t : V3 R) (d : Integ.DynS R) (q : Integ.Slot) : Integ.getD (trD t d) q = (Integ.getD d q).map (trDyn t) := by
  unfold Integ.getD trD
  rw [List.getElem?_map]
  cases d[q.1]? with
  | none => rfl
  | some l => simp only [Option.map_some, List.getElem?_map]

theorem setD_tr (t : V3 R) (d : Integ.DynS R) (q : Integ.Slot) (x : Integ.Dyn R) :
    Integ.setD (trD t d) q (trDyn t x) = trD t (Integ.setD d q x) := by
  unfold Integ.setD trD
  rw [List.getElem?_map]
  cases d[q.1]? with
  | none => rfl
  | some l => simp only [Option.map_some, List.map_set]

theorem single_tr (dt damping m : R) (x : Integ.Dyn R) (t : V3 R) :
    Integ.single .nodeNode .semiImplicit dt damping m (trDyn t x) = trDyn t (Integ.single .nodeNode .semiImplicit dt damping m x) := by
  simp only [Integ.single, Integ.ofT, trDyn, C14.single10_translate]

theorem pairF_tr (dt damping m1 m2 : R) (x1 x2 : Integ.Dyn R) (t : V3 R) :
    Integ.pairF .semiImplicit dt damping m1 m2 (trDyn t x1) (trDyn t x2)
      = (trDyn t (Integ.pairF .semiImplicit dt damping m1 m2 x1 x2).1, trDyn t (Integ.pairF .semiImplicit dt damping m1 m2 x1 x2).2) := by
  simp only [Integ.pairF, Integ.ofT, trDyn, C14.pair10_translate]

theorem nodeStep_tr (topo : List (Integ.CellT R)) (dt damping : R) (t : V3 R) (d : Integ.DynS R) (k : Integ.Slot) :
    Integ.nodeStep .nodeNode .semiImplicit topo dt damping (trD t d) k
      = trD t (Integ.nodeStep .nodeNode .semiImplicit topo dt damping d k) := by
  unfold Integ.nodeStep
  cases h : Integ.plan .nodeNode topo k with
  | skip => rfl
  | single m1 =>
    simp only [Integ.exec, getD_tr]
    cases Integ.getD d k with
    | none => rfl
    | some x => simp only [Option.map_some, single_tr, setD_tr]
  | pair m1 m2 p =>
    simp only [Integ.exec, getD_tr]
    cases Integ.getD d k with
    | none => rfl
    | some x1 =>
      cases Integ.getD d p with
      | none => rfl
      | some x2 => simp only [Option.map_some, pairF_tr, setD_tr]
  | multi m1 ps =>
    -- never produced by `plan .nodeNode`
    exfalso
    unfold Integ.plan at h
    repeat' split at h
    all_goals (try cases h)
    all_goals contradiction

end Simu.C14T
