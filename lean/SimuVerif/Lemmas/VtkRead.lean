import SimuVerif.Lemmas.Vtk
/-
  C17 — what a successful run of each stage of the reader model guarantees (inversion lemmas).
-/
namespace Simu.Vtk
open Simu.Gen.Vtk
variable {R : Type}

theorem length_flatMap_take3 (pos : List R) : ∀ (used : List Nat), (∀ g ∈ used, g * 3 + 3 ≤ pos.length) →
    (used.flatMap (fun g => (pos.drop (g * 3)).take 3)).length = used.length * 3
  | [], _ => rfl
  | g :: gs, h => by
    have hg := h g (by simp)
    have ih := length_flatMap_take3 pos gs (fun x hx => h x (by simp [hx]))
    simp only [List.flatMap_cons, List.length_append, List.length_take, List.length_drop, ih, List.length_cons]
    omega

/-- a cell that `get_cell_mesh` accepts: its line is `#faces` followed by faces of the announced
    arities, every global node id addresses three existing coordinates, the local ids are the ranks in
    the ordered set of the used global ids, and three coordinates were copied per used id -/
theorem cellMesh_ok_inv {pos : List R} {cell : List Nat} {m : Mesh R} (h : cellMesh pos cell = .ok m) :
    ∃ faces : List (List Nat), cell = faces.length :: faces.flatMap (fun f => f.length :: f)
      ∧ (∀ f ∈ faces, ∀ g ∈ f, g * 3 + 3 ≤ pos.length)
      ∧ m.faces = faces.map (fun f => f.map (fun g => (setOf faces.flatten).idxOf g))
      ∧ m.pos.length = (setOf faces.flatten).length * 3 := by
  unfold cellMesh at h
  split at h
  · cases h
  · rename_i nbFaces data
    split at h
    · cases h
    · rename_i faces hfl
      split at h
      · cases h
      · rename_i hlen
        simp only at h
        split at h
        · cases h
        · rename_i hany
          cases h
          have hlen' : faces.length = nbFaces := by simpa using hlen
          have hb : ∀ g ∈ setOf faces.flatten, g * 3 + 3 ≤ pos.length := by
            intro g hg
            have hall : ∀ x ∈ setOf faces.flatten, x < pos.length / 3 := by simpa using hany
            have := hall g hg
            omega
          refine ⟨faces, ?_, ?_, rfl, length_flatMap_take3 pos _ hb⟩
          · rw [hlen', ← faceLoop_ok_flatMap hfl]
          · intro f hf g hg
            exact hb g (mem_setOf.2 (List.mem_flatten.2 ⟨f, hf, hg⟩))

theorem getNodePos_ok_inv {P : NumSem R} {raw : Raw} {pos : List R} (h : getNodePos P raw = .ok pos) :
    ∃ nb ty nums, raw.points = some (nb, ty, nums) ∧ nb ≤ intMax ∧ rCoordTypes.contains ty = true
      ∧ pos.length = nums.length ∧ pos.length / 3 = nb ∧ (∀ x ∈ pos, P.finite x = true) := by
  unfold getNodePos at h
  split at h
  · cases h
  · rename_i nb ty nums hp
    split at h
    · cases h
    · rename_i nbNodes hst
      split at h
      · cases h
      · rename_i hty
        split at h
        · cases h
        · rename_i ps hps
          split at h
          · cases h
          · rename_i hcount
            cases h
            have hnb : nb ≤ intMax ∧ nbNodes = nb := by
              unfold stoi at hst; split at hst
              · cases hst; exact ⟨by assumption, rfl⟩
              · cases hst
            refine ⟨nb, ty, nums, hp, hnb.1, by simpa using hty, mapE_ok_length hps, ?_, ?_⟩
            · rw [← hnb.2]; simpa using hcount
            · intro x hx
              obtain ⟨t, _, ht⟩ := mapE_ok_mem hps x hx
              unfold convCoord at ht
              split at ht
              · cases ht
              · cases ht
              · split at ht
                · cases ht; assumption
                · cases ht

theorem stoi_ok_inv {n v : Nat} (h : stoi n = .ok v) : v = n ∧ n ≤ intMax := by
  unfold stoi at h; split at h
  · cases h; exact ⟨rfl, by assumption⟩
  · cases h

theorem mapE_stoi_inv : ∀ {l r : List Nat}, mapE stoi l = .ok r → r = l ∧ ∀ x ∈ l, x ≤ intMax
  | [], r, h => by simp [mapE] at h; subst h; simp
  | a :: as, r, h => by
    unfold mapE at h
    split at h
    · cases h
    · rename_i b hb
      split at h
      · cases h
      · rename_i bs hbs
        cases h
        obtain ⟨e1, e2⟩ := stoi_ok_inv hb
        obtain ⟨e3, e4⟩ := mapE_stoi_inv hbs
        subst e1 e3
        exact ⟨rfl, by intro x hx; rcases List.mem_cons.1 hx with rfl | hx; exact e2; exact e4 x hx⟩

theorem convLine_ok_inv {l : CellLine} {ints : List Nat} (h : convLine l = .ok ints) :
    ints = l.ints ∧ l.lead = some l.ints.length ∧ ∀ x ∈ l.ints, x ≤ intMax := by
  unfold convLine at h
  split at h
  · cases h
  · rename_i lead hl
    split at h
    · cases h
    · rename_i nbData hst
      split at h
      · cases h
      · rename_i is his
        split at h
        · cases h
        · rename_i hc
          cases h
          obtain ⟨e1, e2⟩ := mapE_stoi_inv his
          obtain ⟨e3, _⟩ := stoi_ok_inv hst
          subst e1 e3
          exact ⟨rfl, by rw [hl]; simpa using hc, e2⟩

/-- `mapE f l = ok r`: the results in order -/
theorem mapE_ok_eq_map {α β : Type} {f : α → Except Err β} {g : α → β} :
    ∀ {l : List α} {r : List β}, mapE f l = .ok r → (∀ a b, f a = .ok b → b = g a) → r = l.map g
  | [], r, h, _ => by simp [mapE] at h; subst h; rfl
  | a :: as, r, h, hg => by
    unfold mapE at h
    split at h
    · cases h
    · rename_i b hb
      split at h
      · cases h
      · rename_i bs hbs
        cases h
        rw [List.map_cons, ← hg a b hb, ← mapE_ok_eq_map hbs hg]

theorem readCellFaces_ok_inv {raw : Raw} {conn : List (List Nat)} (h : readCellFaces raw = .ok conn) :
    ∃ nc ts lines, raw.cellTypes = some (nc, ts) ∧ nc ≤ intMax ∧ ts.length = nc ∧ (∀ t ∈ ts, t = rPolyType)
      ∧ raw.cells = some (some lines) ∧ conn = lines.map (fun l => l.ints)
      ∧ ∀ l ∈ lines, l.lead = some l.ints.length ∧ ∀ x ∈ l.ints, x ≤ intMax := by
  unfold readCellFaces at h
  split at h
  · cases h
  · rename_i nc ts hct
    split at h
    · cases h
    · rename_i nbCells hst
      split at h
      · cases h
      · rename_i us hus
        split at h
        · cases h
        · rename_i hcount
          split at h
          · cases h
          · cases h
          · rename_i lines hl
            obtain ⟨e1, e2⟩ := stoi_ok_inv hst
            refine ⟨nc, ts, lines, hct, e2, by rw [← e1]; simpa using hcount, ?_, hl, ?_, ?_⟩
            · intro t ht
              have : ∀ (l : List Nat) (r : List Unit), mapE checkType l = .ok r → ∀ t ∈ l, t = rPolyType := by
                intro l
                induction l with
                | nil => intro r _ t ht; simp at ht
                | cons a as ih =>
                  intro r hr t ht
                  unfold mapE at hr
                  split at hr
                  · cases hr
                  · rename_i b hb
                    split at hr
                    · cases hr
                    · rename_i bs hbs
                      rcases List.mem_cons.1 ht with rfl | ht
                      · unfold checkType at hb
                        split at hb
                        · cases hb
                        · rename_i v hv
                          obtain ⟨e, _⟩ := stoi_ok_inv hv
                          subst e
                          split at hb
                          · cases hb
                          · rename_i hne; simpa using hne
                      · exact ih bs hbs t ht
              exact this ts us hus t ht
            · exact mapE_ok_eq_map h (fun a b hab => (convLine_ok_inv hab).1)
            · intro l hl'
              have : ∀ (ls : List CellLine) (r : List (List Nat)), mapE convLine ls = .ok r → ∀ l ∈ ls, l.lead = some l.ints.length ∧ ∀ x ∈ l.ints, x ≤ intMax := by
                intro ls
                induction ls with
                | nil => intro r _ l hl; simp at hl
                | cons a as ih =>
                  intro r hr l hl
                  unfold mapE at hr
                  split at hr
                  · cases hr
                  · rename_i b hb
                    split at hr
                    · cases hr
                    · rename_i bs hbs
                      rcases List.mem_cons.1 hl with rfl | hl
                      · exact (convLine_ok_inv hb).2
                      · exact ih bs hbs l hl
              exact this lines conn h l hl'

theorem getCellTypes_ok_inv {raw : Raw} {tys : List Int} (h : getCellTypes raw = .ok tys) :
    ∃ ids, raw.typeIds = some ids ∧ tys = ids.map toShort ∧ ∀ x ∈ ids, x ≤ intMax := by
  unfold getCellTypes at h
  split at h
  · cases h
  · rename_i ids hi
    split at h
    · cases h
    · rename_i vs hvs
      cases h
      obtain ⟨e1, e2⟩ := mapE_stoi_inv hvs
      subst e1
      exact ⟨_, hi, rfl, e2⟩

theorem toShort_range (n : Nat) : -32768 ≤ toShort n ∧ toShort n ≤ 32767 := by
  unfold toShort
  have h1 : (n + 32768) % 65536 < 65536 := Nat.mod_lt _ (by decide)
  have h2 : Int.ofNat ((n + 32768) % 65536) = (((n + 32768) % 65536 : Nat) : Int) := rfl
  rw [h2]
  constructor <;> omega

end Simu.Vtk
