import Mathlib.Tactic.Ring
import Mathlib.Tactic.Linarith
import Mathlib.Tactic.Positivity
import Mathlib.Tactic.FieldSimp
import Mathlib.Algebra.Order.Field.Basic
/-
  Scalar core of the point-triangle kernel: once the six vertex/edge tests of the code have
  failed, the plane coordinates (s,t) of the projection satisfy 0 ≤ s, 0 ≤ t, s+t ≤ 1, i.e. the
  fall-through branch really is the interior of the triangle.
  A=|ab|², B=ab·ac, C=|ac|²; d1 = sA+tB, d2 = sB+tC.
-/
namespace Simu.KernelCore
variable {R : Type} [Field R] [LinearOrder R] [IsStrictOrderedRing R]


theorem interior_t_nonneg (A B C s t : R) (hA : 0 < A) (hC : 0 < C) (hΔ : 0 < A*C - B*B)
    (r1 : ¬ (s*A + t*B ≤ 0 ∧ s*B + t*C ≤ 0))
    (r2 : ¬ (0 ≤ s*A + t*B - A ∧ s*B + t*C - B ≤ s*A + t*B - A))
    (r3 : ¬ (t*(A*C - B*B) ≤ 0 ∧ 0 ≤ s*A + t*B ∧ s*A + t*B - A ≤ 0))
    (r4 : ¬ (0 ≤ s*B + t*C - C ∧ s*A + t*B - B ≤ s*B + t*C - C))
    (r5 : ¬ (s*(A*C - B*B) ≤ 0 ∧ 0 ≤ s*B + t*C ∧ s*B + t*C - C ≤ 0))
    (r6 : ¬ ((1 - s - t)*(A*C - B*B) ≤ 0 ∧ 0 ≤ (s*B + t*C - B) - (s*A + t*B - A) ∧
             0 ≤ (s*A + t*B - B) - (s*B + t*C - C))) :
    0 ≤ t := by
  by_contra ht
  have ht : t < 0 := not_le.mp ht
  set d1 := s*A + t*B with hd1
  set d2 := s*B + t*C with hd2
  set Δ := A*C - B*B with hΔd
  have hvc : t*Δ ≤ 0 := by nlinarith
  have key : A*d2 - B*d1 = t*Δ := by simp only [hd1, hd2, hΔd]; ring
  have key2 : C*d1 - B*d2 = s*Δ := by simp only [hd1, hd2, hΔd]; ring
  have htΔ : t*Δ < 0 := by nlinarith
  -- not R3
  have h3 : d1 < 0 ∨ 0 < d1 - A := by
    by_contra h
    push Not at h
    exact r3 ⟨hvc, h.1, h.2⟩
  rcases h3 with h1 | h3
  · -- d1 < 0
    have h2 : 0 < d2 := by
      by_contra h; push Not at h; exact r1 ⟨le_of_lt h1, h⟩
    have hB : B < 0 := by
      by_contra hB; push Not at hB
      nlinarith [mul_pos hA h2, mul_nonneg hB (le_of_lt (neg_pos.mpr h1))]
    have h5 : 0 < s*Δ ∨ 0 < d2 - C := by
      by_contra h; push Not at h
      exact r5 ⟨h.1, le_of_lt h2, h.2⟩
    rcases h5 with hs | h6
    · -- s > 0
      have hs' : 0 < s := by
        by_contra h; push Not at h; nlinarith
      nlinarith [mul_pos hs' hA, mul_pos_of_neg_of_neg ht hB]
    · -- d2 > C
      have hd1B : d1 < B := by
        by_contra h; push Not at h
        -- B ≤ d1 < 0, B<0  ⇒ B*d1 ≤ B*B ; but B*d1 > A*d2 > A*C > B*B
        nlinarith [mul_le_mul_of_nonpos_left h (le_of_lt hB), mul_pos hA h6]
      exact r4 ⟨le_of_lt h6, by linarith⟩
  · -- d3 > 0 : X = d1 - A > 0
    have h4 : d1 - A < d2 - B := by
      by_contra h; push Not at h; exact r2 ⟨le_of_lt h3, h⟩
    -- A*Y < B*X where Y = d2 - B, X = d1 - A
    have hAY : A*(d2 - B) < B*(d1 - A) := by nlinarith
    have hBA : A < B := by
      by_contra h; push Not at h
      nlinarith [mul_le_mul_of_nonneg_right h (le_of_lt h3), mul_lt_mul_of_pos_left h4 hA]
    have hB : 0 < B := lt_trans hA hBA
    have hCB : B < C := by nlinarith
    have h6 : 0 < (1 - s - t)*Δ ∨ (d1 - B) - (d2 - C) < 0 := by
      by_contra h; push Not at h
      exact r6 ⟨h.1, by linarith, h.2⟩
    rcases h6 with hva | h56
    · -- u + t < 0 where u = s - 1
      have hut : s - 1 + t < 0 := by
        by_contra h; push Not at h; nlinarith
      -- Y = (s-1)*B + t*C > 0
      have hY : 0 < (s-1)*B + t*C := by
        have : d2 - B = (s-1)*B + t*C := by simp only [hd2]; ring
        linarith
      nlinarith [mul_pos hB (neg_pos.mpr ht)]
    · -- d5 < d6
      have h6' : d2 - C < 0 := by
        by_contra h; push Not at h
        exact r4 ⟨h, by linarith⟩
      -- contradiction with Δ > 0
      nlinarith [mul_pos hA hB, mul_pos hB hB]


/-- beyond edge BC (s+t>1) with the BC-edge test failing on its first inequality is impossible
    once the vertex/edge tests R1..R5 have failed -/
theorem beyond_bc_case1 (A B C s t : R) (hA : 0 < A) (hΔ : 0 < A*C - B*B)
    (r1 : ¬ (s*A + t*B ≤ 0 ∧ s*B + t*C ≤ 0))
    (r2 : ¬ (0 ≤ s*A + t*B - A ∧ s*B + t*C - B ≤ s*A + t*B - A))
    (r3 : ¬ (t*(A*C - B*B) ≤ 0 ∧ 0 ≤ s*A + t*B ∧ s*A + t*B - A ≤ 0))
    (r4 : ¬ (0 ≤ s*B + t*C - C ∧ s*A + t*B - B ≤ s*B + t*C - C))
    (r5 : ¬ (s*(A*C - B*B) ≤ 0 ∧ 0 ≤ s*B + t*C ∧ s*B + t*C - C ≤ 0))
    (hst : 1 < s + t)
    (h : (s*B + t*C - B) - (s*A + t*B - A) < 0) : False := by
  set d1 := s*A + t*B with hd1
  set d2 := s*B + t*C with hd2
  set Δ := A*C - B*B with hΔd
  have key : A*d2 - B*d1 = t*Δ := by simp only [hd1, hd2, hΔd]; ring
  have key2 : C*d1 - B*d2 = s*Δ := by simp only [hd1, hd2, hΔd]; ring
  -- X = d1 - A < 0 from not R2
  have hX : d1 - A < 0 := by
    by_contra hx; push Not at hx
    exact r2 ⟨hx, by linarith⟩
  have hY : d2 - B < d1 - A := by linarith
  have hC : 0 < C := by
    by_contra hc; push Not at hc
    nlinarith [mul_nonneg (le_of_lt hA) (neg_nonneg.mpr hc), mul_self_nonneg B]
  have hsum : (C - B)*(d1 - A) + (A - B)*(d2 - B) = (s - 1 + t)*Δ := by
    simp only [hd1, hd2, hΔd]; ring
  have hpos : 0 < (s - 1 + t)*Δ := mul_pos (by linarith) hΔ
  rcases le_or_gt B A with hBA | hBA
  · -- A - B ≥ 0
    have hbc : 0 < A + C - 2*B := by nlinarith [sq_nonneg (A - B), sq_nonneg (C - B), sq_nonneg (A - C)]
    nlinarith [mul_le_mul_of_nonneg_left (le_of_lt hY) (sub_nonneg.mpr hBA), mul_neg_of_pos_of_neg hbc hX]
  · -- B > A > 0
    have hB : 0 < B := lt_trans hA hBA
    have h3 : 0 < t*Δ ∨ d1 < 0 := by
      by_contra hh; push Not at hh
      exact r3 ⟨hh.1, hh.2, le_of_lt hX⟩
    rcases h3 with ht | hd1neg
    · -- t > 0 and (if d1 ≥ 0) contradiction ; if d1 < 0 handled below as well
      have ht' : 0 < t := by
        by_contra hh; push Not at hh; nlinarith
      rcases lt_or_ge d1 0 with hd1neg | hd1nn
      · -- d1 < 0
        have h2 : 0 < d2 := by
          by_contra hh; push Not at hh; exact r1 ⟨le_of_lt hd1neg, hh⟩
        have hs : s*Δ < 0 := by nlinarith [mul_pos hC (neg_pos.mpr hd1neg), mul_pos hB h2]
        have h6 : 0 < d2 - C := by
          by_contra hh; push Not at hh
          exact r5 ⟨le_of_lt hs, le_of_lt h2, hh⟩
        exact r4 ⟨le_of_lt h6, by linarith⟩
      · -- 0 ≤ d1 < A : (s-1)A + tB < 0, t > 1 - s
        have hu : (s - 1)*A + t*B < 0 := by
          have : d1 - A = (s-1)*A + t*B := by simp only [hd1]; ring
          linarith
        nlinarith [mul_pos ht' (sub_pos.mpr hBA), mul_pos hA (by linarith : (0:R) < t - (1 - s))]
    · -- d1 < 0
      have h2 : 0 < d2 := by
        by_contra hh; push Not at hh; exact r1 ⟨le_of_lt hd1neg, hh⟩
      have hs : s*Δ < 0 := by nlinarith [mul_pos hC (neg_pos.mpr hd1neg), mul_pos hB h2]
      have h6 : 0 < d2 - C := by
        by_contra hh; push Not at hh
        exact r5 ⟨le_of_lt hs, le_of_lt h2, hh⟩
      exact r4 ⟨le_of_lt h6, by linarith⟩


theorem interior_s_nonneg (A B C s t : R) (hA : 0 < A) (hC : 0 < C) (hΔ : 0 < A*C - B*B)
    (r1 : ¬ (s*A + t*B ≤ 0 ∧ s*B + t*C ≤ 0))
    (r2 : ¬ (0 ≤ s*A + t*B - A ∧ s*B + t*C - B ≤ s*A + t*B - A))
    (r3 : ¬ (t*(A*C - B*B) ≤ 0 ∧ 0 ≤ s*A + t*B ∧ s*A + t*B - A ≤ 0))
    (r4 : ¬ (0 ≤ s*B + t*C - C ∧ s*A + t*B - B ≤ s*B + t*C - C))
    (r5 : ¬ (s*(A*C - B*B) ≤ 0 ∧ 0 ≤ s*B + t*C ∧ s*B + t*C - C ≤ 0))
    (r6 : ¬ ((1 - s - t)*(A*C - B*B) ≤ 0 ∧ 0 ≤ (s*B + t*C - B) - (s*A + t*B - A) ∧
             0 ≤ (s*A + t*B - B) - (s*B + t*C - C))) :
    0 ≤ s := by
  have e : C*A - B*B = A*C - B*B := by ring
  refine interior_t_nonneg C B A t s hC hA (by rw [e]; exact hΔ) ?_ ?_ ?_ ?_ ?_ ?_
  · intro h; exact r1 ⟨by linarith [h.2], by linarith [h.1]⟩
  · intro h; exact r4 ⟨by linarith [h.1], by linarith [h.2]⟩
  · intro h; rw [e] at h; exact r5 ⟨h.1, by linarith [h.2.1], by linarith [h.2.2]⟩
  · intro h; exact r2 ⟨by linarith [h.1], by linarith [h.2]⟩
  · intro h; rw [e] at h; exact r3 ⟨h.1, by linarith [h.2.1], by linarith [h.2.2]⟩
  · intro h; rw [e] at h
    exact r6 ⟨by nlinarith [h.1], by linarith [h.2.2], by linarith [h.2.1]⟩

theorem interior_sum_le_one (A B C s t : R) (hA : 0 < A) (hC : 0 < C) (hΔ : 0 < A*C - B*B)
    (r1 : ¬ (s*A + t*B ≤ 0 ∧ s*B + t*C ≤ 0))
    (r2 : ¬ (0 ≤ s*A + t*B - A ∧ s*B + t*C - B ≤ s*A + t*B - A))
    (r3 : ¬ (t*(A*C - B*B) ≤ 0 ∧ 0 ≤ s*A + t*B ∧ s*A + t*B - A ≤ 0))
    (r4 : ¬ (0 ≤ s*B + t*C - C ∧ s*A + t*B - B ≤ s*B + t*C - C))
    (r5 : ¬ (s*(A*C - B*B) ≤ 0 ∧ 0 ≤ s*B + t*C ∧ s*B + t*C - C ≤ 0))
    (r6 : ¬ ((1 - s - t)*(A*C - B*B) ≤ 0 ∧ 0 ≤ (s*B + t*C - B) - (s*A + t*B - A) ∧
             0 ≤ (s*A + t*B - B) - (s*B + t*C - C))) :
    s + t ≤ 1 := by
  by_contra hst
  have hst : 1 < s + t := not_le.mp hst
  have hva : (1 - s - t)*(A*C - B*B) ≤ 0 := by nlinarith
  have h6 : (s*B + t*C - B) - (s*A + t*B - A) < 0 ∨ (s*A + t*B - B) - (s*B + t*C - C) < 0 := by
    by_contra hh; push Not at hh
    exact r6 ⟨hva, hh.1, hh.2⟩
  have e : C*A - B*B = A*C - B*B := by ring
  rcases h6 with h | h
  · exact beyond_bc_case1 A B C s t hA hΔ r1 r2 r3 r4 r5 hst h
  · refine beyond_bc_case1 C B A t s hC (by rw [e]; exact hΔ) ?_ ?_ ?_ ?_ ?_ (by linarith) (by linarith)
    · intro h'; exact r1 ⟨by linarith [h'.2], by linarith [h'.1]⟩
    · intro h'; exact r4 ⟨by linarith [h'.1], by linarith [h'.2]⟩
    · intro h'; rw [e] at h'; exact r5 ⟨h'.1, by linarith [h'.2.1], by linarith [h'.2.2]⟩
    · intro h'; exact r2 ⟨by linarith [h'.1], by linarith [h'.2]⟩
    · intro h'; rw [e] at h'; exact r3 ⟨h'.1, by linarith [h'.2.1], by linarith [h'.2.2]⟩

end Simu.KernelCore
