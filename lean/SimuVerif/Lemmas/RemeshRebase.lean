import SimuVerif.Lemmas.RemeshPassLive
/-
  **`rebase_preserves`**: `cell::rebase` (compaction of the released face and node slots + `generate_edge_set`) keeps the
  invariants `CellOk`, and the live triangles afterwards are those before with the node ids renamed by a map that is
  injective on the nodes of the surface (`C01.rename_inv`, `rename_chi`, `rename_vmc` apply).
-/
set_option linter.unusedSectionVars false
set_option linter.unusedVariables false
set_option linter.unusedSimpArgs false
namespace Simu.Remesh
open Simu Simu.Surface
open Simu.C11 (bind_ok newSlot)

/-! ## 1. lists -/

theorem filter_zipIdx_fst {α : Type} (q : Nat → Bool) (P : α → Bool) :
    ∀ (l : List α) (k : Nat), (∀ i (hi : i < l.length), q (k + i) = P l[i]) →
      ((l.zipIdx k).filter (fun p => q p.2)).map (·.1) = l.filter P
  | [], _, _ => rfl
  | x :: xs, k, h => by
    have h0 : q k = P x := h 0 (by simp)
    have ih := filter_zipIdx_fst q P xs (k + 1) (fun i hi => by
      have := h (i + 1) (by simp; omega)
      simpa [Nat.add_assoc, Nat.add_comm 1 i] using this)
    simp only [List.zipIdx_cons, List.filter_cons, h0]
    cases hp : P x with
    | true => simp only [if_true, List.map_cons, ih]
    | false => simp only [Bool.false_eq_true, if_false, ih]

theorem filter_zipIdx_snd {α : Type} (q : Nat → Bool) :
    ∀ (l : List α) (k : Nat), ((l.zipIdx k).filter (fun p => q p.2)).map (·.2) = (List.range' k l.length).filter q
  | [], _ => rfl
  | x :: xs, k => by
    have ih := filter_zipIdx_snd q xs (k + 1)
    simp only [List.zipIdx_cons, List.filter_cons, List.length_cons, List.range'_succ]
    cases hq : q k with
    | true => simp only [if_true, List.map_cons, ih]
    | false => simp only [Bool.false_eq_true, if_false, ih]

theorem filterMap_filter_of {α β : Type} (P : α → Bool) (f : α → Option β) (h : ∀ x, P x = false → f x = none) :
    ∀ l : List α, (l.filter P).filterMap f = l.filterMap f
  | [] => rfl
  | x :: xs => by
    have ih := filterMap_filter_of P f h xs
    cases hp : P x with
    | true => simp only [List.filter_cons, hp, if_true, List.filterMap_cons, ih]
    | false => simp only [List.filter_cons, hp, Bool.false_eq_true, if_false, List.filterMap_cons, h x hp, ih]

theorem range'_filter_nodup (q : Nat → Bool) (k n : Nat) : ((List.range' k n).filter q).Nodup :=
  (List.nodup_range' (step := 1) (by omega)).filter _

theorem mem_range'_filter {q : Nat → Bool} {k n i : Nat} :
    i ∈ (List.range' k n).filter q ↔ (k ≤ i ∧ i < k + n ∧ q i = true) := by
  rw [List.mem_filter, List.mem_range'_1]
  tauto

section
variable {R : Type} [Add R] [Sub R] [Mul R] [Div R] [Neg R] [Lit R] [LT R] [LE R] [DecidableLT R]
  [DecidableLE R] [DecidableEq R]

/-! ## 2. `rebase` in closed form -/

def rebFaces0 (c : Cell R) : Array (Face R) :=
  if c.freeFaces.isEmpty then c.faces else
    (c.faces.toList.zipIdx.filter (fun p => !c.freeFaces.contains p.2)).map (·.1) |>.toArray

/-- the ids of the kept node slots, in increasing order -/
def rebIds (c : Cell R) : List Nat := (c.nodes.toList.zipIdx.filter (fun p => !c.freeNodes.contains p.2)).map (·.2)

/-- the renumbering (`std::map::operator[]` gives 0 for a missing key) -/
def rebRho (c : Cell R) (o : Nat) : Nat := if (rebIds c).contains o then (rebIds c).idxOf o else 0

def renFace (ρ : Nat → Nat) (f : Face R) : Face R := { f with n1 := ρ f.n1, n2 := ρ f.n2, n3 := ρ f.n3 }

/-- the cell after the renumbering, before the edge set is regenerated -/
def rebCell (c : Cell R) : Cell R :=
  if c.freeNodes.isEmpty then { c with faces := rebFaces0 c, freeFaces := [] } else
    { c with faces := (rebFaces0 c).map (renFace (rebRho c)), freeFaces := [], freeNodes := [],
             nodes := ((c.nodes.toList.zipIdx.filter (fun p => !c.freeNodes.contains p.2)).map (·.1)).toArray }

/-- one face of `generate_edge_set` -/
def genStep (s : EdgeSet) (p : Face R × Nat) : Except Err EdgeSet := do
  let f := p.1
  let (s1, _, _) := EdgeSet.insert s (Edge.mk' f.n1 f.n2)
  let (s2, _, _) := EdgeSet.insert s1 (Edge.mk' f.n2 f.n3)
  let (s3, _, _) := EdgeSet.insert s2 (Edge.mk' f.n3 f.n1)
  let s4 ← edgeAddFace s3 f.n1 f.n2 p.2
  let s5 ← edgeAddFace s4 f.n2 f.n3 p.2
  edgeAddFace s5 f.n3 f.n1 p.2

theorem rebase_eq (c : Cell R) : rebase c =
    if (c.freeFaces.isEmpty && c.freeNodes.isEmpty) = true then .ok c
    else ((rebCell c).faces.toList.zipIdx.foldlM genStep []).map (fun s => { rebCell c with edges := s }) := by
  unfold rebase rebCell rebFaces0 rebRho rebIds renFace
  by_cases hN : c.freeNodes.isEmpty = true
  · by_cases hF : c.freeFaces.isEmpty = true
    · simp only [hN, hF, Bool.and_self, Bool.not_true, Bool.false_eq_true, if_false, if_true]
      have : c.freeFaces = [] := List.isEmpty_iff.1 hF
      show Except.ok _ = Except.ok _
      congr 1
      cases c
      simp only at this
      subst this
      rfl
    · simp only [hN, hF, Bool.false_eq_true, if_false, if_true, Bool.false_and, Bool.not_false]
      rfl
  · simp only [hN, Bool.and_false, Bool.not_false, Bool.false_eq_true, if_false, if_true]
    rfl

/-! ## 3. the faces and the nodes after the compaction -/

theorem rebFaces0_toList {c : Cell R} (hf : FaceFreeOk c) (hF : FreeFull c) :
    (rebFaces0 c).toList = c.faces.toList.filter (fun f => f.used) := by
  have key : ∀ i (hi : i < c.faces.toList.length), (!c.freeFaces.contains i) = (c.faces.toList[i]).used := by
    intro i hi
    have hget : c.faces[i]? = some (c.faces.toList[i]) := by
      rw [← Array.getElem?_toList]; exact List.getElem?_eq_getElem hi
    cases hu : (c.faces.toList[i]).used with
    | true =>
      simp only [Bool.not_eq_true', List.contains_eq_mem, decide_eq_false_iff_not]
      intro hm
      obtain ⟨f, hf', hfu⟩ := hf.free i hm
      rw [hget] at hf'; cases hf'
      rw [hu] at hfu; cases hfu
    | false =>
      simp only [Bool.not_eq_false', List.contains_eq_mem, decide_eq_true_eq]
      exact hF i (slot_none_iff.2 ⟨_, hget, hu⟩)
  unfold rebFaces0
  by_cases he : c.freeFaces.isEmpty = true
  · rw [if_pos he]
    have : c.freeFaces = [] := List.isEmpty_iff.1 he
    symm
    rw [List.filter_eq_self]
    intro f hm
    obtain ⟨i, hi, rfl⟩ := List.getElem_of_mem hm
    rw [← key i hi, this]; rfl
  · rw [if_neg he, List.toList_toArray]
    exact filter_zipIdx_fst (fun i => !c.freeFaces.contains i) (fun f : Face R => f.used) _ 0
      (fun i hi => by rw [Nat.zero_add]; exact key i hi)

/-- `abs` as a function of the face array -/
def absA (fs : Array (Face R)) : List Tri :=
  fs.toList.filterMap (fun f => if f.used then some (f.n1, f.n2, f.n3) else none)

theorem abs_eq_absA (c : Cell R) : abs c = absA c.faces := rfl

theorem absA_of_toList {fs gs : Array (Face R)} (h : gs.toList = fs.toList.filter (fun f => f.used)) :
    absA gs = absA fs := by
  unfold absA
  rw [h]
  exact filterMap_filter_of _ _ (fun f hu => by simp [hu]) _

theorem absA_map_renFace (ρ : Nat → Nat) (fs : Array (Face R)) :
    absA (fs.map (renFace ρ)) = renameT ρ (absA fs) := by
  unfold absA renameT
  simp only [Array.toList_map, List.filterMap_map, List.map_filterMap]
  apply List.filterMap_congr
  intro f _
  simp only [Function.comp, renFace]
  by_cases hu : f.used = true
  · simp only [hu, if_true, Option.map_some]
  · simp only [hu, if_false, Option.map_none, Bool.false_eq_true]

/-! ## 4. `generate_edge_set` -/

/-- the six index operations for one face (the proof of `addFace_idxP`, for an arbitrary edge set) -/
theorem faceEdges_idx {P : Nat → Nat → Prop} {s s4 s5 s6 : EdgeSet} {a b d fid : Nat} (hI : IdxP P s)
    (hn : ∀ k, ¬ P fid k) (hab : a ≠ b) (hbd : b ≠ d) (hda : d ≠ a)
    (h4 : edgeAddFace (EdgeSet.insert (EdgeSet.insert (EdgeSet.insert s (Edge.mk' a b)).1 (Edge.mk' b d)).1
      (Edge.mk' d a)).1 a b fid = .ok s4) (h5 : edgeAddFace s4 b d fid = .ok s5) (h6 : edgeAddFace s5 d a fid = .ok s6) :
    IdxP (fun g k => P g k ∨ (g = fid ∧ k ∈ sideKeys (a, b, d))) s6 := by
  have E3 := insertEmpty_idx d a (insertEmpty_idx b d (insertEmpty_idx a b hI.toE))
  have k12 : Edge.keyOf b d ≠ Edge.keyOf a b := by
    intro hh; rcases Edge.keyOf_eq_iff.1 hh with ⟨h1, h2⟩ | ⟨h1, h2⟩ <;> omega
  have k13 : Edge.keyOf d a ≠ Edge.keyOf a b := by
    intro hh; rcases Edge.keyOf_eq_iff.1 hh with ⟨h1, h2⟩ | ⟨h1, h2⟩ <;> omega
  have k23 : Edge.keyOf d a ≠ Edge.keyOf b d := by
    intro hh; rcases Edge.keyOf_eq_iff.1 hh with ⟨h1, h2⟩ | ⟨h1, h2⟩ <;> omega
  have F4 := edgeAddFace_idxE E3 h4 (hn _)
  have F5 := edgeAddFace_idxE F4 h5 (by rintro (hh | ⟨_, hh⟩); exact hn _ hh; exact k12 hh)
  have F6 := edgeAddFace_idxE F5 h6 (by
    rintro ((hh | ⟨_, hh⟩) | ⟨_, hh⟩)
    · exact hn _ hh
    · exact k13 hh
    · exact k23 hh)
  refine (F6.toP ?_).congr ?_
  · rintro k ⟨⟨⟨((hf | hh) | hh) | hh, n1⟩, n2⟩, n3⟩
    · exact hf
    · exact n1 hh
    · exact n2 hh
    · exact n3 hh
  · intro g k
    simp only [sideKeys, List.mem_cons, List.not_mem_nil, or_false]
    constructor
    · rintro (((hh | ⟨rfl, hh⟩) | ⟨rfl, hh⟩) | ⟨rfl, hh⟩)
      · exact Or.inl hh
      · exact Or.inr ⟨rfl, Or.inl hh⟩
      · exact Or.inr ⟨rfl, Or.inr (Or.inl hh)⟩
      · exact Or.inr ⟨rfl, Or.inr (Or.inr hh)⟩
    · rintro (hh | ⟨rfl, hh | hh | hh⟩)
      · exact Or.inl (Or.inl (Or.inl hh))
      · exact Or.inl (Or.inl (Or.inr ⟨rfl, hh⟩))
      · exact Or.inl (Or.inr ⟨rfl, hh⟩)
      · exact Or.inr ⟨rfl, hh⟩

theorem genStep_idx {P : Nat → Nat → Prop} {s s' : EdgeSet} {f : Face R} {fid : Nat} (hI : IdxP P s)
    (hn : ∀ k, ¬ P fid k) (h1 : f.n1 ≠ f.n2) (h2 : f.n2 ≠ f.n3) (h3 : f.n3 ≠ f.n1)
    (h : genStep s (f, fid) = .ok s') :
    IdxP (fun g k => P g k ∨ (g = fid ∧ k ∈ sideKeys (f.n1, f.n2, f.n3))) s' := by
  unfold genStep at h
  simp only [] at h
  obtain ⟨s4, h4, h⟩ := bind_ok h
  obtain ⟨s5, h5, h6⟩ := bind_ok h
  exact faceEdges_idx hI hn h1 h2 h3 h4 h5 h6

theorem gen_idx : ∀ (l : List (Face R)) (k : Nat) (P : Nat → Nat → Prop) (s s' : EdgeSet), IdxP P s →
    (∀ g q, k ≤ g → ¬ P g q) → (∀ f ∈ l, f.n1 ≠ f.n2 ∧ f.n2 ≠ f.n3 ∧ f.n3 ≠ f.n1) →
    (l.zipIdx k).foldlM genStep s = .ok s' →
    IdxP (fun g q => P g q ∨ (k ≤ g ∧ ∃ f, l[g - k]? = some f ∧ q ∈ sideKeys (f.n1, f.n2, f.n3))) s'
  | [], k, P, s, s', hI, _, _, h => by
    simp only [List.zipIdx_nil, List.foldlM_nil] at h
    cases h
    refine hI.congr (fun g q => ?_)
    simp
  | x :: xs, k, P, s, s', hI, hP, hd, h => by
    rw [List.zipIdx_cons, List.foldlM_cons] at h
    obtain ⟨s1, h1, h⟩ := bind_ok h
    obtain ⟨d1, d2, d3⟩ := hd x List.mem_cons_self
    have I1 := genStep_idx hI (fun q => hP k q (Nat.le_refl _)) d1 d2 d3 h1
    have ih := gen_idx xs (k + 1) _ s1 s' I1 (fun g q hg => by
      rintro (hh | ⟨rfl, _⟩)
      · exact hP g q (by omega) hh
      · omega) (fun f hf => hd f (List.mem_cons_of_mem _ hf)) h
    refine ih.congr (fun g q => ?_)
    constructor
    · rintro ((hh | ⟨rfl, hh⟩) | ⟨hg, f, hf, hq⟩)
      · exact Or.inl hh
      · exact Or.inr ⟨Nat.le_refl _, x, by simp, hh⟩
      · refine Or.inr ⟨by omega, f, ?_, hq⟩
        have : g - k = (g - (k + 1)) + 1 := by omega
        rw [this, List.getElem?_cons_succ]; exact hf
    · rintro (hh | ⟨hg, f, hf, hq⟩)
      · exact Or.inl (Or.inl hh)
      · by_cases hgk : g = k
        · subst hgk
          simp only [Nat.sub_self, List.getElem?_cons_zero, Option.some.injEq] at hf
          subst hf
          exact Or.inl (Or.inr ⟨rfl, hq⟩)
        · refine Or.inr ⟨by omega, f, ?_, hq⟩
          have : g - k = (g - (k + 1)) + 1 := by omega
          rw [this, List.getElem?_cons_succ] at hf; exact hf

/-- the regenerated edge set of a face list in which every face is used and has three different nodes -/
theorem gen_complete {c : Cell R} {s : EdgeSet} (hu : ∀ f ∈ c.faces.toList, f.used = true)
    (hd : ∀ f ∈ c.faces.toList, f.n1 ≠ f.n2 ∧ f.n2 ≠ f.n3 ∧ f.n3 ≠ f.n1)
    (h : c.faces.toList.zipIdx.foldlM genStep [] = .ok s) : EdgeIdxComplete ({ c with edges := s } : Cell R) := by
  have I0 : IdxP (fun _ _ => False) ([] : EdgeSet) := ⟨EdgeSet.sorted_nil, fun k => by
    rw [EdgeSet.find?_nil]; exact fun g hg => hg⟩
  have := gen_idx c.faces.toList 0 _ [] s I0 (fun g q _ hh => hh) hd h
  refine this.congr (fun g q => ?_)
  show _ ↔ SideK (slots c) g q
  unfold SideK slots
  rw [slotsA_get]
  simp only [false_or, Nat.zero_le, true_and, Nat.sub_zero, Array.getElem?_toList]
  constructor
  · rintro ⟨f, hf, hq⟩
    have hm : f ∈ c.faces.toList := by
      rw [← Array.getElem?_toList] at hf; exact List.mem_of_getElem? hf
    refine ⟨(f.n1, f.n2, f.n3), ?_, hq⟩
    rw [hf]; simp [triOf, hu f hm]
  · rintro ⟨t, ht, hq⟩
    cases hf : c.faces[g]? with
    | none => rw [hf] at ht; cases ht
    | some f =>
      have hm : f ∈ c.faces.toList := by
        rw [← Array.getElem?_toList] at hf; exact List.mem_of_getElem? hf
      rw [hf] at ht
      simp only [Option.map_some, triOf, hu f hm, if_true, Option.some.injEq] at ht
      subst ht
      exact ⟨f, rfl, hq⟩

/-! ## 5. the renumbered cell -/

theorem rebIds_eq (c : Cell R) :
    rebIds c = (List.range' 0 c.nodes.size).filter (fun i => !c.freeNodes.contains i) := by
  unfold rebIds
  rw [filter_zipIdx_snd (fun i => !c.freeNodes.contains i)]
  simp

theorem usedN_toList {c : Cell R} {i : Nat} (hi : i < c.nodes.toList.length) : usedN c i = (c.nodes.toList[i]).used := by
  have hget : c.nodes[i]? = some (c.nodes.toList[i]) := by
    rw [← Array.getElem?_toList]; exact List.getElem?_eq_getElem hi
  unfold usedN; rw [hget]

theorem mem_rebIds {c : Cell R} (hN : NodesOk c) {i : Nat} : i ∈ rebIds c ↔ usedN c i = true := by
  rw [rebIds_eq, mem_range'_filter]
  simp only [Nat.zero_le, true_and, Nat.zero_add, Bool.not_eq_true', List.contains_eq_mem, decide_eq_false_iff_not]
  constructor
  · rintro ⟨hlt, hnf⟩
    cases hu : usedN c i with
    | true => rfl
    | false => exact absurd ((hN.free i).2 ⟨hlt, hu⟩) hnf
  · intro hu
    exact ⟨usedA_lt hu, fun hm => by have := ((hN.free i).1 hm).2; rw [hu] at this; cases this⟩

theorem keptNodes_eq {c : Cell R} (hN : NodesOk c) :
    (c.nodes.toList.zipIdx.filter (fun p => !c.freeNodes.contains p.2)).map (·.1) =
      c.nodes.toList.filter (fun n => n.used) := by
  refine filter_zipIdx_fst (fun i => !c.freeNodes.contains i) (fun n : Node R => n.used) _ 0 (fun i hi => ?_)
  rw [Nat.zero_add, ← usedN_toList hi]
  have hlt : i < c.nodes.size := by simpa using hi
  cases hu : usedN c i with
  | true =>
    simp only [Bool.not_eq_true', List.contains_eq_mem, decide_eq_false_iff_not]
    intro hm
    have := ((hN.free i).1 hm).2
    rw [hu] at this; cases this
  | false =>
    simp only [Bool.not_eq_false', List.contains_eq_mem, decide_eq_true_eq]
    exact (hN.free i).2 ⟨hlt, hu⟩

theorem renameT_id (T : List Tri) : renameT id T = T := by
  unfold renameT
  simp

/-- what `rebase` has done before it regenerates the edge set -/
structure RebOk (c c1 : Cell R) (ρ : Nat → Nat) : Prop where
  inj : Set.InjOn ρ (vertsF (abs c) : Set Nat)
  abs_eq : abs c1 = renameT ρ (abs c)
  fwd : ∀ o, usedN c o = true → usedN c1 (ρ o) = true
  bwd : ∀ j, usedN c1 j = true → ∃ o, usedN c o = true ∧ ρ o = j
  allFaces : ∀ f ∈ c1.faces.toList, f.used = true
  noFreeFaces : c1.freeFaces = []
  noFreeNodes : c1.freeNodes = []
  allNodes : ∀ i, i < c1.nodes.size → usedN c1 i = true

theorem rebCell_ok {c : Cell R} (hc : CellOk c) : ∃ ρ, RebOk c (rebCell c) ρ := by
  obtain ⟨hf, hI, hN, hInv, hV, hcov, hus, hfull⟩ := hc
  have hFL := rebFaces0_toList hf hfull
  have hallF : ∀ f ∈ (rebFaces0 c).toList, f.used = true := by
    intro f hm; rw [hFL] at hm; exact (List.mem_filter.1 hm).2
  unfold rebCell
  by_cases hE : c.freeNodes.isEmpty = true
  · rw [if_pos hE]
    have hfn : c.freeNodes = [] := List.isEmpty_iff.1 hE
    refine ⟨id, ?_, ?_, fun o ho => ho, fun j hj => ⟨j, hj, rfl⟩, hallF, rfl, hfn, fun i hi => ?_⟩
    · exact fun x _ y _ h => h
    · rw [renameT_id]; exact absA_of_toList hFL
    · cases hu : usedN c i with
      | true => exact hu
      | false =>
        have := (hN.free i).2 ⟨hi, hu⟩
        rw [hfn] at this; cases this
  · rw [if_neg hE]
    have hk := keptNodes_eq hN
    have hlen : (c.nodes.toList.filter (fun n => n.used)).length = (rebIds c).length := by
      rw [← hk]; unfold rebIds; simp
    have hnd : (rebIds c).Nodup := by rw [rebIds_eq]; exact range'_filter_nodup _ _ _
    -- the flags of the new node array
    have hused1 : ∀ j, usedA ((c.nodes.toList.zipIdx.filter (fun p => !c.freeNodes.contains p.2)).map
        (·.1)).toArray j = decide (j < (rebIds c).length) := by
      intro j
      rw [hk]
      unfold usedA
      by_cases hj : j < (rebIds c).length
      · have hj' : j < (c.nodes.toList.filter (fun n => n.used)).length := by rw [hlen]; exact hj
        rw [List.getElem?_toArray, List.getElem?_eq_getElem hj']
        have := List.getElem_mem hj'
        simp only [(List.mem_filter.1 this).2, hj, decide_true]
      · rw [List.getElem?_toArray, List.getElem?_eq_none (by rw [hlen]; omega)]
        simp [hj]
    have hρ : ∀ o, usedN c o = true → rebRho c o = (rebIds c).idxOf o ∧ (rebIds c).idxOf o < (rebIds c).length := by
      intro o ho
      have hm := (mem_rebIds hN).2 ho
      unfold rebRho
      rw [if_pos (by simpa using hm)]
      exact ⟨rfl, List.idxOf_lt_length_of_mem hm⟩
    refine ⟨rebRho c, ?_, ?_, fun o ho => ?_, fun j hj => ?_, ?_, rfl, rfl, fun i hi => ?_⟩
    · intro x hx y hy hxy
      obtain ⟨tx, htx, hnx⟩ := ce_mem_vertsF.1 (Finset.mem_coe.1 hx)
      obtain ⟨ty, hty, hny⟩ := ce_mem_vertsF.1 (Finset.mem_coe.1 hy)
      obtain ⟨gx, hgx⟩ := mem_abs_iff.1 htx
      obtain ⟨gy, hgy⟩ := mem_abs_iff.1 hty
      have ux := hN.live gx tx x hgx hnx
      have uy := hN.live gy ty y hgy hny
      rw [(hρ x ux).1, (hρ y uy).1] at hxy
      exact (List.idxOf_inj ((mem_rebIds hN).2 ux)).1 hxy
    · show absA ((rebFaces0 c).map (renFace (rebRho c))) = _
      rw [absA_map_renFace, absA_of_toList hFL]; rfl
    · show usedA _ _ = true
      rw [hused1, (hρ o ho).1]
      simp [(hρ o ho).2]
    · have hj' : j < (rebIds c).length := by
        have : usedA _ j = true := hj
        rw [hused1] at this
        simpa using this
      refine ⟨(rebIds c)[j], (mem_rebIds hN).1 (List.getElem_mem hj'), ?_⟩
      rw [(hρ _ ((mem_rebIds hN).1 (List.getElem_mem hj'))).1]
      exact hnd.idxOf_getElem j hj'
    · intro f hm
      rw [Array.toList_map] at hm
      obtain ⟨f0, hf0, rfl⟩ := List.mem_map.1 hm
      exact hallF f0 hf0
    · show usedA _ i = true
      rw [hused1]
      have : i < (c.nodes.toList.filter (fun n => n.used)).length := by
        have := hi
        simp only [List.size_toArray] at this
        rw [hk] at this; exact this
      rw [hlen] at this
      simp [this]

/-! ## 6. `rebase_preserves` -/

/-- the invariants of the regenerated cell -/
theorem cellOk_of_rebOk {c c1 : Cell R} {ρ : Nat → Nat} {s : EdgeSet} (hc : CellOk c) (H : RebOk c c1 ρ)
    (h : c1.faces.toList.zipIdx.foldlM genStep [] = .ok s) : CellOk ({ c1 with edges := s } : Cell R) := by
  obtain ⟨hf, hI, hN, hInv, hV, hcov, hus, hfull⟩ := hc
  have hInv1 : Inv (abs c1) := by rw [H.abs_eq]; exact rename_inv ρ H.inj hInv
  have hd : ∀ f ∈ c1.faces.toList, f.n1 ≠ f.n2 ∧ f.n2 ≠ f.n3 ∧ f.n3 ≠ f.n1 := by
    intro f hm
    have : (f.n1, f.n2, f.n3) ∈ abs c1 := by
      unfold abs
      exact List.mem_filterMap.2 ⟨f, hm, by simp [H.allFaces f hm]⟩
    exact hInv1.nondeg _ this
  have hslot : ∀ (g : Nat) (t : Tri), (slots c1)[g]? = some (some t) → ∃ t0 ∈ abs c, t = (ρ t0.1, ρ t0.2.1, ρ t0.2.2) := by
    intro g t hg
    have : t ∈ abs c1 := mem_abs_iff.2 ⟨g, hg⟩
    rw [H.abs_eq] at this
    obtain ⟨t0, ht0, rfl⟩ := List.mem_map.1 this
    exact ⟨t0, ht0, rfl⟩
  refine ⟨⟨fun i hi => ?_, ?_⟩, gen_complete H.allFaces hd h, ⟨?_, fun i => ?_, fun g t v hg hv => ?_⟩, hInv1, ?_,
    fun v hv => ?_, ?_, fun i hi => ?_⟩
  · have : i ∈ c1.freeFaces := hi
    rw [H.noFreeFaces] at this; cases this
  · show c1.freeFaces.Nodup
    rw [H.noFreeFaces]; exact List.nodup_nil
  · show c1.freeNodes.Nodup
    rw [H.noFreeNodes]; exact List.nodup_nil
  · show i ∈ c1.freeNodes ↔ (i < c1.nodes.size ∧ usedN c1 i = false)
    rw [H.noFreeNodes]
    constructor
    · intro hh; cases hh
    · rintro ⟨a, b⟩
      rw [H.allNodes i a] at b; cases b
  · show usedN c1 v = true
    obtain ⟨t0, ht0, rfl⟩ := hslot g t hg
    obtain ⟨g0, hg0⟩ := mem_abs_iff.1 ht0
    rw [hasNode_iff] at hv
    rcases hv with rfl | rfl | rfl
    · exact H.fwd _ (hN.live g0 t0 _ hg0 (by simp [hasNode_iff]))
    · exact H.fwd _ (hN.live g0 t0 _ hg0 (by simp [hasNode_iff]))
    · exact H.fwd _ (hN.live g0 t0 _ hg0 (by simp [hasNode_iff]))
  · show AllVMC (abs c1)
    rw [H.abs_eq]; exact rename_vmc ρ H.inj hV
  · show v ∈ vertsF (abs c1)
    obtain ⟨o, ho, rfl⟩ := H.bwd v hv
    rw [H.abs_eq, vertsF_rename]
    exact Finset.mem_image.2 ⟨o, hcov o ho, rfl⟩
  · obtain ⟨o, ho⟩ := hus
    exact ⟨ρ o, H.fwd o ho⟩
  · show i ∈ c1.freeFaces
    exfalso
    have hi' : (slots c1)[i]? = some none := hi
    obtain ⟨f, hfi, hfu⟩ := slot_none_iff.1 hi'
    have hm : f ∈ c1.faces.toList := by
      rw [← Array.getElem?_toList] at hfi; exact List.mem_of_getElem? hfi
    rw [H.allFaces f hm] at hfu; cases hfu

/-- **`rebase` preserves the invariants**; the live triangles are renamed by a map that is injective on the nodes of the
    surface (the hypothesis of `C01.rename_inv` / `rename_chi` / `rename_vmc`) -/
theorem rebase_preserves {c c' : Cell R} (h : rebase c = .ok c') (hc : CellOk c) :
    CellOk c' ∧ ∃ ρ : Nat → Nat, Set.InjOn ρ (vertsF (abs c) : Set Nat) ∧ abs c' = renameT ρ (abs c) := by
  rw [rebase_eq] at h
  split at h
  · cases h
    exact ⟨hc, id, fun x _ y _ h => h, (renameT_id _).symm⟩
  · obtain ⟨ρ, H⟩ := rebCell_ok hc
    cases hg : (rebCell c).faces.toList.zipIdx.foldlM genStep [] with
    | error x => rw [hg] at h; cases h
    | ok s =>
      rw [hg] at h
      cases h
      exact ⟨cellOk_of_rebOk hc H hg, ρ, H.inj, H.abs_eq⟩

end

end Simu.Remesh

#print axioms Simu.Remesh.rebase_preserves
