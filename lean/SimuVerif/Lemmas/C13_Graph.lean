import Mathlib.Data.Finset.Card
import Mathlib.Data.Finset.Prod
import Mathlib.Algebra.BigOperators.Group.Finset.Basic
import Mathlib.Algebra.BigOperators.Group.Finset.Piecewise
import Mathlib.Algebra.Order.BigOperators.Group.Finset
import Mathlib.Algebra.Group.Even
import Mathlib.Algebra.Group.Nat.Even
import Mathlib.Tactic.Linarith
/-
  C13 — the one piece of graph theory the soundness proof of the acceptance gate needs:

    a finite graph on the vertex set `V` that is connected (every proper non-empty vertex subset is left by an edge)
    and has at most `|V| − 1` edges contains no non-empty subgraph in which every vertex has even degree.

  (Such a graph is a tree; an even subgraph would contain a cycle.)  Proof by removing a leaf: the degrees sum to
  `2·|C| < 2·|V|`, so some vertex has degree ≤ 1; connectedness makes it exactly 1; its only edge cannot belong to the
  even subgraph; removing the vertex and the edge leaves a graph of the same kind.  Edges are pairs of distinct vertices.
-/
namespace Simu.C13Graph

abbrev E := Nat × Nat

/-- `e` has `v` as an endpoint -/
def Inc (e : E) (v : Nat) : Prop := e.1 = v ∨ e.2 = v

instance (e : E) (v : Nat) : Decidable (Inc e v) := by unfold Inc; infer_instance

/-- number of edges of `S` at `v` -/
def deg (S : Finset E) (v : Nat) : Nat := (S.filter (fun e => Inc e v)).card

/-- `e` leaves the vertex set `K` -/
def Crosses (e : E) (K : Finset Nat) : Prop := (e.1 ∈ K ∧ e.2 ∉ K) ∨ (e.2 ∈ K ∧ e.1 ∉ K)

theorem deg_mono {S S' : Finset E} (h : S ⊆ S') (v : Nat) : deg S v ≤ deg S' v :=
  Finset.card_le_card (Finset.filter_subset_filter _ h)

/-- handshake: the degrees add up to twice the number of edges -/
theorem sum_deg (V : Finset Nat) (C : Finset E) (hC : ∀ e ∈ C, e.1 ∈ V ∧ e.2 ∈ V ∧ e.1 ≠ e.2) :
    ∑ v ∈ V, deg C v = 2 * C.card := by
  have h1 : ∀ v ∈ V, deg C v = ∑ e ∈ C, (if Inc e v then 1 else 0) := by
    intro v _; unfold deg; rw [Finset.card_filter]
  rw [Finset.sum_congr rfl h1, Finset.sum_comm]
  have h2 : ∀ e ∈ C, (∑ v ∈ V, (if Inc e v then 1 else 0)) = 2 := by
    intro e he
    obtain ⟨h1, h2, hne⟩ := hC e he
    rw [← Finset.card_filter]
    have : V.filter (fun v => Inc e v) = {e.1, e.2} := by
      ext v
      rw [Finset.mem_filter]
      simp only [Inc, Finset.mem_insert, Finset.mem_singleton]
      constructor
      · rintro ⟨_, h | h⟩
        · left; exact h.symm
        · right; exact h.symm
      · rintro (h | h)
        · subst h; exact ⟨h1, Or.inl rfl⟩
        · subst h; exact ⟨h2, Or.inr rfl⟩
    rw [this, Finset.card_pair hne]
  rw [Finset.sum_congr rfl h2, Finset.sum_const, Nat.nsmul_eq_mul, Nat.mul_comm]

theorem tree_no_even_subgraph : ∀ (n : Nat) (V : Finset Nat) (C B : Finset E), V.card = n →
    (∀ e ∈ C, e.1 ∈ V ∧ e.2 ∈ V ∧ e.1 ≠ e.2) →
    C.card + 1 ≤ V.card →
    (∀ K : Finset Nat, K ⊆ V → K.Nonempty → K ≠ V → ∃ e ∈ C, Crosses e K) →
    B ⊆ C → (∀ v ∈ V, Even (deg B v)) → B = ∅ := by
  intro n
  induction n with
  | zero =>
    intro V C B hn hC hcard _ hB _
    have : C.card = 0 := by omega
    rw [Finset.card_eq_zero] at this
    subst this
    exact Finset.subset_empty.mp hB
  | succ n ih =>
    intro V C B hn hC hcard hconn hB heven
    -- a vertex of degree at most one
    have hsum := sum_deg V C hC
    have hex : ∃ v ∈ V, deg C v < 2 := by
      by_contra hno
      push Not at hno
      have : V.card * 2 ≤ ∑ v ∈ V, deg C v := by
        have := Finset.card_nsmul_le_sum V (fun v => deg C v) 2 hno
        simpa [Nat.nsmul_eq_mul] using this
      omega
    obtain ⟨v, hv, hdeg⟩ := hex
    by_cases hone : V.card = 1
    · -- a single vertex: no edge at all
      have hCe : C = ∅ := by
        rw [Finset.eq_empty_iff_forall_notMem]
        intro e he
        obtain ⟨h1, h2, hne⟩ := hC e he
        exact hne (Finset.card_le_one.mp (by omega) _ h1 _ h2)
      subst hCe
      exact Finset.subset_empty.mp hB
    have htwo : 2 ≤ V.card := by omega
    -- its degree is exactly one
    have hpos : 1 ≤ deg C v := by
      have hK : ({v} : Finset Nat) ≠ V := by
        intro h; rw [← h] at htwo; simp at htwo
      obtain ⟨e, he, hcr⟩ := hconn {v} (by simpa using hv) (by simp) hK
      have : e ∈ C.filter (fun e => Inc e v) := by
        rw [Finset.mem_filter]; refine ⟨he, ?_⟩
        rcases hcr with ⟨h, _⟩ | ⟨h, _⟩
        · left; simpa using h
        · right; simpa using h
      exact Finset.card_pos.mpr ⟨e, this⟩
    have hd1 : deg C v = 1 := by omega
    obtain ⟨e0, he0⟩ := Finset.card_eq_one.mp hd1
    have he0C : e0 ∈ C ∧ Inc e0 v := by
      have : e0 ∈ C.filter (fun e => Inc e v) := by rw [he0]; simp
      simpa [Finset.mem_filter] using this
    have honly : ∀ e ∈ C, Inc e v → e = e0 := by
      intro e he hi
      have : e ∈ C.filter (fun e => Inc e v) := by rw [Finset.mem_filter]; exact ⟨he, hi⟩
      rw [he0] at this; simpa using this
    -- the even subgraph has no edge at v
    have hBv : deg B v = 0 := by
      have h1 : deg B v ≤ 1 := hd1 ▸ deg_mono hB v
      obtain ⟨k, hk⟩ := heven v hv
      omega
    have hBno : ∀ e ∈ B, ¬ Inc e v := by
      intro e he hi
      have : e ∈ B.filter (fun e => Inc e v) := by rw [Finset.mem_filter]; exact ⟨he, hi⟩
      unfold deg at hBv
      rw [Finset.card_eq_zero] at hBv
      rw [hBv] at this; simp at this
    -- remove the leaf
    have hV' : (V.erase v).card = n := by rw [Finset.card_erase_of_mem hv]; omega
    have hC' : ∀ e ∈ C.erase e0, e.1 ∈ V.erase v ∧ e.2 ∈ V.erase v ∧ e.1 ≠ e.2 := by
      intro e he
      obtain ⟨hne, heC⟩ := Finset.mem_erase.mp he
      obtain ⟨h1, h2, h3⟩ := hC e heC
      have hni : ¬ Inc e v := fun hi => hne (honly e heC hi)
      unfold Inc at hni; push Not at hni
      exact ⟨Finset.mem_erase.mpr ⟨hni.1, h1⟩, Finset.mem_erase.mpr ⟨hni.2, h2⟩, h3⟩
    have hcard' : (C.erase e0).card + 1 ≤ (V.erase v).card := by
      rw [Finset.card_erase_of_mem he0C.1, Finset.card_erase_of_mem hv]
      have : 1 ≤ C.card := Finset.card_pos.mpr ⟨e0, he0C.1⟩
      omega
    have hB' : B ⊆ C.erase e0 := by
      intro e he
      refine Finset.mem_erase.mpr ⟨?_, hB he⟩
      intro h; subst h; exact hBno e he he0C.2
    have heven' : ∀ w ∈ V.erase v, Even (deg B w) := fun w hw => heven w (Finset.mem_of_mem_erase hw)
    -- the other endpoint of the leaf edge
    obtain ⟨u, hu⟩ : ∃ u, (e0 = (v, u) ∨ e0 = (u, v)) := by
      rcases he0C.2 with h | h
      · exact ⟨e0.2, Or.inl (by rw [← h])⟩
      · exact ⟨e0.1, Or.inr (by rw [← h])⟩
    have hconn' : ∀ K : Finset Nat, K ⊆ V.erase v → K.Nonempty → K ≠ V.erase v → ∃ e ∈ C.erase e0, Crosses e K := by
      intro K hK hKne hKV
      have hvK : v ∉ K := fun h => (Finset.notMem_erase v V) (hK h)
      have hKsub : K ⊆ V := fun x hx => Finset.mem_of_mem_erase (hK hx)
      by_cases huK : u ∈ K
      · -- enlarge K by v
        have hK2 : insert v K ≠ V := by
          intro h; apply hKV
          ext x
          constructor
          · intro hx; exact hK hx
          · intro hx
            obtain ⟨hxv, hxV⟩ := Finset.mem_erase.mp hx
            rw [← h] at hxV
            rcases Finset.mem_insert.mp hxV with h1 | h1
            · exact absurd h1 hxv
            · exact h1
        obtain ⟨e, he, hcr⟩ := hconn (insert v K) (Finset.insert_subset hv hKsub) (Finset.insert_nonempty _ _) hK2
        have hne0 : e ≠ e0 := by
          intro h; subst h
          rcases hu with h | h <;> subst h <;> simp [Crosses, huK] at hcr
        have hni : ¬ Inc e v := fun hi => hne0 (honly e he hi)
        unfold Inc at hni; push Not at hni
        refine ⟨e, Finset.mem_erase.mpr ⟨hne0, he⟩, ?_⟩
        unfold Crosses at hcr ⊢
        simp only [Finset.mem_insert, hni.1, hni.2, false_or] at hcr
        exact hcr
      · have hK2 : K ≠ V := fun h => hvK (h ▸ hv)
        obtain ⟨e, he, hcr⟩ := hconn K hKsub hKne hK2
        have hne0 : e ≠ e0 := by
          intro h; subst h
          rcases hu with h | h <;> subst h <;> simp [Crosses, huK, hvK] at hcr
        exact ⟨e, Finset.mem_erase.mpr ⟨hne0, he⟩, hcr⟩
    exact ih (V.erase v) (C.erase e0) B hV' hC' hcard' hconn' hB' heven'

end Simu.C13Graph
