import SimuVerif.Model.Params
import Mathlib.Data.List.Forall2
/-
  Generic facts about the table-driven reader of `Model/Params.lean` (used by C18, reusable by C17).
  Nothing here mentions a concrete table; `R` is ANY type with decidable `<`, `≤` and a zero literal
  (so the statements hold for the `Float` instance that the driver runs as well as for ℚ, ℝ).
-/
set_option linter.unusedSectionVars false
namespace Simu.Params

/-! ### association lists -/
section Assoc
variable {α β : Type} [DecidableEq α]

theorem assoc_cons_self (k : α) (v : β) (l : List (α × β)) : assoc k ((k, v) :: l) = some v := by
  simp [assoc]

theorem assoc_cons_ne {k a : α} (h : a ≠ k) (v : β) (l : List (α × β)) : assoc k ((a, v) :: l) = assoc k l := by
  simp [assoc, h]

theorem assoc_eq_none_iff {k : α} {l : List (α × β)} : assoc k l = none ↔ k ∉ l.map Prod.fst := by
  induction l with
  | nil => simp [assoc]
  | cons p l ih =>
    obtain ⟨a, b⟩ := p
    by_cases h : a = k
    · subst h; simp [assoc]
    · simp only [assoc, h, if_false, ih, List.map_cons, List.mem_cons]
      constructor
      · intro h1 h2; rcases h2 with h2 | h2
        · exact h h2.symm
        · exact h1 h2
      · intro h1 h2; exact h1 (Or.inr h2)

theorem assoc_isSome_of_mem {k : α} {l : List (α × β)} (h : k ∈ l.map Prod.fst) : ∃ v, assoc k l = some v := by
  cases hh : assoc k l with
  | none => exact absurd h (assoc_eq_none_iff.mp hh)
  | some v => exact ⟨v, rfl⟩

theorem assoc_append_of_some {k : α} {l1 l2 : List (α × β)} {v : β} (h : assoc k l1 = some v) :
    assoc k (l1 ++ l2) = some v := by
  induction l1 with
  | nil => simp [assoc] at h
  | cons p l ih =>
    obtain ⟨a, b⟩ := p
    by_cases hk : a = k
    · simp_all [assoc]
    · simp only [assoc, hk, if_false, List.cons_append] at h ⊢; exact ih h

theorem assoc_append_of_none {k : α} {l1 l2 : List (α × β)} (h : assoc k l1 = none) :
    assoc k (l1 ++ l2) = assoc k l2 := by
  induction l1 with
  | nil => rfl
  | cons p l ih =>
    obtain ⟨a, b⟩ := p
    by_cases hk : a = k
    · simp [assoc, hk] at h
    · simp only [assoc, hk, if_false, List.cons_append] at h ⊢; exact ih h

/-- `assoc` is the head of the sub-list of pairs carrying that key -/
theorem assoc_eq_head_filter (k : α) (l : List (α × β)) :
    assoc k l = ((l.filter (fun p => decide (p.1 = k))).head?).map Prod.snd := by
  induction l with
  | nil => rfl
  | cons p l ih =>
    obtain ⟨a, b⟩ := p
    by_cases hk : a = k
    · simp [assoc, hk]
    · simp [assoc, hk, ih]

/-- a key that occurs at most once is looked up to the same value in every permutation of the list -/
theorem assoc_perm_of_unique {k : α} {l l' : List (α × β)}
    (hu : (l.filter (fun p => decide (p.1 = k))).length ≤ 1) (hp : l.Perm l') : assoc k l = assoc k l' := by
  rw [assoc_eq_head_filter, assoc_eq_head_filter]
  have hf := hp.filter (fun p => decide (p.1 = k))
  match hl : l.filter (fun p => decide (p.1 = k)) with
  | [] => rw [hl] at hf; rw [(List.perm_nil.mp hf.symm), hl]
  | [x] => rw [hl] at hf; rw [(List.perm_singleton.mp hf.symm), hl]
  | x :: y :: t => rw [hl] at hu; simp at hu

/-- a later element with a key that already occurred is never seen (`FirstChildElement`: the first wins) -/
theorem assoc_insert_after {k k' : α} {pre post : List (α × β)} {v : β} (h : k' ∈ pre.map Prod.fst) :
    assoc k (pre ++ (k', v) :: post) = assoc k (pre ++ post) := by
  by_cases hk : k' = k
  · subst hk
    obtain ⟨w, hw⟩ := assoc_isSome_of_mem h
    rw [assoc_append_of_some hw, assoc_append_of_some hw]
  · cases hh : assoc k pre with
    | some w => rw [assoc_append_of_some hh, assoc_append_of_some hh]
    | none => rw [assoc_append_of_none hh, assoc_append_of_none hh, assoc_cons_ne hk]

end Assoc

theorem setField_of_not_mem {β : Type} {k : String} {v : β} {l : List (String × β)} (h : k ∉ l.map Prod.fst) :
    setField k v l = l ++ [(k, v)] := by
  induction l with
  | nil => rfl
  | cons p l ih =>
    obtain ⟨a, b⟩ := p
    simp only [List.map_cons, List.mem_cons, not_or] at h
    have h1 : a ≠ k := fun e => h.1 e.symm
    simp [setField, h1, ih h.2]

/-! ### the section reader -/
section Reader
variable {R : Type} [Lit R] [LT R] [LE R] [DecidableLT R] [DecidableLE R]

theorem firstFiring_eq_none {r : Record R} {cs : List Check} {k : Nat} :
    firstFiring r cs k = none ↔ ∀ c ∈ cs, c.fires r = false := by
  induction cs generalizing k with
  | nil => simp [firstFiring]
  | cons c cs ih =>
    by_cases h : c.fires r = true
    · simp [firstFiring, h]
    · simp only [Bool.not_eq_true] at h
      simp [firstFiring, h, ih]

theorem firstFiring_some_of_mem {r : Record R} {cs : List Check} {k : Nat} {c : Check} (hc : c ∈ cs)
    (hf : c.fires r = true) : ∃ j, firstFiring r cs k = some j := by
  cases h : firstFiring r cs k with
  | some j => exact ⟨j, rfl⟩
  | none => rw [firstFiring_eq_none] at h; rw [h c hc] at hf; cases hf

/-- the section reader only looks at the first child of each table tag -/
theorem readGo_congr (P : Parsers R) {c c' : Children} (es : List Entry) (acc : Record R)
    (h : ∀ e ∈ es, assoc e.tag c = assoc e.tag c') : readGo P c es acc = readGo P c' es acc := by
  induction es generalizing acc with
  | nil => rfl
  | cons e es ih =>
    have he := h e (List.mem_cons_self)
    have ih' := fun acc => ih acc (fun e' h' => h e' (List.mem_cons_of_mem _ h'))
    simp only [readGo, he]
    cases assoc e.tag c' with
    | none => rfl
    | some text =>
      simp only
      cases readValue P e text with
      | error err => rfl
      | ok v =>
        simp only
        cases firstFiring (setField e.field v acc) e.checks 0 with
        | some k => rfl
        | none => exact ih' _

/-- entry `e` goes through without exception and yields `v`, the members assigned so far being `acc` -/
def StepOk (P : Parsers R) (c : Children) (e : Entry) (acc : Record R) (v : Value R) : Prop :=
  ∃ text, assoc e.tag c = some text ∧ readValue P e text = .ok v ∧
    firstFiring (setField e.field v acc) e.checks 0 = none

theorem readGo_cons_ok {P : Parsers R} {c : Children} {e : Entry} {acc : Record R} {v : Value R}
    (h : StepOk P c e acc v) (es : List Entry) :
    readGo P c (e :: es) acc = readGo P c es (setField e.field v acc) := by
  obtain ⟨text, h1, h2, h3⟩ := h
  simp [readGo, h1, h2, h3]

def recOf (val : Entry → Value R) (es : List Entry) : Record R := es.map (fun e => (e.field, val e))

theorem recOf_keys (val : Entry → Value R) (es : List Entry) : (recOf val es).map Prod.fst = es.map (·.field) := by
  simp [recOf, List.map_map, Function.comp_def]

/-- if every block goes through, the reader returns the record of all blocks, in table order -/
theorem readGo_ok (P : Parsers R) (c : Children) (val : Entry → Value R) :
    ∀ (es : List Entry) (acc : Record R),
      (∀ pre e post, es = pre ++ e :: post → StepOk P c e (acc ++ recOf val pre) (val e)) →
      (∀ pre e post, es = pre ++ e :: post → e.field ∉ (acc ++ recOf val pre).map Prod.fst) →
      readGo P c es acc = .ok (acc ++ recOf val es) := by
  intro es
  induction es with
  | nil => intro acc _ _; simp [readGo, recOf]
  | cons e0 es ih =>
    intro acc hstep hfresh
    have h0 := hstep [] e0 es rfl
    have f0 := hfresh [] e0 es rfl
    simp only [recOf, List.map_nil, List.append_nil] at h0 f0
    rw [readGo_cons_ok h0, setField_of_not_mem f0]
    rw [ih (acc ++ [(e0.field, val e0)])]
    · simp [recOf]
    · intro pre e post hsplit
      have := hstep (e0 :: pre) e post (by simp [hsplit])
      simpa [recOf, List.append_assoc] using this
    · intro pre e post hsplit
      have := hfresh (e0 :: pre) e post (by simp [hsplit])
      simpa [recOf, List.append_assoc] using this

/-- what happened before a block that is reached does not matter for what comes after it -/
theorem readGo_append {P : Parsers R} {c : Children} {pre : List Entry} {acc acc' : Record R}
    (h : readGo P c pre acc = .ok acc') (es : List Entry) : readGo P c (pre ++ es) acc = readGo P c es acc' := by
  induction pre generalizing acc with
  | nil => simp only [readGo] at h; cases h; rfl
  | cons e pre ih =>
    simp only [List.cons_append, readGo] at h ⊢
    cases h1 : assoc e.tag c with
    | none => rw [h1] at h; cases h
    | some text =>
      rw [h1] at h; simp only at h ⊢
      cases h2 : readValue P e text with
      | error err => rw [h2] at h; cases h
      | ok v =>
        rw [h2] at h; simp only at h ⊢
        cases h3 : firstFiring (setField e.field v acc) e.checks 0 with
        | some k => rw [h3] at h; cases h
        | none => rw [h3] at h; simp only at h ⊢; exact ih h

/-- a table entry whose tag is absent: the reader never returns normally -/
theorem readGo_missing (P : Parsers R) (c : Children) {e : Entry} (hmiss : assoc e.tag c = none) :
    ∀ (es : List Entry) (acc : Record R), e ∈ es → ∃ err, readGo P c es acc = .error err := by
  intro es
  induction es with
  | nil => intro _ h; cases h
  | cons e0 es ih =>
    intro acc hmem
    simp only [readGo]
    cases h1 : assoc e0.tag c with
    | none => exact ⟨_, rfl⟩
    | some text =>
      simp only
      cases readValue P e0 text with
      | error err => exact ⟨_, rfl⟩
      | ok v =>
        simp only
        cases firstFiring (setField e0.field v acc) e0.checks 0 with
        | some k => exact ⟨_, rfl⟩
        | none =>
          rcases List.mem_cons.mp hmem with h | h
          · subst h; rw [hmiss] at h1; cases h1
          · exact ih _ h

/-- an entry one of whose validity tests fires whatever was assigned before: never a normal return.
    (`hfire` is discharged for well-formed tables, where a test looks at the member just assigned.) -/
theorem readGo_rejected (P : Parsers R) (c : Children) {e : Entry} {text : String} {v : Value R}
    (h1 : assoc e.tag c = some text) (h2 : readValue P e text = .ok v)
    (hfire : ∀ acc : Record R, ∃ ch ∈ e.checks, ch.fires (setField e.field v acc) = true) :
    ∀ (es : List Entry) (acc : Record R), e ∈ es → ∃ err, readGo P c es acc = .error err := by
  intro es
  induction es with
  | nil => intro _ h; cases h
  | cons e0 es ih =>
    intro acc hmem
    simp only [readGo]
    cases g1 : assoc e0.tag c with
    | none => exact ⟨_, rfl⟩
    | some text0 =>
      simp only
      cases g2 : readValue P e0 text0 with
      | error err => exact ⟨_, rfl⟩
      | ok v0 =>
        simp only
        cases g3 : firstFiring (setField e0.field v0 acc) e0.checks 0 with
        | some k => exact ⟨_, rfl⟩
        | none =>
          rcases List.mem_cons.mp hmem with h | h
          · subst h
            rw [h1] at g1; cases g1
            rw [h2] at g2; cases g2
            obtain ⟨ch, hch, hf⟩ := hfire acc
            obtain ⟨j, hj⟩ := firstFiring_some_of_mem (k := 0) hch hf
            rw [hj] at g3; cases g3
          · exact ih _ h

/-! ### lookup in a record after assignment -/

theorem assoc_setField_self {β : Type} (k : String) (v : β) (l : List (String × β)) : assoc k (setField k v l) = some v := by
  induction l with
  | nil => simp [setField, assoc]
  | cons p l ih =>
    obtain ⟨a, b⟩ := p
    by_cases h : a = k
    · simp [setField, assoc, h]
    · simp [setField, assoc, h, ih]

/-! ### well-formedness, unfolded -/

theorem nodupB_iff {l : List String} : nodupB l = true ↔ l.Nodup := by
  induction l with
  | nil => simp [nodupB]
  | cons a l ih => simp [nodupB, ih, List.nodup_cons]

theorem wfGo_split {pre : List Entry} {e : Entry} {post : List Entry} {earlier : List String}
    (h : wfGo (pre ++ e :: post) earlier = true) :
    e.wf (earlier ++ pre.map (·.field)) = true ∧ e.field ∉ earlier ++ pre.map (·.field) := by
  induction pre generalizing earlier with
  | nil =>
    simp only [List.nil_append, wfGo, Bool.and_eq_true, Bool.not_eq_true'] at h
    have hn : e.field ∉ earlier := by
      intro hm
      have := List.contains_iff_mem.mpr hm
      rw [h.1.2] at this; cases this
    simpa using ⟨h.1.1, hn⟩
  | cons p pre ih =>
    simp only [List.cons_append, wfGo, Bool.and_eq_true] at h
    have := ih h.2
    simpa [List.append_assoc] using this

end Reader

/-! ### mapM in `Except` keeps the order and the length -/

theorem mapM_ok_forall₂ {ε α β : Type} (f : α → Except ε β) :
    ∀ (l : List α) (r : List β), l.mapM f = .ok r → List.Forall₂ (fun a b => f a = .ok b) l r := by
  intro l
  induction l with
  | nil => intro r h; simp [List.mapM_nil, pure, Except.pure] at h; subst h; exact List.Forall₂.nil
  | cons a l ih =>
    intro r h
    rw [List.mapM_cons] at h
    cases h1 : f a with
    | error e => rw [h1] at h; simp [bind, Except.bind] at h
    | ok b =>
      rw [h1] at h
      cases h2 : l.mapM f with
      | error e => rw [h2] at h; simp [bind, Except.bind] at h
      | ok bs =>
        rw [h2] at h
        simp [bind, Except.bind, pure, Except.pure] at h
        subst h
        exact List.Forall₂.cons h1 (ih bs h2)

theorem mapM_ok_of_forall₂ {ε α β : Type} (f : α → Except ε β) :
    ∀ (l : List α) (r : List β), List.Forall₂ (fun a b => f a = .ok b) l r → l.mapM f = .ok r := by
  intro l r h
  induction h with
  | nil => rfl
  | cons h1 _ ih => rw [List.mapM_cons, h1, ih]; rfl

theorem mapM_ok_map {ε α β γ : Type} (f : α → Except ε β) (g : γ → β) {l : List α} {ds : List γ}
    (h : List.Forall₂ (fun a d => f a = .ok (g d)) l ds) : l.mapM f = .ok (ds.map g) := by
  induction h with
  | nil => rfl
  | cons h1 _ ih => rw [List.mapM_cons, h1, ih]; rfl

theorem forall₂_imp_mem {α β : Type} {r s : α → β → Prop} {l1 : List α} {l2 : List β} (h : List.Forall₂ r l1 l2)
    (himp : ∀ a b, b ∈ l2 → r a b → s a b) : List.Forall₂ s l1 l2 := by
  induction h with
  | nil => exact List.Forall₂.nil
  | cons h1 _ ih =>
    exact List.Forall₂.cons (himp _ _ List.mem_cons_self h1)
      (ih (fun a b hb hr => himp a b (List.mem_cons_of_mem _ hb) hr))

theorem forall₂_ne_nil {α β : Type} {r : α → β → Prop} {l1 : List α} {l2 : List β} (h : List.Forall₂ r l1 l2)
    (hne : l2 ≠ []) : l1 ≠ [] := by
  intro h1; subst h1; cases h; exact hne rfl

end Simu.Params
