import SimuVerif.Lemmas.C02_HalfEdge
/-
  C02 — what the generated per-face / per-hinge bodies (`Gen.Forces.*`) compute, and that each of them
  is balanced (zero force sum, zero torque sum) on its own.
-/
set_option linter.unusedSimpArgs false
set_option linter.unusedSectionVars false
namespace Simu.Forces
open Simu Simu.Gen.Forces
variable {R : Type} [Field R] [LinearOrder R] [IsStrictOrderedRing R]

@[simp] theorem lit_six : (lit 6 : R) = 6 := by simp [lit]

/-- `==` of the pack is equality -/
def EqbOK (fx : FX R) : Prop := ∀ a b : R, fx.eqb a b = true ↔ a = b

/-- the square-root identity at one argument -/
def SqrtSq (fx : FX R) (y : R) : Prop := fx.sqrt y * fx.sqrt y = y

/-- twice the area vector of the triangle `p1 p2 p3` -/
def faceC (p1 p2 p3 : V3 R) : V3 R := V3.cross (p2 - p1) (p3 - p1)

theorem faceNormalArea_fst (fx : FX R) (p1 p2 p3 : V3 R) :
    (faceNormalArea fx p1 p2 p3).1 =
      if fx.eqb (fx.sqrt (V3.normSq (faceC p1 p2 p3))) 0 = true then 0
      else faceC p1 p2 p3 / fx.sqrt (V3.normSq (faceC p1 p2 p3)) := by
  simp only [faceNormalArea, faceC, lit_zero, V3.mk_zero]
  rfl

theorem faceNormalArea_snd (fx : FX R) (p1 p2 p3 : V3 R) :
    (faceNormalArea fx p1 p2 p3).2 = 1 / 2 * fx.sqrt (V3.normSq (faceC p1 p2 p3)) := by
  simp only [faceNormalArea, faceC, lit_one, lit_two]

/-- the cached normal is a multiple of the area vector, whatever `sqrt` and `==` are -/
theorem faceNormal_parallel (fx : FX R) (p1 p2 p3 : V3 R) :
    ∃ k : R, (faceNormalArea fx p1 p2 p3).1 = faceC p1 p2 p3 * k := by
  rw [faceNormalArea_fst]
  split_ifs
  · exact ⟨0, (V3.smul_zero_right _).symm⟩
  · exact ⟨_, V3.sdiv_eq_smul _ _⟩

theorem normSq_zero_imp {c : V3 R} (h : V3.normSq c = 0) : c = 0 := by
  obtain ⟨h1, h2, h3⟩ := V3.normSq_eq_zero h
  exact V3.ext' h1 h2 h3

/-- normal × area of the cached face data is half the area vector -/
theorem normal_mul_area (fx : FX R) (he : EqbOK fx) (p1 p2 p3 : V3 R)
    (hs : SqrtSq fx (V3.normSq (faceC p1 p2 p3))) :
    (faceNormalArea fx p1 p2 p3).1 * (faceNormalArea fx p1 p2 p3).2 = faceC p1 p2 p3 * ((1 : R) / 2) := by
  rw [faceNormalArea_fst, faceNormalArea_snd]
  by_cases h0 : fx.sqrt (V3.normSq (faceC p1 p2 p3)) = 0
  · have hc : faceC p1 p2 p3 = 0 := by
      apply normSq_zero_imp; unfold SqrtSq at hs; rw [h0] at hs; simpa using hs.symm
    rw [if_pos ((he _ _).mpr h0), hc]
    simp [V3.smul_zero']
  · have : ¬ (fx.eqb (fx.sqrt (V3.normSq (faceC p1 p2 p3))) 0 = true) := fun h => h0 ((he _ _).mp h)
    rw [if_neg this]
    apply V3.ext' <;> simp <;> field_simp

theorem pressureFace_eq (fx : FX R) (he : EqbOK fx) (p1 p2 p3 : V3 R) (P : R)
    (hs : SqrtSq fx (V3.normSq (faceC p1 p2 p3))) :
    pressureFace (faceNormalArea fx p1 p2 p3).1 (faceNormalArea fx p1 p2 p3).2 P
      = (faceC p1 p2 p3 * (P / (6 : R)), faceC p1 p2 p3 * (P / (6 : R)), faceC p1 p2 p3 * (P / (6 : R))) := by
  have h := normal_mul_area fx he p1 p2 p3 hs
  have key : ((faceNormalArea fx p1 p2 p3).1 * P * (faceNormalArea fx p1 p2 p3).2) / (3 : R)
      = faceC p1 p2 p3 * (P / (6 : R)) := by
    have hx := congrArg V3.x h; have hy := congrArg V3.y h; have hz := congrArg V3.z h
    simp only [V3.smul_x, V3.smul_y, V3.smul_z] at hx hy hz
    apply V3.ext' <;> simp only [V3.smul_x, V3.smul_y, V3.smul_z, V3.sdiv_x, V3.sdiv_y, V3.sdiv_z]
    · linear_combination (P / 3) * hx
    · linear_combination (P / 3) * hy
    · linear_combination (P / 3) * hz
  simp only [pressureFace, lit_three, key]

/-- the area vector as a sum over the three sides of an antisymmetric function -/
theorem faceC_sides (a b c : V3 R) :
    faceC a b c = V3.cross a b + V3.cross b c + V3.cross c a := by
  apply V3.ext' <;> simp [faceC] <;> ring

theorem faceC_torque_sides (a b c : V3 R) :
    V3.cross (a + b + c) (faceC a b c) =
      V3.cross (a + b) (V3.cross a b) + V3.cross (b + c) (V3.cross b c) + V3.cross (c + a) (V3.cross c a) := by
  apply V3.ext' <;> simp [faceC] <;> ring

theorem faceC_cyc (a b c : V3 R) : faceC b c a = faceC a b c := by
  apply V3.ext' <;> simp [faceC] <;> ring

/-! ### surface tension and membrane elasticity -/

/-- the vector the code calls the gradient of the face area with respect to the node opposite to
    the side `u v`: `normal.cross(u - v) * (-0.5)` -/
def areaGrad (n u v : V3 R) : V3 R := V3.cross n (u - v) * (-((1 : R) / 2))

/-- effective tension of a face: its surface tension plus the membrane-elasticity term
    `(k/A₀)(A/A₀ − 1)` of the whole cell -/
def gammaEff (γ aem area At : R) : R := γ + (aem / At) * (area / At - 1)

theorem tensionFace_eq (fx : FX R) (p1 p2 p3 n : V3 R) (A γ aem area At : R) (hA : ¬ fx.eqb A 0 = true) :
    tensionFace fx p1 p2 p3 n A γ aem area At =
      (areaGrad n p2 p3 * (-(gammaEff γ aem area At)), areaGrad n p3 p1 * (-(gammaEff γ aem area At)),
       areaGrad n p1 p2 * (-(gammaEff γ aem area At))) := by
  simp only [tensionFace, lit_zero, if_neg hA, lit_one, lit_two, areaGrad, gammaEff]
  refine Prod.ext ?_ (Prod.ext ?_ ?_) <;> v3ext <;> ring

theorem tensionFace_zero (fx : FX R) (p1 p2 p3 n : V3 R) (A γ aem area At : R) (hA : fx.eqb A 0 = true) :
    tensionFace fx p1 p2 p3 n A γ aem area At = (0, 0, 0) := by
  simp only [tensionFace, lit_zero, if_pos hA, V3.zero_eq]

/-- the three tension forces of a face sum to zero (for any cached normal) -/
theorem tensionFace_sum (fx : FX R) (p1 p2 p3 n : V3 R) (A γ aem area At : R) :
    (tensionFace fx p1 p2 p3 n A γ aem area At).1 + (tensionFace fx p1 p2 p3 n A γ aem area At).2.1
      + (tensionFace fx p1 p2 p3 n A γ aem area At).2.2 = 0 := by
  by_cases hA : fx.eqb A 0 = true
  · rw [tensionFace_zero _ _ _ _ _ _ _ _ _ _ hA]; simp
  · rw [tensionFace_eq _ _ _ _ _ _ _ _ _ _ hA]
    simp only [areaGrad]; v3ext <;> ring

/-- … and exert no torque, provided the cached normal is along the area vector -/
theorem tensionFace_torque (fx : FX R) (p1 p2 p3 : V3 R) (k A γ aem area At : R) :
    V3.cross p1 (tensionFace fx p1 p2 p3 (faceC p1 p2 p3 * k) A γ aem area At).1
      + V3.cross p2 (tensionFace fx p1 p2 p3 (faceC p1 p2 p3 * k) A γ aem area At).2.1
      + V3.cross p3 (tensionFace fx p1 p2 p3 (faceC p1 p2 p3 * k) A γ aem area At).2.2 = 0 := by
  by_cases hA : fx.eqb A 0 = true
  · rw [tensionFace_zero _ _ _ _ _ _ _ _ _ _ hA]; simp [V3.cross_zero_right]
  · rw [tensionFace_eq _ _ _ _ _ _ _ _ _ _ hA]
    simp only [areaGrad, faceC]; v3ext <;> ring

/-- first-order coefficient identity: moving the first node by `t·d`, the squared doubled area
    `|c|² = (2A)²` is the polynomial `(2A)² + t·8A·(g·d) + t²·|d×(p3−p2)|²` with `g` the code's
    vector — i.e. `dA/dt = g·d` at `t = 0`: `g` is the gradient of the area -/
theorem area_first_order (p1 p2 p3 d : V3 R) (t s : R) (hs : s * s = V3.normSq (faceC p1 p2 p3)) (h0 : s ≠ 0) :
    V3.normSq (faceC (p1 + d * t) p2 p3) =
      (2 * ((1 : R) / 2 * s)) * (2 * ((1 : R) / 2 * s))
        + t * (8 * ((1 : R) / 2 * s)) * V3.dot (areaGrad (faceC p1 p2 p3 / s) p2 p3) d
        + t * t * V3.normSq (V3.cross d (p3 - p2)) := by
  have e : (2 * ((1 : R) / 2 * s)) * (2 * ((1 : R) / 2 * s)) = V3.normSq (faceC p1 p2 p3) := by
    rw [← hs]; ring
  rw [e]
  simp only [V3.normSq_def, V3.dot_def, areaGrad, faceC, V3.cross_x, V3.cross_y, V3.cross_z, V3.sub_x, V3.sub_y,
    V3.sub_z, V3.add_x, V3.add_y, V3.add_z, V3.smul_x, V3.smul_y, V3.smul_z, V3.sdiv_x, V3.sdiv_y, V3.sdiv_z]
  field_simp
  ring

/-! ### angle regularisation -/

theorem angleGradient_sum (fx : FX R) (i j k : V3 R) :
    (angleGradient fx i j k).1 + (angleGradient fx i j k).2.1 + (angleGradient fx i j k).2.2 = 0 := by
  simp only [angleGradient, lit_zero, lit_one, lit_two, lit_three, V3.mk_zero]
  split_ifs <;> v3ext <;> ring

theorem angleGradient_torque (fx : FX R) (i j k : V3 R) :
    V3.cross i (angleGradient fx i j k).1 + V3.cross j (angleGradient fx i j k).2.1
      + V3.cross k (angleGradient fx i j k).2.2 = 0 := by
  simp only [angleGradient, lit_zero, lit_one, lit_two, lit_three, V3.mk_zero]
  split_ifs <;> v3ext <;> ring

theorem angleFace_sum (fx : FX R) (p1 p2 p3 : V3 R) (angf : R) :
    (angleFace fx p1 p2 p3 angf).1 + (angleFace fx p1 p2 p3 angf).2.1 + (angleFace fx p1 p2 p3 angf).2.2 = 0 := by
  have s1 := angleGradient_sum fx p1 p2 p3
  have s2 := angleGradient_sum fx p2 p1 p3
  have s3 := angleGradient_sum fx p3 p1 p2
  rcases h1 : angleGradient fx p1 p2 p3 with ⟨g1i, g1j, g1k⟩
  rcases h2 : angleGradient fx p2 p1 p3 with ⟨g2i, g2j, g2k⟩
  rcases h3 : angleGradient fx p3 p1 p2 with ⟨g3i, g3j, g3k⟩
  rw [h1] at s1; rw [h2] at s2; rw [h3] at s3
  simp only [angleFace, h1, h2, h3, lit_zero, lit_three, V3.zero_eq]
  have a1 := congrArg V3.x s1; have a2 := congrArg V3.y s1; have a3 := congrArg V3.z s1
  have b1 := congrArg V3.x s2; have b2 := congrArg V3.y s2; have b3 := congrArg V3.z s2
  have c1 := congrArg V3.x s3; have c2 := congrArg V3.y s3; have c3 := congrArg V3.z s3
  v3c at a1; v3c at a2; v3c at a3; v3c at b1; v3c at b2; v3c at b3; v3c at c1; v3c at c2; v3c at c3
  split_ifs <;> v3ext <;> try ring1
  · linear_combination (angf * (fx.pi / 3 - angleWithR fx (p2 - p1) (p3 - p1))) * a1
      + (angf * (fx.pi / 3 - angleWithR fx (p1 - p2) (p3 - p2))) * b1
      + (angf * (fx.pi / 3 - angleWithR fx (p1 - p3) (p2 - p3))) * c1
  · linear_combination (angf * (fx.pi / 3 - angleWithR fx (p2 - p1) (p3 - p1))) * a2
      + (angf * (fx.pi / 3 - angleWithR fx (p1 - p2) (p3 - p2))) * b2
      + (angf * (fx.pi / 3 - angleWithR fx (p1 - p3) (p2 - p3))) * c2
  · linear_combination (angf * (fx.pi / 3 - angleWithR fx (p2 - p1) (p3 - p1))) * a3
      + (angf * (fx.pi / 3 - angleWithR fx (p1 - p2) (p3 - p2))) * b3
      + (angf * (fx.pi / 3 - angleWithR fx (p1 - p3) (p2 - p3))) * c3

theorem angleFace_torque (fx : FX R) (p1 p2 p3 : V3 R) (angf : R) :
    V3.cross p1 (angleFace fx p1 p2 p3 angf).1 + V3.cross p2 (angleFace fx p1 p2 p3 angf).2.1
      + V3.cross p3 (angleFace fx p1 p2 p3 angf).2.2 = 0 := by
  have s1 := angleGradient_torque fx p1 p2 p3
  have s2 := angleGradient_torque fx p2 p1 p3
  have s3 := angleGradient_torque fx p3 p1 p2
  rcases h1 : angleGradient fx p1 p2 p3 with ⟨g1i, g1j, g1k⟩
  rcases h2 : angleGradient fx p2 p1 p3 with ⟨g2i, g2j, g2k⟩
  rcases h3 : angleGradient fx p3 p1 p2 with ⟨g3i, g3j, g3k⟩
  rw [h1] at s1; rw [h2] at s2; rw [h3] at s3
  simp only [angleFace, h1, h2, h3, lit_zero, lit_three, V3.zero_eq]
  have a1 := congrArg V3.x s1; have a2 := congrArg V3.y s1; have a3 := congrArg V3.z s1
  have b1 := congrArg V3.x s2; have b2 := congrArg V3.y s2; have b3 := congrArg V3.z s2
  have c1 := congrArg V3.x s3; have c2 := congrArg V3.y s3; have c3 := congrArg V3.z s3
  v3c at a1; v3c at a2; v3c at a3; v3c at b1; v3c at b2; v3c at b3; v3c at c1; v3c at c2; v3c at c3
  split_ifs <;> v3ext <;> try ring1
  · linear_combination (angf * (fx.pi / 3 - angleWithR fx (p2 - p1) (p3 - p1))) * a1
      + (angf * (fx.pi / 3 - angleWithR fx (p1 - p2) (p3 - p2))) * b1
      + (angf * (fx.pi / 3 - angleWithR fx (p1 - p3) (p2 - p3))) * c1
  · linear_combination (angf * (fx.pi / 3 - angleWithR fx (p2 - p1) (p3 - p1))) * a2
      + (angf * (fx.pi / 3 - angleWithR fx (p1 - p2) (p3 - p2))) * b2
      + (angf * (fx.pi / 3 - angleWithR fx (p1 - p3) (p2 - p3))) * c2
  · linear_combination (angf * (fx.pi / 3 - angleWithR fx (p2 - p1) (p3 - p1))) * a3
      + (angf * (fx.pi / 3 - angleWithR fx (p1 - p2) (p3 - p2))) * b3
      + (angf * (fx.pi / 3 - angleWithR fx (p1 - p3) (p2 - p3))) * c3


/-! ### bending -/

/-- Rodrigues' formula at an angle whose cosine is 0 -/
theorem rotate_quarter (fx : FX R) (e n : V3 R) (θ sn : R) (hc : fx.cos θ = 0) (hs : fx.sin θ = sn) :
    rotateAroundAxis fx e n θ = V3.cross n e * sn + n * V3.dot n e := by
  simp only [rotateAroundAxis, hc, hs, lit_one]
  v3ext <;> ring

/-- the three in-plane tangents of one face of the hinge cancel (normal along the area vector) -/
theorem inplane_sum (a b c : V3 R) (k sp : R) :
    let n := V3.cross (b - a) (c - a) * k
    (V3.cross n (c - a) * sp + n * V3.dot n (c - a))
      + (V3.cross n (c - b) * (-sp) + n * V3.dot n (c - b))
      + (V3.cross n (b - a) * (-sp) + n * V3.dot n (b - a)) = 0 := by
  intro n; simp only [n]; v3ext <;> ring

/-- … and exert no torque -/
theorem inplane_torque (a b c : V3 R) (k sp : R) :
    let n := V3.cross (b - a) (c - a) * k
    V3.cross b (V3.cross n (c - a) * sp + n * V3.dot n (c - a))
      + V3.cross a (V3.cross n (c - b) * (-sp) + n * V3.dot n (c - b))
      + V3.cross c (V3.cross n (b - a) * (-sp) + n * V3.dot n (b - a)) = 0 := by
  intro n; simp only [n]; v3ext <;> ring

/-- moment arm of the three hinge-angle gradients of a face (polynomial core) -/
theorem arm (a b c : V3 R) :
    let C := V3.cross (b - a) (c - a)
    V3.cross a (C * (-(V3.dot (c - b) ((b - a) * (-1 : R)))))
      + V3.cross b (C * (-(V3.dot (b - a) (c - a))))
      + V3.cross c (C * V3.normSq (b - a)) = (b - a) * V3.normSq C := by
  intro C; simp only [C]; v3ext <;> ring


/-- the four hinge-angle gradients sum to zero once `cot α₁ + cot α₃ = |e|²/2A₁`, `cot α₂ + cot α₄ = |e|²/2A₂` -/
theorem theta_force (n1 n2 : V3 R) (c1 c2 c3 c4 L a1 a2 : R) (hL : L ≠ 0) (ha1 : a1 ≠ 0) (ha2 : a2 ≠ 0)
    (h13 : c1 + c3 = L * L / (2 * a1)) (h24 : c2 + c4 = L * L / (2 * a2)) :
    (n1 * c3 + n2 * c4) * (-1 / L) + (n1 * c1 + n2 * c2) * (-1 / L) + n1 * (L / (2 * a1)) + n2 * (L / (2 * a2)) = 0 := by
  have e3 : c3 = L * L / (2 * a1) - c1 := by linear_combination h13
  have e4 : c4 = L * L / (2 * a2) - c2 := by linear_combination h24
  subst e3 e4
  v3ext <;> field_simp <;> ring

/-- … and exert no torque when the two normals are the oppositely oriented unit area vectors -/
theorem theta_torque (p1 p2 p3 p4 : V3 R) (k1 k2 σ c1 c2 c3 c4 L a1 a2 : R) (hL : L ≠ 0) (ha1 : a1 ≠ 0) (ha2 : a2 ≠ 0)
    (hLL : L * L = V3.normSq (p2 - p1))
    (hc1 : c1 = V3.dot (p2 - p1) (p3 - p1) / (2 * a1)) (hc2 : c2 = V3.dot (p2 - p1) (p4 - p1) / (2 * a2))
    (hc3 : c3 = V3.dot (p3 - p2) ((p2 - p1) * (-1 : R)) / (2 * a1))
    (hc4 : c4 = V3.dot (p4 - p2) ((p2 - p1) * (-1 : R)) / (2 * a2))
    (hk1 : k1 * V3.normSq (V3.cross (p2 - p1) (p3 - p1)) = σ * (2 * a1))
    (hk2 : k2 * V3.normSq (V3.cross (p2 - p1) (p4 - p1)) = -σ * (2 * a2)) :
    V3.cross p1 ((V3.cross (p2 - p1) (p3 - p1) * k1 * c3 + V3.cross (p2 - p1) (p4 - p1) * k2 * c4) * (-1 / L))
      + V3.cross p2 ((V3.cross (p2 - p1) (p3 - p1) * k1 * c1 + V3.cross (p2 - p1) (p4 - p1) * k2 * c2) * (-1 / L))
      + V3.cross p3 (V3.cross (p2 - p1) (p3 - p1) * k1 * (L / (2 * a1)))
      + V3.cross p4 (V3.cross (p2 - p1) (p4 - p1) * k2 * (L / (2 * a2))) = 0 := by
  have A1 := arm p1 p2 p3
  have A2 := arm p1 p2 p4
  simp only [] at A1 A2
  rw [← hLL] at A1 A2
  have hu : V3.normSq (V3.cross (p2 - p1) (p3 - p1)) * (k1 / (2 * a1 * L))
      + V3.normSq (V3.cross (p2 - p1) (p4 - p1)) * (k2 / (2 * a2 * L)) = 0 := by
    have e1 : V3.normSq (V3.cross (p2 - p1) (p3 - p1)) * (k1 / (2 * a1 * L)) = σ / L := by
      rw [show V3.normSq (V3.cross (p2 - p1) (p3 - p1)) * (k1 / (2 * a1 * L))
        = (k1 * V3.normSq (V3.cross (p2 - p1) (p3 - p1))) / (2 * a1 * L) by ring, hk1]
      field_simp
    have e2 : V3.normSq (V3.cross (p2 - p1) (p4 - p1)) * (k2 / (2 * a2 * L)) = -σ / L := by
      rw [show V3.normSq (V3.cross (p2 - p1) (p4 - p1)) * (k2 / (2 * a2 * L))
        = (k2 * V3.normSq (V3.cross (p2 - p1) (p4 - p1))) / (2 * a2 * L) by ring, hk2]
      field_simp
    rw [e1, e2]; ring
  subst hc1 hc2 hc3 hc4
  have split :
      V3.cross p1 ((V3.cross (p2 - p1) (p3 - p1) * k1 * (V3.dot (p3 - p2) ((p2 - p1) * (-1 : R)) / (2 * a1))
          + V3.cross (p2 - p1) (p4 - p1) * k2 * (V3.dot (p4 - p2) ((p2 - p1) * (-1 : R)) / (2 * a2))) * (-1 / L))
        + V3.cross p2 ((V3.cross (p2 - p1) (p3 - p1) * k1 * (V3.dot (p2 - p1) (p3 - p1) / (2 * a1))
          + V3.cross (p2 - p1) (p4 - p1) * k2 * (V3.dot (p2 - p1) (p4 - p1) / (2 * a2))) * (-1 / L))
        + V3.cross p3 (V3.cross (p2 - p1) (p3 - p1) * k1 * (L / (2 * a1)))
        + V3.cross p4 (V3.cross (p2 - p1) (p4 - p1) * k2 * (L / (2 * a2)))
      = (V3.cross p1 (V3.cross (p2 - p1) (p3 - p1) * (-(V3.dot (p3 - p2) ((p2 - p1) * (-1 : R)))))
          + V3.cross p2 (V3.cross (p2 - p1) (p3 - p1) * (-(V3.dot (p2 - p1) (p3 - p1))))
          + V3.cross p3 (V3.cross (p2 - p1) (p3 - p1) * (L * L))) * (k1 / (2 * a1 * L))
        + (V3.cross p1 (V3.cross (p2 - p1) (p4 - p1) * (-(V3.dot (p4 - p2) ((p2 - p1) * (-1 : R)))))
          + V3.cross p2 (V3.cross (p2 - p1) (p4 - p1) * (-(V3.dot (p2 - p1) (p4 - p1))))
          + V3.cross p4 (V3.cross (p2 - p1) (p4 - p1) * (L * L))) * (k2 / (2 * a2 * L)) := by
    generalize V3.dot (p3 - p2) ((p2 - p1) * (-1 : R)) = d3
    generalize V3.dot (p4 - p2) ((p2 - p1) * (-1 : R)) = d4
    generalize V3.dot (p2 - p1) (p3 - p1) = d1
    generalize V3.dot (p2 - p1) (p4 - p1) = d2
    generalize V3.cross (p2 - p1) (p3 - p1) = C1
    generalize V3.cross (p2 - p1) (p4 - p1) = C2
    v3ext <;> field_simp <;> ring
  rw [split, A1, A2]
  have fin : (p2 - p1) * V3.normSq (V3.cross (p2 - p1) (p3 - p1)) * (k1 / (2 * a1 * L))
      + (p2 - p1) * V3.normSq (V3.cross (p2 - p1) (p4 - p1)) * (k2 / (2 * a2 * L))
      = (p2 - p1) * (V3.normSq (V3.cross (p2 - p1) (p3 - p1)) * (k1 / (2 * a1 * L))
        + V3.normSq (V3.cross (p2 - p1) (p4 - p1)) * (k2 / (2 * a2 * L))) := by
    generalize V3.normSq (V3.cross (p2 - p1) (p3 - p1)) = N1
    generalize V3.normSq (V3.cross (p2 - p1) (p4 - p1)) = N2
    v3ext <;> ring
  rw [fin, hu]
  v3ext <;> ring

/-- what the bending theorems assume about one hinge: the instances at this hinge of
    `sqrt(y)² = y`, `cos(±π/2) = 0`, `sin(−π/2) = −sin(π/2)`, `cot∠(u,v) · 2A = u·v`
    (`2A = |u×v|` the doubled area of the face spanned by `u`, `v`), `==` is equality, and the cached
    normals are the area vectors of the two faces — which traverse the edge in opposite directions —
    divided by the doubled cached areas -/
structure HingeHyp (fx : FX R) (p1 p2 p3 p4 n1v n2v : V3 R) (a1 a2 : R) : Prop where
  eqb : EqbOK fx
  sqrtL : SqrtSq fx (V3.normSq (p2 - p1))
  cosP : fx.cos (fx.pi / 2) = 0
  cosM : fx.cos (-fx.pi / 2) = 0
  sinM : fx.sin (-fx.pi / 2) = - fx.sin (fx.pi / 2)
  cot1 : cot fx (angleWithL fx (p2 - p1) (p3 - p1)) * (2 * a1) = V3.dot (p2 - p1) (p3 - p1)
  cot2 : cot fx (angleWithL fx (p2 - p1) (p4 - p1)) * (2 * a2) = V3.dot (p2 - p1) (p4 - p1)
  cot3 : cot fx (angleWithR fx (p3 - p2) ((p2 - p1) * (-1 : R))) * (2 * a1) = V3.dot (p3 - p2) ((p2 - p1) * (-1 : R))
  cot4 : cot fx (angleWithR fx (p4 - p2) ((p2 - p1) * (-1 : R))) * (2 * a2) = V3.dot (p4 - p2) ((p2 - p1) * (-1 : R))
  par : ∃ k1 k2 σ : R, n1v = V3.cross (p2 - p1) (p3 - p1) * k1 ∧ n2v = V3.cross (p2 - p1) (p4 - p1) * k2
        ∧ k1 * V3.normSq (V3.cross (p2 - p1) (p3 - p1)) = σ * (2 * a1)
        ∧ k2 * V3.normSq (V3.cross (p2 - p1) (p4 - p1)) = -σ * (2 * a2)

/-- the four bending forces of a hinge: zero sum and zero torque -/
theorem bendingHinge_balanced (fx : FX R) (p1 p2 p3 p4 n1v n2v : V3 R) (a1 a2 kb1 kb2 : R)
    (H : HingeHyp fx p1 p2 p3 p4 n1v n2v a1 a2) :
    (bendingHinge fx p1 p2 p3 p4 n1v n2v a1 a2 kb1 kb2).1 + (bendingHinge fx p1 p2 p3 p4 n1v n2v a1 a2 kb1 kb2).2.1
      + (bendingHinge fx p1 p2 p3 p4 n1v n2v a1 a2 kb1 kb2).2.2.1
      + (bendingHinge fx p1 p2 p3 p4 n1v n2v a1 a2 kb1 kb2).2.2.2 = 0
    ∧ V3.cross p1 (bendingHinge fx p1 p2 p3 p4 n1v n2v a1 a2 kb1 kb2).1
      + V3.cross p2 (bendingHinge fx p1 p2 p3 p4 n1v n2v a1 a2 kb1 kb2).2.1
      + V3.cross p3 (bendingHinge fx p1 p2 p3 p4 n1v n2v a1 a2 kb1 kb2).2.2.1
      + V3.cross p4 (bendingHinge fx p1 p2 p3 p4 n1v n2v a1 a2 kb1 kb2).2.2.2 = 0 := by
  generalize hr : bendingHinge fx p1 p2 p3 p4 n1v n2v a1 a2 kb1 kb2 = r
  unfold bendingHinge at hr
  extract_lets mat abs sA nn1 nn2 e0 e1 e2 e3 e4 al1 al2 al3 al4 dt th0 th1 th L pf1 pf2 g0t g1t g2t g3t
    t1 t2 t3 t4 t00 t01 pf3 g0i g1i g2i g3i F0 F1 F2 F3 at hr
  simp only [lit_zero, lit_one, lit_two, V3.zero_eq] at hr
  split_ifs at hr with c1 c2 c3
  · subst hr; simp [V3.cross_zero_right]
  · subst hr; simp [V3.cross_zero_right]
  · subst hr; simp [V3.cross_zero_right]
  · subst hr
    obtain ⟨k1, k2, σ, hn1, hn2, hk1, hk2⟩ := H.par
    have hL0 : L ≠ 0 := fun h => c2 (Or.inl (Or.inl ((H.eqb _ _).mpr h)))
    have ha1 : a1 ≠ 0 := fun h => c2 (Or.inl (Or.inr ((H.eqb _ _).mpr h)))
    have ha2 : a2 ≠ 0 := fun h => c2 (Or.inr ((H.eqb _ _).mpr h))
    have hLL : L * L = V3.normSq (p2 - p1) := H.sqrtL
    -- the quarter-turn tangents
    have ht1 : t1 = V3.cross n1v (p3 - p1) * fx.sin (fx.pi / 2) + n1v * V3.dot n1v (p3 - p1) :=
      rotate_quarter fx _ _ _ _ (by simpa using H.cosP) (by simp)
    have ht4 : t4 = V3.cross n2v (p4 - p2) * fx.sin (fx.pi / 2) + n2v * V3.dot n2v (p4 - p2) :=
      rotate_quarter fx _ _ _ _ (by simpa using H.cosP) (by simp)
    have ht01 : t01 = V3.cross n2v (p2 - p1) * fx.sin (fx.pi / 2) + n2v * V3.dot n2v (p2 - p1) :=
      rotate_quarter fx _ _ _ _ (by simpa using H.cosP) (by simp)
    have ht2 : t2 = V3.cross n2v (p4 - p1) * (-fx.sin (fx.pi / 2)) + n2v * V3.dot n2v (p4 - p1) :=
      rotate_quarter fx _ _ _ _ (by simpa using H.cosM) (by simpa using H.sinM)
    have ht3 : t3 = V3.cross n1v (p3 - p2) * (-fx.sin (fx.pi / 2)) + n1v * V3.dot n1v (p3 - p2) :=
      rotate_quarter fx _ _ _ _ (by simpa using H.cosM) (by simpa using H.sinM)
    have ht00 : t00 = V3.cross n1v (p2 - p1) * (-fx.sin (fx.pi / 2)) + n1v * V3.dot n1v (p2 - p1) :=
      rotate_quarter fx _ _ _ _ (by simpa using H.cosM) (by simpa using H.sinM)
    have h2a1 : (2 : R) * a1 ≠ 0 := mul_ne_zero two_ne_zero ha1
    have h2a2 : (2 : R) * a2 ≠ 0 := mul_ne_zero two_ne_zero ha2
    have hc1 : cot fx al1 = V3.dot (p2 - p1) (p3 - p1) / (2 * a1) := (eq_div_iff h2a1).mpr H.cot1
    have hc2 : cot fx al2 = V3.dot (p2 - p1) (p4 - p1) / (2 * a2) := (eq_div_iff h2a2).mpr H.cot2
    have hc3 : cot fx al3 = V3.dot (p3 - p2) ((p2 - p1) * (-1 : R)) / (2 * a1) := by
      have e : al3 = angleWithR fx (p3 - p2) ((p2 - p1) * (-1 : R)) := by simp only [al3, e3, e0, lit_one]
      rw [e]; exact (eq_div_iff h2a1).mpr H.cot3
    have hc4 : cot fx al4 = V3.dot (p4 - p2) ((p2 - p1) * (-1 : R)) / (2 * a2) := by
      have e : al4 = angleWithR fx (p4 - p2) ((p2 - p1) * (-1 : R)) := by simp only [al4, e4, e0, lit_one]
      rw [e]; exact (eq_div_iff h2a2).mpr H.cot4
    have h13 : cot fx al1 + cot fx al3 = L * L / (2 * a1) := by
      rw [hc1, hc3, hLL]; v3c; field_simp; ring
    have h24 : cot fx al2 + cot fx al4 = L * L / (2 * a2) := by
      rw [hc2, hc4, hLL]; v3c; field_simp; ring
    -- in-plane parts of the two faces
    have s1 := inplane_sum p1 p2 p3 k1 (fx.sin (fx.pi / 2))
    have s2 := inplane_sum p1 p2 p4 k2 (-fx.sin (fx.pi / 2))
    have q1 := inplane_torque p1 p2 p3 k1 (fx.sin (fx.pi / 2))
    have q2 := inplane_torque p1 p2 p4 k2 (-fx.sin (fx.pi / 2))
    simp only [neg_neg] at s1 s2 q1 q2
    rw [← hn1, ← ht1, ← ht3, ← ht00] at s1 q1
    rw [← hn2, ← ht2, ← ht4, ← ht01] at s2 q2
    -- hinge-angle parts
    have sθ := theta_force n1v n2v (cot fx al1) (cot fx al2) (cot fx al3) (cot fx al4) L a1 a2 hL0 ha1 ha2 h13 h24
    have qθ := theta_torque p1 p2 p3 p4 k1 k2 σ (cot fx al1) (cot fx al2) (cot fx al3) (cot fx al4) L a1 a2
      hL0 ha1 ha2 hLL hc1 hc2 hc3 hc4 hk1 hk2
    rw [← hn1, ← hn2] at qθ
    clear_value t1 t2 t3 t4 t00 t01 pf1 pf2 pf3 sA L al1 al2 al3 al4
    constructor
    · show F0 + F1 + F2 + F3 = 0
      have e : F0 + F1 + F2 + F3 = ((t1 + t3 + t00) + (t2 + t4 + t01)) * (pf3 * pf1)
          + ((n1v * cot fx al3 + n2v * cot fx al4) * (-1 / L) + (n1v * cot fx al1 + n2v * cot fx al2) * (-1 / L)
              + n1v * (L / (2 * a1)) + n2v * (L / (2 * a2))) * pf2 := by
        simp only [F0, F1, F2, F3, g0i, g1i, g2i, g3i, g0t, g1t, g2t, g3t, nn1, nn2, e0, lit_one, lit_two]
        v3ext <;> ring
      rw [e, s1, s2, sθ]; v3ext <;> ring
    · show V3.cross p1 F0 + V3.cross p2 F1 + V3.cross p3 F2 + V3.cross p4 F3 = 0
      have e : V3.cross p1 F0 + V3.cross p2 F1 + V3.cross p3 F2 + V3.cross p4 F3
          = ((V3.cross p2 t1 + V3.cross p1 t3 + V3.cross p3 t00) + (V3.cross p2 t2 + V3.cross p1 t4 + V3.cross p4 t01)) * (pf3 * pf1)
          + (V3.cross p1 ((n1v * cot fx al3 + n2v * cot fx al4) * (-1 / L))
              + V3.cross p2 ((n1v * cot fx al1 + n2v * cot fx al2) * (-1 / L))
              + V3.cross p3 (n1v * (L / (2 * a1))) + V3.cross p4 (n2v * (L / (2 * a2)))) * pf2 := by
        simp only [F0, F1, F2, F3, g0i, g1i, g2i, g3i, g0t, g1t, g2t, g3t, nn1, nn2, e0, lit_one, lit_two]
        v3ext <;> ring
      rw [e, q1, q2, qθ]; v3ext <;> ring

end Simu.Forces
