import SimuVerif.Lemmas.SurfaceSplitSwap
import SimuVerif.Lemmas.C11_Remesh
import Batteries.Tactic.OpenPrivate
/-
  The executable bookkeeping model `Model/Remesh.lean` REFINES the abstract surface operations of
  `Model/Surface.lean` — the link that `Driver/C01.lean` validates at run time by comparing `Surface.canon`
  (`absCheck`) is proved here for `add_face`, `delete_face`, `split_edge` and `swap_edge`.

  Everything is stated for an arbitrary scalar type `R` with the bare operations the model needs (no field
  laws): it holds at `Float`, the type the driver runs at, and at every ordered field.

  Method.  `slots c : List (Option Tri)` is the face array seen from outside (`some t` = live triangle,
  `none` = unused slot); `abs c = (slots c).filterMap id`.  Every primitive either leaves `slots` alone
  (`updFaceGeom`, `setFaceType`, `addNode`, `deleteNode`), sets one slot to `none` (`deleteFace`) or fills a
  free / new slot (`addFace`); `liveM_set` turns that into equations between multisets of triangles.

  Main results
  * `TriEquiv` is an equivalence; `TriEquiv.of_canon` (the driver's test implies it; needs `QS.qsort_perm`,
    proved here because core has no such lemma); `heM_triEquiv`, `inv_triEquiv` (`Inv` only depends on the
    triangles up to rotation).
  * `FaceFreeOk` (slot-store invariant of the face free list), preserved by every operation.
  * `abs_addFace`, `abs_deleteFace`, `abs_setFaceType`, `abs_updFaceGeom`, `abs_addNode`, `abs_deleteNode`.
  * `splitEdge_refines`: `(abs c').Perm (splitT (abs c) e.n1 e.n2 (newSlot c))` — stronger than asked, no rotation
    is needed; `splitEdge_triEquiv`, `splitEdge_inv`.
  * `swapEdge_refines`: `TriEquiv (abs c') (swapT (abs c) e.n1 e.n2)`; `swapEdge_inv`.  `checkWinding_eq`,
    `cwFlip_*`: `check_face_winding_order` flips exactly when the reference traverses the shared edge in the same
    direction; `swap_noflip` / `swap_flip`: under `Inv` both new faces are flipped or neither.
  * decidable criteria `faceFreeOkB`, `edgeFacesB`, `edgeIdxSoundB` (uses injectivity of the Cantor key,
    `Edge.key_inj`), and `swapGuard_of_B`, `splitGuard_of_B` (the Boolean guards the driver evaluates imply the
    propositional ones); examples on the octahedron over ℚ evaluated by the kernel.

  STATEMENT CHANGES with respect to the first formulation
  * `e.n1 ≠ e.n2` is an explicit hypothesis of the split and swap theorems.  It is necessary: for a "loop" entry
    with `n1 = n2` the abstract operation is the identity (`findDir T a a = none` under `NonDeg`) while the code
    deletes two faces and creates four.
  * swap: the abstract guard `SwapGuard (abs c) e.n1 e.n2` (what the driver checks as `swapGuardB`) and soundness of
    the edge index `EdgeIdxSound c` are hypotheses, because the reference faces f5, f8 are read from the edge
    index.  With them the code's own guards provably do not fire, so "the operation is performed (c' ≠ c)" is NOT
    needed as a hypothesis.  Deriving `SwapGuard` from the code's guards instead would need COMPLETENESS of the
    edge index (every half-edge of `abs c` has an entry) — e.g. for the "pillow" [(c,a,b),(c,b,a)] (c = d) both
    code guards pass and the code only fails later with `badopt`.

  NOT proved here (see the report): `mergeEdge` refines `collapseT` (needs the edge index as a sorted key-unique
  map through `replaceNode.loop`, and that the fan around each end node is a single cycle — `Inv` alone allows a
  pinched vertex, for which the walk of `replace_node` would miss faces); preservation of `EdgeIdxSound` by the
  operations.
-/
set_option linter.unusedSectionVars false
set_option linter.unusedVariables false
namespace Simu.Remesh
open Simu Simu.Surface
open Simu.C11 (bind_ok newSlot)

/-- from `(match o with | some x => .ok x | none => .error _) = .ok v` conclude `o = some v` -/
macro "bok " h:ident " with " x:rcasesPat " , " hx:rcasesPat : tactic =>
  `(tactic| (have htmp := bind_ok $h:ident; clear $h; obtain ⟨$x, $hx, $h:ident⟩ := htmp))

macro "opt_ok " h:ident : tactic =>
  `(tactic| (split at $h:ident <;> first | (cases $h:ident; assumption) | cases $h:ident))

/-! ## 0. `Array.qsort` returns a permutation (not in core / Batteries / Mathlib at this version) -/
end Simu.Remesh
open private Array.qsort.sort Array.qpartition.loop from Init.Data.Array.QSort.Basic
namespace Simu.Remesh.QS
variable {α : Type}

theorem loop_perm {n : Nat} (lt : α → α → Bool) (lo hi : Nat) (hhi : hi < n) (pivot : α) :
    ∀ (d : Nat) (as : Vector α n) (i k : Nat) (ilo : lo ≤ i) (ik : i ≤ k) (w : k ≤ hi), hi - k = d →
      (Array.qpartition.loop lt lo hi hhi pivot as i k ilo ik w).2.Perm as := by
  intro d
  induction d with
  | zero =>
    intro as i k ilo ik w hd
    rw [Array.qpartition.loop.eq_def]
    have : ¬ k < hi := by omega
    simp only [this, dite_false]
    exact Vector.swap_perm _ _
  | succ d ih =>
    intro as i k ilo ik w hd
    rw [Array.qpartition.loop.eq_def]
    have : k < hi := by omega
    simp only [this, dite_true]
    split
    · exact (ih _ _ _ _ _ _ (by omega)).trans (Vector.swap_perm _ _)
    · exact ih _ _ _ _ _ _ (by omega)

theorem ite_swap_perm {n : Nat} (as : Vector α n) (c : Bool) (i j : Nat) (hi : i < n) (hj : j < n) :
    (if c = true then as.swap i j hi hj else as).Perm as := by
  split
  · exact Vector.swap_perm _ _
  · exact Vector.Perm.refl _

theorem qpartition_perm {n : Nat} (as : Vector α n) (lt : α → α → Bool) (lo hi : Nat) (w : lo ≤ hi)
    (hlo : lo < n) (hhi : hi < n) : (Array.qpartition as lt lo hi w hlo hhi).2.Perm as := by
  unfold Array.qpartition
  simp only []
  refine (loop_perm lt lo hi hhi _ _ _ _ _ _ _ _ rfl).trans ?_
  refine (ite_swap_perm _ _ _ _ _ _).trans ?_
  refine (ite_swap_perm _ _ _ _ _ _).trans ?_
  exact ite_swap_perm _ _ _ _ _ _

theorem sort_perm {n : Nat} (lt : α → α → Bool) : ∀ (d : Nat) (as : Vector α n) (lo hi : Nat) (w : lo ≤ hi)
    (hlo : lo < n) (hhi : hi < n), hi - lo ≤ d → (Array.qsort.sort lt as lo hi w hlo hhi).Perm as := by
  intro d
  induction d with
  | zero =>
    intro as lo hi w hlo hhi hd
    rw [Array.qsort.sort.eq_def]
    have : ¬ lo < hi := by omega
    simp only [this, dite_false]
    exact Vector.Perm.refl _
  | succ d ih =>
    intro as lo hi w hlo hhi hd
    rw [Array.qsort.sort.eq_def]
    split
    · rename_i h1
      have hp := qpartition_perm as lt lo hi w hlo hhi
      generalize Array.qpartition as lt lo hi w hlo hhi = r at hp
      obtain ⟨⟨mid, hmid⟩, as'⟩ := r
      simp only
      split
      · exact hp
      · rename_i h2
        refine (ih _ _ _ _ _ _ (by omega)).trans ?_
        exact (ih _ _ _ _ _ _ (by omega)).trans hp
    · exact Vector.Perm.refl _

theorem qsort_perm (as : Array α) (lt : α → α → Bool) : (as.qsort lt).Perm as := by
  unfold Array.qsort
  split
  · exact Array.Perm.refl _
  · exact (sort_perm lt _ _ _ _ _ _ _ (Nat.le_refl _)).toArray

/-- the list sorted by `Array.qsort` is a permutation of the input -/
theorem qsort_toList_perm (l : List α) (lt : α → α → Bool) : (l.toArray.qsort lt).toList.Perm l :=
  Array.perm_iff_toList_perm.1 (qsort_perm l.toArray lt)

end Simu.Remesh.QS
namespace Simu.Remesh
open Simu Simu.Surface
open Simu.C11 (bind_ok newSlot)

/-! ## 1. triangles up to rotation -/

/-- same multiset of triangles up to cyclic rotation of each triangle -/
def TriEquiv (S T : List Tri) : Prop := (S.map canonTri).Perm (T.map canonTri)

theorem TriEquiv.refl (S : List Tri) : TriEquiv S S := List.Perm.refl _
theorem TriEquiv.symm {S T : List Tri} (h : TriEquiv S T) : TriEquiv T S := List.Perm.symm h
theorem TriEquiv.trans {S T U : List Tri} (h1 : TriEquiv S T) (h2 : TriEquiv T U) : TriEquiv S U :=
  List.Perm.trans h1 h2
theorem triEquiv_equivalence : Equivalence TriEquiv := ⟨TriEquiv.refl, TriEquiv.symm, TriEquiv.trans⟩
theorem TriEquiv.of_perm {S T : List Tri} (h : S.Perm T) : TriEquiv S T := h.map _

/-- the run-time test of the driver (`absCheck`: equal `Surface.canon`) implies `TriEquiv` -/
theorem TriEquiv.of_canon {S T : List Tri} (h : canon S = canon T) : TriEquiv S T := by
  unfold TriEquiv
  have hS := QS.qsort_toList_perm (S.map canonTri) triLt
  have hT := QS.qsort_toList_perm (T.map canonTri) triLt
  unfold canon at h
  rw [h] at hS
  exact hS.symm.trans hT

theorem canonTri_cases (t : Tri) :
    canonTri t = t ∨ canonTri t = (t.2.1, t.2.2, t.1) ∨ canonTri t = (t.2.2, t.1, t.2.1) := by
  obtain ⟨a, b, c⟩ := t
  simp only [canonTri]
  split
  · exact Or.inl rfl
  · split
    · exact Or.inr (Or.inl rfl)
    · exact Or.inr (Or.inr rfl)

theorem canonTri_idem (t : Tri) : canonTri (canonTri t) = canonTri t := by
  obtain ⟨a, b, c⟩ := t
  simp only [canonTri, Bool.and_eq_true, decide_eq_true_eq]
  split_ifs <;> first | rfl | omega

/-- a rotation has the same canonical form -/
theorem canonTri_rot (a b c : Nat) (hn : a ≠ b ∧ b ≠ c ∧ c ≠ a) : canonTri (b, c, a) = canonTri (a, b, c) := by
  simp only [canonTri, Bool.and_eq_true, decide_eq_true_eq]
  split_ifs <;> first | rfl | (simp only [Prod.mk.injEq]; omega)

theorem heTriM_canonTri (t : Tri) : heTriM (canonTri t) = heTriM t := by
  obtain ⟨a, b, c⟩ := t
  rcases canonTri_cases (a, b, c) with h | h | h
  · rw [h]
  · rw [h]; exact tri_rot (b, c) (c, a) (a, b)
  · rw [h]; exact (tri_rot (a, b) (b, c) (c, a)).symm

theorem heM_map_canonTri (T : List Tri) : heM (T.map canonTri) = heM T := by
  induction T with
  | nil => rfl
  | cons t T ih => rw [List.map_cons, heM_cons, heM_cons, ih, heTriM_canonTri]

/-- the half-edge multiset only depends on the triangles up to rotation -/
theorem heM_triEquiv {S T : List Tri} (h : TriEquiv S T) : heM S = heM T := by
  rw [← heM_map_canonTri S, ← heM_map_canonTri T]; exact heM_perm h

theorem closed_triEquiv {S T : List Tri} (h : TriEquiv S T) : Closed S ↔ Closed T := by
  unfold Closed; rw [heM_triEquiv h]

theorem simple_triEquiv {S T : List Tri} (h : TriEquiv S T) : Simple S ↔ Simple T := by
  unfold Simple; rw [heM_triEquiv h]

theorem nondeg_map_canonTri (T : List Tri) : NonDeg (T.map canonTri) ↔ NonDeg T := by
  unfold NonDeg
  constructor
  · intro H t ht
    have := H _ (List.mem_map_of_mem ht)
    obtain ⟨a, b, c⟩ := t
    rcases canonTri_cases (a, b, c) with h | h | h <;> rw [h] at this <;> simp only at this ⊢ <;> omega
  · intro H t' ht'
    obtain ⟨t, ht, rfl⟩ := List.mem_map.1 ht'
    have := H t ht
    obtain ⟨a, b, c⟩ := t
    rcases canonTri_cases (a, b, c) with h | h | h <;> rw [h] <;> simp only at this ⊢ <;> omega

theorem nondeg_triEquiv {S T : List Tri} (h : TriEquiv S T) : NonDeg S ↔ NonDeg T := by
  rw [← nondeg_map_canonTri S, ← nondeg_map_canonTri T]; exact nondeg_perm h

theorem inv_triEquiv {S T : List Tri} (h : TriEquiv S T) : Inv S ↔ Inv T :=
  ⟨fun H => ⟨(nondeg_triEquiv h).1 H.nondeg, (simple_triEquiv h).1 H.simple, (closed_triEquiv h).1 H.closed⟩,
   fun H => ⟨(nondeg_triEquiv h).2 H.nondeg, (simple_triEquiv h).2 H.simple, (closed_triEquiv h).2 H.closed⟩⟩

/-! ## 2. lists of optional triangles (the face slots seen from outside) -/

def live (L : List (Option Tri)) : List Tri := L.filterMap id

def o2m : Option Tri → Multiset Tri
  | none => 0
  | some t => {t}

def liveM (L : List (Option Tri)) : Multiset Tri := (live L : Multiset Tri)

theorem liveM_nil : liveM [] = 0 := rfl

theorem liveM_cons (x : Option Tri) (L : List (Option Tri)) : liveM (x :: L) = o2m x + liveM L := by
  cases x with
  | none => simp [liveM, live, o2m]
  | some t => simp [liveM, live, o2m]

theorem liveM_append (L L' : List (Option Tri)) : liveM (L ++ L') = liveM L + liveM L' := by
  simp [liveM, live, List.filterMap_append]

/-- exchanging the content of slot `i` -/
theorem liveM_set : ∀ (L : List (Option Tri)) (i : Nat) (x y : Option Tri), L[i]? = some y →
    liveM (L.set i x) + o2m y = liveM L + o2m x
  | [], i, x, y, h => by simp at h
  | z :: L, 0, x, y, h => by
    simp only [List.getElem?_cons_zero, Option.some.injEq] at h
    subst h
    simp only [List.set_cons_zero, liveM_cons]
    abel
  | z :: L, i + 1, x, y, h => by
    simp only [List.getElem?_cons_succ] at h
    have ih := liveM_set L i x y h
    simp only [List.set_cons_succ, liveM_cons]
    rw [add_assoc, ih, add_assoc]

theorem mem_live {L : List (Option Tri)} {i : Nat} {t : Tri} (h : L[i]? = some (some t)) : t ∈ live L := by
  unfold live
  rw [List.mem_filterMap]
  exact ⟨some t, List.mem_of_getElem? h, rfl⟩

/-! ## 3. the face store of a cell seen as a list of optional triangles -/
section
variable {R : Type} [Add R] [Sub R] [Mul R] [Div R] [Neg R] [Lit R] [LT R] [LE R] [DecidableLT R]
  [DecidableLE R] [DecidableEq R]

def triOf (f : Face R) : Option Tri := if f.used then some (f.n1, f.n2, f.n3) else none

def slotsA (fs : Array (Face R)) : List (Option Tri) := fs.toList.map triOf

/-- slot `i` holds `some t` when face slot `i` is a live triangle `t`, `none` when it is unused -/
def slots (c : Cell R) : List (Option Tri) := slotsA c.faces

theorem abs_eq_live (c : Cell R) : abs c = live (slots c) := by
  unfold abs live slots slotsA
  rw [List.filterMap_map]; rfl

/-- the live triangles as a multiset -/
def absM (c : Cell R) : Multiset Tri := (abs c : Multiset Tri)

theorem absM_eq (c : Cell R) : absM c = liveM (slots c) := by unfold absM liveM; rw [abs_eq_live]

theorem slotsA_get (fs : Array (Face R)) (i : Nat) : (slotsA fs)[i]? = (fs[i]?).map triOf := by
  unfold slotsA; rw [List.getElem?_map, Array.getElem?_toList]

theorem slotsA_set (fs : Array (Face R)) (i : Nat) (f : Face R) :
    slotsA (fs.set! i f) = (slotsA fs).set i (triOf f) := by
  unfold slotsA; rw [Array.set!_eq_setIfInBounds, Array.toList_setIfInBounds, List.map_set]

theorem slotsA_push (fs : Array (Face R)) (f : Face R) : slotsA (fs.push f) = slotsA fs ++ [triOf f] := by
  unfold slotsA; simp

theorem slotsA_length (fs : Array (Face R)) : (slotsA fs).length = fs.size := by simp [slotsA]

theorem slot_some_iff {c : Cell R} {i : Nat} {t : Tri} :
    (slots c)[i]? = some (some t) ↔ ∃ f, c.faces[i]? = some f ∧ f.used = true ∧ (f.n1, f.n2, f.n3) = t := by
  unfold slots; rw [slotsA_get]
  cases h : c.faces[i]? with
  | none => simp
  | some f => by_cases hu : f.used = true <;> simp [triOf, hu]

theorem slot_none_iff {c : Cell R} {i : Nat} :
    (slots c)[i]? = some none ↔ ∃ f, c.faces[i]? = some f ∧ f.used = false := by
  unfold slots; rw [slotsA_get]
  cases h : c.faces[i]? with
  | none => simp
  | some f => by_cases hu : f.used = true <;> simp [triOf, hu]

theorem set_of_getElem? {α : Type} {l : List α} {i : Nat} {x : α} (h : l[i]? = some x) : l.set i x = l := by
  obtain ⟨hi, hx⟩ := List.getElem?_eq_some_iff.1 h
  rw [← hx]; exact List.set_getElem_self hi

theorem slotsA_set_same (fs : Array (Face R)) (i : Nat) (f g : Face R) (h : fs[i]? = some f)
    (hg : triOf g = triOf f) : slotsA (fs.set! i g) = slotsA fs := by
  rw [slotsA_set, hg]
  exact set_of_getElem? (by rw [slotsA_get, h]; rfl)

theorem abs_of_slots {c c' : Cell R} (h : slots c' = slots c) : abs c' = abs c := by
  rw [abs_eq_live, abs_eq_live, h]

/-! ### operations that do not touch the triangles -/

theorem updFaceGeom_eq (fn : Fn R) (c : Cell R) (fid : Nat) :
    ∃ fs, updFaceGeom fn c fid = { c with faces := fs } ∧ slotsA fs = slots c := by
  unfold updFaceGeom
  split
  · exact ⟨c.faces, rfl, rfl⟩
  · rename_i f hf
    generalize normalArea fn _ _ _ = p
    obtain ⟨nrm, ar⟩ := p
    exact ⟨_, rfl, slotsA_set_same _ _ _ _ hf rfl⟩

theorem setFaceType_eq (c : Cell R) (fid t : Nat) :
    ∃ fs, setFaceType c fid t = { c with faces := fs } ∧ slotsA fs = slots c := by
  unfold setFaceType
  split
  · rename_i f hf
    exact ⟨_, rfl, slotsA_set_same _ _ _ _ hf rfl⟩
  · exact ⟨c.faces, rfl, rfl⟩

theorem slots_updFaceGeom (fn : Fn R) (c : Cell R) (fid : Nat) : slots (updFaceGeom fn c fid) = slots c := by
  obtain ⟨fs, h, hs⟩ := updFaceGeom_eq fn c fid; rw [h]; exact hs

theorem slots_setFaceType (c : Cell R) (fid t : Nat) : slots (setFaceType c fid t) = slots c := by
  obtain ⟨fs, h, hs⟩ := setFaceType_eq c fid t; rw [h]; exact hs

theorem freeFaces_updFaceGeom (fn : Fn R) (c : Cell R) (fid : Nat) :
    (updFaceGeom fn c fid).freeFaces = c.freeFaces := by
  obtain ⟨fs, h, hs⟩ := updFaceGeom_eq fn c fid; rw [h]

theorem freeFaces_setFaceType (c : Cell R) (fid t : Nat) : (setFaceType c fid t).freeFaces = c.freeFaces := by
  obtain ⟨fs, h, hs⟩ := setFaceType_eq c fid t; rw [h]

theorem abs_updFaceGeom (fn : Fn R) (c : Cell R) (fid : Nat) : abs (updFaceGeom fn c fid) = abs c :=
  abs_of_slots (slots_updFaceGeom fn c fid)

theorem abs_setFaceType (c : Cell R) (fid t : Nat) : abs (setFaceType c fid t) = abs c :=
  abs_of_slots (slots_setFaceType c fid t)

theorem faces_addNode (c : Cell R) (p m : V3 R) :
    (addNode c p m).1.faces = c.faces ∧ (addNode c p m).1.freeFaces = c.freeFaces := by
  unfold addNode; cases c.freeNodes <;> exact ⟨rfl, rfl⟩

theorem abs_addNode (c : Cell R) (p m : V3 R) : abs (addNode c p m).1 = abs c := by
  unfold abs; rw [(faces_addNode c p m).1]

theorem abs_deleteNode (c : Cell R) (i : Nat) : abs (deleteNode c i) = abs c := rfl

theorem addNode_snd' (c : Cell R) (p m : V3 R) : (addNode c p m).2 = newSlot c := by
  unfold addNode newSlot; cases c.freeNodes <;> rfl

/-! ### the free list of face slots -/

/-- every id of `freeFaces` is a slot of the face array, that slot is unused, no id is queued twice -/
structure FaceFreeOk (c : Cell R) : Prop where
  free : ∀ i ∈ c.freeFaces, ∃ f, c.faces[i]? = some f ∧ f.used = false
  nodup : c.freeFaces.Nodup

theorem FaceFreeOk.slot {c : Cell R} (h : FaceFreeOk c) {i : Nat} (hi : i ∈ c.freeFaces) :
    (slots c)[i]? = some none := slot_none_iff.2 (h.free i hi)

theorem FaceFreeOk.of_slots {c : Cell R} (h1 : ∀ i ∈ c.freeFaces, (slots c)[i]? = some none)
    (h2 : c.freeFaces.Nodup) : FaceFreeOk c := ⟨fun i hi => slot_none_iff.1 (h1 i hi), h2⟩

theorem FaceFreeOk.congr {c c' : Cell R} (hs : slots c' = slots c) (hf : c'.freeFaces = c.freeFaces)
    (h : FaceFreeOk c) : FaceFreeOk c' :=
  FaceFreeOk.of_slots (by rw [hs, hf]; exact fun i hi => h.slot hi) (by rw [hf]; exact h.nodup)

theorem FaceFreeOk.not_mem {c : Cell R} (h : FaceFreeOk c) {i : Nat} {t : Tri}
    (ht : (slots c)[i]? = some (some t)) : i ∉ c.freeFaces := by
  intro hi; rw [h.slot hi] at ht; cases ht

theorem faceFreeOk_updFaceGeom {fn : Fn R} {c : Cell R} {fid : Nat} (h : FaceFreeOk c) :
    FaceFreeOk (updFaceGeom fn c fid) := h.congr (slots_updFaceGeom fn c fid) (freeFaces_updFaceGeom fn c fid)

theorem faceFreeOk_setFaceType {c : Cell R} {fid t : Nat} (h : FaceFreeOk c) :
    FaceFreeOk (setFaceType c fid t) := h.congr (slots_setFaceType c fid t) (freeFaces_setFaceType c fid t)

theorem faceFreeOk_addNode {c : Cell R} {p m : V3 R} (h : FaceFreeOk c) : FaceFreeOk (addNode c p m).1 :=
  h.congr (by unfold slots; rw [(faces_addNode c p m).1]) (faces_addNode c p m).2

theorem faceFreeOk_deleteNode {c : Cell R} {i : Nat} (h : FaceFreeOk c) : FaceFreeOk (deleteNode c i) :=
  FaceFreeOk.congr (c := c) (c' := deleteNode c i) rfl rfl h

/-! ### `delete_face` -/

theorem deleteFace_eq {c c' : Cell R} {fid : Nat} (h : deleteFace c fid = .ok c') :
    ∃ f s3, c.faces[fid]? = some f ∧
      c' = { c with edges := s3, faces := c.faces.set! fid { f with used := false },
                    freeFaces := fid :: c.freeFaces } := by
  unfold deleteFace at h
  split at h
  · cases h
  · rename_i f hf
    obtain ⟨s1, _, h⟩ := bind_ok h
    obtain ⟨s2, _, h⟩ := bind_ok h
    obtain ⟨s3, _, h⟩ := bind_ok h
    cases h
    exact ⟨f, s3, hf, rfl⟩

structure DelRes (c c' : Cell R) (fid : Nat) (t : Tri) : Prop where
  slots_eq : slots c' = (slots c).set fid none
  free_eq : c'.freeFaces = fid :: c.freeFaces
  nodes_eq : c'.nodes = c.nodes
  freeNodes_eq : c'.freeNodes = c.freeNodes
  absM_eq : absM c = t ::ₘ absM c'
  ffo : FaceFreeOk c → FaceFreeOk c'

theorem deleteFace_spec {c c' : Cell R} {fid : Nat} (h : deleteFace c fid = .ok c') {t : Tri}
    (ht : (slots c)[fid]? = some (some t)) : DelRes c c' fid t := by
  obtain ⟨f, s3, hf, hc'⟩ := deleteFace_eq h
  have hlt : fid < (slots c).length := (List.getElem?_eq_some_iff.1 ht).1
  have hS : slots c' = (slots c).set fid none := by
    rw [hc']; show slotsA (c.faces.set! fid _) = _
    rw [slotsA_set]; rfl
  refine ⟨hS, by rw [hc'], by rw [hc'], by rw [hc'], ?_, ?_⟩
  · rw [absM_eq, absM_eq, hS]
    have := liveM_set (slots c) fid none (some t) ht
    simp only [o2m, add_zero] at this
    rw [← this, add_comm, Multiset.singleton_add]
  · intro hffo
    have hfr : c'.freeFaces = fid :: c.freeFaces := by rw [hc']
    refine FaceFreeOk.of_slots ?_ (by rw [hfr]; exact List.nodup_cons.2 ⟨hffo.not_mem ht, hffo.nodup⟩)
    intro i hi
    rw [hfr] at hi
    rw [hS]
    by_cases hif : fid = i
    · subst hif; exact List.getElem?_set_self hlt
    · rw [List.getElem?_set_ne hif]
      rcases List.mem_cons.1 hi with h | h
      · exact absurd h.symm hif
      · exact hffo.slot h

/-! ### `add_face` -/

theorem addFace_eq {fn : Fn R} {c c' : Cell R} {a b d fid : Nat} (h : addFace fn c a b d = .ok (c', fid)) :
    ∃ s6, (∃ rest, c.freeFaces = fid :: rest ∧
        c' = updFaceGeom fn { c with faces := c.faces.set! fid ⟨a, b, d, 0, zeroV, lit 0, true⟩,
                                     freeFaces := rest, edges := s6 } fid) ∨
      (c.freeFaces = [] ∧ fid = c.faces.size ∧
        c' = updFaceGeom fn { c with faces := c.faces.push ⟨a, b, d, 0, zeroV, lit 0, true⟩, edges := s6 } fid) := by
  unfold addFace at h
  cases hff : c.freeFaces with
  | nil =>
    simp only [hff] at h
    obtain ⟨s4, _, h⟩ := bind_ok h
    obtain ⟨s5, _, h⟩ := bind_ok h
    obtain ⟨s6, _, h⟩ := bind_ok h
    cases h
    exact ⟨s6, Or.inr ⟨rfl, rfl, rfl⟩⟩
  | cons i rest =>
    simp only [hff] at h
    obtain ⟨s4, _, h⟩ := bind_ok h
    obtain ⟨s5, _, h⟩ := bind_ok h
    obtain ⟨s6, _, h⟩ := bind_ok h
    cases h
    exact ⟨s6, Or.inl ⟨rest, rfl, rfl⟩⟩

structure AddRes (c c' : Cell R) (fid : Nat) (t : Tri) : Prop where
  fresh : ∀ u, (slots c)[fid]? ≠ some (some u)
  got : (slots c')[fid]? = some (some t)
  other : ∀ j, j ≠ fid → (slots c')[j]? = (slots c)[j]?
  absM_eq : absM c' = t ::ₘ absM c
  ffo : FaceFreeOk c'
  nodes_eq : c'.nodes = c.nodes
  freeNodes_eq : c'.freeNodes = c.freeNodes

theorem addFace_spec {fn : Fn R} {c c' : Cell R} {a b d fid : Nat} (h : addFace fn c a b d = .ok (c', fid))
    (hf : FaceFreeOk c) : AddRes c c' fid (a, b, d) := by
  obtain ⟨s6, ⟨rest, hff, hc'⟩ | ⟨hff, rfl, hc'⟩⟩ := addFace_eq h
  · obtain ⟨fs, he, hs⟩ := updFaceGeom_eq fn _ fid
    rw [he] at hc'
    rw [hc']
    have hfid : (slots c)[fid]? = some none := hf.slot (by rw [hff]; exact List.mem_cons_self)
    have hlt : fid < (slots c).length := (List.getElem?_eq_some_iff.1 hfid).1
    have hS : slotsA fs = (slots c).set fid (some (a, b, d)) := by
      rw [hs]; show slotsA (c.faces.set! fid _) = _
      rw [slotsA_set]; rfl
    have hnd := hf.nodup; rw [hff] at hnd
    refine ⟨?_, ?_, ?_, ?_, ?_, rfl, rfl⟩
    · intro u; rw [hfid]; simp
    · show (slotsA fs)[fid]? = _; rw [hS]; exact List.getElem?_set_self hlt
    · intro j hj; show (slotsA fs)[j]? = _; rw [hS]; exact List.getElem?_set_ne (Ne.symm hj)
    · rw [absM_eq, absM_eq]; show liveM (slotsA fs) = _
      rw [hS]
      have := liveM_set (slots c) fid (some (a, b, d)) none hfid
      simp only [o2m, add_zero] at this
      rw [this, add_comm, Multiset.singleton_add]
    · refine FaceFreeOk.of_slots ?_ (List.nodup_cons.1 hnd).2
      intro i hi
      show (slotsA fs)[i]? = _
      have hne : fid ≠ i := fun h => (List.nodup_cons.1 hnd).1 (h ▸ hi)
      rw [hS, List.getElem?_set_ne hne]
      exact hf.slot (by rw [hff]; exact List.mem_cons_of_mem _ hi)
  · obtain ⟨fs, he, hs⟩ := updFaceGeom_eq fn _ c.faces.size
    rw [he] at hc'
    rw [hc']
    have hS : slotsA fs = slots c ++ [some (a, b, d)] := by
      rw [hs]; show slotsA (c.faces.push _) = _
      rw [slotsA_push]; rfl
    have hlen : (slots c).length = c.faces.size := slotsA_length _
    refine ⟨?_, ?_, ?_, ?_, ?_, rfl, rfl⟩
    · intro u; rw [← hlen, List.getElem?_eq_none (Nat.le_refl _)]; simp
    · show (slotsA fs)[c.faces.size]? = _; rw [hS, ← hlen]; simp
    · intro j hj; show (slotsA fs)[j]? = _; rw [hS, List.getElem?_append]
      split
      · rfl
      · rename_i hlt
        rw [List.getElem?_eq_none (Nat.le_of_not_lt hlt)]
        apply List.getElem?_eq_none
        simp only [List.length_singleton]; omega
    · rw [absM_eq, absM_eq]; show liveM (slotsA fs) = _
      rw [hS, liveM_append, liveM_cons, liveM_nil, add_zero, add_comm]
      simp only [o2m, Multiset.singleton_add]
    · exact FaceFreeOk.of_slots (by show ∀ i ∈ c.freeFaces, _; rw [hff]; simp) (by show c.freeFaces.Nodup; rw [hff]; simp)

end

/-! ### the statements about `abs` in list form -/
section
variable {R : Type} [Add R] [Sub R] [Mul R] [Div R] [Neg R] [Lit R] [LT R] [LE R] [DecidableLT R]
  [DecidableLE R] [DecidableEq R]

theorem perm_of_absM {c : Cell R} {l : List Tri} (h : absM c = (l : Multiset Tri)) : (abs c).Perm l :=
  Multiset.coe_eq_coe.1 h

/-- **add_face**: one more live triangle, the slot store stays consistent, the nodes are not touched -/
theorem abs_addFace {fn : Fn R} {c c' : Cell R} {a b d fid : Nat} (h : addFace fn c a b d = .ok (c', fid))
    (hf : FaceFreeOk c) :
    (abs c').Perm ((a, b, d) :: abs c) ∧ FaceFreeOk c' ∧ c'.nodes = c.nodes ∧ c'.freeNodes = c.freeNodes := by
  have r := addFace_spec h hf
  exact ⟨perm_of_absM (by rw [r.absM_eq]; rfl), r.ffo, r.nodes_eq, r.freeNodes_eq⟩

/-- **delete_face**: the triangle of the slot disappears -/
theorem abs_deleteFace {c c' : Cell R} {fid : Nat} {f : Face R} (h : deleteFace c fid = .ok c')
    (hfa : c.faces[fid]? = some f) (hu : f.used = true) :
    (abs c').Perm ((abs c).erase (f.n1, f.n2, f.n3)) ∧ (abs c).Perm ((f.n1, f.n2, f.n3) :: abs c') ∧
      (FaceFreeOk c → FaceFreeOk c') := by
  have r := deleteFace_spec h (slot_some_iff.2 ⟨f, hfa, hu, rfl⟩)
  have hp : (abs c).Perm ((f.n1, f.n2, f.n3) :: abs c') := perm_of_absM (by rw [r.absM_eq]; rfl)
  refine ⟨?_, hp, r.ffo⟩
  have := (hp.erase (f.n1, f.n2, f.n3)).symm
  rwa [List.erase_cons_head] at this

end

/-! ## 4. the abstract side: the operations on a surface given as `t1 :: t2 :: rest` -/

def heMM (M : Multiset Tri) : Multiset HE := (M.map heTriM).sum

theorem heM_eq_heMM (T : List Tri) : heM T = heMM (T : Multiset Tri) := by
  unfold heM heMM; simp

theorem heMM_cons (t : Tri) (M : Multiset Tri) : heMM (t ::ₘ M) = heTriM t + heMM M := by
  unfold heMM; simp

theorem mem_heTriM_of_hasDir {t : Tri} {a b : Nat} (h : hasDir t a b = true) : (a, b) ∈ heTriM t := by
  rw [heTriM_of_hasDir h]; simp

/-- two different triangles (positions) of a simple surface cannot traverse the same directed edge -/
theorem two_dir_not_simple {T : List Tri} {t t' : Tri} {M : Multiset Tri}
    (hT : (T : Multiset Tri) = t ::ₘ t' ::ₘ M) (hs : Simple T) {a b : Nat}
    (h1 : hasDir t a b = true) (h2 : hasDir t' a b = true) : False := by
  unfold Simple at hs
  rw [heM_eq_heMM, hT, heMM_cons, heMM_cons] at hs
  have hd := (Multiset.nodup_add.1 hs).2.2
  exact Multiset.disjoint_left.1 hd (mem_heTriM_of_hasDir h1)
    (Multiset.mem_add.2 (Or.inl (mem_heTriM_of_hasDir h2)))

theorem coe_decomp {T : List Tri} {t t' : Tri} (h1 : t ∈ T) (h2 : t' ∈ T) (hne : t ≠ t') :
    (T : Multiset Tri) = t ::ₘ t' ::ₘ ((T.erase t).erase t' : List Tri) := by
  have m2' : t' ∈ T.erase t := (List.mem_erase_of_ne (Ne.symm hne)).2 h2
  have := (List.perm_cons_erase h1).trans ((List.perm_cons_erase m2').cons t)
  rw [Multiset.cons_coe, Multiset.cons_coe]
  exact Multiset.coe_eq_coe.2 this

/-- under `Simple`, the triangle through a directed edge is unique, so `findDir` finds it -/
theorem findDir_eq_of_mem {T : List Tri} (hs : Simple T) {t : Tri} {a b : Nat} (ht : t ∈ T)
    (hd : hasDir t a b = true) : findDir T a b = some t := by
  cases hf : findDir T a b with
  | none =>
    unfold findDir at hf
    exact absurd hd (List.find?_eq_none.1 hf t ht)
  | some t' =>
    obtain ⟨m', d'⟩ := findDir_some hf
    by_cases hne : t = t'
    · rw [hne]
    · exact (two_dir_not_simple (coe_decomp ht m' hne) hs hd d').elim

theorem mem_of_coe_eq {T : List Tri} {t : Tri} {M : Multiset Tri} (hT : (T : Multiset Tri) = t ::ₘ M) : t ∈ T := by
  have : t ∈ (T : Multiset Tri) := by rw [hT]; exact Multiset.mem_cons_self _ _
  exact Multiset.mem_coe.1 this

theorem rest_coe {T : List Tri} {T1 T2 : Tri} {M : Multiset Tri} (hT : (T : Multiset Tri) = T1 ::ₘ T2 ::ₘ M) :
    (((T.erase T1).erase T2 : List Tri) : Multiset Tri) = M := by
  obtain ⟨l, rfl⟩ := Quot.exists_rep M
  have hp : T.Perm (T1 :: T2 :: l) := Multiset.coe_eq_coe.1 hT
  have := (hp.erase T1).erase T2
  rw [List.erase_cons_head, List.erase_cons_head] at this
  exact Multiset.coe_eq_coe.2 this

theorem find_of_decomp {T : List Tri} (hs : Simple T) {T1 T2 : Tri} {M : Multiset Tri}
    (hT : (T : Multiset Tri) = T1 ::ₘ T2 ::ₘ M) {a b : Nat}
    (h1 : hasDir T1 a b = true) (h2 : hasDir T2 b a = true) :
    findDir T a b = some T1 ∧ findDir T b a = some T2 := by
  have m1 : T1 ∈ T := mem_of_coe_eq hT
  have m2 : T2 ∈ T := mem_of_coe_eq (by rw [hT, Multiset.cons_swap])
  exact ⟨findDir_eq_of_mem hs m1 h1, findDir_eq_of_mem hs m2 h2⟩

/-- the abstract split of a surface given as `T1 :: T2 :: rest` (as a multiset) -/
theorem splitT_coe {T : List Tri} (hs : Simple T) {T1 T2 : Tri} {M : Multiset Tri}
    (hT : (T : Multiset Tri) = T1 ::ₘ T2 ::ₘ M) {a b : Nat}
    (h1 : hasDir T1 a b = true) (h2 : hasDir T2 b a = true) (e : Nat) :
    ((splitT T a b e : List Tri) : Multiset Tri) =
      (opp T1 a b, a, e) ::ₘ (opp T1 a b, e, b) ::ₘ (opp T2 b a, b, e) ::ₘ (opp T2 b a, e, a) ::ₘ M := by
  obtain ⟨f1, f2⟩ := find_of_decomp hs hT h1 h2
  rw [splitT_eq e f1 f2]
  simp only [← Multiset.cons_coe]
  rw [rest_coe hT]

/-- the abstract swap of a surface given as `T1 :: T2 :: rest` (as a multiset) -/
theorem swapT_coe {T : List Tri} (hs : Simple T) {T1 T2 : Tri} {M : Multiset Tri}
    (hT : (T : Multiset Tri) = T1 ::ₘ T2 ::ₘ M) {a b : Nat}
    (h1 : hasDir T1 a b = true) (h2 : hasDir T2 b a = true) :
    ((swapT T a b : List Tri) : Multiset Tri) =
      (a, opp T2 b a, opp T1 a b) ::ₘ (b, opp T1 a b, opp T2 b a) ::ₘ M := by
  obtain ⟨f1, f2⟩ := find_of_decomp hs hT h1 h2
  rw [swapT_eq f1 f2]
  simp only [← Multiset.cons_coe]
  rw [rest_coe hT]

theorem hasNode_iff (t : Tri) (a : Nat) : hasNode t a = true ↔ (t.1 = a ∨ t.2.1 = a ∨ t.2.2 = a) := by
  simp [hasNode, or_assoc]

/-- a non-degenerate triangle that contains `a ≠ b` traverses the edge in one of the two directions -/
theorem dir_of_contains {t : Tri} {a b : Nat} (hn : t.1 ≠ t.2.1 ∧ t.2.1 ≠ t.2.2 ∧ t.2.2 ≠ t.1) (hab : a ≠ b)
    (ha : hasNode t a = true) (hb : hasNode t b = true) : hasDir t a b = true ∨ hasDir t b a = true := by
  obtain ⟨x, y, z⟩ := t
  simp only [hasNode_iff, hasDir_iff] at *
  omega

theorem hasNode_of_hasDir {t : Tri} {a b : Nat} (h : hasDir t a b = true) :
    hasNode t a = true ∧ hasNode t b = true := by
  obtain ⟨x, y, z⟩ := t
  simp only [hasNode_iff, hasDir_iff] at *
  omega

/-- the nodes of a triangle through `a→b` -/
theorem node_of_hasDir {t : Tri} {a b x : Nat} (h : hasDir t a b = true) :
    hasNode t x = true ↔ (x = opp t a b ∨ x = a ∨ x = b) := by
  rw [hasNode_iff, ← nodes_of_hasDir h x]
  constructor <;> (intro h; rcases h with h | h | h <;> simp [h])

/-! ## 5. `split_edge` refines `splitT` -/
section
variable {R : Type} [Add R] [Sub R] [Mul R] [Div R] [Neg R] [Lit R] [LT R] [LE R] [DecidableLT R]
  [DecidableLE R] [DecidableEq R]

/-- the index entry `ed` names two different live face slots whose triangles both contain `x` and `y` -/
def EdgeFaces (c : Cell R) (ed : Edge) (x y : Nat) : Prop :=
  ∃ g1 g2 t1 t2, ed.f1 = some g1 ∧ ed.f2 = some g2 ∧ g1 ≠ g2 ∧
    (slots c)[g1]? = some (some t1) ∧ (slots c)[g2]? = some (some t2) ∧
    hasNode t1 x = true ∧ hasNode t1 y = true ∧ hasNode t2 x = true ∧ hasNode t2 y = true

/-- `EdgeFaces` from the face records themselves -/
theorem EdgeFaces.of_faces {c : Cell R} {ed : Edge} {x y g1 g2 : Nat} {F1 F2 : Face R}
    (h1 : ed.f1 = some g1) (h2 : ed.f2 = some g2) (hne : g1 ≠ g2)
    (hF1 : c.faces[g1]? = some F1) (hu1 : F1.used = true) (hF2 : c.faces[g2]? = some F2) (hu2 : F2.used = true)
    (h1x : hasNode (F1.n1, F1.n2, F1.n3) x = true) (h1y : hasNode (F1.n1, F1.n2, F1.n3) y = true)
    (h2x : hasNode (F2.n1, F2.n2, F2.n3) x = true) (h2y : hasNode (F2.n1, F2.n2, F2.n3) y = true) :
    EdgeFaces c ed x y :=
  ⟨g1, g2, _, _, h1, h2, hne, slot_some_iff.2 ⟨F1, hF1, hu1, rfl⟩, slot_some_iff.2 ⟨F2, hF2, hu2, rfl⟩,
    h1x, h1y, h2x, h2y⟩

theorem oppositeNode_some {f : Face R} {a b cc : Nat} (h : oppositeNode f a b = some cc) :
    cc ≠ a ∧ cc ≠ b ∧ hasNode (f.n1, f.n2, f.n3) cc = true := by
  unfold oppositeNode at h
  rw [hasNode_iff]
  split at h
  · rename_i h1; cases h; simp only [Bool.and_eq_true, bne_iff_ne, ne_eq] at h1
    exact ⟨h1.1, h1.2, Or.inl rfl⟩
  · split at h
    · rename_i h1; cases h; simp only [Bool.and_eq_true, bne_iff_ne, ne_eq] at h1
      exact ⟨h1.1, h1.2, Or.inr (Or.inl rfl)⟩
    · split at h
      · rename_i h1; cases h; simp only [Bool.and_eq_true, bne_iff_ne, ne_eq] at h1
        exact ⟨h1.1, h1.2, Or.inr (Or.inr rfl)⟩
      · cases h

/-- `get_opposite_node` returns the abstract opposite node, whichever way the face traverses the edge -/
theorem opp_of_oppositeNode {f : Face R} {a b cc : Nat} (hd : hasDir (f.n1, f.n2, f.n3) a b = true)
    (h : oppositeNode f a b = some cc) : cc = opp (f.n1, f.n2, f.n3) a b := by
  obtain ⟨h1, h2, h3⟩ := oppositeNode_some h
  rcases (node_of_hasDir hd).1 h3 with h | h | h
  · exact h
  · exact absurd h h1
  · exact absurd h h2

theorem opp_of_oppositeNode' {f : Face R} {a b cc : Nat} (hd : hasDir (f.n1, f.n2, f.n3) b a = true)
    (h : oppositeNode f a b = some cc) : cc = opp (f.n1, f.n2, f.n3) b a := by
  obtain ⟨h1, h2, h3⟩ := oppositeNode_some h
  rcases (node_of_hasDir hd).1 h3 with h | h | h
  · exact h
  · exact absurd h h2
  · exact absurd h h1

theorem isDirected_eq (f : Face R) (a b : Nat) : isDirected f a b = hasDir (f.n1, f.n2, f.n3) a b := rfl

theorem addNode_store {c : Cell R} {ns : Array (Node R)} {p m : V3 R} {c1 : Cell R} {ee : Nat}
    (hr : addNode ({ c with nodes := ns } : Cell R) p m = (c1, ee)) (hsz : ns.size = c.nodes.size) :
    slots c1 = slots c ∧ c1.freeFaces = c.freeFaces ∧ ee = newSlot c := by
  have h1 : c1 = (addNode ({ c with nodes := ns } : Cell R) p m).1 := by rw [hr]
  have h2 : ee = (addNode ({ c with nodes := ns } : Cell R) p m).2 := by rw [hr]
  refine ⟨?_, ?_, ?_⟩
  · rw [h1]; unfold slots; rw [(faces_addNode _ _ _).1]
  · rw [h1, (faces_addNode _ _ _).2]
  · rw [h2, addNode_snd']; unfold newSlot; simp only [hsz]

theorem two_addFace_cases {fn : Fn R} {c : Cell R} {o : Bool} {p q r s t u v w x y z a' : Nat}
    {res : Cell R × Nat × Nat}
    (h : (if o = true then do
              let __x ← addFace fn c p q r
              match __x with
                | (c, f3) => do
                  let __x ← addFace fn c s t u
                  match __x with
                    | (c, f5) => pure (c, f3, f5)
            else do
              let __x ← addFace fn c v w x
              match __x with
                | (c, f3) => do
                  let __x ← addFace fn c y z a'
                  match __x with
                    | (c, f5) => pure (c, f3, f5) : Except Err (Cell R × Nat × Nat)) = .ok res) :
    ∃ c1 f3 f5, (o = true ∧ addFace fn c p q r = .ok (c1, f3) ∧ addFace fn c1 s t u = .ok (res.1, f5)) ∨
      (o = false ∧ addFace fn c v w x = .ok (c1, f3) ∧ addFace fn c1 y z a' = .ok (res.1, f5)) := by
  split at h
  · rename_i ho
    obtain ⟨⟨c1, f3⟩, h1, h⟩ := bind_ok h
    obtain ⟨⟨c2, f5⟩, h2, h⟩ := bind_ok h
    cases h
    exact ⟨c1, f3, f5, Or.inl ⟨ho, h1, h2⟩⟩
  · rename_i ho
    obtain ⟨⟨c1, f3⟩, h1, h⟩ := bind_ok h
    obtain ⟨⟨c2, f5⟩, h2, h⟩ := bind_ok h
    cases h
    exact ⟨c1, f3, f5, Or.inr ⟨by simpa using ho, h1, h2⟩⟩

theorem two_addFace_res {fn : Fn R} {c : Cell R} {o : Bool} {p q r s t u v w x y z a' : Nat}
    {res : Cell R × Nat × Nat}
    (h : (if o = true then do
              let __x ← addFace fn c p q r
              match __x with
                | (c, f3) => do
                  let __x ← addFace fn c s t u
                  match __x with
                    | (c, f5) => pure (c, f3, f5)
            else do
              let __x ← addFace fn c v w x
              match __x with
                | (c, f3) => do
                  let __x ← addFace fn c y z a'
                  match __x with
                    | (c, f5) => pure (c, f3, f5) : Except Err (Cell R × Nat × Nat)) = .ok res)
    (hf : FaceFreeOk c) :
    FaceFreeOk res.1 ∧ absM res.1 =
      (if o = true then (s, t, u) ::ₘ (p, q, r) ::ₘ absM c else (y, z, a') ::ₘ (v, w, x) ::ₘ absM c) := by
  obtain ⟨c1, f3, f5, ⟨ho, h1, h2⟩ | ⟨ho, h1, h2⟩⟩ := two_addFace_cases h
  · have A1 := addFace_spec h1 hf
    have A2 := addFace_spec h2 A1.ffo
    exact ⟨A2.ffo, by rw [if_pos ho, A2.absM_eq, A1.absM_eq]⟩
  · have A1 := addFace_spec h1 hf
    have A2 := addFace_spec h2 A1.ffo
    exact ⟨A2.ffo, by rw [if_neg (by simp [ho]), A2.absM_eq, A1.absM_eq]⟩

theorem splitEdge_absM {fn : Fn R} {k : SplitConsts R} {c c' : Cell R} {e : Edge} {chk chk' : CheckSet}
    (h : splitEdge fn k c e chk = .ok (c', chk')) (hf : FaceFreeOk c) (hI : Inv (abs c))
    (hab : e.n1 ≠ e.n2) (he : EdgeFaces c e e.n1 e.n2) :
    absM c' = ((splitT (abs c) e.n1 e.n2 (newSlot c) : List Tri) : Multiset Tri) ∧ FaceFreeOk c' := by
  obtain ⟨g1, g2, t1, t2, hg1, hg2, hg12, hs1, hs2, h1a, h1b, h2a, h2b⟩ := he
  unfold splitEdge at h
  simp only [] at h
  bok h with f1id, hf1id
  bok h with f2id, hf2id
  have e1 : e.f1 = some f1id := by opt_ok hf1id
  have e2 : e.f2 = some f2id := by opt_ok hf2id
  rw [hg1] at e1; cases e1
  rw [hg2] at e2; cases e2
  bok h with f1, hf1
  bok h with f2, hf2
  bok h with na, hna
  bok h with nb, hnb
  bok h with cc, hcc
  bok h with dd, hdd
  generalize hr : addNode _ _ _ = r at h
  obtain ⟨c1, ee⟩ := r
  simp only [] at h
  obtain ⟨hS1, hF1, hE⟩ := addNode_store hr (by simp)
  subst hE
  bok h with c2, h2
  bok h with c3, h3
  bok h with ⟨c4, f3, f5⟩, h4
  bok h with ⟨c5, f4, f6⟩, h5
  simp only [] at h
  bok h with eea, _
  bok h with eeb, _
  bok h with eec, _
  bok h with eed, _
  cases h
  -- the faces of the two slots
  have hf1' : c.faces[g1]? = some f1 := by opt_ok hf1
  have hf2' : c.faces[g2]? = some f2 := by opt_ok hf2
  have hcc' : oppositeNode f1 e.n1 e.n2 = some cc := by opt_ok hcc
  have hdd' : oppositeNode f2 e.n1 e.n2 = some dd := by opt_ok hdd
  obtain ⟨f, hfa, _, ht1⟩ := slot_some_iff.1 hs1
  rw [hf1'] at hfa; cases hfa
  obtain ⟨f, hfa, _, ht2⟩ := slot_some_iff.1 hs2
  rw [hf2'] at hfa; cases hfa
  subst ht1; subst ht2
  -- the two deletions
  have ffo1 : FaceFreeOk c1 := hf.congr hS1 hF1
  have D1 := deleteFace_spec h2 (t := (f1.n1, f1.n2, f1.n3)) (by rw [hS1]; exact hs1)
  have D2 := deleteFace_spec h3 (t := (f2.n1, f2.n2, f2.n3))
    (by rw [D1.slots_eq, List.getElem?_set_ne hg12, hS1]; exact hs2)
  have ffo3 : FaceFreeOk c3 := D2.ffo (D1.ffo ffo1)
  have hT : ((abs c : List Tri) : Multiset Tri) = (f1.n1, f1.n2, f1.n3) ::ₘ (f2.n1, f2.n2, f2.n3) ::ₘ absM c3 := by
    show absM c = _
    rw [← D2.absM_eq, ← D1.absM_eq, absM_eq, absM_eq, hS1]
  -- the four additions
  obtain ⟨ffo4, hM4⟩ := two_addFace_res h4 ffo3
  obtain ⟨ffo5, hM5⟩ := two_addFace_res h5 ffo4
  simp only [isDirected_eq] at hM4 hM5
  refine ⟨?_, ?_⟩
  swap
  · exact ((ffo5.congr (slots_setFaceType _ _ _) (freeFaces_setFaceType _ _ _)).congr
      (slots_setFaceType _ _ _) (freeFaces_setFaceType _ _ _) |>.congr
      (slots_setFaceType _ _ _) (freeFaces_setFaceType _ _ _)).congr
      (slots_setFaceType _ _ _) (freeFaces_setFaceType _ _ _)
  rw [absM_eq, slots_setFaceType, slots_setFaceType, slots_setFaceType, slots_setFaceType, ← absM_eq, hM5, hM4]
  -- orientation of the two faces
  have m1 : (f1.n1, f1.n2, f1.n3) ∈ abs c := by rw [abs_eq_live]; exact mem_live hs1
  have m2 : (f2.n1, f2.n2, f2.n3) ∈ abs c := by rw [abs_eq_live]; exact mem_live hs2
  have n1 := hI.nondeg _ m1
  have n2 := hI.nondeg _ m2
  rcases dir_of_contains n1 hab h1a h1b with d1 | d1 <;> rcases dir_of_contains n2 hab h2a h2b with d2 | d2
  · exact (two_dir_not_simple hT hI.simple d1 d2).elim
  · have o2 : hasDir (f2.n1, f2.n2, f2.n3) e.n1 e.n2 = false :=
      Bool.eq_false_iff.2 (fun h => hasDir_not_both n2 h d2)
    rw [splitT_coe hI.simple hT d1 d2, ← opp_of_oppositeNode d1 hcc', ← opp_of_oppositeNode' d2 hdd']
    simp only [d1, o2, if_true, Bool.false_eq_true, if_false, ← Multiset.singleton_add]
    abel
  · have o1 : hasDir (f1.n1, f1.n2, f1.n3) e.n1 e.n2 = false :=
      Bool.eq_false_iff.2 (fun h => hasDir_not_both n1 h d1)
    rw [splitT_coe hI.simple (hT.trans (Multiset.cons_swap _ _ _)) d2 d1, ← opp_of_oppositeNode' d1 hcc',
      ← opp_of_oppositeNode d2 hdd']
    simp only [d2, o1, if_true, Bool.false_eq_true, if_false, ← Multiset.singleton_add]
    abel
  · exact (two_dir_not_simple hT hI.simple d1 d2).elim

end

/-! ## 6. `check_face_winding_order` on triples -/

def cwPairs (r ch : List Nat) : List (Nat × Nat) :=
  (List.range 3).flatMap (fun i => (List.range 3).filterMap (fun j =>
    if r.getD i 0 == ch.getD j 0 then some (i, j) else none))

/-- does `check_face_winding_order` flip the checked triangle `f` against the reference `ref`? -/
def cwFlip (ref f : Tri) : Bool :=
  match cwPairs [ref.1, ref.2.1, ref.2.2] [f.1, f.2.1, f.2.2] with
  | (r0, c0) :: (r1, c1) :: _ => (((r0 + 1) % 3 == r1) == ((c0 + 1) % 3 == c1))
  | _ => false

def flipT (t : Tri) : Tri := (t.2.2, t.2.1, t.1)

theorem hasNode_false_iff (t : Tri) (a : Nat) : hasNode t a = false ↔ (t.1 ≠ a ∧ t.2.1 ≠ a ∧ t.2.2 ≠ a) := by
  rw [← Bool.not_eq_true, hasNode_iff]; tauto

theorem range3 : List.range 3 = [0, 1, 2] := rfl

/-- the reference traverses the shared edge `{p, r}` against the checked triangle `(p,q,r)`: no flip -/
theorem cwFlip_13_opp {ref : Tri} {p q r : Nat} (hn : ref.1 ≠ ref.2.1 ∧ ref.2.1 ≠ ref.2.2 ∧ ref.2.2 ≠ ref.1)
    (hpq : p ≠ q) (hqr : q ≠ r) (hrp : r ≠ p) (hd : hasDir ref p r = true) (hq : hasNode ref q = false) :
    cwFlip ref (p, q, r) = false := by
  obtain ⟨x, y, z⟩ := ref
  rw [hasDir_iff] at hd
  rw [hasNode_false_iff] at hq
  dsimp only at hn hd hq
  obtain ⟨h1, h2, h3⟩ := hn
  obtain ⟨h4, h5, h6⟩ := hq
  have := hpq.symm; have := hqr.symm; have := hrp.symm
  have := h1.symm; have := h2.symm; have := h3.symm
  rcases hd with ⟨rfl, rfl⟩ | ⟨rfl, rfl⟩ | ⟨rfl, rfl⟩ <;>
    simp [cwFlip, cwPairs, range3, *]

/-- the reference traverses the shared edge `{p, r}` in the same direction `r→p` as `(p,q,r)`: flip -/
theorem cwFlip_13_same {ref : Tri} {p q r : Nat} (hn : ref.1 ≠ ref.2.1 ∧ ref.2.1 ≠ ref.2.2 ∧ ref.2.2 ≠ ref.1)
    (hpq : p ≠ q) (hqr : q ≠ r) (hrp : r ≠ p) (hd : hasDir ref r p = true) (hq : hasNode ref q = false) :
    cwFlip ref (p, q, r) = true := by
  obtain ⟨x, y, z⟩ := ref
  rw [hasDir_iff] at hd
  rw [hasNode_false_iff] at hq
  dsimp only at hn hd hq
  obtain ⟨h1, h2, h3⟩ := hn
  obtain ⟨h4, h5, h6⟩ := hq
  have := hpq.symm; have := hqr.symm; have := hrp.symm
  have := h1.symm; have := h2.symm; have := h3.symm
  rcases hd with ⟨rfl, rfl⟩ | ⟨rfl, rfl⟩ | ⟨rfl, rfl⟩ <;>
    simp [cwFlip, cwPairs, range3, *]

/-- the reference traverses the shared edge `{p, q}` against the checked triangle `(p,q,r)`: no flip -/
theorem cwFlip_12_opp {ref : Tri} {p q r : Nat} (hn : ref.1 ≠ ref.2.1 ∧ ref.2.1 ≠ ref.2.2 ∧ ref.2.2 ≠ ref.1)
    (hpq : p ≠ q) (hqr : q ≠ r) (hrp : r ≠ p) (hd : hasDir ref q p = true) (hq : hasNode ref r = false) :
    cwFlip ref (p, q, r) = false := by
  obtain ⟨x, y, z⟩ := ref
  rw [hasDir_iff] at hd
  rw [hasNode_false_iff] at hq
  dsimp only at hn hd hq
  obtain ⟨h1, h2, h3⟩ := hn
  obtain ⟨h4, h5, h6⟩ := hq
  have := hpq.symm; have := hqr.symm; have := hrp.symm
  have := h1.symm; have := h2.symm; have := h3.symm
  rcases hd with ⟨rfl, rfl⟩ | ⟨rfl, rfl⟩ | ⟨rfl, rfl⟩ <;>
    simp [cwFlip, cwPairs, range3, *]

/-- the reference traverses the shared edge `{p, q}` in the same direction `p→q` as `(p,q,r)`: flip -/
theorem cwFlip_12_same {ref : Tri} {p q r : Nat} (hn : ref.1 ≠ ref.2.1 ∧ ref.2.1 ≠ ref.2.2 ∧ ref.2.2 ≠ ref.1)
    (hpq : p ≠ q) (hqr : q ≠ r) (hrp : r ≠ p) (hd : hasDir ref p q = true) (hq : hasNode ref r = false) :
    cwFlip ref (p, q, r) = true := by
  obtain ⟨x, y, z⟩ := ref
  rw [hasDir_iff] at hd
  rw [hasNode_false_iff] at hq
  dsimp only at hn hd hq
  obtain ⟨h1, h2, h3⟩ := hn
  obtain ⟨h4, h5, h6⟩ := hq
  have := hpq.symm; have := hqr.symm; have := hrp.symm
  have := h1.symm; have := h2.symm; have := h3.symm
  rcases hd with ⟨rfl, rfl⟩ | ⟨rfl, rfl⟩ | ⟨rfl, rfl⟩ <;>
    simp [cwFlip, cwPairs, range3, *]

section
variable {R : Type} [Add R] [Sub R] [Mul R] [Div R] [Neg R] [Lit R] [LT R] [LE R] [DecidableLT R]
  [DecidableLE R] [DecidableEq R]

/-- **`check_face_winding_order`** flips the checked face exactly when `cwFlip` says so -/
theorem checkWinding_eq (ref f : Face R) :
    checkWinding ref f =
      if cwFlip (ref.n1, ref.n2, ref.n3) (f.n1, f.n2, f.n3) = true then { f with n1 := f.n3, n3 := f.n1 } else f := by
  unfold checkWinding cwFlip cwPairs
  simp only []
  generalize (List.flatMap _ _ : List (Nat × Nat)) = l
  rcases l with _ | ⟨⟨r0, c0⟩, _ | ⟨⟨r1, c1⟩, l⟩⟩ <;> simp

theorem triOf_checkWinding (ref f : Face R) (hu : f.used = true) :
    triOf (checkWinding ref f) =
      some (if cwFlip (ref.n1, ref.n2, ref.n3) (f.n1, f.n2, f.n3) = true then flipT (f.n1, f.n2, f.n3)
            else (f.n1, f.n2, f.n3)) := by
  rw [checkWinding_eq]
  split <;> simp [triOf, hu, flipT]

end

/-! ## 7. the neighbours of the two triangles of an edge -/

theorem adj_symm {T : List Tri} {u v : Nat} (h : Adj T u v) : Adj T v u := Or.symm h

/-- a triangle through `a→b` with opposite node `c` also traverses `c→a` and `b→c` -/
theorem hasDir_opp {t : Tri} {a b : Nat} (h : hasDir t a b = true) :
    hasDir t (opp t a b) a = true ∧ hasDir t b (opp t a b) = true := by
  have hc := hasDir_cases h
  generalize opp t a b = c at hc ⊢
  rcases hc with rfl | rfl | rfl <;> simp [hasDir]

theorem adj_of_hasDir {T : List Tri} {u : Tri} (hu : u ∈ T) {x y : Nat} (h : hasDir u x y = true) : Adj T x y :=
  Or.inl (mem_heM.2 ⟨u, hu, mem_heTriM_of_hasDir h⟩)

/-- a triangle of the rest cannot repeat a directed edge of `t` or `t'` -/
theorem rest_dir {T : List Tri} {t t' : Tri} {L : List Tri}
    (hT : (T : Multiset Tri) = t ::ₘ t' ::ₘ (L : Multiset Tri)) (hs : Simple T) {u : Tri} (hu : u ∈ L)
    {x y : Nat} (hd : hasDir u x y = true) : hasDir t x y = false := by
  rw [Bool.eq_false_iff]
  intro h
  have hL : (L : Multiset Tri) = u ::ₘ ((L.erase u : List Tri) : Multiset Tri) := by
    rw [Multiset.cons_coe]; exact Multiset.coe_eq_coe.2 (List.perm_cons_erase hu)
  have hT' : (T : Multiset Tri) = t ::ₘ u ::ₘ (t' ::ₘ ((L.erase u : List Tri) : Multiset Tri)) := by
    rw [hT, hL, Multiset.cons_swap t' u]
  exact two_dir_not_simple hT' hs h hd

theorem mem_of_rest {T : List Tri} {t t' : Tri} {L : List Tri}
    (hT : (T : Multiset Tri) = t ::ₘ t' ::ₘ (L : Multiset Tri)) {u : Tri} (hu : u ∈ L) : u ∈ T := by
  have : u ∈ (T : Multiset Tri) := by
    rw [hT]; exact Multiset.mem_cons_of_mem (Multiset.mem_cons_of_mem (Multiset.mem_coe.2 hu))
  exact Multiset.mem_coe.1 this

/-- the other triangle on an edge `{x,y}` of `t` traverses it the other way round -/
theorem neighbour_dir {T : List Tri} {t t' : Tri} {L : List Tri}
    (hT : (T : Multiset Tri) = t ::ₘ t' ::ₘ (L : Multiset Tri)) (hI : Inv T) {u : Tri} (hu : u ∈ L)
    {x y : Nat} (hxy : x ≠ y) (hx : hasNode u x = true) (hy : hasNode u y = true)
    (hd : hasDir t x y = true) : hasDir u y x = true := by
  rcases dir_of_contains (hI.nondeg u (mem_of_rest hT hu)) hxy hx hy with h | h
  · rw [rest_dir hT hI.simple hu h] at hd; cases hd
  · exact h

/-- orientation A: `t1` traverses `a→b`.  Neither new face is flipped. -/
theorem swap_noflip {T : List Tri} {t1 t2 : Tri} {L : List Tri}
    (hT : (T : Multiset Tri) = t1 ::ₘ t2 ::ₘ (L : Multiset Tri)) (hI : Inv T) {a b : Nat}
    (d1 : hasDir t1 a b = true) (d2 : hasDir t2 b a = true)
    (hcd : opp t1 a b ≠ opp t2 b a) (hadj : ¬ Adj T (opp t1 a b) (opp t2 b a))
    {u5 u8 : Tri} (h5 : u5 ∈ L) (h5a : hasNode u5 a = true) (h5c : hasNode u5 (opp t1 a b) = true)
    (h8 : u8 ∈ L) (h8c : hasNode u8 (opp t1 a b) = true) (h8b : hasNode u8 b = true) :
    cwFlip u5 (a, opp t2 b a, opp t1 a b) = false ∧ cwFlip u8 (b, opp t1 a b, opp t2 b a) = false := by
  have m1 : t1 ∈ T := mem_of_coe_eq hT
  have m2 : t2 ∈ T := mem_of_coe_eq (by rw [hT, Multiset.cons_swap])
  obtain ⟨hab, hca, hcb⟩ := opp_ne (hI.nondeg _ m1) d1
  obtain ⟨_, hdb, hda⟩ := opp_ne (hI.nondeg _ m2) d2
  obtain ⟨e1, e2⟩ := hasDir_opp d1
  generalize opp t1 a b = c at *
  generalize opp t2 b a = d at *
  have m5 := mem_of_rest hT h5
  have m8 := mem_of_rest hT h8
  constructor
  · have hd5 : hasDir u5 a c = true := neighbour_dir hT hI h5 hca h5c h5a e1
    refine cwFlip_13_opp (hI.nondeg _ m5) (Ne.symm hda) (Ne.symm hcd) hca hd5 ?_
    rw [Bool.eq_false_iff]; intro hn
    rcases (node_of_hasDir hd5).1 hn with h | h | h
    · exact hadj (adj_of_hasDir m5 (h ▸ (hasDir_opp hd5).2))
    · exact hda h
    · exact hcd h.symm
  · have hd8 : hasDir u8 c b = true := neighbour_dir hT hI h8 (Ne.symm hcb) h8b h8c e2
    refine cwFlip_12_opp (hI.nondeg _ m8) (Ne.symm hcb) hcd hdb hd8 ?_
    rw [Bool.eq_false_iff]; intro hn
    rcases (node_of_hasDir hd8).1 hn with h | h | h
    · exact hadj (adj_symm (adj_of_hasDir m8 (h ▸ (hasDir_opp hd8).1)))
    · exact hcd h.symm
    · exact hdb h

/-- orientation B: `t1` traverses `b→a`.  Both new faces are flipped. -/
theorem swap_flip {T : List Tri} {t1 t2 : Tri} {L : List Tri}
    (hT : (T : Multiset Tri) = t1 ::ₘ t2 ::ₘ (L : Multiset Tri)) (hI : Inv T) {a b : Nat}
    (d1 : hasDir t1 b a = true) (d2 : hasDir t2 a b = true)
    (hcd : opp t1 b a ≠ opp t2 a b) (hadj : ¬ Adj T (opp t1 b a) (opp t2 a b))
    {u5 u8 : Tri} (h5 : u5 ∈ L) (h5a : hasNode u5 a = true) (h5c : hasNode u5 (opp t1 b a) = true)
    (h8 : u8 ∈ L) (h8c : hasNode u8 (opp t1 b a) = true) (h8b : hasNode u8 b = true) :
    cwFlip u5 (a, opp t2 a b, opp t1 b a) = true ∧ cwFlip u8 (b, opp t1 b a, opp t2 a b) = true := by
  have m1 : t1 ∈ T := mem_of_coe_eq hT
  have m2 : t2 ∈ T := mem_of_coe_eq (by rw [hT, Multiset.cons_swap])
  obtain ⟨hba, hcb, hca⟩ := opp_ne (hI.nondeg _ m1) d1
  obtain ⟨_, hda, hdb⟩ := opp_ne (hI.nondeg _ m2) d2
  obtain ⟨e1, e2⟩ := hasDir_opp d1
  generalize opp t1 b a = c at *
  generalize opp t2 a b = d at *
  have m5 := mem_of_rest hT h5
  have m8 := mem_of_rest hT h8
  constructor
  · have hd5 : hasDir u5 c a = true := neighbour_dir hT hI h5 (Ne.symm hca) h5a h5c e2
    refine cwFlip_13_same (hI.nondeg _ m5) (Ne.symm hda) (Ne.symm hcd) hca hd5 ?_
    rw [Bool.eq_false_iff]; intro hn
    rcases (node_of_hasDir hd5).1 hn with h | h | h
    · exact hadj (adj_symm (adj_of_hasDir m5 (h ▸ (hasDir_opp hd5).1)))
    · exact hcd h.symm
    · exact hda h
  · have hd8 : hasDir u8 b c = true := neighbour_dir hT hI h8 hcb h8c h8b e1
    refine cwFlip_12_same (hI.nondeg _ m8) (Ne.symm hcb) hcd hdb hd8 ?_
    rw [Bool.eq_false_iff]; intro hn
    rcases (node_of_hasDir hd8).1 hn with h | h | h
    · exact hadj (adj_of_hasDir m8 (h ▸ (hasDir_opp hd8).2))
    · exact hdb h
    · exact hcd h.symm

/-! ## 8. `swap_edge` refines `swapT` -/

theorem triEquiv_iff_map {S T : List Tri} :
    TriEquiv S T ↔ (S : Multiset Tri).map canonTri = (T : Multiset Tri).map canonTri := by
  unfold TriEquiv
  rw [Multiset.map_coe, Multiset.map_coe, Multiset.coe_eq_coe]

theorem four_nodes {t : Tri} {a b c d : Nat} (ha : hasNode t a = true) (hb : hasNode t b = true)
    (hd : hasNode t d = true) (hc : hasNode t c = true) (hab : a ≠ b) (hda : d ≠ a) (hdb : d ≠ b)
    (hca : c ≠ a) (hcb : c ≠ b) (hcd : c ≠ d) : False := by
  obtain ⟨x, y, z⟩ := t
  simp only [hasNode_iff] at *
  omega

section
variable {R : Type} [Add R] [Sub R] [Mul R] [Div R] [Neg R] [Lit R] [LT R] [LE R] [DecidableLT R]
  [DecidableLE R] [DecidableEq R]

/-- the edge index is sound: an entry found under the key of `{x, y}` names two different live faces that
    both contain `x` and `y` -/
def EdgeIdxSound (c : Cell R) : Prop := ∀ x y ed, getEdge c x y = some ed → EdgeFaces c ed x y

theorem otherFace_spec {c : Cell R} {ed : Edge} {x y g f : Nat} (he : EdgeFaces c ed x y)
    (h : ed.otherFace g = .ok f) :
    f ≠ g ∧ ∃ u, (slots c)[f]? = some (some u) ∧ hasNode u x = true ∧ hasNode u y = true := by
  obtain ⟨g1, g2, t1, t2, hg1, hg2, hg12, hs1, hs2, h1a, h1b, h2a, h2b⟩ := he
  unfold Edge.otherFace at h
  rw [hg1, hg2] at h
  simp only at h
  split at h
  · rename_i hb
    cases h
    have : g1 = g := by simpa using hb
    exact ⟨fun h => hg12 (this.trans h.symm), t2, hs2, h2a, h2b⟩
  · rename_i hb
    cases h
    exact ⟨by simpa using hb, t1, hs1, h1a, h1b⟩

/-- a live slot other than the two deleted ones survives the two deletions and the two additions -/
theorem survive {c c2 c3 c4 c5 : Cell R} {g1 g2 f3 f4 : Nat} {t1 t2 x3 x4 : Tri}
    (D1 : DelRes c c2 g1 t1) (D2 : DelRes c2 c3 g2 t2) (A3 : AddRes c3 c4 f3 x3) (A4 : AddRes c4 c5 f4 x4)
    {f : Nat} {u : Tri} (hs : (slots c)[f]? = some (some u)) (h1 : f ≠ g1) (h2 : f ≠ g2) :
    (slots c5)[f]? = some (some u) ∧ u ∈ abs c3 := by
  have s3 : (slots c3)[f]? = some (some u) := by
    rw [D2.slots_eq, List.getElem?_set_ne (Ne.symm h2), D1.slots_eq, List.getElem?_set_ne (Ne.symm h1)]
    exact hs
  have n3 : f ≠ f3 := fun h => A3.fresh u (h ▸ s3)
  have s4 : (slots c4)[f]? = some (some u) := by rw [A3.other f n3]; exact s3
  have n4 : f ≠ f4 := fun h => A4.fresh u (h ▸ s4)
  exact ⟨by rw [A4.other f n4]; exact s4, by rw [abs_eq_live]; exact mem_live s3⟩

theorem face_of_set_ne {fs : Array (Face R)} {i j : Nat} {x g : Face R} (hij : i ≠ j)
    (h : (fs.set! i x)[j]? = some g) : fs[j]? = some g := by
  simpa [hij] using h

theorem swap_tail (fn : Fn R) (c5 : Cell R) (f3 f4 : Nat) (x3 x4 : Face R) :
    slots (updFaceGeom fn (updFaceGeom fn
        ({ c5 with faces := (c5.faces.set! f3 x3).set! f4 x4 } : Cell R) f3) f4)
      = ((slots c5).set f3 (triOf x3)).set f4 (triOf x4) ∧
    (updFaceGeom fn (updFaceGeom fn
        ({ c5 with faces := (c5.faces.set! f3 x3).set! f4 x4 } : Cell R) f3) f4).freeFaces = c5.freeFaces := by
  refine ⟨?_, ?_⟩
  · rw [slots_updFaceGeom, slots_updFaceGeom]
    show slotsA ((c5.faces.set! f3 x3).set! f4 x4) = _
    rw [slotsA_set, slotsA_set]; rfl
  · rw [freeFaces_updFaceGeom, freeFaces_updFaceGeom]

/-- replacing the contents of two live slots -/
theorem liveM_two_sets {L : List (Option Tri)} {i j : Nat} {a b y3 y4 : Tri} {M : Multiset Tri} (hij : i ≠ j)
    (hi : L[i]? = some (some a)) (hj : L[j]? = some (some b)) (hL : liveM L = b ::ₘ a ::ₘ M) :
    liveM ((L.set i (some y3)).set j (some y4)) = y3 ::ₘ y4 ::ₘ M := by
  have E1 := liveM_set L i (some y3) (some a) hi
  have E2 := liveM_set (L.set i (some y3)) j (some y4) (some b) (by rw [List.getElem?_set_ne hij]; exact hj)
  simp only [o2m] at E1 E2
  rw [hL] at E1
  simp only [← Multiset.singleton_add] at E1 ⊢
  have h1 : liveM ((L.set i (some y3)).set j (some y4)) + (({b} : Multiset Tri) + {a}) =
      ({y3} + ({y4} + M)) + ({b} + {a}) := by
    calc liveM ((L.set i (some y3)).set j (some y4)) + (({b} : Multiset Tri) + {a})
        = (liveM ((L.set i (some y3)).set j (some y4)) + {b}) + {a} := by abel
      _ = (liveM (L.set i (some y3)) + {a}) + {y4} := by rw [E2]; abel
      _ = _ := by rw [E1]; abel
  exact add_right_cancel h1

/-- a triangle that contains two different nodes makes them adjacent -/
theorem adj_of_contains {T : List Tri} (hn : NonDeg T) {u : Tri} (hu : u ∈ T) {x y : Nat} (hxy : x ≠ y)
    (hx : hasNode u x = true) (hy : hasNode u y = true) : Adj T x y := by
  rcases dir_of_contains (hn u hu) hxy hx hy with h | h
  · exact adj_of_hasDir hu h
  · exact adj_symm (adj_of_hasDir hu h)

/-- two different live slots split the triangle multiset -/
theorem absM_two_slots {c : Cell R} {g1 g2 : Nat} {t1 t2 : Tri} (hg12 : g1 ≠ g2)
    (hs1 : (slots c)[g1]? = some (some t1)) (hs2 : (slots c)[g2]? = some (some t2)) :
    ((abs c : List Tri) : Multiset Tri) = t1 ::ₘ t2 ::ₘ liveM (((slots c).set g1 none).set g2 none) := by
  show absM c = _
  rw [absM_eq]
  have E1 := liveM_set (slots c) g1 none _ hs1
  have E2 := liveM_set ((slots c).set g1 none) g2 none _ (by rw [List.getElem?_set_ne hg12]; exact hs2)
  simp only [o2m, add_zero] at E1 E2
  rw [← E1, ← E2]
  simp only [← Multiset.singleton_add]
  abel

/-- the two faces of a sound edge of a closed simple surface traverse it in opposite directions -/
theorem edge_dirs {T : List Tri} (hI : Inv T) {t1 t2 : Tri} {M : Multiset Tri}
    (hT : (T : Multiset Tri) = t1 ::ₘ t2 ::ₘ M) {a b : Nat} (hab : a ≠ b)
    (h1a : hasNode t1 a = true) (h1b : hasNode t1 b = true) (h2a : hasNode t2 a = true)
    (h2b : hasNode t2 b = true) :
    (hasDir t1 a b = true ∧ hasDir t2 b a = true) ∨ (hasDir t1 b a = true ∧ hasDir t2 a b = true) := by
  have n1 := hI.nondeg _ (mem_of_coe_eq hT)
  have n2 := hI.nondeg _ (mem_of_coe_eq (hT.trans (Multiset.cons_swap _ _ _)))
  rcases dir_of_contains n1 hab h1a h1b with d1 | d1 <;> rcases dir_of_contains n2 hab h2a h2b with d2 | d2
  · exact (two_dir_not_simple hT hI.simple d1 d2).elim
  · exact Or.inl ⟨d1, d2⟩
  · exact Or.inr ⟨d1, d2⟩
  · exact (two_dir_not_simple hT hI.simple d1 d2).elim

/-- **swap_edge refines `swapT`.**  Under the abstract guard `SwapGuard` and a sound edge index the code's own
    guards do not fire (so the hypothesis "the operation is performed" is not needed), the two new faces are
    either both flipped by `check_face_winding_order` or both left alone, and the result is the abstract swap
    up to rotation of the two new triangles. -/
theorem swapEdge_refines {fn : Fn R} {c c' : Cell R} {e : Edge}
    (h : swapEdge fn c e = .ok c') (hf : FaceFreeOk c) (hI : Inv (abs c))
    (hab : e.n1 ≠ e.n2) (he : EdgeFaces c e e.n1 e.n2) (hidx : EdgeIdxSound c)
    (hg : SwapGuard (abs c) e.n1 e.n2) :
    TriEquiv (abs c') (swapT (abs c) e.n1 e.n2) ∧ FaceFreeOk c' := by
  obtain ⟨g1, g2, t1, t2, hg1, hg2, hg12, hs1, hs2, h1a, h1b, h2a, h2b⟩ := he
  unfold swapEdge at h
  simp only [] at h
  bok h with f1id, hf1id
  bok h with f2id, hf2id
  have e1 : e.f1 = some f1id := by opt_ok hf1id
  have e2 : e.f2 = some f2id := by opt_ok hf2id
  rw [hg1] at e1; cases e1
  rw [hg2] at e2; cases e2
  bok h with f1, hf1
  bok h with f2, hf2
  bok h with cc, hcc
  bok h with dd, hdd
  bok h with eac, heac
  bok h with ecb, hecb
  bok h with ebd, hebd
  bok h with eda, heda
  bok h with f5, hf5
  bok h with f8, hf8
  bok h with f7, hf7
  bok h with f6, hf6
  -- the faces of the two slots
  have hf1' : c.faces[g1]? = some f1 := by opt_ok hf1
  have hf2' : c.faces[g2]? = some f2 := by opt_ok hf2
  have hcc' : oppositeNode f1 e.n1 e.n2 = some cc := by opt_ok hcc
  have hdd' : oppositeNode f2 e.n1 e.n2 = some dd := by opt_ok hdd
  have heac' : getEdge c e.n1 cc = some eac := by opt_ok heac
  have hecb' : getEdge c cc e.n2 = some ecb := by opt_ok hecb
  have hebd' : getEdge c e.n2 dd = some ebd := by opt_ok hebd
  have heda' : getEdge c dd e.n1 = some eda := by opt_ok heda
  obtain ⟨f, hfa, _, ht1⟩ := slot_some_iff.1 hs1
  rw [hf1'] at hfa; cases hfa
  obtain ⟨f, hfa, _, ht2⟩ := slot_some_iff.1 hs2
  rw [hf2'] at hfa; cases hfa
  subst ht1; subst ht2
  -- orientation, and the abstract guard in terms of the code's `cc`, `dd`
  have hT0 := absM_two_slots hg12 hs1 hs2
  have hdirs := edge_dirs hI hT0 hab h1a h1b h2a h2b
  have hq : cc ≠ dd ∧ ¬ Adj (abs c) cc dd := by
    rcases hdirs with ⟨d1, d2⟩ | ⟨d1, d2⟩
    · obtain ⟨F1, F2⟩ := find_of_decomp hI.simple hT0 d1 d2
      have := hg _ _ F1 F2
      rwa [← opp_of_oppositeNode d1 hcc', ← opp_of_oppositeNode' d2 hdd'] at this
    · obtain ⟨F1, F2⟩ := find_of_decomp hI.simple (hT0.trans (Multiset.cons_swap _ _ _)) d2 d1
      have := hg _ _ F1 F2
      rw [← opp_of_oppositeNode' d1 hcc', ← opp_of_oppositeNode d2 hdd'] at this
      exact ⟨Ne.symm this.1, fun h => this.2 (adj_symm h)⟩
  obtain ⟨hcca, hccb, hcc1⟩ := oppositeNode_some hcc'
  obtain ⟨hdda, hddb, hdd2⟩ := oppositeNode_some hdd'
  -- the neighbours across the four outer edges
  obtain ⟨n51, u5, s5, h5a, h5c⟩ := otherFace_spec (hidx _ _ _ heac') hf5
  obtain ⟨n81, u8, s8, h8c, h8b⟩ := otherFace_spec (hidx _ _ _ hecb') hf8
  obtain ⟨n72, u7, s7, h7b, h7d⟩ := otherFace_spec (hidx _ _ _ hebd') hf7
  obtain ⟨n62, u6, s6, h6d, h6a⟩ := otherFace_spec (hidx _ _ _ heda') hf6
  -- the code's guards do not fire
  split at h
  · rename_i hgd
    simp only [Bool.or_eq_true, beq_iff_eq] at hgd
    rcases hgd with h56 | h78
    · rw [h56, s6] at s5; cases s5
      exact (hq.2 (adj_of_contains hI.nondeg (by rw [abs_eq_live]; exact mem_live s6) hq.1 h5c h6d)).elim
    · rw [h78, s8] at s7; cases s7
      exact (hq.2 (adj_of_contains hI.nondeg (by rw [abs_eq_live]; exact mem_live s8) hq.1 h8c h7d)).elim
  split at h
  · rename_i hgd
    obtain ⟨ed, hed⟩ := Option.isSome_iff_exists.1 hgd
    obtain ⟨k1, _, v1, _, _, _, _, sv1, _, hv1c, hv1d, _, _⟩ := hidx _ _ _ hed
    exact (hq.2 (adj_of_contains hI.nondeg (by rw [abs_eq_live]; exact mem_live sv1) hq.1 hv1c hv1d)).elim
  bok h with c2, h2
  bok h with c3, h3
  bok h with _, _
  bok h with _, _
  bok h with _, _
  bok h with _, _
  bok h with ⟨c4, f3⟩, h4
  bok h with ⟨c5, f4⟩, h5
  simp only [] at h
  bok h with r5, hr5
  bok h with r8, hr8
  bok h with g3, hg3
  bok h with g4, hg4
  bok h with _, _
  bok h with _, _
  bok h with _, _
  bok h with _, _
  have hc' := Except.ok.inj h
  clear h
  -- the two deletions, the two additions
  have D1 := deleteFace_spec h2 hs1
  have D2 := deleteFace_spec h3 (t := (f2.n1, f2.n2, f2.n3))
    (by rw [D1.slots_eq, List.getElem?_set_ne hg12]; exact hs2)
  have ffo3 : FaceFreeOk c3 := D2.ffo (D1.ffo hf)
  have hT : ((abs c : List Tri) : Multiset Tri) =
      (f1.n1, f1.n2, f1.n3) ::ₘ (f2.n1, f2.n2, f2.n3) ::ₘ ((abs c3 : List Tri) : Multiset Tri) := by
    show absM c = _ ::ₘ _ ::ₘ absM c3
    rw [← D2.absM_eq, ← D1.absM_eq]
  have A3 := addFace_spec h4 ffo3
  have A4 := addFace_spec h5 A3.ffo
  have no_cc_t2 : hasNode (f2.n1, f2.n2, f2.n3) cc = false := by
    rw [Bool.eq_false_iff]; intro h
    exact four_nodes h2a h2b hdd2 h hab hdda hddb hcca hccb hq.1
  -- the reference faces are the neighbours across (a,c) and (c,b); they survive
  have n52 : f5 ≠ g2 := by
    intro h; rw [h, hs2] at s5; cases s5; rw [h5c] at no_cc_t2; cases no_cc_t2
  have n82 : f8 ≠ g2 := by
    intro h; rw [h, hs2] at s8; cases s8; rw [h8c] at no_cc_t2; cases no_cc_t2
  obtain ⟨S5, M5⟩ := survive D1 D2 A3 A4 s5 n51 n52
  obtain ⟨S8, M8⟩ := survive D1 D2 A3 A4 s8 n81 n82
  have n34 : f3 ≠ f4 := fun h => A4.fresh _ (h ▸ A3.got)
  have G3s : (slots c5)[f3]? = some (some (e.n1, dd, cc)) := by rw [A4.other f3 n34]; exact A3.got
  have G4s := A4.got
  have hr5' : c5.faces[f5]? = some r5 := by opt_ok hr5
  have hr8' : c5.faces[f8]? = some r8 := by opt_ok hr8
  have hg3' : c5.faces[f3]? = some g3 := by opt_ok hg3
  have hg4'' : (c5.faces.set! f3 (checkWinding r5 g3))[f4]? = some g4 := by opt_ok hg4
  have hg4' : c5.faces[f4]? = some g4 := face_of_set_ne n34 hg4''
  obtain ⟨f, hfa, _, hu5⟩ := slot_some_iff.1 S5
  rw [hr5'] at hfa; cases hfa
  obtain ⟨f, hfa, _, hu8⟩ := slot_some_iff.1 S8
  rw [hr8'] at hfa; cases hfa
  obtain ⟨f, hfa, hg3u, hg3t⟩ := slot_some_iff.1 G3s
  rw [hg3'] at hfa; cases hfa
  obtain ⟨f, hfa, hg4u, hg4t⟩ := slot_some_iff.1 G4s
  rw [hg4'] at hfa; cases hfa
  obtain ⟨hS, hFF⟩ := swap_tail fn c5 f3 f4 (checkWinding r5 g3) (checkWinding r8 g4)
  rw [triOf_checkWinding _ _ hg3u, triOf_checkWinding _ _ hg4u, hu5, hu8, hg3t, hg4t] at hS
  rw [hc'] at hS hFF
  have hS' := hS
  have hFF' : c'.freeFaces = c5.freeFaces := hFF
  have hL5 : liveM (slots c5) = (e.n2, cc, dd) ::ₘ (e.n1, dd, cc) ::ₘ absM c3 := by
    rw [← absM_eq, A4.absM_eq, A3.absM_eq]
  have hM := liveM_two_sets n34 G3s G4s hL5
    (y3 := if cwFlip u5 (e.n1, dd, cc) = true then flipT (e.n1, dd, cc) else (e.n1, dd, cc))
    (y4 := if cwFlip u8 (e.n2, cc, dd) = true then flipT (e.n2, cc, dd) else (e.n2, cc, dd))
  rw [← hS', ← absM_eq] at hM
  refine ⟨?_, ?_⟩
  swap
  · refine FaceFreeOk.of_slots ?_ (by rw [hFF']; exact A4.ffo.nodup)
    intro i hi
    rw [hFF'] at hi
    have hi' := A4.ffo.slot hi
    have i3 : f3 ≠ i := fun h => by rw [← h, G3s] at hi'; cases hi'
    have i4 : f4 ≠ i := fun h => by rw [← h, G4s] at hi'; cases hi'
    rw [hS', List.getElem?_set_ne i4, List.getElem?_set_ne i3]; exact hi'
  rw [triEquiv_iff_map]
  show (absM c').map canonTri = _
  rw [hM]
  rcases hdirs with ⟨d1, d2⟩ | ⟨d1, d2⟩
  · have ec := opp_of_oppositeNode d1 hcc'
    have ed := opp_of_oppositeNode' d2 hdd'
    subst ec; subst ed
    obtain ⟨k5, k8⟩ := swap_noflip hT hI d1 d2 hq.1 hq.2 M5 h5a h5c M8 h8c h8b
    rw [k5, k8, swapT_coe hI.simple hT d1 d2]
    simp only [Bool.false_eq_true, if_false, Multiset.map_cons]
    rfl
  · have ec := opp_of_oppositeNode' d1 hcc'
    have ed := opp_of_oppositeNode d2 hdd'
    subst ec; subst ed
    obtain ⟨k5, k8⟩ := swap_flip hT hI d1 d2 hq.1 hq.2 M5 h5a h5c M8 h8c h8b
    rw [k5, k8, swapT_coe hI.simple (hT.trans (Multiset.cons_swap _ _ _)) d2 d1]
    simp only [if_true, flipT, Multiset.map_cons]
    rw [canonTri_rot e.n1 _ _ ⟨Ne.symm hcca, hq.1, hdda⟩, canonTri_rot e.n2 _ _ ⟨Ne.symm hddb, Ne.symm hq.1, hccb⟩]
    rfl

end

/-! ## 9. the theorems in the requested form, and the surface invariant through the concrete operations -/
section
variable {R : Type} [Add R] [Sub R] [Mul R] [Div R] [Neg R] [Lit R] [LT R] [LE R] [DecidableLT R]
  [DecidableLE R] [DecidableEq R]

/-- **split_edge refines `splitT`**: the live triangles after `split_edge` are, up to the order of the list
    (not even a rotation is needed), the abstract split at the slot `add_node` hands out. -/
theorem splitEdge_refines {fn : Fn R} {k : SplitConsts R} {c c' : Cell R} {e : Edge} {chk chk' : CheckSet}
    (h : splitEdge fn k c e chk = .ok (c', chk')) (hf : FaceFreeOk c) (hI : Inv (abs c))
    (hab : e.n1 ≠ e.n2) (he : EdgeFaces c e e.n1 e.n2) :
    (abs c').Perm (splitT (abs c) e.n1 e.n2 (newSlot c)) ∧ FaceFreeOk c' :=
  ⟨perm_of_absM (splitEdge_absM h hf hI hab he).1, (splitEdge_absM h hf hI hab he).2⟩

theorem splitEdge_triEquiv {fn : Fn R} {k : SplitConsts R} {c c' : Cell R} {e : Edge} {chk chk' : CheckSet}
    (h : splitEdge fn k c e chk = .ok (c', chk')) (hf : FaceFreeOk c) (hI : Inv (abs c))
    (hab : e.n1 ≠ e.n2) (he : EdgeFaces c e e.n1 e.n2) :
    TriEquiv (abs c') (splitT (abs c) e.n1 e.n2 (newSlot c)) :=
  TriEquiv.of_perm (splitEdge_refines h hf hI hab he).1

/-- the concrete split keeps the surface invariant (guard and freshness as in `C01.Enabled`) -/
theorem splitEdge_inv {fn : Fn R} {k : SplitConsts R} {c c' : Cell R} {e : Edge} {chk chk' : CheckSet}
    (h : splitEdge fn k c e chk = .ok (c', chk')) (hf : FaceFreeOk c) (hI : Inv (abs c))
    (hab : e.n1 ≠ e.n2) (he : EdgeFaces c e e.n1 e.n2) (hfresh : Fresh (abs c) (newSlot c))
    (hg : ∀ t1 t2, findDir (abs c) e.n1 e.n2 = some t1 → findDir (abs c) e.n2 e.n1 = some t2 →
      opp t1 e.n1 e.n2 ≠ opp t2 e.n2 e.n1) : Inv (abs c') :=
  (inv_triEquiv (splitEdge_triEquiv h hf hI hab he)).2 (split_inv hI _ _ _ hfresh hg)

/-- the concrete swap keeps the surface invariant -/
theorem swapEdge_inv {fn : Fn R} {c c' : Cell R} {e : Edge}
    (h : swapEdge fn c e = .ok c') (hf : FaceFreeOk c) (hI : Inv (abs c))
    (hab : e.n1 ≠ e.n2) (he : EdgeFaces c e e.n1 e.n2) (hidx : EdgeIdxSound c)
    (hg : SwapGuard (abs c) e.n1 e.n2) : Inv (abs c') :=
  (inv_triEquiv (swapEdge_refines h hf hI hab he hidx hg).1).2 (swap_inv hI _ _ hg)

end

/-! ## 10. decidable criteria for the hypotheses, and the link with the Boolean guards of the driver -/

def tri2 (s : Nat) : Nat := s * (s + 1) / 2

theorem tri2_succ (s : Nat) : tri2 (s + 1) = tri2 s + (s + 1) := by
  unfold tri2
  have : (s + 1) * (s + 1 + 1) = s * (s + 1) + (s + 1) * 2 := by ring
  rw [this, Nat.add_mul_div_right _ _ (by norm_num)]

theorem tri2_mono {s s' : Nat} (h : s ≤ s') : tri2 s ≤ tri2 s' := by
  induction h with
  | refl => exact Nat.le_refl _
  | step _ ih => exact ih.trans (by rw [tri2_succ]; omega)

/-- `edge::hash` (Cantor pairing) is injective -/
theorem Edge.key_inj {e e' : Edge} (h : e.key = e'.key) : e.n1 = e'.n1 ∧ e.n2 = e'.n2 := by
  have key : ∀ (a b a' b' : Nat), tri2 (a + b) + b = tri2 (a' + b') + b' → a + b ≤ a' + b' := by
    intro a b a' b' h
    by_contra hlt
    have h1 : a' + b' + 1 ≤ a + b := by omega
    have h2 := tri2_mono h1
    rw [tri2_succ] at h2
    omega
  have h' : tri2 (e.n1 + e.n2) + e.n2 = tri2 (e'.n1 + e'.n2) + e'.n2 := h
  have l1 := key _ _ _ _ h'
  have l2 := key _ _ _ _ h'.symm
  have hs : e.n1 + e.n2 = e'.n1 + e'.n2 := by omega
  rw [hs] at h'
  omega

section
variable {R : Type} [Add R] [Sub R] [Mul R] [Div R] [Neg R] [Lit R] [LT R] [LE R] [DecidableLT R]
  [DecidableLE R] [DecidableEq R]

def faceFreeOkB (c : Cell R) : Bool :=
  c.freeFaces.all (fun i => match c.faces[i]? with | some f => !f.used | none => false) &&
    decide c.freeFaces.Nodup

theorem faceFreeOk_of_B {c : Cell R} (h : faceFreeOkB c = true) : FaceFreeOk c := by
  unfold faceFreeOkB at h
  simp only [Bool.and_eq_true, List.all_eq_true, decide_eq_true_eq] at h
  refine ⟨?_, h.2⟩
  intro i hi
  have := h.1 i hi
  cases hn : c.faces[i]? with
  | none => rw [hn] at this; cases this
  | some f => rw [hn] at this; exact ⟨f, rfl, by simpa using this⟩

def liveWith (c : Cell R) (g x y : Nat) : Bool :=
  match (slots c)[g]? with
  | some (some t) => hasNode t x && hasNode t y
  | _ => false

def edgeFacesB (c : Cell R) (ed : Edge) (x y : Nat) : Bool :=
  match ed.f1, ed.f2 with
  | some g1, some g2 => g1 != g2 && liveWith c g1 x y && liveWith c g2 x y
  | _, _ => false

theorem liveWith_spec {c : Cell R} {g x y : Nat} (h : liveWith c g x y = true) :
    ∃ t, (slots c)[g]? = some (some t) ∧ hasNode t x = true ∧ hasNode t y = true := by
  unfold liveWith at h
  split at h
  · rename_i t ht
    simp only [Bool.and_eq_true] at h
    exact ⟨t, ht, h.1, h.2⟩
  · cases h

theorem edgeFaces_of_B {c : Cell R} {ed : Edge} {x y : Nat} (h : edgeFacesB c ed x y = true) :
    EdgeFaces c ed x y := by
  unfold edgeFacesB at h
  split at h
  · rename_i g1 g2 h1 h2
    simp only [Bool.and_eq_true, bne_iff_ne, ne_eq] at h
    obtain ⟨⟨hne, l1⟩, l2⟩ := h
    obtain ⟨t1, s1, a1, b1⟩ := liveWith_spec l1
    obtain ⟨t2, s2, a2, b2⟩ := liveWith_spec l2
    exact ⟨g1, g2, t1, t2, h1, h2, hne, s1, s2, a1, b1, a2, b2⟩
  · cases h

theorem EdgeFaces.symm {c : Cell R} {ed : Edge} {x y : Nat} (h : EdgeFaces c ed x y) : EdgeFaces c ed y x := by
  obtain ⟨g1, g2, t1, t2, h1, h2, hne, s1, s2, a1, b1, a2, b2⟩ := h
  exact ⟨g1, g2, t1, t2, h1, h2, hne, s1, s2, b1, a1, b2, a2⟩

theorem getEdge_some {c : Cell R} {x y : Nat} {ed : Edge} (h : getEdge c x y = some ed) :
    ed ∈ c.edges ∧ ed.key = Edge.keyOf x y := by
  unfold getEdge EdgeSet.find? at h
  exact ⟨List.mem_of_find?_eq_some h, by simpa using List.find?_some h⟩

/-- a finite test for `EdgeIdxSound`: every stored edge names two different live faces containing its nodes -/
def edgeIdxSoundB (c : Cell R) : Bool := c.edges.all (fun ed => edgeFacesB c ed ed.n1 ed.n2)

theorem edgeIdxSound_of_B {c : Cell R} (h : edgeIdxSoundB c = true) : EdgeIdxSound c := by
  intro x y ed hed
  obtain ⟨hm, hk⟩ := getEdge_some hed
  have hE := edgeFaces_of_B (List.all_eq_true.1 h ed hm)
  unfold Edge.keyOf at hk
  obtain ⟨k1, k2⟩ := Edge.key_inj hk
  by_cases hxy : x < y
  · simp only [Edge.mk', hxy, if_true] at k1 k2
    rw [k1, k2] at hE; exact hE
  · simp only [Edge.mk', hxy, if_false] at k1 k2
    rw [k1, k2] at hE; exact hE.symm

end

/-! ### the Boolean guards evaluated by the driver imply the propositional ones -/

theorem mem_he_iff {T : List Tri} {p : HE} : p ∈ he T ↔ p ∈ heM T := by
  rw [mem_heM]
  unfold he
  rw [List.mem_flatMap]
  constructor
  · rintro ⟨t, ht, hp⟩
    exact ⟨t, ht, by simpa [heTri, heTriM] using hp⟩
  · rintro ⟨t, ht, hp⟩
    exact ⟨t, ht, by simpa [heTri, heTriM] using hp⟩

theorem mem_neighbours_of_adj {T : List Tri} {c d : Nat} (h : Adj T c d) : d ∈ neighbours T c := by
  unfold neighbours
  rw [List.mem_eraseDups, List.mem_filterMap]
  rcases h with h | h
  · exact ⟨(c, d), mem_he_iff.2 h, by simp⟩
  · refine ⟨(d, c), mem_he_iff.2 h, ?_⟩
    by_cases hdc : d = c
    · simp [hdc]
    · simp [hdc]

/-- `swapGuardB` (checked by the driver on every executed swap) implies `SwapGuard` -/
theorem swapGuard_of_B {T : List Tri} {a b : Nat} (h : swapGuardB T a b = true) : SwapGuard T a b := by
  intro t1 t2 h1 h2
  unfold swapGuardB at h
  rw [h1, h2] at h
  simp only [Bool.and_eq_true, bne_iff_ne, ne_eq, Bool.not_eq_true', List.contains_eq_mem,
    decide_eq_false_iff_not] at h
  exact ⟨h.1, fun hadj => h.2 (mem_neighbours_of_adj hadj)⟩

/-- `splitGuardB` implies the guard of `split_inv` -/
theorem splitGuard_of_B {T : List Tri} {a b : Nat} (h : splitGuardB T a b = true) :
    ∀ t1 t2, findDir T a b = some t1 → findDir T b a = some t2 → opp t1 a b ≠ opp t2 b a := by
  intro t1 t2 h1 h2
  unfold splitGuardB at h
  rw [h1, h2] at h
  simpa using h

/-! ## 11. non-vacuity: the octahedron over ℚ, evaluated by the kernel -/
section examples
set_option maxRecDepth 1000000

def fnQ : Fn ℚ := ⟨id, id, id, id, fun _ => 0⟩
def octa : List Tri := [(0, 2, 4), (2, 1, 4), (1, 3, 4), (3, 0, 4), (2, 0, 5), (1, 2, 5), (3, 1, 5), (0, 3, 5)]
def octaQ : Except Err (Cell ℚ) :=
  initCell fnQ [⟨1, 0, 0⟩, ⟨-1, 0, 0⟩, ⟨0, 1, 0⟩, ⟨0, -1, 0⟩, ⟨0, 0, 1⟩, ⟨0, 0, -1⟩] octa
def octaCell : Cell ℚ := match octaQ with | .ok c => c | .error _ => ⟨#[], #[], [], [], []⟩
/-- the index entries of the edges 0–2 (its first face traverses 0→2) and 1–2 (its first face traverses 2→1) -/
def e02 : Edge := (getEdge octaCell 0 2).getD ⟨0, 0, none, none⟩
def e12 : Edge := (getEdge octaCell 1 2).getD ⟨0, 0, none, none⟩

def okB {ε α : Type} : Except ε α → Bool | .ok _ => true | .error _ => false
theorem ok_of_okB {ε α : Type} {x : Except ε α} (h : okB x = true) : ∃ a, x = .ok a := by
  cases x with
  | ok a => exact ⟨a, rfl⟩
  | error e => cases h

local instance (T : List Tri) : Decidable (NonDeg T) := by unfold NonDeg; infer_instance
local instance (T : List Tri) : Decidable (Simple T) := by unfold Simple; infer_instance
local instance (T : List Tri) : Decidable (Closed T) := by unfold Closed; infer_instance

theorem abs_octaCell : abs octaCell = octa := by decide +kernel

theorem octa_inv : Inv (abs octaCell) := by
  rw [abs_octaCell]; exact ⟨by decide, by decide, by decide⟩

example : e02 = ⟨0, 2, some 0, some 4⟩ ∧ e12 = ⟨1, 2, some 1, some 5⟩ := by decide +kernel

/-- all hypotheses of `splitEdge_refines` hold for the edge 0–2 of the octahedron, and the operation succeeds -/
example : ∃ c' chk', splitEdge fnQ Gen.splitConsts octaCell e02 [] = .ok (c', chk') ∧
    (abs c').Perm (splitT octa 0 2 6) ∧ FaceFreeOk c' := by
  obtain ⟨⟨c', chk'⟩, h⟩ := ok_of_okB (x := splitEdge fnQ Gen.splitConsts octaCell e02 []) (by decide +kernel)
  have hr := splitEdge_refines h (faceFreeOk_of_B (by decide +kernel)) octa_inv (by decide +kernel)
    (edgeFaces_of_B (by decide +kernel))
  have e : splitT (abs octaCell) e02.n1 e02.n2 (newSlot octaCell) = splitT octa 0 2 6 := by decide +kernel
  rw [e] at hr
  exact ⟨c', chk', h, hr.1, hr.2⟩

/-- the same for `swapEdge_refines`; edge 0–2: neither new face is flipped -/
example : ∃ c', swapEdge fnQ octaCell e02 = .ok c' ∧ TriEquiv (abs c') (swapT octa 0 2) ∧ FaceFreeOk c' := by
  obtain ⟨c', h⟩ := ok_of_okB (x := swapEdge fnQ octaCell e02) (by decide +kernel)
  have hr := swapEdge_refines h (faceFreeOk_of_B (by decide +kernel)) octa_inv (by decide +kernel)
    (edgeFaces_of_B (by decide +kernel)) (edgeIdxSound_of_B (by decide +kernel))
    (swapGuard_of_B (by decide +kernel))
  have e : swapT (abs octaCell) e02.n1 e02.n2 = swapT octa 0 2 := by decide +kernel
  rw [e] at hr
  exact ⟨c', h, hr.1, hr.2⟩

/-- edge 1–2: the first face traverses 2→1, both new faces are flipped by `check_face_winding_order` -/
example : ∃ c', swapEdge fnQ octaCell e12 = .ok c' ∧ TriEquiv (abs c') (swapT octa 1 2) ∧ FaceFreeOk c' := by
  obtain ⟨c', h⟩ := ok_of_okB (x := swapEdge fnQ octaCell e12) (by decide +kernel)
  have hr := swapEdge_refines h (faceFreeOk_of_B (by decide +kernel)) octa_inv (by decide +kernel)
    (edgeFaces_of_B (by decide +kernel)) (edgeIdxSound_of_B (by decide +kernel))
    (swapGuard_of_B (by decide +kernel))
  have e : swapT (abs octaCell) e12.n1 e12.n2 = swapT octa 1 2 := by decide +kernel
  rw [e] at hr
  exact ⟨c', h, hr.1, hr.2⟩

/-- in that case the rotation is really needed: the triangle lists are not permutations of each other -/
example : (match swapEdge fnQ octaCell e12 with
    | .ok c' => decide ((abs c').Perm (swapT octa 1 2)) | .error _ => true) = false := by decide +kernel

-- (`Surface.canon` itself cannot be evaluated by the kernel: `Array.qsort` is defined by well-founded recursion.)

end examples

end Simu.Remesh

#print axioms Simu.Remesh.splitEdge_refines
#print axioms Simu.Remesh.swapEdge_refines
#print axioms Simu.Remesh.abs_addFace
#print axioms Simu.Remesh.abs_deleteFace
#print axioms Simu.Remesh.TriEquiv.of_canon
#print axioms Simu.Remesh.heM_triEquiv
#print axioms Simu.Remesh.swapGuard_of_B
#print axioms Simu.Remesh.edgeIdxSound_of_B
#print axioms Simu.Remesh.octa_inv
