import SimuVerif.Model.Gate
import Mathlib.Tactic.Linarith
/-
  C13 — the retry loop of `simulation_initializer::triangulate_surface` (model: `Gate.triesLoop`, `Gate.tries`).
-/
namespace Simu.C13
open Simu.Gate

/-- what the loop returns when entered with loop variable `i` and `rem = maxTries − i` iterations left -/
theorem triesLoop_spec {ε α : Type} (fail : ε) (attempt : Nat → Except ε α) (maxTries : Nat) :
    ∀ rem i, i + rem = maxTries →
      (triesLoop fail attempt maxTries rem i).2 ≤ maxTries ∧ i ≤ (triesLoop fail attempt maxTries rem i).2 ∧
      (∀ c, (triesLoop fail attempt maxTries rem i).1 = .ok (some c) →
        i < (triesLoop fail attempt maxTries rem i).2 ∧
        attempt ((triesLoop fail attempt maxTries rem i).2 - 1) = .ok c ∧
        ∀ j, i ≤ j → j < (triesLoop fail attempt maxTries rem i).2 - 1 → ∃ e, attempt j = .error e) ∧
      ((triesLoop fail attempt maxTries rem i).1 = .ok none → rem = 0) ∧
      (∀ e, (triesLoop fail attempt maxTries rem i).1 = .error e →
        e = fail ∧ (triesLoop fail attempt maxTries rem i).2 = maxTries ∧
        ∀ j, i ≤ j → j < maxTries → ∃ e', attempt j = .error e') := by
  intro rem
  induction rem with
  | zero =>
    intro i hi
    simp only [triesLoop]
    refine ⟨by omega, le_refl _, ?_, fun _ => trivial, ?_⟩
    · intro c h; cases h
    · intro e h; cases h
  | succ rem ih =>
    intro i hi
    simp only [triesLoop]
    cases ha : attempt i with
    | ok c =>
      simp only
      refine ⟨by omega, by omega, ?_, ?_, ?_⟩
      · intro c' h
        simp only [Except.ok.injEq, Option.some.injEq] at h
        subst h
        refine ⟨by omega, by simpa using ha, ?_⟩
        intro j h1 h2; simp only [Nat.add_sub_cancel] at h2; omega
      · intro h; cases h
      · intro e h; cases h
    | error e0 =>
      simp only
      by_cases hlast : i + 1 = maxTries
      · simp only [hlast, beq_self_eq_true, if_true]
        refine ⟨le_refl _, by omega, ?_, ?_, ?_⟩
        · intro c h; cases h
        · intro h; cases h
        · intro e h
          simp only [Except.error.injEq] at h
          refine ⟨h.symm, trivial, ?_⟩
          intro j h1 h2
          have : j = i := by omega
          subst this; exact ⟨e0, ha⟩
      · have hb : (i + 1 == maxTries) = false := by simpa using hlast
        simp only [hb, Bool.false_eq_true, if_false]
        obtain ⟨h1, h2, h3, h4, h5⟩ := ih (i + 1) (by omega)
        refine ⟨h1, by omega, ?_, ?_, ?_⟩
        · intro c h
          obtain ⟨g1, g2, g3⟩ := h3 c h
          refine ⟨by omega, g2, ?_⟩
          intro j hj1 hj2
          by_cases hji : j = i
          · subst hji; exact ⟨e0, ha⟩
          · exact g3 j (by omega) hj2
        · intro h; have := h4 h; omega
        · intro e h
          obtain ⟨g1, g2, g3⟩ := h5 e h
          refine ⟨g1, g2, ?_⟩
          intro j hj1 hj2
          by_cases hji : j = i
          · subst hji; exact ⟨e0, ha⟩
          · exact g3 j (by omega) hj2

end Simu.C13
