import SimuVerif.Gen.ContactRule
import SimuVerif.Lemmas.Field
import SimuVerif.Lemmas.KernelSpec
import Mathlib.Tactic.Linarith
import Mathlib.Tactic.Ring
/-
  C07 — the shape of what the generated per-pair rules return: every force block of the three models is
  `V` times the barycentric coordinates on the three face nodes and `−V` on the node, with `V` a multiple `k` of the
  vector from the closest point of approach to the node; which `k`, and under which tests it is not zero.
-/
set_option linter.unusedSectionVars false
namespace Simu.C07
open Simu Simu.Gen
variable {R : Type} [Field R] [LinearOrder R] [IsStrictOrderedRing R]

/-- a force `V` applied to the triangle at barycentric coordinates `w`, and its opposite on the node -/
def forcesOf (V w : V3 R) : Forces R := Forces.mk (V * (-1 : R)) (V * w.x) (V * w.y) (V * w.z)

theorem forcesOf_eq (X0 X1 X2 X3 V w : V3 R) (h0 : X0 = V * (-1 : R)) (h1 : X1 = V * w.x) (h2 : X2 = V * w.y) (h3 : X3 = V * w.z) :
    Forces.mk X0 X1 X2 X3 = forcesOf V w := by subst h0 h1 h2 h3; rfl

@[simp] theorem vzero_x : (vzero : V3 R).x = 0 := by simp [vzero]
@[simp] theorem vzero_y : (vzero : V3 R).y = 0 := by simp [vzero]
@[simp] theorem vzero_z : (vzero : V3 R).z = 0 := by simp [vzero]

/-- componentwise equality of two small vector expressions -/
macro "comp" : tactic => `(tactic| (apply V3.ext' <;> simp only [vzero_x, vzero_y, vzero_z, V3.add_x, V3.add_y, V3.add_z,
  V3.smul_x, V3.smul_y, V3.smul_z, V3.sub_x, V3.sub_y, V3.sub_z, V3.neg_x, V3.neg_y, V3.neg_z] <;> ring))

theorem forcesOf_zero (v w : V3 R) : forcesOf (v * (0 : R)) w = (noForces : Forces R) := by
  unfold forcesOf noForces
  congr 1 <;> comp

/-- closest point of approach exactly as the rules compute it from the kernel's barycentric coordinates -/
def cpa (p a b c : V3 R) : V3 R :=
  a * (closestPt p a b c).2.x + b * (closestPt p a b c).2.y + c * (closestPt p a b c).2.z

theorem cpa_eq_baryPt (p a b c : V3 R) : cpa p a b c = baryPt (closestPt p a b c).2 a b c := rfl

/-- model 0: the value of `adhesive_contact` after the reversals -/
def adhesive0 (c1 c2 : CCell R) (n1 : CNode R) (f : CFace R) (a b c : V3 R) : Bool :=
  xor (decide ((0 : R) < V3.dot (n1.pos - cpa n1.pos a b c) f.normal)) (reversal0 c1.type c2.type)
/-- model 1: the value of `contact_is_repulsive` after the reversals -/
def repulsive1 (c1 c2 : CCell R) (n1 : CNode R) (f : CFace R) (a b c : V3 R) : Bool :=
  xor (decide (V3.dot (n1.pos - cpa n1.pos a b c) f.normal < (0 : R))) (reversal1 c1.type c2.type)
/-- model 2: the value of `contact_is_repulsive` after the reversals -/
def repulsive2 (c1 c2 : CCell R) (n1 : CNode R) (f : CFace R) (a b c : V3 R) : Bool :=
  xor (decide (V3.dot (n1.pos - cpa n1.pos a b c) f.normal < (0 : R))) (reversal2 c1.type c2.type)

/-- **model 0**: `apply_contact_forces` adds `forcesOf ((p − cpa)·k) bary`; `k ≠ 0` only inside the overall cut-off, off the
    surface, and inside the cut-off of the branch taken; `k` is the repulsion stiffness × area when only the repulsion
    branch is taken; `k ≥ 0` for non-negative strengths and area as soon as the hardening factor is not negative -/
theorem rule0_form (fn : Fn R) (P : CParams R) (c1 c2 : CCell R) (n1 : CNode R) (f : CFace R) (f_n1 f_n2 f_n3 : CNode R) :
    ∃ k : R, rule0 fn P c1 c2 n1 f f_n1 f_n2 f_n3 =
        forcesOf ((n1.pos - cpa n1.pos f_n1.pos f_n2.pos f_n3.pos) * k) (closestPt n1.pos f_n1.pos f_n2.pos f_n3.pos).2 ∧
      (k ≠ 0 → ((closestPt n1.pos f_n1.pos f_n2.pos f_n3.pos).1 < P.cut0Sq ∧ (closestPt n1.pos f_n1.pos f_n2.pos f_n3.pos).1 ≠ 0) ∧
        ((adhesive0 c1 c2 n1 f f_n1.pos f_n2.pos f_n3.pos = true ∧ (closestPt n1.pos f_n1.pos f_n2.pos f_n3.pos).1 < P.cutAdhSq) ∨
         ((!adhesive0 c1 c2 n1 f f_n1.pos f_n2.pos f_n3.pos) = true ∧ (closestPt n1.pos f_n1.pos f_n2.pos f_n3.pos).1 < P.cutRepSq))) ∧
      (((closestPt n1.pos f_n1.pos f_n2.pos f_n3.pos).1 < P.cut0Sq ∧ (closestPt n1.pos f_n1.pos f_n2.pos f_n3.pos).1 ≠ 0) →
        ((!adhesive0 c1 c2 n1 f f_n1.pos f_n2.pos f_n3.pos) = true ∧ (closestPt n1.pos f_n1.pos f_n2.pos f_n3.pos).1 < P.cutRepSq) →
        ¬ (adhesive0 c1 c2 n1 f f_n1.pos f_n2.pos f_n3.pos = true ∧ (closestPt n1.pos f_n1.pos f_n2.pos f_n3.pos).1 < P.cutAdhSq) →
        k = f.rep * f.area) ∧
      (0 ≤ f.adh → 0 ≤ f.rep → 0 ≤ f.area →
        ((closestPt n1.pos f_n1.pos f_n2.pos f_n3.pos).1 ≠ 0 → (closestPt n1.pos f_n1.pos f_n2.pos f_n3.pos).1 < P.cutAdhSq →
          0 ≤ P.cutAdh / fn.sqrt (closestPt n1.pos f_n1.pos f_n2.pos f_n3.pos).1 - 1) → 0 ≤ k) := by
  unfold rule0 adhesive0 cpa
  simp only [lit_zero, lit_one]
  generalize closestPt n1.pos f_n1.pos f_n2.pos f_n3.pos = K
  generalize hv : n1.pos - (f_n1.pos * K.2.x + f_n2.pos * K.2.y + f_n3.pos * K.2.z) = v
  generalize xor (decide (0 < V3.dot v f.normal)) (reversal0 c1.type c2.type) = adh
  split_ifs with hO hR hA hH hA hH
  · exact ⟨f.adh * (P.cutAdh / fn.sqrt K.1 - 1) * f.area + f.rep * f.area,
      forcesOf_eq _ _ _ _ _ _ (by comp) (by comp) (by comp) (by comp), fun _ => ⟨hO, Or.inl hA⟩, fun _ _ h => absurd hA h,
      fun ha hr hs hq => add_nonneg (mul_nonneg (mul_nonneg ha (hq hO.2 hA.2)) hs) (mul_nonneg hr hs)⟩
  · exact ⟨f.adh * f.area + f.rep * f.area,
      forcesOf_eq _ _ _ _ _ _ (by comp) (by comp) (by comp) (by comp), fun _ => ⟨hO, Or.inl hA⟩, fun _ _ h => absurd hA h,
      fun ha hr hs _ => add_nonneg (mul_nonneg ha hs) (mul_nonneg hr hs)⟩
  · exact ⟨f.rep * f.area, forcesOf_eq _ _ _ _ _ _ (by comp) (by comp) (by comp) (by comp), fun _ => ⟨hO, Or.inr hR⟩,
      fun _ _ _ => rfl, fun _ hr hs _ => mul_nonneg hr hs⟩
  · exact ⟨f.adh * (P.cutAdh / fn.sqrt K.1 - 1) * f.area,
      forcesOf_eq _ _ _ _ _ _ (by comp) (by comp) (by comp) (by comp), fun _ => ⟨hO, Or.inl hA⟩, fun _ h _ => absurd h hR,
      fun ha _ hs hq => mul_nonneg (mul_nonneg ha (hq hO.2 hA.2)) hs⟩
  · exact ⟨f.adh * f.area, forcesOf_eq _ _ _ _ _ _ (by comp) (by comp) (by comp) (by comp), fun _ => ⟨hO, Or.inl hA⟩,
      fun _ h _ => absurd h hR, fun ha _ hs _ => mul_nonneg ha hs⟩
  · exact ⟨0, forcesOf_eq _ _ _ _ _ _ (by comp) (by comp) (by comp) (by comp), fun hk => absurd rfl hk, fun _ h _ => absurd h hR,
      fun _ _ _ _ => le_refl _⟩
  · exact ⟨0, forcesOf_eq _ _ _ _ _ _ (by comp) (by comp) (by comp) (by comp), fun hk => absurd rfl hk, fun h _ _ => absurd h hO,
      fun _ _ _ _ => le_refl _⟩

/-- **model 1**: after the coupling block `resolve_contact` adds `forcesOf ((p − cpa)·k) bary` with `k` = repulsion stiffness × area
    when the distance is inside the (largest) cut-off and the contact is on the repulsive side, `k = 0` otherwise -/
theorem repulse1_form (fn : Fn R) (P : CParams R) (c1 c2 : CCell R) (n1 : CNode R) (f : CFace R) (f_n1 f_n2 f_n3 : CNode R) :
    ∃ k : R, repulse1 fn P c1 c2 n1 f f_n1 f_n2 f_n3 =
        forcesOf ((n1.pos - cpa n1.pos f_n1.pos f_n2.pos f_n3.pos) * k) (closestPt n1.pos f_n1.pos f_n2.pos f_n3.pos).2 ∧
      (k ≠ 0 → (closestPt n1.pos f_n1.pos f_n2.pos f_n3.pos).1 < P.maxCutSq ∧ repulsive1 c1 c2 n1 f f_n1.pos f_n2.pos f_n3.pos = true) ∧
      ((closestPt n1.pos f_n1.pos f_n2.pos f_n3.pos).1 < P.maxCutSq → repulsive1 c1 c2 n1 f f_n1.pos f_n2.pos f_n3.pos = true →
        k = f.rep * f.area) ∧
      (0 ≤ f.rep → 0 ≤ f.area → 0 ≤ k) := by
  unfold repulse1 repulsive1 cpa
  simp only [lit_zero, lit_one]
  generalize closestPt n1.pos f_n1.pos f_n2.pos f_n3.pos = K
  generalize hv : n1.pos - (f_n1.pos * K.2.x + f_n2.pos * K.2.y + f_n3.pos * K.2.z) = v
  generalize xor (decide (V3.dot v f.normal < 0)) (reversal1 c1.type c2.type) = rp
  split_ifs with hO hR
  · exact ⟨f.rep * f.area, forcesOf_eq _ _ _ _ _ _ (by comp) (by comp) (by comp) (by comp), fun _ => ⟨hO, hR⟩, fun _ _ => rfl,
      fun hr hs => mul_nonneg hr hs⟩
  · exact ⟨0, forcesOf_eq _ _ _ _ _ _ (by comp) (by comp) (by comp) (by comp), fun hk => absurd rfl hk, fun _ h => absurd h hR,
      fun _ _ => le_refl _⟩
  · exact ⟨0, forcesOf_eq _ _ _ _ _ _ (by comp) (by comp) (by comp) (by comp), fun hk => absurd rfl hk, fun h _ => absurd h hO,
      fun _ _ => le_refl _⟩

/-- **model 2**: same shape as model 1 -/
theorem repulse2_form (fn : Fn R) (P : CParams R) (c1 c2 : CCell R) (n1 : CNode R) (f : CFace R) (f_n1 f_n2 f_n3 : CNode R) :
    ∃ k : R, repulse2 fn P c1 c2 n1 f f_n1 f_n2 f_n3 =
        forcesOf ((n1.pos - cpa n1.pos f_n1.pos f_n2.pos f_n3.pos) * k) (closestPt n1.pos f_n1.pos f_n2.pos f_n3.pos).2 ∧
      (k ≠ 0 → (closestPt n1.pos f_n1.pos f_n2.pos f_n3.pos).1 < P.maxCutSq ∧ repulsive2 c1 c2 n1 f f_n1.pos f_n2.pos f_n3.pos = true) ∧
      ((closestPt n1.pos f_n1.pos f_n2.pos f_n3.pos).1 < P.maxCutSq → repulsive2 c1 c2 n1 f f_n1.pos f_n2.pos f_n3.pos = true →
        k = f.rep * f.area) ∧
      (0 ≤ f.rep → 0 ≤ f.area → 0 ≤ k) := by
  unfold repulse2 repulsive2 cpa
  simp only [lit_zero, lit_one]
  generalize closestPt n1.pos f_n1.pos f_n2.pos f_n3.pos = K
  generalize hv : n1.pos - (f_n1.pos * K.2.x + f_n2.pos * K.2.y + f_n3.pos * K.2.z) = v
  generalize xor (decide (V3.dot v f.normal < 0)) (reversal2 c1.type c2.type) = rp
  split_ifs with hO hR
  · exact ⟨f.rep * f.area, forcesOf_eq _ _ _ _ _ _ (by comp) (by comp) (by comp) (by comp), fun _ => ⟨hO, hR⟩, fun _ _ => rfl,
      fun hr hs => mul_nonneg hr hs⟩
  · exact ⟨0, forcesOf_eq _ _ _ _ _ _ (by comp) (by comp) (by comp) (by comp), fun hk => absurd rfl hk, fun _ h => absurd h hR,
      fun _ _ => le_refl _⟩
  · exact ⟨0, forcesOf_eq _ _ _ _ _ _ (by comp) (by comp) (by comp) (by comp), fun hk => absurd rfl hk, fun h _ => absurd h hO,
      fun _ _ => le_refl _⟩

/-! ### the coupling block of models 1 and 2 -/

/-- the choice among the three candidate distances returns one of them with its index -/
theorem coupleChoose1_spec (d1 d2 d3 : R) :
    coupleChoose1 d1 d2 d3 = (d1, 1) ∨ coupleChoose1 d1 d2 d3 = (d2, 2) ∨ coupleChoose1 d1 d2 d3 = (d3, 3) := by
  unfold coupleChoose1; simp only []; split_ifs <;> simp
theorem coupleChoose2_spec (d1 d2 d3 : R) :
    coupleChoose2 d1 d2 d3 = (d1, 1) ∨ coupleChoose2 d1 d2 d3 = (d2, 2) ∨ coupleChoose2 d1 d2 d3 = (d3, 3) := by
  unfold coupleChoose2; simp only []; split_ifs <;> simp

/-- each candidate distance is the true squared distance to that face node or the value standing for "excluded" -/
theorem coupleDist1_spec (fn : Fn R) (P : CParams R) (c1 c2 : CCell R) (n1 : CNode R) (f : CFace R) (f_n1 f_n2 f_n3 : CNode R) :
    ((coupleDist1 fn P c1 c2 n1 f f_n1 f_n2 f_n3).1 = V3.normSq (n1.pos - f_n1.pos) ∨ (coupleDist1 fn P c1 c2 n1 f f_n1 f_n2 f_n3).1 = P.big) ∧
    ((coupleDist1 fn P c1 c2 n1 f f_n1 f_n2 f_n3).2.1 = V3.normSq (n1.pos - f_n2.pos) ∨ (coupleDist1 fn P c1 c2 n1 f f_n1 f_n2 f_n3).2.1 = P.big) ∧
    ((coupleDist1 fn P c1 c2 n1 f f_n1 f_n2 f_n3).2.2 = V3.normSq (n1.pos - f_n3.pos) ∨ (coupleDist1 fn P c1 c2 n1 f f_n1 f_n2 f_n3).2.2 = P.big) := by
  unfold coupleDist1
  simp only []
  refine ⟨?_, ?_, ?_⟩ <;> split_ifs <;> simp

theorem coupleDist2_spec (fn : Fn R) (P : CParams R) (c1 c2 : CCell R) (n1 : CNode R) (f : CFace R) (f_n1 f_n2 f_n3 : CNode R) :
    ((coupleDist2 fn P c1 c2 n1 f f_n1 f_n2 f_n3).1 = V3.normSq (n1.pos - f_n1.pos) ∨ (coupleDist2 fn P c1 c2 n1 f f_n1 f_n2 f_n3).1 = P.big) ∧
    ((coupleDist2 fn P c1 c2 n1 f f_n1 f_n2 f_n3).2.1 = V3.normSq (n1.pos - f_n2.pos) ∨ (coupleDist2 fn P c1 c2 n1 f f_n1 f_n2 f_n3).2.1 = P.big) ∧
    ((coupleDist2 fn P c1 c2 n1 f f_n1 f_n2 f_n3).2.2.1 = V3.normSq (n1.pos - f_n3.pos) ∨ (coupleDist2 fn P c1 c2 n1 f f_n1 f_n2 f_n3).2.2.1 = P.big) := by
  unfold coupleDist2
  simp only []
  refine ⟨?_, ?_, ?_⟩ <;> split_ifs <;> simp

end Simu.C07
