import SimuVerif.Lemmas.SurfaceSplitSwap
import SimuVerif.Lemmas.SurfaceCollapseEuler
import Mathlib.Logic.Relation
/-
  Vertex-manifoldness of an abstract triangulated surface, and its preservation by split / swap / collapse.

  The LINK of a node `v` in the triangle list `T` is the directed graph `Lk T v` on the neighbours of `v`: `x → y` iff
  some triangle of `T` is a rotation of `(v, x, y)`.  Under the surface invariant `Inv` every neighbour has exactly one
  outgoing and one incoming link edge, so the link is a disjoint union of directed cycles; the node is VERTEX-MANIFOLD
  iff the link is a single cycle, i.e. iff it is connected: `VMC T v`.  (`Inv` alone allows a pinched node whose link
  consists of several cycles.)

  Each operation changes the links of a few nodes by a renaming, the subdivision of an edge, the smoothing of a node of
  degree (1,1), or — at the new node of a collapse — by glueing two paths; all of these preserve connectedness
  (`conn_sim`).
-/
set_option linter.unusedSectionVars false
set_option linter.unusedVariables false
set_option linter.unusedSimpArgs false
namespace Simu.Surface
open Relation

/-! ## 1. connected relations -/

/-- any two points with an outgoing edge are joined by a path -/
def Conn (r : Nat → Nat → Prop) : Prop := ∀ x y x' y', r x x' → r y y' → ReflTransGen r x y

/-- **simulation**: every edge of `r` is simulated by a path of `r'` between the images, and every point of `r'` is joined
    in both directions to the image of a point of `r` -/
theorem conn_sim {r r' : Nat → Nat → Prop} (f : Nat → Nat) (hc : Conn r)
    (sim : ∀ x y, r x y → ReflTransGen r' (f x) (f y))
    (cover : ∀ x x', r' x x' → ∃ x0 x0', r x0 x0' ∧ ReflTransGen r' x (f x0) ∧ ReflTransGen r' (f x0) x) :
    Conn r' := by
  intro x y x' y' hx hy
  obtain ⟨x0, x0', hx0, px1, _⟩ := cover x x' hx
  obtain ⟨y0, y0', hy0, _, py2⟩ := cover y y' hy
  have := (hc x0 y0 x0' y0' hx0 hy0).lift' f sim
  exact px1.trans (this.trans py2)

/-- a path to `y` can be chosen so that it never leaves `y` before the end -/
theorem rtg_avoid_out {r : Nat → Nat → Prop} {x y : Nat} (h : ReflTransGen r x y) :
    ReflTransGen (fun u w => r u w ∧ u ≠ y) x y := by
  induction h using ReflTransGen.head_induction_on with
  | refl => exact ReflTransGen.refl
  | @head a c hab _ ih =>
    by_cases ha : a = y
    · subst ha; exact ReflTransGen.refl
    · exact ReflTransGen.head ⟨hab, ha⟩ ih

/-- a path from `x ≠ m` to `y`, where the only edge into `m` comes from `y`, avoids `m` -/
theorem rtg_avoid {r : Nat → Nat → Prop} {x y m : Nat} (h : ReflTransGen r x y) (hx : x ≠ m)
    (hin : ∀ u, r u m → u = y) : ReflTransGen (fun u w => r u w ∧ u ≠ m ∧ w ≠ m) x y := by
  have h' := rtg_avoid_out h
  clear h
  induction h' using ReflTransGen.head_induction_on with
  | refl => exact ReflTransGen.refl
  | @head a c hab _ ih =>
    have hb : c ≠ m := by
      rintro rfl
      exact hab.2 (hin a hab.1)
    exact ReflTransGen.head ⟨hab.1, hx, hb⟩ (ih hb)

/-! ## 2. the link of a node -/

/-- `t` is a rotation of `(v, x, y)` -/
def IsRot (t : Tri) (v x y : Nat) : Prop := t = (v, x, y) ∨ t = (x, y, v) ∨ t = (y, v, x)

/-- the link of `v`: `x → y` iff a triangle of `T` is a rotation of `(v, x, y)` -/
def Lk (T : List Tri) (v x y : Nat) : Prop := ∃ t ∈ T, IsRot t v x y

/-- **vertex-manifold**: the link of `v` is connected (hence, under `Inv`, a single cycle) -/
def VMC (T : List Tri) (v : Nat) : Prop := Conn (Lk T v)

/-- every node is vertex-manifold (for a node that occurs in no triangle the statement is empty) -/
def AllVMC (T : List Tri) : Prop := ∀ v, VMC T v

theorem isRot_mk (p q r v x y : Nat) :
    IsRot (p, q, r) v x y ↔ ((v = p ∧ x = q ∧ y = r) ∨ (v = q ∧ x = r ∧ y = p) ∨ (v = r ∧ x = p ∧ y = q)) := by
  unfold IsRot
  simp only [Prod.mk.injEq]
  constructor
  · rintro (⟨rfl, rfl, rfl⟩ | ⟨rfl, rfl, rfl⟩ | ⟨rfl, rfl, rfl⟩)
    · exact Or.inl ⟨rfl, rfl, rfl⟩
    · exact Or.inr (Or.inr ⟨rfl, rfl, rfl⟩)
    · exact Or.inr (Or.inl ⟨rfl, rfl, rfl⟩)
  · rintro (⟨rfl, rfl, rfl⟩ | ⟨rfl, rfl, rfl⟩ | ⟨rfl, rfl, rfl⟩)
    · exact Or.inl ⟨rfl, rfl, rfl⟩
    · exact Or.inr (Or.inr ⟨rfl, rfl, rfl⟩)
    · exact Or.inr (Or.inl ⟨rfl, rfl, rfl⟩)

/-- a triangle through `a → b` is a rotation of `(a, b, opp)` -/
theorem isRot_of_hasDir {t : Tri} {a b : Nat} (h : hasDir t a b = true) (v x y : Nat) :
    IsRot t v x y ↔ IsRot (a, b, opp t a b) v x y := by
  have hc := hasDir_cases h
  generalize opp t a b = c at hc
  rw [isRot_mk]
  rcases hc with rfl | rfl | rfl
  · rw [isRot_mk]; tauto
  · rw [isRot_mk]
  · rw [isRot_mk]; tauto

theorem isRot_hasDir {t : Tri} {v x y : Nat} (h : IsRot t v x y) :
    hasDir t v x = true ∧ hasDir t x y = true ∧ hasDir t y v = true := by
  rcases h with rfl | rfl | rfl <;> simp [hasDir]

theorem isRot_hasNode {t : Tri} {v x y : Nat} (h : IsRot t v x y) :
    hasNode t v = true ∧ hasNode t x = true ∧ hasNode t y = true := by
  rcases h with rfl | rfl | rfl <;> simp [hasNode]

theorem lk_cons (t : Tri) (T : List Tri) (v x y : Nat) : Lk (t :: T) v x y ↔ (IsRot t v x y ∨ Lk T v x y) := by
  unfold Lk; simp

theorem lk_perm {T T' : List Tri} (h : T.Perm T') (v x y : Nat) : Lk T v x y ↔ Lk T' v x y := by
  unfold Lk
  constructor
  · rintro ⟨t, ht, hr⟩; exact ⟨t, h.mem_iff.1 ht, hr⟩
  · rintro ⟨t, ht, hr⟩; exact ⟨t, h.mem_iff.2 ht, hr⟩

theorem lk_of_mem {T : List Tri} {t : Tri} (ht : t ∈ T) {v x y : Nat} (h : IsRot t v x y) : Lk T v x y :=
  ⟨t, ht, h⟩

/-- a triangle through the directed edge `v → x` gives the link edge `x → opp` -/
theorem lk_of_hasDir {T : List Tri} {t : Tri} (ht : t ∈ T) {v x : Nat} (h : hasDir t v x = true) :
    Lk T v x (opp t v x) := ⟨t, ht, (isRot_of_hasDir h v x (opp t v x)).2 (Or.inl rfl)⟩

/-! ### under the invariant every link node has exactly one outgoing and one incoming edge -/

theorem mem_heTriM_of_dir {t : Tri} {a b : Nat} (h : hasDir t a b = true) : (a, b) ∈ heTriM t := by
  rw [ce_mem_heTriM]
  rw [hasDir_iff] at h
  simp only [Prod.mk.injEq]
  omega

theorem lk_out_unique {T : List Tri} (hI : Inv T) {v x y y' : Nat} (h : Lk T v x y) (h' : Lk T v x y') : y = y' := by
  obtain ⟨t, ht, hr⟩ := h
  obtain ⟨t', ht', hr'⟩ := h'
  have hd := (isRot_hasDir hr).1
  have hd' := (isRot_hasDir hr').1
  have e : t = t' := ce_tri_unique hI.simple ht ht' (mem_heTriM_of_dir hd) (mem_heTriM_of_dir hd')
  subst e
  have hn := hI.nondeg t ht
  obtain ⟨p, q, r⟩ := t
  rw [isRot_mk] at hr hr'
  dsimp only at hn
  omega

theorem lk_in_unique {T : List Tri} (hI : Inv T) {v x x' y : Nat} (h : Lk T v x y) (h' : Lk T v x' y) : x = x' := by
  obtain ⟨t, ht, hr⟩ := h
  obtain ⟨t', ht', hr'⟩ := h'
  have hd := (isRot_hasDir hr).2.2
  have hd' := (isRot_hasDir hr').2.2
  have e : t = t' := ce_tri_unique hI.simple ht ht' (mem_heTriM_of_dir hd) (mem_heTriM_of_dir hd')
  subst e
  have hn := hI.nondeg t ht
  obtain ⟨p, q, r⟩ := t
  rw [isRot_mk] at hr hr'
  dsimp only at hn
  omega

theorem isRot_rot {t : Tri} {v x y : Nat} : IsRot t v x y ↔ IsRot t x y v := by
  unfold IsRot; tauto

theorem dir_of_mem_heTriM {t : Tri} {a b : Nat} (h : (a, b) ∈ heTriM t) : hasDir t a b = true := by
  rw [ce_mem_heTriM] at h
  rw [hasDir_iff]
  simp only [Prod.mk.injEq] at h
  omega

/-- the reverse half-edge exists (closedness) -/
theorem rev_dir {T : List Tri} (hI : Inv T) {t : Tri} (ht : t ∈ T) {a b : Nat} (h : hasDir t a b = true) :
    ∃ t' ∈ T, hasDir t' b a = true := by
  have hmem : (a, b) ∈ heM T := mem_heM.2 ⟨t, ht, mem_heTriM_of_dir h⟩
  have hc := (edge_shared_by_two hI (a, b) hmem).2
  have hrev : (b, a) ∈ heM T := by
    apply Multiset.count_pos.1
    rw [Prod.swap_prod_mk] at hc; omega
  obtain ⟨t', m', hm'⟩ := mem_heM.1 hrev
  exact ⟨t', m', dir_of_mem_heTriM hm'⟩

theorem lk_out_total {T : List Tri} (hI : Inv T) {v x y : Nat} (h : Lk T v x y) : ∃ z, Lk T v y z := by
  obtain ⟨t, ht, hr⟩ := h
  obtain ⟨t', ht', hd'⟩ := rev_dir hI ht (isRot_hasDir hr).2.2
  exact ⟨_, lk_of_hasDir ht' hd'⟩

theorem lk_in_total {T : List Tri} (hI : Inv T) {v x y : Nat} (h : Lk T v x y) : ∃ w, Lk T v w x := by
  obtain ⟨t, ht, hr⟩ := h
  obtain ⟨t', ht', hd'⟩ := rev_dir hI ht (isRot_hasDir hr).1
  have := lk_of_hasDir ht' hd'
  obtain ⟨t'', h1, h2⟩ := this
  exact ⟨_, t'', h1, isRot_rot.1 h2⟩

/-! ## 3. three ways to change a connected relation -/

/-- homomorphic image onto -/
theorem conn_image {r r' : Nat → Nat → Prop} (ρ : Nat → Nat)
    (h : ∀ x y, r' x y ↔ ∃ x0 y0, r x0 y0 ∧ x = ρ x0 ∧ y = ρ y0) (hc : Conn r) : Conn r' := by
  refine conn_sim ρ hc (fun x y hxy => ReflTransGen.single ((h _ _).2 ⟨x, y, hxy, rfl, rfl⟩)) ?_
  intro x x' hx
  obtain ⟨x0, y0, h0, rfl, _⟩ := (h _ _).1 hx
  exact ⟨x0, y0, h0, ReflTransGen.refl, ReflTransGen.refl⟩

/-- subdivision of the edge `p → q` by the new point `m` -/
theorem conn_subdiv {r r' : Nat → Nat → Prop} {p q m : Nat}
    (h : ∀ x y, r' x y ↔ ((r x y ∧ ¬ (x = p ∧ y = q)) ∨ (x = p ∧ y = m) ∨ (x = m ∧ y = q)))
    (hpq : r p q) (hq : ∃ z, r q z) (hc : Conn r) : Conn r' := by
  have sim : ∀ x y, r x y → ReflTransGen r' (id x) (id y) := by
    intro x y hxy
    by_cases he : x = p ∧ y = q
    · obtain ⟨rfl, rfl⟩ := he
      exact ReflTransGen.head ((h _ _).2 (Or.inr (Or.inl ⟨rfl, rfl⟩)))
        (ReflTransGen.single ((h _ _).2 (Or.inr (Or.inr ⟨rfl, rfl⟩))))
    · exact ReflTransGen.single ((h _ _).2 (Or.inl ⟨hxy, he⟩))
  refine conn_sim id hc sim ?_
  intro x x' hx
  rcases (h _ _).1 hx with ⟨hxx, _⟩ | ⟨rfl, _⟩ | ⟨rfl, _⟩
  · exact ⟨x, x', hxx, ReflTransGen.refl, ReflTransGen.refl⟩
  · exact ⟨x, q, hpq, ReflTransGen.refl, ReflTransGen.refl⟩
  · obtain ⟨z, hz⟩ := hq
    refine ⟨p, q, hpq, ?_, ReflTransGen.single ((h _ _).2 (Or.inr (Or.inl ⟨rfl, rfl⟩)))⟩
    exact ReflTransGen.head ((h _ _).2 (Or.inr (Or.inr ⟨rfl, rfl⟩))) ((hc q p z q hz hpq).lift' id sim)

/-- smoothing of the point `m`, whose only edges are `p → m → q` -/
theorem conn_smooth {r r' : Nat → Nat → Prop} {p q m : Nat}
    (h : ∀ x y, r' x y ↔ ((r x y ∧ x ≠ m ∧ y ≠ m) ∨ (x = p ∧ y = q)))
    (hpm : r p m) (hmq : r m q) (hin : ∀ u, r u m → u = p) (hout : ∀ w, r m w → w = q)
    (hp : p ≠ m) (hq : q ≠ m) (hc : Conn r) : Conn r' := by
  refine conn_sim (fun x => if x = m then p else x) hc ?_ ?_
  · intro x y hxy
    by_cases hx : x = m
    · subst hx
      have := hout y hxy
      subst this
      simp only [if_true, if_neg hq]
      exact ReflTransGen.single ((h _ _).2 (Or.inr ⟨rfl, rfl⟩))
    · by_cases hy : y = m
      · subst hy
        have := hin x hxy
        subst this
        simp only [if_true, if_neg hp]
        exact ReflTransGen.refl
      · simp only [if_neg hx, if_neg hy]
        exact ReflTransGen.single ((h _ _).2 (Or.inl ⟨hxy, hx, hy⟩))
  · intro x x' hx
    rcases (h _ _).1 hx with ⟨hxx, hxm, _⟩ | ⟨rfl, _⟩
    · exact ⟨x, x', hxx, by simp only [if_neg hxm]; exact ReflTransGen.refl,
        by simp only [if_neg hxm]; exact ReflTransGen.refl⟩
    · exact ⟨x, m, hpm, by simp only [if_neg hp]; exact ReflTransGen.refl,
        by simp only [if_neg hp]; exact ReflTransGen.refl⟩

/-! ## 4. the triangles on an edge and the rest -/

theorem dir_of_two_nodes {t : Tri} {a b : Nat} (hn : t.1 ≠ t.2.1 ∧ t.2.1 ≠ t.2.2 ∧ t.2.2 ≠ t.1) (hab : a ≠ b)
    (ha : hasNode t a = true) (hb : hasNode t b = true) : hasDir t a b = true ∨ hasDir t b a = true := by
  obtain ⟨x, y, z⟩ := t
  rw [ce_hasNode] at ha hb
  simp only [hasDir_iff]
  dsimp only at hn ha hb ⊢
  omega

/-- the link in terms of the two triangles on the edge `a b` and the rest -/
theorem lk_decomp {T : List Tri} (hn : NonDeg T) {a b : Nat} {t1 t2 : Tri}
    (h1 : findDir T a b = some t1) (h2 : findDir T b a = some t2) (v x y : Nat) :
    Lk T v x y ↔ (IsRot (a, b, opp t1 a b) v x y ∨ IsRot (b, a, opp t2 b a) v x y ∨
      Lk ((T.erase t1).erase t2) v x y) := by
  obtain ⟨_, hp, d1, d2⟩ := find_decomp hn h1 h2
  rw [lk_perm hp, lk_cons, lk_cons, isRot_of_hasDir d1, isRot_of_hasDir d2]

/-- no triangle of the rest contains both end nodes of the edge -/
theorem rest_not_both {T : List Tri} (hI : Inv T) {a b : Nat} {t1 t2 : Tri}
    (h1 : findDir T a b = some t1) (h2 : findDir T b a = some t2) {t : Tri}
    (ht : t ∈ (T.erase t1).erase t2) : ¬ (hasNode t a = true ∧ hasNode t b = true) := by
  rintro ⟨ha, hb⟩
  obtain ⟨_, hp, d1, d2⟩ := find_decomp hI.nondeg h1 h2
  have hab := (quad_ne hI.nondeg h1 h2).1
  have hs : Simple (t1 :: t2 :: (T.erase t1).erase t2) := (simple_perm hp).1 hI.simple
  have hmT := mem_of_mem_rest ht
  have key : ∀ p q s, s ∈ [t1, t2] → hasDir s p q = true → hasDir t p q = true → False := by
    intro p q s hs' ds dt
    have m1 : s ∈ t1 :: t2 :: (T.erase t1).erase t2 := by
      simp only [List.mem_cons, List.not_mem_nil, or_false] at hs'
      rcases hs' with rfl | rfl <;> simp
    have m2 : t ∈ t1 :: t2 :: (T.erase t1).erase t2 := by simp [ht]
    have e := ce_tri_unique hs m1 m2 (mem_heTriM_of_dir ds) (mem_heTriM_of_dir dt)
    -- then `t` would occur twice in the permuted list
    unfold Simple at hs
    rw [ce_heM_cons, ce_heM_cons] at hs
    simp only [List.mem_cons, List.not_mem_nil, or_false] at hs'
    rcases hs' with rfl | rfl
    · obtain ⟨_, _, hd⟩ := Multiset.nodup_add.1 hs
      exact Multiset.disjoint_left.1 hd (mem_heTriM_of_dir ds)
        (Multiset.mem_add.2 (Or.inr (ce_mem_heM.2 ⟨t, ht, mem_heTriM_of_dir dt⟩)))
    · obtain ⟨_, h2', _⟩ := Multiset.nodup_add.1 hs
      obtain ⟨_, _, hd⟩ := Multiset.nodup_add.1 h2'
      exact Multiset.disjoint_left.1 hd (mem_heTriM_of_dir ds) (ce_mem_heM.2 ⟨t, ht, mem_heTriM_of_dir dt⟩)
  rcases dir_of_two_nodes (hI.nondeg t hmT) hab ha hb with d | d
  · exact key a b t1 (by simp) d1 d
  · exact key b a t2 (by simp) d2 d

theorem lk_rest_not_both {T : List Tri} (hI : Inv T) {a b : Nat} {t1 t2 : Tri}
    (h1 : findDir T a b = some t1) (h2 : findDir T b a = some t2) {v x y : Nat}
    (h : Lk ((T.erase t1).erase t2) v x y) :
    ¬ (v = a ∧ x = b) ∧ ¬ (v = a ∧ y = b) ∧ ¬ (v = b ∧ x = a) ∧ ¬ (v = b ∧ y = a) ∧
      ¬ (x = a ∧ y = b) ∧ ¬ (x = b ∧ y = a) := by
  obtain ⟨t, ht, hr⟩ := h
  have hnb := rest_not_both hI h1 h2 ht
  obtain ⟨n1, n2, n3⟩ := isRot_hasNode hr
  refine ⟨?_, ?_, ?_, ?_, ?_, ?_⟩ <;> rintro ⟨rfl, rfl⟩ <;> simp_all

theorem lk_rest_fresh {T : List Tri} {t1 t2 : Tri} {e : Nat} (hf : Fresh T e) {v x y : Nat}
    (h : Lk ((T.erase t1).erase t2) v x y) : v ≠ e ∧ x ≠ e ∧ y ≠ e := by
  obtain ⟨t, ht, hr⟩ := h
  have := hf t (mem_of_mem_rest ht)
  obtain ⟨n1, n2, n3⟩ := isRot_hasNode hr
  refine ⟨?_, ?_, ?_⟩ <;> rintro rfl <;> simp_all

/-- a directed 4-cycle is connected -/
theorem conn_cycle4 {r : Nat → Nat → Prop} {p q s u : Nat} (h1 : r p q) (h2 : r q s) (h3 : r s u) (h4 : r u p)
    (hall : ∀ x x', r x x' → (x = p ∨ x = q ∨ x = s ∨ x = u)) : Conn r := by
  have e1 := ReflTransGen.single h1
  have e2 := ReflTransGen.single h2
  have e3 := ReflTransGen.single h3
  have e4 := ReflTransGen.single h4
  intro x y x' y' hx hy
  rcases hall x x' hx with rfl | rfl | rfl | rfl <;> rcases hall y y' hy with rfl | rfl | rfl | rfl <;>
    first
    | exact ReflTransGen.refl
    | exact e1 | exact e2 | exact e3 | exact e4
    | exact e1.trans e2 | exact e2.trans e3 | exact e3.trans e4 | exact e4.trans e1
    | exact (e1.trans e2).trans e3 | exact (e2.trans e3).trans e4 | exact (e3.trans e4).trans e1
    | exact (e4.trans e1).trans e2

theorem conn_congr {r r' : Nat → Nat → Prop} (h : ∀ x y, r' x y ↔ r x y) (hc : Conn r) : Conn r' := by
  have : r' = r := by funext x y; exact propext (h x y)
  rw [this]; exact hc

/-! ## 5. edge split -/

/-- **an edge split keeps every node vertex-manifold** -/
theorem split_vmc {T : List Tri} (hI : Inv T) (hv : AllVMC T) {a b e : Nat} (hf : Fresh T e)
    (hg : ∀ t1 t2, findDir T a b = some t1 → findDir T b a = some t2 → opp t1 a b ≠ opp t2 b a) :
    AllVMC (splitT T a b e) := by
  rcases find_cases T a b with hnone | ⟨t1, t2, h1, h2⟩
  · rw [split_noop hnone]; exact hv
  obtain ⟨hab, hca, hcb, hda, hdb⟩ := quad_ne hI.nondeg h1 h2
  obtain ⟨hea, heb, hec, hed⟩ := fresh_ne hI.nondeg h1 h2 hf
  have hcd := hg t1 t2 h1 h2
  have dT := lk_decomp hI.nondeg h1 h2
  have dT' : ∀ v x y, Lk (splitT T a b e) v x y ↔
      (IsRot (opp t1 a b, a, e) v x y ∨ IsRot (opp t1 a b, e, b) v x y ∨ IsRot (opp t2 b a, b, e) v x y ∨
        IsRot (opp t2 b a, e, a) v x y ∨ Lk ((T.erase t1).erase t2) v x y) := by
    intro v x y
    rw [splitT_eq e h1 h2, lk_cons, lk_cons, lk_cons, lk_cons]
  have nb : ∀ {v x y : Nat}, Lk ((T.erase t1).erase t2) v x y → _ := fun h => lk_rest_not_both hI h1 h2 h
  have fr : ∀ {v x y : Nat}, Lk ((T.erase t1).erase t2) v x y → _ := fun h => lk_rest_fresh (t1 := t1) (t2 := t2) hf h
  generalize opp t1 a b = c at *
  generalize opp t2 b a = d at *
  intro v
  by_cases hva : v = a
  · -- the node `a`: the neighbour `b` is renamed to `e`
    subst hva
    have hT : ∀ x y, Lk T v x y ↔ ((x = b ∧ y = c) ∨ (x = d ∧ y = b) ∨ Lk ((T.erase t1).erase t2) v x y) := by
      intro x y; rw [dT, isRot_mk, isRot_mk]; simp [hab, hab.symm, hca, hca.symm, hcb, hcb.symm, hda, hda.symm, hdb, hdb.symm, hcd, hcd.symm]
    have hT' : ∀ x y, Lk (splitT T v b e) v x y ↔
        ((x = e ∧ y = c) ∨ (x = d ∧ y = e) ∨ Lk ((T.erase t1).erase t2) v x y) := by
      intro x y; rw [dT', isRot_mk, isRot_mk, isRot_mk, isRot_mk]; simp [hab, hab.symm, hca, hca.symm, hcb, hcb.symm, hda, hda.symm, hdb, hdb.symm, hcd, hcd.symm, hea, hea.symm, heb, heb.symm, hec, hec.symm, hed, hed.symm]
    refine conn_image (fun x => if x = b then e else x) ?_ (hv v)
    intro x y
    rw [hT']
    constructor
    · rintro (⟨rfl, rfl⟩ | ⟨rfl, rfl⟩ | h)
      · exact ⟨b, y, (hT _ _).2 (Or.inl ⟨rfl, rfl⟩), by simp, by simp [hcb]⟩
      · exact ⟨x, b, (hT _ _).2 (Or.inr (Or.inl ⟨rfl, rfl⟩)), by simp [hdb], by simp⟩
      · have := nb h
        have hx : x ≠ b := fun hh => this.1 ⟨rfl, hh⟩
        have hy : y ≠ b := fun hh => this.2.1 ⟨rfl, hh⟩
        exact ⟨x, y, (hT _ _).2 (Or.inr (Or.inr h)), by simp [hx], by simp [hy]⟩
    · rintro ⟨x0, y0, h0, rfl, rfl⟩
      rcases (hT _ _).1 h0 with ⟨rfl, rfl⟩ | ⟨rfl, rfl⟩ | h
      · left; simp [hcb]
      · right; left; simp [hdb]
      · right; right
        have := nb h
        have hx : x0 ≠ b := fun hh => this.1 ⟨rfl, hh⟩
        have hy : y0 ≠ b := fun hh => this.2.1 ⟨rfl, hh⟩
        simp only [if_neg hx, if_neg hy]; exact h
  by_cases hvb : v = b
  · -- the node `b`: the neighbour `a` is renamed to `e`
    subst hvb
    have hT : ∀ x y, Lk T v x y ↔ ((x = c ∧ y = a) ∨ (x = a ∧ y = d) ∨ Lk ((T.erase t1).erase t2) v x y) := by
      intro x y; rw [dT, isRot_mk, isRot_mk]; simp [hab, hab.symm, hca, hca.symm, hcb, hcb.symm, hda, hda.symm, hdb, hdb.symm, hcd, hcd.symm]
    have hT' : ∀ x y, Lk (splitT T a v e) v x y ↔
        ((x = c ∧ y = e) ∨ (x = e ∧ y = d) ∨ Lk ((T.erase t1).erase t2) v x y) := by
      intro x y; rw [dT', isRot_mk, isRot_mk, isRot_mk, isRot_mk]; simp [hab, hab.symm, hca, hca.symm, hcb, hcb.symm, hda, hda.symm, hdb, hdb.symm, hcd, hcd.symm, hea, hea.symm, heb, heb.symm, hec, hec.symm, hed, hed.symm]
    refine conn_image (fun x => if x = a then e else x) ?_ (hv v)
    intro x y
    rw [hT']
    constructor
    · rintro (⟨rfl, rfl⟩ | ⟨rfl, rfl⟩ | h)
      · exact ⟨x, a, (hT _ _).2 (Or.inl ⟨rfl, rfl⟩), by simp [hca], by simp⟩
      · exact ⟨a, y, (hT _ _).2 (Or.inr (Or.inl ⟨rfl, rfl⟩)), by simp, by simp [hda]⟩
      · have := nb h
        have hx : x ≠ a := fun hh => this.2.2.1 ⟨rfl, hh⟩
        have hy : y ≠ a := fun hh => this.2.2.2.1 ⟨rfl, hh⟩
        exact ⟨x, y, (hT _ _).2 (Or.inr (Or.inr h)), by simp [hx], by simp [hy]⟩
    · rintro ⟨x0, y0, h0, rfl, rfl⟩
      rcases (hT _ _).1 h0 with ⟨rfl, rfl⟩ | ⟨rfl, rfl⟩ | h
      · left; simp [hca]
      · right; left; simp [hda]
      · right; right
        have := nb h
        have hx : x0 ≠ a := fun hh => this.2.2.1 ⟨rfl, hh⟩
        have hy : y0 ≠ a := fun hh => this.2.2.2.1 ⟨rfl, hh⟩
        simp only [if_neg hx, if_neg hy]; exact h
  by_cases hvc : v = c
  · -- the node `c`: the link edge `a → b` is subdivided by `e`
    subst hvc
    have hT : ∀ x y, Lk T v x y ↔ ((x = a ∧ y = b) ∨ Lk ((T.erase t1).erase t2) v x y) := by
      intro x y; rw [dT, isRot_mk, isRot_mk]; simp [hab, hab.symm, hca, hca.symm, hcb, hcb.symm, hda, hda.symm, hdb, hdb.symm, hcd, hcd.symm]
    have hT' : ∀ x y, Lk (splitT T a b e) v x y ↔
        ((x = a ∧ y = e) ∨ (x = e ∧ y = b) ∨ Lk ((T.erase t1).erase t2) v x y) := by
      intro x y; rw [dT', isRot_mk, isRot_mk, isRot_mk, isRot_mk]; simp [hab, hab.symm, hca, hca.symm, hcb, hcb.symm, hda, hda.symm, hdb, hdb.symm, hcd, hcd.symm, hea, hea.symm, heb, heb.symm, hec, hec.symm, hed, hed.symm]
    have hab' : Lk T v a b := (hT _ _).2 (Or.inl ⟨rfl, rfl⟩)
    refine conn_subdiv (p := a) (q := b) (m := e) ?_ hab' (lk_out_total hI hab') (hv v)
    intro x y
    rw [hT', hT]
    constructor
    · rintro (h | h | h)
      · exact Or.inr (Or.inl h)
      · exact Or.inr (Or.inr h)
      · exact Or.inl ⟨Or.inr h, (nb h).2.2.2.2.1⟩
    · rintro (⟨h | h, hn⟩ | h | h)
      · exact absurd h hn
      · exact Or.inr (Or.inr h)
      · exact Or.inl h
      · exact Or.inr (Or.inl h)
  by_cases hvd : v = d
  · -- the node `d`: the link edge `b → a` is subdivided by `e`
    subst hvd
    have hT : ∀ x y, Lk T v x y ↔ ((x = b ∧ y = a) ∨ Lk ((T.erase t1).erase t2) v x y) := by
      intro x y; rw [dT, isRot_mk, isRot_mk]; simp [hab, hab.symm, hca, hca.symm, hcb, hcb.symm, hda, hda.symm, hdb, hdb.symm, hcd, hcd.symm]
    have hT' : ∀ x y, Lk (splitT T a b e) v x y ↔
        ((x = b ∧ y = e) ∨ (x = e ∧ y = a) ∨ Lk ((T.erase t1).erase t2) v x y) := by
      intro x y; rw [dT', isRot_mk, isRot_mk, isRot_mk, isRot_mk]; simp [hab, hab.symm, hca, hca.symm, hcb, hcb.symm, hda, hda.symm, hdb, hdb.symm, hcd, hcd.symm, hea, hea.symm, heb, heb.symm, hec, hec.symm, hed, hed.symm]
    have hba' : Lk T v b a := (hT _ _).2 (Or.inl ⟨rfl, rfl⟩)
    refine conn_subdiv (p := b) (q := a) (m := e) ?_ hba' (lk_out_total hI hba') (hv v)
    intro x y
    rw [hT', hT]
    constructor
    · rintro (h | h | h)
      · exact Or.inr (Or.inl h)
      · exact Or.inr (Or.inr h)
      · exact Or.inl ⟨Or.inr h, (nb h).2.2.2.2.2⟩
    · rintro (⟨h | h, hn⟩ | h | h)
      · exact absurd h hn
      · exact Or.inr (Or.inr h)
      · exact Or.inl h
      · exact Or.inr (Or.inl h)
  by_cases hve : v = e
  · -- the new node: a 4-cycle
    subst hve
    have hT' : ∀ x y, Lk (splitT T a b v) v x y ↔
        ((x = c ∧ y = a) ∨ (x = b ∧ y = c) ∨ (x = d ∧ y = b) ∨ (x = a ∧ y = d)) := by
      intro x y; rw [dT', isRot_mk, isRot_mk, isRot_mk, isRot_mk]
      have : ¬ Lk ((T.erase t1).erase t2) v x y := fun h => (fr h).1 rfl
      simp [hab, hab.symm, hca, hca.symm, hcb, hcb.symm, hda, hda.symm, hdb, hdb.symm, hcd, hcd.symm, hea, hea.symm, heb, heb.symm, hec, hec.symm, hed, hed.symm, this]
    refine conn_cycle4 (p := c) (q := a) (s := d) (u := b) ((hT' _ _).2 (Or.inl ⟨rfl, rfl⟩))
      ((hT' _ _).2 (Or.inr (Or.inr (Or.inr ⟨rfl, rfl⟩)))) ((hT' _ _).2 (Or.inr (Or.inr (Or.inl ⟨rfl, rfl⟩))))
      ((hT' _ _).2 (Or.inr (Or.inl ⟨rfl, rfl⟩))) ?_
    intro x x' hx
    rcases (hT' _ _).1 hx with ⟨rfl, _⟩ | ⟨rfl, _⟩ | ⟨rfl, _⟩ | ⟨rfl, _⟩ <;> simp
  · -- any other node: its link does not change
    refine conn_congr ?_ (hv v)
    intro x y
    rw [dT', dT, isRot_mk, isRot_mk, isRot_mk, isRot_mk, isRot_mk, isRot_mk]
    simp [hva, hvb, hvc, hvd, hve]

/-! ## 6. edge swap -/

/-- **an edge swap keeps every node vertex-manifold** -/
theorem swap_vmc {T : List Tri} (hI : Inv T) (hv : AllVMC T) {a b : Nat} (hg : SwapGuard T a b) :
    AllVMC (swapT T a b) := by
  rcases find_cases T a b with hnone | ⟨t1, t2, h1, h2⟩
  · rw [swap_noop hnone]; exact hv
  obtain ⟨hab, hca, hcb, hda, hdb⟩ := quad_ne hI.nondeg h1 h2
  have hcd := (hg t1 t2 h1 h2).1
  have dT := lk_decomp hI.nondeg h1 h2
  have dT' : ∀ v x y, Lk (swapT T a b) v x y ↔
      (IsRot (a, opp t2 b a, opp t1 a b) v x y ∨ IsRot (b, opp t1 a b, opp t2 b a) v x y ∨
        Lk ((T.erase t1).erase t2) v x y) := by
    intro v x y
    rw [swapT_eq h1 h2, lk_cons, lk_cons]
  have nb : ∀ {v x y : Nat}, Lk ((T.erase t1).erase t2) v x y → _ := fun h => lk_rest_not_both hI h1 h2 h
  generalize opp t1 a b = c at *
  generalize opp t2 b a = d at *
  intro v
  by_cases hva : v = a
  · -- the node `a`: the neighbour `b` is smoothed away
    subst hva
    have hT : ∀ x y, Lk T v x y ↔ ((x = b ∧ y = c) ∨ (x = d ∧ y = b) ∨ Lk ((T.erase t1).erase t2) v x y) := by
      intro x y; rw [dT, isRot_mk, isRot_mk]; simp [hab, hab.symm, hca, hca.symm, hcb, hcb.symm, hda, hda.symm, hdb, hdb.symm, hcd, hcd.symm]
    have hT' : ∀ x y, Lk (swapT T v b) v x y ↔ ((x = d ∧ y = c) ∨ Lk ((T.erase t1).erase t2) v x y) := by
      intro x y; rw [dT', isRot_mk, isRot_mk]; simp [hab, hab.symm, hca, hca.symm, hcb, hcb.symm, hda, hda.symm, hdb, hdb.symm, hcd, hcd.symm]
    have e1 : Lk T v d b := (hT _ _).2 (Or.inr (Or.inl ⟨rfl, rfl⟩))
    have e2 : Lk T v b c := (hT _ _).2 (Or.inl ⟨rfl, rfl⟩)
    refine conn_smooth (p := d) (q := c) (m := b) ?_ e1 e2 (fun u hu => lk_in_unique hI hu e1)
      (fun w hw => lk_out_unique hI hw e2) hdb hcb (hv v)
    intro x y
    rw [hT', hT]
    constructor
    · rintro (h | h)
      · exact Or.inr h
      · have := nb h
        exact Or.inl ⟨Or.inr (Or.inr h), fun hh => this.1 ⟨rfl, hh⟩, fun hh => this.2.1 ⟨rfl, hh⟩⟩
    · rintro (⟨h | h | h, hx, hy⟩ | h)
      · exact absurd h.1 hx
      · exact absurd h.2 hy
      · exact Or.inr h
      · exact Or.inl h
  by_cases hvb : v = b
  · -- the node `b`: the neighbour `a` is smoothed away
    subst hvb
    have hT : ∀ x y, Lk T v x y ↔ ((x = c ∧ y = a) ∨ (x = a ∧ y = d) ∨ Lk ((T.erase t1).erase t2) v x y) := by
      intro x y; rw [dT, isRot_mk, isRot_mk]; simp [hab, hab.symm, hca, hca.symm, hcb, hcb.symm, hda, hda.symm, hdb, hdb.symm, hcd, hcd.symm]
    have hT' : ∀ x y, Lk (swapT T a v) v x y ↔ ((x = c ∧ y = d) ∨ Lk ((T.erase t1).erase t2) v x y) := by
      intro x y; rw [dT', isRot_mk, isRot_mk]; simp [hab, hab.symm, hca, hca.symm, hcb, hcb.symm, hda, hda.symm, hdb, hdb.symm, hcd, hcd.symm]
    have e1 : Lk T v c a := (hT _ _).2 (Or.inl ⟨rfl, rfl⟩)
    have e2 : Lk T v a d := (hT _ _).2 (Or.inr (Or.inl ⟨rfl, rfl⟩))
    refine conn_smooth (p := c) (q := d) (m := a) ?_ e1 e2 (fun u hu => lk_in_unique hI hu e1)
      (fun w hw => lk_out_unique hI hw e2) hca hda (hv v)
    intro x y
    rw [hT', hT]
    constructor
    · rintro (h | h)
      · exact Or.inr h
      · have := nb h
        exact Or.inl ⟨Or.inr (Or.inr h), fun hh => this.2.2.1 ⟨rfl, hh⟩, fun hh => this.2.2.2.1 ⟨rfl, hh⟩⟩
    · rintro (⟨h | h | h, hx, hy⟩ | h)
      · exact absurd h.2 hy
      · exact absurd h.1 hx
      · exact Or.inr h
      · exact Or.inl h
  by_cases hvc : v = c
  · -- the node `c`: the link edge `a → b` is subdivided by `d`
    subst hvc
    have hT : ∀ x y, Lk T v x y ↔ ((x = a ∧ y = b) ∨ Lk ((T.erase t1).erase t2) v x y) := by
      intro x y; rw [dT, isRot_mk, isRot_mk]; simp [hab, hab.symm, hca, hca.symm, hcb, hcb.symm, hda, hda.symm, hdb, hdb.symm, hcd, hcd.symm]
    have hT' : ∀ x y, Lk (swapT T a b) v x y ↔
        ((x = a ∧ y = d) ∨ (x = d ∧ y = b) ∨ Lk ((T.erase t1).erase t2) v x y) := by
      intro x y; rw [dT', isRot_mk, isRot_mk]; simp [hab, hab.symm, hca, hca.symm, hcb, hcb.symm, hda, hda.symm, hdb, hdb.symm, hcd, hcd.symm]
    have hab' : Lk T v a b := (hT _ _).2 (Or.inl ⟨rfl, rfl⟩)
    refine conn_subdiv (p := a) (q := b) (m := d) ?_ hab' (lk_out_total hI hab') (hv v)
    intro x y
    rw [hT', hT]
    constructor
    · rintro (h | h | h)
      · exact Or.inr (Or.inl h)
      · exact Or.inr (Or.inr h)
      · exact Or.inl ⟨Or.inr h, (nb h).2.2.2.2.1⟩
    · rintro (⟨h | h, hn⟩ | h | h)
      · exact absurd h hn
      · exact Or.inr (Or.inr h)
      · exact Or.inl h
      · exact Or.inr (Or.inl h)
  by_cases hvd : v = d
  · -- the node `d`: the link edge `b → a` is subdivided by `c`
    subst hvd
    have hT : ∀ x y, Lk T v x y ↔ ((x = b ∧ y = a) ∨ Lk ((T.erase t1).erase t2) v x y) := by
      intro x y; rw [dT, isRot_mk, isRot_mk]; simp [hab, hab.symm, hca, hca.symm, hcb, hcb.symm, hda, hda.symm, hdb, hdb.symm, hcd, hcd.symm]
    have hT' : ∀ x y, Lk (swapT T a b) v x y ↔
        ((x = c ∧ y = a) ∨ (x = b ∧ y = c) ∨ Lk ((T.erase t1).erase t2) v x y) := by
      intro x y; rw [dT', isRot_mk, isRot_mk]; simp [hab, hab.symm, hca, hca.symm, hcb, hcb.symm, hda, hda.symm, hdb, hdb.symm, hcd, hcd.symm]
    have hba' : Lk T v b a := (hT _ _).2 (Or.inl ⟨rfl, rfl⟩)
    refine conn_subdiv (p := b) (q := a) (m := c) ?_ hba' (lk_out_total hI hba') (hv v)
    intro x y
    rw [hT', hT]
    constructor
    · rintro (h | h | h)
      · exact Or.inr (Or.inr h)
      · exact Or.inr (Or.inl h)
      · exact Or.inl ⟨Or.inr h, (nb h).2.2.2.2.2⟩
    · rintro (⟨h | h, hn⟩ | h | h)
      · exact absurd h hn
      · exact Or.inr (Or.inr h)
      · exact Or.inr (Or.inl h)
      · exact Or.inl h
  · refine conn_congr ?_ (hv v)
    intro x y
    rw [dT', dT, isRot_mk, isRot_mk, isRot_mk, isRot_mk]
    simp [hva, hvb, hvc, hvd]

/-! ## 7. edge collapse -/

/-- homomorphic image after removing one edge whose end points are identified -/
theorem conn_image_contract {r r' : Nat → Nat → Prop} (ρ : Nat → Nat) {p q : Nat} (hρ : ρ p = ρ q)
    (h : ∀ x y, r' x y ↔ ∃ x0 y0, r x0 y0 ∧ ¬ (x0 = p ∧ y0 = q) ∧ x = ρ x0 ∧ y = ρ y0) (hc : Conn r) :
    Conn r' := by
  refine conn_sim ρ hc ?_ ?_
  · intro x y hxy
    by_cases he : x = p ∧ y = q
    · obtain ⟨rfl, rfl⟩ := he
      rw [hρ]
    · exact ReflTransGen.single ((h _ _).2 ⟨x, y, hxy, he, rfl, rfl⟩)
  · intro x x' hx
    obtain ⟨x0, y0, h0, _, rfl, _⟩ := (h _ _).1 hx
    exact ⟨x0, y0, h0, ReflTransGen.refl, ReflTransGen.refl⟩

/-- **glueing two cycles along a common edge**: `rA` is a connected relation in which `b` has the only edges
    `d → b → c`, `rB` a connected relation in which `a` has the only edges `c → a → d`; removing `b` from the first and
    `a` from the second and taking the union gives a connected relation -/
theorem conn_glue {rA rB r' : Nat → Nat → Prop} {a b c d : Nat} (hcA : Conn rA) (hcB : Conn rB)
    (A1 : rA d b) (A2 : rA b c) (inA : ∀ u, rA u b → u = d) (outA : ∀ w, rA b w → w = c)
    (B1 : rB c a) (B2 : rB a d) (inB : ∀ u, rB u a → u = c) (outB : ∀ w, rB a w → w = d)
    (hdb : d ≠ b) (hcb : c ≠ b) (hca : c ≠ a) (hda : d ≠ a)
    (hcout : ∃ z, rA c z) (hdout : ∃ z, rB d z)
    (h : ∀ x y, r' x y ↔ ((rA x y ∧ x ≠ b ∧ y ≠ b) ∨ (rB x y ∧ x ≠ a ∧ y ≠ a))) : Conn r' := by
  obtain ⟨zc, hzc⟩ := hcout
  obtain ⟨zd, hzd⟩ := hdout
  -- the two paths that replace the removed nodes
  have P1 : ReflTransGen r' c d := by
    have := rtg_avoid (hcA c d zc b hzc A1) hcb inA
    exact this.lift id (fun u w huw => (h u w).2 (Or.inl huw))
  have P2 : ReflTransGen r' d c := by
    have := rtg_avoid (hcB d c zd a hzd B1) hda inB
    exact this.lift id (fun u w huw => (h u w).2 (Or.inr huw))
  have simA : ∀ x y, rA x y → ReflTransGen r' (if x = b then d else x) (if y = b then d else y) := by
    intro x y hxy
    by_cases hx : x = b
    · subst hx
      have := outA y hxy
      subst this
      simp only [if_true, if_neg hcb]; exact P2
    · by_cases hy : y = b
      · subst hy
        have := inA x hxy
        subst this
        simp only [if_true, if_neg hdb]; exact ReflTransGen.refl
      · simp only [if_neg hx, if_neg hy]
        exact ReflTransGen.single ((h _ _).2 (Or.inl ⟨hxy, hx, hy⟩))
  have simB : ∀ x y, rB x y → ReflTransGen r' (if x = a then c else x) (if y = a then c else y) := by
    intro x y hxy
    by_cases hx : x = a
    · subst hx
      have := outB y hxy
      subst this
      simp only [if_true, if_neg hda]; exact P1
    · by_cases hy : y = a
      · subst hy
        have := inB x hxy
        subst this
        simp only [if_true, if_neg hca]; exact ReflTransGen.refl
      · simp only [if_neg hx, if_neg hy]
        exact ReflTransGen.single ((h _ _).2 (Or.inr ⟨hxy, hx, hy⟩))
  have liftA : ∀ {x y x' y' : Nat}, rA x x' → rA y y' → x ≠ b → y ≠ b → ReflTransGen r' x y := by
    intro x y x' y' hx hy nx ny
    have := (hcA x y x' y' hx hy).lift' _ simA
    unfold Function.onFun at this
    simp only [if_neg nx, if_neg ny] at this
    exact this
  have liftB : ∀ {x y x' y' : Nat}, rB x x' → rB y y' → x ≠ a → y ≠ a → ReflTransGen r' x y := by
    intro x y x' y' hx hy nx ny
    have := (hcB x y x' y' hx hy).lift' _ simB
    unfold Function.onFun at this
    simp only [if_neg nx, if_neg ny] at this
    exact this
  intro x y x' y' hx hy
  rcases (h _ _).1 hx with ⟨hx1, nx, _⟩ | ⟨hx1, nx, _⟩ <;> rcases (h _ _).1 hy with ⟨hy1, ny, _⟩ | ⟨hy1, ny, _⟩
  · exact liftA hx1 hy1 nx ny
  · exact (liftA hx1 hzc nx hcb).trans (liftB B1 hy1 hca ny)
  · exact (liftB hx1 hzd nx hda).trans (liftA A1 hy1 hdb ny)
  · exact liftB hx1 hy1 nx ny

theorem isRot_map (ρ : Nat → Nat) (t : Tri) (v x y : Nat) :
    IsRot (ρ t.1, ρ t.2.1, ρ t.2.2) v x y ↔ ∃ v0 x0 y0, IsRot t v0 x0 y0 ∧ v = ρ v0 ∧ x = ρ x0 ∧ y = ρ y0 := by
  obtain ⟨p, q, r⟩ := t
  constructor
  · intro h
    rw [isRot_mk] at h
    rcases h with ⟨rfl, rfl, rfl⟩ | ⟨rfl, rfl, rfl⟩ | ⟨rfl, rfl, rfl⟩
    · exact ⟨p, q, r, Or.inl rfl, rfl, rfl, rfl⟩
    · exact ⟨q, r, p, Or.inr (Or.inr rfl), rfl, rfl, rfl⟩
    · exact ⟨r, p, q, Or.inr (Or.inl rfl), rfl, rfl, rfl⟩
  · rintro ⟨v0, x0, y0, h, rfl, rfl, rfl⟩
    rw [isRot_mk] at h ⊢
    rcases h with ⟨rfl, rfl, rfl⟩ | ⟨rfl, rfl, rfl⟩ | ⟨rfl, rfl, rfl⟩
    · exact Or.inl ⟨rfl, rfl, rfl⟩
    · exact Or.inr (Or.inl ⟨rfl, rfl, rfl⟩)
    · exact Or.inr (Or.inr ⟨rfl, rfl, rfl⟩)

/-- the triangles that survive a collapse are the renamed triangles of the rest -/
theorem lk_collapse {T : List Tri} (hI : Inv T) {a b i : Nat} {t1 t2 : Tri}
    (h1 : findDir T a b = some t1) (h2 : findDir T b a = some t2) (v x y : Nat) :
    Lk (collapseT T a b i) v x y ↔ ∃ v0 x0 y0, Lk ((T.erase t1).erase t2) v0 x0 y0 ∧
      v = ren a b i v0 ∧ x = ren a b i x0 ∧ y = ren a b i y0 := by
  obtain ⟨_, hp, d1, d2⟩ := find_decomp hI.nondeg h1 h2
  have hmem : ∀ t, (t ∈ T ∧ (!(hasNode t a && hasNode t b)) = true) ↔ t ∈ (T.erase t1).erase t2 := by
    intro t
    constructor
    · rintro ⟨ht, hp'⟩
      have : t ∈ t1 :: t2 :: (T.erase t1).erase t2 := hp.mem_iff.1 ht
      rcases List.mem_cons.1 this with rfl | this
      · obtain ⟨n1, n2, _⟩ := isRot_hasNode ((isRot_of_hasDir d1 a b _).2 (Or.inl rfl))
        simp [n1, n2] at hp'
      rcases List.mem_cons.1 this with rfl | this
      · obtain ⟨n1, n2, _⟩ := isRot_hasNode ((isRot_of_hasDir d2 b a _).2 (Or.inl rfl))
        simp [n1, n2] at hp'
      · exact this
    · intro ht
      refine ⟨mem_of_mem_rest ht, ?_⟩
      have := rest_not_both hI h1 h2 ht
      cases ha : hasNode t a <;> cases hb : hasNode t b <;> simp_all
  unfold collapseT Lk
  constructor
  · rintro ⟨t', ht', hr⟩
    obtain ⟨t, ht, rfl⟩ := List.mem_map.1 ht'
    rw [List.mem_filter] at ht
    obtain ⟨v0, x0, y0, h0, e1, e2, e3⟩ := (isRot_map (ren a b i) t v x y).1 hr
    exact ⟨v0, x0, y0, ⟨t, (hmem t).1 ht, h0⟩, e1, e2, e3⟩
  · rintro ⟨v0, x0, y0, ⟨t, ht, h0⟩, e1, e2, e3⟩
    refine ⟨_, List.mem_map.2 ⟨t, List.mem_filter.2 ((hmem t).2 ht), rfl⟩, ?_⟩
    exact (isRot_map (ren a b i) t v x y).2 ⟨v0, x0, y0, h0, e1, e2, e3⟩

theorem ren_eq {a b i x v : Nat} (h : v = ren a b i x) (hvi : v ≠ i) : x = v ∧ x ≠ a ∧ x ≠ b := by
  unfold ren at h
  simp only [Bool.or_eq_true, beq_iff_eq] at h
  split at h
  · exact absurd h hvi
  · refine ⟨h.symm, ?_, ?_⟩ <;> intro hh <;> simp_all

theorem ren_of_ne {a b i x : Nat} (ha : x ≠ a) (hb : x ≠ b) : ren a b i x = x := by
  unfold ren; simp [ha, hb]

theorem ren_eq_i {a b i x : Nat} (h : i = ren a b i x) : x = a ∨ x = b ∨ x = i := by
  unfold ren at h
  simp only [Bool.or_eq_true, beq_iff_eq] at h
  split at h
  · rename_i hh; rcases hh with hh | hh
    · exact Or.inl hh
    · exact Or.inr (Or.inl hh)
  · exact Or.inr (Or.inr h.symm)

theorem lk_ne {T : List Tri} (hn : NonDeg T) {v x y : Nat} (h : Lk T v x y) : v ≠ x ∧ x ≠ y ∧ y ≠ v := by
  obtain ⟨t, ht, hr⟩ := h
  have := hn t ht
  obtain ⟨p, q, r⟩ := t
  rw [isRot_mk] at hr
  dsimp only at this
  omega

theorem lk_rest_sub {T : List Tri} {t1 t2 : Tri} {v x y : Nat} (h : Lk ((T.erase t1).erase t2) v x y) :
    Lk T v x y := by
  obtain ⟨t, ht, hr⟩ := h
  exact ⟨t, mem_of_mem_rest ht, hr⟩

/-- **an edge collapse keeps every node vertex-manifold** (the link of the new node is glued from the links of the two
    end nodes; at the two opposite nodes the link edge `a → b` is contracted; elsewhere the two end nodes are renamed) -/
theorem collapse_vmc {T : List Tri} (hI : Inv T) (hv : AllVMC T) {a b i : Nat} {t1 t2 : Tri}
    (h1 : findDir T a b = some t1) (h2 : findDir T b a = some t2) (hcd : opp t1 a b ≠ opp t2 b a)
    (hi : Fresh T i) : AllVMC (collapseT T a b i) := by
  obtain ⟨hab, hca, hcb, hda, hdb⟩ := quad_ne hI.nondeg h1 h2
  obtain ⟨hia, hib, hic, hid⟩ := fresh_ne hI.nondeg h1 h2 hi
  have dT := lk_decomp hI.nondeg h1 h2
  have dC := lk_collapse hI h1 h2 (i := i)
  have nb : ∀ {v x y : Nat}, Lk ((T.erase t1).erase t2) v x y → _ := fun h => lk_rest_not_both hI h1 h2 h
  have fr : ∀ {v x y : Nat}, Lk ((T.erase t1).erase t2) v x y → _ := fun h => lk_rest_fresh (t1 := t1) (t2 := t2) hi h
  have ne3 : ∀ {v x y : Nat}, Lk ((T.erase t1).erase t2) v x y → _ := fun h => lk_ne hI.nondeg (lk_rest_sub h)
  generalize opp t1 a b = c at *
  generalize opp t2 b a = d at *
  have ra : ren a b i a = i := ce_ren_left a b i
  have rb : ren a b i b = i := ce_ren_right a b i
  intro v
  by_cases hvi : v = i
  · -- the new node: the links of `a` and `b` glued along the edge
    subst hvi
    have hTa : ∀ x y, Lk T a x y ↔ ((x = b ∧ y = c) ∨ (x = d ∧ y = b) ∨ Lk ((T.erase t1).erase t2) a x y) := by
      intro x y; rw [dT, isRot_mk, isRot_mk]; simp [hab, hab.symm, hca, hca.symm, hcb, hcb.symm, hda, hda.symm, hdb, hdb.symm]
    have hTb : ∀ x y, Lk T b x y ↔ ((x = c ∧ y = a) ∨ (x = a ∧ y = d) ∨ Lk ((T.erase t1).erase t2) b x y) := by
      intro x y; rw [dT, isRot_mk, isRot_mk]; simp [hab, hab.symm, hca, hca.symm, hcb, hcb.symm, hda, hda.symm, hdb, hdb.symm]
    have a1 : Lk T a d b := (hTa _ _).2 (Or.inr (Or.inl ⟨rfl, rfl⟩))
    have a2 : Lk T a b c := (hTa _ _).2 (Or.inl ⟨rfl, rfl⟩)
    have b1 : Lk T b c a := (hTb _ _).2 (Or.inl ⟨rfl, rfl⟩)
    have b2 : Lk T b a d := (hTb _ _).2 (Or.inr (Or.inl ⟨rfl, rfl⟩))
    refine conn_glue (rA := Lk T a) (rB := Lk T b) (a := a) (b := b) (c := c) (d := d) (hv a) (hv b) a1 a2
      (fun u hu => lk_in_unique hI hu a1) (fun w hw => lk_out_unique hI hw a2) b1 b2
      (fun u hu => lk_in_unique hI hu b1) (fun w hw => lk_out_unique hI hw b2) hdb hcb hca hda
      (lk_out_total hI a2) (lk_out_total hI b2) ?_
    intro x y
    rw [dC]
    constructor
    · rintro ⟨v0, x0, y0, h0, e1, e2, e3⟩
      have n3 := ne3 h0
      have f3 := fr h0
      have n := nb h0
      rcases ren_eq_i e1 with rfl | rfl | rfl
      · have hx : x0 ≠ b := fun hh => n.1 ⟨rfl, hh⟩
        have hy : y0 ≠ b := fun hh => n.2.1 ⟨rfl, hh⟩
        rw [ren_of_ne (Ne.symm n3.1) hx] at e2
        rw [ren_of_ne n3.2.2 hy] at e3
        subst e2; subst e3
        exact Or.inl ⟨(hTa _ _).2 (Or.inr (Or.inr h0)), hx, hy⟩
      · have hx : x0 ≠ a := fun hh => n.2.2.1 ⟨rfl, hh⟩
        have hy : y0 ≠ a := fun hh => n.2.2.2.1 ⟨rfl, hh⟩
        rw [ren_of_ne hx (Ne.symm n3.1)] at e2
        rw [ren_of_ne hy n3.2.2] at e3
        subst e2; subst e3
        exact Or.inr ⟨(hTb _ _).2 (Or.inr (Or.inr h0)), hx, hy⟩
      · exact absurd rfl f3.1
    · rintro (⟨h, hx, hy⟩ | ⟨h, hx, hy⟩)
      · rcases (hTa _ _).1 h with h' | h' | h'
        · exact absurd h'.1 hx
        · exact absurd h'.2 hy
        · have n3 := ne3 h'
          exact ⟨a, x, y, h', ra.symm, (ren_of_ne (Ne.symm n3.1) hx).symm, (ren_of_ne n3.2.2 hy).symm⟩
      · rcases (hTb _ _).1 h with h' | h' | h'
        · exact absurd h'.2 hy
        · exact absurd h'.1 hx
        · have n3 := ne3 h'
          exact ⟨b, x, y, h', rb.symm, (ren_of_ne hx (Ne.symm n3.1)).symm, (ren_of_ne hy n3.2.2).symm⟩
  -- from now on `v ≠ i`: the triangles around `v` are the renamed triangles of the rest around `v`
  have dC' : ∀ x y, Lk (collapseT T a b i) v x y ↔
      ∃ x0 y0, Lk ((T.erase t1).erase t2) v x0 y0 ∧ v ≠ a ∧ v ≠ b ∧ x = ren a b i x0 ∧ y = ren a b i y0 := by
    intro x y
    rw [dC]
    constructor
    · rintro ⟨v0, x0, y0, h0, e1, e2, e3⟩
      obtain ⟨rfl, n1, n2⟩ := ren_eq e1 hvi
      exact ⟨x0, y0, h0, n1, n2, e2, e3⟩
    · rintro ⟨x0, y0, h0, n1, n2, e2, e3⟩
      exact ⟨v, x0, y0, h0, (ren_of_ne n1 n2).symm, e2, e3⟩
  by_cases hvab : v = a ∨ v = b
  · -- the two end nodes have disappeared
    intro x y x' y' hx _
    obtain ⟨_, _, _, n1, n2, _⟩ := (dC' _ _).1 hx
    rcases hvab with h | h
    · exact absurd h n1
    · exact absurd h n2
  have hva : v ≠ a := fun h => hvab (Or.inl h)
  have hvb : v ≠ b := fun h => hvab (Or.inr h)
  by_cases hvc : v = c
  · -- the opposite node `c`: the link edge `a → b` is contracted to `i`
    subst hvc
    have hT : ∀ x y, Lk T v x y ↔ ((x = a ∧ y = b) ∨ Lk ((T.erase t1).erase t2) v x y) := by
      intro x y; rw [dT, isRot_mk, isRot_mk]
      simp [hab, hab.symm, hca, hca.symm, hcb, hcb.symm, hda, hda.symm, hdb, hdb.symm, hcd, hcd.symm]
    refine conn_image_contract (ren a b i) (p := a) (q := b) (ra.trans rb.symm) ?_ (hv v)
    intro x y
    rw [dC']
    constructor
    · rintro ⟨x0, y0, h0, _, _, e2, e3⟩
      exact ⟨x0, y0, (hT _ _).2 (Or.inr h0), (nb h0).2.2.2.2.1, e2, e3⟩
    · rintro ⟨x0, y0, h0, hn, e2, e3⟩
      rcases (hT _ _).1 h0 with h' | h'
      · exact absurd h' hn
      · exact ⟨x0, y0, h', hva, hvb, e2, e3⟩
  by_cases hvd : v = d
  · -- the opposite node `d`: the link edge `b → a` is contracted to `i`
    subst hvd
    have hT : ∀ x y, Lk T v x y ↔ ((x = b ∧ y = a) ∨ Lk ((T.erase t1).erase t2) v x y) := by
      intro x y; rw [dT, isRot_mk, isRot_mk]
      simp [hab, hab.symm, hca, hca.symm, hcb, hcb.symm, hda, hda.symm, hdb, hdb.symm, hvc]
    refine conn_image_contract (ren a b i) (p := b) (q := a) (rb.trans ra.symm) ?_ (hv v)
    intro x y
    rw [dC']
    constructor
    · rintro ⟨x0, y0, h0, _, _, e2, e3⟩
      exact ⟨x0, y0, (hT _ _).2 (Or.inr h0), (nb h0).2.2.2.2.2, e2, e3⟩
    · rintro ⟨x0, y0, h0, hn, e2, e3⟩
      rcases (hT _ _).1 h0 with h' | h'
      · exact absurd h' hn
      · exact ⟨x0, y0, h', hva, hvb, e2, e3⟩
  · -- any other node: the two end nodes are renamed in its link
    have hT : ∀ x y, Lk T v x y ↔ Lk ((T.erase t1).erase t2) v x y := by
      intro x y; rw [dT, isRot_mk, isRot_mk]; simp [hva, hvb, hvc, hvd]
    refine conn_image (ren a b i) ?_ (hv v)
    intro x y
    rw [dC']
    constructor
    · rintro ⟨x0, y0, h0, _, _, e2, e3⟩
      exact ⟨x0, y0, (hT _ _).2 h0, e2, e3⟩
    · rintro ⟨x0, y0, h0, e2, e3⟩
      exact ⟨x0, y0, (hT _ _).1 h0, hva, hvb, e2, e3⟩

/-! ## 8. renaming of node ids, and histories -/

theorem rename_vmc {T : List Tri} (ρ : Nat → Nat) (hρ : Set.InjOn ρ (vertsF T : Set Nat)) (hv : AllVMC T) :
    AllVMC (renameT ρ T) := by
  have key : ∀ v x y, Lk (renameT ρ T) v x y ↔ ∃ v0 x0 y0, Lk T v0 x0 y0 ∧ v = ρ v0 ∧ x = ρ x0 ∧ y = ρ y0 := by
    intro v x y
    unfold renameT Lk
    constructor
    · rintro ⟨t', ht', hr⟩
      obtain ⟨t, ht, rfl⟩ := List.mem_map.1 ht'
      obtain ⟨v0, x0, y0, h0, e1, e2, e3⟩ := (isRot_map ρ t v x y).1 hr
      exact ⟨v0, x0, y0, ⟨t, ht, h0⟩, e1, e2, e3⟩
    · rintro ⟨v0, x0, y0, ⟨t, ht, h0⟩, e1, e2, e3⟩
      exact ⟨_, List.mem_map.2 ⟨t, ht, rfl⟩, (isRot_map ρ t v x y).2 ⟨v0, x0, y0, h0, e1, e2, e3⟩⟩
  have hvert : ∀ {v x y : Nat}, Lk T v x y → v ∈ vertsF T := by
    rintro v x y ⟨t, ht, hr⟩
    exact ce_mem_vertsF.2 ⟨t, ht, (isRot_hasNode hr).1⟩
  intro v
  by_cases hex : ∃ v0 x0 y0, Lk T v0 x0 y0 ∧ v = ρ v0
  · obtain ⟨v0, x0, y0, h0, rfl⟩ := hex
    refine conn_image ρ ?_ (hv v0)
    intro x y
    rw [key]
    constructor
    · rintro ⟨v1, x1, y1, h1, e1, e2, e3⟩
      have : v0 = v1 := hρ (by exact_mod_cast hvert h0) (by exact_mod_cast hvert h1) e1
      subst this
      exact ⟨x1, y1, h1, e2, e3⟩
    · rintro ⟨x1, y1, h1, e2, e3⟩
      exact ⟨v0, x1, y1, h1, rfl, e2, e3⟩
  · intro x y x' y' hx _
    obtain ⟨v0, x0, y0, h0, e1, _⟩ := (key _ _ _).1 hx
    exact absurd ⟨v0, x0, y0, h0, e1⟩ hex

end Simu.Surface
