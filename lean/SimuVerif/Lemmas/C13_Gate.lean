import SimuVerif.Lemmas.C13_Flood
/-
  C13 — from an accepted mesh (`Gate.accept … = .ok T'`) to the hypotheses of `sphere_oriented`:
  the tests of the gate give non-degenerate faces, every edge in two faces, V − E + F = 2 and (flood fill + the test that it
  reached every face) a spanning tree of consistently oriented adjacencies of the faces that are handed on.
-/
set_option linter.unusedSimpArgs false
set_option linter.unusedVariables false
namespace Simu.C13
open Simu Simu.Geo Simu.Gen.Geometry Simu.Gate Simu.Gen.Gate

theorem nonDeg_of_nonDegB {T : List Tri} (h : nonDegB T = true) : Surface.NonDeg T := by
  intro t ht
  have := List.all_eq_true.mp h t ht
  simp only [Bool.and_eq_true, bne_iff_ne, ne_eq] at this
  exact ⟨this.1.1, this.1.2, this.2⟩

/-- the used nodes (`remove_unused_nodes`) are the vertices of the faces when all ids are in range -/
theorem liveNodes_length {T : List Tri} {n : Nat} (hin : ∀ t ∈ T, t.1 < n ∧ t.2.1 < n ∧ t.2.2 < n) :
    (liveNodes T n).length = (Surface.vertsF T).card := by
  classical
  unfold liveNodes
  have hnd : ((List.range n).filter (nodeUsed T)).Nodup := List.Nodup.filter _ List.nodup_range
  rw [← List.toFinset_card_of_nodup hnd]
  congr 1
  ext i
  rw [List.mem_toFinset, List.mem_filter, List.mem_range, Surface.mem_vertsF]
  unfold nodeUsed
  simp only [List.any_eq_true, Bool.or_eq_true, beq_iff_eq]
  constructor
  · rintro ⟨_, t, ht, h⟩
    exact ⟨t, ht, by rcases h with (h | h) | h <;> simp [h]⟩
  · rintro ⟨t, ht, h⟩
    obtain ⟨h1, h2, h3⟩ := hin t ht
    refine ⟨by rcases h with rfl | rfl | rfl <;> assumption, t, ht, ?_⟩
    rcases h with rfl | rfl | rfl <;> simp

theorem swapMembers_flip : swapMembers flipSwap = swap23 := by
  funext t; simp [swapMembers, flipSwap]

theorem all_checked {l : List Bool} (h : l.all id = true) {f : Nat} (hf : f < l.length) : l[f]? = some true := by
  rw [List.getElem?_eq_getElem hf]
  have := List.all_eq_true.mp h l[f] (List.getElem_mem hf)
  simpa using this

/-- the faces handed on: a spanning tree of consistent adjacencies, and face by face the input up to reversal -/
theorem tree_of_FJ {T0 : List Tri} {G : Ghost} {s : FS} (hI : FJ T0 G s) (hall : s.checked.all id = true)
    (hnd : Surface.NonDeg T0) (h2 : EdgeTwo T0) (hchi : Surface.chiZ T0 = 2) (T' : List Tri)
    (hT' : T' = s.faces ∨ T' = s.faces.map swap23) :
    (∃ A B, Tree T' G.rank G.parent A B) ∧ Rew T' T0 := by
  have hlen : T'.length = T0.length := by
    rcases hT' with rfl | rfl
    · exact hI.lenF
    · rw [List.length_map]; exact hI.lenF
  have hrew : Rew T' T0 := by
    refine ⟨hlen, ?_⟩
    intro f t hO
    rcases hT' with rfl | rfl
    · rcases hI.shape f t hO with h | h
      · exact ⟨_, h, Or.inl rfl⟩
      · exact ⟨_, h, Or.inr (Or.inl rfl)⟩
    · rcases hI.shape f t hO with h | h
      · exact ⟨swap23 t, by rw [List.getElem?_map, h]; rfl, Or.inr (Or.inr (Or.inl rfl))⟩
      · exact ⟨swap23 (swap13 t), by rw [List.getElem?_map, h]; rfl, Or.inr (Or.inr (Or.inr rfl))⟩
  refine ⟨?_, hrew⟩
  have hnd' := (rew_facts T0 T' hrew).2.2 hnd
  have h2' := rew_edgeTwo hrew h2
  have hchi' : Surface.chiZ T' = 2 := by rw [rew_chi hrew]; exact hchi
  have hck : ∀ f, f < T0.length → s.checked[f]? = some true := fun f hf => all_checked hall (by rw [hI.lenC]; exact hf)
  -- the facts of the tree, for the faces of the flood fill
  have htree : ∀ f, 0 < f → f < T0.length → G.parent f < T0.length ∧ G.rank (G.parent f) < G.rank f ∧
      (G.A f, G.B f) ∈ dirs (face s.faces (G.parent f)) ∧ (G.B f, G.A f) ∈ dirs (face s.faces f) := by
    intro f h0 hf
    obtain ⟨t1, t2, tp, tf, t3, t4, t5, t6⟩ := hI.tree f h0 (hck f hf)
    obtain ⟨e1, l1⟩ := face_of_getElem? t3
    obtain ⟨e2, _⟩ := face_of_getElem? t4
    rw [hI.lenF] at l1
    exact ⟨l1, t2, e1 ▸ t5, e2 ▸ t6⟩
  rcases hT' with rfl | rfl
  · refine ⟨G.A, G.B, ⟨hnd', h2', hchi', ?_, ?_⟩⟩
    · intro f h0 hf
      rw [hlen] at hf ⊢
      exact ⟨(htree f h0 hf).1, (htree f h0 hf).2.1⟩
    · intro f h0 hf
      rw [hlen] at hf
      exact (htree f h0 hf).2.2
  · refine ⟨G.B, G.A, ⟨hnd', h2', hchi', ?_, ?_⟩⟩
    · intro f h0 hf
      rw [hlen] at hf ⊢
      exact ⟨(htree f h0 hf).1, (htree f h0 hf).2.1⟩
    · intro f h0 hf
      rw [hlen] at hf
      obtain ⟨hp, _, a1, a2⟩ := htree f h0 hf
      have hm : ∀ g, g < T0.length → face (s.faces.map swap23) g = swap23 (face s.faces g) := by
        intro g hg
        unfold face
        rw [List.getD_eq_getElem?_getD, List.getD_eq_getElem?_getD, List.getElem?_map,
          List.getElem?_eq_getElem (by rw [hI.lenF]; exact hg)]
        rfl
      rw [hm _ hp, hm _ hf, mem_dirs_swap23, mem_dirs_swap23]
      exact ⟨a1, a2⟩

section accept
variable {R : Type} [Add R] [Sub R] [Mul R] [Div R] [Neg R] [Lit R] [LT R] [DecidableLT R] [SEq R]

/-- **what an accepted mesh satisfies** (before any arithmetic on the coordinates) -/
theorem accept_tree (pos : Nat → V3 R) (n : Nat) (T0 T' : List Tri)
    (hin : ∀ t ∈ T0, t.1 < n ∧ t.2.1 < n ∧ t.2.2 < n) (h : accept pos n T0 = .ok T') :
    (∃ rank parent A B, Tree T' rank parent A B) ∧ Rew T' T0 ∧
    ∃ F : List Tri, T' = finalFlip pos F := by
  unfold accept at h
  have hcn : checksNonDegenerate = true := rfl
  have hcc : checksConnected = true := rfl
  have hct : checksTwoFacesPerEdge = true := rfl
  have hce : eulerTarget = some 2 := rfl
  rw [hcn] at h
  cases hndB : nonDegB T0 with
  | false => simp [hndB] at h
  | true =>
    simp only [hndB, Bool.not_true, Bool.and_false, Bool.false_eq_true, if_false] at h
    have hnd := nonDeg_of_nonDegB hndB
    cases hge : genEdges T0 0 [] with
    | none => simp [hge] at h
    | some es =>
      simp only [hge] at h
      cases hman : isManifoldG es (liveNodes T0 n).length T0.length with
      | false => simp [hman] at h
      | true =>
        simp only [hman, Bool.not_true, Bool.false_eq_true, if_false] at h
        unfold isManifoldG at hman
        rw [hct, hce] at hman
        simp only [Bool.not_true, Bool.false_or, Bool.and_eq_true, beq_iff_eq] at hman
        obtain ⟨hall2, heul⟩ := hman
        have hI := genEdges_inv0 hge
        have h2 : EdgeTwo T0 := edgeTwo_of_all hI hall2
        have hchi : Surface.chiZ T0 = 2 := by
          unfold Surface.chiZ
          rw [← liveNodes_length hin, ← length_eq_edges hI]
          omega
        have hnb : NbOK T0 (nbr es) := by
          intro f tf a b g hf hk hg
          exact nbr_spec hI hnd hf hk hg
        unfold orientChecked at h
        cases hfi : floodInit (nbr es) T0 with
        | none => simp [hfi] at h
        | some s0 =>
          simp only [hfi] at h
          cases hfr : floodRun (nbr es) (3 * T0.length + 4) s0 with
          | none => simp [hfr] at h
          | some s =>
            simp only [hfr, hcc, Bool.true_and] at h
            cases hck : s.checked.all id with
            | false => simp [hck] at h
            | true =>
              simp only [hck, Bool.not_true, Bool.false_eq_true, if_false, Except.ok.injEq] at h
              obtain ⟨G0, hJ0⟩ := floodInit_tree T0 (nbr es) hnb s0 hfi
              obtain ⟨G, hJ⟩ := floodRun_tree T0 hnd (nbr es) hnb _ G0 s0 s hJ0 hfr
              have hflip : finalFlip pos s.faces = s.faces ∨ finalFlip pos s.faces = s.faces.map swap23 := by
                unfold finalFlip
                split_ifs
                · right; rw [swapMembers_flip]
                · left; rfl
              obtain ⟨⟨A, B, ht⟩, hrew⟩ := tree_of_FJ hJ hck hnd h2 hchi _ hflip
              subst h
              exact ⟨⟨G.rank, G.parent, A, B, ht⟩, hrew, s.faces, rfl⟩

end accept

/-! ### the gate without the arithmetic: everything except the final sign flip -/

/-- `accept` up to (not including) the sign flip: depends on the node ids only -/
def acceptD (n : Nat) (T : List Tri) : Except InitErr (List Tri) :=
  if checksNonDegenerate && !nonDegB T then .error .integrity else
  match genEdges T 0 [] with
  | none => .error .integrity
  | some es =>
    if !isManifoldG es (liveNodes T n).length T.length then .error .notManifold else
    match floodInit (nbr es) T with
    | none => .error .undefined
    | some s0 =>
      match floodRun (nbr es) (3 * T.length + 4) s0 with
      | none => .error .undefined
      | some s => if checksConnected && !(s.checked.all id) then .error .notManifold else .ok s.faces

section acceptD
variable {R : Type} [Add R] [Sub R] [Mul R] [Div R] [Neg R] [Lit R] [LT R] [DecidableLT R] [SEq R]

theorem accept_eq (pos : Nat → V3 R) (n : Nat) (T : List Tri) :
    accept pos n T = (acceptD n T).map (finalFlip pos) := by
  unfold accept acceptD orientChecked
  split_ifs
  · rfl
  · cases genEdges T 0 [] with
    | none => rfl
    | some es =>
      simp only
      split_ifs
      · rfl
      · cases floodInit (nbr es) T with
        | none => rfl
        | some s0 =>
          simp only
          cases floodRun (nbr es) (3 * T.length + 4) s0 with
          | none => rfl
          | some s =>
            simp only
            split_ifs <;> rfl

theorem accept_ok_of_acceptD (pos : Nat → V3 R) (n : Nat) (T F : List Tri) (h : (acceptD n T).toOption = some F) :
    accept pos n T = .ok (finalFlip pos F) := by
  rw [accept_eq]
  cases hd : acceptD n T with
  | error e => simp [hd, Except.toOption] at h
  | ok F' =>
    simp only [hd, Except.toOption, Option.some.injEq] at h
    subst h; rfl

end acceptD

end Simu.C13
