import SimuVerif.Lemmas.RemeshPass3
/-
  Whole passes of `refine_mesh`, part 4: the swap pass (`remove_elongated_triangles`).

  `swap_edge` is called with the entry the index returns for the longest edge of a badly shaped triangle.  It either leaves
  the cell untouched (its own guards fire) or performs the abstract swap; in the second case the abstract guard
  `SwapGuard` is DERIVED from the code (the two `get_edge(...).value()` after the deletions would throw for `c = d`).
-/
set_option linter.unusedSectionVars false
set_option linter.unusedVariables false
set_option linter.unusedSimpArgs false
namespace Simu.Remesh
open Simu Simu.Surface
open Simu.C11 (bind_ok newSlot)

section
variable {R : Type} [Add R] [Sub R] [Mul R] [Div R] [Neg R] [Lit R] [LT R] [LE R] [DecidableLT R]
  [DecidableLE R] [DecidableEq R]

/-! ## 1. node store -/

theorem deleteFace_nodes {c c' : Cell R} {fid : Nat} (h : deleteFace c fid = .ok c') :
    c'.nodes = c.nodes ∧ c'.freeNodes = c.freeNodes := by
  obtain ⟨f, s3, _, hc⟩ := deleteFace_eq h
  rw [hc]; exact ⟨rfl, rfl⟩

theorem updFaceGeom_nodes (fn : Fn R) (c : Cell R) (fid : Nat) :
    (updFaceGeom fn c fid).nodes = c.nodes ∧ (updFaceGeom fn c fid).freeNodes = c.freeNodes := by
  obtain ⟨fs, h, _⟩ := updFaceGeom_eq fn c fid
  rw [h]; exact ⟨rfl, rfl⟩

theorem addFace_nodes {fn : Fn R} {c c' : Cell R} {a b d fid : Nat} (h : addFace fn c a b d = .ok (c', fid)) :
    c'.nodes = c.nodes ∧ c'.freeNodes = c.freeNodes := by
  obtain ⟨s6, ⟨rest, _, hc⟩ | ⟨_, _, hc⟩⟩ := addFace_eq h
  · rw [hc]
    exact ⟨(updFaceGeom_nodes fn _ fid).1, (updFaceGeom_nodes fn _ fid).2⟩
  · rw [hc]
    exact ⟨(updFaceGeom_nodes fn _ fid).1, (updFaceGeom_nodes fn _ fid).2⟩

/-- `swap_edge` does not touch the node store -/
theorem swapEdge_nodes {fn : Fn R} {c c' : Cell R} {e : Edge} (h : swapEdge fn c e = .ok c') :
    c'.nodes = c.nodes ∧ c'.freeNodes = c.freeNodes := by
  unfold swapEdge at h
  simp only [] at h
  bok h with f1id, _
  bok h with f2id, _
  bok h with f1, _
  bok h with f2, _
  bok h with cc, _
  bok h with dd, _
  bok h with eac, _
  bok h with ecb, _
  bok h with ebd, _
  bok h with eda, _
  bok h with f5, _
  bok h with f8, _
  bok h with f7, _
  bok h with f6, _
  split at h
  · cases h; exact ⟨rfl, rfl⟩
  split at h
  · cases h; exact ⟨rfl, rfl⟩
  bok h with c2, h2
  bok h with c3, h3
  bok h with _, _
  bok h with _, _
  bok h with _, _
  bok h with _, _
  bok h with ⟨c4, f3⟩, h4
  bok h with ⟨c5, f4⟩, h5
  simp only [] at h
  bok h with r5, _
  bok h with r8, _
  bok h with g3, _
  bok h with g4, _
  bok h with _, _
  bok h with _, _
  bok h with _, _
  bok h with _, _
  have hc' := Except.ok.inj h
  obtain ⟨a1, b1⟩ := deleteFace_nodes h2
  obtain ⟨a2, b2⟩ := deleteFace_nodes h3
  obtain ⟨a3, b3⟩ := addFace_nodes h4
  obtain ⟨a4, b4⟩ := addFace_nodes h5
  rw [← hc']
  constructor
  · rw [(updFaceGeom_nodes fn _ f4).1, (updFaceGeom_nodes fn _ f3).1]
    show c5.nodes = _
    rw [a4, a3, a2, a1]
  · rw [(updFaceGeom_nodes fn _ f4).2, (updFaceGeom_nodes fn _ f3).2]
    show c5.freeNodes = _
    rw [b4, b3, b2, b1]

/-- `swap_edge` leaves no unused face slot outside the free queue -/
theorem swapEdge_full {fn : Fn R} {c c' : Cell R} {e : Edge} (h : swapEdge fn c e = .ok c') (hf : FaceFreeOk c)
    (he : EdgeFaces c e e.n1 e.n2) (hF : FreeFull c) : FreeFull c' := by
  obtain ⟨g1, g2, t1, t2, hg1, hg2, hg12, hs1, hs2, h1a, h1b, h2a, h2b⟩ := he
  unfold swapEdge at h
  simp only [] at h
  bok h with f1id, hf1id
  bok h with f2id, hf2id
  have e1 : e.f1 = some f1id := by opt_ok hf1id
  have e2 : e.f2 = some f2id := by opt_ok hf2id
  rw [hg1] at e1; cases e1
  rw [hg2] at e2; cases e2
  bok h with f1, _
  bok h with f2, _
  bok h with cc, _
  bok h with dd, _
  bok h with eac, _
  bok h with ecb, _
  bok h with ebd, _
  bok h with eda, _
  bok h with f5, _
  bok h with f8, _
  bok h with f7, _
  bok h with f6, _
  split at h
  · cases h; exact hF
  split at h
  · cases h; exact hF
  bok h with c2, h2
  bok h with c3, h3
  bok h with _, _
  bok h with _, _
  bok h with _, _
  bok h with _, _
  bok h with ⟨c4, f3⟩, h4
  bok h with ⟨c5, f4⟩, h5
  simp only [] at h
  bok h with r5, _
  bok h with r8, _
  bok h with g3, hg3
  bok h with g4, hg4
  bok h with _, _
  bok h with _, _
  bok h with _, _
  bok h with _, _
  have hc' := Except.ok.inj h
  have D1 := deleteFace_spec h2 hs1
  have s2' : (slots c2)[g2]? = some (some t2) := by
    rw [D1.slots_eq, List.getElem?_set_ne hg12]; exact hs2
  have D2 := deleteFace_spec h3 s2'
  have ffo3 : FaceFreeOk c3 := D2.ffo (D1.ffo hf)
  have A3 := addFace_spec h4 ffo3
  have A4 := addFace_spec h5 A3.ffo
  have n34 : f3 ≠ f4 := fun h => A4.fresh _ (h ▸ A3.got)
  have G3s : (slots c5)[f3]? = some (some (e.n1, dd, cc)) := by rw [A4.other f3 n34]; exact A3.got
  have G4s := A4.got
  have hg3' : c5.faces[f3]? = some g3 := by opt_ok hg3
  have hg4'' : (c5.faces.set! f3 (checkWinding r5 g3))[f4]? = some g4 := by opt_ok hg4
  have hg4' : c5.faces[f4]? = some g4 := face_of_set_ne n34 hg4''
  obtain ⟨f, hfa, hg3u, _⟩ := slot_some_iff.1 G3s
  rw [hg3'] at hfa; cases hfa
  obtain ⟨f, hfa, hg4u, _⟩ := slot_some_iff.1 G4s
  rw [hg4'] at hfa; cases hfa
  obtain ⟨hS, hFF⟩ := swap_tail fn c5 f3 f4 (checkWinding r5 g3) (checkWinding r8 g4)
  rw [triOf_checkWinding _ _ hg3u, triOf_checkWinding _ _ hg4u, hc'] at hS
  rw [hc'] at hFF
  obtain ⟨y3, y4, hS⟩ : ∃ y3 y4 : Tri, slots c' = ((slots c5).set f3 (some y3)).set f4 (some y4) := ⟨_, _, hS⟩
  have F5 : FreeFull c5 := addFace_full h5 (addFace_full h4 (deleteFace_full h3 (deleteFace_full h2 hF)))
  intro i hi
  rw [hFF]
  refine F5 i ?_
  rw [hS, List.getElem?_set] at hi
  by_cases h4i : f4 = i
  · rw [if_pos h4i] at hi
    split at hi <;> cases hi
  · rw [if_neg h4i, List.getElem?_set] at hi
    by_cases h3i : f3 = i
    · rw [if_pos h3i] at hi
      split at hi <;> cases hi
    · rw [if_neg h3i] at hi; exact hi

/-! ## 2. the guard -/

theorem sideK_del {c c' : Cell R} {fid : Nat} {t : Tri} (D : DelRes c c' fid t) (g k : Nat) :
    SideK (slots c') g k ↔ (SideK (slots c) g k ∧ g ≠ fid) := by
  rw [D.slots_eq]; exact sideK_set_none _ _ _ _

theorem no_adj_of_none {c : Cell R} (hI : EdgeIdxComplete c) {x y : Nat} (h : getEdge c x y = none) :
    ¬ Adj (abs c) x y := by
  have key : ∀ p q, (p, q) ∈ heM (abs c) → Edge.keyOf p q = Edge.keyOf x y → False := by
    intro p q hm hk
    obtain ⟨t, ht, hmt⟩ := mem_heM.1 hm
    obtain ⟨g, hg⟩ := mem_abs_iff.1 ht
    have hs : SideK (slots c) g (Edge.keyOf x y) := ⟨t, hg, by rw [← hk]; exact sideKey_of_hasDir (hasDir_of_mem_heTriM hmt)⟩
    obtain ⟨ed, hed⟩ := hI.get hs
    rw [getEdge_eq, hed] at h; cases h
  rintro (hm | hm)
  · exact key x y hm rfl
  · exact key y x hm (Edge.keyOf_comm _ _)

/-- **`swap_edge` either does nothing or the abstract guard held** -/
theorem swapEdge_guard {fn : Fn R} {c c' : Cell R} {e : Edge}
    (h : swapEdge fn c e = .ok c') (hf : FaceFreeOk c) (hInv : Inv (abs c))
    (hab : e.n1 ≠ e.n2) (he : EdgeFaces c e e.n1 e.n2) (hI : EdgeIdxComplete c) :
    c' = c ∨ SwapGuard (abs c) e.n1 e.n2 := by
  obtain ⟨g1, g2, t1, t2, hg1, hg2, hg12, hs1, hs2, h1a, h1b, h2a, h2b⟩ := he
  unfold swapEdge at h
  simp only [] at h
  bok h with f1id, hf1id
  bok h with f2id, hf2id
  have e1 : e.f1 = some f1id := by opt_ok hf1id
  have e2 : e.f2 = some f2id := by opt_ok hf2id
  rw [hg1] at e1; cases e1
  rw [hg2] at e2; cases e2
  bok h with f1, hf1
  bok h with f2, hf2
  bok h with cc, hcc
  bok h with dd, hdd
  bok h with eac, heac
  bok h with ecb, hecb
  bok h with ebd, hebd
  bok h with eda, heda
  bok h with f5, hf5
  bok h with f8, hf8
  bok h with f7, hf7
  bok h with f6, hf6
  have hf1' : c.faces[g1]? = some f1 := by opt_ok hf1
  have hf2' : c.faces[g2]? = some f2 := by opt_ok hf2
  have hcc' : oppositeNode f1 e.n1 e.n2 = some cc := by opt_ok hcc
  have hdd' : oppositeNode f2 e.n1 e.n2 = some dd := by opt_ok hdd
  obtain ⟨f, hfa, _, ht1⟩ := slot_some_iff.1 hs1
  rw [hf1'] at hfa; cases hfa
  obtain ⟨f, hfa, _, ht2⟩ := slot_some_iff.1 hs2
  rw [hf2'] at hfa; cases hfa
  subst ht1; subst ht2
  obtain ⟨hcca, hccb, hcc1⟩ := oppositeNode_some hcc'
  obtain ⟨hdda, hddb, hdd2⟩ := oppositeNode_some hdd'
  split at h
  · cases h; exact Or.inl rfl
  split at h
  · cases h; exact Or.inl rfl
  rename_i hnone
  right
  bok h with c2, h2
  bok h with c3, h3
  bok h with x1, hx1
  -- no edge c–d
  have hno : getEdge c cc dd = none := by
    cases hq : getEdge c cc dd with
    | none => rfl
    | some x => rw [hq] at hnone; exact absurd rfl hnone
  have hnadj := no_adj_of_none hI hno
  -- c ≠ d: after the two deletions the edge a–c still has a face
  have hcd : cc ≠ dd := by
    intro hcd
    have D1 := deleteFace_spec h2 hs1
    have I2 := deleteFace_idx h2 hs1 hI
    have s2' : (slots c2)[g2]? = some (some (f2.n1, f2.n2, f2.n3)) := by
      rw [D1.slots_eq, List.getElem?_set_ne hg12]; exact hs2
    have D2 := deleteFace_spec h3 s2'
    have I3 := deleteFace_idx h3 s2' I2
    have hx1' : getEdge c3 e.n1 cc = some x1 := by opt_ok hx1
    rw [getEdge_eq] at hx1'
    obtain ⟨_, _, xw, xP⟩ := I3.of_find hx1'
    obtain ⟨p, hp⟩ : ∃ p, x1.f1 = some p := Option.ne_none_iff_exists'.1 xw.1
    have hs3 := (xP p).1 ((Edge.hasFace_iff _ _).2 (Or.inl hp))
    rw [sideK_del D2, sideK_del D1] at hs3
    obtain ⟨⟨hsp, hp1⟩, hp2⟩ := hs3
    have k1 : SideK (slots c) g1 (Edge.keyOf e.n1 cc) :=
      ⟨_, hs1, side_of_two_nodes (hInv.nondeg _ (mem_abs_iff.2 ⟨g1, hs1⟩)) (Ne.symm hcca) h1a hcc1⟩
    have k2 : SideK (slots c) g2 (Edge.keyOf e.n1 cc) :=
      ⟨_, hs2, side_of_two_nodes (hInv.nondeg _ (mem_abs_iff.2 ⟨g2, hs2⟩)) (Ne.symm hcca) h2a (by rw [hcd]; exact hdd2)⟩
    rcases idx_at_most_two hI k1 k2 hsp with hh | hh | hh
    · exact hg12 hh
    · exact hp1 hh.symm
    · exact hp2 hh.symm
  -- the abstract guard
  have hT0 := absM_two_slots hg12 hs1 hs2
  intro s1 s2 F1 F2
  rcases edge_dirs hInv hT0 hab h1a h1b h2a h2b with ⟨d1, d2⟩ | ⟨d1, d2⟩
  · obtain ⟨G1, G2⟩ := find_of_decomp hInv.simple hT0 d1 d2
    rw [G1] at F1; rw [G2] at F2; cases F1; cases F2
    rw [← opp_of_oppositeNode d1 hcc', ← opp_of_oppositeNode' d2 hdd']
    exact ⟨hcd, hnadj⟩
  · obtain ⟨G1, G2⟩ := find_of_decomp hInv.simple (hT0.trans (Multiset.cons_swap _ _ _)) d2 d1
    rw [G1] at F1; rw [G2] at F2; cases F1; cases F2
    rw [← opp_of_oppositeNode' d1 hcc', ← opp_of_oppositeNode d2 hdd']
    exact ⟨Ne.symm hcd, fun hh => hnadj (adj_symm hh)⟩

/-! ## 3. one swap -/

/-- **`swap_edge` on a valid copy of an edge of a valid cell** -/
theorem swapEdge_pass {fn : Fn R} {c c' : Cell R} {e : Edge}
    (h : swapEdge fn c e = .ok c') (hc : CellOk c) (hx : CopyOk c e) :
    CellOk c' ∧ (c' = c ∨ (SwapGuard (abs c) e.n1 e.n2 ∧ TriEquiv (abs c') (swapT (abs c) e.n1 e.n2))) := by
  obtain ⟨E, _, _, _, _, he, hab⟩ := hx.entry hc.idx hc.inv
  rcases swapEdge_guard h hc.ffo hc.inv hab he hc.idx with rfl | hg
  · exact ⟨hc, Or.inl rfl⟩
  obtain ⟨hf, hI, hN, hInv, hV, hcov, hus, hfull⟩ := hc
  obtain ⟨hT, hf'⟩ := swapEdge_refines' h hf hInv hab he hI hg
  have hI' := swapEdge_idx h hf hInv hab he hI hg
  have hInv' := swapEdge_inv h hf hInv hab he (edgeIdxSound_of_complete hI hInv) hg
  have hV' := swapEdge_vmc h hf hInv hab he (edgeIdxSound_of_complete hI hInv) hg hV
  obtain ⟨hn, hfn⟩ := swapEdge_nodes h
  have hus' : ∀ v, usedN c' v = usedN c v := by
    intro v; show usedA c'.nodes v = usedA c.nodes v; rw [hn]
  refine ⟨⟨hf', hI', ?_, hInv', hV', fun v hv => ?_, ?_, swapEdge_full h hf he hfull⟩, Or.inr ⟨hg, hT⟩⟩
  rotate_left
  · rw [vertsF_triEquiv hT, swap_verts hInv]
    exact hcov v (by rw [← hus']; exact hv)
  · obtain ⟨v, hv⟩ := hus
    exact ⟨v, by rw [hus']; exact hv⟩
  obtain ⟨t1, t2, F1, F2⟩ := findDirs_of_edgeFaces hInv hab he
  obtain ⟨m1, d1⟩ := findDir_some F1
  obtain ⟨m2, d2⟩ := findDir_some F2
  obtain ⟨q1, r1⟩ := mem_abs_iff.1 m1
  obtain ⟨q2, r2⟩ := mem_abs_iff.1 m2
  refine ⟨by rw [hfn]; exact hN.nodup, fun i => ?_, fun g t v hg' hv => ?_⟩
  · rw [hfn]
    show _ ↔ (i < c'.nodes.size ∧ usedA c'.nodes i = false)
    rw [hn]; exact hN.free i
  · show usedA c'.nodes v = true
    rw [hn]
    obtain ⟨t0, ht0, hnode⟩ := nodes_of_triEquiv hT (mem_abs_iff.2 ⟨g, hg'⟩)
    rw [← hnode v] at hv
    rw [swapT_eq F1 F2] at ht0
    have uo1 : usedN c (opp t1 e.n1 e.n2) = true :=
      hN.live q1 t1 _ r1 ((node_of_hasDir d1).2 (Or.inl rfl))
    have uo2 : usedN c (opp t2 e.n2 e.n1) = true :=
      hN.live q2 t2 _ r2 ((node_of_hasDir d2).2 (Or.inl rfl))
    have ua : usedN c e.n1 = true := hN.live q1 t1 _ r1 (hasNode_of_hasDir d1).1
    have ub : usedN c e.n2 = true := hN.live q1 t1 _ r1 (hasNode_of_hasDir d1).2
    rcases List.mem_cons.1 ht0 with rfl | ht0
    · rw [hasNode_iff] at hv
      rcases hv with rfl | rfl | rfl
      · exact ua
      · exact uo2
      · exact uo1
    rcases List.mem_cons.1 ht0 with rfl | ht0
    · rw [hasNode_iff] at hv
      rcases hv with rfl | rfl | rfl
      · exact ub
      · exact uo1
      · exact uo2
    · obtain ⟨q, r⟩ := mem_abs_iff.1 (mem_of_mem_rest ht0)
      exact hN.live q t0 v r hv

end

end Simu.Remesh
