import SimuVerif.Lemmas.Field
import SimuVerif.Gen.RemeshConsts
/-
  C11 — helper lemmas about the executable remeshing model `Model/Remesh.lean`:
  the node store (slot array + LIFO free list) seen through `splitEdge` / `mergeEdge`,
  and the control structure of `refineMesh.loop`.
-/
set_option linter.unusedSectionVars false
set_option linter.unusedVariables false
namespace Simu.C11
open Simu Simu.Remesh

theorem bind_ok {ε α β : Type} {x : Except ε α} {f : α → Except ε β} {b : β}
    (h : (x >>= f) = .ok b) : ∃ a, x = .ok a ∧ f a = .ok b := by
  cases x with
  | error e => cases h
  | ok a => exact ⟨a, rfl, h⟩

theorem optOk {ε α : Type} {o : Option α} {err : ε} {v : α}
    (h : (match o with | some x => Except.ok x | none => Except.error err) = .ok v) : o = some v := by
  cases o with
  | none => cases h
  | some x => cases h; rfl

variable {R : Type} [Field R] [LinearOrder R] [IsStrictOrderedRing R]

def SameNodes (c c' : Cell R) : Prop := c'.nodes = c.nodes ∧ c'.freeNodes = c.freeNodes

theorem SameNodes.trans {a b c : Cell R} (h1 : SameNodes a b) (h2 : SameNodes b c) : SameNodes a c :=
  ⟨h2.1.trans h1.1, h2.2.trans h1.2⟩

theorem sameNodes_updFaceGeom (fn : Fn R) (c : Cell R) (fid : Nat) : SameNodes c (updFaceGeom fn c fid) := by
  unfold updFaceGeom
  split
  · exact ⟨rfl, rfl⟩
  · exact ⟨rfl, rfl⟩

theorem sameNodes_setFaceType (c : Cell R) (fid t : Nat) : SameNodes c (setFaceType c fid t) := by
  unfold setFaceType
  split
  · exact ⟨rfl, rfl⟩
  · exact ⟨rfl, rfl⟩

theorem sameNodes_deleteFace {c c' : Cell R} {fid : Nat} (h : deleteFace c fid = .ok c') : SameNodes c c' := by
  unfold deleteFace at h
  split at h
  · cases h
  · obtain ⟨s1, _, h⟩ := bind_ok h
    obtain ⟨s2, _, h⟩ := bind_ok h
    obtain ⟨s3, _, h⟩ := bind_ok h
    cases h
    exact ⟨rfl, rfl⟩


theorem sameNodes_addFace {fn : Fn R} {c c' : Cell R} {a b d fid : Nat}
    (h : addFace fn c a b d = .ok (c', fid)) : SameNodes c c' := by
  unfold addFace at h
  cases hff : c.freeFaces with
  | nil =>
    simp only [hff] at h
    obtain ⟨s4, _, h⟩ := bind_ok h
    obtain ⟨s5, _, h⟩ := bind_ok h
    obtain ⟨s6, _, h⟩ := bind_ok h
    cases h
    exact (sameNodes_updFaceGeom fn _ _)
  | cons i rest =>
    simp only [hff] at h
    obtain ⟨s4, _, h⟩ := bind_ok h
    obtain ⟨s5, _, h⟩ := bind_ok h
    obtain ⟨s6, _, h⟩ := bind_ok h
    cases h
    exact (sameNodes_updFaceGeom fn _ _)

/-- the node store after the node part of `split_edge` -/
def splitNodes (k : SplitConsts R) (c : Cell R) (a b : Nat) (na nb : Node R) : Cell R × Nat :=
  addNode { c with nodes := (c.nodes.set! a { na with mom := na.mom * k.keep }).set! b { nb with mom := nb.mom * k.keep } }
    ((nb.pos + na.pos) * k.mid) ((na.mom + nb.mom) / k.giveDiv)

theorem two_addFace {fn : Fn R} {c : Cell R} {o : Bool} {p q r s t u v w x y z a' : Nat} {res : Cell R × Nat × Nat}
    (h : (if o = true then do
              let __x ← addFace fn c p q r
              match __x with
                | (c, f3) => do
                  let __x ← addFace fn c s t u
                  match __x with
                    | (c, f5) => pure (c, f3, f5)
            else do
              let __x ← addFace fn c v w x
              match __x with
                | (c, f3) => do
                  let __x ← addFace fn c y z a'
                  match __x with
                    | (c, f5) => pure (c, f3, f5) : Except Err (Cell R × Nat × Nat)) = .ok res) : SameNodes c res.1 := by
  split at h
  all_goals
    obtain ⟨⟨c1, f3⟩, h1, h⟩ := bind_ok h
    obtain ⟨⟨c2, f5⟩, h2, h⟩ := bind_ok h
    cases h
    exact (sameNodes_addFace h1).trans (sameNodes_addFace h2)

theorem splitEdge_nodes {fn : Fn R} {k : SplitConsts R} {c c' : Cell R} {e : Edge} {chk chk' : CheckSet}
    (h : splitEdge fn k c e chk = .ok (c', chk')) :
    ∃ na nb, c.nodes[e.n1]? = some na ∧ c.nodes[e.n2]? = some nb ∧
      SameNodes (splitNodes k c e.n1 e.n2 na nb).1 c' := by
  unfold splitEdge at h
  simp only [] at h
  obtain ⟨f1id, _, h⟩ := bind_ok h
  obtain ⟨f2id, _, h⟩ := bind_ok h
  obtain ⟨f1, _, h⟩ := bind_ok h
  obtain ⟨f2, _, h⟩ := bind_ok h
  obtain ⟨na, hna, h⟩ := bind_ok h
  obtain ⟨nb, hnb, h⟩ := bind_ok h
  obtain ⟨cc, _, h⟩ := bind_ok h
  obtain ⟨dd, _, h⟩ := bind_ok h
  have hna' : c.nodes[e.n1]? = some na := by
    cases hq : c.nodes[e.n1]? <;> simp [hq] at hna; simp [hna]
  have hnb' : c.nodes[e.n2]? = some nb := by
    cases hq : c.nodes[e.n2]? <;> simp [hq] at hnb; simp [hnb]
  refine ⟨na, nb, hna', hnb', ?_⟩
  unfold splitNodes
  obtain ⟨c2, h2, h⟩ := bind_ok h
  obtain ⟨c3, h3, h⟩ := bind_ok h
  obtain ⟨⟨c4, f3, f5⟩, h4, h⟩ := bind_ok h
  obtain ⟨⟨c5, f4, f6⟩, h5, h⟩ := bind_ok h
  simp only [] at h
  obtain ⟨eea, _, h⟩ := bind_ok h
  obtain ⟨eeb, _, h⟩ := bind_ok h
  obtain ⟨eec, _, h⟩ := bind_ok h
  obtain ⟨eed, _, h⟩ := bind_ok h
  cases h
  refine (sameNodes_deleteFace h2).trans <| (sameNodes_deleteFace h3).trans <| (two_addFace h4).trans <|
    (two_addFace h5).trans ?_
  exact (sameNodes_setFaceType _ _ _).trans <| (sameNodes_setFaceType _ _ _).trans <|
    (sameNodes_setFaceType _ _ _).trans (sameNodes_setFaceType _ _ _)

theorem sameNodes_replaceLoop {fn : Fn R} {start : Edge} {old new : Nat} (fuel : Nat) :
    ∀ {c : Cell R} {cur : Option Edge} {faceId : Nat} {del cre : List Edge} {r : Cell R × List Edge × List Edge},
      replaceNode.loop fn start old new fuel c cur faceId del cre = .ok r → SameNodes c r.1 := by
  induction fuel with
  | zero => intro c cur faceId del cre r h; unfold replaceNode.loop at h; cases h
  | succ fuel ih =>
    intro c cur faceId del cre r h
    unfold replaceNode.loop at h
    cases cur with
    | none => cases h
    | some e =>
      simp only [] at h
      obtain ⟨fid1, _, h⟩ := bind_ok h
      obtain ⟨f, _, h⟩ := bind_ok h
      obtain ⟨ef1, _, h⟩ := bind_ok h
      obtain ⟨ef2, _, h⟩ := bind_ok h
      obtain ⟨x, _, h⟩ := bind_ok h
      obtain ⟨f', _, h⟩ := bind_ok h
      split at h
      · cases h
        exact ⟨(sameNodes_updFaceGeom fn _ _).1, (sameNodes_updFaceGeom fn _ _).2⟩
      · split at h
        · cases h
          exact ⟨(sameNodes_updFaceGeom fn _ _).1, (sameNodes_updFaceGeom fn _ _).2⟩
        · have := ih h
          exact ⟨this.1.trans (sameNodes_updFaceGeom fn _ _).1, this.2.trans (sameNodes_updFaceGeom fn _ _).2⟩

theorem replaceNode_nodes {fn : Fn R} {c c' : Cell R} {start : Edge} {old new : Nat} {del cre : List Edge}
    (h : replaceNode fn c start old new = .ok (c', del, cre)) :
    SameNodes (deleteNode c old) c' := by
  unfold replaceNode at h
  obtain ⟨sf1, _, h⟩ := bind_ok h
  obtain ⟨⟨c1, d1, cr1⟩, h1, h⟩ := bind_ok h
  cases h
  have := sameNodes_replaceLoop _ h1
  simp only at this
  unfold deleteNode
  exact ⟨by simp only [this.1], by simp only [this.2]⟩

/-! ### sums over the slot array -/
theorem sum_map_set {α : Type} (g : α → R) : ∀ (l : List α) (i : Nat) (v : α) (h : i < l.length),
    ((l.set i v).map g).sum = (l.map g).sum - g l[i] + g v
  | x :: xs, 0, v, _ => by simp; ring
  | x :: xs, i+1, v, h => by
    have := sum_map_set g xs i v (by simpa using h)
    simp only [List.set_cons_succ, List.map_cons, List.sum_cons, this, List.getElem_cons_succ]; ring

def wC (π : V3 R → R) (n : Node R) : R := if n.used then π n.mom else 0
def momC (π : V3 R → R) (ns : Array (Node R)) : R := (ns.toList.map (wC π)).sum

theorem momC_set (π : V3 R → R) (ns : Array (Node R)) (i : Nat) (v old : Node R) (h : ns[i]? = some old) :
    momC π (ns.set! i v) = momC π ns - wC π old + wC π v := by
  obtain ⟨hi, rfl⟩ := Array.getElem?_eq_some_iff.1 h
  unfold momC
  simp only [Array.set!_eq_setIfInBounds, Array.toList_setIfInBounds]
  rw [sum_map_set _ _ _ _ (by simpa using hi)]
  simp

theorem momC_push (π : V3 R → R) (ns : Array (Node R)) (v : Node R) :
    momC π (ns.push v) = momC π ns + wC π v := by
  unfold momC; simp

theorem get_set_ne (ns : Array (Node R)) (i j : Nat) (v : Node R) (h : i ≠ j) : (ns.set! i v)[j]? = ns[j]? := by
  simp [h]

theorem get_set_eq (ns : Array (Node R)) (i : Nat) (v : Node R) (h : i < ns.size) : (ns.set! i v)[i]? = some v := by
  simp [h]

theorem set_oob (ns : Array (Node R)) (i : Nat) (v : Node R) (h : ns.size ≤ i) : ns.set! i v = ns := by
  simp [Array.setIfInBounds, h]

/-! ### merge: node part -/

theorem SameNodes.deleteNode {x y : Cell R} (h : SameNodes x y) (i : Nat) :
    SameNodes (deleteNode x i) (deleteNode y i) := by
  unfold Remesh.deleteNode
  exact ⟨by simp only [h.1], by simp only [h.2]⟩

/-- the node store after the node part of `merge_edge` -/
def mergeNodes (k : SplitConsts R) (c : Cell R) (a b : Nat) (na nb : Node R) : Cell R × Nat :=
  let r := addNode c ((nb.pos + na.pos) * k.mid) (na.mom + nb.mom)
  (deleteNode (deleteNode r.1 a) b, r.2)

theorem mergeEdge_nodes {fn : Fn R} {k : SplitConsts R} {c c' : Cell R} {e : Edge} {chk chk' : CheckSet}
    (h : mergeEdge fn k c e chk = .ok (c', chk')) :
    ∃ na nb, c.nodes[e.n1]? = some na ∧ c.nodes[e.n2]? = some nb ∧
      SameNodes (mergeNodes k c e.n1 e.n2 na nb).1 c' := by
  unfold mergeEdge at h
  simp only [] at h
  obtain ⟨f1id, _, h⟩ := bind_ok h
  obtain ⟨f2id, _, h⟩ := bind_ok h
  obtain ⟨na, hna, h⟩ := bind_ok h
  obtain ⟨nb, hnb, h⟩ := bind_ok h
  have hna' : c.nodes[e.n1]? = some na := by
    cases hq : c.nodes[e.n1]? <;> simp [hq] at hna; simp [hna]
  have hnb' : c.nodes[e.n2]? = some nb := by
    cases hq : c.nodes[e.n2]? <;> simp [hq] at hnb; simp [hnb]
  refine ⟨na, nb, hna', hnb', ?_⟩
  obtain ⟨⟨c2, delA, creA⟩, h2, h⟩ := bind_ok h
  obtain ⟨ebi, _, h⟩ := bind_ok h
  obtain ⟨⟨c3, delB, creB⟩, h3, h⟩ := bind_ok h
  obtain ⟨c4, h4, h⟩ := bind_ok h
  obtain ⟨c5, h5, h⟩ := bind_ok h
  cases h
  unfold mergeNodes
  exact (((replaceNode_nodes h2).deleteNode _).trans (replaceNode_nodes h3)).trans
    ((sameNodes_deleteFace h4).trans (sameNodes_deleteFace h5))

/-! ### the slot-store invariant -/

/-- every id of the free list is a slot of the array, that slot is unused, and no id is queued twice -/
structure FreeOk (c : Cell R) : Prop where
  free : ∀ i ∈ c.freeNodes, ∃ n, c.nodes[i]? = some n ∧ n.used = false
  nodup : c.freeNodes.Nodup

theorem FreeOk.of_sameNodes {c c' : Cell R} (h : SameNodes c c') (hf : FreeOk c) : FreeOk c' := by
  obtain ⟨h1, h2⟩ := h
  exact ⟨by rw [h1, h2]; exact hf.free, by rw [h2]; exact hf.nodup⟩

/-- slot `i` holds a live node -/
def UsedAt (c : Cell R) (i : Nat) : Prop := ∃ n, c.nodes[i]? = some n ∧ n.used = true

theorem FreeOk.not_mem_of_used {c : Cell R} (hf : FreeOk c) {i : Nat} (hu : UsedAt c i) : i ∉ c.freeNodes := by
  intro hm
  obtain ⟨n, hn, hnu⟩ := hf.free i hm
  obtain ⟨m, hm', hmu⟩ := hu
  rw [hn] at hm'; cases hm'; rw [hnu] at hmu; cases hmu

/-- the slot `add_node` will use -/
def newSlot (c : Cell R) : Nat :=
  match c.freeNodes with
  | i :: _ => i
  | [] => c.nodes.size

theorem addNode_snd (c : Cell R) (p m : V3 R) : (addNode c p m).2 = newSlot c := by
  unfold addNode newSlot; cases c.freeNodes <;> rfl

theorem newSlot_not_used {c : Cell R} (hf : FreeOk c) {i : Nat} (hu : UsedAt c i) : i ≠ newSlot c := by
  unfold newSlot
  cases hfr : c.freeNodes with
  | nil =>
    obtain ⟨n, hn, _⟩ := hu
    have := (Array.getElem?_eq_some_iff.1 hn).1
    simp only; omega
  | cons j rest =>
    have := hf.not_mem_of_used hu
    rw [hfr] at this
    simp only
    intro h; exact this (by simp [h])

theorem addNode_freeOk {c : Cell R} (hf : FreeOk c) (p m : V3 R) : FreeOk (addNode c p m).1 := by
  unfold addNode
  cases hfr : c.freeNodes with
  | nil => exact ⟨by simp, by simp⟩
  | cons j rest =>
    have hnd := hf.nodup; rw [hfr] at hnd
    have hjr : j ∉ rest := (List.nodup_cons.1 hnd).1
    refine ⟨?_, (List.nodup_cons.1 hnd).2⟩
    intro i hi
    have hij : j ≠ i := fun h => hjr (h ▸ hi)
    obtain ⟨n, hn, hnu⟩ := hf.free i (by rw [hfr]; exact List.mem_cons_of_mem _ hi)
    exact ⟨n, by simp only [get_set_ne _ _ _ _ hij, hn], hnu⟩

theorem deleteNode_freeOk {c : Cell R} (hf : FreeOk c) {i : Nat} (hu : UsedAt c i) : FreeOk (deleteNode c i) := by
  have hni := hf.not_mem_of_used hu
  obtain ⟨n0, hn0, _⟩ := hu
  have hi := (Array.getElem?_eq_some_iff.1 hn0).1
  unfold deleteNode
  refine ⟨?_, List.nodup_cons.2 ⟨hni, hf.nodup⟩⟩
  intro j hj
  by_cases hij : i = j
  · subst hij
    exact ⟨_, get_set_eq _ _ _ hi, rfl⟩
  · rcases List.mem_cons.1 hj with h | h
    · exact absurd h.symm hij
    · obtain ⟨n, hn, hnu⟩ := hf.free j h
      exact ⟨n, by simp only [get_set_ne _ _ _ _ hij, hn], hnu⟩

/-- overwriting a slot without changing its `used` flag keeps the invariant -/
theorem setNode_freeOk {c : Cell R} (hf : FreeOk c) {i : Nat} {old v : Node R} (ho : c.nodes[i]? = some old)
    (hv : v.used = old.used) : FreeOk { c with nodes := c.nodes.set! i v } := by
  have hi := (Array.getElem?_eq_some_iff.1 ho).1
  refine ⟨?_, hf.nodup⟩
  intro j hj
  obtain ⟨n, hn, hnu⟩ := hf.free j hj
  by_cases hij : i = j
  · subst hij
    rw [ho] at hn; cases hn
    exact ⟨v, get_set_eq _ _ _ hi, by rw [hv, hnu]⟩
  · exact ⟨n, by simp only [get_set_ne _ _ _ _ hij, hn], hnu⟩

theorem usedAt_setNode {c : Cell R} {i j : Nat} {v : Node R} (hv : v.used = true) (hu : UsedAt c j) :
    UsedAt { c with nodes := c.nodes.set! i v } j := by
  obtain ⟨n, hn, hnu⟩ := hu
  have hj := (Array.getElem?_eq_some_iff.1 hn).1
  by_cases hij : i = j
  · subst hij; exact ⟨v, get_set_eq _ _ _ hj, hv⟩
  · exact ⟨n, by simp only [get_set_ne _ _ _ _ hij, hn], hnu⟩

/-! ### momentum sums through `add_node` / `delete_node` -/

theorem addNode_momC (π : V3 R → R) {c : Cell R} (hf : FreeOk c) (p m : V3 R) :
    momC π (addNode c p m).1.nodes = momC π c.nodes + π m := by
  unfold addNode
  cases hfr : c.freeNodes with
  | nil => simp only [momC_push]; simp [wC]
  | cons j rest =>
    obtain ⟨n, hn, hnu⟩ := hf.free j (by rw [hfr]; exact List.mem_cons_self)
    simp only [momC_set π _ _ _ _ hn]
    simp [wC, hnu]

theorem deleteNode_momC (π : V3 R → R) {c : Cell R} {i : Nat} {n : Node R} (hn : c.nodes[i]? = some n) :
    momC π (deleteNode c i).nodes = momC π c.nodes - wC π n := by
  unfold deleteNode
  simp only [momC_set π _ _ _ _ hn]
  simp [wC]

/-! ### total momentum of the live nodes -/

/-- a coordinate projection: commutes with the vector operations used by `split_edge` -/
structure LinProj (π : V3 R → R) : Prop where
  add : ∀ u v, π (u + v) = π u + π v
  smul : ∀ u (k : R), π (u * k) = π u * k
  sdiv : ∀ u (k : R), π (u / k) = π u / k

theorem linProj_x : LinProj (V3.x : V3 R → R) := ⟨fun _ _ => rfl, fun _ _ => rfl, fun _ _ => rfl⟩
theorem linProj_y : LinProj (V3.y : V3 R → R) := ⟨fun _ _ => rfl, fun _ _ => rfl, fun _ _ => rfl⟩
theorem linProj_z : LinProj (V3.z : V3 R → R) := ⟨fun _ _ => rfl, fun _ _ => rfl, fun _ _ => rfl⟩

/-- total momentum of a cell: the sum of `mom` over the USED slots of the node array -/
def totalMom (c : Cell R) : V3 R := ⟨momC V3.x c.nodes, momC V3.y c.nodes, momC V3.z c.nodes⟩

theorem totalMom_of_sameNodes {c c' : Cell R} (h : SameNodes c c') : totalMom c' = totalMom c := by
  unfold totalMom; rw [h.1]

def setN (c : Cell R) (i : Nat) (v : Node R) : Cell R := { c with nodes := c.nodes.set! i v }

theorem splitNodes_eq (k : SplitConsts R) (c : Cell R) (a b : Nat) (na nb : Node R) :
    splitNodes k c a b na nb =
      addNode (setN (setN c a { na with mom := na.mom * k.keep }) b { nb with mom := nb.mom * k.keep })
        ((nb.pos + na.pos) * k.mid) ((na.mom + nb.mom) / k.giveDiv) := rfl

theorem splitNodes_freeOk (k : SplitConsts R) {c : Cell R} {a b : Nat} {na nb : Node R}
    (ha : c.nodes[a]? = some na) (hb : c.nodes[b]? = some nb) (hab : a ≠ b) (hf : FreeOk c) :
    FreeOk (splitNodes k c a b na nb).1 := by
  rw [splitNodes_eq]
  apply addNode_freeOk
  have h1 : FreeOk (setN c a { na with mom := na.mom * k.keep }) := setNode_freeOk hf ha rfl
  have hb1 : (setN c a { na with mom := na.mom * k.keep }).nodes[b]? = some nb := by
    show (c.nodes.set! a _)[b]? = some nb
    rw [get_set_ne _ _ _ _ hab, hb]
  exact setNode_freeOk h1 hb1 rfl

theorem splitNodes_momC {π : V3 R → R} (hπ : LinProj π) (k : SplitConsts R)
    (hk : ∀ x y : R, x * k.keep + y * k.keep + (x + y) / k.giveDiv = x + y)
    {c : Cell R} {a b : Nat} {na nb : Node R}
    (ha : c.nodes[a]? = some na) (hb : c.nodes[b]? = some nb) (hua : na.used = true) (hub : nb.used = true)
    (hab : a ≠ b) (hf : FreeOk c) :
    momC π (splitNodes k c a b na nb).1.nodes = momC π c.nodes := by
  rw [splitNodes_eq]
  have h1 : FreeOk (setN c a { na with mom := na.mom * k.keep }) := setNode_freeOk hf ha rfl
  have hb1 : (setN c a { na with mom := na.mom * k.keep }).nodes[b]? = some nb := by
    show (c.nodes.set! a _)[b]? = some nb
    rw [get_set_ne _ _ _ _ hab, hb]
  have h2 : FreeOk (setN (setN c a { na with mom := na.mom * k.keep }) b { nb with mom := nb.mom * k.keep }) :=
    setNode_freeOk h1 hb1 rfl
  rw [addNode_momC π h2]
  show momC π ((setN c a _).nodes.set! b _) + _ = _
  rw [momC_set π _ _ _ _ hb1]
  show momC π (c.nodes.set! a _) - _ + _ + _ = _
  rw [momC_set π _ _ _ _ ha]
  simp only [wC, hua, hub, if_true, hπ.add, hπ.smul, hπ.sdiv]
  have := hk (π na.mom) (π nb.mom)
  linarith

theorem get_push_ne (ns : Array (Node R)) (v : Node R) {j : Nat} (h : j ≠ ns.size) : (ns.push v)[j]? = ns[j]? := by
  simp only [Array.getElem?_push]
  split
  · exact absurd (by assumption) h
  · rfl

theorem addNode_get_ne (c : Cell R) (p m : V3 R) {j : Nat} (h : j ≠ newSlot c) :
    (addNode c p m).1.nodes[j]? = c.nodes[j]? := by
  unfold addNode; unfold newSlot at h
  cases hfr : c.freeNodes with
  | nil => rw [hfr] at h; exact get_push_ne _ _ h
  | cons i rest => rw [hfr] at h; exact get_set_ne _ _ _ _ (Ne.symm h)

theorem mergeNodes_momC (π : V3 R → R) (hadd : ∀ u v, π (u + v) = π u + π v) (k : SplitConsts R)
    {c : Cell R} {a b : Nat} {na nb : Node R}
    (ha : c.nodes[a]? = some na) (hb : c.nodes[b]? = some nb) (hua : na.used = true) (hub : nb.used = true)
    (hab : a ≠ b) (hf : FreeOk c) :
    momC π (mergeNodes k c a b na nb).1.nodes = momC π c.nodes := by
  unfold mergeNodes
  simp only
  have hia : a ≠ newSlot c := newSlot_not_used hf ⟨na, ha, hua⟩
  have hib : b ≠ newSlot c := newSlot_not_used hf ⟨nb, hb, hub⟩
  have ha1 : (addNode c ((nb.pos + na.pos) * k.mid) (na.mom + nb.mom)).1.nodes[a]? = some na := by
    rw [addNode_get_ne _ _ _ hia, ha]
  have hb1 : (deleteNode (addNode c ((nb.pos + na.pos) * k.mid) (na.mom + nb.mom)).1 a).nodes[b]? = some nb := by
    show (Array.set! _ a _)[b]? = some nb
    rw [get_set_ne _ _ _ _ hab, addNode_get_ne _ _ _ hib, hb]
  rw [deleteNode_momC π hb1, deleteNode_momC π ha1, addNode_momC π hf]
  simp only [wC, hua, hub, if_true, hadd]
  ring

theorem mergeNodes_freeOk (k : SplitConsts R) {c : Cell R} {a b : Nat} {na nb : Node R}
    (ha : c.nodes[a]? = some na) (hb : c.nodes[b]? = some nb) (hua : na.used = true) (hub : nb.used = true)
    (hab : a ≠ b) (hf : FreeOk c) :
    FreeOk (mergeNodes k c a b na nb).1 := by
  unfold mergeNodes
  simp only
  have hia : a ≠ newSlot c := newSlot_not_used hf ⟨na, ha, hua⟩
  have hib : b ≠ newSlot c := newSlot_not_used hf ⟨nb, hb, hub⟩
  have ha1 : (addNode c ((nb.pos + na.pos) * k.mid) (na.mom + nb.mom)).1.nodes[a]? = some na := by
    rw [addNode_get_ne _ _ _ hia, ha]
  have hb1 : (deleteNode (addNode c ((nb.pos + na.pos) * k.mid) (na.mom + nb.mom)).1 a).nodes[b]? = some nb := by
    show (Array.set! _ a _)[b]? = some nb
    rw [get_set_ne _ _ _ _ hab, addNode_get_ne _ _ _ hib, hb]
  exact deleteNode_freeOk (deleteNode_freeOk (addNode_freeOk hf _ _) ⟨na, ha1, hua⟩) ⟨nb, hb1, hub⟩

/-! ### positions -/

theorem posOf_congr {c c' : Cell R} (h : c'.nodes = c.nodes) (j : Nat) : posOf c' j = posOf c j := by
  unfold posOf; rw [h]

theorem posOf_of_get {c c' : Cell R} {j : Nat} (h : c'.nodes[j]? = c.nodes[j]?) : posOf c' j = posOf c j := by
  unfold posOf; rw [h]

theorem posOf_of_some {c : Cell R} {j : Nat} {n : Node R} (h : c.nodes[j]? = some n) : posOf c j = n.pos := by
  unfold posOf; rw [h]

theorem posOf_setN_samePos {c : Cell R} {i : Nat} {old v : Node R} (ho : c.nodes[i]? = some old)
    (hv : v.pos = old.pos) (j : Nat) : posOf (setN c i v) j = posOf c j := by
  have hi := (Array.getElem?_eq_some_iff.1 ho).1
  by_cases hij : i = j
  · subst hij
    rw [posOf_of_some ho, posOf_of_some (c := setN c i v) (get_set_eq _ _ _ hi), hv]
  · exact posOf_of_get (get_set_ne _ _ _ _ hij)

theorem addNode_posOf_ne (c : Cell R) (p m : V3 R) {j : Nat} (h : j ≠ newSlot c) :
    posOf (addNode c p m).1 j = posOf c j := posOf_of_get (addNode_get_ne c p m h)

theorem addNode_posOf_new {c : Cell R} (hf : FreeOk c) (p m : V3 R) :
    posOf (addNode c p m).1 (newSlot c) = p := by
  unfold addNode newSlot
  cases hfr : c.freeNodes with
  | nil =>
    simp only
    exact posOf_of_some (c := { c with nodes := c.nodes.push ⟨p, m, true⟩ }) (n := ⟨p, m, true⟩) (by simp)
  | cons i rest =>
    obtain ⟨n, hn, _⟩ := hf.free i (by rw [hfr]; exact List.mem_cons_self)
    have hi := (Array.getElem?_eq_some_iff.1 hn).1
    simp only
    exact posOf_of_some (c := { c with nodes := c.nodes.set! i ⟨p, m, true⟩, freeNodes := rest })
      (n := ⟨p, m, true⟩) (get_set_eq _ _ _ hi)

theorem newSlot_setN (c : Cell R) (i : Nat) (v : Node R) : newSlot (setN c i v) = newSlot c := by
  unfold newSlot setN; simp

theorem splitNodes_snd (k : SplitConsts R) (c : Cell R) (a b : Nat) (na nb : Node R) :
    (splitNodes k c a b na nb).2 = newSlot c := by
  rw [splitNodes_eq, addNode_snd, newSlot_setN, newSlot_setN]

theorem splitNodes_posOf_ne (k : SplitConsts R) {c : Cell R} {a b : Nat} {na nb : Node R}
    (ha : c.nodes[a]? = some na) (hb : c.nodes[b]? = some nb) {j : Nat} (hj : j ≠ newSlot c) :
    posOf (splitNodes k c a b na nb).1 j = posOf c j := by
  rw [splitNodes_eq]
  have hb1 : (setN c a { na with mom := na.mom * k.keep }).nodes[b]? =
      some (if a = b then { na with mom := na.mom * k.keep } else nb) := by
    have hi := (Array.getElem?_eq_some_iff.1 ha).1
    by_cases hab : a = b
    · subst hab; simp only [if_true]; exact get_set_eq _ _ _ hi
    · simp only [if_neg hab]
      show (c.nodes.set! a _)[b]? = some nb
      rw [get_set_ne _ _ _ _ hab, hb]
  have hpos : nb.pos = (if a = b then ({ na with mom := na.mom * k.keep } : Node R) else nb).pos := by
    by_cases hab : a = b
    · subst hab; rw [ha] at hb; cases hb; simp
    · simp [hab]
  rw [addNode_posOf_ne _ _ _ (by rw [newSlot_setN, newSlot_setN]; exact hj),
    posOf_setN_samePos hb1 (v := { nb with mom := nb.mom * k.keep }) hpos, posOf_setN_samePos ha (v := { na with mom := na.mom * k.keep }) rfl]

theorem splitNodes_posOf_new (k : SplitConsts R) {c : Cell R} {a b : Nat} {na nb : Node R}
    (ha : c.nodes[a]? = some na) (hb : c.nodes[b]? = some nb) (hab : a ≠ b) (hf : FreeOk c) :
    posOf (splitNodes k c a b na nb).1 (newSlot c) = (posOf c b + posOf c a) * k.mid := by
  rw [splitNodes_eq]
  have h1 : FreeOk (setN c a { na with mom := na.mom * k.keep }) := setNode_freeOk hf ha rfl
  have hb1 : (setN c a { na with mom := na.mom * k.keep }).nodes[b]? = some nb := by
    show (c.nodes.set! a _)[b]? = some nb
    rw [get_set_ne _ _ _ _ hab, hb]
  have h2 : FreeOk (setN (setN c a { na with mom := na.mom * k.keep }) b { nb with mom := nb.mom * k.keep }) :=
    setNode_freeOk h1 hb1 rfl
  have := addNode_posOf_new h2 ((nb.pos + na.pos) * k.mid) ((na.mom + nb.mom) / k.giveDiv)
  rw [newSlot_setN, newSlot_setN] at this
  rw [posOf_of_some ha, posOf_of_some hb]
  exact this

theorem deleteNode_posOf_ne (c : Cell R) {i j : Nat} (h : i ≠ j) : posOf (deleteNode c i) j = posOf c j :=
  posOf_of_get (get_set_ne _ _ _ _ h)

theorem deleteNode_posOf_self (c : Cell R) (i : Nat) : posOf (deleteNode c i) i = zeroV := by
  by_cases hi : i < c.nodes.size
  · exact posOf_of_some (c := deleteNode c i) (n := ⟨zeroV, zeroV, false⟩) (get_set_eq _ _ _ hi)
  · unfold posOf deleteNode
    simp only [set_oob _ _ _ (Nat.le_of_not_lt hi)]
    rw [Array.getElem?_eq_none (Nat.le_of_not_lt hi)]

theorem mergeNodes_snd (k : SplitConsts R) (c : Cell R) (a b : Nat) (na nb : Node R) :
    (mergeNodes k c a b na nb).2 = newSlot c := by
  unfold mergeNodes; simp only [addNode_snd]

theorem mergeNodes_posOf_ne (k : SplitConsts R) (c : Cell R) (a b : Nat) (na nb : Node R) {j : Nat}
    (hj : j ≠ newSlot c) (hja : j ≠ a) (hjb : j ≠ b) :
    posOf (mergeNodes k c a b na nb).1 j = posOf c j := by
  unfold mergeNodes
  simp only
  rw [deleteNode_posOf_ne _ (Ne.symm hjb), deleteNode_posOf_ne _ (Ne.symm hja), addNode_posOf_ne _ _ _ hj]

theorem mergeNodes_posOf_new (k : SplitConsts R) {c : Cell R} {a b : Nat} {na nb : Node R}
    (ha : c.nodes[a]? = some na) (hb : c.nodes[b]? = some nb) (hua : na.used = true) (hub : nb.used = true)
    (hf : FreeOk c) :
    posOf (mergeNodes k c a b na nb).1 (newSlot c) = (posOf c b + posOf c a) * k.mid := by
  have hia : a ≠ newSlot c := newSlot_not_used hf ⟨na, ha, hua⟩
  have hib : b ≠ newSlot c := newSlot_not_used hf ⟨nb, hb, hub⟩
  unfold mergeNodes
  simp only
  rw [deleteNode_posOf_ne _ hib, deleteNode_posOf_ne _ hia, addNode_posOf_new hf, posOf_of_some ha, posOf_of_some hb]

theorem mergeNodes_posOf_old (k : SplitConsts R) (c : Cell R) (a b : Nat) (na nb : Node R) :
    posOf (mergeNodes k c a b na nb).1 a = zeroV ∧ posOf (mergeNodes k c a b na nb).1 b = zeroV := by
  unfold mergeNodes
  simp only
  refine ⟨?_, deleteNode_posOf_self _ _⟩
  by_cases hab : b = a
  · subst hab; exact deleteNode_posOf_self _ _
  · rw [deleteNode_posOf_ne _ hab]; exact deleteNode_posOf_self _ _

/-! ### the check set: sizes -/

theorem insertGo_length (e : Edge) : ∀ s : List Edge, (EdgeSet.insert.go e s).1.length ≤ s.length + 1
  | [] => by simp [EdgeSet.insert.go]
  | x :: xs => by
    unfold EdgeSet.insert.go
    split
    · simp
    · split
      · simp
      · have := insertGo_length e xs
        simp only [List.length_cons]
        omega

theorem insert_length (s : EdgeSet) (e : Edge) : (EdgeSet.insert s e).1.length ≤ s.length + 1 :=
  insertGo_length e s

theorem update_length (s : EdgeSet) (e : Edge) : (EdgeSet.update s e).length = s.length := by
  unfold EdgeSet.update; simp

theorem erase_length (s : EdgeSet) (k : Nat) : (EdgeSet.erase s k).length ≤ s.length := by
  unfold EdgeSet.erase; exact List.length_filter_le _ _

def updF (chk : CheckSet) (x y old new : Nat) : CheckSet :=
  match EdgeSet.find? chk (Edge.keyOf x y) with
  | some ed => EdgeSet.update chk (ed.replaceFace old new)
  | none => chk

theorem updF_length (chk : CheckSet) (x y old new : Nat) : (updF chk x y old new).length = chk.length := by
  unfold updF; split
  · exact update_length _ _
  · rfl

/-- `split_edge` inserts at most four edges into the check set -/
theorem splitEdge_chk_length {fn : Fn R} {k : SplitConsts R} {c c' : Cell R} {e : Edge} {chk chk' : CheckSet}
    (h : splitEdge fn k c e chk = .ok (c', chk')) : chk'.length ≤ chk.length + 4 := by
  unfold splitEdge at h
  simp only [] at h
  obtain ⟨f1id, _, h⟩ := bind_ok h
  obtain ⟨f2id, _, h⟩ := bind_ok h
  obtain ⟨f1, _, h⟩ := bind_ok h
  obtain ⟨f2, _, h⟩ := bind_ok h
  obtain ⟨na, hna, h⟩ := bind_ok h
  obtain ⟨nb, hnb, h⟩ := bind_ok h
  obtain ⟨cc, _, h⟩ := bind_ok h
  obtain ⟨dd, _, h⟩ := bind_ok h
  obtain ⟨c2, h2, h⟩ := bind_ok h
  obtain ⟨c3, h3, h⟩ := bind_ok h
  obtain ⟨⟨c4, f3, f5⟩, h4, h⟩ := bind_ok h
  obtain ⟨⟨c5, f4, f6⟩, h5, h⟩ := bind_ok h
  simp only [] at h
  obtain ⟨eea, _, h⟩ := bind_ok h
  obtain ⟨eeb, _, h⟩ := bind_ok h
  obtain ⟨eec, _, h⟩ := bind_ok h
  obtain ⟨eed, _, h⟩ := bind_ok h
  cases h
  show (updF (updF (updF (updF _ _ _ _ _) _ _ _ _) _ _ _ _) _ _ _ _).length ≤ _
  simp only [updF_length]
  have i1 := insert_length chk eea
  have i2 := insert_length (EdgeSet.insert chk eea).1 eeb
  have i3 := insert_length (EdgeSet.insert (EdgeSet.insert chk eea).1 eeb).1 eec
  have i4 := insert_length (EdgeSet.insert (EdgeSet.insert (EdgeSet.insert chk eea).1 eeb).1 eec).1 eed
  omega

/-! ### sizes of the face array -/

theorem facesSize_updFaceGeom (fn : Fn R) (c : Cell R) (fid : Nat) :
    (updFaceGeom fn c fid).faces.size = c.faces.size := by
  unfold updFaceGeom
  split
  · rfl
  · simp

theorem facesSize_setFaceType (c : Cell R) (fid t : Nat) : (setFaceType c fid t).faces.size = c.faces.size := by
  unfold setFaceType
  split
  · simp
  · rfl

theorem facesSize_deleteFace {c c' : Cell R} {fid : Nat} (h : deleteFace c fid = .ok c') :
    c'.faces.size = c.faces.size := by
  unfold deleteFace at h
  split at h
  · cases h
  · obtain ⟨s1, _, h⟩ := bind_ok h
    obtain ⟨s2, _, h⟩ := bind_ok h
    obtain ⟨s3, _, h⟩ := bind_ok h
    cases h
    simp

theorem facesSize_addFace {fn : Fn R} {c c' : Cell R} {a b d fid : Nat}
    (h : addFace fn c a b d = .ok (c', fid)) : c'.faces.size ≤ c.faces.size + 1 := by
  unfold addFace at h
  cases hff : c.freeFaces with
  | nil =>
    simp only [hff] at h
    obtain ⟨s4, _, h⟩ := bind_ok h
    obtain ⟨s5, _, h⟩ := bind_ok h
    obtain ⟨s6, _, h⟩ := bind_ok h
    cases h
    rw [facesSize_updFaceGeom]; simp
  | cons i rest =>
    simp only [hff] at h
    obtain ⟨s4, _, h⟩ := bind_ok h
    obtain ⟨s5, _, h⟩ := bind_ok h
    obtain ⟨s6, _, h⟩ := bind_ok h
    cases h
    rw [facesSize_updFaceGeom]; simp

theorem facesSize_two_addFace {fn : Fn R} {c : Cell R} {o : Bool} {p q r s t u v w x y z a' : Nat} {res : Cell R × Nat × Nat}
    (h : (if o = true then do
              let __x ← addFace fn c p q r
              match __x with
                | (c, f3) => do
                  let __x ← addFace fn c s t u
                  match __x with
                    | (c, f5) => pure (c, f3, f5)
            else do
              let __x ← addFace fn c v w x
              match __x with
                | (c, f3) => do
                  let __x ← addFace fn c y z a'
                  match __x with
                    | (c, f5) => pure (c, f3, f5) : Except Err (Cell R × Nat × Nat)) = .ok res) :
    res.1.faces.size ≤ c.faces.size + 2 := by
  split at h
  all_goals
    obtain ⟨⟨c1, f3⟩, h1, h⟩ := bind_ok h
    obtain ⟨⟨c2, f5⟩, h2, h⟩ := bind_ok h
    cases h
    have := facesSize_addFace h1
    have := facesSize_addFace h2
    simp only; omega

theorem facesSize_addNode (c : Cell R) (p m : V3 R) : (addNode c p m).1.faces = c.faces := by
  unfold addNode; cases c.freeNodes <;> rfl

/-- `split_edge` enlarges the face array by at most four slots -/
theorem splitEdge_facesSize {fn : Fn R} {k : SplitConsts R} {c c' : Cell R} {e : Edge} {chk chk' : CheckSet}
    (h : splitEdge fn k c e chk = .ok (c', chk')) : c'.faces.size ≤ c.faces.size + 4 := by
  unfold splitEdge at h
  simp only [] at h
  obtain ⟨f1id, _, h⟩ := bind_ok h
  obtain ⟨f2id, _, h⟩ := bind_ok h
  obtain ⟨f1, _, h⟩ := bind_ok h
  obtain ⟨f2, _, h⟩ := bind_ok h
  obtain ⟨na, hna, h⟩ := bind_ok h
  obtain ⟨nb, hnb, h⟩ := bind_ok h
  obtain ⟨cc, _, h⟩ := bind_ok h
  obtain ⟨dd, _, h⟩ := bind_ok h
  obtain ⟨c2, h2, h⟩ := bind_ok h
  obtain ⟨c3, h3, h⟩ := bind_ok h
  obtain ⟨⟨c4, f3, f5⟩, h4, h⟩ := bind_ok h
  obtain ⟨⟨c5, f4, f6⟩, h5, h⟩ := bind_ok h
  simp only [] at h
  obtain ⟨eea, _, h⟩ := bind_ok h
  obtain ⟨eeb, _, h⟩ := bind_ok h
  obtain ⟨eec, _, h⟩ := bind_ok h
  obtain ⟨eed, _, h⟩ := bind_ok h
  cases h
  have e2 := facesSize_deleteFace h2
  rw [facesSize_addNode] at e2
  have e3 := facesSize_deleteFace h3
  have e4 := facesSize_two_addFace h4
  have e5 := facesSize_two_addFace h5
  simp only [facesSize_setFaceType]
  simp only at e2 e4 e5
  omega

theorem replaceLoop_sizes {fn : Fn R} {start : Edge} {old new : Nat} (fuel : Nat) :
    ∀ {c : Cell R} {cur : Option Edge} {faceId : Nat} {del cre : List Edge} {r : Cell R × List Edge × List Edge},
      replaceNode.loop fn start old new fuel c cur faceId del cre = .ok r →
      r.1.faces.size = c.faces.size ∧ r.2.2.length ≤ cre.length + fuel := by
  induction fuel with
  | zero => intro c cur faceId del cre r h; unfold replaceNode.loop at h; cases h
  | succ fuel ih =>
    intro c cur faceId del cre r h
    unfold replaceNode.loop at h
    cases cur with
    | none => cases h
    | some e =>
      simp only [] at h
      obtain ⟨fid1, _, h⟩ := bind_ok h
      obtain ⟨f, _, h⟩ := bind_ok h
      obtain ⟨ef1, _, h⟩ := bind_ok h
      obtain ⟨ef2, _, h⟩ := bind_ok h
      obtain ⟨x, _, h⟩ := bind_ok h
      obtain ⟨f', _, h⟩ := bind_ok h
      split at h
      · cases h
        refine ⟨?_, by simp⟩
        simp only [facesSize_updFaceGeom]; simp
      · split at h
        · cases h
          refine ⟨?_, by simp⟩
          simp only [facesSize_updFaceGeom]; simp
        · have := ih h
          refine ⟨?_, ?_⟩
          · rw [this.1]; simp only [facesSize_updFaceGeom]; simp
          · have := this.2; simp only [List.length_append, List.length_cons, List.length_nil] at this; omega

theorem replaceNode_sizes {fn : Fn R} {c c' : Cell R} {start : Edge} {old new : Nat} {del cre : List Edge}
    (h : replaceNode fn c start old new = .ok (c', del, cre)) :
    c'.faces.size = c.faces.size ∧ cre.length ≤ c.faces.size + 2 := by
  unfold replaceNode at h
  obtain ⟨sf1, _, h⟩ := bind_ok h
  obtain ⟨⟨c1, d1, cr1⟩, h1, h⟩ := bind_ok h
  cases h
  have := replaceLoop_sizes _ h1
  simp only [List.length_nil, Nat.zero_add] at this
  exact ⟨by unfold deleteNode; exact this.1, this.2⟩

theorem foldl_erase_length (l : List Edge) : ∀ s : EdgeSet,
    (l.foldl (fun s ed => EdgeSet.erase s ed.key) s).length ≤ s.length := by
  induction l with
  | nil => intro s; exact Nat.le_refl _
  | cons x xs ih => intro s; exact Nat.le_trans (ih _) (erase_length _ _)

theorem foldl_insertIf_length (p : Edge → Bool) (l : List Edge) : ∀ s : EdgeSet,
    (l.foldl (fun s ed => if p ed then (EdgeSet.insert s ed).1 else s) s).length ≤ s.length + l.length := by
  induction l with
  | nil => intro s; exact Nat.le_refl _
  | cons x xs ih =>
    intro s
    simp only [List.foldl_cons, List.length_cons]
    refine Nat.le_trans (ih _) ?_
    split
    · have := insert_length s x; omega
    · omega

/-- `merge_edge` keeps the size of the face array and inserts at most `2·(faces.size + 2)` edges into the check set
    (one per step of the two `replace_node` walks, each bounded by the number of face slots) -/
theorem mergeEdge_sizes {fn : Fn R} {k : SplitConsts R} {c c' : Cell R} {e : Edge} {chk chk' : CheckSet}
    (h : mergeEdge fn k c e chk = .ok (c', chk')) :
    c'.faces.size = c.faces.size ∧ chk'.length ≤ chk.length + 2 * (c.faces.size + 2) := by
  unfold mergeEdge at h
  simp only [] at h
  obtain ⟨f1id, _, h⟩ := bind_ok h
  obtain ⟨f2id, _, h⟩ := bind_ok h
  obtain ⟨na, hna, h⟩ := bind_ok h
  obtain ⟨nb, hnb, h⟩ := bind_ok h
  obtain ⟨⟨c2, delA, creA⟩, h2, h⟩ := bind_ok h
  obtain ⟨ebi, _, h⟩ := bind_ok h
  obtain ⟨⟨c3, delB, creB⟩, h3, h⟩ := bind_ok h
  obtain ⟨c4, h4, h⟩ := bind_ok h
  obtain ⟨c5, h5, h⟩ := bind_ok h
  cases h
  have s2 := replaceNode_sizes h2
  rw [facesSize_addNode] at s2
  have s3 := replaceNode_sizes h3
  have s4 := facesSize_deleteFace h4
  have s5 := facesSize_deleteFace h5
  simp only at s2 s3 s4 s5 ⊢
  refine ⟨by omega, ?_⟩
  refine Nat.le_trans (foldl_insertIf_length _ _ _) ?_
  have := foldl_erase_length (delA ++ delB) chk
  simp only [List.length_append]
  omega

/-! ### the swap pass; invariant through split and collapse -/

theorem SameNodes.refl (c : Cell R) : SameNodes c c := ⟨rfl, rfl⟩

/-- `swap_edge` does not touch the node store -/
theorem sameNodes_swapEdge {fn : Fn R} {c c' : Cell R} {e : Edge} (h : swapEdge fn c e = .ok c') : SameNodes c c' := by
  unfold swapEdge at h
  simp only [] at h
  obtain ⟨f1id, _, h⟩ := bind_ok h
  obtain ⟨f2id, _, h⟩ := bind_ok h
  obtain ⟨f1, _, h⟩ := bind_ok h
  obtain ⟨f2, _, h⟩ := bind_ok h
  obtain ⟨cc, _, h⟩ := bind_ok h
  obtain ⟨dd, _, h⟩ := bind_ok h
  obtain ⟨eac, _, h⟩ := bind_ok h
  obtain ⟨ecb, _, h⟩ := bind_ok h
  obtain ⟨ebd, _, h⟩ := bind_ok h
  obtain ⟨eda, _, h⟩ := bind_ok h
  obtain ⟨f5, _, h⟩ := bind_ok h
  obtain ⟨f8, _, h⟩ := bind_ok h
  obtain ⟨f7, _, h⟩ := bind_ok h
  obtain ⟨f6, _, h⟩ := bind_ok h
  split at h
  · cases h; exact SameNodes.refl c
  · split at h
    · cases h; exact SameNodes.refl c
    · obtain ⟨c1, h1, h⟩ := bind_ok h
      obtain ⟨c2, h2, h⟩ := bind_ok h
      obtain ⟨_, _, h⟩ := bind_ok h
      obtain ⟨_, _, h⟩ := bind_ok h
      obtain ⟨_, _, h⟩ := bind_ok h
      obtain ⟨_, _, h⟩ := bind_ok h
      obtain ⟨⟨c3, f3⟩, h3, h⟩ := bind_ok h
      obtain ⟨⟨c4, f4⟩, h4, h⟩ := bind_ok h
      obtain ⟨r5, _, h⟩ := bind_ok h
      obtain ⟨r8, _, h⟩ := bind_ok h
      obtain ⟨g3, _, h⟩ := bind_ok h
      obtain ⟨g4, _, h⟩ := bind_ok h
      obtain ⟨_, _, h⟩ := bind_ok h
      obtain ⟨_, _, h⟩ := bind_ok h
      obtain ⟨_, _, h⟩ := bind_ok h
      obtain ⟨_, _, h⟩ := bind_ok h
      cases h
      refine (sameNodes_deleteFace h1).trans <| (sameNodes_deleteFace h2).trans <| (sameNodes_addFace h3).trans <|
        (sameNodes_addFace h4).trans ?_
      exact ⟨(sameNodes_updFaceGeom fn _ _).1.trans (sameNodes_updFaceGeom fn _ _).1,
        (sameNodes_updFaceGeom fn _ _).2.trans (sameNodes_updFaceGeom fn _ _).2⟩

theorem sameNodes_removeElongatedLoop {fn : Fn R} {k : RefineConsts R} (fuel : Nat) :
    ∀ {i : Nat} {c c' : Cell R}, removeElongated.loop fn k fuel i c = .ok c' → SameNodes c c' := by
  induction fuel with
  | zero => intro i c c' h; unfold removeElongated.loop at h; cases h; exact SameNodes.refl c
  | succ fuel ih =>
    intro i c c' h
    unfold removeElongated.loop at h
    split at h
    · cases h; exact SameNodes.refl c
    · split at h
      · cases h; exact SameNodes.refl c
      · split at h
        · exact ih h
        · split at h
          · cases h
          · split at h
            · split at h
              · cases h
              · rename_i c1 hsw
                exact (sameNodes_swapEdge hsw).trans (ih h)
            · exact ih h

/-- the swap pass (`remove_elongated_triangles`) does not touch the node store -/
theorem sameNodes_removeElongated {fn : Fn R} {k : RefineConsts R} {c c' : Cell R}
    (h : removeElongated fn k c = .ok c') : SameNodes c c' := by
  unfold removeElongated at h
  exact sameNodes_removeElongatedLoop _ h

theorem splitEdge_freeOk {fn : Fn R} {k : SplitConsts R} {c c' : Cell R} {e : Edge} {chk chk' : CheckSet}
    (h : splitEdge fn k c e chk = .ok (c', chk')) (hab : e.n1 ≠ e.n2) (hf : FreeOk c) : FreeOk c' := by
  obtain ⟨na, nb, ha, hb, hs⟩ := splitEdge_nodes h
  exact FreeOk.of_sameNodes hs (splitNodes_freeOk _ ha hb hab hf)

theorem mergeEdge_freeOk {fn : Fn R} {k : SplitConsts R} {c c' : Cell R} {e : Edge} {chk chk' : CheckSet}
    (h : mergeEdge fn k c e chk = .ok (c', chk')) (hab : e.n1 ≠ e.n2)
    (h1 : UsedAt c e.n1) (h2 : UsedAt c e.n2) (hf : FreeOk c) : FreeOk c' := by
  obtain ⟨na, nb, ha, hb, hs⟩ := mergeEdge_nodes h
  obtain ⟨na', ha', hua⟩ := h1
  obtain ⟨nb', hb', hub⟩ := h2
  rw [ha] at ha'; cases ha'
  rw [hb] at hb'; cases hb'
  exact FreeOk.of_sameNodes hs (mergeNodes_freeOk _ ha hb hua hub hab hf)

abbrev Log (R : Type) := List (Bool × Nat × Nat × R)

variable (fn : Fn R) (k : RefineConsts R) (lminSq lmaxSq : R)

theorem loop_zero (c : Cell R) (chk : CheckSet) (iter : Nat) (log : Log R) :
    refineMesh.loop fn k lminSq lmaxSq 0 c chk iter log = (c, .fuelOut, log) := by
  unfold refineMesh.loop; rfl

/-- the loop stops as soon as the check set is empty or `iter` reaches the number of edges -/
theorem loop_stop (fuel : Nat) (c : Cell R) (chk : CheckSet) (iter : Nat) (log : Log R)
    (h : chk = [] ∨ c.edges.length ≤ iter) :
    refineMesh.loop fn k lminSq lmaxSq (fuel + 1) c chk iter log =
      (c, if iter == c.edges.length then .threw .integrity else .returned, log) := by
  unfold refineMesh.loop
  have : (chk.isEmpty || !decide (iter < c.edges.length)) = true := by
    rcases h with h | h
    · simp [h]
    · simp [Nat.not_lt.2 h]
  simp only [this, if_true]

/-- the squared length the loop tests -/
def len2 (c : Cell R) (e : Edge) : R := V3.normSq (posOf c e.n1 - posOf c e.n2)

theorem loop_cons (fuel : Nat) (c : Cell R) (e : Edge) (rest : CheckSet) (iter : Nat) (log : Log R)
    (h : iter < c.edges.length) :
    refineMesh.loop fn k lminSq lmaxSq (fuel + 1) c (e :: rest) iter log =
      if lmaxSq < len2 c e then
        match splitEdge fn k.split c e rest with
        | .error x => (c, .threw x, log)
        | .ok (c', chk') => refineMesh.loop fn k lminSq lmaxSq fuel c' chk' (iter + 1) ((true, e.n1, e.n2, len2 c e) :: log)
      else if len2 c e < lminSq then
        match canBeMerged c e with
        | .error x => (c, .threw x, log)
        | .ok false => refineMesh.loop fn k lminSq lmaxSq fuel c rest iter log
        | .ok true =>
          match mergeEdge fn k.split c e rest with
          | .error x => (c, .threw x, log)
          | .ok (c', chk') => refineMesh.loop fn k lminSq lmaxSq fuel c' chk' (iter + 1) ((false, e.n1, e.n2, len2 c e) :: log)
      else refineMesh.loop fn k lminSq lmaxSq fuel c rest iter log := by
  conv_lhs => unfold refineMesh.loop
  have : ((e :: rest).isEmpty || !decide (iter < c.edges.length)) = false := by simp [h]
  simp only [this]
  rfl

/-! ### steps of the loop -/

/-- an iteration that performs no operation (edge inside the length band) drops exactly the head of the
    check set and leaves the cell, `iter` and the log unchanged -/
theorem noop_step_band (fuel : Nat) (c : Cell R) (e : Edge) (rest : CheckSet) (iter : Nat) (log : Log R)
    (h : iter < c.edges.length) (h1 : ¬ lmaxSq < len2 c e) (h2 : ¬ len2 c e < lminSq) :
    refineMesh.loop fn k lminSq lmaxSq (fuel + 1) c (e :: rest) iter log =
      refineMesh.loop fn k lminSq lmaxSq fuel c rest iter log := by
  rw [loop_cons _ _ _ _ _ _ _ _ _ _ h, if_neg h1, if_neg h2]

/-- the same for a short edge that `can_be_merged` refuses -/
theorem noop_step_refused (fuel : Nat) (c : Cell R) (e : Edge) (rest : CheckSet) (iter : Nat) (log : Log R)
    (h : iter < c.edges.length) (h1 : ¬ lmaxSq < len2 c e) (h2 : len2 c e < lminSq)
    (h3 : canBeMerged c e = .ok false) :
    refineMesh.loop fn k lminSq lmaxSq (fuel + 1) c (e :: rest) iter log =
      refineMesh.loop fn k lminSq lmaxSq fuel c rest iter log := by
  rw [loop_cons _ _ _ _ _ _ _ _ _ _ h, if_neg h1, if_pos h2, h3]

/-- a split increases `iter` by one and logs the squared length that decided -/
theorem split_step (fuel : Nat) (c c' : Cell R) (e : Edge) (rest chk' : CheckSet) (iter : Nat) (log : Log R)
    (h : iter < c.edges.length) (h1 : lmaxSq < len2 c e) (h3 : splitEdge fn k.split c e rest = .ok (c', chk')) :
    refineMesh.loop fn k lminSq lmaxSq (fuel + 1) c (e :: rest) iter log =
      refineMesh.loop fn k lminSq lmaxSq fuel c' chk' (iter + 1) ((true, e.n1, e.n2, len2 c e) :: log) := by
  rw [loop_cons _ _ _ _ _ _ _ _ _ _ h, if_pos h1, h3]

/-- a merge increases `iter` by one and logs the squared length that decided -/
theorem merge_step (fuel : Nat) (c c' : Cell R) (e : Edge) (rest chk' : CheckSet) (iter : Nat) (log : Log R)
    (h : iter < c.edges.length) (h1 : ¬ lmaxSq < len2 c e) (h2 : len2 c e < lminSq)
    (h3 : canBeMerged c e = .ok true) (h4 : mergeEdge fn k.split c e rest = .ok (c', chk')) :
    refineMesh.loop fn k lminSq lmaxSq (fuel + 1) c (e :: rest) iter log =
      refineMesh.loop fn k lminSq lmaxSq fuel c' chk' (iter + 1) ((false, e.n1, e.n2, len2 c e) :: log) := by
  rw [loop_cons _ _ _ _ _ _ _ _ _ _ h, if_neg h1, if_pos h2, h3]
  simp only [h4]

/-! ### selectivity -/

/-- a log entry is justified: a split was decided by a squared length above `lmaxSq`, a merge by one below `lminSq` -/
def Justified (p : Bool × Nat × Nat × R) : Prop :=
  (p.1 = true → lmaxSq < p.2.2.2) ∧ (p.1 = false → p.2.2.2 < lminSq)

theorem loop_selective (fuel : Nat) : ∀ (c : Cell R) (chk : CheckSet) (iter : Nat) (log : Log R),
    (∀ p ∈ log, Justified lminSq lmaxSq p) →
    ∀ p ∈ (refineMesh.loop fn k lminSq lmaxSq fuel c chk iter log).2.2, Justified lminSq lmaxSq p := by
  induction fuel with
  | zero => intro c chk iter log hl; rw [loop_zero]; exact hl
  | succ fuel ih =>
    intro c chk iter log hl
    by_cases hs : chk = [] ∨ c.edges.length ≤ iter
    · rw [loop_stop _ _ _ _ _ _ _ _ _ hs]; exact hl
    · have hne : chk ≠ [] := fun h => hs (Or.inl h)
      have hit : iter < c.edges.length := Nat.lt_of_not_le (fun h => hs (Or.inr h))
      obtain ⟨e, rest, rfl⟩ := List.exists_cons_of_ne_nil hne
      rw [loop_cons _ _ _ _ _ _ _ _ _ _ hit]
      by_cases h1 : lmaxSq < len2 c e
      · rw [if_pos h1]
        cases hsp : splitEdge fn k.split c e rest with
        | error x => exact hl
        | ok r =>
          obtain ⟨c', chk'⟩ := r
          refine ih _ _ _ _ ?_
          intro p hp
          rcases List.mem_cons.1 hp with rfl | hp
          · exact ⟨fun _ => h1, fun h => (by cases h)⟩
          · exact hl p hp
      · rw [if_neg h1]
        by_cases h2 : len2 c e < lminSq
        · rw [if_pos h2]
          cases hcm : canBeMerged c e with
          | error x => exact hl
          | ok b =>
            cases b with
            | false => exact ih _ _ _ _ hl
            | true =>
              simp only
              cases hme : mergeEdge fn k.split c e rest with
              | error x => exact hl
              | ok r =>
                obtain ⟨c', chk'⟩ := r
                refine ih _ _ _ _ ?_
                intro p hp
                rcases List.mem_cons.1 hp with rfl | hp
                · exact ⟨fun h => (by cases h), fun _ => h2⟩
                · exact hl p hp
        · rw [if_neg h2]; exact ih _ _ _ _ hl

/-! ### a conforming mesh is a fixpoint -/

theorem loop_conforming (c : Cell R) (hne : c.edges ≠ []) : ∀ (chk : CheckSet) (fuel : Nat) (log : Log R),
    (∀ e ∈ chk, ¬ lmaxSq < len2 c e ∧ ¬ len2 c e < lminSq) → chk.length + 1 ≤ fuel →
    refineMesh.loop fn k lminSq lmaxSq fuel c chk 0 log = (c, .returned, log) := by
  have hpos : 0 < c.edges.length := List.length_pos_iff.2 hne
  intro chk
  induction chk with
  | nil =>
    intro fuel log _ hf
    obtain ⟨f, rfl⟩ : ∃ f, fuel = f + 1 := ⟨fuel - 1, by simp at hf; omega⟩
    rw [loop_stop _ _ _ _ _ _ _ _ _ (Or.inl rfl)]
    have : (0 == c.edges.length) = false := by
      simp only [beq_eq_false_iff_ne]; omega
    simp only [this]
    rfl
  | cons e rest ih =>
    intro fuel log hc hf
    obtain ⟨f, rfl⟩ : ∃ f, fuel = f + 1 := ⟨fuel - 1, by simp at hf; omega⟩
    have he := hc e List.mem_cons_self
    rw [noop_step_band _ _ _ _ _ _ _ _ _ _ hpos he.1 he.2]
    exact ih f log (fun e' h' => hc e' (List.mem_cons_of_mem _ h')) (by simp at hf; omega)

theorem loop_noedges (c : Cell R) (he : c.edges = []) (fuel : Nat) (chk : CheckSet) (log : Log R) :
    refineMesh.loop fn k lminSq lmaxSq (fuel + 1) c chk 0 log = (c, .threw .integrity, log) := by
  rw [loop_stop _ _ _ _ _ _ _ _ _ (Or.inr (by simp [he]))]
  simp [he]

theorem refineMesh_noswap (c : Cell R) (maxIter : Nat) :
    refineMesh fn k lminSq lmaxSq false c maxIter = refineMesh.loop fn k lminSq lmaxSq maxIter c c.edges 0 [] := by
  unfold refineMesh
  simp

/-! ### instrumented loop: counts iterations and operations -/

structure Stats where
  iters : Nat     -- iterations that passed the stop test
  splits : Nat
  merges : Nat
  growM : Nat     -- Σ over the merges of (size of the check set after − size of the tail before), truncated at 0

def Stats.zero : Stats := ⟨0, 0, 0, 0⟩

/-- `refineMesh.loop` with counters -/
def loopI : Nat → Cell R → CheckSet → Nat → Log R → (Cell R × Outcome × Log R) × Stats
  | 0, c, _, _, log => ((c, .fuelOut, log), Stats.zero)
  | _ + 1, c, [], iter, log =>
    ((c, if iter == c.edges.length then .threw .integrity else .returned, log), Stats.zero)
  | fuel + 1, c, e :: rest, iter, log =>
    if c.edges.length ≤ iter then
      ((c, if iter == c.edges.length then .threw .integrity else .returned, log), Stats.zero)
    else if lmaxSq < len2 c e then
      match splitEdge fn k.split c e rest with
      | .error x => ((c, .threw x, log), ⟨1, 0, 0, 0⟩)
      | .ok (c', chk') =>
        let r := loopI fuel c' chk' (iter + 1) ((true, e.n1, e.n2, len2 c e) :: log)
        (r.1, ⟨r.2.iters + 1, r.2.splits + 1, r.2.merges, r.2.growM⟩)
    else if len2 c e < lminSq then
      match canBeMerged c e with
      | .error x => ((c, .threw x, log), ⟨1, 0, 0, 0⟩)
      | .ok false =>
        let r := loopI fuel c rest iter log
        (r.1, ⟨r.2.iters + 1, r.2.splits, r.2.merges, r.2.growM⟩)
      | .ok true =>
        match mergeEdge fn k.split c e rest with
        | .error x => ((c, .threw x, log), ⟨1, 0, 0, 0⟩)
        | .ok (c', chk') =>
          let r := loopI fuel c' chk' (iter + 1) ((false, e.n1, e.n2, len2 c e) :: log)
          (r.1, ⟨r.2.iters + 1, r.2.splits, r.2.merges + 1, r.2.growM + (chk'.length - rest.length)⟩)
    else
      let r := loopI fuel c rest iter log
      (r.1, ⟨r.2.iters + 1, r.2.splits, r.2.merges, r.2.growM⟩)

/-- what the counters satisfy -/
structure LoopSpec (fuel : Nat) (chk : CheckSet) (log : Log R) (res : Cell R × Outcome × Log R)
    (r : (Cell R × Outcome × Log R) × Stats) : Prop where
  same : r.1 = res
  bound : r.2.iters ≤ chk.length + 4 * r.2.splits + r.2.growM
  ops : r.1.2.2.length = log.length + r.2.splits + r.2.merges
  le_fuel : r.2.iters ≤ fuel
  fuelOut : r.1.2.1 = .fuelOut → r.2.iters = fuel

theorem loopI_spec (fuel : Nat) : ∀ (c : Cell R) (chk : CheckSet) (iter : Nat) (log : Log R),
    LoopSpec fuel chk log (refineMesh.loop fn k lminSq lmaxSq fuel c chk iter log)
      (loopI fn k lminSq lmaxSq fuel c chk iter log) := by
  induction fuel with
  | zero =>
    intro c chk iter log
    rw [loop_zero]
    exact ⟨rfl, Nat.zero_le _, rfl, Nat.le_refl _, fun _ => rfl⟩
  | succ fuel ih =>
    intro c chk iter log
    cases chk with
    | nil =>
      rw [loop_stop _ _ _ _ _ _ _ _ _ (Or.inl rfl)]
      refine ⟨rfl, Nat.zero_le _, rfl, Nat.zero_le _, ?_⟩
      intro h; simp only [loopI] at h; split at h <;> cases h
    | cons e rest =>
      by_cases hs : c.edges.length ≤ iter
      · rw [loop_stop _ _ _ _ _ _ _ _ _ (Or.inr hs)]
        simp only [loopI, if_pos hs]
        refine ⟨rfl, Nat.zero_le _, rfl, Nat.zero_le _, ?_⟩
        intro h; simp only at h; split at h <;> cases h
      · rw [loop_cons _ _ _ _ _ _ _ _ _ _ (Nat.lt_of_not_le hs)]
        simp only [loopI, if_neg hs]
        by_cases h1 : lmaxSq < len2 c e
        · simp only [if_pos h1]
          cases hsp : splitEdge fn k.split c e rest with
          | error x =>
            exact ⟨rfl, by simp, rfl, by simp, fun h => by cases h⟩
          | ok r =>
            obtain ⟨c', chk'⟩ := r
            have hl := splitEdge_chk_length hsp
            have := ih c' chk' (iter + 1) ((true, e.n1, e.n2, len2 c e) :: log)
            refine ⟨this.same, ?_, ?_, ?_, ?_⟩
            · have := this.bound; simp only [List.length_cons]; omega
            · have := this.ops; simp only [List.length_cons] at this ⊢; omega
            · have := this.le_fuel; simp only; omega
            · intro h; have := this.fuelOut h; simp only; omega
        · simp only [if_neg h1]
          by_cases h2 : len2 c e < lminSq
          · simp only [if_pos h2]
            cases hcm : canBeMerged c e with
            | error x => exact ⟨rfl, by simp, rfl, by simp, fun h => by cases h⟩
            | ok b =>
              cases b with
              | false =>
                have := ih c rest iter log
                refine ⟨this.same, ?_, this.ops, ?_, ?_⟩
                · have := this.bound; simp only [List.length_cons]; omega
                · have := this.le_fuel; simp only; omega
                · intro h; have := this.fuelOut h; simp only; omega
              | true =>
                simp only
                cases hme : mergeEdge fn k.split c e rest with
                | error x => exact ⟨rfl, by simp, rfl, by simp, fun h => by cases h⟩
                | ok r =>
                  obtain ⟨c', chk'⟩ := r
                  have := ih c' chk' (iter + 1) ((false, e.n1, e.n2, len2 c e) :: log)
                  refine ⟨this.same, ?_, ?_, ?_, ?_⟩
                  · have := this.bound; simp only [List.length_cons]; omega
                  · have := this.ops; simp only [List.length_cons] at this ⊢; omega
                  · have := this.le_fuel; simp only; omega
                  · intro h; have := this.fuelOut h; simp only; omega
          · simp only [if_neg h2]
            have := ih c rest iter log
            refine ⟨this.same, ?_, this.ops, ?_, ?_⟩
            · have := this.bound; simp only [List.length_cons]; omega
            · have := this.le_fuel; simp only; omega
            · intro h; have := this.fuelOut h; simp only; omega

/-! ### the operations of a pass, and what the pass as a whole conserves -/


/-- the operations `refineMesh.loop` performs: (cell it is applied to, edge, split?) in execution order -/
def loopOps : Nat → Cell R → CheckSet → Nat → List (Cell R × Edge × Bool)
  | 0, _, _, _ => []
  | _ + 1, _, [], _ => []
  | fuel + 1, c, e :: rest, iter =>
    if c.edges.length ≤ iter then []
    else if lmaxSq < len2 c e then
      match splitEdge fn k.split c e rest with
      | .error _ => []
      | .ok (c', chk') => (c, e, true) :: loopOps fuel c' chk' (iter + 1)
    else if len2 c e < lminSq then
      match canBeMerged c e with
      | .error _ => []
      | .ok false => loopOps fuel c rest iter
      | .ok true =>
        match mergeEdge fn k.split c e rest with
        | .error _ => []
        | .ok (c', chk') => (c, e, false) :: loopOps fuel c' chk' (iter + 1)
    else loopOps fuel c rest iter

/-- the operated edge joins two distinct live nodes -/
def EdgeLive (c : Cell R) (e : Edge) : Prop := e.n1 ≠ e.n2 ∧ UsedAt c e.n1 ∧ UsedAt c e.n2

/-- a property of cells that every successful split and collapse of a live edge preserves is preserved by the loop -/
theorem loop_preserves (P : Cell R → Cell R → Prop) (Q : Cell R → Edge → Bool → Prop)
    (hQ : ∀ c e b, Q c e b → EdgeLive c e) (hrefl : ∀ c, P c c)
    (htrans : ∀ a b c, P a b → P b c → P a c)
    (hsplit : ∀ c e rest c' chk', FreeOk c → Q c e true → splitEdge fn k.split c e rest = .ok (c', chk') → P c c')
    (hmerge : ∀ c e rest c' chk', FreeOk c → Q c e false → mergeEdge fn k.split c e rest = .ok (c', chk') → P c c')
    (fuel : Nat) : ∀ (c : Cell R) (chk : CheckSet) (iter : Nat) (log : Log R), FreeOk c →
      (∀ op ∈ loopOps fn k lminSq lmaxSq fuel c chk iter, Q op.1 op.2.1 op.2.2) →
      P c (refineMesh.loop fn k lminSq lmaxSq fuel c chk iter log).1
      ∧ FreeOk (refineMesh.loop fn k lminSq lmaxSq fuel c chk iter log).1 := by
  induction fuel with
  | zero => intro c chk iter log hf _; rw [loop_zero]; exact ⟨hrefl c, hf⟩
  | succ fuel ih =>
    intro c chk iter log hf hops
    cases chk with
    | nil => rw [loop_stop _ _ _ _ _ _ _ _ _ (Or.inl rfl)]; exact ⟨hrefl c, hf⟩
    | cons e rest =>
      by_cases hs : c.edges.length ≤ iter
      · rw [loop_stop _ _ _ _ _ _ _ _ _ (Or.inr hs)]; exact ⟨hrefl c, hf⟩
      · rw [loop_cons _ _ _ _ _ _ _ _ _ _ (Nat.lt_of_not_le hs)]
        simp only [loopOps, if_neg hs] at hops
        by_cases h1 : lmaxSq < len2 c e
        · simp only [if_pos h1] at hops ⊢
          cases hsp : splitEdge fn k.split c e rest with
          | error x => exact ⟨hrefl c, hf⟩
          | ok r =>
            obtain ⟨c', chk'⟩ := r
            simp only [hsp] at hops
            have hq : Q c e true := hops _ List.mem_cons_self
            have hl : EdgeLive c e := hQ _ _ _ hq
            have hf' := splitEdge_freeOk hsp hl.1 hf
            have := ih c' chk' (iter + 1) ((true, e.n1, e.n2, len2 c e) :: log) hf'
              (fun op hop => hops op (List.mem_cons_of_mem _ hop))
            exact ⟨htrans _ _ _ (hsplit c e rest c' chk' hf hq hsp) this.1, this.2⟩
        · simp only [if_neg h1] at hops ⊢
          by_cases h2 : len2 c e < lminSq
          · simp only [if_pos h2] at hops ⊢
            cases hcm : canBeMerged c e with
            | error x => exact ⟨hrefl c, hf⟩
            | ok b =>
              cases b with
              | false =>
                simp only [hcm] at hops
                exact ih c rest iter log hf hops
              | true =>
                simp only [hcm] at hops ⊢
                cases hme : mergeEdge fn k.split c e rest with
                | error x => exact ⟨hrefl c, hf⟩
                | ok r =>
                  obtain ⟨c', chk'⟩ := r
                  simp only [hme] at hops
                  have hq : Q c e false := hops _ List.mem_cons_self
                  have hl : EdgeLive c e := hQ _ _ _ hq
                  have hf' := mergeEdge_freeOk hme hl.1 hl.2.1 hl.2.2 hf
                  have := ih c' chk' (iter + 1) ((false, e.n1, e.n2, len2 c e) :: log) hf'
                    (fun op hop => hops op (List.mem_cons_of_mem _ hop))
                  exact ⟨htrans _ _ _ (hmerge c e rest c' chk' hf hq hme) this.1, this.2⟩
          · simp only [if_neg h2] at hops ⊢
            exact ih c rest iter log hf hops

/-- the growth of the check set caused by the collapses of a run is bounded by the operation counts and the size of
    the face array at the start -/
theorem loopI_growM (fuel : Nat) : ∀ (c : Cell R) (chk : CheckSet) (iter : Nat) (log : Log R),
    (loopI fn k lminSq lmaxSq fuel c chk iter log).2.growM ≤
      (loopI fn k lminSq lmaxSq fuel c chk iter log).2.merges *
        (2 * (c.faces.size + 4 * (loopI fn k lminSq lmaxSq fuel c chk iter log).2.splits + 2)) := by
  induction fuel with
  | zero => intro c chk iter log; simp [loopI, Stats.zero]
  | succ fuel ih =>
    intro c chk iter log
    cases chk with
    | nil => simp [loopI, Stats.zero]
    | cons e rest =>
      by_cases hs : c.edges.length ≤ iter
      · simp [loopI, if_pos hs, Stats.zero]
      · simp only [loopI, if_neg hs]
        by_cases h1 : lmaxSq < len2 c e
        · simp only [if_pos h1]
          cases hsp : splitEdge fn k.split c e rest with
          | error x => simp
          | ok r =>
            obtain ⟨c', chk'⟩ := r
            have hF := splitEdge_facesSize hsp
            have := ih c' chk' (iter + 1) ((true, e.n1, e.n2, len2 c e) :: log)
            simp only
            refine Nat.le_trans this (Nat.mul_le_mul_left _ ?_)
            omega
        · simp only [if_neg h1]
          by_cases h2 : len2 c e < lminSq
          · simp only [if_pos h2]
            cases hcm : canBeMerged c e with
            | error x => simp
            | ok b =>
              cases b with
              | false => exact ih c rest iter log
              | true =>
                simp only
                cases hme : mergeEdge fn k.split c e rest with
                | error x => simp
                | ok r =>
                  obtain ⟨c', chk'⟩ := r
                  have hsz := mergeEdge_sizes hme
                  have := ih c' chk' (iter + 1) ((false, e.n1, e.n2, len2 c e) :: log)
                  rw [hsz.1] at this
                  simp only
                  rw [Nat.succ_mul]
                  refine Nat.add_le_add this ?_
                  have := hsz.2
                  omega
          · simp only [if_neg h2]
            exact ih c rest iter log
end Simu.C11
