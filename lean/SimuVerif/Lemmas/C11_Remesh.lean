import SimuVerif.Lemmas.Field
import SimuVerif.Gen.RemeshConsts
/-
  C11 — helper lemmas about the executable remeshing model `Model/Remesh.lean`:
  the node store (slot array + LIFO free list) seen through `splitEdge` / `mergeEdge`,
  and the control structure of `refineMesh.loop`.
-/
set_option linter.unusedSectionVars false
set_option linter.unusedVariables false
namespace Simu.C11
open Simu Simu.Remesh

theorem bind_ok {ε α β : Type} {x : Except ε α} {f : α → Except ε β} {b : β}
    (h : (x >>= f) = .ok b) : ∃ a, x = .ok a ∧ f a = .ok b := by
  cases x with
  | error e => cases h
  | ok a => exact ⟨a, rfl, h⟩

theorem optOk {ε α : Type} {o : Option α} {err : ε} {v : α}
    (h : (match o with | some x => Except.ok x | none => Except.error err) = .ok v) : o = some v := by
  cases o with
  | none => cases h
  | some x => cases h; rfl

variable {R : Type} [Field R] [LinearOrder R] [IsStrictOrderedRing R]

def SameNodes (c c' : Cell R) : Prop := c'.nodes = c.nodes ∧ c'.freeNodes = c.freeNodes

theorem SameNodes.trans {a b c : Cell R} (h1 : SameNodes a b) (h2 : SameNodes b c) : SameNodes a c :=
  ⟨h2.1.trans h1.1, h2.2.trans h1.2⟩

theorem sameNodes_updFaceGeom (fn : Fn R) (c : Cell R) (fid : Nat) : SameNodes c (updFaceGeom fn c fid) := by
  unfold updFaceGeom
  split
  · exact ⟨rfl, rfl⟩
  · exact ⟨rfl, rfl⟩

theorem sameNodes_setFaceType (c : Cell R) (fid t : Nat) : SameNodes c (setFaceType c fid t) := by
  unfold setFaceType
  split
  · exact ⟨rfl, rfl⟩
  · exact ⟨rfl, rfl⟩

theorem sameNodes_deleteFace {c c' : Cell R} {fid : Nat} (h : deleteFace c fid = .ok c') : SameNodes c c' := by
  unfold deleteFace at h
  split at h
  · cases h
  · obtain ⟨s1, _, h⟩ := bind_ok h
    obtain ⟨s2, _, h⟩ := bind_ok h
    obtain ⟨s3, _, h⟩ := bind_ok h
    cases h
    exact ⟨rfl, rfl⟩


theorem sameNodes_addFace {fn : Fn R} {c c' : Cell R} {a b d fid : Nat}
    (h : addFace fn c a b d = .ok (c', fid)) : SameNodes c c' := by
  unfold addFace at h
  cases hff : c.freeFaces with
  | nil =>
    simp only [hff] at h
    obtain ⟨s4, _, h⟩ := bind_ok h
    obtain ⟨s5, _, h⟩ := bind_ok h
    obtain ⟨s6, _, h⟩ := bind_ok h
    cases h
    exact (sameNodes_updFaceGeom fn _ _)
  | cons i rest =>
    simp only [hff] at h
    obtain ⟨s4, _, h⟩ := bind_ok h
    obtain ⟨s5, _, h⟩ := bind_ok h
    obtain ⟨s6, _, h⟩ := bind_ok h
    cases h
    exact (sameNodes_updFaceGeom fn _ _)

/-- the node store after the node part of `split_edge` -/
def splitNodes (k : SplitConsts R) (c : Cell R) (a b : Nat) (na nb : Node R) : Cell R × Nat :=
  addNode { c with nodes := (c.nodes.set! a { na with mom := na.mom * k.keep }).set! b { nb with mom := nb.mom * k.keep } }
    ((nb.pos + na.pos) * k.mid) ((na.mom + nb.mom) / k.giveDiv)

theorem two_addFace {fn : Fn R} {c : Cell R} {o : Bool} {p q r s t u v w x y z a' : Nat} {res : Cell R × Nat × Nat}
    (h : (if o = true then do
              let __x ← addFace fn c p q r
              match __x with
                | (c, f3) => do
                  let __x ← addFace fn c s t u
                  match __x with
                    | (c, f5) => pure (c, f3, f5)
            else do
              let __x ← addFace fn c v w x
              match __x with
                | (c, f3) => do
                  let __x ← addFace fn c y z a'
                  match __x with
                    | (c, f5) => pure (c, f3, f5) : Except Err (Cell R × Nat × Nat)) = .ok res) : SameNodes c res.1 := by
  split at h
  all_goals
    obtain ⟨⟨c1, f3⟩, h1, h⟩ := bind_ok h
    obtain ⟨⟨c2, f5⟩, h2, h⟩ := bind_ok h
    cases h
    exact (sameNodes_addFace h1).trans (sameNodes_addFace h2)

theorem splitEdge_nodes {fn : Fn R} {k : SplitConsts R} {c c' : Cell R} {e : Edge} {chk chk' : CheckSet}
    (h : splitEdge fn k c e chk = .ok (c', chk')) :
    ∃ na nb, c.nodes[e.n1]? = some na ∧ c.nodes[e.n2]? = some nb ∧
      SameNodes (splitNodes k c e.n1 e.n2 na nb).1 c' := by
  unfold splitEdge at h
  simp only [] at h
  obtain ⟨f1id, _, h⟩ := bind_ok h
  obtain ⟨f2id, _, h⟩ := bind_ok h
  obtain ⟨f1, _, h⟩ := bind_ok h
  obtain ⟨f2, _, h⟩ := bind_ok h
  obtain ⟨na, hna, h⟩ := bind_ok h
  obtain ⟨nb, hnb, h⟩ := bind_ok h
  obtain ⟨cc, _, h⟩ := bind_ok h
  obtain ⟨dd, _, h⟩ := bind_ok h
  have hna' : c.nodes[e.n1]? = some na := by
    cases hq : c.nodes[e.n1]? <;> simp [hq] at hna; simp [hna]
  have hnb' : c.nodes[e.n2]? = some nb := by
    cases hq : c.nodes[e.n2]? <;> simp [hq] at hnb; simp [hnb]
  refine ⟨na, nb, hna', hnb', ?_⟩
  unfold splitNodes
  obtain ⟨c2, h2, h⟩ := bind_ok h
  obtain ⟨c3, h3, h⟩ := bind_ok h
  obtain ⟨⟨c4, f3, f5⟩, h4, h⟩ := bind_ok h
  obtain ⟨⟨c5, f4, f6⟩, h5, h⟩ := bind_ok h
  simp only [] at h
  obtain ⟨eea, _, h⟩ := bind_ok h
  obtain ⟨eeb, _, h⟩ := bind_ok h
  obtain ⟨eec, _, h⟩ := bind_ok h
  obtain ⟨eed, _, h⟩ := bind_ok h
  cases h
  refine (sameNodes_deleteFace h2).trans <| (sameNodes_deleteFace h3).trans <| (two_addFace h4).trans <|
    (two_addFace h5).trans ?_
  exact (sameNodes_setFaceType _ _ _).trans <| (sameNodes_setFaceType _ _ _).trans <|
    (sameNodes_setFaceType _ _ _).trans (sameNodes_setFaceType _ _ _)

theorem sameNodes_replaceLoop {fn : Fn R} {start : Edge} {old new : Nat} (fuel : Nat) :
    ∀ {c : Cell R} {cur : Option Edge} {faceId : Nat} {del cre : List Edge} {r : Cell R × List Edge × List Edge},
      replaceNode.loop fn start old new fuel c cur faceId del cre = .ok r → SameNodes c r.1 := by
  induction fuel with
  | zero => intro c cur faceId del cre r h; unfold replaceNode.loop at h; cases h
  | succ fuel ih =>
    intro c cur faceId del cre r h
    unfold replaceNode.loop at h
    cases cur with
    | none => cases h
    | some e =>
      simp only [] at h
      obtain ⟨fid1, _, h⟩ := bind_ok h
      obtain ⟨f, _, h⟩ := bind_ok h
      obtain ⟨ef1, _, h⟩ := bind_ok h
      obtain ⟨ef2, _, h⟩ := bind_ok h
      obtain ⟨x, _, h⟩ := bind_ok h
      obtain ⟨f', _, h⟩ := bind_ok h
      split at h
      · cases h
        exact ⟨(sameNodes_updFaceGeom fn _ _).1, (sameNodes_updFaceGeom fn _ _).2⟩
      · split at h
        · cases h
          exact ⟨(sameNodes_updFaceGeom fn _ _).1, (sameNodes_updFaceGeom fn _ _).2⟩
        · have := ih h
          exact ⟨this.1.trans (sameNodes_updFaceGeom fn _ _).1, this.2.trans (sameNodes_updFaceGeom fn _ _).2⟩

theorem replaceNode_nodes {fn : Fn R} {c c' : Cell R} {start : Edge} {old new : Nat} {del cre : List Edge}
    (h : replaceNode fn c start old new = .ok (c', del, cre)) :
    SameNodes (deleteNode c old) c' := by
  unfold replaceNode at h
  obtain ⟨sf1, _, h⟩ := bind_ok h
  obtain ⟨⟨c1, d1, cr1⟩, h1, h⟩ := bind_ok h
  cases h
  have := sameNodes_replaceLoop _ h1
  simp only at this
  unfold deleteNode
  exact ⟨by simp only [this.1], by simp only [this.2]⟩

/-! ### sums over the slot array -/
theorem sum_map_set {α : Type} (g : α → R) : ∀ (l : List α) (i : Nat) (v : α) (h : i < l.length),
    ((l.set i v).map g).sum = (l.map g).sum - g l[i] + g v
  | x :: xs, 0, v, _ => by simp; ring
  | x :: xs, i+1, v, h => by
    have := sum_map_set g xs i v (by simpa using h)
    simp only [List.set_cons_succ, List.map_cons, List.sum_cons, this, List.getElem_cons_succ]; ring

def wC (π : V3 R → R) (n : Node R) : R := if n.used then π n.mom else 0
def momC (π : V3 R → R) (ns : Array (Node R)) : R := (ns.toList.map (wC π)).sum

theorem momC_set (π : V3 R → R) (ns : Array (Node R)) (i : Nat) (v old : Node R) (h : ns[i]? = some old) :
    momC π (ns.set! i v) = momC π ns - wC π old + wC π v := by
  obtain ⟨hi, rfl⟩ := Array.getElem?_eq_some_iff.1 h
  unfold momC
  simp only [Array.set!_eq_setIfInBounds, Array.toList_setIfInBounds]
  rw [sum_map_set _ _ _ _ (by simpa using hi)]
  simp

theorem momC_push (π : V3 R → R) (ns : Array (Node R)) (v : Node R) :
    momC π (ns.push v) = momC π ns + wC π v := by
  unfold momC; simp

theorem get_set_ne (ns : Array (Node R)) (i j : Nat) (v : Node R) (h : i ≠ j) : (ns.set! i v)[j]? = ns[j]? := by
  simp [h]

theorem get_set_eq (ns : Array (Node R)) (i : Nat) (v : Node R) (h : i < ns.size) : (ns.set! i v)[i]? = some v := by
  simp [h]

theorem set_oob (ns : Array (Node R)) (i : Nat) (v : Node R) (h : ns.size ≤ i) : ns.set! i v = ns := by
  simp [Array.setIfInBounds, h]

/-! ### merge: node part -/

theorem SameNodes.deleteNode {x y : Cell R} (h : SameNodes x y) (i : Nat) :
    SameNodes (deleteNode x i) (deleteNode y i) := by
  unfold Remesh.deleteNode
  exact ⟨by simp only [h.1], by simp only [h.2]⟩

/-- the node store after the node part of `merge_edge` -/
def mergeNodes (k : SplitConsts R) (c : Cell R) (a b : Nat) (na nb : Node R) : Cell R × Nat :=
  let r := addNode c ((nb.pos + na.pos) * k.mid) (na.mom + nb.mom)
  (deleteNode (deleteNode r.1 a) b, r.2)

theorem mergeEdge_nodes {fn : Fn R} {k : SplitConsts R} {c c' : Cell R} {e : Edge} {chk chk' : CheckSet}
    (h : mergeEdge fn k c e chk = .ok (c', chk')) :
    ∃ na nb, c.nodes[e.n1]? = some na ∧ c.nodes[e.n2]? = some nb ∧
      SameNodes (mergeNodes k c e.n1 e.n2 na nb).1 c' := by
  unfold mergeEdge at h
  simp only [] at h
  obtain ⟨f1id, _, h⟩ := bind_ok h
  obtain ⟨f2id, _, h⟩ := bind_ok h
  obtain ⟨na, hna, h⟩ := bind_ok h
  obtain ⟨nb, hnb, h⟩ := bind_ok h
  have hna' : c.nodes[e.n1]? = some na := by
    cases hq : c.nodes[e.n1]? <;> simp [hq] at hna; simp [hna]
  have hnb' : c.nodes[e.n2]? = some nb := by
    cases hq : c.nodes[e.n2]? <;> simp [hq] at hnb; simp [hnb]
  refine ⟨na, nb, hna', hnb', ?_⟩
  obtain ⟨⟨c2, delA, creA⟩, h2, h⟩ := bind_ok h
  obtain ⟨ebi, _, h⟩ := bind_ok h
  obtain ⟨⟨c3, delB, creB⟩, h3, h⟩ := bind_ok h
  obtain ⟨c4, h4, h⟩ := bind_ok h
  obtain ⟨c5, h5, h⟩ := bind_ok h
  cases h
  unfold mergeNodes
  exact (((replaceNode_nodes h2).deleteNode _).trans (replaceNode_nodes h3)).trans
    ((sameNodes_deleteFace h4).trans (sameNodes_deleteFace h5))

/-! ### the slot-store invariant -/

/-- every id of the free list is a slot of the array, that slot is unused, and no id is queued twice -/
structure FreeOk (c : Cell R) : Prop where
  free : ∀ i ∈ c.freeNodes, ∃ n, c.nodes[i]? = some n ∧ n.used = false
  nodup : c.freeNodes.Nodup

theorem FreeOk.of_sameNodes {c c' : Cell R} (h : SameNodes c c') (hf : FreeOk c) : FreeOk c' := by
  obtain ⟨h1, h2⟩ := h
  exact ⟨by rw [h1, h2]; exact hf.free, by rw [h2]; exact hf.nodup⟩

/-- slot `i` holds a live node -/
def UsedAt (c : Cell R) (i : Nat) : Prop := ∃ n, c.nodes[i]? = some n ∧ n.used = true

theorem FreeOk.not_mem_of_used {c : Cell R} (hf : FreeOk c) {i : Nat} (hu : UsedAt c i) : i ∉ c.freeNodes := by
  intro hm
  obtain ⟨n, hn, hnu⟩ := hf.free i hm
  obtain ⟨m, hm', hmu⟩ := hu
  rw [hn] at hm'; cases hm'; rw [hnu] at hmu; cases hmu

/-- the slot `add_node` will use -/
def newSlot (c : Cell R) : Nat :=
  match c.freeNodes with
  | i :: _ => i
  | [] => c.nodes.size

theorem addNode_snd (c : Cell R) (p m : V3 R) : (addNode c p m).2 = newSlot c := by
  unfold addNode newSlot; cases c.freeNodes <;> rfl

theorem newSlot_not_used {c : Cell R} (hf : FreeOk c) {i : Nat} (hu : UsedAt c i) : i ≠ newSlot c := by
  unfold newSlot
  cases hfr : c.freeNodes with
  | nil =>
    obtain ⟨n, hn, _⟩ := hu
    have := (Array.getElem?_eq_some_iff.1 hn).1
    simp only; omega
  | cons j rest =>
    have := hf.not_mem_of_used hu
    rw [hfr] at this
    simp only
    intro h; exact this (by simp [h])

theorem addNode_freeOk {c : Cell R} (hf : FreeOk c) (p m : V3 R) : FreeOk (addNode c p m).1 := by
  unfold addNode
  cases hfr : c.freeNodes with
  | nil => exact ⟨by simp, by simp⟩
  | cons j rest =>
    have hnd := hf.nodup; rw [hfr] at hnd
    have hjr : j ∉ rest := (List.nodup_cons.1 hnd).1
    refine ⟨?_, (List.nodup_cons.1 hnd).2⟩
    intro i hi
    have hij : j ≠ i := fun h => hjr (h ▸ hi)
    obtain ⟨n, hn, hnu⟩ := hf.free i (by rw [hfr]; exact List.mem_cons_of_mem _ hi)
    exact ⟨n, by simp only [get_set_ne _ _ _ _ hij, hn], hnu⟩

theorem deleteNode_freeOk {c : Cell R} (hf : FreeOk c) {i : Nat} (hu : UsedAt c i) : FreeOk (deleteNode c i) := by
  have hni := hf.not_mem_of_used hu
  obtain ⟨n0, hn0, _⟩ := hu
  have hi := (Array.getElem?_eq_some_iff.1 hn0).1
  unfold deleteNode
  refine ⟨?_, List.nodup_cons.2 ⟨hni, hf.nodup⟩⟩
  intro j hj
  by_cases hij : i = j
  · subst hij
    exact ⟨_, get_set_eq _ _ _ hi, rfl⟩
  · rcases List.mem_cons.1 hj with h | h
    · exact absurd h.symm hij
    · obtain ⟨n, hn, hnu⟩ := hf.free j h
      exact ⟨n, by simp only [get_set_ne _ _ _ _ hij, hn], hnu⟩

/-- overwriting a slot without changing its `used` flag keeps the invariant -/
theorem setNode_freeOk {c : Cell R} (hf : FreeOk c) {i : Nat} {old v : Node R} (ho : c.nodes[i]? = some old)
    (hv : v.used = old.used) : FreeOk { c with nodes := c.nodes.set! i v } := by
  have hi := (Array.getElem?_eq_some_iff.1 ho).1
  refine ⟨?_, hf.nodup⟩
  intro j hj
  obtain ⟨n, hn, hnu⟩ := hf.free j hj
  by_cases hij : i = j
  · subst hij
    rw [ho] at hn; cases hn
    exact ⟨v, get_set_eq _ _ _ hi, by rw [hv, hnu]⟩
  · exact ⟨n, by simp only [get_set_ne _ _ _ _ hij, hn], hnu⟩

theorem usedAt_setNode {c : Cell R} {i j : Nat} {v : Node R} (hv : v.used = true) (hu : UsedAt c j) :
    UsedAt { c with nodes := c.nodes.set! i v } j := by
  obtain ⟨n, hn, hnu⟩ := hu
  have hj := (Array.getElem?_eq_some_iff.1 hn).1
  by_cases hij : i = j
  · subst hij; exact ⟨v, get_set_eq _ _ _ hj, hv⟩
  · exact ⟨n, by simp only [get_set_ne _ _ _ _ hij, hn], hnu⟩

/-! ### momentum sums through `add_node` / `delete_node` -/

theorem addNode_momC (π : V3 R → R) {c : Cell R} (hf : FreeOk c) (p m : V3 R) :
    momC π (addNode c p m).1.nodes = momC π c.nodes + π m := by
  unfold addNode
  cases hfr : c.freeNodes with
  | nil => simp only [momC_push]; simp [wC]
  | cons j rest =>
    obtain ⟨n, hn, hnu⟩ := hf.free j (by rw [hfr]; exact List.mem_cons_self)
    simp only [momC_set π _ _ _ _ hn]
    simp [wC, hnu]

theorem deleteNode_momC (π : V3 R → R) {c : Cell R} {i : Nat} {n : Node R} (hn : c.nodes[i]? = some n) :
    momC π (deleteNode c i).nodes = momC π c.nodes - wC π n := by
  unfold deleteNode
  simp only [momC_set π _ _ _ _ hn]
  simp [wC]

/-! ### total momentum of the live nodes -/

/-- a coordinate projection: commutes with the vector operations used by `split_edge` -/
structure LinProj (π : V3 R → R) : Prop where
  add : ∀ u v, π (u + v) = π u + π v
  smul : ∀ u (k : R), π (u * k) = π u * k
  sdiv : ∀ u (k : R), π (u / k) = π u / k

theorem linProj_x : LinProj (V3.x : V3 R → R) := ⟨fun _ _ => rfl, fun _ _ => rfl, fun _ _ => rfl⟩
theorem linProj_y : LinProj (V3.y : V3 R → R) := ⟨fun _ _ => rfl, fun _ _ => rfl, fun _ _ => rfl⟩
theorem linProj_z : LinProj (V3.z : V3 R → R) := ⟨fun _ _ => rfl, fun _ _ => rfl, fun _ _ => rfl⟩

/-- total momentum of a cell: the sum of `mom` over the USED slots of the node array -/
def totalMom (c : Cell R) : V3 R := ⟨momC V3.x c.nodes, momC V3.y c.nodes, momC V3.z c.nodes⟩

theorem totalMom_of_sameNodes {c c' : Cell R} (h : SameNodes c c') : totalMom c' = totalMom c := by
  unfold totalMom; rw [h.1]

def setN (c : Cell R) (i : Nat) (v : Node R) : Cell R := { c with nodes := c.nodes.set! i v }

theorem splitNodes_eq (k : SplitConsts R) (c : Cell R) (a b : Nat) (na nb : Node R) :
    splitNodes k c a b na nb =
      addNode (setN (setN c a { na with mom := na.mom * k.keep }) b { nb with mom := nb.mom * k.keep })
        ((nb.pos + na.pos) * k.mid) ((na.mom + nb.mom) / k.giveDiv) := rfl

theorem splitNodes_freeOk (k : SplitConsts R) {c : Cell R} {a b : Nat} {na nb : Node R}
    (ha : c.nodes[a]? = some na) (hb : c.nodes[b]? = some nb) (hab : a ≠ b) (hf : FreeOk c) :
    FreeOk (splitNodes k c a b na nb).1 := by
  rw [splitNodes_eq]
  apply addNode_freeOk
  have h1 : FreeOk (setN c a { na with mom := na.mom * k.keep }) := setNode_freeOk hf ha rfl
  have hb1 : (setN c a { na with mom := na.mom * k.keep }).nodes[b]? = some nb := by
    show (c.nodes.set! a _)[b]? = some nb
    rw [get_set_ne _ _ _ _ hab, hb]
  exact setNode_freeOk h1 hb1 rfl

theorem splitNodes_momC {π : V3 R → R} (hπ : LinProj π) (k : SplitConsts R)
    (hk : ∀ x y : R, x * k.keep + y * k.keep + (x + y) / k.giveDiv = x + y)
    {c : Cell R} {a b : Nat} {na nb : Node R}
    (ha : c.nodes[a]? = some na) (hb : c.nodes[b]? = some nb) (hua : na.used = true) (hub : nb.used = true)
    (hab : a ≠ b) (hf : FreeOk c) :
    momC π (splitNodes k c a b na nb).1.nodes = momC π c.nodes := by
  rw [splitNodes_eq]
  have h1 : FreeOk (setN c a { na with mom := na.mom * k.keep }) := setNode_freeOk hf ha rfl
  have hb1 : (setN c a { na with mom := na.mom * k.keep }).nodes[b]? = some nb := by
    show (c.nodes.set! a _)[b]? = some nb
    rw [get_set_ne _ _ _ _ hab, hb]
  have h2 : FreeOk (setN (setN c a { na with mom := na.mom * k.keep }) b { nb with mom := nb.mom * k.keep }) :=
    setNode_freeOk h1 hb1 rfl
  rw [addNode_momC π h2]
  show momC π ((setN c a _).nodes.set! b _) + _ = _
  rw [momC_set π _ _ _ _ hb1]
  show momC π (c.nodes.set! a _) - _ + _ + _ = _
  rw [momC_set π _ _ _ _ ha]
  simp only [wC, hua, hub, if_true, hπ.add, hπ.smul, hπ.sdiv]
  have := hk (π na.mom) (π nb.mom)
  linarith

theorem get_push_ne (ns : Array (Node R)) (v : Node R) {j : Nat} (h : j ≠ ns.size) : (ns.push v)[j]? = ns[j]? := by
  simp only [Array.getElem?_push]
  split
  · exact absurd (by assumption) h
  · rfl

theorem addNode_get_ne (c : Cell R) (p m : V3 R) {j : Nat} (h : j ≠ newSlot c) :
    (addNode c p m).1.nodes[j]? = c.nodes[j]? := by
  unfold addNode; unfold newSlot at h
  cases hfr : c.freeNodes with
  | nil => rw [hfr] at h; exact get_push_ne _ _ h
  | cons i rest => rw [hfr] at h; exact get_set_ne _ _ _ _ (Ne.symm h)

theorem mergeNodes_momC (π : V3 R → R) (hadd : ∀ u v, π (u + v) = π u + π v) (k : SplitConsts R)
    {c : Cell R} {a b : Nat} {na nb : Node R}
    (ha : c.nodes[a]? = some na) (hb : c.nodes[b]? = some nb) (hua : na.used = true) (hub : nb.used = true)
    (hab : a ≠ b) (hf : FreeOk c) :
    momC π (mergeNodes k c a b na nb).1.nodes = momC π c.nodes := by
  unfold mergeNodes
  simp only
  have hia : a ≠ newSlot c := newSlot_not_used hf ⟨na, ha, hua⟩
  have hib : b ≠ newSlot c := newSlot_not_used hf ⟨nb, hb, hub⟩
  have ha1 : (addNode c ((nb.pos + na.pos) * k.mid) (na.mom + nb.mom)).1.nodes[a]? = some na := by
    rw [addNode_get_ne _ _ _ hia, ha]
  have hb1 : (deleteNode (addNode c ((nb.pos + na.pos) * k.mid) (na.mom + nb.mom)).1 a).nodes[b]? = some nb := by
    show (Array.set! _ a _)[b]? = some nb
    rw [get_set_ne _ _ _ _ hab, addNode_get_ne _ _ _ hib, hb]
  rw [deleteNode_momC π hb1, deleteNode_momC π ha1, addNode_momC π hf]
  simp only [wC, hua, hub, if_true, hadd]
  ring

theorem mergeNodes_freeOk (k : SplitConsts R) {c : Cell R} {a b : Nat} {na nb : Node R}
    (ha : c.nodes[a]? = some na) (hb : c.nodes[b]? = some nb) (hua : na.used = true) (hub : nb.used = true)
    (hab : a ≠ b) (hf : FreeOk c) :
    FreeOk (mergeNodes k c a b na nb).1 := by
  unfold mergeNodes
  simp only
  have hia : a ≠ newSlot c := newSlot_not_used hf ⟨na, ha, hua⟩
  have hib : b ≠ newSlot c := newSlot_not_used hf ⟨nb, hb, hub⟩
  have ha1 : (addNode c ((nb.pos + na.pos) * k.mid) (na.mom + nb.mom)).1.nodes[a]? = some na := by
    rw [addNode_get_ne _ _ _ hia, ha]
  have hb1 : (deleteNode (addNode c ((nb.pos + na.pos) * k.mid) (na.mom + nb.mom)).1 a).nodes[b]? = some nb := by
    show (Array.set! _ a _)[b]? = some nb
    rw [get_set_ne _ _ _ _ hab, addNode_get_ne _ _ _ hib, hb]
  exact deleteNode_freeOk (deleteNode_freeOk (addNode_freeOk hf _ _) ⟨na, ha1, hua⟩) ⟨nb, hb1, hub⟩

/-! ### positions -/

theorem posOf_congr {c c' : Cell R} (h : c'.nodes = c.nodes) (j : Nat) : posOf c' j = posOf c j := by
  unfold posOf; rw [h]

theorem posOf_of_get {c c' : Cell R} {j : Nat} (h : c'.nodes[j]? = c.nodes[j]?) : posOf c' j = posOf c j := by
  unfold posOf; rw [h]

theorem posOf_of_some {c : Cell R} {j : Nat} {n : Node R} (h : c.nodes[j]? = some n) : posOf c j = n.pos := by
  unfold posOf; rw [h]

theorem posOf_setN_samePos {c : Cell R} {i : Nat} {old v : Node R} (ho : c.nodes[i]? = some old)
    (hv : v.pos = old.pos) (j : Nat) : posOf (setN c i v) j = posOf c j := by
  have hi := (Array.getElem?_eq_some_iff.1 ho).1
  by_cases hij : i = j
  · subst hij
    rw [posOf_of_some ho, posOf_of_some (c := setN c i v) (get_set_eq _ _ _ hi), hv]
  · exact posOf_of_get (get_set_ne _ _ _ _ hij)

theorem addNode_posOf_ne (c : Cell R) (p m : V3 R) {j : Nat} (h : j ≠ newSlot c) :
    posOf (addNode c p m).1 j = posOf c j := posOf_of_get (addNode_get_ne c p m h)

theorem addNode_posOf_new {c : Cell R} (hf : FreeOk c) (p m : V3 R) :
    posOf (addNode c p m).1 (newSlot c) = p := by
  unfold addNode newSlot
  cases hfr : c.freeNodes with
  | nil =>
    simp only
    exact posOf_of_some (c := { c with nodes := c.nodes.push ⟨p, m, true⟩ }) (n := ⟨p, m, true⟩) (by simp)
  | cons i rest =>
    obtain ⟨n, hn, _⟩ := hf.free i (by rw [hfr]; exact List.mem_cons_self)
    have hi := (Array.getElem?_eq_some_iff.1 hn).1
    simp only
    exact posOf_of_some (c := { c with nodes := c.nodes.set! i ⟨p, m, true⟩, freeNodes := rest })
      (n := ⟨p, m, true⟩) (get_set_eq _ _ _ hi)

theorem newSlot_setN (c : Cell R) (i : Nat) (v : Node R) : newSlot (setN c i v) = newSlot c := by
  unfold newSlot setN; simp

theorem splitNodes_snd (k : SplitConsts R) (c : Cell R) (a b : Nat) (na nb : Node R) :
    (splitNodes k c a b na nb).2 = newSlot c := by
  rw [splitNodes_eq, addNode_snd, newSlot_setN, newSlot_setN]

theorem splitNodes_posOf_ne (k : SplitConsts R) {c : Cell R} {a b : Nat} {na nb : Node R}
    (ha : c.nodes[a]? = some na) (hb : c.nodes[b]? = some nb) {j : Nat} (hj : j ≠ newSlot c) :
    posOf (splitNodes k c a b na nb).1 j = posOf c j := by
  rw [splitNodes_eq]
  have hb1 : (setN c a { na with mom := na.mom * k.keep }).nodes[b]? =
      some (if a = b then { na with mom := na.mom * k.keep } else nb) := by
    have hi := (Array.getElem?_eq_some_iff.1 ha).1
    by_cases hab : a = b
    · subst hab; simp only [if_true]; exact get_set_eq _ _ _ hi
    · simp only [if_neg hab]
      show (c.nodes.set! a _)[b]? = some nb
      rw [get_set_ne _ _ _ _ hab, hb]
  have hpos : nb.pos = (if a = b then ({ na with mom := na.mom * k.keep } : Node R) else nb).pos := by
    by_cases hab : a = b
    · subst hab; rw [ha] at hb; cases hb; simp
    · simp [hab]
  rw [addNode_posOf_ne _ _ _ (by rw [newSlot_setN, newSlot_setN]; exact hj),
    posOf_setN_samePos hb1 (v := { nb with mom := nb.mom * k.keep }) hpos, posOf_setN_samePos ha (v := { na with mom := na.mom * k.keep }) rfl]

theorem splitNodes_posOf_new (k : SplitConsts R) {c : Cell R} {a b : Nat} {na nb : Node R}
    (ha : c.nodes[a]? = some na) (hb : c.nodes[b]? = some nb) (hab : a ≠ b) (hf : FreeOk c) :
    posOf (splitNodes k c a b na nb).1 (newSlot c) = (posOf c b + posOf c a) * k.mid := by
  rw [splitNodes_eq]
  have h1 : FreeOk (setN c a { na with mom := na.mom * k.keep }) := setNode_freeOk hf ha rfl
  have hb1 : (setN c a { na with mom := na.mom * k.keep }).nodes[b]? = some nb := by
    show (c.nodes.set! a _)[b]? = some nb
    rw [get_set_ne _ _ _ _ hab, hb]
  have h2 : FreeOk (setN (setN c a { na with mom := na.mom * k.keep }) b { nb with mom := nb.mom * k.keep }) :=
    setNode_freeOk h1 hb1 rfl
  have := addNode_posOf_new h2 ((nb.pos + na.pos) * k.mid) ((na.mom + nb.mom) / k.giveDiv)
  rw [newSlot_setN, newSlot_setN] at this
  rw [posOf_of_some ha, posOf_of_some hb]
  exact this

theorem deleteNode_posOf_ne (c : Cell R) {i j : Nat} (h : i ≠ j) : posOf (deleteNode c i) j = posOf c j :=
  posOf_of_get (get_set_ne _ _ _ _ h)

theorem deleteNode_posOf_self (c : Cell R) (i : Nat) : posOf (deleteNode c i) i = zeroV := by
  by_cases hi : i < c.nodes.size
  · exact posOf_of_some (c := deleteNode c i) (n := ⟨zeroV, zeroV, false⟩) (get_set_eq _ _ _ hi)
  · unfold posOf deleteNode
    simp only [set_oob _ _ _ (Nat.le_of_not_lt hi)]
    rw [Array.getElem?_eq_none (Nat.le_of_not_lt hi)]

theorem mergeNodes_snd (k : SplitConsts R) (c : Cell R) (a b : Nat) (na nb : Node R) :
    (mergeNodes k c a b na nb).2 = newSlot c := by
  unfold mergeNodes; simp only [addNode_snd]

theorem mergeNodes_posOf_ne (k : SplitConsts R) (c : Cell R) (a b : Nat) (na nb : Node R) {j : Nat}
    (hj : j ≠ newSlot c) (hja : j ≠ a) (hjb : j ≠ b) :
    posOf (mergeNodes k c a b na nb).1 j = posOf c j := by
  unfold mergeNodes
  simp only
  rw [deleteNode_posOf_ne _ (Ne.symm hjb), deleteNode_posOf_ne _ (Ne.symm hja), addNode_posOf_ne _ _ _ hj]

theorem mergeNodes_posOf_new (k : SplitConsts R) {c : Cell R} {a b : Nat} {na nb : Node R}
    (ha : c.nodes[a]? = some na) (hb : c.nodes[b]? = some nb) (hua : na.used = true) (hub : nb.used = true)
    (hf : FreeOk c) :
    posOf (mergeNodes k c a b na nb).1 (newSlot c) = (posOf c b + posOf c a) * k.mid := by
  have hia : a ≠ newSlot c := newSlot_not_used hf ⟨na, ha, hua⟩
  have hib : b ≠ newSlot c := newSlot_not_used hf ⟨nb, hb, hub⟩
  unfold mergeNodes
  simp only
  rw [deleteNode_posOf_ne _ hib, deleteNode_posOf_ne _ hia, addNode_posOf_new hf, posOf_of_some ha, posOf_of_some hb]

theorem mergeNodes_posOf_old (k : SplitConsts R) (c : Cell R) (a b : Nat) (na nb : Node R) :
    posOf (mergeNodes k c a b na nb).1 a = zeroV ∧ posOf (mergeNodes k c a b na nb).1 b = zeroV := by
  unfold mergeNodes
  simp only
  refine ⟨?_, deleteNode_posOf_self _ _⟩
  by_cases hab : b = a
  · subst hab; exact deleteNode_posOf_self _ _
  · rw [deleteNode_posOf_ne _ hab]; exact deleteNode_posOf_self _ _
end Simu.C11
