import SimuVerif.Lemmas.RemeshRefine
import SimuVerif.Lemmas.SurfaceCollapseEuler
import SimuVerif.Model.RemeshMergeChecks
/-
  Part 1 of the proof that `mergeEdge` refines `collapseT` (see `RemeshMerge.lean` for the summary).

  * `EdgeSet` algebra: `find?` after `insert` / `update` / `erase`, sortedness (= key-uniqueness) preserved.
  * the Cantor key of an unordered pair: `keyOf_eq_iff`.
  * the edge index as a relation: `IdxP P s` says that the key-sorted list `s` is a well-formed map whose entry
    under key `k` lists exactly the faces `g` with `P g k`.  `EdgeIdxComplete c := IdxP (SideK (slots c)) c.edges`.
  * `edgeAddFace` adds one pair to the relation, `delFaceEdge` removes one; `addFace_idx`, `deleteFace_idx`.
-/
set_option linter.unusedSectionVars false
set_option linter.unusedVariables false
namespace Simu.Remesh
open Simu Simu.Surface
open Simu.C11 (bind_ok newSlot)

/-! ## 1. `EdgeSet` algebra -/
namespace EdgeSet

/-- strictly increasing keys (`std::set` ordered by `edge::hash`): sorted and key-unique -/
def Sorted (s : EdgeSet) : Prop := List.Pairwise (fun x y : Edge => x.key < y.key) s

theorem find?_nil (k : Nat) : find? [] k = none := rfl

theorem find?_cons (x : Edge) (s : EdgeSet) (k : Nat) :
    find? (x :: s) k = if x.key = k then some x else find? s k := by
  unfold find?
  rw [List.find?_cons]
  by_cases h : x.key = k
  · simp [h]
  · have hb : (x.key == k) = false := beq_false_of_ne h
    simp [h, hb]

theorem find?_key {s : EdgeSet} {k : Nat} {e : Edge} (h : find? s k = some e) : e.key = k := by
  have := List.find?_some h
  simpa using this

theorem find?_mem {s : EdgeSet} {k : Nat} {e : Edge} (h : find? s k = some e) : e ∈ s :=
  List.mem_of_find?_eq_some h

theorem find?_none_of_lt {s : EdgeSet} {k : Nat} (h : ∀ y ∈ s, k < y.key) : find? s k = none := by
  unfold find?
  rw [List.find?_eq_none]
  intro y hy
  have := h y hy
  simp only [beq_iff_eq]
  omega

theorem sorted_nil : Sorted [] := List.Pairwise.nil

theorem Sorted.tail {x : Edge} {s : EdgeSet} (h : Sorted (x :: s)) : Sorted s := (List.pairwise_cons.1 h).2

theorem Sorted.head {x : Edge} {s : EdgeSet} (h : Sorted (x :: s)) : ∀ y ∈ s, x.key < y.key :=
  (List.pairwise_cons.1 h).1

/-- in a sorted set an element is found under its key -/
theorem find?_of_mem {s : EdgeSet} (hs : Sorted s) {e : Edge} (he : e ∈ s) : find? s e.key = some e := by
  induction s with
  | nil => cases he
  | cons x xs ih =>
    rw [find?_cons]
    rcases List.mem_cons.1 he with rfl | h
    · simp
    · have := hs.head e h
      rw [if_neg (by omega)]
      exact ih hs.tail h

/-- `std::set::insert` -/
theorem insertGo_spec (e : Edge) : ∀ s : EdgeSet, Sorted s →
    Sorted (insert.go e s).1 ∧
    (∀ y ∈ (insert.go e s).1, y = e ∨ y ∈ s) ∧
    (∀ k, find? (insert.go e s).1 k = if k = e.key then some (insert.go e s).2.1 else find? s k) ∧
    ((insert.go e s).2.2 = true → find? s e.key = none ∧ (insert.go e s).2.1 = e) ∧
    ((insert.go e s).2.2 = false → find? s e.key = some (insert.go e s).2.1 ∧ (insert.go e s).1 = s)
  | [], _ => by
    have hgo : insert.go e [] = ([e], e, true) := by simp [insert.go]
    rw [hgo]
    refine ⟨List.pairwise_singleton _ _, by simp, ?_, by simp [find?_nil], by simp⟩
    intro k
    rw [find?_cons, find?_nil]
    by_cases h : k = e.key
    · simp [h]
    · simp [h, Ne.symm h]
  | x :: xs, hs => by
    have ih := insertGo_spec e xs hs.tail
    have hx := hs.head
    by_cases h1 : x.key = e.key
    · have hgo : insert.go e (x :: xs) = (x :: xs, x, false) := by simp [insert.go, h1]
      rw [hgo]
      refine ⟨hs, fun y hy => Or.inr hy, ?_, by simp, fun _ => ⟨by rw [find?_cons, if_pos h1], rfl⟩⟩
      intro k
      by_cases hk : k = e.key
      · rw [if_pos hk, find?_cons, if_pos (h1.trans hk.symm)]
      · rw [if_neg hk]
    · by_cases h2 : e.key < x.key
      · have hgo : insert.go e (x :: xs) = (e :: x :: xs, e, true) := by simp [insert.go, h1, h2]
        rw [hgo]
        have hall : ∀ y ∈ x :: xs, e.key < y.key := by
          intro y hy
          rcases List.mem_cons.1 hy with rfl | hy
          · exact h2
          · exact Nat.lt_trans h2 (hx y hy)
        refine ⟨List.pairwise_cons.2 ⟨hall, hs⟩, ?_, ?_, fun _ => ⟨find?_none_of_lt hall, rfl⟩, by simp⟩
        · intro y hy
          rcases List.mem_cons.1 hy with rfl | hy
          · exact Or.inl rfl
          · exact Or.inr hy
        · intro k
          rw [find?_cons (x := e)]
          by_cases hk : k = e.key
          · simp [hk]
          · rw [if_neg hk, if_neg (Ne.symm hk)]
      · rcases hr : insert.go e xs with ⟨r, st, b⟩
        rw [hr] at ih
        have hgo : insert.go e (x :: xs) = (x :: r, st, b) := by simp [insert.go, h1, h2, hr]
        rw [hgo]
        obtain ⟨i1, i2, i3, i4, i5⟩ := ih
        have hlt : x.key < e.key := by omega
        refine ⟨List.pairwise_cons.2 ⟨?_, i1⟩, ?_, ?_, ?_, ?_⟩
        · intro y hy
          rcases i2 y hy with rfl | hy
          · exact hlt
          · exact hx y hy
        · intro y hy
          rcases List.mem_cons.1 hy with rfl | hy
          · exact Or.inr List.mem_cons_self
          · rcases i2 y hy with h | h
            · exact Or.inl h
            · exact Or.inr (List.mem_cons_of_mem _ h)
        · intro k
          show find? (x :: r) k = if k = e.key then some st else find? (x :: xs) k
          have i3k := i3 k
          dsimp only at i3k
          rw [find?_cons x r, find?_cons x xs, i3k]
          by_cases hk : k = e.key
          · rw [if_pos hk, if_pos hk, if_neg (by omega)]
          · rw [if_neg hk, if_neg hk]
        · intro hb
          obtain ⟨j1, j2⟩ := i4 hb
          exact ⟨by rw [find?_cons, if_neg h1]; exact j1, j2⟩
        · intro hb
          obtain ⟨j1, j2⟩ := i5 hb
          dsimp only at j1 j2 ⊢
          exact ⟨by rw [find?_cons, if_neg h1]; exact j1, by rw [j2]⟩

structure InsertRes (s : EdgeSet) (e : Edge) (s' : EdgeSet) (st : Edge) (ins : Bool) : Prop where
  sorted : Sorted s'
  find : ∀ k, find? s' k = if k = e.key then some st else find? s k
  new : ins = true → find? s e.key = none ∧ st = e
  old : ins = false → find? s e.key = some st ∧ s' = s

theorem insert_spec {s : EdgeSet} (hs : Sorted s) (e : Edge) :
    InsertRes s e (insert s e).1 (insert s e).2.1 (insert s e).2.2 := by
  obtain ⟨h1, _, h3, h4, h5⟩ := insertGo_spec e s hs
  exact ⟨h1, h3, h4, h5⟩

theorem find?_update (s : EdgeSet) (e : Edge) (k : Nat) :
    find? (update s e) k = if k = e.key then (find? s k).map (fun _ => e) else find? s k := by
  induction s with
  | nil => simp [update, find?_nil]
  | cons x xs ih =>
    have hu : update (x :: xs) e = (if x.key = e.key then e else x) :: update xs e := by
      simp [update]
    rw [hu, find?_cons, find?_cons, ih]
    by_cases hk : k = e.key
    · subst hk
      by_cases hx : x.key = e.key
      · simp [hx]
      · simp [hx]
    · by_cases hx : x.key = e.key
      · simp only [hx, if_true, if_neg hk, if_neg (Ne.symm hk)]
      · simp only [hx, if_false, if_neg hk]

theorem sorted_update {s : EdgeSet} (hs : Sorted s) (e : Edge) : Sorted (update s e) := by
  unfold Sorted update
  rw [List.pairwise_map]
  refine List.Pairwise.imp ?_ hs
  intro a b hab
  have ha : (if (a.key == e.key) = true then e else a).key = a.key := by
    by_cases h : a.key = e.key <;> simp [h]
  have hb : (if (b.key == e.key) = true then e else b).key = b.key := by
    by_cases h : b.key = e.key <;> simp [h]
  rw [ha, hb]; exact hab

theorem find?_erase (s : EdgeSet) (k' k : Nat) :
    find? (erase s k') k = if k = k' then none else find? s k := by
  induction s with
  | nil => simp [erase, find?_nil]
  | cons x xs ih =>
    by_cases hx : x.key = k'
    · have hu : erase (x :: xs) k' = erase xs k' := by simp [erase, hx]
      rw [hu, ih, find?_cons]
      by_cases hk : k = k'
      · rw [if_pos hk, if_pos hk]
      · rw [if_neg hk, if_neg hk, if_neg (by omega)]
    · have hu : erase (x :: xs) k' = x :: erase xs k' := by simp [erase, hx]
      rw [hu, find?_cons, find?_cons, ih]
      by_cases hk : k = k'
      · rw [if_pos hk, if_pos hk, if_neg (by omega)]
      · rw [if_neg hk, if_neg hk]

theorem sorted_erase {s : EdgeSet} (hs : Sorted s) (k : Nat) : Sorted (erase s k) :=
  List.Pairwise.sublist List.filter_sublist hs

end EdgeSet

/-! ## 2. the Cantor key of an unordered pair -/
namespace Edge

theorem mk'_n (a b : Nat) (f1 f2 : Option Nat) :
    (mk' a b f1 f2).n1 = min a b ∧ (mk' a b f1 f2).n2 = max a b ∧ (mk' a b f1 f2).f1 = f1 ∧
      (mk' a b f1 f2).f2 = f2 := by
  unfold mk'
  by_cases h : a < b
  · rw [if_pos h]; refine ⟨?_, ?_, rfl, rfl⟩ <;> simp only <;> omega
  · rw [if_neg h]; refine ⟨?_, ?_, rfl, rfl⟩ <;> simp only <;> omega

theorem mk'_le (a b : Nat) (f1 f2 : Option Nat) : (mk' a b f1 f2).n1 ≤ (mk' a b f1 f2).n2 := by
  obtain ⟨h1, h2, _, _⟩ := mk'_n a b f1 f2; rw [h1, h2]; omega

theorem key_congr {e e' : Edge} (h1 : e.n1 = e'.n1) (h2 : e.n2 = e'.n2) : e.key = e'.key := by
  unfold key; rw [h1, h2]

theorem key_mk' (a b : Nat) (f1 f2 : Option Nat) : (mk' a b f1 f2).key = keyOf a b := by
  unfold keyOf
  obtain ⟨h1, h2, _, _⟩ := mk'_n a b f1 f2
  obtain ⟨h3, h4, _, _⟩ := mk'_n a b none none
  exact key_congr (h1.trans h3.symm) (h2.trans h4.symm)

theorem keyOf_comm (a b : Nat) : keyOf a b = keyOf b a := by
  unfold keyOf
  obtain ⟨h1, h2, _, _⟩ := mk'_n a b none none
  obtain ⟨h3, h4, _, _⟩ := mk'_n b a none none
  exact key_congr (by rw [h1, h3]; omega) (by rw [h2, h4]; omega)

theorem keyOf_eq_iff {a b a' b' : Nat} : keyOf a b = keyOf a' b' ↔ (a = a' ∧ b = b') ∨ (a = b' ∧ b = a') := by
  constructor
  · intro h
    unfold keyOf at h
    obtain ⟨k1, k2⟩ := key_inj h
    obtain ⟨h1, h2, _, _⟩ := mk'_n a b none none
    obtain ⟨h3, h4, _, _⟩ := mk'_n a' b' none none
    rw [h1, h3] at k1; rw [h2, h4] at k2
    omega
  · rintro (⟨rfl, rfl⟩ | ⟨rfl, rfl⟩)
    · rfl
    · exact keyOf_comm _ _

theorem key_eq_keyOf {e : Edge} (h : e.n1 ≤ e.n2) : e.key = keyOf e.n1 e.n2 := by
  unfold keyOf
  obtain ⟨h1, h2, _, _⟩ := mk'_n e.n1 e.n2 none none
  exact key_congr (by rw [h1]; omega) (by rw [h2]; omega)

theorem key_eq_keyOf_iff {e : Edge} (h : e.n1 ≤ e.n2) {x y : Nat} :
    e.key = keyOf x y ↔ (e.n1 = x ∧ e.n2 = y) ∨ (e.n1 = y ∧ e.n2 = x) := by
  rw [key_eq_keyOf h, keyOf_eq_iff]

theorem hasFace_iff (e : Edge) (g : Nat) : e.hasFace g = true ↔ (e.f1 = some g ∨ e.f2 = some g) := by
  simp [hasFace]

end Edge

/-! ## 3. the edge index as a relation between face slots and keys -/

/-- the face fields of an entry: at least one face, two different faces when there are two -/
def WfFaces (ed : Edge) : Prop := ed.f1 ≠ none ∧ ed.f1 ≠ ed.f2

/-- the entry stored under key `k` lists exactly the faces `g` with `P g k`; no entry = no such face -/
def EntryOK (P : Nat → Nat → Prop) (k : Nat) : Option Edge → Prop
  | none => ∀ g, ¬ P g k
  | some ed => ed.n1 ≤ ed.n2 ∧ WfFaces ed ∧ ∀ g, ed.hasFace g = true ↔ P g k

/-- the index `s` is a key-sorted (hence key-unique) list that represents the relation `P` exactly -/
structure IdxP (P : Nat → Nat → Prop) (s : EdgeSet) : Prop where
  sorted : EdgeSet.Sorted s
  entry : ∀ k, EntryOK P k (EdgeSet.find? s k)

theorem EntryOK.congr {P Q : Nat → Nat → Prop} {k : Nat} {o : Option Edge} (h : ∀ g, P g k ↔ Q g k)
    (hP : EntryOK P k o) : EntryOK Q k o := by
  cases o with
  | none => exact fun g hq => hP g ((h g).2 hq)
  | some ed => exact ⟨hP.1, hP.2.1, fun g => (hP.2.2 g).trans (h g)⟩

theorem IdxP.congr {P Q : Nat → Nat → Prop} {s : EdgeSet} (h : ∀ g k, P g k ↔ Q g k) (hP : IdxP P s) : IdxP Q s :=
  ⟨hP.sorted, fun k => (hP.entry k).congr (fun g => h g k)⟩

theorem IdxP.of_find {P : Nat → Nat → Prop} {s : EdgeSet} (h : IdxP P s) {k : Nat} {ed : Edge}
    (hf : EdgeSet.find? s k = some ed) :
    ed.key = k ∧ ed.n1 ≤ ed.n2 ∧ WfFaces ed ∧ ∀ g, ed.hasFace g = true ↔ P g k := by
  have := h.entry k
  rw [hf] at this
  exact ⟨EdgeSet.find?_key hf, this.1, this.2.1, this.2.2⟩

theorem IdxP.get {P : Nat → Nat → Prop} {s : EdgeSet} (h : IdxP P s) {g k : Nat} (hp : P g k) :
    ∃ ed, EdgeSet.find? s k = some ed := by
  cases hf : EdgeSet.find? s k with
  | none => have := h.entry k; rw [hf] at this; exact (this g hp).elim
  | some ed => exact ⟨ed, rfl⟩

theorem IdxP.none_of {P : Nat → Nat → Prop} {s : EdgeSet} (h : IdxP P s) {k : Nat} (hp : ∀ g, ¬ P g k) :
    EdgeSet.find? s k = none := by
  cases hf : EdgeSet.find? s k with
  | none => rfl
  | some ed =>
    obtain ⟨_, _, hw, hP⟩ := h.of_find hf
    cases h1 : ed.f1 with
    | none => exact absurd h1 hw.1
    | some g => exact (hp g ((hP g).1 ((Edge.hasFace_iff _ _).2 (Or.inl h1)))).elim

theorem Edge.addFace_spec {e e' : Edge} {f : Nat} (h : e.addFace f = .ok e') (hw : e.f1 = none → e.f2 = none)
    (hw2 : e.f1 ≠ none → e.f1 ≠ e.f2) (hn : e.hasFace f = false) :
    e'.n1 = e.n1 ∧ e'.n2 = e.n2 ∧ WfFaces e' ∧ ∀ g, e'.hasFace g = true ↔ (e.hasFace g = true ∨ g = f) := by
  obtain ⟨n1, n2, f1, f2⟩ := e
  unfold Edge.addFace at h
  cases f1 with
  | none =>
    have : f2 = none := hw rfl
    subst this
    simp only at h
    cases h
    refine ⟨rfl, rfl, ⟨by simp, by simp⟩, fun g => ?_⟩
    simp only [Edge.hasFace_iff]
    constructor
    · rintro (h | h)
      · cases h; exact Or.inr rfl
      · cases h
    · rintro ((h | h) | h)
      · cases h
      · cases h
      · subst h; exact Or.inl rfl
  | some a =>
    cases f2 with
    | none =>
      simp only at h
      cases h
      have hne : a ≠ f := by
        intro hh; subst hh; simp [Edge.hasFace] at hn
      refine ⟨rfl, rfl, ⟨by simp, by simpa using hne⟩, fun g => ?_⟩
      simp only [Edge.hasFace_iff]
      constructor
      · rintro (h | h)
        · exact Or.inl (Or.inl h)
        · cases h; exact Or.inr rfl
      · rintro ((h | h) | h)
        · exact Or.inl h
        · cases h
        · subst h; exact Or.inr rfl
    | some b => simp only at h; cases h

theorem Edge.deleteFace_spec {e e' : Edge} {f : Nat} (h : e.deleteFace f = .ok e') (hw : WfFaces e)
    (hm : e.isManifold = true) :
    e'.n1 = e.n1 ∧ e'.n2 = e.n2 ∧ WfFaces e' ∧ ∀ g, e'.hasFace g = true ↔ (e.hasFace g = true ∧ g ≠ f) := by
  obtain ⟨n1, n2, f1, f2⟩ := e
  unfold Edge.deleteFace at h
  cases f1 with
  | none => simp [Edge.isManifold] at hm
  | some a =>
    cases f2 with
    | none => simp [Edge.isManifold] at hm
    | some b =>
      have hab : a ≠ b := by
        intro hh; exact hw.2 (by simp [hh])
      by_cases h1 : a = f
      · subst h1
        simp only [beq_self_eq_true, if_true] at h
        cases h
        refine ⟨rfl, rfl, ⟨by simp, by simp⟩, fun g => ?_⟩
        simp only [Edge.hasFace_iff]
        constructor
        · rintro (h | h)
          · cases h; exact ⟨Or.inr rfl, Ne.symm hab⟩
          · cases h
        · rintro ⟨h | h, hne⟩
          · cases h; exact absurd rfl hne
          · exact Or.inl h
      · have hb1 : (some a == some f) = false := by simp [h1]
        simp only [hb1, Bool.false_eq_true, if_false] at h
        by_cases h2 : b = f
        · subst h2
          simp only [beq_self_eq_true, if_true] at h
          cases h
          refine ⟨rfl, rfl, ⟨by simp, by simp⟩, fun g => ?_⟩
          simp only [Edge.hasFace_iff]
          constructor
          · rintro (h | h)
            · cases h; exact ⟨Or.inl rfl, hab⟩
            · cases h
          · rintro ⟨h | h, hne⟩
            · exact Or.inl h
            · cases h; exact absurd rfl hne
        · have hb2 : (some b == some f) = false := by simp [h2]
          simp only [hb2, Bool.false_eq_true, if_false] at h
          cases h

/-- variant of `EntryOK` for the inside of `add_face`: entries without any face are tolerated under the keys in `E` -/
def EntryOKE (P : Nat → Nat → Prop) (E : Nat → Prop) (k : Nat) : Option Edge → Prop
  | none => ∀ g, ¬ P g k
  | some ed => ed.n1 ≤ ed.n2 ∧ (ed.f1 = none → ed.f2 = none ∧ E k) ∧ (ed.f1 ≠ none → ed.f1 ≠ ed.f2) ∧
      ∀ g, ed.hasFace g = true ↔ P g k

structure IdxPE (P : Nat → Nat → Prop) (E : Nat → Prop) (s : EdgeSet) : Prop where
  sorted : EdgeSet.Sorted s
  entry : ∀ k, EntryOKE P E k (EdgeSet.find? s k)

theorem IdxP.toE {P : Nat → Nat → Prop} {s : EdgeSet} (h : IdxP P s) : IdxPE P (fun _ => False) s := by
  refine ⟨h.sorted, fun k => ?_⟩
  have := h.entry k
  cases hf : EdgeSet.find? s k with
  | none => rw [hf] at this; exact this
  | some ed =>
    rw [hf] at this
    exact ⟨this.1, fun hh => absurd hh this.2.1.1, fun _ => this.2.1.2, this.2.2⟩

theorem IdxPE.toP {P : Nat → Nat → Prop} {E : Nat → Prop} {s : EdgeSet} (h : IdxPE P E s) (hE : ∀ k, ¬ E k) :
    IdxP P s := by
  refine ⟨h.sorted, fun k => ?_⟩
  have := h.entry k
  cases hf : EdgeSet.find? s k with
  | none => rw [hf] at this; exact this
  | some ed =>
    rw [hf] at this
    have h1 : ed.f1 ≠ none := fun hh => hE k (this.2.1 hh).2
    exact ⟨this.1, ⟨h1, this.2.2.1 h1⟩, this.2.2.2⟩

/-- `edge_set_.emplace(a,b)` with an edge without faces -/
theorem insertEmpty_idx {P : Nat → Nat → Prop} {E : Nat → Prop} {s : EdgeSet} (a b : Nat) (hI : IdxPE P E s) :
    IdxPE P (fun k => E k ∨ k = Edge.keyOf a b) (EdgeSet.insert s (Edge.mk' a b)).1 := by
  have R := EdgeSet.insert_spec hI.sorted (Edge.mk' a b)
  rcases hins : EdgeSet.insert s (Edge.mk' a b) with ⟨s1, st, ins⟩
  rw [hins] at R
  simp only at R ⊢
  have hk0 : (Edge.mk' a b).key = Edge.keyOf a b := Edge.key_mk' a b none none
  refine ⟨R.sorted, fun k => ?_⟩
  rw [R.find, hk0]
  have hother : ∀ o, EntryOKE P E k o → EntryOKE P (fun k => E k ∨ k = Edge.keyOf a b) k o := by
    intro o ho
    cases o with
    | none => exact ho
    | some ed => exact ⟨ho.1, fun hh => ⟨(ho.2.1 hh).1, Or.inl (ho.2.1 hh).2⟩, ho.2.2.1, ho.2.2.2⟩
  by_cases hk : k = Edge.keyOf a b
  · rw [if_pos hk]
    subst hk
    cases ins with
    | true =>
      obtain ⟨hnone, hst⟩ := R.new rfl
      rw [hk0] at hnone
      have hno := hI.entry (Edge.keyOf a b)
      rw [hnone] at hno
      subst hst
      refine ⟨Edge.mk'_le _ _ _ _, fun _ => ⟨(Edge.mk'_n a b none none).2.2.2, Or.inr rfl⟩, ?_, fun g => ?_⟩
      · intro hh; exact absurd (Edge.mk'_n a b none none).2.2.1 hh
      · constructor
        · intro hh
          rw [Edge.hasFace_iff, (Edge.mk'_n a b none none).2.2.1, (Edge.mk'_n a b none none).2.2.2] at hh
          simp at hh
        · intro hh; exact (hno g hh).elim
    | false =>
      obtain ⟨hsome, _⟩ := R.old rfl
      rw [hk0] at hsome
      have := hI.entry (Edge.keyOf a b)
      rw [hsome] at this
      exact hother _ this
  · rw [if_neg hk]
    exact hother _ (hI.entry k)

/-- `edge_set_.emplace(a,b)` followed by `add_face(fid)` on the stored element: one more pair in the relation -/
theorem edgeAddFace_idxE {P : Nat → Nat → Prop} {E : Nat → Prop} {s s' : EdgeSet} {a b fid : Nat}
    (hI : IdxPE P E s) (h : edgeAddFace s a b fid = .ok s') (hn : ¬ P fid (Edge.keyOf a b)) :
    IdxPE (fun g k => P g k ∨ (g = fid ∧ k = Edge.keyOf a b)) (fun k => E k ∧ k ≠ Edge.keyOf a b) s' := by
  unfold edgeAddFace at h
  have R := EdgeSet.insert_spec hI.sorted (Edge.mk' a b)
  rcases hins : EdgeSet.insert s (Edge.mk' a b) with ⟨s1, st, ins⟩
  rw [hins] at R h
  simp only at R h
  obtain ⟨e1, he1, h⟩ := bind_ok h
  have hs' : s' = EdgeSet.update s1 e1 := by cases h; rfl
  have hk0 : (Edge.mk' a b).key = Edge.keyOf a b := Edge.key_mk' a b none none
  -- the stored element
  have hst : st.n1 ≤ st.n2 ∧ st.key = Edge.keyOf a b ∧ (st.f1 = none → st.f2 = none) ∧
      (st.f1 ≠ none → st.f1 ≠ st.f2) ∧ ∀ g, st.hasFace g = true ↔ P g (Edge.keyOf a b) := by
    cases ins with
    | true =>
      obtain ⟨hnone, hst⟩ := R.new rfl
      rw [hk0] at hnone
      have hno := hI.entry (Edge.keyOf a b)
      rw [hnone] at hno
      subst hst
      refine ⟨Edge.mk'_le _ _ _ _, hk0, fun _ => (Edge.mk'_n a b none none).2.2.2, ?_, fun g => ?_⟩
      · intro hh; exact absurd (Edge.mk'_n a b none none).2.2.1 hh
      · constructor
        · intro hh
          rw [Edge.hasFace_iff, (Edge.mk'_n a b none none).2.2.1, (Edge.mk'_n a b none none).2.2.2] at hh
          simp at hh
        · intro hh; exact (hno g hh).elim
    | false =>
      obtain ⟨hsome, _⟩ := R.old rfl
      rw [hk0] at hsome
      have q := hI.entry (Edge.keyOf a b)
      rw [hsome] at q
      exact ⟨q.1, EdgeSet.find?_key hsome, fun hh => (q.2.1 hh).1, q.2.2.1, q.2.2.2⟩
  obtain ⟨t1, t2, t3, t4, t5⟩ := hst
  have hnf : st.hasFace fid = false := by
    rw [Bool.eq_false_iff]; intro hh; exact hn ((t5 fid).1 hh)
  obtain ⟨a1, a2, a3, a4⟩ := Edge.addFace_spec he1 t3 t4 hnf
  have hk1 : e1.key = Edge.keyOf a b := (Edge.key_congr a1 a2).trans t2
  refine ⟨by rw [hs']; exact EdgeSet.sorted_update R.sorted _, fun k => ?_⟩
  rw [hs', EdgeSet.find?_update, R.find, hk1, hk0]
  by_cases hk : k = Edge.keyOf a b
  · rw [if_pos hk, if_pos hk]
    subst hk
    refine ⟨by rw [a1, a2]; exact t1, fun hh => absurd hh a3.1, fun _ => a3.2, fun g => ?_⟩
    rw [a4, t5]
    constructor
    · rintro (h | h)
      · exact Or.inl h
      · exact Or.inr ⟨h, rfl⟩
    · rintro (h | ⟨h, _⟩)
      · exact Or.inl h
      · exact Or.inr h
  · rw [if_neg hk, if_neg hk]
    have q := hI.entry k
    cases hf : EdgeSet.find? s k with
    | none =>
      rw [hf] at q
      rintro g (h | ⟨_, h⟩)
      · exact q g h
      · exact hk h
    | some ed =>
      rw [hf] at q
      refine ⟨q.1, fun hh => ⟨(q.2.1 hh).1, (q.2.1 hh).2, hk⟩, q.2.2.1, fun g => ?_⟩
      rw [q.2.2.2]
      constructor
      · exact Or.inl
      · rintro (h | ⟨_, h⟩)
        · exact h
        · exact absurd h hk

/-- one edge of `cell::delete_face`: the pair `(fid, key(a,b))` leaves the relation -/
theorem delFaceEdge_idx {P : Nat → Nat → Prop} {s s' : EdgeSet} {a b fid : Nat} (hI : IdxP P s)
    (h : delFaceEdge s a b fid = .ok s') :
    IdxP (fun g k => P g k ∧ ¬ (g = fid ∧ k = Edge.keyOf a b)) s' := by
  unfold delFaceEdge at h
  cases hf : EdgeSet.find? s (Edge.keyOf a b) with
  | none => rw [hf] at h; cases h
  | some e =>
    rw [hf] at h
    obtain ⟨hk, hle, hw, hP⟩ := hI.of_find hf
    simp only at h
    -- three outcomes
    have key : (e.hasFace fid = false ∧ s' = s) ∨
        (e.hasFace fid = true ∧ e.isManifold = false ∧ s' = EdgeSet.erase s e.key) ∨
        (e.hasFace fid = true ∧ e.isManifold = true ∧ ∃ e', e.deleteFace fid = .ok e' ∧ s' = EdgeSet.update s e') := by
      obtain ⟨n1, n2, f1, f2⟩ := e
      cases f1 with
      | none => exact absurd rfl hw.1
      | some g1 =>
        simp only at h
        by_cases h1 : g1 = fid
        · subst h1
          simp only [beq_self_eq_true, if_true] at h
          cases hm : (Edge.isManifold ⟨n1, n2, some g1, f2⟩) with
          | false =>
            simp only [hm, Bool.not_false, if_true] at h
            cases h
            exact Or.inr (Or.inl ⟨by simp [Edge.hasFace], rfl, rfl⟩)
          | true =>
            simp only [hm, Bool.not_true, Bool.false_eq_true, if_false] at h
            cases hd : Edge.deleteFace ⟨n1, n2, some g1, f2⟩ g1 with
            | error x => rw [hd] at h; cases h
            | ok e' =>
              rw [hd] at h; cases h
              exact Or.inr (Or.inr ⟨by simp [Edge.hasFace], rfl, e', rfl, rfl⟩)
        · have hb : (g1 == fid) = false := by simp [h1]
          simp only [hb, Bool.false_eq_true, if_false] at h
          cases f2 with
          | none => simp only at h; cases h
          | some g2 =>
            simp only at h
            by_cases h2 : g2 = fid
            · subst h2
              simp only [beq_self_eq_true] at h
              have hm : (Edge.isManifold ⟨n1, n2, some g1, some g2⟩) = true := by simp [Edge.isManifold]
              simp only [hm, Bool.not_true, Bool.false_eq_true, if_false] at h
              cases hd : Edge.deleteFace ⟨n1, n2, some g1, some g2⟩ g2 with
              | error x => rw [hd] at h; cases h
              | ok e' =>
                rw [hd] at h; cases h
                exact Or.inr (Or.inr ⟨by simp [Edge.hasFace], rfl, e', rfl, rfl⟩)
            · have hb2 : (g2 == fid) = false := by simp [h2]
              simp only [hb2] at h
              cases h
              exact Or.inl ⟨by simp [Edge.hasFace, h1, h2], rfl⟩
    rcases key with ⟨hnf, rfl⟩ | ⟨hhf, hm, rfl⟩ | ⟨hhf, hm, e', hd, rfl⟩
    · refine hI.congr (fun g k => ?_)
      constructor
      · intro hp
        refine ⟨hp, ?_⟩
        rintro ⟨rfl, rfl⟩
        rw [(hP g).2 hp] at hnf; cases hnf
      · exact fun hp => hp.1
    · refine ⟨EdgeSet.sorted_erase hI.sorted _, fun k => ?_⟩
      rw [EdgeSet.find?_erase, hk]
      by_cases hkk : k = Edge.keyOf a b
      · rw [if_pos hkk]
        subst hkk
        rintro g ⟨hp, hne⟩
        -- the only face of `e` is `fid`
        have hg := (hP g).2 hp
        rw [Edge.hasFace_iff] at hg hhf
        have hf2 : e.f2 = none := by
          cases h2 : e.f2 with
          | none => rfl
          | some x =>
            cases h1 : e.f1 with
            | none => exact absurd h1 hw.1
            | some y => simp [Edge.isManifold, h1, h2] at hm
        rw [hf2] at hg hhf
        rcases hg with hg | hg
        · rcases hhf with hhf | hhf
          · rw [hg] at hhf; cases hhf; exact hne ⟨rfl, rfl⟩
          · cases hhf
        · cases hg
      · rw [if_neg hkk]
        refine (hI.entry k).congr (fun g => ?_)
        exact ⟨fun hp => ⟨hp, fun hh => hkk hh.2⟩, fun hp => hp.1⟩
    · obtain ⟨d1, d2, d3, d4⟩ := Edge.deleteFace_spec hd hw hm
      have hk1 : e'.key = Edge.keyOf a b := (Edge.key_congr d1 d2).trans hk
      refine ⟨EdgeSet.sorted_update hI.sorted _, fun k => ?_⟩
      rw [EdgeSet.find?_update, hk1]
      by_cases hkk : k = Edge.keyOf a b
      · rw [if_pos hkk]
        subst hkk
        rw [hf]
        refine ⟨by rw [d1, d2]; exact hle, d3, fun g => ?_⟩
        rw [d4, hP]
        constructor
        · rintro ⟨hp, hne⟩; exact ⟨hp, fun hh => hne hh.1⟩
        · rintro ⟨hp, hne⟩; exact ⟨hp, fun hh => hne ⟨hh, rfl⟩⟩
      · rw [if_neg hkk]
        refine (hI.entry k).congr (fun g => ?_)
        exact ⟨fun hp => ⟨hp, fun hh => hkk hh.2⟩, fun hp => hp.1⟩

/-! ## 4. the index of a cell -/
section
variable {R : Type} [Add R] [Sub R] [Mul R] [Div R] [Neg R] [Lit R] [LT R] [LE R] [DecidableLT R]
  [DecidableLE R] [DecidableEq R]

-- `sideKeys` (the keys of the three sides of a triangle) is defined in `Model/RemeshMergeChecks.lean`

/-- slot `g` of the slot list holds a live triangle one of whose sides has key `k` -/
def SideK (L : List (Option Tri)) (g k : Nat) : Prop := ∃ t, L[g]? = some (some t) ∧ k ∈ sideKeys t

/-- **the edge index is sound and complete**: `c.edges` is sorted by the Cantor key (hence key-unique); the entry
    under the key of `{x,y}` has `n1 ≤ n2`, at least one face, two different faces if two, and lists EXACTLY the
    slots of the live faces that have `{x,y}` as a side; there is no entry iff no live face has that side. -/
def EdgeIdxComplete (c : Cell R) : Prop := IdxP (SideK (slots c)) c.edges

theorem edges_updFaceGeom (fn : Fn R) (c : Cell R) (fid : Nat) : (updFaceGeom fn c fid).edges = c.edges := by
  obtain ⟨fs, h, _⟩ := updFaceGeom_eq fn c fid; rw [h]

theorem edges_setFaceType (c : Cell R) (fid t : Nat) : (setFaceType c fid t).edges = c.edges := by
  obtain ⟨fs, h, _⟩ := setFaceType_eq c fid t; rw [h]

theorem addFace_idxP {P : Nat → Nat → Prop} {fn : Fn R} {c c' : Cell R} {a b d fid : Nat}
    (h : addFace fn c a b d = .ok (c', fid)) (hI : IdxP P c.edges) (hn : ∀ k, ¬ P fid k)
    (hab : a ≠ b) (hbd : b ≠ d) (hda : d ≠ a) :
    IdxP (fun g k => P g k ∨ (g = fid ∧ k ∈ sideKeys (a, b, d))) c'.edges := by
  have E3 := insertEmpty_idx d a (insertEmpty_idx b d (insertEmpty_idx a b hI.toE))
  have k12 : Edge.keyOf b d ≠ Edge.keyOf a b := by
    intro hh; rcases Edge.keyOf_eq_iff.1 hh with ⟨h1, h2⟩ | ⟨h1, h2⟩ <;> omega
  have k13 : Edge.keyOf d a ≠ Edge.keyOf a b := by
    intro hh; rcases Edge.keyOf_eq_iff.1 hh with ⟨h1, h2⟩ | ⟨h1, h2⟩ <;> omega
  have k23 : Edge.keyOf d a ≠ Edge.keyOf b d := by
    intro hh; rcases Edge.keyOf_eq_iff.1 hh with ⟨h1, h2⟩ | ⟨h1, h2⟩ <;> omega
  have main : ∀ {s4 s5 s6 : EdgeSet},
      edgeAddFace (EdgeSet.insert (EdgeSet.insert (EdgeSet.insert c.edges (Edge.mk' a b)).1 (Edge.mk' b d)).1
        (Edge.mk' d a)).1 a b fid = .ok s4 → edgeAddFace s4 b d fid = .ok s5 → edgeAddFace s5 d a fid = .ok s6 →
      IdxP (fun g k => P g k ∨ (g = fid ∧ k ∈ sideKeys (a, b, d))) s6 := by
    intro s4 s5 s6 h4 h5 h6
    have F4 := edgeAddFace_idxE E3 h4 (hn _)
    have F5 := edgeAddFace_idxE F4 h5 (by rintro (hh | ⟨_, hh⟩); exact hn _ hh; exact k12 hh)
    have F6 := edgeAddFace_idxE F5 h6 (by
      rintro ((hh | ⟨_, hh⟩) | ⟨_, hh⟩)
      · exact hn _ hh
      · exact k13 hh
      · exact k23 hh)
    refine (F6.toP ?_).congr ?_
    · rintro k ⟨⟨⟨((hf | hh) | hh) | hh, n1⟩, n2⟩, n3⟩
      · exact hf
      · exact n1 hh
      · exact n2 hh
      · exact n3 hh
    · intro g k
      simp only [sideKeys, List.mem_cons, List.not_mem_nil, or_false]
      constructor
      · rintro (((hh | ⟨rfl, hh⟩) | ⟨rfl, hh⟩) | ⟨rfl, hh⟩)
        · exact Or.inl hh
        · exact Or.inr ⟨rfl, Or.inl hh⟩
        · exact Or.inr ⟨rfl, Or.inr (Or.inl hh)⟩
        · exact Or.inr ⟨rfl, Or.inr (Or.inr hh)⟩
      · rintro (hh | ⟨rfl, hh | hh | hh⟩)
        · exact Or.inl (Or.inl (Or.inl hh))
        · exact Or.inl (Or.inl (Or.inr ⟨rfl, hh⟩))
        · exact Or.inl (Or.inr ⟨rfl, hh⟩)
        · exact Or.inr ⟨rfl, hh⟩
  unfold addFace at h
  cases hff : c.freeFaces with
  | nil =>
    simp only [hff] at h
    obtain ⟨s4, h4, h⟩ := bind_ok h
    obtain ⟨s5, h5, h⟩ := bind_ok h
    obtain ⟨s6, h6, h⟩ := bind_ok h
    cases h
    rw [edges_updFaceGeom]
    exact main h4 h5 h6
  | cons i rest =>
    simp only [hff] at h
    obtain ⟨s4, h4, h⟩ := bind_ok h
    obtain ⟨s5, h5, h⟩ := bind_ok h
    obtain ⟨s6, h6, h⟩ := bind_ok h
    cases h
    rw [edges_updFaceGeom]
    exact main h4 h5 h6

/-- **`add_face` keeps the index sound and complete** (the three nodes are pairwise different) -/
theorem addFace_idx {fn : Fn R} {c c' : Cell R} {a b d fid : Nat} (h : addFace fn c a b d = .ok (c', fid))
    (hf : FaceFreeOk c) (hI : EdgeIdxComplete c) (hab : a ≠ b) (hbd : b ≠ d) (hda : d ≠ a) :
    EdgeIdxComplete c' := by
  have A := addFace_spec h hf
  have hn : ∀ k, ¬ SideK (slots c) fid k := by
    rintro k ⟨t, ht, _⟩; exact A.fresh t ht
  refine (addFace_idxP h hI hn hab hbd hda).congr (fun g k => ?_)
  by_cases hg : g = fid
  · subst hg
    constructor
    · rintro (hh | ⟨_, hh⟩)
      · exact (hn k hh).elim
      · exact ⟨_, A.got, hh⟩
    · rintro ⟨t, ht, hk⟩
      rw [A.got] at ht; cases ht
      exact Or.inr ⟨rfl, hk⟩
  · unfold SideK
    rw [A.other g hg]
    constructor
    · rintro (hh | ⟨h1, _⟩)
      · exact hh
      · exact absurd h1 hg
    · exact Or.inl

theorem deleteFace_idxP {P : Nat → Nat → Prop} {c c' : Cell R} {fid : Nat} {f : Face R}
    (h : deleteFace c fid = .ok c') (hfa : c.faces[fid]? = some f) (hI : IdxP P c.edges) :
    IdxP (fun g k => P g k ∧ ¬ (g = fid ∧ k ∈ sideKeys (f.n1, f.n2, f.n3))) c'.edges := by
  unfold deleteFace at h
  rw [hfa] at h
  simp only at h
  obtain ⟨s1, h1, h⟩ := bind_ok h
  obtain ⟨s2, h2, h⟩ := bind_ok h
  obtain ⟨s3, h3, h⟩ := bind_ok h
  cases h
  have D3 := delFaceEdge_idx (delFaceEdge_idx (delFaceEdge_idx hI h1) h2) h3
  refine D3.congr (fun g k => ?_)
  simp only [sideKeys, List.mem_cons, List.not_mem_nil, or_false]
  constructor
  · rintro ⟨⟨⟨hp, n1⟩, n2⟩, n3⟩
    refine ⟨hp, ?_⟩
    rintro ⟨rfl, hh | hh | hh⟩
    · exact n1 ⟨rfl, hh⟩
    · exact n2 ⟨rfl, hh⟩
    · exact n3 ⟨rfl, hh⟩
  · rintro ⟨hp, hn⟩
    exact ⟨⟨⟨hp, fun hh => hn ⟨hh.1, Or.inl hh.2⟩⟩, fun hh => hn ⟨hh.1, Or.inr (Or.inl hh.2)⟩⟩,
      fun hh => hn ⟨hh.1, Or.inr (Or.inr hh.2)⟩⟩

/-- **`delete_face` keeps the index sound and complete** -/
theorem deleteFace_idx {c c' : Cell R} {fid : Nat} {t : Tri} (h : deleteFace c fid = .ok c')
    (ht : (slots c)[fid]? = some (some t)) (hI : EdgeIdxComplete c) : EdgeIdxComplete c' := by
  obtain ⟨f, hfa, hu, hft⟩ := slot_some_iff.1 ht
  have D := deleteFace_spec h ht
  refine (deleteFace_idxP h hfa hI).congr (fun g k => ?_)
  unfold SideK
  rw [D.slots_eq]
  by_cases hg : g = fid
  · subst hg
    have hlt : g < (slots c).length := (List.getElem?_eq_some_iff.1 ht).1
    rw [List.getElem?_set_self hlt]
    constructor
    · rintro ⟨⟨t', ht', hk⟩, hn⟩
      rw [ht] at ht'; cases ht'
      exact (hn ⟨rfl, by rw [hft]; exact hk⟩).elim
    · rintro ⟨t', ht', _⟩; cases ht'
  · rw [List.getElem?_set_ne (Ne.symm hg)]
    exact ⟨fun hh => hh.1, fun hh => ⟨hh, fun h1 => hg h1.1⟩⟩

theorem edgeIdxComplete_congr {c c' : Cell R} (hs : slots c' = slots c) (he : c'.edges = c.edges)
    (h : EdgeIdxComplete c) : EdgeIdxComplete c' := by
  unfold EdgeIdxComplete; rw [hs, he]; exact h

end

end Simu.Remesh
